(* ASeedsFacts.v -- SPEC (definitions are fixed; prove the theorems).
   Attractor-seed expansion (ASeeds.expand_aseeds): it only uses the plain primitives of the diagram, so all
   invariants of plain histories are preserved; it terminates; and, when every NFVS on the tape hits every
   negative cycle of the successor it was computed for (the contract of C08), a run reporting completion leaves
   no attractor and no minimal trap space unserved: pruned successors contain no attractor that is not already
   inside an expanded sibling. *)
From Coq Require Import List Bool Arith NArith Lia Permutation.
Import ListNotations.
From BB Require Import BN Brute SpaceFacts TrapFacts PercolateFacts AttractorFacts Filter FilterFacts Diagram Invariants
  DiagramStruct DiagramSem1 DiagramCache DiagramComplete DiagramDepth Termination MinExpandFacts
  Candidates CandidatesFacts Signed ReductionFacts Blocks BlocksFacts OwnerFacts PartialOwner ASeeds.

(* log twin: one entry (successor space, NFVS read from the tape) per evaluation of has_new_candidate *)
Fixpoint aseeds_inner_log (N : net) (d : sd) (node : nat) (seen : list nat) (succ : list nat)
         (tape : list (list nat)) : list (space * list nat) :=
  match succ with
  | [] => []
  | s :: r =>
      if mem_nat s seen then aseeds_inner_log N d node seen r tape
      else if n_exp (get d s) then []
      else (n_space (get d s), hd [] tape) ::
           (if has_new_candidate N d node s (hd [] tape) then [] else aseeds_inner_log N d node seen r (tl tape))
  end.

Fixpoint aseeds_loop_log (fuel : nat) (N : net) (cfg : config) (size_limit : option nat)
         (d : sd) (seen : list nat) (stack : list (nat * option (list nat))) (tape : list (list nat))
  : list (space * list nat) :=
  match fuel with
  | O => []
  | S f =>
      match stack with
      | [] => []
      | (x, osucc) :: stack' =>
          let step :=
            match osucc with
            | Some l => Some (d, RUnit, l)
            | None => if over_limit size_limit d && negb (n_exp (get d x)) then None
                      else let '(d1, r, succ) := node_successors N cfg d x in Some (d1, r, sort_nat succ)
            end in
          match step with
          | None => []
          | Some (d1, r, succ) =>
              match r with
              | RUnit =>
                  let here := aseeds_inner_log N d1 x seen succ tape in
                  let '(succ2, tape2) := aseeds_inner N d1 x seen succ tape in
                  match succ2 with
                  | [] => here ++ aseeds_loop_log f N cfg size_limit d1 seen stack' tape2
                  | s :: rest => here ++ aseeds_loop_log f N cfg size_limit d1 (s :: seen) ((s, None) :: (x, Some rest) :: stack') tape2
                  end
              | _ => []
              end
          end
      end
  end.

Definition expand_aseeds_log (fuel : nat) (N : net) (cfg : config) (d : sd) (size_limit : option nat)
           (min_tape : list space) (tape : list (list nat)) : list (space * list nat) :=
  let '(d0, r0) := expand_min fuel N cfg d None size_limit false min_tape in
  match r0 with
  | RRaised _ | RFuel => []
  | _ => aseeds_loop_log fuel N cfg size_limit d0 [0] [(0, None)] tape
  end.

(* contract of the tape (checked at run time by the extracted no_neg_walk_b) *)
Definition nfvs_log_ok (N : net) (lg : list (space * list nat)) : Prop :=
  forall sp nfvs, In (sp, nfvs) lg ->
    NoDup nfvs /\ (forall v, In v nfvs -> v < nvars N) /\ no_neg_walk N sp nfvs.

(* the invariants of plain histories *)
Definition PlainInv (N : net) (d : sd) : Prop :=
  SWF N d /\ TrapNodes N d /\ EdgeStrict d /\ NoStubEdges d /\ Rooted d /\ Faithful N d /\ NoSkips d /\
  n_space (get d 0) = percolate_b N (top_space (nvars N)).

(* ---- to prove ---- *)

Local Arguments percolate_b : simpl never.
Local Arguments expand_one : simpl never.
Local Arguments node_successors : simpl never.
Local Arguments ensure_node : simpl never.
Local Arguments max_traps_b : simpl never.
Local Arguments min_traps_b : simpl never.
Local Arguments upd_node : simpl never.
Local Arguments sort_nat : simpl never.
Local Arguments over_limit : simpl never.
Local Arguments has_new_candidate : simpl never.
Local Arguments expand_min : simpl never.
Local Arguments heuristic_retained : simpl never.
Local Arguments reduced_fixed_b : simpl never.
Local Arguments aseeds_inner : simpl never.
Local Arguments aseeds_inner_log : simpl never.
Local Arguments Nat.pow : simpl never.
Local Arguments Nat.mul : simpl never.

(* ====================================================================== *)
(* PART 0 -- the inner loop                                                *)
(* ====================================================================== *)

Lemma aseeds_inner_cons : forall N d node seen s r tape,
  aseeds_inner N d node seen (s :: r) tape =
  if mem_nat s seen then aseeds_inner N d node seen r tape
  else if n_exp (get d s) then (s :: r, tape)
  else if has_new_candidate N d node s (hd [] tape) then (s :: r, tl tape)
  else aseeds_inner N d node seen r (tl tape).
Proof. reflexivity. Qed.

Lemma aseeds_inner_nil : forall N d node seen tape, aseeds_inner N d node seen [] tape = ([], tape).
Proof. reflexivity. Qed.

Lemma aseeds_inner_log_cons : forall N d node seen s r tape,
  aseeds_inner_log N d node seen (s :: r) tape =
  if mem_nat s seen then aseeds_inner_log N d node seen r tape
  else if n_exp (get d s) then []
  else (n_space (get d s), hd [] tape) ::
       (if has_new_candidate N d node s (hd [] tape) then [] else aseeds_inner_log N d node seen r (tl tape)).
Proof. reflexivity. Qed.

(* the inner loop and its log twin walk in lockstep: the remaining successors are a suffix, every
   dropped successor is already seen or an unexpanded stub whose (logged) test found no new candidate *)
Lemma aseeds_inner_spec : forall N d node seen succ tape succ2 tape2,
  aseeds_inner N d node seen succ tape = (succ2, tape2) ->
  exists pre, succ = pre ++ succ2 /\
    (forall s, In s pre -> In s seen \/
       (n_exp (get d s) = false /\
        exists nfvs, In (n_space (get d s), nfvs) (aseeds_inner_log N d node seen succ tape) /\
                     has_new_candidate N d node s nfvs = false)) /\
    match succ2 with [] => True | s :: _ => mem_nat s seen = false end.
Proof.
  intros N d node seen succ. induction succ as [|s r IH]; intros tape succ2 tape2 E.
  - rewrite aseeds_inner_nil in E. injection E as E1 E2. subst succ2 tape2.
    exists []. split; [reflexivity|]. split; [intros s []|exact I].
  - rewrite aseeds_inner_cons in E. rewrite aseeds_inner_log_cons.
    destruct (mem_nat s seen) eqn:Em.
    { destruct (IH tape succ2 tape2 E) as (pre & Hpre & Hdrop & Hhead).
      exists (s :: pre). split; [simpl; rewrite Hpre; reflexivity|]. split; [|exact Hhead].
      intros s0 [Heq|Hin]; [subst s0; left; apply Termination.mem_nat_In; exact Em|].
      apply Hdrop. exact Hin. }
    destruct (n_exp (get d s)) eqn:Ex.
    { injection E as E1 E2. subst succ2 tape2. exists []. split; [reflexivity|].
      split; [intros s0 []|exact Em]. }
    destruct (has_new_candidate N d node s (hd [] tape)) eqn:Eh.
    { injection E as E1 E2. subst succ2 tape2. exists []. split; [reflexivity|].
      split; [intros s0 []|exact Em]. }
    destruct (IH (tl tape) succ2 tape2 E) as (pre & Hpre & Hdrop & Hhead).
    exists (s :: pre). split; [simpl; rewrite Hpre; reflexivity|]. split; [|exact Hhead].
    intros s0 [Heq|Hin].
    + subst s0. right. split; [exact Ex|]. exists (hd [] tape). split; [left; reflexivity|exact Eh].
    + destruct (Hdrop s0 Hin) as [Hs|(Hx & nfvs & Hlog & Hn)]; [left; exact Hs|].
      right. split; [exact Hx|]. exists nfvs. split; [right; exact Hlog|exact Hn].
Qed.

Lemma aseeds_inner_incl : forall N d node seen succ tape succ2 tape2,
  aseeds_inner N d node seen succ tape = (succ2, tape2) -> forall y, In y succ2 -> In y succ.
Proof.
  intros N d node seen succ tape succ2 tape2 E y Hy.
  destruct (aseeds_inner_spec N d node seen succ tape succ2 tape2 E) as (pre & Hpre & _).
  rewrite Hpre. apply in_or_app. right. exact Hy.
Qed.

Lemma aseeds_inner_head : forall N d node seen succ tape s rest tape2,
  aseeds_inner N d node seen succ tape = (s :: rest, tape2) -> mem_nat s seen = false.
Proof.
  intros N d node seen succ tape s rest tape2 E.
  destruct (aseeds_inner_spec N d node seen succ tape (s :: rest) tape2 E) as (_ & _ & _ & H). exact H.
Qed.

(* ====================================================================== *)
(* PART 1 -- the loop only uses expand_one                                 *)
(* ====================================================================== *)

Lemma expand_min_step : forall fuel N cfg d sz tape,
  expand_min fuel N cfg d None sz false tape = step fuel N cfg d (OMin None sz false tape).
Proof. reflexivity. Qed.

(* one iteration of the outer loop, once the successors are known *)
Definition loop_tail (f : nat) (N : net) (cfg : config) (sz : option nat) (d1 : sd) (x : nat)
           (seen : list nat) (stack' : list (nat * option (list nat))) (succ : list nat)
           (tape : list (list nat)) : sd * result :=
  let '(succ2, tape2) := aseeds_inner N d1 x seen succ tape in
  match succ2 with
  | [] => aseeds_loop f N cfg sz d1 seen stack' tape2
  | s :: rest => aseeds_loop f N cfg sz d1 (s :: seen) ((s, None) :: (x, Some rest) :: stack') tape2
  end.

Lemma aseeds_loop_S : forall f N cfg sz d seen x osucc stack' tape,
  aseeds_loop (S f) N cfg sz d seen ((x, osucc) :: stack') tape =
  match osucc with
  | Some l => loop_tail f N cfg sz d x seen stack' l tape
  | None =>
      if over_limit sz d && negb (n_exp (get d x)) then (d, RBool false)
      else match expand_one N cfg d x with
           | (d1, RUnit) => loop_tail f N cfg sz d1 x seen stack' (sort_nat (successors d1 x)) tape
           | (d1, r) => (d1, r)
           end
  end.
Proof.
  intros f N cfg sz d seen x osucc stack' tape. cbn [aseeds_loop]. destruct osucc as [l|].
  - reflexivity.
  - destruct (over_limit sz d && negb (n_exp (get d x))); [reflexivity|].
    unfold node_successors. destruct (expand_one N cfg d x) as [d1 r].
    destruct r; reflexivity.
Qed.

Section ASeedsTransfer.
  Variable N : net.
  Variable cfg : config.
  Variable Q : sd -> Prop.
  Hypothesis Q_expand : forall d x, Q d -> x < size d -> Q (fst (expand_one N cfg d x)).

  Lemma AT_expand : forall d x, Q d -> Q (fst (expand_one N cfg d x)).
  Proof.
    intros d x Hq. destruct (lt_dec x (size d)) as [Hx|Hx]; [apply Q_expand; assumption|].
    rewrite expand_one_beyond by lia. exact Hq.
  Qed.

  Lemma AT_loop : forall fuel d seen stack sz tape, Q d ->
    Q (fst (aseeds_loop fuel N cfg sz d seen stack tape)) /\
    extends d (fst (aseeds_loop fuel N cfg sz d seen stack tape)).
  Proof.
    induction fuel as [|f IH]; intros d seen stack sz tape Hq.
    - simpl. split; [exact Hq|apply extends_refl].
    - destruct stack as [|[x osucc] stack'].
      { simpl. split; [exact Hq|apply extends_refl]. }
      rewrite aseeds_loop_S.
      assert (Htail : forall d1 succ, Q d1 -> extends d d1 ->
                Q (fst (loop_tail f N cfg sz d1 x seen stack' succ tape)) /\
                extends d (fst (loop_tail f N cfg sz d1 x seen stack' succ tape))).
      { intros d1 succ Hq1 He1. unfold loop_tail.
        destruct (aseeds_inner N d1 x seen succ tape) as [succ2 tape2].
        destruct succ2 as [|s rest].
        - destruct (IH d1 seen stack' sz tape2 Hq1) as [A B].
          split; [exact A|eapply extends_trans; eauto].
        - destruct (IH d1 (s :: seen) ((s, None) :: (x, Some rest) :: stack') sz tape2 Hq1) as [A B].
          split; [exact A|eapply extends_trans; eauto]. }
      destruct osucc as [l|].
      + apply Htail; [exact Hq|apply extends_refl].
      + destruct (over_limit sz d && negb (n_exp (get d x))).
        { simpl. split; [exact Hq|apply extends_refl]. }
        pose proof (AT_expand d x Hq) as Hq1. pose proof (expand_one_extends N cfg d x) as He1.
        destruct (expand_one N cfg d x) as [d1 r]. simpl in Hq1, He1.
        destruct r; try (simpl; split; assumption).
        apply Htail; assumption.
  Qed.
End ASeedsTransfer.

Theorem expand_aseeds_transfer : forall N cfg (P : sd -> Prop),
  (forall d x, SWF N d -> P d -> x < size d -> P (fst (expand_one N cfg d x))) ->
  forall fuel d seen stack sz tape, SWF N d -> P d ->
    (forall x o, In (x, o) stack -> x < size d) ->
    P (fst (aseeds_loop fuel N cfg sz d seen stack tape)).
Proof.
  intros N cfg P HP fuel d seen stack sz tape Hswf Hp _.
  assert (H : (SWF N (fst (aseeds_loop fuel N cfg sz d seen stack tape)) /\
               P (fst (aseeds_loop fuel N cfg sz d seen stack tape))) /\
              extends d (fst (aseeds_loop fuel N cfg sz d seen stack tape))).
  { apply (AT_loop N cfg (fun d0 => SWF N d0 /\ P d0)).
    - intros d0 x [H1 H2] Hx. split; [apply expand_one_SWF; assumption|apply HP; assumption].
    - split; assumption. }
  exact (proj2 (proj1 H)).
Qed.

Lemma aseeds_loop_SWF_extends : forall fuel N cfg d seen stack sz tape, SWF N d ->
  SWF N (fst (aseeds_loop fuel N cfg sz d seen stack tape)) /\
  extends d (fst (aseeds_loop fuel N cfg sz d seen stack tape)).
Proof.
  intros fuel N cfg d seen stack sz tape Hswf.
  apply (AT_loop N cfg (SWF N)); [|exact Hswf].
  intros d0 x H Hx. apply expand_one_SWF; assumption.
Qed.

(* a property kept by plain OMin steps and by expand_one is kept by the strategy *)
Lemma expand_aseeds_keeps : forall N cfg (P : sd -> Prop),
  (forall fuel d sz tape, P d -> P (fst (step fuel N cfg d (OMin None sz false tape)))) ->
  (forall d x, P d -> x < size d -> P (fst (expand_one N cfg d x))) ->
  forall fuel d sz min_tape tape, P d -> P (fst (expand_aseeds fuel N cfg d sz min_tape tape)).
Proof.
  intros N cfg P Hmin Hexp fuel d sz min_tape tape Hp. unfold expand_aseeds.
  pose proof (Hmin fuel d sz min_tape Hp) as Hp0. rewrite <- expand_min_step in Hp0.
  destruct (expand_min fuel N cfg d None sz false min_tape) as [d0 r0]. simpl in Hp0.
  destruct r0; try exact Hp0; apply (AT_loop N cfg P Hexp); exact Hp0.
Qed.

Lemma PlainInv_expand_one : forall N cfg d x, 1 <= max_motifs cfg -> PlainInv N d -> x < size d ->
  PlainInv N (fst (expand_one N cfg d x)).
Proof.
  intros N cfg d x Hmm (H1 & H2 & H3 & H4 & H5 & H6 & H7 & H8) Hx.
  split; [apply expand_one_SWF; assumption|].
  split; [apply (expand_one_transfer_trap N (TrapNodes N) (prim_closed_trap_TrapNodes N)); assumption|].
  split; [apply expand_one_ES; assumption|].
  split; [apply expand_one_NSE; assumption|].
  split; [apply expand_one_Rooted; assumption|].
  split; [apply expand_one_Faithful; assumption|].
  split; [apply NoSkips_NSk; apply NSk_expand_one; apply NoSkips_NSk; exact H7|].
  rewrite <- H8. apply extends_space; [apply expand_one_extends|apply (swf_size N d H1)].
Qed.

Lemma PlainInv_step_min : forall fuel N cfg d sz tape, 1 <= max_motifs cfg -> PlainInv N d ->
  PlainInv N (fst (step fuel N cfg d (OMin None sz false tape))).
Proof.
  intros fuel N cfg d sz tape Hmm (H1 & H2 & H3 & H4 & H5 & H6 & H7 & H8).
  assert (Hpl : plain (OMin None sz false tape)) by reflexivity.
  destruct (step_AllInv fuel N cfg d _ Hmm Hpl (conj H1 (conj H2 (conj H3 (conj H4 (conj H5 H6))))))
    as (K1 & K2 & K3 & K4 & K5 & K6).
  split; [exact K1|]. split; [exact K2|]. split; [exact K3|]. split; [exact K4|].
  split; [exact K5|]. split; [exact K6|].
  split; [apply noskips_plain; assumption|].
  rewrite root_stable by exact H1. exact H8.
Qed.

Theorem expand_aseeds_PlainInv : forall fuel N cfg d sz min_tape tape, 1 <= max_motifs cfg ->
  PlainInv N d -> PlainInv N (fst (expand_aseeds fuel N cfg d sz min_tape tape)).
Proof.
  intros fuel N cfg d sz min_tape tape Hmm Hp.
  apply (expand_aseeds_keeps N cfg (PlainInv N)); [| |exact Hp].
  - intros fuel0 d0 sz0 tape0 H0. apply PlainInv_step_min; assumption.
  - intros d0 x H0 Hx. apply PlainInv_expand_one; assumption.
Qed.

Theorem expand_aseeds_extends : forall fuel N cfg d sz min_tape tape, SWF N d ->
  extends d (fst (expand_aseeds fuel N cfg d sz min_tape tape)).
Proof.
  intros fuel N cfg d sz min_tape tape Hswf.
  assert (H : SWF N (fst (expand_aseeds fuel N cfg d sz min_tape tape)) /\
              extends d (fst (expand_aseeds fuel N cfg d sz min_tape tape))).
  { apply (expand_aseeds_keeps N cfg (fun d0 => SWF N d0 /\ extends d d0)).
    - intros fuel0 d0 sz0 tape0 [H1 H2]. split; [apply step_SWF; exact H1|].
      eapply extends_trans; [exact H2|apply step_extends; exact H1].
    - intros d0 x [H1 H2] Hx. split; [apply expand_one_SWF; assumption|].
      eapply extends_trans; [exact H2|apply expand_one_extends].
    - split; [exact Hswf|apply extends_refl]. }
  exact (proj2 H).
Qed.

Theorem expand_aseeds_CacheOK : forall fuel N cfg d sz min_tape tape, 1 <= max_motifs cfg ->
  SWF N d -> NoStubEdges d -> CacheOK d -> CacheOK (fst (expand_aseeds fuel N cfg d sz min_tape tape)).
Proof.
  intros fuel N cfg d sz min_tape tape _ Hswf Hn Hc.
  assert (H : SNC N (fst (expand_aseeds fuel N cfg d sz min_tape tape))).
  { apply (expand_aseeds_keeps N cfg (SNC N)).
    - intros fuel0 d0 sz0 tape0 H0. apply step_SNC. exact H0.
    - intros d0 x H0 _. apply expand_one_SNC. exact H0.
    - split; [exact Hswf|]. split; assumption. }
  apply H.
Qed.

Theorem expand_aseeds_LeafOK : forall fuel N cfg d sz min_tape tape, 1 <= max_motifs cfg ->
  PlainInv N d -> LeafOK N d -> LeafOK N (fst (expand_aseeds fuel N cfg d sz min_tape tape)).
Proof.
  intros fuel N cfg d sz min_tape tape Hmm Hp Hl.
  assert (H : PlainInv N (fst (expand_aseeds fuel N cfg d sz min_tape tape)) /\
              LeafOK N (fst (expand_aseeds fuel N cfg d sz min_tape tape))).
  { apply (expand_aseeds_keeps N cfg (fun d0 => PlainInv N d0 /\ LeafOK N d0)).
    - intros fuel0 d0 sz0 tape0 [H1 H2]. split; [apply PlainInv_step_min; assumption|].
      destruct H1 as (K1 & K2 & K3 & K4 & K5 & K6 & K7 & K8).
      apply step_LeafOK_weak; assumption.
    - intros d0 x [H1 H2] Hx. split; [apply PlainInv_expand_one; assumption|].
      destruct H1 as (K1 & K2 & K3 & K4 & K5 & K6 & K7 & K8).
      apply expand_one_LeafOK; assumption.
    - split; assumption. }
  exact (proj2 H).
Qed.

(* ====================================================================== *)
(* PART 2 -- termination                                                   *)
(* ====================================================================== *)

Lemma aseeds_loop_terminates : forall fuel N cfg sz d seen stack tape,
  SWF N d -> seen_ok d seen -> stack_ok d stack ->
  2 * (max_nodes N - length seen) + length stack + 1 <= fuel ->
  snd (aseeds_loop fuel N cfg sz d seen stack tape) <> RFuel.
Proof.
  induction fuel as [|f IH]; intros N cfg sz d seen stack tape Hswf Hok Hst Hfuel; [lia|].
  destruct stack as [|[x osucc] stack']; [simpl; discriminate|].
  rewrite aseeds_loop_S. simpl length in Hfuel.
  assert (Hst' : stack_ok d stack') by (eapply stack_ok_tail; exact Hst).
  assert (Htail : forall d1 succ, SWF N d1 -> extends d d1 ->
            (forall s, In s succ -> s < size d1) ->
            snd (loop_tail f N cfg sz d1 x seen stack' succ tape) <> RFuel).
  { intros d1 succ Hswf1 Hext Hlt. unfold loop_tail.
    assert (Hok1 : seen_ok d1 seen) by (eapply seen_ok_extends; eassumption).
    assert (Hst1 : stack_ok d1 stack') by (eapply stack_ok_extends; eassumption).
    destruct (aseeds_inner N d1 x seen succ tape) as [succ2 tape2] eqn:Ei.
    destruct succ2 as [|s rest].
    - apply IH; [exact Hswf1|exact Hok1|exact Hst1|lia].
    - pose proof (aseeds_inner_head _ _ _ _ _ _ _ _ _ Ei) as Hm.
      pose proof (aseeds_inner_incl _ _ _ _ _ _ _ _ Ei) as Hin.
      assert (Hok2 : seen_ok d1 (s :: seen)).
      { apply seen_ok_cons; [exact Hok1|exact Hm|]. apply Hlt. apply Hin. left. reflexivity. }
      apply IH; [exact Hswf1|exact Hok2| |].
      + apply stack_ok_push; [|exact Hst1].
        intros y Hy. apply Hlt. apply Hin. right. exact Hy.
      + simpl length at 2. eapply push_measure; eassumption. }
  destruct osucc as [l|].
  - apply Htail; [exact Hswf|apply extends_refl|].
    intros s Hs. eapply Hst; [left; reflexivity|exact Hs].
  - destruct (over_limit sz d && negb (n_exp (get d x))); [simpl; discriminate|].
    pose proof (Termination.expand_one_result N cfg d x) as Hres.
    pose proof (expand_one_extends N cfg d x) as Hext.
    assert (Hswf1 : SWF N (fst (expand_one N cfg d x))).
    { apply (expand_one_transfer N (SWF N) (prim_closed_SWF N)); exact Hswf. }
    destruct (expand_one N cfg d x) as [d1 r]. simpl in Hres, Hext, Hswf1.
    destruct Hres as [Hres|Hres]; subst r; [|simpl; discriminate].
    apply Htail; [exact Hswf1|exact Hext|].
    intros s Hs. apply sort_nat_In in Hs. eapply successors_valid; eassumption.
Qed.

Theorem expand_aseeds_terminates : forall fuel N cfg d sz min_tape tape, SWF N d ->
  2 * max_nodes N + 3 <= fuel -> snd (expand_aseeds fuel N cfg d sz min_tape tape) <> RFuel.
Proof.
  intros fuel N cfg d sz min_tape tape Hswf Hfuel. unfold expand_aseeds.
  pose proof (step_terminates fuel N cfg d (OMin None sz false min_tape) Hswf Hfuel) as Hr0.
  pose proof (step_SWF fuel N cfg d (OMin None sz false min_tape) Hswf) as Hswf0.
  rewrite <- expand_min_step in Hr0, Hswf0.
  destruct (expand_min fuel N cfg d None sz false min_tape) as [d0 r0]. simpl in Hr0, Hswf0.
  assert (Hloop : snd (aseeds_loop fuel N cfg sz d0 [0] [(0, None)] tape) <> RFuel).
  { apply aseeds_loop_terminates; [exact Hswf0| | |].
    - apply seen_ok_single. apply (swf_size N d0 Hswf0).
    - apply stack_ok_start.
    - simpl length. pose proof (size_bound N d0 Hswf0). pose proof (swf_size N d0 Hswf0). lia. }
  destruct r0; try exact Hloop; exact Hr0.
Qed.

(* ====================================================================== *)
(* PART 3 -- a pruned successor hides nothing                              *)
(* ====================================================================== *)

Lemma NoDup_map_filter : forall (A B : Type) (f : A -> B) (p : A -> bool) (l : list A),
  NoDup (map f l) -> NoDup (map f (filter p l)).
Proof.
  intros A B f p l. induction l as [|a l IH]; intro H; simpl; [constructor|].
  inversion H as [|? ? Hn Hd]; subst. destruct (p a); simpl; [|apply IH; exact Hd].
  constructor; [|apply IH; exact Hd].
  intro Hin. apply Hn. apply in_map_iff in Hin. destruct Hin as (x & Hx & Hin).
  apply filter_In in Hin. apply in_map_iff. exists x. split; [exact Hx|apply Hin].
Qed.

Lemma fixed_list_keys_gen : forall (a : space) (l : list nat),
  map fst (flat_map (fun v => match nth v a None with Some b => [(v, b)] | None => [] end) l) =
  filter (fun v => match nth v a None with Some _ => true | None => false end) l.
Proof.
  intros a l. induction l as [|v l IH]; simpl; [reflexivity|].
  rewrite map_app, IH. destruct (nth v a None); reflexivity.
Qed.

Lemma fixed_list_NoDup : forall a, NoDup (map fst (fixed_list a)).
Proof.
  intro a. unfold fixed_list. rewrite fixed_list_keys_gen. apply NoDup_filter. apply seq_NoDup.
Qed.

Lemma ret_mem_app : forall v R R', ret_mem v (R ++ R') = ret_mem v R || ret_mem v R'.
Proof. intros v R R'. unfold ret_mem. apply existsb_app. Qed.

Lemma heuristic_fold_total : forall (g : nat -> bool) l R0, NoDup (map fst R0) ->
  NoDup (map fst (fold_left (fun R v => if ret_mem v R then R else R ++ [(v, g v)]) l R0)) /\
  forall w, ret_mem w (fold_left (fun R v => if ret_mem v R then R else R ++ [(v, g v)]) l R0) = true <->
            (ret_mem w R0 = true \/ In w l).
Proof.
  intros g l. induction l as [|v l IH]; intros R0 Hnd; simpl.
  - split; [exact Hnd|]. intro w. split; [intro H; left; exact H|intros [H|[]]; exact H].
  - destruct (ret_mem v R0) eqn:Ev.
    + destruct (IH R0 Hnd) as [A B]. split; [exact A|]. intro w. rewrite B. split.
      * intros [H|H]; [left; exact H|right; right; exact H].
      * intros [H|[H|H]]; [left; exact H|subst w; left; exact Ev|right; exact H].
    + assert (Hnd1 : NoDup (map fst (R0 ++ [(v, g v)]))).
      { rewrite map_app. simpl. apply NoDup_app_disjoint; [exact Hnd|constructor; [intros []|constructor]|].
        intros x Hx [Heq|[]]. subst x. apply C_ret_mem_In in Hx. congruence. }
      destruct (IH _ Hnd1) as [A B]. split; [exact A|]. intro w. rewrite B, ret_mem_app.
      unfold ret_mem at 2. simpl. rewrite orb_false_r. split.
      * intros [H|H]; [|right; right; exact H]. apply orb_prop in H.
        destruct H as [H|H]; [left; exact H|]. apply Nat.eqb_eq in H. right. left. exact H.
      * intros [H|[H|H]]; [left; rewrite H; reflexivity| |right; exact H].
        left. subst w. rewrite Nat.eqb_refl. apply orb_true_r.
Qed.

Theorem heuristic_retained_total : forall N S nfvs avoid, NoDup nfvs ->
  retained_total nfvs (heuristic_retained N S nfvs avoid).
Proof.
  intros N S nfvs avoid _. unfold heuristic_retained.
  set (r0 := match avoid with
             | [] => []
             | a0 :: _ => filter (fun p : nat * bool => existsb (Nat.eqb (fst p)) nfvs)
                            (fixed_list (least_common a0 (common_count a0 nfvs) avoid nfvs))
             end).
  assert (Hnd0 : NoDup (map fst r0)).
  { unfold r0. destruct avoid as [|a0 r]; [constructor|].
    apply NoDup_map_filter. apply fixed_list_NoDup. }
  assert (Hin0 : forall w, ret_mem w r0 = true -> In w nfvs).
  { intros w Hw. apply C_ret_mem_In in Hw. unfold r0 in Hw. destruct avoid as [|a0 r]; [destruct Hw|].
    apply in_map_iff in Hw. destruct Hw as (p & Hp & Hin). apply filter_In in Hin.
    destruct Hin as [_ Hex]. apply existsb_exists in Hex. destruct Hex as (y & Hy & Heq).
    apply Nat.eqb_eq in Heq. subst w. rewrite Heq. exact Hy. }
  destruct (heuristic_fold_total (majority N S) nfvs r0 Hnd0) as [A B].
  split; [exact A|]. intro w. rewrite B. split.
  - intros [H|H]; [apply Hin0; exact H|exact H].
  - intro H. right. exact H.
Qed.

(* for states of the parent space, the reduced child motif and the motif itself agree *)
Lemma in_space_reduce_by : forall s (x sp : space), in_space s sp = true -> subspace x sp = true ->
  in_space s (reduce_by x sp) = in_space s x.
Proof.
  induction s as [|b s IH]; intros [|a x] [|p sp] Hin Hsub; simpl in *; try reflexivity; try discriminate.
  apply andb_prop in Hin. destruct Hin as [Hb Hin]. apply andb_prop in Hsub. destruct Hsub as [Ha Hsub].
  unfold reduce_by in *. simpl. rewrite (IH x sp Hin Hsub). f_equal.
  destruct p as [v|]; simpl; [|reflexivity].
  destruct a as [w|]; [|discriminate Ha].
  apply eqb_prop in Hb. apply eqb_prop in Ha. subst. symmetry. apply eqb_reflx.
Qed.

Lemma intersect_sub_l : forall x y z, intersect x y = Some z -> subspace z x = true.
Proof.
  intros x y z H. apply subspace_spec; [apply (intersect_length x y z H)|].
  intros s Hs. rewrite (intersect_spec_some x y z H s) in Hs. apply andb_prop in Hs. apply Hs.
Qed.

Definition aseeds_avoid (d : sd) (node s : nat) : list space :=
  flat_map (fun m => match intersect (n_space (get d s)) m with Some x => [x] | None => [] end)
           (expanded_motifs d node).

Lemma has_new_candidate_unfold : forall N d node s nfvs,
  has_new_candidate N d node s nfvs =
  match reduced_fixed_b N (ret_space (nvars N) (heuristic_retained N (n_space (get d s)) nfvs (aseeds_avoid d node s)))
          (n_space (get d s)) (map (fun x => reduce_by x (n_space (get d s))) (aseeds_avoid d node s)) with
  | [] => false
  | _ => true
  end.
Proof. reflexivity. Qed.

Lemma aseeds_avoid_In : forall d node s a, In a (aseeds_avoid d node s) ->
  exists m, In m (expanded_motifs d node) /\ intersect (n_space (get d s)) m = Some a.
Proof.
  intros d node s a Ha. unfold aseeds_avoid in Ha. apply in_flat_map in Ha.
  destruct Ha as (m & Hm & Ha). exists m. split; [exact Hm|].
  destruct (intersect (n_space (get d s)) m) as [x|]; [|destruct Ha].
  destruct Ha as [Ha|[]]. subst x. reflexivity.
Qed.

Lemma existsb_reduce_by : forall st sp avoid, in_space st sp = true ->
  (forall a, In a avoid -> subspace a sp = true) ->
  existsb (in_space st) (map (fun x => reduce_by x sp) avoid) = existsb (in_space st) avoid.
Proof.
  intros st sp avoid Hst. induction avoid as [|a r IH]; intro Hsub; simpl; [reflexivity|].
  rewrite in_space_reduce_by; [|exact Hst|apply Hsub; left; reflexivity].
  rewrite IH; [reflexivity|]. intros a0 Ha0. apply Hsub. right. exact Ha0.
Qed.

Theorem no_new_candidate_sound : forall N d node s nfvs A,
  SWF N d -> TrapNodes N d -> node < size d -> s < size d ->
  (forall m, In m (expanded_motifs d node) -> trap_space N m) ->
  NoDup nfvs -> (forall v, In v nfvs -> v < nvars N) -> no_neg_walk N (n_space (get d s)) nfvs ->
  has_new_candidate N d node s nfvs = false ->
  attractor N A -> inside A (n_space (get d s)) ->
  exists m, In m (expanded_motifs d node) /\ inside A m.
Proof.
  intros N d node s nfvs A Hswf Htn _ Hs Hmot Hnd Hlt Hnw Hh Hatt Hin.
  pose proof (TrapNodes_get N d s Htn Hs) as Hsp.
  remember (n_space (get d s)) as sp eqn:Esp.
  remember (aseeds_avoid d node s) as avoid eqn:Eav.
  assert (Hav : forall a, In a avoid -> exists m, In m (expanded_motifs d node) /\ intersect sp m = Some a).
  { intros a Ha. subst avoid sp. apply aseeds_avoid_In. exact Ha. }
  assert (Havt : forall a, In a avoid -> trap_space N a).
  { intros a Ha. destruct (Hav a Ha) as (m & Hm & Hi).
    apply (trap_space_intersect N sp m a Hsp (Hmot m Hm) Hi). }
  assert (Havs : forall a, In a avoid -> subspace a sp = true).
  { intros a Ha. destruct (Hav a Ha) as (m & _ & Hi). apply (intersect_sub_l sp m a Hi). }
  pose proof (nfvs_reduction N sp avoid nfvs Hsp Havt Hnd Hlt Hnw
                (heuristic_retained N sp nfvs avoid) (heuristic_retained_total N sp nfvs avoid Hnd)) as Hcov.
  assert (Hempty : reduced_fixed_b N (ret_space (nvars N) (heuristic_retained N sp nfvs avoid)) sp avoid = []).
  { rewrite has_new_candidate_unfold in Hh. rewrite <- Esp, <- Eav in Hh.
    destruct (reduced_fixed_b N (ret_space (nvars N) (heuristic_retained N sp nfvs avoid)) sp
                (map (fun x => reduce_by x sp) avoid)) as [|c l] eqn:E; [|discriminate Hh].
    rewrite <- E. unfold reduced_fixed_b. apply filter_ext_in. intros st Hst.
    apply states_of_spec in Hst. rewrite existsb_reduce_by by assumption. reflexivity. }
  rewrite Hempty in Hcov.
  pose proof Hatt as ((s0 & Hs0) & _).
  destruct (existsb (inside_b (reach_list N s0)) avoid) eqn:Ex.
  - apply existsb_exists in Ex. destruct Ex as (a & Ha & Hb).
    apply (inside_b_iff N A s0 a Hatt Hs0) in Hb.
    destruct (Hav a Ha) as (m & Hm & Hi). exists m. split; [exact Hm|].
    intros t Ht. pose proof (Hb t Ht) as Hta. rewrite (intersect_spec_some sp m a Hi t) in Hta.
    apply andb_prop in Hta. apply Hta.
  - exfalso. destruct (Hcov A) as (c & [] & _).
    split; [exact Hatt|]. split; [exact Hin|].
    intros (M & HM & HinM). apply F_existsb_false in Ex. apply Ex.
    exists M. split; [exact HM|]. apply (inside_b_iff N A s0 M Hatt Hs0). exact HinM.
Qed.

(* ====================================================================== *)
(* PART 4 -- completeness                                                  *)
(* ====================================================================== *)

(* ---------- 4a. expanded canonical nodes ---------- *)

Lemma expand_one_exp_other : forall N cfg d i j, j < size d -> j <> i ->
  n_exp (get (fst (expand_one N cfg d i)) j) = n_exp (get d j).
Proof.
  intros N cfg d i j Hj Hne. destruct (expand_one N cfg d i) as [d' r] eqn:E. simpl.
  destruct (expand_one_cases N cfg d i d' r E)
    as [(_ & A & _)|[(_ & _ & A & _)|[(_ & _ & _ & A & _)|(_ & _ & _ & A & _)]]]; subst d'.
  - reflexivity.
  - rewrite !get_upd_node_neq by lia. reflexivity.
  - rewrite get_upd_node_neq by lia. reflexivity.
  - rewrite get_upd_node_neq by lia.
    assert (Hj0 : j < size (upd_node d i clear_attr)) by (rewrite size_upd_node; exact Hj).
    destruct (ensure_all_old N (firstn (eo_k N cfg d i) (eo_all N d i)) (upd_node d i clear_attr) i j Hj0)
      as (_ & He & _).
    rewrite He. rewrite get_upd_node_neq by lia. reflexivity.
Qed.

Lemma PlainInv_space_len : forall N d i, PlainInv N d -> i < size d -> length (n_space (get d i)) = nvars N.
Proof. intros N d i (H & _) Hi. apply (swf_space_len N d i H Hi). Qed.

Lemma out_motif_child : forall N d x m, PlainInv N d -> x < size d -> n_exp (get d x) = true ->
  In m (out_motifs d x) ->
  In m (max_traps_b N (n_space (get d x)) (node_srcs N x)) /\ trap_space N m /\
  exists c, In c (successors d x) /\ percolate_b N m = n_space (get d c).
Proof.
  intros N d x m Hp Hx Hexp Hm. pose proof Hp as (Hswf & _ & _ & _ & _ & Hf & Hns & _).
  pose proof (Hf x Hx Hexp (Hns x Hx)) as Hcan. unfold canonical in Hcan.
  assert (Hmax : In m (max_traps_b N (n_space (get d x)) (node_srcs N x)))
    by (eapply Permutation_in; [exact Hcan|exact Hm]).
  split; [exact Hmax|].
  split; [apply (max_traps_b_trap N _ _ m (PlainInv_space_len N d x Hp Hx) Hmax)|].
  unfold out_motifs in Hm. apply in_flat_map in Hm. destruct Hm as (e & He & Hme).
  apply out_edges_In in He. destruct He as [He Hsrc].
  exists (e_dst e). split.
  - apply In_successors. exists e. split; [exact He|]. split; [exact Hsrc|reflexivity].
  - apply (swf_motif N d Hswf e m He Hme).
Qed.

Lemma expanded_motifs_In : forall d x m, In m (expanded_motifs d x) ->
  exists e, In e (sd_edges d) /\ e_src e = x /\ n_exp (get d (e_dst e)) = true /\ m = hd [] (e_motifs e).
Proof.
  intros d x m Hm. unfold expanded_motifs in Hm. apply in_flat_map in Hm.
  destruct Hm as (e & He & Hm). exists e. split; [exact He|].
  destruct (Nat.eqb (e_src e) x) eqn:Es; simpl in Hm; [|destruct Hm].
  destruct (n_exp (get d (e_dst e))) eqn:Ex; [|destruct Hm].
  destruct Hm as [Hm|[]]. apply Nat.eqb_eq in Es. split; [exact Es|]. split; [reflexivity|].
  symmetry. exact Hm.
Qed.

Lemma expanded_motif_facts : forall N d x m, PlainInv N d -> x < size d -> n_exp (get d x) = true ->
  In m (expanded_motifs d x) ->
  trap_space N m /\
  exists c', In c' (successors d x) /\ n_exp (get d c') = true /\
             forall A, attractor N A -> inside A m -> inside A (n_space (get d c')).
Proof.
  intros N d x m Hp Hx Hexp Hm. pose proof Hp as (Hswf & _).
  destruct (expanded_motifs_In d x m Hm) as (e & He & Hsrc & Hde & Hhd).
  destruct (swf_edges N d Hswf e He) as (_ & _ & Hne).
  assert (Hme : In m (e_motifs e)).
  { destruct (e_motifs e) as [|m0 r]; [exfalso; apply Hne; reflexivity|].
    simpl in Hhd. subst m. left. reflexivity. }
  assert (Hout : In m (out_motifs d x)).
  { unfold out_motifs. apply in_flat_map. exists e. split; [|exact Hme].
    apply out_edges_In. split; assumption. }
  destruct (out_motif_child N d x m Hp Hx Hexp Hout) as (_ & Htrap & _).
  split; [exact Htrap|]. exists (e_dst e). split.
  - apply In_successors. exists e. split; [exact He|]. split; [exact Hsrc|reflexivity].
  - split; [exact Hde|]. intros A Hatt Hin.
    rewrite <- (proj2 (swf_motif N d Hswf e m He Hme)). unfold inside.
    apply (attractor_in_percolation N A m Hatt Htrap). exact Hin.
Qed.

(* ---------- 4b. hidden successors ---------- *)

Definition hidden (N : net) (d : sd) (x c : nat) : Prop :=
  c < size d /\ n_exp (get d c) = false /\
  forall A, attractor N A -> inside A (n_space (get d c)) ->
    exists c', In c' (successors d x) /\ n_exp (get d c') = true /\ inside A (n_space (get d c')).

Definition settled (N : net) (d : sd) (seen : list nat) (x c : nat) : Prop :=
  In c seen \/ hidden N d x c.

Definition Fin (N : net) (d : sd) (seen : list nat) (x : nat) : Prop :=
  n_exp (get d x) = true /\ forall c, In c (successors d x) -> settled N d seen x c.

Definition entry_okA (N : net) (d : sd) (seen : list nat) (x : nat) (o : option (list nat)) : Prop :=
  In x seen /\
  match o with
  | None => True
  | Some rest =>
      n_exp (get d x) = true /\ (forall s, In s rest -> s < size d) /\
      forall s, In s (successors d x) -> settled N d seen x s \/ In s rest
  end.

Definition AInv (N : net) (d : sd) (seen : list nat) (stack : dstack) : Prop :=
  In 0 seen /\ (forall x, In x seen -> x < size d) /\
  (forall x, In x seen -> (exists o, In (x, o) stack) \/ Fin N d seen x) /\
  (forall x o, In (x, o) stack -> entry_okA N d seen x o).

Definition AMid (N : net) (d : sd) (seen : list nat) (stack : dstack) (x : nat) (l : list nat) : Prop :=
  In 0 seen /\ (forall y, In y seen -> y < size d) /\
  (forall y, In y seen -> y = x \/ (exists o, In (y, o) stack) \/ Fin N d seen y) /\
  (forall y o, In (y, o) stack -> entry_okA N d seen y o) /\
  entry_okA N d seen x (Some l).

Lemma hidden_of_test : forall N d x c nfvs, PlainInv N d -> x < size d -> n_exp (get d x) = true ->
  c < size d -> n_exp (get d c) = false ->
  NoDup nfvs -> (forall v, In v nfvs -> v < nvars N) -> no_neg_walk N (n_space (get d c)) nfvs ->
  has_new_candidate N d x c nfvs = false -> hidden N d x c.
Proof.
  intros N d x c nfvs Hp Hx Hexp Hc Hcx Hnd Hlt Hnw Hh.
  split; [exact Hc|]. split; [exact Hcx|]. intros A Hatt Hin.
  pose proof Hp as (Hswf & Htn & _).
  destruct (no_new_candidate_sound N d x c nfvs A Hswf Htn Hx Hc) as (m & Hm & HinM); try assumption.
  { intros m Hm. apply (expanded_motif_facts N d x m Hp Hx Hexp Hm). }
  destruct (expanded_motif_facts N d x m Hp Hx Hexp Hm) as (_ & c' & H1 & H2 & H3).
  exists c'. split; [exact H1|]. split; [exact H2|]. apply H3; assumption.
Qed.

Lemma settled_mono : forall N d seen seen' x c, (forall s, In s seen -> In s seen') ->
  settled N d seen x c -> settled N d seen' x c.
Proof. intros N d seen seen' x c Hincl [H|H]; [left; apply Hincl; exact H|right; exact H]. Qed.

Lemma hidden_expand : forall N cfg d i x c, SWF N d -> x < size d -> n_exp (get d x) = true ->
  c <> i -> hidden N d x c -> hidden N (fst (expand_one N cfg d i)) x c.
Proof.
  intros N cfg d i x c Hswf Hx Hexp Hne (Hc & Hcx & Hall).
  pose proof (expand_one_extends N cfg d i) as Hext.
  split; [eapply extends_lt; eauto|].
  split; [rewrite expand_one_exp_other by assumption; exact Hcx|].
  rewrite (extends_space _ _ c Hext Hc). intros A Hatt Hin.
  destruct (Hall A Hatt Hin) as (c' & H1 & H2 & H3).
  pose proof (successors_valid N d x c' Hswf H1) as Hc'.
  exists c'. split; [rewrite expand_one_stable by exact Hexp; exact H1|].
  split; [apply expand_one_keeps_exp; assumption|].
  rewrite (extends_space _ _ c' Hext Hc'). exact H3.
Qed.

Lemma settled_expand : forall N cfg d i seen x c, SWF N d -> x < size d -> n_exp (get d x) = true ->
  In i seen -> settled N d seen x c -> settled N (fst (expand_one N cfg d i)) seen x c.
Proof.
  intros N cfg d i seen x c Hswf Hx Hexp Hi [H|H]; [left; exact H|].
  destruct (Nat.eq_dec c i) as [Heq|Hne]; [left; subst c; exact Hi|].
  right. apply hidden_expand; assumption.
Qed.

Lemma Fin_mono : forall N d seen seen' x, (forall s, In s seen -> In s seen') ->
  Fin N d seen x -> Fin N d seen' x.
Proof.
  intros N d seen seen' x Hincl [He Hs]. split; [exact He|].
  intros c Hc. eapply settled_mono; [exact Hincl|apply Hs; exact Hc].
Qed.

Lemma Fin_expand : forall N cfg d i seen x, SWF N d -> x < size d -> In i seen ->
  Fin N d seen x -> Fin N (fst (expand_one N cfg d i)) seen x.
Proof.
  intros N cfg d i seen x Hswf Hx Hi [He Hs]. split; [apply expand_one_keeps_exp; assumption|].
  rewrite expand_one_stable by exact He. intros c Hc.
  apply settled_expand; try assumption. apply Hs. exact Hc.
Qed.

Lemma entry_okA_mono : forall N d seen seen' x o, (forall s, In s seen -> In s seen') ->
  entry_okA N d seen x o -> entry_okA N d seen' x o.
Proof.
  intros N d seen seen' x o Hincl [Hx Ho]. split; [apply Hincl; exact Hx|].
  destruct o as [rest|]; [|exact I]. destruct Ho as (He & Hb & Hs).
  split; [exact He|]. split; [exact Hb|].
  intros s Hin. destruct (Hs s Hin) as [H|H]; [left; eapply settled_mono; eauto|right; exact H].
Qed.

Lemma entry_okA_expand : forall N cfg d i seen x o, SWF N d -> x < size d -> In i seen ->
  entry_okA N d seen x o -> entry_okA N (fst (expand_one N cfg d i)) seen x o.
Proof.
  intros N cfg d i seen x o Hswf Hx Hi [Hin Ho]. split; [exact Hin|].
  destruct o as [rest|]; [|exact I]. destruct Ho as (He & Hb & Hs).
  split; [apply expand_one_keeps_exp; assumption|]. split.
  - intros s Hs'. eapply extends_lt; [apply expand_one_extends|apply Hb; exact Hs'].
  - rewrite expand_one_stable by exact He. intros s Hs'.
    destruct (Hs s Hs') as [H|H]; [left; apply settled_expand; assumption|right; exact H].
Qed.

(* ---------- 4c. the loop invariant ---------- *)

Lemma a_pop_some : forall N d seen x l stack,
  AInv N d seen ((x, Some l) :: stack) -> AMid N d seen stack x l.
Proof.
  intros N d seen x l stack (H0 & Hb & Hd & Hst). split; [exact H0|]. split; [exact Hb|].
  split; [|split].
  - intros y Hy. destruct (Hd y Hy) as [(o & [Heq|Hin])|Hdone].
    + left. inversion Heq. reflexivity.
    + right. left. exists o. exact Hin.
    + right. right. exact Hdone.
  - intros y o Hin. apply Hst. right. exact Hin.
  - apply Hst. left. reflexivity.
Qed.

Lemma a_pop_none : forall N cfg d seen x stack d1, SWF N d ->
  AInv N d seen ((x, None) :: stack) -> expand_one N cfg d x = (d1, RUnit) ->
  AMid N d1 seen stack x (sort_nat (successors d1 x)).
Proof.
  intros N cfg d seen x stack d1 Hswf (H0 & Hb & Hd & Hst) Eeo.
  assert (Hxs : In x seen) by (apply (Hst x None); left; reflexivity).
  assert (Hx : x < size d) by (apply Hb; exact Hxs).
  assert (Hd1 : d1 = fst (expand_one N cfg d x)) by (rewrite Eeo; reflexivity).
  assert (Hswf1 : SWF N d1) by (rewrite Hd1; apply expand_one_SWF; assumption).
  assert (Hext : extends d d1) by (rewrite Hd1; apply expand_one_extends).
  split; [exact H0|]. split; [|split; [|split]].
  - intros y Hy. eapply extends_lt; [exact Hext|apply Hb; exact Hy].
  - intros y Hy. destruct (Hd y Hy) as [(o & [Heq|Hin])|Hdone].
    + left. inversion Heq. reflexivity.
    + right. left. exists o. exact Hin.
    + right. right. rewrite Hd1. apply Fin_expand; [exact Hswf|apply Hb; exact Hy|exact Hxs|exact Hdone].
  - intros y o Hin. rewrite Hd1. apply entry_okA_expand; [exact Hswf| |exact Hxs|].
    + apply Hb. apply (Hst y o). right. exact Hin.
    + apply Hst. right. exact Hin.
  - split; [exact Hxs|]. split; [eapply DiagramComplete.expand_one_exp; eassumption|]. split.
    + intros s Hs. apply sort_nat_In in Hs. eapply successors_valid; eassumption.
    + intros s Hs. right. apply sort_nat_In_rev. exact Hs.
Qed.

Lemma a_mid_step : forall N d seen stack x l tape succ2 tape2, PlainInv N d ->
  AMid N d seen stack x l ->
  aseeds_inner N d x seen l tape = (succ2, tape2) ->
  nfvs_log_ok N (aseeds_inner_log N d x seen l tape) ->
  match succ2 with
  | [] => AInv N d seen stack
  | s :: rest => AInv N d (s :: seen) ((s, None) :: (x, Some rest) :: stack)
  end.
Proof.
  intros N d seen stack x l tape succ2 tape2 Hp (H0 & Hb & Hd & Hst & Hx) Ei Hlog.
  destruct (aseeds_inner_spec N d x seen l tape succ2 tape2 Ei) as (pre & Hpre & Hdrop & Hhead).
  destruct Hx as (Hxs & He & Hlb & Hs).
  assert (Hxlt : x < size d) by (apply Hb; exact Hxs).
  assert (Hset : forall s, In s pre -> settled N d seen x s).
  { intros s Hin. destruct (Hdrop s Hin) as [Hseen|(Hsx & nfvs & Hl & Hn)]; [left; exact Hseen|].
    right. destruct (Hlog _ _ Hl) as (Hnd & Hlt & Hnw).
    apply (hidden_of_test N d x s nfvs); try assumption.
    apply Hlb. rewrite Hpre. apply in_or_app. left. exact Hin. }
  destruct succ2 as [|s rest].
  - rewrite app_nil_r in Hpre. subst pre.
    split; [exact H0|]. split; [exact Hb|]. split; [|exact Hst].
    intros y Hy. destruct (Hd y Hy) as [Heq|[Hon|Hdone]].
    + subst y. right. split; [exact He|]. intros c Hc.
      destruct (Hs c Hc) as [H|H]; [exact H|apply Hset; exact H].
    + left. exact Hon.
    + right. exact Hdone.
  - assert (Hincl : forall t, In t seen -> In t (s :: seen)) by (intros t Ht; right; exact Ht).
    assert (Hsl : In s l) by (rewrite Hpre; apply in_or_app; right; left; reflexivity).
    split; [right; exact H0|]. split; [|split].
    + intros y [Heq|Hy]; [subst y; apply Hlb; exact Hsl|apply Hb; exact Hy].
    + intros y [Heq|Hy].
      * subst y. left. exists None. left. reflexivity.
      * destruct (Hd y Hy) as [Heq|[(o & Hon)|Hdone]].
        -- subst y. left. exists (Some rest). right. left. reflexivity.
        -- left. exists o. right. right. exact Hon.
        -- right. eapply Fin_mono; [exact Hincl|exact Hdone].
    + intros y o [Heq|[Heq|Hin]].
      * injection Heq as E1 E2. subst y o. split; [left; reflexivity|exact I].
      * injection Heq as E1 E2. subst y o. split; [right; exact Hxs|]. split; [exact He|]. split.
        -- intros t Ht. apply Hlb. rewrite Hpre. apply in_or_app. right. right. exact Ht.
        -- intros t Ht. destruct (Hs t Ht) as [H|H]; [left; eapply settled_mono; eauto|].
           rewrite Hpre in H. apply in_app_or in H. destruct H as [H|[H|H]].
           ++ left. eapply settled_mono; [exact Hincl|apply Hset; exact H].
           ++ left. left. left. exact H.
           ++ right. exact H.
      * eapply entry_okA_mono; [exact Hincl|]. apply Hst. exact Hin.
Qed.

Definition log_tail (f : nat) (N : net) (cfg : config) (sz : option nat) (d1 : sd) (x : nat)
           (seen : list nat) (stack' : list (nat * option (list nat))) (succ : list nat)
           (tape : list (list nat)) : list (space * list nat) :=
  let here := aseeds_inner_log N d1 x seen succ tape in
  let '(succ2, tape2) := aseeds_inner N d1 x seen succ tape in
  match succ2 with
  | [] => here ++ aseeds_loop_log f N cfg sz d1 seen stack' tape2
  | s :: rest => here ++ aseeds_loop_log f N cfg sz d1 (s :: seen) ((s, None) :: (x, Some rest) :: stack') tape2
  end.

Lemma aseeds_loop_log_S : forall f N cfg sz d seen x osucc stack' tape,
  aseeds_loop_log (S f) N cfg sz d seen ((x, osucc) :: stack') tape =
  match osucc with
  | Some l => log_tail f N cfg sz d x seen stack' l tape
  | None =>
      if over_limit sz d && negb (n_exp (get d x)) then []
      else match expand_one N cfg d x with
           | (d1, RUnit) => log_tail f N cfg sz d1 x seen stack' (sort_nat (successors d1 x)) tape
           | _ => []
           end
  end.
Proof.
  intros f N cfg sz d seen x osucc stack' tape. cbn [aseeds_loop_log]. destruct osucc as [l|].
  - reflexivity.
  - destruct (over_limit sz d && negb (n_exp (get d x))); [reflexivity|].
    unfold node_successors. destruct (expand_one N cfg d x) as [d1 r].
    destruct r; reflexivity.
Qed.

Lemma nfvs_log_ok_app : forall N a b, nfvs_log_ok N (a ++ b) -> nfvs_log_ok N a /\ nfvs_log_ok N b.
Proof.
  intros N a b H. split; intros sp nfvs Hin; apply H; apply in_or_app; [left|right]; exact Hin.
Qed.

Lemma aseeds_loop_complete : forall N cfg, 1 <= max_motifs cfg ->
  forall fuel d seen stack sz tape d',
  PlainInv N d -> AInv N d seen stack ->
  aseeds_loop fuel N cfg sz d seen stack tape = (d', RBool true) ->
  nfvs_log_ok N (aseeds_loop_log fuel N cfg sz d seen stack tape) ->
  exists seen', PlainInv N d' /\ AInv N d' seen' [].
Proof.
  intros N cfg Hmm. induction fuel as [|f IH]; intros d seen stack sz tape d' Hp Hinv Hrun Hlog.
  - simpl in Hrun. discriminate Hrun.
  - destruct stack as [|[x o] stack'].
    { simpl in Hrun. injection Hrun as Hd. subst d'. exists seen. split; assumption. }
    rewrite aseeds_loop_S in Hrun. rewrite aseeds_loop_log_S in Hlog.
    assert (Htail : forall d1 l, PlainInv N d1 -> AMid N d1 seen stack' x l ->
              loop_tail f N cfg sz d1 x seen stack' l tape = (d', RBool true) ->
              nfvs_log_ok N (log_tail f N cfg sz d1 x seen stack' l tape) ->
              exists seen', PlainInv N d' /\ AInv N d' seen' []).
    { intros d1 l Hp1 Hmid Hrun1 Hlog1. unfold loop_tail in Hrun1. unfold log_tail in Hlog1.
      pose proof (a_mid_step N d1 seen stack' x l tape) as Hstep.
      destruct (aseeds_inner N d1 x seen l tape) as [succ2 tape2].
      specialize (Hstep succ2 tape2 Hp1 Hmid eq_refl).
      destruct succ2 as [|s rest]; apply nfvs_log_ok_app in Hlog1; destruct Hlog1 as [Lh Lr].
      - eapply IH; [exact Hp1|apply Hstep; exact Lh|exact Hrun1|exact Lr].
      - eapply IH; [exact Hp1|apply Hstep; exact Lh|exact Hrun1|exact Lr]. }
    destruct o as [l|].
    + apply (Htail d l Hp); [apply a_pop_some; exact Hinv|exact Hrun|exact Hlog].
    + destruct (over_limit sz d && negb (n_exp (get d x))); [discriminate Hrun|].
      destruct (expand_one N cfg d x) as [d1 r] eqn:Eeo.
      assert (Hx : x < size d).
      { destruct Hinv as (_ & Hb & _ & Hst). apply Hb. apply (Hst x None). left. reflexivity. }
      assert (Hp1 : PlainInv N d1).
      { replace d1 with (fst (expand_one N cfg d x)) by (rewrite Eeo; reflexivity).
        apply PlainInv_expand_one; assumption. }
      pose proof (Termination.expand_one_result N cfg d x) as Hres. rewrite Eeo in Hres. simpl in Hres.
      destruct Hres as [Hres|Hres]; subst r; [|discriminate Hrun].
      apply (Htail d1 (sort_nat (successors d1 x)) Hp1); [|exact Hrun|exact Hlog].
      eapply a_pop_none; [apply Hp|exact Hinv|exact Eeo].
Qed.

(* ---------- 4d. when the stack is empty ---------- *)

Lemma final_Fin : forall N d seen, AInv N d seen [] -> forall x, In x seen -> Fin N d seen x.
Proof.
  intros N d seen (_ & _ & Hd & _) x Hx. destruct (Hd x Hx) as [(o & [])|H]. exact H.
Qed.

Lemma final_all_seen : forall N d seen, PlainInv N d -> AInv N d seen [] ->
  forall y, y < size d -> n_exp (get d y) = true -> In y seen.
Proof.
  intros N d seen Hp Hinv. pose proof Hp as (Hswf & _ & Hes & Hnse & Hr & _).
  pose proof Hinv as (H0 & _).
  assert (Hall : forall k y, y < size d -> n_exp (get d y) = true ->
                   nfixed (n_space (get d y)) <= k -> In y seen).
  { induction k as [|k IH]; intros y Hy Hexp Hk.
    - destruct (Nat.eq_dec y 0) as [Heq|Hne]; [subst y; exact H0|].
      destruct (Hr y) as (e & Hin & Hd); [lia|exact Hy|].
      pose proof (Hes e Hin) as Hss. rewrite Hd in Hss. apply strict_subspace_nfixed in Hss. lia.
    - destruct (Nat.eq_dec y 0) as [Heq|Hne]; [subst y; exact H0|].
      destruct (Hr y) as (e & Hin & Hd); [lia|exact Hy|].
      pose proof (Hes e Hin) as Hss. rewrite Hd in Hss. apply strict_subspace_nfixed in Hss.
      destruct (swf_edges N d Hswf e Hin) as (Hsrc & _ & _).
      assert (Hj : In (e_src e) seen) by (apply IH; [exact Hsrc|apply Hnse; exact Hin|lia]).
      destruct (final_Fin N d seen Hinv _ Hj) as [_ Hsucc].
      destruct (Hsucc y) as [Hs|(_ & Hx & _)]; [|exact Hs|congruence].
      apply In_successors. exists e. repeat split; assumption. }
  intros y Hy Hexp. apply (Hall (nfixed (n_space (get d y))) y Hy Hexp). apply le_n.
Qed.

Lemma final_attr_good : forall N d seen, PlainInv N d -> AInv N d seen [] -> attr_good N d [].
Proof.
  intros N d seen Hp Hinv x A Hx Hexp Hatt Hin.
  pose proof (final_all_seen N d seen Hp Hinv x Hx Hexp) as Hxs.
  destruct (final_Fin N d seen Hinv x Hxs) as [_ Hsucc].
  pose proof Hatt as ((s0 & Hs0) & _).
  destruct (existsb (inside_b (reach_list N s0)) (out_motifs d x)) eqn:Ex.
  - right. apply existsb_exists in Ex. destruct Ex as (m & Hm & Hb).
    apply (inside_b_iff N A s0 m Hatt Hs0) in Hb.
    destruct (out_motif_child N d x m Hp Hx Hexp Hm) as (_ & Htrap & c & Hc & Hperc).
    assert (Hinc : inside A (n_space (get d c))).
    { rewrite <- Hperc. unfold inside. apply (attractor_in_percolation N A m Hatt Htrap). exact Hb. }
    destruct (Hsucc c Hc) as [Hcs|(_ & _ & Hhid)].
    + exists c. split; [exact Hc|]. split; [exact Hinc|]. left.
      apply (final_Fin N d seen Hinv c Hcs).
    + destruct (Hhid A Hatt Hinc) as (c' & H1 & H2 & H3).
      exists c'. split; [exact H1|]. split; [exact H3|]. left. exact H2.
  - left. split; [exact Hx|]. split; [exact Hatt|]. split; [exact Hin|].
    intros (M & HM & HinM). apply F_existsb_false in Ex. apply Ex.
    exists M. split; [exact HM|]. apply (inside_b_iff N A s0 M Hatt Hs0). exact HinM.
Qed.

Lemma trap_has_attractor : forall N M, trap_space N M -> exists A, attractor N A /\ inside A M.
Proof.
  intros N M Htrap. pose proof (trap_space_length N M Htrap) as Hl.
  destruct (space_nonempty_wf N M Hl) as (s & Hwf & Hs).
  destruct (closed_contains_attractor N (sp_states N M) s (proj2 Htrap) (conj Hwf Hs) Hwf)
    as (t & [Hwt HtM] & Hat).
  exists (fun u => reach N t u). split; [apply in_attractor_closed_class; exact Hat|].
  intros u Hu. apply (trap_reach_inside N M t u Htrap Hwt HtM Hu).
Qed.

Lemma intersect_sub_r : forall x y z, intersect x y = Some z -> subspace z y = true.
Proof.
  intros x y z H. apply subspace_spec; [apply (intersect_length x y z H)|].
  intros s Hs. rewrite (intersect_spec_some x y z H s) in Hs. apply andb_prop in Hs. apply Hs.
Qed.

Lemma min_trap_around_attractor : forall N M T A, min_trap N M -> trap_space N T -> attractor N A ->
  inside A M -> inside A T -> subspace M T = true.
Proof.
  intros N M T A [HtM Hmin] HtT Hatt HinM HinT. pose proof Hatt as ((s0 & Hs0) & _).
  destruct (intersect M T) as [Z|] eqn:EZ.
  - pose proof (trap_space_intersect N M T Z HtM HtT EZ) as HtZ.
    rewrite <- (Hmin Z HtZ (intersect_sub_l M T Z EZ)). apply (intersect_sub_r M T Z EZ).
  - exfalso.
    assert (Hl : length M = length T)
      by (rewrite (trap_space_length N M HtM), (trap_space_length N T HtT); reflexivity).
    pose proof (intersect_spec_none M T Hl EZ s0) as Hn.
    rewrite (HinM s0 Hs0), (HinT s0 Hs0) in Hn. discriminate Hn.
Qed.

Lemma final_min_good : forall N d seen, PlainInv N d -> AInv N d seen [] -> min_good N d [].
Proof.
  intros N d seen Hp Hinv x M Hx Hexp HM Hsub.
  pose proof Hp as (Hswf & Htn & _ & _ & _ & Hf & Hns & _).
  pose proof (final_all_seen N d seen Hp Hinv x Hx Hexp) as Hxs.
  destruct (final_Fin N d seen Hinv x Hxs) as [_ Hsucc].
  destruct (eqb_space (n_space (get d x)) M) eqn:Eq; [left; apply eqb_space_spec; exact Eq|right].
  assert (Hstrict : strict_subspace M (n_space (get d x))).
  { split; [exact Hsub|]. intro Heq. rewrite Heq in Eq.
    rewrite (proj2 (eqb_space_spec _ _) eq_refl) in Eq. discriminate Eq. }
  destruct (closed_trap_below_child N (n_space (get d x)) M (node_srcs N x)
              (TrapNodes_get N d x Htn Hx) (PlainInv_space_len N d x Hp Hx) (proj1 HM)
              (min_trap_closed N M HM) Hstrict (min_trap_fixes_node_srcs N M x HM))
    as (M' & HM' & HsubM).
  assert (Hout : In M' (out_motifs d x)).
  { pose proof (Hf x Hx Hexp (Hns x Hx)) as Hcan. unfold canonical in Hcan.
    eapply Permutation_in; [apply Permutation_sym; exact Hcan|exact HM']. }
  destruct (out_motif_child N d x M' Hp Hx Hexp Hout) as (_ & _ & c & Hc & Hperc).
  rewrite Hperc in HsubM.
  destruct (Hsucc c Hc) as [Hcs|(_ & _ & Hhid)].
  - exists c. split; [exact Hc|]. split; [exact HsubM|]. left. apply (final_Fin N d seen Hinv c Hcs).
  - destruct (trap_has_attractor N M (proj1 HM)) as (A & Hatt & HinM).
    destruct (Hhid A Hatt (inside_sub A M _ HinM HsubM)) as (c' & H1 & H2 & H3).
    exists c'. split; [exact H1|]. split; [|left; exact H2].
    apply (min_trap_around_attractor N M _ A HM); try assumption.
    apply (TrapNodes_get N d c' Htn). apply (successors_valid N d x c' Hswf H1).
Qed.

(* ---------- 4e. the theorems ---------- *)

Lemma expand_aseeds_final : forall fuel N cfg d d' sz min_tape tape, 1 <= max_motifs cfg ->
  PlainInv N d ->
  expand_aseeds fuel N cfg d sz min_tape tape = (d', RBool true) ->
  nfvs_log_ok N (expand_aseeds_log fuel N cfg d sz min_tape tape) ->
  exists seen, PlainInv N d' /\ AInv N d' seen [].
Proof.
  intros fuel N cfg d d' sz min_tape tape Hmm Hp Hrun Hlog.
  unfold expand_aseeds in Hrun. unfold expand_aseeds_log in Hlog.
  pose proof (PlainInv_step_min fuel N cfg d sz min_tape Hmm Hp) as Hp0.
  rewrite <- expand_min_step in Hp0.
  destruct (expand_min fuel N cfg d None sz false min_tape) as [d0 r0]. simpl in Hp0.
  assert (Hinv0 : AInv N d0 [0] [(0, None)]).
  { split; [left; reflexivity|]. split; [|split].
    - intros x [Hx|[]]. subst x. apply (swf_size N d0 (proj1 Hp0)).
    - intros x [Hx|[]]. subst x. left. exists None. left. reflexivity.
    - intros x o [Heq|[]]. injection Heq as E1 E2. subst x o. split; [left; reflexivity|exact I]. }
  destruct r0; try discriminate Hrun;
    apply (aseeds_loop_complete N cfg Hmm fuel d0 [0] [(0, None)] sz tape d' Hp0 Hinv0 Hrun Hlog).
Qed.

Theorem expand_aseeds_AttrServed : forall fuel N cfg d d' sz min_tape tape, 1 <= max_motifs cfg ->
  PlainInv N d ->
  expand_aseeds fuel N cfg d sz min_tape tape = (d', RBool true) ->
  nfvs_log_ok N (expand_aseeds_log fuel N cfg d sz min_tape tape) ->
  AttrServed N d'.
Proof.
  intros fuel N cfg d d' sz min_tape tape Hmm Hp Hrun Hlog.
  destruct (expand_aseeds_final fuel N cfg d d' sz min_tape tape Hmm Hp Hrun Hlog) as (seen & Hp' & Hinv).
  pose proof Hp' as (H1 & H2 & H3 & _ & _ & _ & _ & H8).
  apply attr_good_served; try assumption.
  - apply (final_Fin N d' seen Hinv 0). apply Hinv.
  - apply (final_attr_good N d' seen Hp' Hinv).
Qed.

Theorem expand_aseeds_MinFound : forall fuel N cfg d d' sz min_tape tape, 1 <= max_motifs cfg ->
  PlainInv N d ->
  expand_aseeds fuel N cfg d sz min_tape tape = (d', RBool true) ->
  nfvs_log_ok N (expand_aseeds_log fuel N cfg d sz min_tape tape) ->
  MinFound N d'.
Proof.
  intros fuel N cfg d d' sz min_tape tape Hmm Hp Hrun Hlog.
  destruct (expand_aseeds_final fuel N cfg d d' sz min_tape tape Hmm Hp Hrun Hlog) as (seen & Hp' & Hinv).
  pose proof Hp' as (H1 & H2 & H3 & _ & _ & _ & _ & H8).
  apply min_good_found; try assumption.
  - apply (final_Fin N d' seen Hinv 0). apply Hinv.
  - apply (final_min_good N d' seen Hp' Hinv).
Qed.

Theorem expand_aseeds_one_to_one : forall fuel N cfg d d' sz min_tape tape seeds, 1 <= max_motifs cfg ->
  PlainInv N d ->
  expand_aseeds fuel N cfg d sz min_tape tape = (d', RBool true) ->
  nfvs_log_ok N (expand_aseeds_log fuel N cfg d sz min_tape tape) ->
  exp_seeds_ok N d' seeds ->
  (forall A, attractor N A -> exists i s, i < size d' /\ n_exp (get d' i) = true /\ In s (seeds i) /\ A s) /\
  (forall A i j s t, attractor N A -> i < size d' -> j < size d' ->
     n_exp (get d' i) = true -> n_exp (get d' j) = true ->
     In s (seeds i) -> In t (seeds j) -> A s -> A t -> i = j /\ s = t).
Proof.
  intros fuel N cfg d d' sz min_tape tape seeds Hmm Hp Hrun Hlog Hok.
  pose proof (expand_aseeds_AttrServed fuel N cfg d d' sz min_tape tape Hmm Hp Hrun Hlog) as Hserved.
  pose proof (expand_aseeds_PlainInv fuel N cfg d sz min_tape tape Hmm Hp) as Hp'.
  rewrite Hrun in Hp'. simpl in Hp'.
  destruct Hp' as (H1 & H2 & _ & _ & _ & H6 & H7 & _).
  destruct (partial_one_to_one N d' seeds H1 H2 H7 (Faithful_CanonOrFF N d' H6) Hserved Hok) as (A & B & _).
  split; assumption.
Qed.

Print Assumptions expand_aseeds_transfer.
Print Assumptions expand_aseeds_PlainInv.
Print Assumptions expand_aseeds_extends.
Print Assumptions expand_aseeds_CacheOK.
Print Assumptions expand_aseeds_LeafOK.
Print Assumptions expand_aseeds_terminates.
Print Assumptions heuristic_retained_total.
Print Assumptions no_new_candidate_sound.
Print Assumptions expand_aseeds_AttrServed.
Print Assumptions expand_aseeds_MinFound.
Print Assumptions expand_aseeds_one_to_one.
