(* CandidatesFacts.v -- the attractor-candidate pipeline (Candidates.v) returns a covering list
   of states of the node space, or raises: for every option combination and configuration value. *)
From Coq Require Import List Bool Arith Lia Relations Permutation.
Import ListNotations.
From BB Require Import BN Brute SpaceFacts TrapFacts PercolateFacts AttractorFacts Checks Filter FilterFacts Candidates.

(* ------------------------------------------------------------------------------------------ *)
(* Statements' vocabulary                                                                      *)
(* ------------------------------------------------------------------------------------------ *)
Definition retained_total (nfvs : list nat) (R : retained) : Prop :=
  NoDup (map fst R) /\ forall v, ret_mem v R = true <-> In v nfvs.

(* the reduction hypothesis (a signed-graph fact about negative feedback vertex sets, not proved
   here; checked per instance at run time by nfvs_reduction_ok_b): for every assignment of the
   retained variables the fixed points of the reduced transition graph hit every attractor of
   the node *)
Definition reduction_hyp (N : net) (S : space) (avoid : list space) (nfvs : list nat) : Prop :=
  forall R, retained_total nfvs R -> covers N S avoid (reduced_fixed_b N (ret_space (nvars N) R) S avoid).

Definition tape_ok (N : net) (S : space) (avoid : list space) (log : list call) (tape : list (list state)) : Prop :=
  forall i k res, nth_error log i = Some k -> nth_error tape i = Some res -> solve_ok N S avoid (nvars N) k res.

Definition complete_for (N : net) (S : space) (avoid : list space) (R : retained) (cands : list state) : Prop :=
  (forall s, In s cands <-> In s (reduced_fixed_b N (ret_space (nvars N) R) S avoid)).

(* ------------------------------------------------------------------------------------------ *)
(* 1. The executable reduction check                                                           *)
(* ------------------------------------------------------------------------------------------ *)
Lemma reduction_ok_b_spec : forall N S avoid R, length S = nvars N ->
  (reduction_ok_b N S avoid R = true <-> covers N S avoid (reduced_fixed_b N R S avoid)).
Proof.
  intros N S avoid R _. unfold reduction_ok_b. rewrite covers_iff, forallb_forall. reflexivity.
Qed.

Lemma C_all_none_repeat : forall (R : space), (forall v, nth v R None = None) -> R = repeat None (length R).
Proof.
  induction R as [|o R IH]; intros H; [reflexivity|]. simpl.
  assert (Ho : o = None) by exact (H 0). subst o. f_equal. apply IH. intros v. exact (H (S v)).
Qed.

Lemma C_set_nth_twice : forall (A : Type) i (x y : A) l, set_nth i x (set_nth i y l) = set_nth i x l.
Proof.
  intros A i x y l. revert i. induction l as [|h t IH]; intros [|i]; simpl; try reflexivity.
  f_equal. apply IH.
Qed.

Lemma C_set_nth_restore : forall (R : space) v b, nth v R None = Some b ->
  R = set_nth v (Some b) (set_nth v None R).
Proof.
  intros R v b H. rewrite C_set_nth_twice. rewrite <- H. symmetry. apply set_nth_same.
  apply (nth_some_lt R v b H).
Qed.

Lemma all_assignments_spec : forall n vars R, NoDup vars -> (forall v, In v vars -> v < n) ->
  (In R (all_assignments n vars) <-> length R = n /\ forall v, (nth v R None <> None <-> In v vars)).
Proof.
  intros n vars. induction vars as [|v r IH]; intros R Hnd Hlt.
  - simpl. split.
    + intros [H|[]]. subst R. split; [apply repeat_length|]. intros v. rewrite nth_top_space.
      split; [intros H; exfalso; apply H; reflexivity|intros []].
    + intros [Hlen H]. left. unfold top_space. rewrite <- Hlen. symmetry. apply C_all_none_repeat.
      intros v. destruct (nth v R None) eqn:E; [|reflexivity]. exfalso. apply (proj1 (H v)). rewrite E. discriminate.
  - assert (Hnd' : NoDup r) by (inversion Hnd; assumption).
    assert (Hv : ~ In v r) by (inversion Hnd; assumption).
    assert (Hlt' : forall w, In w r -> w < n) by (intros w Hw; apply Hlt; right; exact Hw).
    assert (Hvn : v < n) by (apply Hlt; left; reflexivity).
    simpl all_assignments. rewrite in_flat_map. split.
    + intros [R0 [HR0 HR]]. apply (IH R0 Hnd' Hlt') in HR0. destruct HR0 as [Hlen H0].
      assert (HRb : exists b, R = set_nth v (Some b) R0).
      { simpl in HR. destruct HR as [HR|[HR|[]]]; eauto. }
      destruct HRb as [b HRb]. subst R. split; [rewrite set_nth_length; exact Hlen|].
      intros w. destruct (Nat.eq_dec v w) as [E|E].
      * subst w. rewrite nth_set_nth_eq by lia. split; [intros _; left; reflexivity|intros _; discriminate].
      * rewrite nth_set_nth_neq by exact E. rewrite H0. simpl. split; [tauto|]. intros [F|F]; [congruence|exact F].
    + intros [Hlen H]. destruct (nth v R None) as [b|] eqn:Eb.
      2:{ exfalso. apply (proj2 (H v)); [left; reflexivity|exact Eb]. }
      exists (set_nth v None R). split.
      * apply (IH _ Hnd' Hlt'). split; [rewrite set_nth_length; exact Hlen|]. intros w.
        destruct (Nat.eq_dec v w) as [E|E].
        -- subst w. rewrite nth_set_nth_eq by lia. split; [intros F; exfalso; apply F; reflexivity|intros F; contradiction].
        -- rewrite nth_set_nth_neq by exact E. rewrite H. simpl. split; [intros [F|F]; [congruence|exact F]|tauto].
      * rewrite (C_set_nth_restore R v b Eb) at 1. destruct b; simpl; tauto.
Qed.

Lemma C_ret_mem_In : forall v R, ret_mem v R = true <-> In v (map fst R).
Proof.
  intros v R. unfold ret_mem. rewrite existsb_exists, in_map_iff. split.
  - intros [p [Hp E]]. apply Nat.eqb_eq in E. exists p. split; assumption.
  - intros [p [E Hp]]. exists p. split; [exact Hp|]. apply Nat.eqb_eq. exact E.
Qed.

Lemma C_ret_space_length : forall n R, length (ret_space n R) = n.
Proof.
  intros n R. induction R as [|[w b] r IH]; simpl; [apply repeat_length|]. rewrite set_nth_length. exact IH.
Qed.

Lemma C_ret_space_nth : forall n R v, nth v (ret_space n R) None <> None <-> (ret_mem v R = true /\ v < n).
Proof.
  intros n R v. induction R as [|[w b] r IH].
  - simpl. rewrite nth_top_space. split; [intros H; exfalso; apply H; reflexivity|intros [H _]; discriminate].
  - simpl ret_space. unfold ret_mem in *. simpl existsb. destruct (Nat.eq_dec w v) as [E|E].
    + subst w. rewrite Nat.eqb_refl. simpl. destruct (Nat.lt_ge_cases v n) as [L|L].
      * rewrite nth_set_nth_eq by (rewrite C_ret_space_length; exact L). split; [intros _; tauto|intros _; discriminate].
      * rewrite nth_overflow by (rewrite set_nth_length, C_ret_space_length; exact L).
        split; [intros H; exfalso; apply H; reflexivity|intros [_ H]; lia].
    + rewrite nth_set_nth_neq by exact E. apply Nat.eqb_neq in E. rewrite E. simpl. exact IH.
Qed.

Lemma C_assignment_retained : forall n vars Sp, In Sp (all_assignments n vars) ->
  exists R, map fst R = vars /\ ret_space n R = Sp.
Proof.
  intros n vars. induction vars as [|v r IH]; intros Sp H.
  - simpl in H. destruct H as [H|[]]. exists []. split; [reflexivity|exact H].
  - simpl in H. apply in_flat_map in H. destruct H as [Sp0 [H0 H]]. destruct (IH Sp0 H0) as [R0 [HR0 E0]].
    simpl in H. destruct H as [H|[H|[]]].
    + exists ((v, false) :: R0). simpl. rewrite HR0, E0. split; [reflexivity|exact H].
    + exists ((v, true) :: R0). simpl. rewrite HR0, E0. split; [reflexivity|exact H].
Qed.

Lemma C_total_of_keys : forall nfvs R, NoDup nfvs -> map fst R = nfvs -> retained_total nfvs R.
Proof.
  intros nfvs R Hnd E. split; [rewrite E; exact Hnd|]. intros v. rewrite C_ret_mem_In, E. reflexivity.
Qed.

Theorem nfvs_reduction_ok_b_spec : forall N S avoid nfvs, length S = nvars N -> NoDup nfvs ->
  (forall v, In v nfvs -> v < nvars N) ->
  (nfvs_reduction_ok_b N S avoid nfvs = true <-> reduction_hyp N S avoid nfvs).
Proof.
  intros N S avoid nfvs HS Hnd Hlt. unfold nfvs_reduction_ok_b, reduction_hyp. rewrite forallb_forall. split.
  - intros H R [HR1 HR2]. apply (reduction_ok_b_spec N S avoid _ HS). apply H.
    apply (all_assignments_spec _ _ _ Hnd Hlt). split; [apply C_ret_space_length|].
    intros v. rewrite C_ret_space_nth, HR2. split; [tauto|]. intros Hv. split; [exact Hv|apply Hlt; exact Hv].
  - intros H Sp HSp. destruct (C_assignment_retained _ _ _ HSp) as [R [HR E]]. subst Sp.
    apply (reduction_ok_b_spec N S avoid _ HS). apply H. apply C_total_of_keys; assumption.
Qed.

(* ------------------------------------------------------------------------------------------ *)
(* 2. Solver contract                                                                          *)
(* ------------------------------------------------------------------------------------------ *)
Lemma solve_ok_complete : forall N S avoid n k res l, solve_ok N S avoid n k res -> k_limit k = Some l ->
  length res < l ->
  forall s, In s (reduced_fixed_b N (ret_space n (k_ret k)) S avoid) -> In s res.
Proof.
  intros N S avoid n k res l [Hnd [Hin Hlen]] Hk Hl. rewrite Hk in Hlen.
  apply (NoDup_length_incl Hnd); [lia|]. intros s Hs. apply Hin. exact Hs.
Qed.

Lemma solve_ok_in_space : forall N S avoid n k res s, solve_ok N S avoid n k res -> In s res ->
  in_space s S = true.
Proof.
  intros N S avoid n k res s [_ [Hin _]] Hs. apply Hin in Hs. unfold reduced_fixed_b in Hs.
  apply filter_In in Hs. apply states_of_spec. exact (proj1 Hs).
Qed.

Lemma C_solve_complete_for : forall N S avoid R l res,
  solve_ok N S avoid (nvars N) {| k_ret := R; k_limit := Some l |} res -> length res < l ->
  complete_for N S avoid R res.
Proof.
  intros N S avoid R l res H Hl s. split.
  - destruct H as [_ [Hin _]]. apply Hin.
  - apply (solve_ok_complete N S avoid (nvars N) _ res l H eq_refl Hl).
Qed.

Lemma C_solve_length_le : forall N S avoid R l res,
  solve_ok N S avoid (nvars N) {| k_ret := R; k_limit := Some l |} res -> length res <= l.
Proof. intros N S avoid R l res [_ [_ H]]. simpl in H. lia. Qed.

Lemma C_complete_in_space : forall N S avoid R cands c, complete_for N S avoid R cands -> In c cands ->
  in_space c S = true.
Proof.
  intros N S avoid R cands c H Hc. apply H in Hc. unfold reduced_fixed_b in Hc. apply filter_In in Hc.
  apply states_of_spec. exact (proj1 Hc).
Qed.

Lemma C_covers_ext : forall N S avoid c1 c2, (forall s, In s c1 <-> In s c2) -> covers N S avoid c2 ->
  covers N S avoid c1.
Proof.
  intros N S avoid c1 c2 E H A HA. destruct (H A HA) as [c [Hc Ac]]. exists c. split; [apply E; exact Hc|exact Ac].
Qed.

Lemma C_complete_covers : forall N S avoid nfvs R cands, reduction_hyp N S avoid nfvs ->
  retained_total nfvs R -> complete_for N S avoid R cands -> covers N S avoid cands.
Proof.
  intros N S avoid nfvs R cands Hred HR Hc. apply (C_covers_ext N S avoid cands _ Hc). apply Hred. exact HR.
Qed.
