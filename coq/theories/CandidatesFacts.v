(* CandidatesFacts.v -- the attractor-candidate pipeline (Candidates.v) returns a covering list
   of states of the node space, or raises: for every option combination and configuration value. *)
From Coq Require Import List Bool Arith Lia Relations Permutation.
Import ListNotations.
From BB Require Import BN Brute SpaceFacts TrapFacts PercolateFacts AttractorFacts Checks Filter FilterFacts Candidates.

(* ------------------------------------------------------------------------------------------ *)
(* Statements' vocabulary                                                                      *)
(* ------------------------------------------------------------------------------------------ *)
Definition retained_total (nfvs : list nat) (R : retained) : Prop :=
  NoDup (map fst R) /\ forall v, ret_mem v R = true <-> In v nfvs.

(* the reduction hypothesis (a signed-graph fact about negative feedback vertex sets, not proved
   here; checked per instance at run time by nfvs_reduction_ok_b): for every assignment of the
   retained variables the fixed points of the reduced transition graph hit every attractor of
   the node *)
Definition reduction_hyp (N : net) (S : space) (avoid : list space) (nfvs : list nat) : Prop :=
  forall R, retained_total nfvs R -> covers N S avoid (reduced_fixed_b N (ret_space (nvars N) R) S avoid).

Definition tape_ok (N : net) (S : space) (avoid : list space) (log : list call) (tape : list (list state)) : Prop :=
  forall i k res, nth_error log i = Some k -> nth_error tape i = Some res -> solve_ok N S avoid (nvars N) k res.

Definition complete_for (N : net) (S : space) (avoid : list space) (R : retained) (cands : list state) : Prop :=
  (forall s, In s cands <-> In s (reduced_fixed_b N (ret_space (nvars N) R) S avoid)).

(* ------------------------------------------------------------------------------------------ *)
(* 1. The executable reduction check                                                           *)
(* ------------------------------------------------------------------------------------------ *)
Lemma reduction_ok_b_spec : forall N S avoid R, length S = nvars N ->
  (reduction_ok_b N S avoid R = true <-> covers N S avoid (reduced_fixed_b N R S avoid)).
Proof.
  intros N S avoid R _. unfold reduction_ok_b. rewrite covers_iff, forallb_forall. reflexivity.
Qed.

Lemma C_all_none_repeat : forall (R : space), (forall v, nth v R None = None) -> R = repeat None (length R).
Proof.
  induction R as [|o R IH]; intros H; [reflexivity|]. simpl.
  assert (Ho : o = None) by exact (H 0). subst o. f_equal. apply IH. intros v. exact (H (S v)).
Qed.

Lemma C_set_nth_twice : forall (A : Type) i (x y : A) l, set_nth i x (set_nth i y l) = set_nth i x l.
Proof.
  intros A i x y l. revert i. induction l as [|h t IH]; intros [|i]; simpl; try reflexivity.
  f_equal. apply IH.
Qed.

Lemma C_set_nth_restore : forall (R : space) v b, nth v R None = Some b ->
  R = set_nth v (Some b) (set_nth v None R).
Proof.
  intros R v b H. rewrite C_set_nth_twice. rewrite <- H. symmetry. apply set_nth_same.
  apply (nth_some_lt R v b H).
Qed.

Lemma all_assignments_spec : forall n vars R, NoDup vars -> (forall v, In v vars -> v < n) ->
  (In R (all_assignments n vars) <-> length R = n /\ forall v, (nth v R None <> None <-> In v vars)).
Proof.
  intros n vars. induction vars as [|v r IH]; intros R Hnd Hlt.
  - simpl. split.
    + intros [H|[]]. subst R. split; [apply repeat_length|]. intros v. rewrite nth_top_space.
      split; [intros H; exfalso; apply H; reflexivity|intros []].
    + intros [Hlen H]. left. unfold top_space. rewrite <- Hlen. symmetry. apply C_all_none_repeat.
      intros v. destruct (nth v R None) eqn:E; [|reflexivity]. exfalso. apply (proj1 (H v)). rewrite E. discriminate.
  - assert (Hnd' : NoDup r) by (inversion Hnd; assumption).
    assert (Hv : ~ In v r) by (inversion Hnd; assumption).
    assert (Hlt' : forall w, In w r -> w < n) by (intros w Hw; apply Hlt; right; exact Hw).
    assert (Hvn : v < n) by (apply Hlt; left; reflexivity).
    simpl all_assignments. rewrite in_flat_map. split.
    + intros [R0 [HR0 HR]]. apply (IH R0 Hnd' Hlt') in HR0. destruct HR0 as [Hlen H0].
      assert (HRb : exists b, R = set_nth v (Some b) R0).
      { simpl in HR. destruct HR as [HR|[HR|[]]]; eauto. }
      destruct HRb as [b HRb]. subst R. split; [rewrite set_nth_length; exact Hlen|].
      intros w. destruct (Nat.eq_dec v w) as [E|E].
      * subst w. rewrite nth_set_nth_eq by lia. split; [intros _; left; reflexivity|intros _; discriminate].
      * rewrite nth_set_nth_neq by exact E. rewrite H0. simpl. split; [tauto|]. intros [F|F]; [congruence|exact F].
    + intros [Hlen H]. destruct (nth v R None) as [b|] eqn:Eb.
      2:{ exfalso. apply (proj2 (H v)); [left; reflexivity|exact Eb]. }
      exists (set_nth v None R). split.
      * apply (IH _ Hnd' Hlt'). split; [rewrite set_nth_length; exact Hlen|]. intros w.
        destruct (Nat.eq_dec v w) as [E|E].
        -- subst w. rewrite nth_set_nth_eq by lia. split; [intros F; exfalso; apply F; reflexivity|intros F; contradiction].
        -- rewrite nth_set_nth_neq by exact E. rewrite H. simpl. split; [intros [F|F]; [congruence|exact F]|tauto].
      * rewrite (C_set_nth_restore R v b Eb) at 1. destruct b; simpl; tauto.
Qed.

Lemma C_ret_mem_In : forall v R, ret_mem v R = true <-> In v (map fst R).
Proof.
  intros v R. unfold ret_mem. rewrite existsb_exists, in_map_iff. split.
  - intros [p [Hp E]]. apply Nat.eqb_eq in E. exists p. split; assumption.
  - intros [p [E Hp]]. exists p. split; [exact Hp|]. apply Nat.eqb_eq. exact E.
Qed.

Lemma C_ret_space_length : forall n R, length (ret_space n R) = n.
Proof.
  intros n R. induction R as [|[w b] r IH]; simpl; [apply repeat_length|]. rewrite set_nth_length. exact IH.
Qed.

Lemma C_ret_space_nth : forall n R v, nth v (ret_space n R) None <> None <-> (ret_mem v R = true /\ v < n).
Proof.
  intros n R v. induction R as [|[w b] r IH].
  - simpl. rewrite nth_top_space. split; [intros H; exfalso; apply H; reflexivity|intros [H _]; discriminate].
  - simpl ret_space. unfold ret_mem in *. simpl existsb. destruct (Nat.eq_dec w v) as [E|E].
    + subst w. rewrite Nat.eqb_refl. simpl. destruct (Nat.lt_ge_cases v n) as [L|L].
      * rewrite nth_set_nth_eq by (rewrite C_ret_space_length; exact L). split; [intros _; tauto|intros _; discriminate].
      * rewrite nth_overflow by (rewrite set_nth_length, C_ret_space_length; exact L).
        split; [intros H; exfalso; apply H; reflexivity|intros [_ H]; lia].
    + rewrite nth_set_nth_neq by exact E. apply Nat.eqb_neq in E. rewrite E. simpl. exact IH.
Qed.

Lemma C_assignment_retained : forall n vars Sp, In Sp (all_assignments n vars) ->
  exists R, map fst R = vars /\ ret_space n R = Sp.
Proof.
  intros n vars. induction vars as [|v r IH]; intros Sp H.
  - simpl in H. destruct H as [H|[]]. exists []. split; [reflexivity|exact H].
  - simpl in H. apply in_flat_map in H. destruct H as [Sp0 [H0 H]]. destruct (IH Sp0 H0) as [R0 [HR0 E0]].
    simpl in H. destruct H as [H|[H|[]]].
    + exists ((v, false) :: R0). simpl. rewrite HR0, E0. split; [reflexivity|exact H].
    + exists ((v, true) :: R0). simpl. rewrite HR0, E0. split; [reflexivity|exact H].
Qed.

Lemma C_total_of_keys : forall nfvs R, NoDup nfvs -> map fst R = nfvs -> retained_total nfvs R.
Proof.
  intros nfvs R Hnd E. split; [rewrite E; exact Hnd|]. intros v. rewrite C_ret_mem_In, E. reflexivity.
Qed.

Theorem nfvs_reduction_ok_b_spec : forall N S avoid nfvs, length S = nvars N -> NoDup nfvs ->
  (forall v, In v nfvs -> v < nvars N) ->
  (nfvs_reduction_ok_b N S avoid nfvs = true <-> reduction_hyp N S avoid nfvs).
Proof.
  intros N S avoid nfvs HS Hnd Hlt. unfold nfvs_reduction_ok_b, reduction_hyp. rewrite forallb_forall. split.
  - intros H R [HR1 HR2]. apply (reduction_ok_b_spec N S avoid _ HS). apply H.
    apply (all_assignments_spec _ _ _ Hnd Hlt). split; [apply C_ret_space_length|].
    intros v. rewrite C_ret_space_nth, HR2. split; [tauto|]. intros Hv. split; [exact Hv|apply Hlt; exact Hv].
  - intros H Sp HSp. destruct (C_assignment_retained _ _ _ HSp) as [R [HR E]]. subst Sp.
    apply (reduction_ok_b_spec N S avoid _ HS). apply H. apply C_total_of_keys; assumption.
Qed.

(* ------------------------------------------------------------------------------------------ *)
(* 2. Solver contract                                                                          *)
(* ------------------------------------------------------------------------------------------ *)
Lemma solve_ok_complete : forall N S avoid n k res l, solve_ok N S avoid n k res -> k_limit k = Some l ->
  length res < l ->
  forall s, In s (reduced_fixed_b N (ret_space n (k_ret k)) S avoid) -> In s res.
Proof.
  intros N S avoid n k res l [Hnd [Hin Hlen]] Hk Hl. rewrite Hk in Hlen.
  apply (NoDup_length_incl Hnd); [lia|]. intros s Hs. apply Hin. exact Hs.
Qed.

Lemma solve_ok_in_space : forall N S avoid n k res s, solve_ok N S avoid n k res -> In s res ->
  in_space s S = true.
Proof.
  intros N S avoid n k res s [_ [Hin _]] Hs. apply Hin in Hs. unfold reduced_fixed_b in Hs.
  apply filter_In in Hs. apply states_of_spec. exact (proj1 Hs).
Qed.

Lemma C_solve_complete_for : forall N S avoid R l res,
  solve_ok N S avoid (nvars N) {| k_ret := R; k_limit := Some l |} res -> length res < l ->
  complete_for N S avoid R res.
Proof.
  intros N S avoid R l res H Hl s. split.
  - destruct H as [_ [Hin _]]. apply Hin.
  - apply (solve_ok_complete N S avoid (nvars N) _ res l H eq_refl Hl).
Qed.

Lemma C_solve_length_le : forall N S avoid R l res,
  solve_ok N S avoid (nvars N) {| k_ret := R; k_limit := Some l |} res -> length res <= l.
Proof. intros N S avoid R l res [_ [_ H]]. simpl in H. lia. Qed.

Lemma C_complete_in_space : forall N S avoid R cands c, complete_for N S avoid R cands -> In c cands ->
  in_space c S = true.
Proof.
  intros N S avoid R cands c H Hc. apply H in Hc. unfold reduced_fixed_b in Hc. apply filter_In in Hc.
  apply states_of_spec. exact (proj1 Hc).
Qed.

Lemma C_covers_ext : forall N S avoid c1 c2, (forall s, In s c1 <-> In s c2) -> covers N S avoid c2 ->
  covers N S avoid c1.
Proof.
  intros N S avoid c1 c2 E H A HA. destruct (H A HA) as [c [Hc Ac]]. exists c. split; [apply E; exact Hc|exact Ac].
Qed.

Lemma C_complete_covers : forall N S avoid nfvs R cands, reduction_hyp N S avoid nfvs ->
  retained_total nfvs R -> complete_for N S avoid R cands -> covers N S avoid cands.
Proof.
  intros N S avoid nfvs R cands Hred HR Hc. apply (C_covers_ext N S avoid cands _ Hc). apply Hred. exact HR.
Qed.

(* ------------------------------------------------------------------------------------------ *)
(* 3. Tape / log alignment                                                                     *)
(* ------------------------------------------------------------------------------------------ *)
(* [pinv T st]: the pipeline state [st] was obtained from the initial state
   {| p_tape := T; p_log := [] |} by successful solver calls only: the consumed prefix of the
   tape is as long as the log.  [ext_of L st]: the log of [st] is a prefix of [L]. *)
Definition pinv (T : list (list state)) (st : pst) : Prop :=
  exists pre, T = pre ++ p_tape st /\ length pre = length (p_log st).
Definition ext_of (L : list call) (st : pst) : Prop := exists e, L = p_log st ++ e.
Definition log_le (st st' : pst) : Prop := exists e, p_log st' = p_log st ++ e.

Lemma C_log_le_refl : forall st, log_le st st.
Proof. intros st. exists []. rewrite app_nil_r. reflexivity. Qed.

Lemma C_log_le_trans : forall a b c, log_le a b -> log_le b c -> log_le a c.
Proof.
  intros a b c [e1 H1] [e2 H2]. exists (e1 ++ e2). rewrite H2, H1, app_assoc. reflexivity.
Qed.

Lemma C_ext_back : forall L st st', log_le st st' -> ext_of L st' -> ext_of L st.
Proof.
  intros L st st' [e1 H1] [e2 H2]. exists (e1 ++ e2). rewrite H2, H1, app_assoc. reflexivity.
Qed.

Lemma C_pinv_init : forall T, pinv T {| p_tape := T; p_log := [] |}.
Proof. intros T. exists []. split; reflexivity. Qed.

Lemma C_ext_self : forall st, ext_of (p_log st) st.
Proof. intros st. exists []. rewrite app_nil_r. reflexivity. Qed.

Lemma C_solve_le : forall st R lim st1 o, solve st R lim = (st1, o) -> log_le st st1.
Proof.
  intros st R lim st1 o H. unfold solve in H. exists [{| k_ret := R; k_limit := lim |}].
  destruct (p_tape st); inversion H; reflexivity.
Qed.

Lemma C_solve_ok : forall N S avoid L T st R lim st1 x,
  tape_ok N S avoid L T -> pinv T st -> solve st R lim = (st1, Some x) -> ext_of L st1 ->
  solve_ok N S avoid (nvars N) {| k_ret := R; k_limit := lim |} x /\ pinv T st1.
Proof.
  intros N S avoid L T st R lim st1 x HL [pre [HT Hpre]] H [e He]. unfold solve in H.
  destruct (p_tape st) as [|y t] eqn:Et; [discriminate|]. inversion H; subst st1 y. clear H. simpl in He.
  split.
  - apply (HL (length (p_log st))).
    + rewrite He, <- app_assoc. rewrite nth_error_app2 by lia. rewrite Nat.sub_diag. reflexivity.
    + rewrite HT, <- Hpre. rewrite nth_error_app2 by lia. rewrite Nat.sub_diag. reflexivity.
  - exists (pre ++ [x]). simpl. split; [rewrite <- app_assoc; exact HT|].
    rewrite !app_length. simpl. lia.
Qed.

(* ------------------------------------------------------------------------------------------ *)
(* 4. Retained-set bookkeeping                                                                 *)
(* ------------------------------------------------------------------------------------------ *)
Lemma C_ret_set_keys_in : forall v b R, In v (map fst R) -> map fst (ret_set v b R) = map fst R.
Proof.
  intros v b R. induction R as [|[w c] r IH]; intros H; [destruct H|]. simpl.
  destruct (Nat.eqb w v) eqn:E; [reflexivity|]. simpl. f_equal. apply IH.
  simpl in H. destruct H as [H|H]; [|exact H]. apply Nat.eqb_neq in E. contradiction.
Qed.

Lemma C_ret_set_keys_new : forall v b R, ~ In v (map fst R) -> map fst (ret_set v b R) = map fst R ++ [v].
Proof.
  intros v b R. induction R as [|[w c] r IH]; intros H; [reflexivity|]. simpl.
  destruct (Nat.eqb w v) eqn:E.
  - apply Nat.eqb_eq in E. exfalso. apply H. left. exact E.
  - simpl. f_equal. apply IH. intros F. apply H. right. exact F.
Qed.

(* ------------------------------------------------------------------------------------------ *)
(* 5. Greedy flips                                                                             *)
(* ------------------------------------------------------------------------------------------ *)
Lemma C_greedy_pass_cons : forall st pm v r R cands ch, cands <> [] ->
  greedy_pass st pm (v :: r) R cands ch =
  if pm && Nat.eqb (length cands) 1 then (st, Some (R, cands, ch, true)) else
  let R2 := ret_set v (negb (ret_get v R)) R in
  let '(st1, o) := solve st R2 (Some (length cands)) in
  match o with
  | None => (st1, None)
  | Some c2 => if Nat.ltb (length c2) (length cands)
               then greedy_pass st1 pm r R2 c2 true
               else greedy_pass st1 pm r R cands ch
  end.
Proof. intros st pm v r R cands ch H. destruct cands; [congruence|reflexivity]. Qed.

Lemma C_greedy_pass_le : forall pm vars st R cands ch st' o,
  greedy_pass st pm vars R cands ch = (st', o) -> log_le st st'.
Proof.
  intros pm vars. induction vars as [|v r IH]; intros st R cands ch st' o H.
  - simpl in H. inversion H. apply C_log_le_refl.
  - destruct cands as [|c0 cs].
    + simpl in H. inversion H. apply C_log_le_refl.
    + rewrite C_greedy_pass_cons in H by discriminate.
      destruct (pm && Nat.eqb (length (c0 :: cs)) 1); [inversion H; apply C_log_le_refl|].
      cbv zeta in H.
      destruct (solve st (ret_set v (negb (ret_get v R)) R) (Some (length (c0 :: cs)))) as [st1 o1] eqn:Es.
      apply C_solve_le in Es. destruct o1 as [c2|]; [|inversion H; subst; exact Es].
      destruct (Nat.ltb (length c2) (length (c0 :: cs))); apply IH in H; eapply C_log_le_trans; eassumption.
Qed.

Lemma C_greedy_loop_le : forall pm fuel st R cands st' o,
  greedy_loop fuel st pm R cands = (st', o) -> log_le st st'.
Proof.
  intros pm fuel. induction fuel as [|f IH]; intros st R cands st' o H.
  - simpl in H. inversion H. apply C_log_le_refl.
  - simpl in H. destruct (greedy_pass st pm (map fst R) R cands false) as [st1 o1] eqn:Ep.
    apply C_greedy_pass_le in Ep. destruct o1 as [[[[R1 c1] chg] early]|]; [|inversion H; subst; exact Ep].
    destruct early; [inversion H; subst; exact Ep|].
    destruct chg; [|inversion H; subst; exact Ep].
    apply IH in H. eapply C_log_le_trans; eassumption.
Qed.

Section Greedy.
Variables (N : net) (S : space) (avoid : list space) (L : list call) (T : list (list state)).
Hypothesis HL : tape_ok N S avoid L T.

Lemma C_greedy_pass_ok : forall pm vars st R cands ch st' R' cands' ch' early,
  ext_of L st' -> pinv T st -> (forall v, In v vars -> In v (map fst R)) ->
  complete_for N S avoid R cands ->
  greedy_pass st pm vars R cands ch = (st', Some (R', cands', ch', early)) ->
  pinv T st' /\ map fst R' = map fst R /\ complete_for N S avoid R' cands' /\ length cands' <= length cands.
Proof.
  intros pm vars. induction vars as [|v r IH]; intros st R cands ch st' R' cands' ch' early Hext Hinv Hvars Hc H.
  - simpl in H. inversion H; subst. repeat split; try assumption; try apply Hc; lia.
  - destruct cands as [|c0 cs].
    + simpl in H. inversion H; subst. repeat split; try assumption; try apply Hc; lia.
    + rewrite C_greedy_pass_cons in H by discriminate.
      destruct (pm && Nat.eqb (length (c0 :: cs)) 1).
      { inversion H; subst. repeat split; try assumption; try apply Hc; lia. }
      cbv zeta in H.
      destruct (solve st (ret_set v (negb (ret_get v R)) R) (Some (length (c0 :: cs)))) as [st1 o1] eqn:Es.
      destruct o1 as [c2|]; [|discriminate].
      assert (Hr : forall w, In w r -> In w (map fst R)) by (intros w Hw; apply Hvars; right; exact Hw).
      assert (Hkeys : map fst (ret_set v (negb (ret_get v R)) R) = map fst R)
        by (apply C_ret_set_keys_in; apply Hvars; left; reflexivity).
      assert (Hext1 : ext_of L st1).
      { destruct (Nat.ltb (length c2) (length (c0 :: cs))); apply C_greedy_pass_le in H;
          exact (C_ext_back L _ _ H Hext). }
      destruct (C_solve_ok N S avoid L T _ _ _ _ _ HL Hinv Es Hext1) as [Hok Hinv1].
      destruct (Nat.ltb (length c2) (length (c0 :: cs))) eqn:Elt.
      * apply Nat.ltb_lt in Elt.
        assert (Hc2 : complete_for N S avoid (ret_set v (negb (ret_get v R)) R) c2)
          by (eapply C_solve_complete_for; eassumption).
        apply IH in H; try assumption.
        -- destruct H as [H1 [H2 [H3 H4]]]. repeat split; try assumption; try apply H3; [congruence|lia].
        -- intros w Hw. rewrite Hkeys. apply Hr. exact Hw.
      * apply IH in H; assumption.
Qed.

Lemma C_greedy_loop_ok : forall pm fuel st R cands st' R' cands',
  ext_of L st' -> pinv T st -> complete_for N S avoid R cands ->
  greedy_loop fuel st pm R cands = (st', Some (R', cands')) ->
  pinv T st' /\ map fst R' = map fst R /\ complete_for N S avoid R' cands' /\ length cands' <= length cands.
Proof.
  intros pm fuel. induction fuel as [|f IH]; intros st R cands st' R' cands' Hext Hinv Hc H.
  - simpl in H. discriminate.
  - simpl in H. destruct (greedy_pass st pm (map fst R) R cands false) as [st1 o1] eqn:Ep.
    destruct o1 as [[[[R1 c1] chg] early]|]; [|discriminate].
    assert (Hext1 : ext_of L st1).
    { destruct early; [inversion H; subst; exact Hext|]. destruct chg; [|inversion H; subst; exact Hext].
      apply C_greedy_loop_le in H. exact (C_ext_back L _ _ H Hext). }
    destruct (C_greedy_pass_ok pm _ _ _ _ _ _ _ _ _ _ Hext1 Hinv (fun v Hv => Hv) Hc Ep) as [H1 [H2 [H3 H4]]].
    destruct early; [inversion H; subst; repeat split; try assumption; apply H3|].
    destruct chg; [|inversion H; subst; repeat split; try assumption; apply H3].
    apply IH in H; try assumption. destruct H as [G1 [G2 [G3 G4]]].
    repeat split; try assumption; try apply G3; [congruence|lia].
Qed.
End Greedy.

Lemma C_total_keys : forall nfvs R R', retained_total nfvs R -> map fst R' = map fst R -> retained_total nfvs R'.
Proof.
  intros nfvs R R' [H1 H2] E. split; [rewrite E; exact H1|]. intros v. rewrite <- H2, !C_ret_mem_In, E. reflexivity.
Qed.

(* greedy flips keep a complete list for a total retained set.  [T] is the tape the pipeline
   started from ([pinv T st]: the calls logged so far consumed the corresponding prefix of T) and the
   contract is required of the log at the end of the loop. *)
Theorem greedy_loop_complete : forall fuel N S avoid nfvs T st pm R cands st' R' cands',
  retained_total nfvs R -> complete_for N S avoid R cands ->
  greedy_loop fuel st pm R cands = (st', Some (R', cands')) ->
  pinv T st -> tape_ok N S avoid (p_log st') T ->
  retained_total nfvs R' /\ complete_for N S avoid R' cands'.
Proof.
  intros fuel N S avoid nfvs T st pm R cands st' R' cands' HR Hc H Hinv HL.
  destruct (C_greedy_loop_ok N S avoid _ T HL pm fuel _ _ _ _ _ _ (C_ext_self st') Hinv Hc H) as [_ [H2 [H3 _]]].
  split; [eapply C_total_keys; eassumption|exact H3].
Qed.

(* ------------------------------------------------------------------------------------------ *)
(* 6. Regeneration loop                                                                        *)
(* ------------------------------------------------------------------------------------------ *)
Lemma C_regen_le : forall fuel cfg pm vars st R cands st' res R',
  regen fuel st cfg pm vars R cands = (st', res, R') -> log_le st st'.
Proof.
  intros fuel cfg pm vars. induction vars as [|v r IH]; intros st R cands st' res R' H.
  - simpl in H. inversion H. apply C_log_le_refl.
  - simpl in H.
    destruct (solve st (ret_set v false R) (Some (c_limit cfg))) as [st1 o0] eqn:Es0.
    apply C_solve_le in Es0. destruct o0 as [zero|]; [|inversion H; subst; exact Es0].
    destruct (Nat.leb (length zero) (length cands) && Nat.ltb (length zero) (c_limit cfg)).
    { apply IH in H. eapply C_log_le_trans; eassumption. }
    destruct (solve st1 (ret_set v true R) (Some (length zero))) as [st2 o1] eqn:Es1.
    apply C_solve_le in Es1. assert (H02 : log_le st st2) by (eapply C_log_le_trans; eassumption).
    destruct o1 as [one|]; [|inversion H; subst; exact H02].
    destruct (Nat.eqb (length zero) (c_limit cfg) && Nat.eqb (length one) (c_limit cfg)).
    { inversion H; subst; exact H02. }
    destruct (Nat.leb (length one) (length cands)).
    { apply IH in H. eapply C_log_le_trans; eassumption. }
    destruct (if Nat.leb (length zero) (length one) then (ret_set v false R, zero) else (ret_set v true R, one))
      as [Rn cn].
    destruct (Nat.ltb (c_threshold cfg) (length cn)).
    + destruct (greedy_loop fuel st2 pm Rn cn) as [st3 og] eqn:Eg. apply C_greedy_loop_le in Eg.
      assert (H03 : log_le st st3) by (eapply C_log_le_trans; eassumption).
      destruct og as [[Rg cg]|]; [|inversion H; subst; exact H03].
      apply IH in H. eapply C_log_le_trans; eassumption.
    + apply IH in H. eapply C_log_le_trans; eassumption.
Qed.

Section Regen.
Variables (N : net) (S : space) (avoid : list space) (L : list call) (T : list (list state)).
Hypothesis HL : tape_ok N S avoid L T.

(* whatever the starting list, after the last variable the list is the complete set of reduced
   fixed points of the final retained set, whose keys are the old keys followed by the variables;
   with c_limit = 0 the loop never returns a list *)
Lemma C_regen_ok : forall fuel cfg pm vars st R cands st' res R',
  ext_of L st' -> pinv T st -> NoDup (map fst R ++ vars) ->
  (vars = [] -> complete_for N S avoid R cands) ->
  regen fuel st cfg pm vars R cands = (st', COk res, R') ->
  pinv T st' /\ map fst R' = map fst R ++ vars /\ complete_for N S avoid R' res /\
  (vars <> [] -> c_limit cfg <> 0).
Proof.
  intros fuel cfg pm vars. induction vars as [|v r IH]; intros st R cands st' res R' Hext Hinv Hnd Hc H.
  - simpl in H. inversion H; subst. rewrite app_nil_r. repeat split; try assumption; try apply (Hc eq_refl).
    intros F; congruence.
  - assert (Hv : ~ In v (map fst R)).
    { intros F. apply NoDup_remove_2 in Hnd. apply Hnd. apply in_or_app. left. exact F. }
    assert (Hk0 : map fst (ret_set v false R) = map fst R ++ [v]) by (apply C_ret_set_keys_new; exact Hv).
    assert (Hk1 : map fst (ret_set v true R) = map fst R ++ [v]) by (apply C_ret_set_keys_new; exact Hv).
    (* continuation with a complete list for a retained set whose keys are [keys R ++ [v]] *)
    assert (Hcont : forall stx Rn cn, pinv T stx -> map fst Rn = map fst R ++ [v] ->
              complete_for N S avoid Rn cn -> c_limit cfg <> 0 ->
              regen fuel stx cfg pm r Rn cn = (st', COk res, R') ->
              pinv T st' /\ map fst R' = map fst R ++ v :: r /\ complete_for N S avoid R' res /\
              (v :: r <> [] -> c_limit cfg <> 0)).
    { intros stx Rn cn Hix Hkn Hcn Hlim Hx. apply IH in Hx; try assumption.
      - destruct Hx as [G1 [G2 [G3 _]]]. rewrite Hkn, <- app_assoc in G2.
        repeat split; try assumption; try apply G3. intros _. exact Hlim.
      - rewrite Hkn, <- app_assoc. exact Hnd.
      - intros _. exact Hcn. }
    simpl in H.
    destruct (solve st (ret_set v false R) (Some (c_limit cfg))) as [st1 o0] eqn:Es0.
    destruct o0 as [zero|]; [|discriminate].
    destruct (Nat.leb (length zero) (length cands) && Nat.ltb (length zero) (c_limit cfg)) eqn:Ea.
    { assert (Hext1 : ext_of L st1) by (apply C_regen_le in H; exact (C_ext_back L _ _ H Hext)).
      destruct (C_solve_ok N S avoid L T _ _ _ _ _ HL Hinv Es0 Hext1) as [Hok0 Hinv1].
      apply andb_true_iff in Ea. destruct Ea as [_ Ea]. apply Nat.ltb_lt in Ea.
      apply (Hcont st1 (ret_set v false R) zero); try assumption; [|lia].
      eapply C_solve_complete_for; eassumption. }
    destruct (solve st1 (ret_set v true R) (Some (length zero))) as [st2 o1] eqn:Es1.
    destruct o1 as [one|]; [|discriminate].
    destruct (Nat.eqb (length zero) (c_limit cfg) && Nat.eqb (length one) (c_limit cfg)) eqn:Eraise; [discriminate|].
    assert (Hext2 : ext_of L st2).
    { destruct (Nat.leb (length one) (length cands)).
      - apply C_regen_le in H. exact (C_ext_back L _ _ H Hext).
      - destruct (if Nat.leb (length zero) (length one) then (ret_set v false R, zero) else (ret_set v true R, one))
          as [Rn cn].
        destruct (Nat.ltb (c_threshold cfg) (length cn)).
        + destruct (greedy_loop fuel st2 pm Rn cn) as [st3 og] eqn:Eg. apply C_greedy_loop_le in Eg.
          destruct og as [[Rg cg]|]; [|discriminate]. apply C_regen_le in H.
          exact (C_ext_back L _ _ Eg (C_ext_back L _ _ H Hext)).
        + apply C_regen_le in H. exact (C_ext_back L _ _ H Hext). }
    assert (Hext1 : ext_of L st1) by (apply C_solve_le in Es1; exact (C_ext_back L _ _ Es1 Hext2)).
    destruct (C_solve_ok N S avoid L T _ _ _ _ _ HL Hinv Es0 Hext1) as [Hok0 Hinv1].
    destruct (C_solve_ok N S avoid L T _ _ _ _ _ HL Hinv1 Es1 Hext2) as [Hok1 Hinv2].
    assert (Hz : length zero <= c_limit cfg) by (eapply C_solve_length_le; eassumption).
    assert (Ho : length one <= length zero) by (eapply C_solve_length_le; eassumption).
    assert (Hnr : ~ (length zero = c_limit cfg /\ length one = c_limit cfg)).
    { intros [F1 F2]. apply Nat.eqb_eq in F1, F2. rewrite F1, F2 in Eraise. discriminate. }
    assert (Hlim : c_limit cfg <> 0) by (intros F; apply Hnr; lia).
    assert (Hna : length cands < length zero \/ length zero = c_limit cfg).
    { apply andb_false_iff in Ea. destruct Ea as [Ea|Ea].
      - apply Nat.leb_gt in Ea. left. exact Ea.
      - apply Nat.ltb_ge in Ea. right. lia. }
    assert (Hzero_c : length zero < c_limit cfg -> complete_for N S avoid (ret_set v false R) zero)
      by (intros F; eapply C_solve_complete_for; eassumption).
    assert (Hone_c : length one < length zero -> complete_for N S avoid (ret_set v true R) one)
      by (intros F; eapply C_solve_complete_for; eassumption).
    destruct (Nat.leb (length one) (length cands)) eqn:Eb.
    { apply Nat.leb_le in Eb. apply (Hcont st2 (ret_set v true R) one); try assumption.
      apply Hone_c. destruct Hna as [Hna|Hna]; [lia|]. 
      destruct (Nat.eq_dec (length one) (length zero)) as [E|E]; [|lia].
      exfalso. apply Hnr. split; [exact Hna|lia]. }
    assert (Hsel : exists Rn cn,
               (if Nat.leb (length zero) (length one) then (ret_set v false R, zero) else (ret_set v true R, one))
               = (Rn, cn) /\ map fst Rn = map fst R ++ [v] /\ complete_for N S avoid Rn cn).
    { destruct (Nat.leb (length zero) (length one)) eqn:Ec.
      - apply Nat.leb_le in Ec. exists (ret_set v false R), zero. split; [reflexivity|]. split; [exact Hk0|].
        apply Hzero_c. destruct (Nat.eq_dec (length zero) (c_limit cfg)) as [E|E]; [|lia].
        exfalso. apply Hnr. split; [exact E|lia].
      - apply Nat.leb_gt in Ec. exists (ret_set v true R), one. split; [reflexivity|]. split; [exact Hk1|].
        apply Hone_c. exact Ec. }
    destruct Hsel as [Rn [cn [Esel [Hkn Hcn]]]]. rewrite Esel in H.
    destruct (Nat.ltb (c_threshold cfg) (length cn)).
    + destruct (greedy_loop fuel st2 pm Rn cn) as [st3 og] eqn:Eg.
      destruct og as [[Rg cg]|]; [|discriminate].
      assert (Hext3 : ext_of L st3) by (apply C_regen_le in H; exact (C_ext_back L _ _ H Hext)).
      destruct (C_greedy_loop_ok N S avoid L T HL pm fuel _ _ _ _ _ _ Hext3 Hinv2 Hcn Eg) as [G1 [G2 [G3 _]]].
      apply (Hcont st3 Rg cg); try assumption. congruence.
    + apply (Hcont st2 Rn cn); assumption.
Qed.
End Regen.

(* ------------------------------------------------------------------------------------------ *)
(* 7. Simulation minification                                                                  *)
(* ------------------------------------------------------------------------------------------ *)
(* Walk contract.  The walk tape is consumed positionally while the candidate list shrinks, so
   the contract follows the run: the walk handed to [sim_avoid] for candidate c visits only states
   reachable from c; the move handed to [sim_min_round] for state c is reachable from c.  An
   exhausted tape yields the empty walk / the state itself, which satisfy the contract. *)
Fixpoint walks_for (N : net) (pending : list state) (walks : list (list state)) : Prop :=
  match pending with
  | [] => True
  | c :: rest => (forall t, In t (hd [] walks) -> reach N c t) /\ walks_for N rest (tl walks)
  end.

Fixpoint moves_for (N : net) (pending : list state) (moves : list state) : Prop :=
  match pending with
  | [] => True
  | c :: rest => reach N c (hd c moves) /\ moves_for N rest (tl moves)
  end.

Fixpoint sim_min_ok (N : net) (iters : nat) (cands : list state) (moves : list state) : Prop :=
  match iters with
  | O => True
  | Datatypes.S k =>
      moves_for N cands moves /\
      let '(c1, m1) := sim_min_round cands [] moves in
      if Nat.leb (length c1) 1 then True else sim_min_ok N k c1 m1
  end.

(* one round of sim_rounds *)
Definition sim_step (avoid : list space) (iters : nat) (cands : list state) (tp : simtape)
  : list state * simtape :=
  match avoid with
  | [] => let '(c1, m1) := sim_min iters cands (s_moves tp) in (c1, {| s_walks := s_walks tp; s_moves := m1 |})
  | _ => let '(c1, w1) := sim_avoid avoid cands [] (s_walks tp) in (c1, {| s_walks := w1; s_moves := s_moves tp |})
  end.

Definition sim_step_ok (N : net) (avoid : list space) (iters : nat) (cands : list state) (tp : simtape) : Prop :=
  match avoid with
  | [] => sim_min_ok N iters cands (s_moves tp)
  | _ => walks_for N cands (s_walks tp)
  end.

Fixpoint sim_rounds_ok (N : net) (rounds : nat) (avoid : list space) (nfree : nat) (cfg : ccfg) (iters : nat)
         (cands : list state) (tp : simtape) : Prop :=
  match rounds with
  | O => True
  | Datatypes.S r =>
      match cands with
      | [] => True
      | _ =>
          sim_step_ok N avoid iters cands tp /\
          let '(reduced, tp1) := sim_step avoid iters cands tp in
          if Nat.eqb (length reduced) (length cands) && Nat.ltb (c_budget cfg * nfree) (iters * length cands)
          then True
          else if Nat.eqb (length reduced) 1 && (match avoid with [] => true | _ => false end) then True
          else sim_rounds_ok N r avoid nfree cfg (2 * iters) reduced tp1
      end
  end.

Lemma C_sim_rounds_S : forall r avoid nfree cfg iters cands tp, cands <> [] ->
  sim_rounds (Datatypes.S r) avoid nfree cfg iters cands tp =
  let '(reduced, tp1) := sim_step avoid iters cands tp in
  if Nat.eqb (length reduced) (length cands) && Nat.ltb (c_budget cfg * nfree) (iters * length cands)
  then reduced
  else if Nat.eqb (length reduced) 1 && (match avoid with [] => true | _ => false end) then reduced
  else sim_rounds r avoid nfree cfg (2 * iters) reduced tp1.
Proof. intros r avoid nfree cfg iters cands tp H. destruct cands; [congruence|reflexivity]. Qed.

Lemma C_last_in : forall (w : list state) a c, In (last (a :: w) c) (a :: w).
Proof.
  induction w as [|b w IH]; intros a c; [left; reflexivity|].
  right. change (last (a :: b :: w) c) with (last (b :: w) c). apply IH.
Qed.

Lemma C_last_cases : forall (w : list state) c, last w c = c \/ In (last w c) w.
Proof. intros [|a w] c; [left; reflexivity|right; apply C_last_in]. Qed.

Section Sim.
Variables (N : net) (S : space) (avoid : list space).
Hypothesis HS : trap_space N S.
Hypothesis Havoid : forall a, In a avoid -> trap_space N a.

Lemma C_reach_in_S : forall c t, in_space c S = true -> reach N c t -> in_space t S = true.
Proof.
  intros c t Hc Hr. apply (trap_reach_inside N S c t HS); try assumption.
  apply (in_space_wf N c S); [apply trap_space_length; exact HS|exact Hc].
Qed.

Lemma C_attr_closed_reach : forall av (A : state -> Prop) c t, node_attr N S av A -> A c -> reach N c t -> A t.
Proof.
  intros av A c t [[_ [_ [Hcl _]]] _] Hc Hr. exact (A_closed_reach N A c t Hcl Hc Hr).
Qed.

Lemma C_sim_avoid_inv : forall av pending kept walks res w',
  (forall a, In a av -> In a avoid) ->
  walks_for N pending walks -> (forall c, In c (pending ++ kept) -> in_space c S = true) ->
  sim_avoid av pending kept walks = (res, w') ->
  (forall c, In c res -> in_space c S = true) /\
  forall A, node_attr N S av A -> (exists c, In c (pending ++ kept) /\ A c) -> exists c, In c res /\ A c.
Proof.
  intros av pending. induction pending as [|c rest IH]; intros kept walks res w' Hav Hw HinS H.
  - simpl in H. inversion H; subst. split.
    + intros c Hc. apply HinS. simpl. apply in_rev. exact Hc.
    + intros A _ [c [Hc Ac]]. exists c. split; [apply in_rev in Hc; exact Hc|exact Ac].
  - simpl in H. destruct Hw as [Hw1 Hw2].
    assert (HcS : in_space c S = true) by (apply HinS; left; reflexivity).
    destruct (existsb (fun t => mem_state t (rest ++ kept) || existsb (in_space t) av) (hd [] walks)) eqn:Ehit.
    + apply IH in H; try assumption.
      2:{ intros x Hx. apply HinS. right. exact Hx. }
      destruct H as [H1 H2]. split; [exact H1|]. intros A HA [c0 [Hc0 Ac0]]. apply (H2 A HA).
      simpl in Hc0. destruct Hc0 as [Hc0|Hc0]; [|exists c0; split; assumption]. subst c0.
      apply existsb_exists in Ehit. destruct Ehit as [t [Ht Et]].
      assert (At : A t) by (apply (C_attr_closed_reach av A c t HA Ac0); apply Hw1; exact Ht).
      apply orb_true_iff in Et. destruct Et as [Et|Et].
      * apply mem_state_spec in Et. exists t. split; assumption.
      * exfalso. apply existsb_exists in Et. destruct Et as [a [Ha Eta]].
        destruct HA as [HattrA [_ Hnot]]. apply Hnot. exists a. split; [exact Ha|].
        apply (attractor_meets_trap N A a t HattrA (Havoid a (Hav a Ha)) At Eta).
    + assert (Hlast : reach N c (last (hd [] walks) c)).
      { destruct (C_last_cases (hd [] walks) c) as [E|E]; [rewrite E; apply A_reach_refl|apply Hw1; exact E]. }
      apply IH in H; try assumption.
      2:{ intros x Hx. apply in_app_or in Hx. destruct Hx as [Hx|[Hx|Hx]].
          - apply HinS. right. apply in_or_app. left. exact Hx.
          - subst x. apply (C_reach_in_S c _ HcS Hlast).
          - apply HinS. right. apply in_or_app. right. exact Hx. }
      destruct H as [H1 H2]. split; [exact H1|]. intros A HA [c0 [Hc0 Ac0]]. apply (H2 A HA).
      simpl in Hc0. destruct Hc0 as [Hc0|Hc0].
      * subst c0. exists (last (hd [] walks) c). split; [apply in_or_app; right; left; reflexivity|].
        exact (C_attr_closed_reach av A c _ HA Ac0 Hlast).
      * exists c0. split; [|exact Ac0]. apply in_app_or in Hc0. apply in_or_app.
        destruct Hc0 as [Hc0|Hc0]; [left; exact Hc0|right; right; exact Hc0].
Qed.

(* sim_avoid started with kept = [] on a covering candidate list inside S: the returned list
   covers and lies in S *)
Theorem sim_avoid_covers : forall cands walks res w',
  (forall c, In c cands -> in_space c S = true) -> covers N S avoid cands ->
  walks_for N cands walks ->
  sim_avoid avoid cands [] walks = (res, w') ->
  (forall c, In c res -> in_space c S = true) /\ covers N S avoid res.
Proof.
  intros cands walks res w' HinS Hcov Hw H.
  destruct (C_sim_avoid_inv avoid cands [] walks res w' (fun a Ha => Ha) Hw) with (2 := H) as [H1 H2].
  { intros c Hc. rewrite app_nil_r in Hc. apply HinS. exact Hc. }
  split; [exact H1|]. intros A HA. apply (H2 A HA). destruct (Hcov A HA) as [c [Hc Ac]].
  exists c. split; [rewrite app_nil_r; exact Hc|exact Ac].
Qed.

Lemma C_sim_min_round_inv : forall pending newc moves res m',
  moves_for N pending moves -> (forall c, In c (pending ++ newc) -> in_space c S = true) ->
  sim_min_round pending newc moves = (res, m') ->
  (forall c, In c res -> in_space c S = true) /\
  forall A : state -> Prop, closed N A -> (exists c, In c (pending ++ newc) /\ A c) -> exists c, In c res /\ A c.
Proof.
  intros pending. induction pending as [|c rest IH]; intros newc moves res m' Hm HinS H.
  - simpl in H. inversion H; subst. split.
    + intros c Hc. apply HinS. simpl. apply in_rev. exact Hc.
    + intros A _ [c [Hc Ac]]. exists c. split; [apply in_rev in Hc; exact Hc|exact Ac].
  - simpl in H. destruct Hm as [Hm1 Hm2].
    assert (HcS : in_space c S = true) by (apply HinS; left; reflexivity).
    destruct (mem_state (hd c moves) rest || mem_state (hd c moves) newc) eqn:Ehit.
    + apply IH in H; try assumption.
      2:{ intros x Hx. apply HinS. right. exact Hx. }
      destruct H as [H1 H2]. split; [exact H1|]. intros A HA [c0 [Hc0 Ac0]]. apply (H2 A HA).
      simpl in Hc0. destruct Hc0 as [Hc0|Hc0]; [|exists c0; split; assumption]. subst c0.
      exists (hd c moves). split; [|exact (A_closed_reach N A c _ HA Ac0 Hm1)].
      apply in_or_app. apply orb_true_iff in Ehit. destruct Ehit as [E|E]; apply mem_state_spec in E; tauto.
    + apply IH in H; try assumption.
      2:{ intros x Hx. apply in_app_or in Hx. destruct Hx as [Hx|[Hx|Hx]].
          - apply HinS. right. apply in_or_app. left. exact Hx.
          - subst x. apply (C_reach_in_S c _ HcS Hm1).
          - apply HinS. right. apply in_or_app. right. exact Hx. }
      destruct H as [H1 H2]. split; [exact H1|]. intros A HA [c0 [Hc0 Ac0]]. apply (H2 A HA).
      simpl in Hc0. destruct Hc0 as [Hc0|Hc0].
      * subst c0. exists (hd c moves). split; [apply in_or_app; right; left; reflexivity|].
        exact (A_closed_reach N A c _ HA Ac0 Hm1).
      * exists c0. split; [|exact Ac0]. apply in_app_or in Hc0. apply in_or_app.
        destruct Hc0 as [Hc0|Hc0]; [left; exact Hc0|right; right; exact Hc0].
Qed.

Lemma C_sim_min_inv : forall iters cands moves res m',
  sim_min_ok N iters cands moves -> (forall c, In c cands -> in_space c S = true) ->
  sim_min iters cands moves = (res, m') ->
  (forall c, In c res -> in_space c S = true) /\
  forall A : state -> Prop, closed N A -> (exists c, In c cands /\ A c) -> exists c, In c res /\ A c.
Proof.
  intros iters. induction iters as [|k IH]; intros cands moves res m' Hok HinS H.
  - simpl in H. inversion H; subst. split; [exact HinS|]. intros A _ HA. exact HA.
  - simpl in H. simpl in Hok. destruct Hok as [Hm Hok].
    destruct (sim_min_round cands [] moves) as [c1 m1] eqn:Er.
    destruct (C_sim_min_round_inv cands [] moves c1 m1 Hm) with (2 := Er) as [R1 R2].
    { intros c Hc. rewrite app_nil_r in Hc. apply HinS. exact Hc. }
    assert (R2' : forall A : state -> Prop, closed N A -> (exists c, In c cands /\ A c) -> exists c, In c c1 /\ A c).
    { intros A HA [c [Hc Ac]]. apply (R2 A HA). exists c. split; [rewrite app_nil_r; exact Hc|exact Ac]. }
    destruct (Nat.leb (length c1) 1).
    + inversion H; subst. split; assumption.
    + destruct (IH c1 m1 res m' Hok R1 H) as [G1 G2]. split; [exact G1|].
      intros A HA Hex. apply (G2 A HA). apply (R2' A HA). exact Hex.
Qed.

(* sim_min keeps a member of every attractor (of every closed set) that had one; stated for an
   arbitrary avoid list, in particular for avoid = [] where the pipeline uses it *)
Theorem sim_min_covers : forall iters cands moves res m',
  (forall c, In c cands -> in_space c S = true) -> covers N S avoid cands ->
  sim_min_ok N iters cands moves ->
  sim_min iters cands moves = (res, m') ->
  (forall c, In c res -> in_space c S = true) /\ covers N S avoid res.
Proof.
  intros iters cands moves res m' HinS Hcov Hok H.
  destruct (C_sim_min_inv iters cands moves res m' Hok HinS H) as [H1 H2]. split; [exact H1|].
  intros A HA. apply H2; [destruct HA as [[_ [_ [Hcl _]]] _]; exact Hcl|]. exact (Hcov A HA).
Qed.

Lemma C_sim_step_covers : forall iters cands tp reduced tp1,
  (forall c, In c cands -> in_space c S = true) -> covers N S avoid cands ->
  sim_step_ok N avoid iters cands tp ->
  sim_step avoid iters cands tp = (reduced, tp1) ->
  (forall c, In c reduced -> in_space c S = true) /\ covers N S avoid reduced.
Proof.
  intros iters cands tp reduced tp1 HinS Hcov Hok H. unfold sim_step, sim_step_ok in *.
  destruct avoid as [|a0 av] eqn:Eav.
  - destruct (sim_min iters cands (s_moves tp)) as [c1 m1] eqn:Em. inversion H; subst reduced tp1.
    rewrite <- Eav in Hcov |- *. eapply sim_min_covers; eassumption.
  - rewrite <- Eav in *. destruct (sim_avoid avoid cands [] (s_walks tp)) as [c1 w1] eqn:Ea.
    inversion H; subst reduced tp1. eapply sim_avoid_covers; eassumption.
Qed.

Theorem sim_rounds_covers : forall rounds nfree cfg iters cands tp,
  (forall c, In c cands -> in_space c S = true) -> covers N S avoid cands ->
  sim_rounds_ok N rounds avoid nfree cfg iters cands tp ->
  (forall c, In c (sim_rounds rounds avoid nfree cfg iters cands tp) -> in_space c S = true) /\
  covers N S avoid (sim_rounds rounds avoid nfree cfg iters cands tp).
Proof.
  intros rounds nfree cfg. induction rounds as [|r IH]; intros iters cands tp HinS Hcov Hok.
  - simpl. split; assumption.
  - destruct cands as [|c0 cs] eqn:Ec; [simpl; split; assumption|]. rewrite <- Ec in *.
    assert (Hne : cands <> []) by (rewrite Ec; discriminate).
    rewrite C_sim_rounds_S by exact Hne.
    assert (Hok' : sim_step_ok N avoid iters cands tp /\
              let '(reduced, tp1) := sim_step avoid iters cands tp in
              if Nat.eqb (length reduced) (length cands) && Nat.ltb (c_budget cfg * nfree) (iters * length cands)
              then True
              else if Nat.eqb (length reduced) 1 && (match avoid with [] => true | _ => false end) then True
              else sim_rounds_ok N r avoid nfree cfg (2 * iters) reduced tp1).
    { rewrite Ec in Hok |- *. exact Hok. }
    clear Hok. destruct Hok' as [Hs Hok].
    destruct (sim_step avoid iters cands tp) as [reduced tp1] eqn:Es.
    destruct (C_sim_step_covers iters cands tp reduced tp1 HinS Hcov Hs Es) as [G1 G2].
    destruct (Nat.eqb (length reduced) (length cands) && Nat.ltb (c_budget cfg * nfree) (iters * length cands));
      [split; assumption|].
    destruct (Nat.eqb (length reduced) 1 && (match avoid with [] => true | _ => false end)); [split; assumption|].
    apply IH; assumption.
Qed.
End Sim.

(* ------------------------------------------------------------------------------------------ *)
(* 8. The pipeline: separating the simulation step                                             *)
(* ------------------------------------------------------------------------------------------ *)
(* [finish_fn] is the local function `finish` of compute_candidates; [pre_candidates] is
   compute_candidates up to the call of `finish` (proof device; C_cc_pre shows that
   compute_candidates is exactly their composition, for every value of `simulation`). *)
Definition finish_fn (pm simulation : bool) (fuel : nat) (avoid : list space) (nf : nat) (cfg : ccfg)
           (stp : simtape) (st : pst) (cands : list state) : cres * list call :=
  match cands with
  | [] => (COk [], p_log st)
  | _ =>
      if pm && Nat.eqb (length cands) 1 then (COk cands, p_log st) else
      if simulation then (COk (sim_rounds fuel avoid nf cfg 1024 cands stp), p_log st)
      else (COk cands, p_log st)
  end.

Inductive pre_res := PFinal (r : cres * list call) | PFinish (st : pst) (cands : list state).

Definition full_state (S : space) : state := map (fun o => match o with Some b => b | None => false end) S.

Definition pre_candidates (fuel : nat) (N : net) (S : space) (avoid : list space) (nfvs : list nat)
           (Rinit : retained) (cfg : ccfg) (greedy : bool) (tape : list (list state)) : pre_res :=
  let pseudo_min := match avoid with [] => true | _ => false end in
  if is_full S then PFinal (COk [full_state S], []) else
  if (match nfvs with [] => true | _ => false end) && negb pseudo_min then PFinal (COk [], []) else
  let st0 := {| p_tape := tape; p_log := [] |} in
  if negb greedy then
    let '(st1, o) := solve st0 Rinit (Some (c_limit cfg)) in
    match o with
    | None => PFinal (CTapeEnd, p_log st1)
    | Some c => if Nat.eqb (length c) (c_limit cfg) then PFinal (CRaised, p_log st1) else PFinish st1 c
    end
  else
    let '(st1, o) := solve st0 Rinit (Some (c_threshold cfg)) in
    match o with
    | None => PFinal (CTapeEnd, p_log st1)
    | Some c =>
        if Nat.ltb (length c) (c_threshold cfg) then
          if Nat.ltb 1 (length c) || (negb pseudo_min && Nat.ltb 0 (length c)) then
            let '(st2, og) := greedy_loop fuel st1 pseudo_min Rinit c in
            match og with
            | None => PFinal (CTapeEnd, p_log st2)
            | Some (_, cg) => PFinish st2 cg
            end
          else PFinish st1 c
        else
          match nfvs with
          | [] =>
              let '(st2, o2) := solve st1 [] (Some (c_limit cfg)) in
              match o2 with
              | None => PFinal (CTapeEnd, p_log st2)
              | Some c2 => if Nat.eqb (length c2) (c_limit cfg) then PFinal (CRaised, p_log st2) else PFinish st2 c2
              end
          | _ =>
              let '(st2, r, _) := regen fuel st1 cfg pseudo_min nfvs [] [] in
              match r with
              | COk cr => PFinish st2 cr
              | other => PFinal (other, p_log st2)
              end
          end
    end.

Lemma C_cc_pre : forall fuel N S avoid nfvs Rinit cfg greedy simulation tape stp,
  compute_candidates fuel N S avoid nfvs Rinit cfg greedy simulation tape stp =
  match pre_candidates fuel N S avoid nfvs Rinit cfg greedy tape with
  | PFinal r => r
  | PFinish st cands =>
      finish_fn (match avoid with [] => true | _ => false end) simulation fuel avoid (nfree S) cfg stp st cands
  end.
Proof.
  intros fuel N S avoid nfvs Rinit cfg greedy simulation tape stp.
  unfold compute_candidates, pre_candidates, finish_fn, full_state.
  destruct (is_full S); [reflexivity|].
  destruct ((match nfvs with [] => true | _ => false end) && negb (match avoid with [] => true | _ => false end));
    [reflexivity|].
  cbv zeta. destruct (negb greedy).
  - destruct (solve {| p_tape := tape; p_log := [] |} Rinit (Some (c_limit cfg))) as [st1 [c|]]; [|reflexivity].
    destruct (Nat.eqb (length c) (c_limit cfg)); reflexivity.
  - destruct (solve {| p_tape := tape; p_log := [] |} Rinit (Some (c_threshold cfg))) as [st1 [c|]]; [|reflexivity].
    destruct (Nat.ltb (length c) (c_threshold cfg)).
    + destruct (Nat.ltb 1 (length c) || (negb (match avoid with [] => true | _ => false end) && Nat.ltb 0 (length c)));
        [|reflexivity].
      destruct (greedy_loop fuel st1 (match avoid with [] => true | _ => false end) Rinit c) as [st2 [[Rg cg]|]];
        reflexivity.
    + destruct nfvs as [|v0 vs].
      * destruct (solve st1 [] (Some (c_limit cfg))) as [st2 [c2|]]; [|reflexivity].
        destruct (Nat.eqb (length c2) (c_limit cfg)); reflexivity.
      * destruct (regen fuel st1 cfg (match avoid with [] => true | _ => false end) (v0 :: vs) [] []) as [[st2 r] R'].
        destruct r; reflexivity.
Qed.

Lemma C_finish_false : forall pm fuel avoid nf cfg stp st cands,
  finish_fn pm false fuel avoid nf cfg stp st cands = (COk cands, p_log st).
Proof.
  intros pm fuel avoid nf cfg stp st cands. unfold finish_fn. destruct cands; [reflexivity|].
  destruct (pm && Nat.eqb (length (s :: cands)) 1); reflexivity.
Qed.

Lemma C_finish_cases : forall pm simulation fuel avoid nf cfg stp st cands res log,
  finish_fn pm simulation fuel avoid nf cfg stp st cands = (COk res, log) ->
  log = p_log st /\ (res = cands \/ (simulation = true /\ res = sim_rounds fuel avoid nf cfg 1024 cands stp)).
Proof.
  intros pm simulation fuel avoid nf cfg stp st cands res log H. unfold finish_fn in H.
  destruct cands as [|c0 cs]; [inversion H; split; [reflexivity|left; reflexivity]|].
  destruct (pm && Nat.eqb (length (c0 :: cs)) 1); [inversion H; split; [reflexivity|left; reflexivity]|].
  destruct simulation; inversion H; split; try reflexivity; [right; split; reflexivity|left; reflexivity].
Qed.

Lemma C_total_nil : retained_total [] [].
Proof. split; [constructor|]. intros v. simpl. split; [discriminate|intros []]. Qed.

(* every list handed to `finish` is the complete set of reduced fixed points of a total retained
   assignment; with c_limit = 0 this only happens on the greedy small-list path *)
Lemma C_pre_finish : forall fuel N S avoid nfvs Rinit cfg greedy tape st cands,
  NoDup nfvs -> retained_total nfvs Rinit ->
  pre_candidates fuel N S avoid nfvs Rinit cfg greedy tape = PFinish st cands ->
  tape_ok N S avoid (p_log st) tape ->
  exists R, retained_total nfvs R /\ complete_for N S avoid R cands /\
            (c_limit cfg = 0 -> greedy = true /\ length cands < c_threshold cfg).
Proof.
  intros fuel N S avoid nfvs Rinit cfg greedy tape st cands Hnd HRi H HL.
  unfold pre_candidates in H.
  destruct (is_full S); [discriminate|].
  destruct ((match nfvs with [] => true | _ => false end) && negb (match avoid with [] => true | _ => false end));
    [discriminate|].
  cbv zeta in H. set (pm := match avoid with [] => true | _ => false end) in *.
  pose proof (C_pinv_init tape) as Hinv0.
  destruct greedy; simpl negb in H; cbv iota in H.
  - (* greedy *)
    destruct (solve {| p_tape := tape; p_log := [] |} Rinit (Some (c_threshold cfg))) as [st1 [c|]] eqn:Es0;
      [|discriminate].
    assert (Hext1 : ext_of (p_log st) st1).
    { destruct (Nat.ltb (length c) (c_threshold cfg)).
      - destruct (Nat.ltb 1 (length c) || (negb pm && Nat.ltb 0 (length c))).
        + destruct (greedy_loop fuel st1 pm Rinit c) as [st2 [[Rg cg]|]] eqn:Eg; [|discriminate].
          inversion H; subst st2 cg. apply C_greedy_loop_le in Eg. exact (C_ext_back _ _ _ Eg (C_ext_self st)).
        + inversion H; subst. apply C_ext_self.
      - destruct nfvs as [|v0 vs].
        + destruct (solve st1 [] (Some (c_limit cfg))) as [st2 [c2|]] eqn:Es1; [|discriminate].
          destruct (Nat.eqb (length c2) (c_limit cfg)); [discriminate|]. inversion H; subst st2 c2.
          apply C_solve_le in Es1. exact (C_ext_back _ _ _ Es1 (C_ext_self st)).
        + destruct (regen fuel st1 cfg pm (v0 :: vs) [] []) as [[st2 r] R'] eqn:Er.
          destruct r; try discriminate. inversion H; subst st2 l. apply C_regen_le in Er.
          exact (C_ext_back _ _ _ Er (C_ext_self st)). }
    destruct (C_solve_ok N S avoid _ tape _ _ _ _ _ HL Hinv0 Es0 Hext1) as [Hok0 Hinv1].
    destruct (Nat.ltb (length c) (c_threshold cfg)) eqn:Elt.
    + apply Nat.ltb_lt in Elt.
      assert (Hc : complete_for N S avoid Rinit c) by (eapply C_solve_complete_for; eassumption).
      destruct (Nat.ltb 1 (length c) || (negb pm && Nat.ltb 0 (length c))).
      * destruct (greedy_loop fuel st1 pm Rinit c) as [st2 [[Rg cg]|]] eqn:Eg; [|discriminate].
        inversion H; subst st2 cg.
        destruct (C_greedy_loop_ok N S avoid _ tape HL pm fuel _ _ _ _ _ _ (C_ext_self st) Hinv1 Hc Eg)
          as [_ [G2 [G3 G4]]].
        exists Rg. split; [eapply C_total_keys; eassumption|]. split; [exact G3|]. intros _. split; [reflexivity|lia].
      * inversion H; subst st1 c. exists Rinit. split; [exact HRi|]. split; [exact Hc|]. intros _. split; [reflexivity|exact Elt].
    + destruct nfvs as [|v0 vs].
      * destruct (solve st1 [] (Some (c_limit cfg))) as [st2 [c2|]] eqn:Es1; [|discriminate].
        destruct (Nat.eqb (length c2) (c_limit cfg)) eqn:Eraise; [discriminate|]. inversion H; subst st2 c2.
        destruct (C_solve_ok N S avoid _ tape _ _ _ _ _ HL Hinv1 Es1 (C_ext_self st)) as [Hok1 _].
        apply Nat.eqb_neq in Eraise. pose proof (C_solve_length_le _ _ _ _ _ _ Hok1) as Hle.
        exists []. split; [exact C_total_nil|]. split; [eapply C_solve_complete_for; [eassumption|lia]|].
        intros F. lia.
      * destruct (regen fuel st1 cfg pm (v0 :: vs) [] []) as [[st2 r] R'] eqn:Er.
        destruct r as [|cr|]; try discriminate. inversion H; subst st2 cr.
        destruct (C_regen_ok N S avoid _ tape HL fuel cfg pm (v0 :: vs) st1 [] [] st cands R' (C_ext_self st) Hinv1)
          with (3 := Er) as [_ [G2 [G3 G4]]].
        { simpl. exact Hnd. }
        { intros F. discriminate. }
        exists R'. split; [apply C_total_of_keys; assumption|]. split; [exact G3|].
        intros F. exfalso. apply G4; [discriminate|exact F].
  - (* single solver call *)
    destruct (solve {| p_tape := tape; p_log := [] |} Rinit (Some (c_limit cfg))) as [st1 [c|]] eqn:Es0;
      [|discriminate].
    destruct (Nat.eqb (length c) (c_limit cfg)) eqn:Eraise; [discriminate|]. inversion H; subst st1 c.
    destruct (C_solve_ok N S avoid _ tape _ _ _ _ _ HL Hinv0 Es0 (C_ext_self st)) as [Hok0 _].
    apply Nat.eqb_neq in Eraise. pose proof (C_solve_length_le _ _ _ _ _ _ Hok0) as Hle.
    exists Rinit. split; [exact HRi|]. split; [eapply C_solve_complete_for; [eassumption|lia]|].
    intros F. lia.
Qed.

Lemma C_pre_final : forall fuel N S avoid nfvs Rinit cfg greedy tape res log,
  pre_candidates fuel N S avoid nfvs Rinit cfg greedy tape = PFinal (COk res, log) ->
  (is_full S = true /\ res = [full_state S]) \/ (is_full S = false /\ nfvs = [] /\ avoid <> [] /\ res = []).
Proof.
  intros fuel N S avoid nfvs Rinit cfg greedy tape res log H. unfold pre_candidates in H.
  destruct (is_full S); [left; inversion H; split; reflexivity|].
  destruct ((match nfvs with [] => true | _ => false end) && negb (match avoid with [] => true | _ => false end)) eqn:Ee.
  { right. inversion H. apply andb_true_iff in Ee. destruct Ee as [E1 E2].
    destruct nfvs; [|discriminate]. destruct avoid; [discriminate|]. repeat split; [discriminate]. }
  exfalso. cbv zeta in H. destruct (negb greedy).
  - destruct (solve {| p_tape := tape; p_log := [] |} Rinit (Some (c_limit cfg))) as [st1 [c|]]; [|discriminate].
    destruct (Nat.eqb (length c) (c_limit cfg)); discriminate.
  - destruct (solve {| p_tape := tape; p_log := [] |} Rinit (Some (c_threshold cfg))) as [st1 [c|]]; [|discriminate].
    destruct (Nat.ltb (length c) (c_threshold cfg)).
    + destruct (Nat.ltb 1 (length c) || (negb (match avoid with [] => true | _ => false end) && Nat.ltb 0 (length c)));
        [|discriminate].
      destruct (greedy_loop fuel st1 (match avoid with [] => true | _ => false end) Rinit c) as [st2 [[Rg cg]|]];
        discriminate.
    + destruct nfvs as [|v0 vs].
      * destruct (solve st1 [] (Some (c_limit cfg))) as [st2 [c2|]]; [|discriminate].
        destruct (Nat.eqb (length c2) (c_limit cfg)); discriminate.
      * destruct (regen fuel st1 cfg (match avoid with [] => true | _ => false end) (v0 :: vs) [] []) as [[st2 r] R'].
        destruct r; discriminate.
Qed.

(* ------------------------------------------------------------------------------------------ *)
(* 9. The early-exit branches                                                                  *)
(* ------------------------------------------------------------------------------------------ *)
Lemma C_full_state_in : forall S : space, is_full S = true -> in_space (full_state S) S = true.
Proof.
  induction S as [|o S IH]; intros H; [reflexivity|]. simpl in H. apply andb_true_iff in H. destruct H as [Ho H].
  destruct o as [b|]; [|discriminate]. simpl. rewrite eqb_reflx. simpl. apply IH. exact H.
Qed.

Lemma C_full_state_unique : forall (S : space) s, is_full S = true -> in_space s S = true -> s = full_state S.
Proof.
  induction S as [|o S IH]; intros s H Hs.
  - destruct s; [reflexivity|discriminate].
  - destruct s as [|b s]; [discriminate|]. simpl in H, Hs. apply andb_true_iff in H. destruct H as [Ho H].
    apply andb_true_iff in Hs. destruct Hs as [Hb Hs]. destruct o as [v|]; [|discriminate].
    apply eqb_prop in Hb. subst v. simpl. f_equal. apply IH; assumption.
Qed.

Lemma C_full_covers : forall N S avoid, is_full S = true -> covers N S avoid [full_state S].
Proof.
  intros N S avoid Hf A [[[s As] _] [HinS _]]. exists (full_state S). split; [left; reflexivity|].
  rewrite <- (C_full_state_unique S s Hf (HinS s As)). exact As.
Qed.

(* the extra hypothesis of the empty-NFVS early exit: every fixed point of the network inside
   the node space lies in an avoided space *)
Definition fixed_points_avoided (N : net) (S : space) (avoid : list space) : Prop :=
  forall s, in_space s S = true -> (forall i, i < nvars N -> upd N i s = nth i s false) ->
            exists a, In a avoid /\ in_space s a = true.

Lemma C_red_fixed_top : forall N s (st : state) k i, length st = k ->
  red_fixed_at N s i st (repeat None k) = true ->
  forall j, j < k -> upd N (i + j) s = nth j st false.
Proof.
  intros N s st. induction st as [|b st IH]; intros k i Hlen H j Hj.
  - simpl in Hlen. lia.
  - destruct k as [|k]; [discriminate|]. simpl in H. apply andb_true_iff in H. destruct H as [H1 H2].
    rewrite orb_false_r in H1. apply eqb_prop in H1. destruct j as [|j].
    + rewrite Nat.add_0_r. simpl. exact H1.
    + simpl. replace (i + Datatypes.S j) with (Datatypes.S i + j) by lia.
      apply (IH k (Datatypes.S i)); [simpl in Hlen; lia|exact H2|lia].
Qed.

Lemma C_no_free_fixed_point : forall N S avoid, length S = nvars N -> fixed_points_avoided N S avoid ->
  forall s, ~ In s (reduced_fixed_b N (top_space (nvars N)) S avoid).
Proof.
  intros N S avoid HS Hfp s Hs. unfold reduced_fixed_b in Hs. apply filter_In in Hs. destruct Hs as [Hs1 Hs2].
  apply states_of_spec in Hs1. apply andb_true_iff in Hs2. destruct Hs2 as [Hf Hna].
  assert (Hlen : length s = nvars N) by (rewrite <- HS; apply in_space_length; exact Hs1).
  destruct (Hfp s Hs1) as [a [Ha Hsa]].
  - intros i Hi. exact (C_red_fixed_top N s s (nvars N) 0 Hlen Hf i Hi).
  - apply negb_true_iff in Hna. apply F_existsb_false in Hna. apply Hna. exists a. split; assumption.
Qed.

Lemma C_empty_nfvs_covers : forall N S avoid, length S = nvars N -> reduction_hyp N S avoid [] ->
  fixed_points_avoided N S avoid -> covers N S avoid [].
Proof.
  intros N S avoid HS Hred Hfp. apply (C_covers_ext N S avoid [] _) with (2 := Hred [] C_total_nil).
  intros s. simpl. split; [intros []|]. apply (C_no_free_fixed_point N S avoid HS Hfp).
Qed.

(* ------------------------------------------------------------------------------------------ *)
(* 10. Main theorems                                                                           *)
(* ------------------------------------------------------------------------------------------ *)
(* Walk contract of the whole pipeline: the simulation tape is admissible for the candidate list
   the pipeline hands to the simulation step (= the result with simulation switched off). *)
Definition walks_ok (fuel : nat) (N : net) (S : space) (avoid : list space) (nfvs : list nat) (Rinit : retained)
           (cfg : ccfg) (greedy : bool) (tape : list (list state)) (stp : simtape) : Prop :=
  forall cands log,
    compute_candidates fuel N S avoid nfvs Rinit cfg greedy false tape stp = (COk cands, log) ->
    sim_rounds_ok N fuel avoid (nfree S) cfg 1024 cands stp.

(* what a returned list is, before simulation: never a truncated list *)
Theorem compute_candidates_complete : forall fuel N S avoid nfvs Rinit cfg greedy simulation tape stp res log,
  NoDup nfvs -> retained_total nfvs Rinit ->
  compute_candidates fuel N S avoid nfvs Rinit cfg greedy simulation tape stp = (COk res, log) ->
  tape_ok N S avoid log tape ->
  (is_full S = true /\ res = [full_state S]) \/
  (is_full S = false /\ nfvs = [] /\ avoid <> [] /\ res = []) \/
  (exists R cands,
     retained_total nfvs R /\ complete_for N S avoid R cands /\
     compute_candidates fuel N S avoid nfvs Rinit cfg greedy false tape stp = (COk cands, log) /\
     (c_limit cfg = 0 -> greedy = true /\ length cands < c_threshold cfg) /\
     (res = cands \/ (simulation = true /\ res = sim_rounds fuel avoid (nfree S) cfg 1024 cands stp))).
Proof.
  intros fuel N S avoid nfvs Rinit cfg greedy simulation tape stp res log Hnd HRi H HL.
  rewrite C_cc_pre in H.
  destruct (pre_candidates fuel N S avoid nfvs Rinit cfg greedy tape) as [r|st cands] eqn:Ep.
  - subst r. apply C_pre_final in Ep. destruct Ep as [Ep|Ep]; [left; exact Ep|right; left; exact Ep].
  - right. right. apply C_finish_cases in H. destruct H as [Hlog Hres]. subst log.
    destruct (C_pre_finish _ _ _ _ _ _ _ _ _ _ _ Hnd HRi Ep HL) as [R [HR [Hc H0]]].
    exists R, cands. split; [exact HR|]. split; [exact Hc|].
    split; [rewrite C_cc_pre, Ep; apply C_finish_false|]. split; [exact H0|exact Hres].
Qed.

(* The main theorem.  Deviation from the intended statement (hence `_weak`): the early exit
   "empty NFVS and non-empty avoid list => no candidates" needs the extra hypothesis
   [fixed_points_avoided]; without it the statement is false, see
   compute_candidates_covers_counterexample below. *)
Theorem compute_candidates_covers_weak : forall fuel N S avoid nfvs Rinit cfg greedy simulation tape stp res log,
  trap_space N S -> (forall a, In a avoid -> trap_space N a) -> NoDup nfvs -> (forall v, In v nfvs -> v < nvars N) ->
  retained_total nfvs Rinit -> reduction_hyp N S avoid nfvs ->
  (is_full S = false -> nfvs = [] -> avoid <> [] -> fixed_points_avoided N S avoid) ->
  compute_candidates fuel N S avoid nfvs Rinit cfg greedy simulation tape stp = (COk res, log) ->
  tape_ok N S avoid log tape -> walks_ok fuel N S avoid nfvs Rinit cfg greedy tape stp ->
  (forall c, In c res -> in_space c S = true) /\ covers N S avoid res.
Proof.
  intros fuel N S avoid nfvs Rinit cfg greedy simulation tape stp res log HS Hav Hnd Hlt HRi Hred Hfp H HL Hw.
  destruct (compute_candidates_complete _ _ _ _ _ _ _ _ _ _ _ _ _ Hnd HRi H HL)
    as [[Hf E]|[[Hf [En [Ea E]]]|[R [cands [HR [Hc [Hpre [_ Hres]]]]]]]].
  - subst res. split; [|apply C_full_covers; exact Hf].
    intros c [Hc|[]]. subst c. apply C_full_state_in. exact Hf.
  - subst res nfvs. split; [intros c []|].
    apply C_empty_nfvs_covers; [apply trap_space_length; exact HS|exact Hred|]. apply Hfp; [exact Hf|reflexivity|exact Ea].
  - assert (HinS : forall c, In c cands -> in_space c S = true)
      by (intros c Hin; eapply C_complete_in_space; eassumption).
    assert (Hcov : covers N S avoid cands) by (eapply C_complete_covers; eassumption).
    destruct Hres as [E|[_ E]]; subst res; [split; assumption|].
    apply (sim_rounds_covers N S avoid HS Hav); try assumption. exact (Hw cands log Hpre).
Qed.

(* the intended statement holds verbatim whenever the early exit is not taken *)
Corollary compute_candidates_covers_nonempty : forall fuel N S avoid nfvs Rinit cfg greedy simulation tape stp res log,
  trap_space N S -> (forall a, In a avoid -> trap_space N a) -> NoDup nfvs -> (forall v, In v nfvs -> v < nvars N) ->
  retained_total nfvs Rinit -> reduction_hyp N S avoid nfvs ->
  (is_full S = true \/ nfvs <> [] \/ avoid = []) ->
  compute_candidates fuel N S avoid nfvs Rinit cfg greedy simulation tape stp = (COk res, log) ->
  tape_ok N S avoid log tape -> walks_ok fuel N S avoid nfvs Rinit cfg greedy tape stp ->
  (forall c, In c res -> in_space c S = true) /\ covers N S avoid res.
Proof.
  intros fuel N S avoid nfvs Rinit cfg greedy simulation tape stp res log HS Hav Hnd Hlt HRi Hred Hcase.
  apply compute_candidates_covers_weak; try assumption.
  intros Hf En Ea. exfalso. destruct Hcase as [F|[F|F]]; [congruence|exact (F En)|exact (Ea F)].
Qed.

(* with c_limit = 0 a returned list is never a truncated one: apart from the two early exits the
   pipeline returns only on the greedy path whose first solver call stayed strictly below
   c_threshold, and the list is the complete set of reduced fixed points of a total assignment
   (every other path raises or runs out of tape) *)
Theorem compute_candidates_limit0 : forall fuel N S avoid nfvs Rinit cfg greedy simulation tape stp res log,
  NoDup nfvs -> retained_total nfvs Rinit -> c_limit cfg = 0 ->
  compute_candidates fuel N S avoid nfvs Rinit cfg greedy simulation tape stp = (COk res, log) ->
  tape_ok N S avoid log tape ->
  (is_full S = true /\ res = [full_state S]) \/
  (is_full S = false /\ nfvs = [] /\ avoid <> [] /\ res = []) \/
  (greedy = true /\
   exists R cands, retained_total nfvs R /\ complete_for N S avoid R cands /\ length cands < c_threshold cfg /\
                   (res = cands \/ (simulation = true /\ res = sim_rounds fuel avoid (nfree S) cfg 1024 cands stp))).
Proof.
  intros fuel N S avoid nfvs Rinit cfg greedy simulation tape stp res log Hnd HRi H0 H HL.
  destruct (compute_candidates_complete _ _ _ _ _ _ _ _ _ _ _ _ _ Hnd HRi H HL)
    as [E|[E|[R [cands [HR [Hc [_ [Hl Hres]]]]]]]]; [left; exact E|right; left; exact E|].
  right. right. destruct (Hl H0) as [Hg Hlen]. split; [exact Hg|]. exists R, cands. tauto.
Qed.

(* the intended statement (without fixed_points_avoided) is false: one variable with the identity
   update function, node space = everything, the avoided space x0 = 1, empty NFVS.  The reduction
   hypothesis holds (the reduced fixed point [false] hits the only attractor of the node, {[false]}),
   but the pipeline returns the empty list. *)
Theorem compute_candidates_covers_counterexample :
  exists fuel N S avoid nfvs Rinit cfg greedy simulation tape stp res log,
    trap_space N S /\ (forall a, In a avoid -> trap_space N a) /\ NoDup nfvs /\ (forall v, In v nfvs -> v < nvars N) /\
    retained_total nfvs Rinit /\ reduction_hyp N S avoid nfvs /\
    compute_candidates fuel N S avoid nfvs Rinit cfg greedy simulation tape stp = (COk res, log) /\
    tape_ok N S avoid log tape /\ walks_ok fuel N S avoid nfvs Rinit cfg greedy tape stp /\
    ~ covers N S avoid res.
Proof.
  exists 0, [fun s : state => nth 0 s false], [None], [[Some true]], [], [],
         {| c_threshold := 0; c_limit := 0; c_budget := 0 |}, false, false, [],
         {| s_walks := []; s_moves := [] |}, [], [].
  split; [apply is_trap_b_spec; reflexivity|].
  split; [intros a [Ha|[]]; subst a; apply is_trap_b_spec; reflexivity|].
  split; [constructor|]. split; [intros v []|]. split; [exact C_total_nil|].
  split; [apply nfvs_reduction_ok_b_spec; [reflexivity|constructor|intros v []|vm_compute; reflexivity]|].
  split; [reflexivity|].
  split; [intros i k res Hk _; destruct i; discriminate|].
  split; [intros cands log _; exact I|].
  intros Hcov. rewrite covers_iff in Hcov.
  assert (Hin : In [[false]] (node_attractors_b [fun s : state => nth 0 s false] [None] [[Some true]]))
    by (vm_compute; left; reflexivity).
  specialize (Hcov _ Hin). discriminate.
Qed.

Print Assumptions compute_candidates_covers_weak.
Print Assumptions compute_candidates_complete.
Print Assumptions compute_candidates_limit0.
Print Assumptions compute_candidates_covers_counterexample.
Print Assumptions nfvs_reduction_ok_b_spec.
Print Assumptions greedy_loop_complete.
Print Assumptions sim_rounds_covers.
