(* PyLibPickle.v -- hand-written prelude for the translation of SuccessionDiagram.__getstate__ / __setstate__ (tools/py2coq_core.py).
   Definitions only; trusted.
     a SuccessionDiagram object      the record pobj of its seven attributes, over an abstract type V of attribute values
     self.a = v                      set_a self v
     the state dict                  an association list from key strings to values; state["k"] is st_get (KeyError: None)
     self.network.to_aeon(), BooleanNetwork.from_aeon(..), cleanup_network(..), AsynchronousGraph(..)
                                     parameters of the generated section (PySrcPickleFacts.v states what is assumed of them) *)
From Coq Require Import List String.
Import ListNotations.
Open Scope string_scope.

Record pobj (V : Type) : Type := {
  o_network : V; o_symbolic : V; o_petri_net : V; o_nfvs : V; o_dag : V; o_node_indices : V; o_config : V }.
Arguments o_network {V} p. Arguments o_symbolic {V} p. Arguments o_petri_net {V} p. Arguments o_nfvs {V} p.
Arguments o_dag {V} p. Arguments o_node_indices {V} p. Arguments o_config {V} p.

Section Setters.
Context {V : Type}.
Definition set_network (o : pobj V) (v : V) : pobj V :=
  {| o_network := v; o_symbolic := o_symbolic o; o_petri_net := o_petri_net o; o_nfvs := o_nfvs o; o_dag := o_dag o; o_node_indices := o_node_indices o; o_config := o_config o |}.
Definition set_symbolic (o : pobj V) (v : V) : pobj V :=
  {| o_network := o_network o; o_symbolic := v; o_petri_net := o_petri_net o; o_nfvs := o_nfvs o; o_dag := o_dag o; o_node_indices := o_node_indices o; o_config := o_config o |}.
Definition set_petri_net (o : pobj V) (v : V) : pobj V :=
  {| o_network := o_network o; o_symbolic := o_symbolic o; o_petri_net := v; o_nfvs := o_nfvs o; o_dag := o_dag o; o_node_indices := o_node_indices o; o_config := o_config o |}.
Definition set_nfvs (o : pobj V) (v : V) : pobj V :=
  {| o_network := o_network o; o_symbolic := o_symbolic o; o_petri_net := o_petri_net o; o_nfvs := v; o_dag := o_dag o; o_node_indices := o_node_indices o; o_config := o_config o |}.
Definition set_dag (o : pobj V) (v : V) : pobj V :=
  {| o_network := o_network o; o_symbolic := o_symbolic o; o_petri_net := o_petri_net o; o_nfvs := o_nfvs o; o_dag := v; o_node_indices := o_node_indices o; o_config := o_config o |}.
Definition set_node_indices (o : pobj V) (v : V) : pobj V :=
  {| o_network := o_network o; o_symbolic := o_symbolic o; o_petri_net := o_petri_net o; o_nfvs := o_nfvs o; o_dag := o_dag o; o_node_indices := v; o_config := o_config o |}.
Definition set_config (o : pobj V) (v : V) : pobj V :=
  {| o_network := o_network o; o_symbolic := o_symbolic o; o_petri_net := o_petri_net o; o_nfvs := o_nfvs o; o_dag := o_dag o; o_node_indices := o_node_indices o; o_config := v |}.

Fixpoint st_get (l : list (string * V)) (k : string) : option V :=
  match l with
  | [] => None
  | (k', v) :: r => if String.eqb k' k then Some v else st_get r k
  end.
End Setters.
