(* BN.v -- Boolean networks, states, spaces: definitions only (no proofs).
   Stdlib only.  Everything here is both the mathematical vocabulary of the
   theorems and (for the boolean functions) part of the extracted oracle. *)
From Coq Require Import List Bool Arith NArith Relations.
Import ListNotations.

Definition state := list bool.
Definition space := list (option bool).      (* None = free, Some v = fixed *)
Definition fn := state -> bool.
Definition net := list fn.                   (* update function of variable i at position i *)

Definition nvars (N : net) : nat := length N.
Definition upd (N : net) (i : nat) (s : state) : bool := nth i N (fun _ => false) s.

Fixpoint set_nth {A} (i : nat) (v : A) (l : list A) : list A :=
  match l, i with
  | [], _ => []
  | _ :: t, O => v :: t
  | h :: t, S j => h :: set_nth j v t
  end.

Definition wf_state (N : net) (s : state) : Prop := length s = nvars N.
Definition wf_space (N : net) (S : space) : Prop := length S = nvars N.

(* ---------------- asynchronous dynamics ---------------- *)
Definition step_i (N : net) (i : nat) (s : state) : state := set_nth i (upd N i s) s.

Definition trans (N : net) (s t : state) : Prop :=
  exists i, i < nvars N /\ t = step_i N i s /\ t <> s.

Definition reach (N : net) : state -> state -> Prop := clos_refl_trans state (trans N).

Definition closed (N : net) (P : state -> Prop) : Prop :=
  forall s t, P s -> trans N s t -> P t.

(* an attractor: non-empty, closed, mutually reachable set of well-formed states *)
Definition attractor (N : net) (A : state -> Prop) : Prop :=
  (exists s, A s) /\ (forall s, A s -> wf_state N s) /\ closed N A /\
  (forall s t, A s -> A t -> reach N s t).

Definition in_attractor (N : net) (s : state) : Prop :=
  wf_state N s /\ forall t, reach N s t -> reach N t s.

(* ---------------- spaces ---------------- *)
Fixpoint in_space (s : state) (S : space) : bool :=
  match s, S with
  | [], [] => true
  | b :: s', o :: S' =>
      (match o with None => true | Some v => Bool.eqb b v end) && in_space s' S'
  | _, _ => false
  end.

(* x is a subspace of y: every value fixed in y is fixed to the same value in x *)
Fixpoint subspace (x y : space) : bool :=
  match x, y with
  | [], [] => true
  | a :: x', b :: y' =>
      (match b with
       | None => true
       | Some v => match a with Some w => Bool.eqb v w | None => false end
       end) && subspace x' y'
  | _, _ => false
  end.

Definition eqb_ob (a b : option bool) : bool :=
  match a, b with
  | None, None => true
  | Some x, Some y => Bool.eqb x y
  | _, _ => false
  end.

Fixpoint eqb_space (x y : space) : bool :=
  match x, y with
  | [], [] => true
  | a :: x', b :: y' => eqb_ob a b && eqb_space x' y'
  | _, _ => false
  end.

Fixpoint eqb_state (x y : state) : bool :=
  match x, y with
  | [], [] => true
  | a :: x', b :: y' => Bool.eqb a b && eqb_state x' y'
  | _, _ => false
  end.

(* Python: intersect(x, y) -> None when they disagree on a fixed variable *)
Fixpoint intersect (x y : space) : option space :=
  match x, y with
  | [], [] => Some []
  | a :: x', b :: y' =>
      match intersect x' y' with
      | None => None
      | Some r =>
          match a, b with
          | None, _ => Some (b :: r)
          | _, None => Some (a :: r)
          | Some v, Some w => if Bool.eqb v w then Some (a :: r) else None
          end
      end
  | _, _ => None
  end.

(* Python: x | y  (dict union, y wins) *)
Fixpoint merge (x y : space) : space :=
  match x, y with
  | a :: x', b :: y' => (match b with Some _ => b | None => a end) :: merge x' y'
  | _, _ => x
  end.

Definition top_space (n : nat) : space := repeat None n.
Definition space_of_state (s : state) : space := map Some s.
Definition nfixed (S : space) : nat := length (filter (fun o => match o with Some _ => true | None => false end) S).
Definition is_full (S : space) : bool := forallb (fun o => match o with Some _ => true | None => false end) S.

(* Python: space_unique_key: (v + 2) << (2 * index), or-ed together *)
Fixpoint space_key_from (i : N) (S : space) : N :=
  match S with
  | [] => 0%N
  | o :: S' =>
      N.lor (match o with
             | None => 0%N
             | Some false => N.shiftl 2 (2 * i)
             | Some true => N.shiftl 3 (2 * i)
             end) (space_key_from (N.succ i) S')
  end.
Definition space_key (S : space) : N := space_key_from 0 S.

(* ---------------- trap spaces, percolation (Prop level) ---------------- *)
Definition sp_states (N : net) (S : space) : state -> Prop :=
  fun s => wf_state N s /\ in_space s S = true.

Definition trap_space (N : net) (S : space) : Prop :=
  wf_space N S /\ closed N (sp_states N S).

(* the update function of i is constantly v on the space S *)
Definition const_on (N : net) (i : nat) (S : space) (v : bool) : Prop :=
  forall s, wf_state N s -> in_space s S = true -> upd N i s = v.

(* one percolation step: fix a free variable whose function is constant *)
Inductive perc_step (N : net) : space -> space -> Prop :=
| perc_fix : forall S i v, i < nvars N -> nth i S None = None -> const_on N i S v ->
                           perc_step N S (set_nth i (Some v) S).

Definition perc_closed (N : net) (S : space) : Prop :=
  forall i v, i < nvars N -> nth i S None = None -> ~ const_on N i S v.

Definition is_percolation (N : net) (S P : space) : Prop :=
  clos_refl_trans space (perc_step N) S P /\ perc_closed N P.

Definition strict_subspace (x y : space) : Prop := subspace x y = true /\ x <> y.

Definition max_trap_in (N : net) (S M : space) : Prop :=
  trap_space N M /\ strict_subspace M S /\
  forall M', trap_space N M' -> strict_subspace M' S -> subspace M M' = true -> M' = M.

Definition min_trap (N : net) (M : space) : Prop :=
  trap_space N M /\ forall M', trap_space N M' -> subspace M' M = true -> M' = M.
