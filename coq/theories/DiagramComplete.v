(* DiagramComplete.v -- completeness of full expansion (BFS / DFS) and the
   characterisation of the fully expanded succession diagram as the hierarchy of
   percolated trap spaces whose leaves are exactly the minimal trap spaces. *)
From Coq Require Import List Bool Arith NArith Lia Permutation.
Import ListNotations.
From BB Require Import BN Brute SpaceFacts TrapFacts PercolateFacts Diagram Invariants DiagramStruct DiagramSem1.

Local Arguments percolate_b : simpl never.
Local Arguments expand_one : simpl never.
Local Arguments node_successors : simpl never.
Local Arguments ensure_node : simpl never.
Local Arguments ensure_edge : simpl never.
Local Arguments raise_depth : simpl never.
Local Arguments max_traps_b : simpl never.
Local Arguments min_traps_b : simpl never.
Local Arguments make_skip_node : simpl never.
Local Arguments upd_node : simpl never.

(* ====================================================================== *)
(* PART A -- lattice facts about trap spaces and percolation              *)
(* ====================================================================== *)

(* percolate_mono as originally stated (no trap-space hypothesis on S) is false:
   percolation never revises a value that is already fixed, so a non-trap S may
   keep a value that the percolation of a larger T contradicts. *)
Lemma percolate_mono_counterexample :
  let N : net := [fun _ => true] in
  let S : space := [Some false] in
  let T : space := [None] in
  length S = nvars N /\ length T = nvars N /\ subspace S T = true /\
  subspace (percolate_b N S) (percolate_b N T) = false.
Proof. vm_compute. repeat split. Qed.

Lemma percolate_mono_weak : forall N S T, trap_space N S ->
  length S = nvars N -> length T = nvars N -> subspace S T = true ->
  subspace (percolate_b N S) (percolate_b N T) = true.
Proof.
  intros N S T Htrap HlS HlT Hsub.
  destruct (percolate_b_trap N S Htrap) as [HtQ HsQ].
  assert (HlQ : length (percolate_b N S) = nvars N)
    by (rewrite percolate_b_length; exact HlS).
  apply percolate_b_least.
  - exact HlT.
  - eapply subspace_trans; [exact HsQ|exact Hsub].
  - intros i v Hi Hfree Hc.
    destruct (nth i (percolate_b N S) None) as [w|] eqn:Ew.
    + f_equal.
      pose proof (proj1 (trap_space_char N _ HlQ) HtQ i w Ew) as Hcw.
      exact (const_on_unique N i _ w v HlQ Hcw Hc).
    + exfalso. exact (percolate_b_closed N S HlS i v Hi Ew Hc).
Qed.

Lemma min_trap_closed : forall N M, min_trap N M -> percolate_b N M = M.
Proof. intros N M HM. apply min_trap_percolate. exact HM. Qed.

Lemma min_trap_fixes_sources : forall N M i, min_trap N M -> i < nvars N ->
  is_source_b N i = true -> nth i M None <> None.
Proof.
  intros N M i [Htrap Hmin] Hi Hsrc Hfree.
  pose proof (trap_space_length N M Htrap) as HlM.
  assert (Hsub : subspace (set_nth i (Some false) M) M = true)
    by (apply P_set_nth_subspace; exact Hfree).
  assert (HlM' : length (set_nth i (Some false) M) = nvars N)
    by (rewrite set_nth_length; exact HlM).
  assert (Hnth : nth i (set_nth i (Some false) M) None = Some false)
    by (apply nth_set_nth_eq; lia).
  assert (Htrap' : trap_space N (set_nth i (Some false) M)).
  { apply trap_space_char; [exact HlM'|]. intros j v Hj.
    destruct (Nat.eq_dec i j) as [Heq|Hne].
    - subst j. rewrite Hnth in Hj. injection Hj as Hv. subst v.
      intros s Hwf Hin.
      rewrite (proj1 (is_source_b_spec N i) Hsrc s Hwf).
      assert (Hls : length s = length (set_nth i (Some false) M))
        by (rewrite HlM'; exact Hwf).
      exact (proj1 (in_space_nth s _ Hls) Hin i false Hnth).
    - rewrite nth_set_nth_neq in Hj by exact Hne.
      eapply const_on_mono; [exact Hsub|].
      exact (proj1 (trap_space_char N M HlM) Htrap j v Hj). }
  pose proof (Hmin _ Htrap' Hsub) as Heq.
  rewrite Heq in Hnth. rewrite Hfree in Hnth. discriminate Hnth.
Qed.

Lemma min_trap_in_root : forall N M, min_trap N M ->
  subspace M (percolate_b N (top_space (nvars N))) = true.
Proof.
  intros N M HM.
  pose proof (min_trap_trap N M HM) as Htrap.
  pose proof (min_trap_length N M HM) as HlM.
  assert (Htop : subspace M (top_space (nvars N)) = true).
  { pose proof (subspace_top M) as Ht. rewrite HlM in Ht. exact Ht. }
  assert (Hlt : length (top_space (nvars N)) = nvars N)
    by (unfold top_space; apply repeat_length).
  pose proof (percolate_mono_weak N M _ Htrap HlM Hlt Htop) as Hmono.
  rewrite (min_trap_percolate N M HM) in Hmono. exact Hmono.
Qed.

(* source-aware variant of max_trap_above *)
Lemma max_trap_srcs_step : forall N S srcs T,
  trap_space N T -> strict_subspace T S -> fixes_all T srcs = true ->
  In T (max_traps_b N S srcs) \/
  exists T', trap_space N T' /\ strict_subspace T' S /\ fixes_all T' srcs = true /\
             subspace T T' = true /\ nfixed T' < nfixed T.
Proof.
  intros N S srcs T Htrap Hstrict Hfix.
  destruct (mem_space T (max_traps_b N S srcs)) eqn:Emem.
  - left. apply mem_space_spec. exact Emem.
  - right.
    assert (Hnot : ~ In T (max_traps_b N S srcs)).
    { intro Hin. apply mem_space_spec in Hin. rewrite Hin in Emem. discriminate Emem. }
    rewrite max_traps_b_unfold in Hnot.
    assert (Hcand : In T (max_cands N S srcs)).
    { apply max_cands_spec. split; [exact Htrap|]. split; [exact Hstrict|exact Hfix]. }
    destruct (filter_extremal_not subspace _ T Hcand Hnot) as (T' & Hin' & Hsub' & Hne').
    assert (Hss : strict_subspace T T')
      by (split; [exact Hsub'|intro Heq; apply Hne'; symmetry; exact Heq]).
    apply strict_subspace_nfixed in Hss.
    apply max_cands_spec in Hin'. destruct Hin' as (Ht' & Hs' & Hf').
    exists T'. split; [exact Ht'|]. split; [exact Hs'|]. split; [exact Hf'|].
    split; [exact Hsub'|exact Hss].
Qed.

Lemma max_trap_above_srcs_aux : forall N S srcs k T,
  trap_space N T -> strict_subspace T S -> fixes_all T srcs = true -> nfixed T <= k ->
  exists M, In M (max_traps_b N S srcs) /\ subspace T M = true.
Proof.
  intros N S srcs k. induction k as [|k IH]; intros T Htrap Hstrict Hfix Hk;
    destruct (max_trap_srcs_step N S srcs T Htrap Hstrict Hfix)
      as [Hin|(T' & Ht' & Hs' & Hf' & Hsub' & Hlt)];
    try (exists T; split; [exact Hin|apply subspace_refl]).
  - lia.
  - destruct (IH T' Ht' Hs' Hf') as (M & HinM & HsubM); [lia|].
    exists M. split; [exact HinM|]. eapply subspace_trans; [exact Hsub'|exact HsubM].
Qed.

Lemma max_trap_above_srcs : forall N S srcs T,
  trap_space N T -> strict_subspace T S -> fixes_all T srcs = true ->
  exists M, In M (max_traps_b N S srcs) /\ subspace T M = true.
Proof.
  intros N S srcs T Htrap Hstrict Hfix.
  exact (max_trap_above_srcs_aux N S srcs (nfixed T) T Htrap Hstrict Hfix (le_n _)).
Qed.

Lemma closed_trap_below_child : forall N S T srcs, trap_space N S -> length S = nvars N ->
  trap_space N T -> percolate_b N T = T -> strict_subspace T S -> fixes_all T srcs = true ->
  exists M, In M (max_traps_b N S srcs) /\ subspace T (percolate_b N M) = true.
Proof.
  intros N S T srcs HtS HlS HtT Hclosed Hstrict Hfix.
  destruct (max_trap_above_srcs N S srcs T HtT Hstrict Hfix) as (M & HinM & HsubM).
  exists M. split; [exact HinM|].
  pose proof (trap_space_length N T HtT) as HlT.
  assert (HlM : length M = nvars N)
    by (rewrite (max_traps_b_length N S srcs M HinM); exact HlS).
  pose proof (percolate_mono_weak N T M HtT HlT HlM HsubM) as Hmono.
  rewrite Hclosed in Hmono. exact Hmono.
Qed.

(* ====================================================================== *)
(* PART B -- completeness of full expansion                               *)
(* ====================================================================== *)

(* ---------- facts about one expansion step ---------- *)
Lemma sort_nat_In_rev : forall x l, In x l -> In x (sort_nat l).
Proof.
  intros x l. induction l as [|y r IH]; intro Hin; simpl; [exact Hin|].
  assert (Hins : forall a b m, In a (b :: m) -> In a (insert_nat b m)).
  { intros a b m. induction m as [|c m IHm]; intro H; simpl; [exact H|].
    destruct (Nat.leb b c); [exact H|].
    destruct H as [H|[H|H]].
    - right. apply IHm. left. exact H.
    - left. exact H.
    - right. apply IHm. right. exact H. }
  apply Hins. destruct Hin as [Heq|Hin]; [left; exact Heq|right; apply IH; exact Hin].
Qed.

Lemma successors_out : forall d j, successors d j = map e_dst (out_edges d j).
Proof. reflexivity. Qed.

Lemma In_successors : forall d j s,
  In s (successors d j) <-> exists e, In e (sd_edges d) /\ e_src e = j /\ e_dst e = s.
Proof.
  intros d j s. rewrite successors_out. unfold out_edges. rewrite in_map_iff. split.
  - intros (e & Hd & Hin). apply filter_In in Hin. destruct Hin as [Hin Hs].
    apply Nat.eqb_eq in Hs. exists e. repeat split; assumption.
  - intros (e & Hin & Hs & Hd). exists e. split; [exact Hd|].
    apply filter_In. split; [exact Hin|]. apply Nat.eqb_eq. exact Hs.
Qed.

Lemma ensure_all_Rooted : forall N subs d p, Rooted d -> Rooted (ensure_all N d p subs).
Proof.
  intros N subs. induction subs as [|m r IH]; intros d p HR; simpl; [exact HR|].
  apply IH. apply prim_Rooted_child. exact HR.
Qed.

Lemma expand_one_Rooted : forall N cfg d i, Rooted d -> Rooted (fst (expand_one N cfg d i)).
Proof.
  intros N cfg d i HR. destruct (expand_one N cfg d i) as [d' r] eqn:E.
  apply expand_one_cases in E. simpl.
  destruct E as [(_ & Hd & _)|[(_ & _ & Hd & _)|[(_ & _ & _ & Hd & _)|(_ & _ & _ & Hd & _)]]];
    subst d'.
  - exact HR.
  - apply prim_Rooted_upd. apply prim_Rooted_upd. exact HR.
  - apply prim_Rooted_upd. exact HR.
  - apply prim_Rooted_upd. apply ensure_all_Rooted. apply prim_Rooted_upd. exact HR.
Qed.

Lemma expand_one_out_other : forall N cfg d i j, j <> i ->
  out_edges (fst (expand_one N cfg d i)) j = out_edges d j.
Proof.
  intros N cfg d i j Hne. destruct (expand_one N cfg d i) as [d' r] eqn:E.
  apply expand_one_cases in E. simpl.
  destruct E as [(_ & Hd & _)|[(_ & _ & Hd & _)|[(_ & _ & _ & Hd & _)|(_ & _ & _ & Hd & _)]]];
    subst d'.
  - reflexivity.
  - apply out_edges_same_edges. rewrite !sd_edges_upd_node. reflexivity.
  - apply out_edges_same_edges. rewrite sd_edges_upd_node. reflexivity.
  - rewrite (out_edges_same_edges _ _ j (sd_edges_upd_node _ i _)).
    rewrite ensure_all_out_other by exact Hne.
    apply out_edges_same_edges. rewrite sd_edges_upd_node. reflexivity.
Qed.

Lemma expand_one_exp : forall N cfg d i d', expand_one N cfg d i = (d', RUnit) ->
  i < size d -> n_exp (get d' i) = true.
Proof.
  intros N cfg d i d' E Hi. apply expand_one_cases in E.
  destruct E as [(Hexp & Hd & _)|[(_ & _ & Hd & _)|[(_ & _ & _ & _ & Hr)|(_ & _ & _ & Hd & _)]]].
  - subst d'. exact Hexp.
  - subst d'. rewrite get_upd_node_eq by (rewrite size_upd_node; exact Hi). reflexivity.
  - discriminate Hr.
  - subst d'. rewrite get_upd_node_eq; [reflexivity|].
    eapply extends_lt; [apply ensure_all_extends|]. rewrite size_upd_node. exact Hi.
Qed.

(* an expanded node keeps its successor list, whichever node is expanded next *)
Lemma expand_one_stable : forall N cfg d i y, n_exp (get d y) = true ->
  successors (fst (expand_one N cfg d i)) y = successors d y.
Proof.
  intros N cfg d i y Hexp. destruct (Nat.eq_dec y i) as [Heq|Hne].
  - subst y. unfold expand_one. rewrite Hexp. reflexivity.
  - rewrite !successors_out. rewrite expand_one_out_other by exact Hne. reflexivity.
Qed.

Lemma expand_one_keeps_exp : forall N cfg d i y, y < size d -> n_exp (get d y) = true ->
  n_exp (get (fst (expand_one N cfg d i)) y) = true.
Proof.
  intros N cfg d i y Hy Hexp.
  destruct (expand_one_extends N cfg d i) as (_ & _ & Hk & _). apply Hk; assumption.
Qed.

Lemma node_successors_RUnit : forall N cfg d i d1 succ,
  node_successors N cfg d i = (d1, RUnit, succ) ->
  expand_one N cfg d i = (d1, RUnit) /\ succ = successors d1 i.
Proof.
  intros N cfg d i d1 succ H. unfold node_successors in H.
  destruct (expand_one N cfg d i) as [d0 r0]. destruct r0; inversion H; subst.
  split; reflexivity.
Qed.

Lemma node_successors_result : forall N cfg d i d1 r succ,
  node_successors N cfg d i = (d1, r, succ) -> r = RUnit \/ exists e, r = RRaised e.
Proof.
  intros N cfg d i d1 r succ H. unfold node_successors in H.
  destruct (expand_one N cfg d i) as [d0 r0] eqn:E.
  apply expand_one_cases in E.
  destruct E as [(_ & _ & Hr)|[(_ & _ & _ & Hr)|[(_ & _ & _ & _ & Hr)|(_ & _ & _ & _ & Hr)]]];
    subst r0; inversion H; subst; try (left; reflexivity).
  right. eexists. reflexivity.
Qed.

(* ---------- the closure argument ---------- *)
Definition Good (N : net) (d : sd) : Prop := SWF N d /\ EdgeStrict d /\ Rooted d.

(* x is expanded and all its successors are in seen *)
Definition Done (d : sd) (seen : list nat) (x : nat) : Prop :=
  n_exp (get d x) = true /\ forall s, In s (successors d x) -> In s seen.

Lemma Done_mono : forall d seen seen' x, (forall s, In s seen -> In s seen') ->
  Done d seen x -> Done d seen' x.
Proof.
  intros d seen seen' x Hincl [He Hs]. split; [exact He|].
  intros s Hin. apply Hincl. apply Hs. exact Hin.
Qed.

Lemma Done_expand : forall N cfg d i seen x, x < size d ->
  Done d seen x -> Done (fst (expand_one N cfg d i)) seen x.
Proof.
  intros N cfg d i seen x Hx [He Hs]. split.
  - apply expand_one_keeps_exp; assumption.
  - rewrite expand_one_stable by exact He. exact Hs.
Qed.

Lemma Good_expand : forall N cfg d i, i < size d -> Good N d ->
  Good N (fst (expand_one N cfg d i)).
Proof.
  intros N cfg d i Hi (Hswf & Hes & Hr). split; [|split].
  - apply expand_one_SWF; assumption.
  - apply expand_one_ES; assumption.
  - apply expand_one_Rooted. exact Hr.
Qed.

Lemma closed_all_expanded : forall N d seen, Good N d ->
  In 0 seen -> (forall x, In x seen -> Done d seen x) -> AllExpanded d.
Proof.
  intros N d seen (Hswf & Hes & Hr) H0 Hdone.
  assert (Hall : forall k i, i < size d -> nfixed (n_space (get d i)) <= k -> In i seen).
  { induction k as [|k IH]; intros i Hi Hk.
    - destruct (Nat.eq_dec i 0) as [Heq|Hne]; [subst i; exact H0|].
      destruct (Hr i) as (e & Hin & Hd); [lia|exact Hi|].
      pose proof (Hes e Hin) as Hss. rewrite Hd in Hss.
      apply strict_subspace_nfixed in Hss. lia.
    - destruct (Nat.eq_dec i 0) as [Heq|Hne]; [subst i; exact H0|].
      destruct (Hr i) as (e & Hin & Hd); [lia|exact Hi|].
      pose proof (Hes e Hin) as Hss. rewrite Hd in Hss.
      apply strict_subspace_nfixed in Hss.
      destruct (swf_edges N d Hswf e Hin) as (Hsrc & _ & _).
      assert (Hj : In (e_src e) seen) by (apply IH; [exact Hsrc|lia]).
      destruct (Hdone _ Hj) as [_ Hsucc]. apply Hsucc.
      apply In_successors. exists e. repeat split; assumption. }
  intros i Hi. apply (Hdone i). apply (Hall (nfixed (n_space (get d i))) i Hi). apply le_n.
Qed.

(* ---------- BFS ---------- *)
Definition BInv (d : sd) (seen pending : list nat) : Prop :=
  In 0 seen /\ (forall x, In x seen -> x < size d) /\
  (forall x, In x pending -> In x seen) /\
  (forall x, In x seen -> In x pending \/ Done d seen x).

Lemma bfs_level_inv : forall N cfg cur d seen next d1 r seen1 next1,
  Good N d -> BInv d seen (next ++ cur) ->
  bfs_level N cfg None d seen next cur = (d1, r, seen1, next1) ->
  r <> RBool true /\ (r = RUnit -> Good N d1 /\ BInv d1 seen1 next1).
Proof.
  intros N cfg cur. induction cur as [|x cur IH];
    intros d seen next d1 r seen1 next1 Hgood Hinv Hrun.
  - simpl in Hrun. inversion Hrun; subst. split; [discriminate|]. intros _.
    rewrite app_nil_r in Hinv. split; assumption.
  - simpl in Hrun.
    destruct (node_successors N cfg d x) as [[d2 r2] succ] eqn:Ens.
    destruct (node_successors_result N cfg d x d2 r2 succ Ens) as [Hr2|[e Hr2]]; subst r2.
    + destruct (node_successors_RUnit N cfg d x d2 succ Ens) as [Eeo Hsucc].
      destruct Hinv as (H0 & Hbound & Hpend & Hdone).
      assert (Hx : x < size d).
      { apply Hbound. apply Hpend. apply in_or_app. right. left. reflexivity. }
      assert (Hd2 : d2 = fst (expand_one N cfg d x)) by (rewrite Eeo; reflexivity).
      assert (Hgood2 : Good N d2) by (rewrite Hd2; apply Good_expand; assumption).
      assert (Hext : extends d d2) by (rewrite Hd2; apply expand_one_extends).
      refine (IH d2 _ _ d1 r seen1 next1 Hgood2 _ Hrun).
      set (fresh := filter (fun s => negb (mem_nat s seen)) (sort_nat succ)).
      split; [apply in_or_app; left; exact H0|]. split; [|split].
      * intros y Hy. apply in_app_or in Hy. destruct Hy as [Hy|Hy].
        -- eapply extends_lt; [exact Hext|apply Hbound; exact Hy].
        -- unfold fresh in Hy. apply filter_In in Hy. destruct Hy as [Hy _].
           apply sort_nat_In in Hy. subst succ.
           eapply successors_valid; [apply Hgood2|exact Hy].
      * intros y Hy. rewrite <- app_assoc in Hy. apply in_app_or in Hy.
        destruct Hy as [Hy|Hy].
        -- apply in_or_app. left. apply Hpend. apply in_or_app. left. exact Hy.
        -- apply in_app_or in Hy. destruct Hy as [Hy|Hy].
           ++ apply in_or_app. right. exact Hy.
           ++ apply in_or_app. left. apply Hpend. apply in_or_app. right. right. exact Hy.
      * intros y Hy.
        assert (Hxdone : Done d2 (seen ++ fresh) x).
        { split; [eapply expand_one_exp; eassumption|].
          intros s Hs. destruct (mem_nat s seen) eqn:Em.
          - apply in_or_app. left. unfold mem_nat in Em. apply existsb_exists in Em.
            destruct Em as (s' & Hs' & Heq). apply Nat.eqb_eq in Heq. subst s'. exact Hs'.
          - apply in_or_app. right. unfold fresh. apply filter_In. split.
            + apply sort_nat_In_rev. subst succ. exact Hs.
            + rewrite Em. reflexivity. }
        apply in_app_or in Hy. destruct Hy as [Hy|Hy].
        -- destruct (Hdone y Hy) as [Hp|Hd].
           ++ apply in_app_or in Hp. destruct Hp as [Hp|[Hp|Hp]].
              ** left. apply in_or_app. left. apply in_or_app. left. exact Hp.
              ** subst y. right. exact Hxdone.
              ** left. apply in_or_app. right. exact Hp.
           ++ right. rewrite Hd2. apply Done_expand; [apply Hbound; exact Hy|].
              eapply Done_mono; [|exact Hd]. intros s Hs. apply in_or_app. left. exact Hs.
        -- left. apply in_or_app. left. apply in_or_app. right. exact Hy.
    + simpl in Hrun. inversion Hrun; subst. split; [discriminate|].
      intro Hc. discriminate Hc.
Qed.

Lemma bfs_loop_complete : forall N cfg fuel d seen cur level d',
  Good N d -> BInv d seen cur ->
  bfs_loop fuel N cfg None None d seen cur level = (d', RBool true) -> AllExpanded d'.
Proof.
  intros N cfg fuel. induction fuel as [|f IH]; intros d seen cur level d' Hgood Hinv Hrun.
  - simpl in Hrun. discriminate Hrun.
  - destruct cur as [|x cur].
    + simpl in Hrun. inversion Hrun; subst d'.
      destruct Hinv as (H0 & _ & _ & Hdone).
      apply (closed_all_expanded N d seen Hgood H0).
      intros y Hy. destruct (Hdone y Hy) as [[]|Hd]. exact Hd.
    + remember (x :: cur) as c eqn:Ec.
      assert (Hrun' : (let '(d1, r, seen1, next) := bfs_level N cfg None d seen [] c in
                       match r with
                       | RUnit => bfs_loop f N cfg None None d1 seen1 next (S level)
                       | _ => (d1, r)
                       end) = (d', RBool true)).
      { subst c. exact Hrun. }
      clear Hrun.
      destruct (bfs_level N cfg None d seen [] c) as [[[d1 r] seen1] next] eqn:Elev.
      destruct (bfs_level_inv N cfg c d seen [] d1 r seen1 next Hgood Hinv Elev) as [Hne Hok].
      destruct r; try discriminate Hrun'.
      * destruct (Hok eq_refl) as [Hgood1 Hinv1].
        exact (IH d1 seen1 next (S level) d' Hgood1 Hinv1 Hrun').
      * inversion Hrun'; subst. exfalso. apply Hne. reflexivity.
Qed.

Theorem bfs_complete : forall fuel N cfg d d', 1 <= max_motifs cfg ->
  SWF N d -> NoStubEdges d -> EdgeStrict d -> Rooted d ->
  expand_bfs fuel N cfg d None None None = (d', RBool true) -> AllExpanded d'.
Proof.
  intros fuel N cfg d d' _ Hswf _ Hes Hr Hrun. unfold expand_bfs in Hrun.
  apply (bfs_loop_complete N cfg fuel d [0] [0] 0 d');
    [split; [exact Hswf|split; [exact Hes|exact Hr]]| |exact Hrun].
  split; [left; reflexivity|]. split; [|split].
  - intros x [Hx|[]]. subst x. apply (swf_size N d Hswf).
  - intros x Hx. exact Hx.
  - intros x Hx. left. exact Hx.
Qed.

(* ---------- DFS ---------- *)
Lemma mem_nat_In : forall s l, mem_nat s l = true -> In s l.
Proof.
  intros s l Hm. unfold mem_nat in Hm. apply existsb_exists in Hm.
  destruct Hm as (s' & Hs' & Heq). apply Nat.eqb_eq in Heq. subst s'. exact Hs'.
Qed.

Lemma drop_seen_nil : forall seen l, drop_seen seen l = [] -> forall s, In s l -> In s seen.
Proof.
  intros seen l. induction l as [|a r IH]; intros Hd s Hin; [destruct Hin|].
  simpl in Hd. destruct (mem_nat a seen) eqn:Em; [|discriminate Hd].
  destruct Hin as [Heq|Hin]; [subst s; apply mem_nat_In; exact Em|apply IH; assumption].
Qed.

Lemma drop_seen_cons : forall seen l s rest, drop_seen seen l = s :: rest ->
  In s l /\ (forall t, In t rest -> In t l) /\
  (forall t, In t l -> In t seen \/ t = s \/ In t rest).
Proof.
  intros seen l. induction l as [|a r IH]; intros s rest Hd; [discriminate Hd|].
  simpl in Hd. destruct (mem_nat a seen) eqn:Em.
  - destruct (IH s rest Hd) as (H1 & H2 & H3). split; [right; exact H1|]. split.
    + intros t Ht. right. apply H2. exact Ht.
    + intros t [Heq|Ht]; [left; subst t; apply mem_nat_In; exact Em|apply H3; exact Ht].
  - inversion Hd; subst. split; [left; reflexivity|]. split.
    + intros t Ht. right. exact Ht.
    + intros t [Heq|Ht]; [right; left; symmetry; exact Heq|right; right; exact Ht].
Qed.

Definition dstack := list (nat * option (list nat)).

Definition entry_ok (d : sd) (seen : list nat) (x : nat) (o : option (list nat)) : Prop :=
  In x seen /\
  match o with
  | None => True
  | Some rest =>
      n_exp (get d x) = true /\ (forall s, In s rest -> s < size d) /\
      forall s, In s (successors d x) -> In s seen \/ In s rest
  end.

Definition DInv (d : sd) (seen : list nat) (stack : dstack) : Prop :=
  In 0 seen /\ (forall x, In x seen -> x < size d) /\
  (forall x, In x seen -> (exists o, In (x, o) stack) \/ Done d seen x) /\
  (forall x o, In (x, o) stack -> entry_ok d seen x o).

(* the state between popping (x, _) and deciding what to push *)
Definition DMid (d : sd) (seen : list nat) (stack : dstack) (x : nat) (l : list nat) : Prop :=
  In 0 seen /\ (forall y, In y seen -> y < size d) /\
  (forall y, In y seen -> y = x \/ (exists o, In (y, o) stack) \/ Done d seen y) /\
  (forall y o, In (y, o) stack -> entry_ok d seen y o) /\
  entry_ok d seen x (Some l).

Lemma entry_ok_mono : forall d seen seen' x o, (forall s, In s seen -> In s seen') ->
  entry_ok d seen x o -> entry_ok d seen' x o.
Proof.
  intros d seen seen' x o Hincl [Hx Ho]. split; [apply Hincl; exact Hx|].
  destruct o as [rest|]; [|exact I]. destruct Ho as (He & Hb & Hs).
  split; [exact He|]. split; [exact Hb|].
  intros s Hin. destruct (Hs s Hin) as [H|H]; [left; apply Hincl; exact H|right; exact H].
Qed.

Lemma entry_ok_expand : forall N cfg d i seen x o, x < size d ->
  entry_ok d seen x o -> entry_ok (fst (expand_one N cfg d i)) seen x o.
Proof.
  intros N cfg d i seen x o Hx [Hin Ho]. split; [exact Hin|].
  destruct o as [rest|]; [|exact I]. destruct Ho as (He & Hb & Hs).
  split; [apply expand_one_keeps_exp; assumption|]. split.
  - intros s Hs'. eapply extends_lt; [apply expand_one_extends|apply Hb; exact Hs'].
  - rewrite expand_one_stable by exact He. exact Hs.
Qed.

Lemma dfs_pop_some : forall d seen x l stack,
  DInv d seen ((x, Some l) :: stack) -> DMid d seen stack x l.
Proof.
  intros d seen x l stack (H0 & Hb & Hd & Hst). split; [exact H0|]. split; [exact Hb|].
  split; [|split].
  - intros y Hy. destruct (Hd y Hy) as [(o & [Heq|Hin])|Hdone].
    + left. inversion Heq. reflexivity.
    + right. left. exists o. exact Hin.
    + right. right. exact Hdone.
  - intros y o Hin. apply Hst. right. exact Hin.
  - apply Hst. left. reflexivity.
Qed.

Lemma dfs_pop_none : forall N cfg d seen x stack d1 succ, Good N d ->
  DInv d seen ((x, None) :: stack) -> node_successors N cfg d x = (d1, RUnit, succ) ->
  Good N d1 /\ DMid d1 seen stack x (sort_nat succ).
Proof.
  intros N cfg d seen x stack d1 succ Hgood (H0 & Hb & Hd & Hst) Hns.
  destruct (node_successors_RUnit N cfg d x d1 succ Hns) as [Eeo Hsucc].
  assert (Hxs : In x seen) by (apply (Hst x None); left; reflexivity).
  assert (Hx : x < size d) by (apply Hb; exact Hxs).
  assert (Hd1 : d1 = fst (expand_one N cfg d x)) by (rewrite Eeo; reflexivity).
  assert (Hgood1 : Good N d1) by (rewrite Hd1; apply Good_expand; assumption).
  assert (Hext : extends d d1) by (rewrite Hd1; apply expand_one_extends).
  split; [exact Hgood1|]. split; [exact H0|]. split; [|split; [|split]].
  - intros y Hy. eapply extends_lt; [exact Hext|apply Hb; exact Hy].
  - intros y Hy. destruct (Hd y Hy) as [(o & [Heq|Hin])|Hdone].
    + left. inversion Heq. reflexivity.
    + right. left. exists o. exact Hin.
    + right. right. rewrite Hd1. apply Done_expand; [apply Hb; exact Hy|exact Hdone].
  - intros y o Hin. rewrite Hd1. apply entry_ok_expand.
    + apply Hb. apply (Hst y o). right. exact Hin.
    + apply Hst. right. exact Hin.
  - split; [exact Hxs|]. split; [eapply expand_one_exp; eassumption|]. split.
    + intros s Hs. apply sort_nat_In in Hs. subst succ.
      eapply successors_valid; [apply Hgood1|exact Hs].
    + intros s Hs. right. apply sort_nat_In_rev. subst succ. exact Hs.
Qed.

Lemma dfs_mid_done : forall d seen stack x l,
  DMid d seen stack x l -> drop_seen seen l = [] -> DInv d seen stack.
Proof.
  intros d seen stack x l (H0 & Hb & Hd & Hst & Hx) Hdrop.
  split; [exact H0|]. split; [exact Hb|]. split; [|exact Hst].
  intros y Hy. destruct (Hd y Hy) as [Heq|[Hon|Hdone]].
  - subst y. right. destruct Hx as (_ & He & _ & Hs). split; [exact He|].
    intros s Hin. destruct (Hs s Hin) as [H|H]; [exact H|].
    eapply drop_seen_nil; eassumption.
  - left. exact Hon.
  - right. exact Hdone.
Qed.

Lemma dfs_mid_push : forall d seen stack x l s rest,
  DMid d seen stack x l -> drop_seen seen l = s :: rest ->
  DInv d (s :: seen) ((s, None) :: (x, Some rest) :: stack).
Proof.
  intros d seen stack x l s rest (H0 & Hb & Hd & Hst & Hx) Hdrop.
  destruct (drop_seen_cons seen l s rest Hdrop) as (Hsl & Hrl & Hcases).
  destruct Hx as (Hxs & He & Hlb & Hs).
  assert (Hincl : forall t, In t seen -> In t (s :: seen)) by (intros t Ht; right; exact Ht).
  split; [right; exact H0|]. split; [|split].
  - intros y [Heq|Hy]; [subst y; apply Hlb; exact Hsl|apply Hb; exact Hy].
  - intros y [Heq|Hy].
    + subst y. left. exists None. left. reflexivity.
    + destruct (Hd y Hy) as [Heq|[(o & Hon)|Hdone]].
      * subst y. left. exists (Some rest). right. left. reflexivity.
      * left. exists o. right. right. exact Hon.
      * right. eapply Done_mono; [exact Hincl|exact Hdone].
  - intros y o [Heq|[Heq|Hin]].
    + inversion Heq; subst. split; [left; reflexivity|exact I].
    + inversion Heq; subst. split; [right; exact Hxs|]. split; [exact He|]. split.
      * intros t Ht. apply Hlb. apply Hrl. exact Ht.
      * intros t Ht. destruct (Hs t Ht) as [H|H]; [left; right; exact H|].
        destruct (Hcases t H) as [H1|[H1|H1]].
        -- left. right. exact H1.
        -- left. left. symmetry. exact H1.
        -- right. exact H1.
    + eapply entry_ok_mono; [exact Hincl|]. apply Hst. exact Hin.
Qed.

Lemma dfs_loop_complete : forall N cfg fuel d seen stack complete d',
  Good N d -> DInv d seen stack ->
  dfs_loop fuel N cfg None None d seen stack complete = (d', RBool true) -> AllExpanded d'.
Proof.
  intros N cfg fuel. induction fuel as [|f IH];
    intros d seen stack complete d' Hgood Hinv Hrun.
  - simpl in Hrun. discriminate Hrun.
  - destruct stack as [|[x o] stack'].
    + simpl in Hrun. inversion Hrun; subst.
      destruct Hinv as (H0 & _ & Hd & _).
      apply (closed_all_expanded N d' seen Hgood H0).
      intros y Hy. destruct (Hd y Hy) as [(o & [])|Hdone]. exact Hdone.
    + destruct o as [l|].
      * simpl in Hrun. pose proof (dfs_pop_some d seen x l stack' Hinv) as Hmid.
        destruct (drop_seen seen l) as [|s rest] eqn:Edrop.
        -- eapply IH; [exact Hgood| |exact Hrun]. eapply dfs_mid_done; eassumption.
        -- eapply IH; [exact Hgood| |exact Hrun]. eapply dfs_mid_push; eassumption.
      * simpl in Hrun.
        destruct (node_successors N cfg d x) as [[d1 r] succ] eqn:Ens.
        destruct (node_successors_result N cfg d x d1 r succ Ens) as [Hr|[e Hr]]; subst r.
        -- destruct (dfs_pop_none N cfg d seen x stack' d1 succ Hgood Hinv Ens)
             as [Hgood1 Hmid].
           destruct (drop_seen seen (sort_nat succ)) as [|s rest] eqn:Edrop.
           ++ eapply IH; [exact Hgood1| |exact Hrun]. eapply dfs_mid_done; eassumption.
           ++ eapply IH; [exact Hgood1| |exact Hrun]. eapply dfs_mid_push; eassumption.
        -- discriminate Hrun.
Qed.

Theorem dfs_complete : forall fuel N cfg d d', 1 <= max_motifs cfg ->
  SWF N d -> NoStubEdges d -> EdgeStrict d -> Rooted d ->
  expand_dfs fuel N cfg d None None None = (d', RBool true) -> AllExpanded d'.
Proof.
  intros fuel N cfg d d' _ Hswf _ Hes Hr Hrun. unfold expand_dfs in Hrun.
  apply (dfs_loop_complete N cfg fuel d [0] [(0, None)] true d');
    [split; [exact Hswf|split; [exact Hes|exact Hr]]| |exact Hrun].
  split; [left; reflexivity|]. split; [|split].
  - intros x [Hx|[]]. subst x. apply (swf_size N d Hswf).
  - intros x [Hx|[]]. subst x. left. exists None. left. reflexivity.
  - intros x o [Heq|[]]. inversion Heq; subst. split; [left; reflexivity|exact I].
Qed.

(* ====================================================================== *)
(* PART C -- the fully expanded diagram is the hierarchy of percolated    *)
(* trap spaces and its leaves are the minimal trap spaces                 *)
(* ====================================================================== *)

Definition Hierarchy (N : net) (d : sd) : Prop :=
  SWF N d /\ TrapNodes N d /\ AllExpanded d /\ NoSkips d /\ Faithful N d /\
  n_space (get d 0) = percolate_b N (top_space (nvars N)).

Theorem init_root : forall N, n_space (get (init N) 0) = percolate_b N (top_space (nvars N)).
Proof.
  intro N. unfold init. rewrite ensure_node_unfold. reflexivity.
Qed.

Theorem root_stable : forall fuel N cfg d o, SWF N d ->
  n_space (get (fst (step fuel N cfg d o)) 0) = n_space (get d 0).
Proof.
  intros fuel N cfg d o Hswf.
  apply extends_space; [apply step_extends; exact Hswf|apply (swf_size N d Hswf)].
Qed.

(* ---------- no plain operation ever sets a skip flag (no SWF needed) ---------- *)
(* index-free form: the dummy node returned beyond the end has n_skip = false *)
Definition NSk (d : sd) : Prop := forall i, n_skip (get d i) = false.

Lemma NoSkips_NSk : forall d, NoSkips d <-> NSk d.
Proof.
  intro d. split.
  - intros H i. destruct (lt_dec i (size d)) as [Hlt|Hge]; [apply H; exact Hlt|].
    rewrite get_beyond by lia. reflexivity.
  - intros H i _. apply H.
Qed.

Lemma NSk_upd : forall d i f, (forall x, n_skip (f x) = n_skip x) ->
  NSk d -> NSk (upd_node d i f).
Proof.
  intros d i f Hf H j.
  destruct (get_upd_node_cases d i j f) as [Heq|(_ & _ & Heq)]; rewrite Heq.
  - apply H.
  - rewrite Hf. apply H.
Qed.

Ltac nsk_upd := apply NSk_upd; [intro; reflexivity|].

Lemma NSk_link : forall d parent c m, NSk d -> NSk (link d parent c m).
Proof.
  intros d parent c m H j. destruct (get_link d parent c m j) as (_ & _ & Hs & _).
  rewrite Hs. apply H.
Qed.

Lemma NSk_add_fresh : forall d X parent, NSk d -> NSk (add_node d (fresh_node X parent)).
Proof.
  intros d X parent H j. destruct (lt_eq_lt_dec j (size d)) as [[Hlt|Heq]|Hgt].
  - rewrite get_add_node_old by exact Hlt. apply H.
  - subst j. rewrite get_add_node_new. reflexivity.
  - rewrite get_beyond; [reflexivity|]. rewrite size_add_node. lia.
Qed.

Lemma NSk_ensure_node : forall N d parent motif,
  NSk d -> NSk (fst (ensure_node N d parent motif)).
Proof.
  intros N d parent motif H. rewrite ensure_node_unfold.
  destruct (find_node d (percolate_b N motif)); simpl.
  - apply NSk_link. exact H.
  - apply NSk_link. apply NSk_add_fresh. exact H.
Qed.

Lemma NSk_reclaim : forall d, NSk d -> NSk (reclaim d).
Proof.
  intros d H j. rewrite get_reclaim. pose proof (H j) as Hj.
  destruct (n_seeds (get d j)); exact Hj.
Qed.

Lemma NSk_ensure_all : forall N subs d p, NSk d -> NSk (ensure_all N d p subs).
Proof.
  intros N subs. induction subs as [|m r IH]; intros d p H; simpl; [exact H|].
  apply IH. apply NSk_ensure_node. exact H.
Qed.

Lemma NSk_expand_one : forall N cfg d i, NSk d -> NSk (fst (expand_one N cfg d i)).
Proof.
  intros N cfg d i H. destruct (expand_one N cfg d i) as [d' r] eqn:E.
  apply expand_one_cases in E. simpl.
  destruct E as [(_ & Hd & _)|[(_ & _ & Hd & _)|[(_ & _ & _ & Hd & _)|(_ & _ & _ & Hd & _)]]];
    subst d'.
  - exact H.
  - nsk_upd. nsk_upd. exact H.
  - nsk_upd. exact H.
  - nsk_upd. apply NSk_ensure_all. nsk_upd. exact H.
Qed.

Lemma NSk_node_successors : forall N cfg d i,
  NSk d -> NSk (fst (fst (node_successors N cfg d i))).
Proof. intros N cfg d i H. rewrite node_successors_fst. apply NSk_expand_one. exact H. Qed.

Lemma NSk_bfs_level : forall N cfg sl cur d seen next,
  NSk d -> NSk (fst (fst (fst (bfs_level N cfg sl d seen next cur)))).
Proof.
  intros N cfg sl cur. induction cur as [|x cur IH]; intros d seen next Hq; simpl; [exact Hq|].
  destruct (over_limit sl d && negb (n_exp (get d x))); [simpl; exact Hq|].
  pose proof (NSk_node_successors N cfg d x Hq) as Hq1.
  destruct (node_successors N cfg d x) as [[d1 r] succ]. simpl in Hq1.
  destruct r; simpl; try exact Hq1. apply IH. exact Hq1.
Qed.

Lemma NSk_bfs_loop : forall N cfg ll sl fuel d seen cur level,
  NSk d -> NSk (fst (bfs_loop fuel N cfg ll sl d seen cur level)).
Proof.
  intros N cfg ll sl fuel. induction fuel as [|f IH]; intros d seen cur level Hq; simpl;
    [exact Hq|].
  pose proof (NSk_bfs_level N cfg sl cur d seen [] Hq) as Hq1.
  destruct (bfs_level N cfg sl d seen [] cur) as [[[d1 r] seen1] next]. simpl in Hq1.
  destruct cur as [|x cur]; [exact Hq|].
  destruct r; simpl; try exact Hq1.
  destruct (match ll with Some l => Nat.leb l level | None => false end); simpl;
    [exact Hq1|apply IH; exact Hq1].
Qed.

Lemma NSk_dfs_loop : forall N cfg kl sl fuel d seen stack complete,
  NSk d -> NSk (fst (dfs_loop fuel N cfg kl sl d seen stack complete)).
Proof.
  intros N cfg kl sl fuel. induction fuel as [|f IH]; intros d seen stack complete Hq; simpl;
    [exact Hq|].
  destruct stack as [|[x osucc] stack']; [exact Hq|].
  destruct osucc as [l|]; simpl.
  - destruct (drop_seen seen l) as [|s rest]; [apply IH; exact Hq|].
    destruct (match kl with Some l0 => Nat.leb l0 (length stack') | None => false end);
      apply IH; exact Hq.
  - destruct (over_limit sl d && negb (n_exp (get d x))); [simpl; exact Hq|].
    pose proof (NSk_node_successors N cfg d x Hq) as Hq1.
    destruct (node_successors N cfg d x) as [[d1 r] succ]. simpl in Hq1.
    destruct r; simpl; try exact Hq1.
    destruct (drop_seen seen (sort_nat succ)) as [|s rest]; [apply IH; exact Hq1|].
    destruct (match kl with Some l0 => Nat.leb l0 (length stack') | None => false end);
      apply IH; exact Hq1.
Qed.

Lemma NSk_target_level : forall N cfg target sl cur d seen next,
  NSk d -> NSk (fst (fst (fst (target_level N cfg target sl d seen next cur)))).
Proof.
  intros N cfg target sl cur. induction cur as [|x cur IH]; intros d seen next Hq; simpl;
    [exact Hq|].
  destruct (intersect (n_space (get d x)) target); [|apply IH; exact Hq].
  destruct (subspace (n_space (get d x)) target && negb (eqb_space (n_space (get d x)) target));
    [apply IH; exact Hq|].
  destruct (over_limit sl d && negb (n_exp (get d x))); [simpl; exact Hq|].
  pose proof (NSk_node_successors N cfg d x Hq) as Hq1.
  destruct (node_successors N cfg d x) as [[d1 r] succ]. simpl in Hq1.
  destruct r; simpl; try exact Hq1. apply IH. exact Hq1.
Qed.

Lemma NSk_target_loop : forall N cfg target sl fuel d seen cur,
  NSk d -> NSk (fst (target_loop fuel N cfg target sl d seen cur)).
Proof.
  intros N cfg target sl fuel. induction fuel as [|f IH]; intros d seen cur Hq; simpl;
    [exact Hq|].
  pose proof (NSk_target_level N cfg target sl cur d seen [] Hq) as Hq1.
  destruct (target_level N cfg target sl d seen [] cur) as [[[d1 r] seen1] next]. simpl in Hq1.
  destruct cur as [|x cur]; [exact Hq|].
  destruct r; simpl; try exact Hq1. apply IH. exact Hq1.
Qed.

(* without the skip option the inner loop of expand_minimal_spaces changes nothing *)
Lemma min_inner_noskip : forall N all_min remaining node_space seen succ d,
  fst (min_inner N d seen remaining all_min node_space false succ) = d.
Proof.
  intros N all_min remaining node_space seen succ.
  induction succ as [|s r IH]; intro d; simpl; [reflexivity|].
  destruct (mem_nat s seen); [apply IH|].
  destruct (negb (existsb (fun m => subspace m node_space) remaining)); [apply IH|reflexivity].
Qed.

Lemma NSk_min_loop : forall N cfg sl all_min fuel d seen remaining stack,
  NSk d -> NSk (fst (min_loop fuel N cfg sl false all_min d seen remaining stack)).
Proof.
  intros N cfg sl all_min fuel.
  induction fuel as [|f IH]; intros d seen remaining stack Hq; simpl; [exact Hq|].
  destruct stack as [|[x osucc] stack'].
  { destruct (Nat.eqb (length remaining) 0); exact Hq. }
  assert (Htail : forall d1 succ, NSk d1 ->
            NSk (fst (let '(d2, succ2) :=
                      min_inner N d1 seen remaining all_min (n_space (get d1 x)) false succ in
                    match succ2 with
                    | [] =>
                        if is_minimal d2 x
                        then match remove_space (n_space (get d2 x)) remaining with
                             | Some rem' => min_loop f N cfg sl false all_min d2 seen rem' stack'
                             | None => (d2, RRaised ErrAssert)
                             end
                        else min_loop f N cfg sl false all_min d2 seen remaining stack'
                    | s :: rest =>
                        min_loop f N cfg sl false all_min d2 (s :: seen) remaining
                                 ((s, None) :: (x, Some rest) :: stack')
                    end))).
  { intros d1 succ Hq1.
    pose proof (min_inner_noskip N all_min remaining (n_space (get d1 x)) seen succ d1) as Hfst.
    destruct (min_inner N d1 seen remaining all_min (n_space (get d1 x)) false succ)
      as [d2 succ2].
    simpl in Hfst. subst d2.
    destruct succ2 as [|s rest].
    - destruct (is_minimal d1 x); [|apply IH; exact Hq1].
      destruct (remove_space (n_space (get d1 x)) remaining); [apply IH; exact Hq1|exact Hq1].
    - apply IH. exact Hq1. }
  destruct osucc as [l|]; simpl.
  - apply Htail. exact Hq.
  - destruct (over_limit sl d && negb (n_exp (get d x))); [simpl; exact Hq|].
    pose proof (NSk_node_successors N cfg d x Hq) as Hq1.
    destruct (node_successors N cfg d x) as [[d1 r] succ]. simpl in Hq1.
    destruct r; simpl; try exact Hq1.
    apply Htail. exact Hq1.
Qed.

Lemma NSk_expand_min : forall fuel N cfg d start sl tape,
  NSk d -> NSk (fst (expand_min fuel N cfg d start sl false tape)).
Proof.
  intros fuel N cfg d start sl tape Hq. unfold expand_min.
  destruct (negb (perm_of tape (min_traps_b N _))); [exact Hq|].
  apply NSk_min_loop. exact Hq.
Qed.

Lemma NSk_q_cands : forall d i o, NSk d -> NSk (fst (q_cands d i o)).
Proof.
  intros d i o Hq. unfold q_cands.
  destruct (n_cands (get d i)); [exact Hq|].
  destruct (n_seeds (get d i)); [exact Hq|].
  destruct o as [|k b]; [exact Hq|].
  destruct (_ || _); simpl; repeat nsk_upd; exact Hq.
Qed.

Lemma NSk_q_seeds : forall d i fallback oc os, NSk d -> NSk (fst (q_seeds d i fallback oc os)).
Proof.
  intros d i fallback oc os Hq. unfold q_seeds.
  destruct (n_seeds (get d i)); [exact Hq|].
  pose proof (NSk_q_cands d i oc Hq) as Hq1.
  destruct (q_cands d i oc) as [d1 r]. simpl in Hq1.
  destruct r;
    try (destruct (n_seeds (get d1 i)); [exact Hq1|];
         destruct os as [|k0 [|]]; simpl; repeat nsk_upd; exact Hq1).
  destruct fallback; simpl; [|exact Hq1].
  repeat nsk_upd. exact Hq1.
Qed.

Lemma NSk_q_sets : forall d i oc os, NSk d -> NSk (fst (q_sets d i oc os)).
Proof.
  intros d i oc os Hq. unfold q_sets.
  destruct (n_sets (get d i)); [exact Hq|].
  pose proof (NSk_q_seeds d i false oc os Hq) as Hq1.
  destruct (q_seeds d i false oc os) as [d1 r]. simpl in Hq1.
  destruct r; simpl; try exact Hq1; (nsk_upd; exact Hq1).
Qed.

Theorem noskips_plain : forall fuel N cfg d o, plain o -> NoSkips d ->
  NoSkips (fst (step fuel N cfg d o)).
Proof.
  intros fuel N cfg d o Hplain Hns. apply NoSkips_NSk. apply NoSkips_NSk in Hns.
  destruct o; unfold step; simpl in Hplain.
  - destruct (Nat.ltb i (size d)); [|exact Hns].
    pose proof (NSk_node_successors N cfg d i Hns) as Hq1.
    destruct (node_successors N cfg d i) as [[d1 r] succ]. exact Hq1.
  - destruct (valid_start d start); [|exact Hns]. unfold expand_bfs. apply NSk_bfs_loop. exact Hns.
  - destruct (valid_start d start); [|exact Hns]. unfold expand_dfs. apply NSk_dfs_loop. exact Hns.
  - subst skip. destruct (valid_start d start); [|exact Hns]. apply NSk_expand_min. exact Hns.
  - unfold expand_to_target. apply NSk_target_loop. exact Hns.
  - destruct Hplain.
  - destruct Hplain.
  - simpl. apply NSk_reclaim. exact Hns.
  - exact Hns.
  - destruct (Nat.ltb i (size d)); [|exact Hns]. apply NSk_q_cands. exact Hns.
  - destruct (Nat.ltb i (size d)); [|exact Hns]. apply NSk_q_seeds. exact Hns.
  - destruct (Nat.ltb i (size d)); [|exact Hns]. apply NSk_q_sets. exact Hns.
Qed.

(* ---------- full expansion of the fresh diagram yields the hierarchy ---------- *)
Lemma init_NoSkips : forall N, NoSkips (init N).
Proof.
  intro N. apply NoSkips_NSk. unfold init. apply NSk_ensure_node.
  intro i. destruct i; reflexivity.
Qed.

Lemma hierarchy_from_step : forall fuel N cfg o, 1 <= max_motifs cfg -> plain o ->
  AllExpanded (fst (step fuel N cfg (init N) o)) ->
  Hierarchy N (fst (step fuel N cfg (init N) o)).
Proof.
  intros fuel N cfg o Hcfg Hplain Hall.
  pose proof (init_SWF N) as Hswf.
  split; [apply step_SWF; exact Hswf|].
  split; [apply step_TrapNodes; [exact Hswf|apply init_TrapNodes]|].
  split; [exact Hall|].
  split; [apply noskips_plain; [exact Hplain|apply init_NoSkips]|].
  split.
  - apply step_Faithful_all; [exact Hcfg|exact Hswf|apply init_NoStubEdges|apply init_Faithful].
  - rewrite root_stable by exact Hswf. apply init_root.
Qed.

Theorem bfs_hierarchy : forall fuel N cfg d', 1 <= max_motifs cfg ->
  expand_bfs fuel N cfg (init N) None None None = (d', RBool true) -> Hierarchy N d'.
Proof.
  intros fuel N cfg d' Hcfg Hrun.
  assert (Hstep : fst (step fuel N cfg (init N) (OBfs None None None)) = d').
  { simpl. rewrite Hrun. reflexivity. }
  rewrite <- Hstep. apply hierarchy_from_step; [exact Hcfg|exact I|]. rewrite Hstep.
  eapply bfs_complete; [exact Hcfg|apply init_SWF|apply init_NoStubEdges|
                        apply init_EdgeStrict|apply init_Rooted|exact Hrun].
Qed.

Theorem dfs_hierarchy : forall fuel N cfg d', 1 <= max_motifs cfg ->
  expand_dfs fuel N cfg (init N) None None None = (d', RBool true) -> Hierarchy N d'.
Proof.
  intros fuel N cfg d' Hcfg Hrun.
  assert (Hstep : fst (step fuel N cfg (init N) (ODfs None None None)) = d').
  { simpl. rewrite Hrun. reflexivity. }
  rewrite <- Hstep. apply hierarchy_from_step; [exact Hcfg|exact I|]. rewrite Hstep.
  eapply dfs_complete; [exact Hcfg|apply init_SWF|apply init_NoStubEdges|
                        apply init_EdgeStrict|apply init_Rooted|exact Hrun].
Qed.

(* ---------- reading the hierarchy ---------- *)
Lemma hierarchy_canonical : forall N d i, Hierarchy N d -> i < size d -> canonical N d i.
Proof.
  intros N d i (_ & _ & Hall & Hns & Hf & _) Hi. apply Hf; [exact Hi|apply Hall|apply Hns]; exact Hi.
Qed.

Lemma hierarchy_space_len : forall N d i, Hierarchy N d -> i < size d ->
  length (n_space (get d i)) = nvars N.
Proof.
  intros N d i (Hswf & _) Hi. apply (swf_len N d Hswf). apply get_In. exact Hi.
Qed.

(* successors of a node are exactly the percolations of its maximal trap spaces *)
Theorem hierarchy_successors : forall N d i X, Hierarchy N d -> i < size d ->
  ((exists j, In j (successors d i) /\ n_space (get d j) = X) <->
   (exists M, In M (max_traps_b N (n_space (get d i)) (node_srcs N i)) /\ X = percolate_b N M)).
Proof.
  intros N d i X Hh Hi. pose proof (hierarchy_canonical N d i Hh Hi) as Hcan.
  destruct Hh as (Hswf & _). unfold canonical in Hcan. split.
  - intros (j & Hj & Hsp). rewrite successors_out in Hj. apply in_map_iff in Hj.
    destruct Hj as (e & Hd & Hin).
    assert (Hine : In e (sd_edges d)) by (unfold out_edges in Hin; apply filter_In in Hin; apply Hin).
    destruct (swf_edges N d Hswf e Hine) as (_ & _ & Hne).
    destruct (e_motifs e) as [|m r] eqn:Em; [exfalso; apply Hne; reflexivity|].
    assert (Hm : In m (e_motifs e)) by (rewrite Em; left; reflexivity).
    exists m. split.
    + eapply Permutation_in; [exact Hcan|]. unfold out_motifs. apply in_flat_map.
      exists e. split; assumption.
    + destruct (swf_motif N d Hswf e m Hine Hm) as [_ Hp]. rewrite Hp, Hd. symmetry. exact Hsp.
  - intros (M & HM & HX).
    apply (Permutation_in _ (Permutation_sym Hcan)) in HM.
    unfold out_motifs in HM. apply in_flat_map in HM. destruct HM as (e & Hin & Hm).
    assert (Hine : In e (sd_edges d)) by (unfold out_edges in Hin; apply filter_In in Hin; apply Hin).
    exists (e_dst e). split.
    + rewrite successors_out. apply in_map. exact Hin.
    + destruct (swf_motif N d Hswf e M Hine Hm) as [_ Hp]. rewrite HX. symmetry. exact Hp.
Qed.

Lemma min_trap_fixes_node_srcs : forall N M i, min_trap N M ->
  fixes_all M (node_srcs N i) = true.
Proof.
  intros N M i HM. unfold node_srcs. destruct (Nat.eqb i 0); [|apply fixes_all_nil].
  unfold fixes_all, sources_b. apply forallb_forall. intros v Hv.
  apply filter_In in Hv. destruct Hv as [Hseq Hsrc]. apply in_seq in Hseq.
  destruct (nth v M None) eqn:E; [reflexivity|].
  exfalso. apply (min_trap_fixes_sources N M v HM); [lia|exact Hsrc|exact E].
Qed.

Lemma out_edges_nil_of_motifs : forall N d i, SWF N d -> out_motifs d i = [] -> out_edges d i = [].
Proof.
  intros N d i Hswf Hm. unfold out_motifs in Hm.
  destruct (out_edges d i) as [|e r] eqn:E; [reflexivity|]. exfalso.
  assert (Hine : In e (sd_edges d)).
  { assert (Hin : In e (out_edges d i)) by (rewrite E; left; reflexivity).
    unfold out_edges in Hin. apply filter_In in Hin. apply Hin. }
  destruct (swf_edges N d Hswf e Hine) as (_ & _ & Hne).
  simpl in Hm. apply app_eq_nil in Hm. apply Hne. apply Hm.
Qed.

(* a node whose space is a minimal trap space is a leaf *)
Lemma hierarchy_leaf_at : forall N d i, Hierarchy N d -> i < size d ->
  min_trap N (n_space (get d i)) -> is_minimal d i = true.
Proof.
  intros N d i Hh Hi Hmin. pose proof (hierarchy_canonical N d i Hh Hi) as Hcan.
  destruct Hh as (Hswf & _ & Hall & _). unfold canonical in Hcan.
  rewrite (min_trap_no_max N _ (node_srcs N i) Hmin) in Hcan.
  apply Permutation_sym in Hcan. apply Permutation_nil in Hcan.
  apply (out_edges_nil_of_motifs N d i Hswf) in Hcan.
  unfold is_minimal, out_degree. rewrite successors_out, Hcan. simpl. apply Hall. exact Hi.
Qed.

Lemma hierarchy_descend : forall N d M, Hierarchy N d -> min_trap N M ->
  forall k i, i < size d -> subspace M (n_space (get d i)) = true ->
    nvars N <= nfixed (n_space (get d i)) + k ->
    exists j, j < size d /\ is_minimal d j = true /\ n_space (get d j) = M.
Proof.
  intros N d M Hh HM. pose proof (min_trap_length N M HM) as HlM.
  induction k as [|k IH]; intros i Hi Hsub Hk.
  - destruct (eqb_space M (n_space (get d i))) eqn:Eq.
    + apply eqb_space_spec in Eq. exists i. split; [exact Hi|]. split; [|symmetry; exact Eq].
      apply (hierarchy_leaf_at N d i Hh Hi). rewrite <- Eq. exact HM.
    + assert (Hss : strict_subspace M (n_space (get d i))).
      { split; [exact Hsub|]. intro Heq. apply eqb_space_spec in Heq.
        rewrite Heq in Eq. discriminate Eq. }
      apply strict_subspace_nfixed in Hss. pose proof (nfixed_le_length M) as Hle. lia.
  - destruct (eqb_space M (n_space (get d i))) eqn:Eq.
    + apply eqb_space_spec in Eq. exists i. split; [exact Hi|]. split; [|symmetry; exact Eq].
      apply (hierarchy_leaf_at N d i Hh Hi). rewrite <- Eq. exact HM.
    + assert (Hss : strict_subspace M (n_space (get d i))).
      { split; [exact Hsub|]. intro Heq. apply eqb_space_spec in Heq.
        rewrite Heq in Eq. discriminate Eq. }
      pose proof (hierarchy_space_len N d i Hh Hi) as HlS.
      assert (HtS : trap_space N (n_space (get d i))).
      { destruct Hh as (_ & Htn & _). apply TrapNodes_get; assumption. }
      destruct (closed_trap_below_child N (n_space (get d i)) M (node_srcs N i) HtS HlS
                  (min_trap_trap N M HM) (min_trap_percolate N M HM) Hss
                  (min_trap_fixes_node_srcs N M i HM)) as (M1 & HM1 & Hsub1).
      destruct (proj2 (hierarchy_successors N d i (percolate_b N M1) Hh Hi)) as (j & Hj & Hsp).
      { exists M1. split; [exact HM1|reflexivity]. }
      assert (Hjlt : j < size d).
      { destruct Hh as (Hswf & _). eapply successors_valid; eassumption. }
      destruct (max_traps_b_trap N _ _ M1 HlS HM1) as [_ Hs1].
      assert (HlM1 : length M1 = nvars N)
        by (rewrite (max_traps_b_length N _ _ M1 HM1); exact HlS).
      pose proof (strict_percolate N M1 _ HlM1 Hs1) as Hsp1.
      apply strict_subspace_nfixed in Hsp1.
      apply (IH j Hjlt); rewrite Hsp; [exact Hsub1|lia].
Qed.

(* leaves = minimal trap spaces, none missing, none spurious *)
Theorem hierarchy_leaves : forall N d M, Hierarchy N d ->
  ((exists i, i < size d /\ is_minimal d i = true /\ n_space (get d i) = M) <-> min_trap N M).
Proof.
  intros N d M Hh. split.
  - intros (i & Hi & Hmin & Hsp). subst M.
    pose proof (hierarchy_canonical N d i Hh Hi) as Hcan.
    pose proof (hierarchy_space_len N d i Hh Hi) as HlS.
    assert (HtS : trap_space N (n_space (get d i))).
    { destruct Hh as (_ & Htn & _). apply TrapNodes_get; assumption. }
    unfold is_minimal in Hmin. apply andb_prop in Hmin. destruct Hmin as [Hdeg _].
    apply Nat.eqb_eq in Hdeg. unfold out_degree in Hdeg. apply length_zero_iff_nil in Hdeg.
    rewrite successors_out in Hdeg. apply map_eq_nil in Hdeg.
    unfold canonical, out_motifs in Hcan. rewrite Hdeg in Hcan. simpl in Hcan.
    apply Permutation_nil in Hcan.
    destruct (min_trap_exists N _ HtS) as (M' & HM' & Hsub').
    destruct (eqb_space M' (n_space (get d i))) eqn:Eq.
    + apply eqb_space_spec in Eq. rewrite <- Eq. exact HM'.
    + exfalso.
      assert (Hss : strict_subspace M' (n_space (get d i))).
      { split; [exact Hsub'|]. intro Heq. apply eqb_space_spec in Heq.
        rewrite Heq in Eq. discriminate Eq. }
      destruct (max_trap_above_srcs N _ (node_srcs N i) M' (min_trap_trap N M' HM') Hss
                  (min_trap_fixes_node_srcs N M' i HM')) as (M2 & HM2 & _).
      rewrite Hcan in HM2. destruct HM2.
  - intro HM.
    assert (H0 : 0 < size d) by (destruct Hh as (Hswf & _); apply (swf_size N d Hswf)).
    apply (hierarchy_descend N d M Hh HM (nvars N) 0 H0); [|lia].
    destruct Hh as (_ & _ & _ & _ & _ & Hroot). rewrite Hroot.
    apply min_trap_in_root. exact HM.
Qed.

(* ... and none duplicated: distinct nodes carry distinct spaces *)
Theorem hierarchy_leaves_unique : forall N d i j, Hierarchy N d -> i < size d -> j < size d ->
  n_space (get d i) = n_space (get d j) -> i = j.
Proof.
  intros N d i j (Hswf & _) Hi Hj Heq. eapply spaces_inj; eassumption.
Qed.

Print Assumptions bfs_hierarchy.
Print Assumptions hierarchy_leaves.
Print Assumptions hierarchy_successors.
