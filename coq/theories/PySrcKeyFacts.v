(* PySrcKeyFacts.v -- translator tie for space_utils.space_unique_key (theories/PySrcKey.v, generated). *)
From Coq Require Import List Bool Arith NArith Lia.
Import ListNotations.
From BB Require Import BN SpaceFacts Names PyLib PySrcBase PySrcKey.

(* ------------------------------------------------------------------ *)
(* space_utils.space_unique_key                                        *)
(* ------------------------------------------------------------------ *)

Definition key_field (k : nat) (v : bool) : N :=
  N.shiftl (N.add (N.b2n v) 2) (N.mul 2 (N.of_nat k)).

Fixpoint dkey (d : pdict) : N :=
  match d with
  | [] => 0%N
  | (k, v) :: r => N.lor (key_field k v) (dkey r)
  end.



Lemma key_loop_ok : forall n (body : nat * bool -> N * option nat -> flow N (N * option nat)),
  (forall k v key var, body (k, v) (key, var) =
     if Nat.ltb k n then FNext (N.lor key (key_field k v), Some k) else FRaise) ->
  forall items key var, (forall k, In k (map fst items) -> k < n) ->
  exists var', py_for items body (key, var) = FNext (N.lor key (dkey items), var').
Proof.
  intros n body Hb. induction items as [|[k v] items IH]; intros key var Hlt; simpl.
  - exists var. rewrite N.lor_0_r. reflexivity.
  - rewrite Hb.
    assert (Hk : k < n) by (apply Hlt; left; reflexivity).
    apply Nat.ltb_lt in Hk. rewrite Hk.
    destruct (IH (N.lor key (key_field k v)) (Some k)) as [var' Hv].
    { intros k' Hin. apply Hlt. right. exact Hin. }
    exists var'. rewrite Hv. rewrite N.lor_assoc. reflexivity.
Qed.

Lemma key_loop_raise : forall n (body : nat * bool -> N * option nat -> flow N (N * option nat)),
  (forall k v key var, body (k, v) (key, var) =
     if Nat.ltb k n then FNext (N.lor key (key_field k v), Some k) else FRaise) ->
  forall items key var, (exists k, In k (map fst items) /\ n <= k) ->
  py_for items body (key, var) = FRaise.
Proof.
  intros n body Hb. induction items as [|[k v] items IH]; intros key var [k' [Hin Hle]]; simpl.
  - destruct Hin.
  - rewrite Hb. destruct (Nat.ltb_spec k n) as [Hk|Hk]; [|reflexivity].
    apply IH. simpl in Hin. destruct Hin as [->|Hin]; [lia|].
    exists k'. split; [exact Hin|exact Hle].
Qed.

Lemma key_field_code : forall k v,
  key_field k v = N.shiftl (ob_code (Some v)) (2 * N.of_nat k).
Proof. intros k [|]; reflexivity. Qed.

Lemma key_field_bit : forall k v i j, (j < 2)%N ->
  N.testbit (key_field k v) (2 * N.of_nat i + j) =
  if Nat.eqb k i then N.testbit (ob_code (Some v)) j else false.
Proof.
  intros k v i j Hj. rewrite key_field_code.
  destruct (Nat.eqb_spec k i) as [->|Hne].
  - rewrite N.shiftl_spec_high' by lia. f_equal. lia.
  - destruct (lt_dec k i) as [Hlt|Hge].
    + rewrite N.shiftl_spec_high' by lia.
      replace (2 * N.of_nat i + j - 2 * N.of_nat k)%N
        with ((2 * N.of_nat i + j - 2 * N.of_nat k - 2) + 2)%N by lia.
      apply ob_code_high.
    + apply N.shiftl_spec_low. lia.
Qed.

Lemma dkey_bit : forall d i j, NoDup (map fst d) -> (j < 2)%N ->
  N.testbit (dkey d) (2 * N.of_nat i + j) = N.testbit (ob_code (d_get d i)) j.
Proof.
  induction d as [|[k v] d IH]; intros i j Hnd Hj.
  - cbn [dkey d_get ob_code]. rewrite !N.bits_0. reflexivity.
  - simpl in Hnd. inversion Hnd as [|? ? Hnin Hnd']; subst.
    simpl dkey. rewrite N.lor_spec, key_field_bit by exact Hj.
    rewrite (IH i j Hnd' Hj). simpl d_get.
    destruct (Nat.eqb_spec k i) as [->|Hne].
    + rewrite (d_get_notin d i Hnin). simpl ob_code at 2. rewrite N.bits_0.
      apply orb_false_r.
    + reflexivity.
Qed.

Lemma space_key_bit : forall S i j, (j < 2)%N ->
  N.testbit (space_key S) (2 * N.of_nat i + j) = N.testbit (ob_code (nth i S None)) j.
Proof.
  induction S as [|o S IH]; intros i j Hj.
  - unfold space_key. cbn [space_key_from]. destruct i; cbn [nth]; cbn [ob_code];
      rewrite !N.bits_0; reflexivity.
  - rewrite space_key_cons, N.lor_spec. destruct i as [|i].
    + cbn [nth]. replace (2 * N.of_nat 0 + j)%N with j by lia.
      rewrite N.shiftl_spec_low by exact Hj. apply orb_false_r.
    + cbn [nth].
      replace (2 * N.of_nat (Datatypes.S i) + j)%N with ((2 * N.of_nat i + j) + 2)%N by lia.
      rewrite ob_code_high. cbn [orb].
      rewrite N.shiftl_spec_high' by lia.
      replace (2 * N.of_nat i + j + 2 - 2)%N with (2 * N.of_nat i + j)%N by lia.
      apply IH. exact Hj.
Qed.

Lemma dkey_space_key : forall n d, wf_dict n d -> dkey d = space_key (to_space n d).
Proof.
  intros n d Hd. apply N.bits_inj. intro m.
  assert (Hm : exists i j, (j < 2)%N /\ m = (2 * N.of_nat i + j)%N).
  { exists (N.to_nat (m / 2)), (m mod 2)%N. split.
    - apply N.mod_lt. lia.
    - rewrite N2Nat.id. apply N.div_mod. lia. }
  destruct Hm as [i [j [Hj ->]]].
  rewrite dkey_bit by (exact (proj1 Hd) || exact Hj).
  rewrite space_key_bit by exact Hj.
  rewrite to_space_nth_all by exact Hd. reflexivity.
Qed.

Theorem py_space_unique_key_spec : forall n d, wf_dict n d ->
  py_space_unique_key d n = Some (space_key (to_space n d)).
Proof.
  intros n d Hd.
  unfold py_space_unique_key, d_items. cbv zeta.
  match goal with |- context [py_for d ?b (0%N, None)] => set (body := b) end.
  assert (Hbody : forall k v key var, body (k, v) (key, var) =
     if Nat.ltb k n then FNext (N.lor key (key_field k v), Some k) else FRaise).
  { intros k v key var. unfold body, net_find.
    destruct (Nat.ltb k n); reflexivity. }
  destruct (key_loop_ok n body Hbody d 0%N None (proj2 Hd)) as [var' Hv].
  rewrite Hv. cbv beta iota. rewrite N.lor_0_l.
  rewrite (dkey_space_key n d Hd). reflexivity.
Qed.

Theorem py_space_unique_key_raises : forall n d, (exists k, In k (map fst d) /\ n <= k) ->
  py_space_unique_key d n = None.
Proof.
  intros n d Hex.
  unfold py_space_unique_key, d_items. cbv zeta.
  match goal with |- context [py_for d ?b (0%N, None)] => set (body := b) end.
  assert (Hbody : forall k v key var, body (k, v) (key, var) =
     if Nat.ltb k n then FNext (N.lor key (key_field k v), Some k) else FRaise).
  { intros k v key var. unfold body, net_find.
    destruct (Nat.ltb k n); reflexivity. }
  rewrite (key_loop_raise n body Hbody d 0%N None Hex). reflexivity.
Qed.

Print Assumptions py_space_unique_key_spec.
Print Assumptions py_space_unique_key_raises.
