(* DiagramCache.v -- cached attractor data is never stale: every cache field that
   is set carries the current tag of its node (Invariants.CacheOK), for every
   operation of the model including the skip operations. *)
From Coq Require Import List Bool Arith NArith Lia Permutation.
Import ListNotations.
From BB Require Import BN Brute SpaceFacts TrapFacts PercolateFacts Diagram Invariants DiagramStruct DiagramSem1.

Local Arguments percolate_b : simpl never.
Local Arguments expand_one : simpl never.
Local Arguments node_successors : simpl never.
Local Arguments ensure_node : simpl never.
Local Arguments ensure_edge : simpl never.
Local Arguments raise_depth : simpl never.
Local Arguments max_traps_b : simpl never.
Local Arguments min_traps_b : simpl never.
Local Arguments make_skip_node : simpl never.
Local Arguments upd_node : simpl never.
Local Arguments ensure_min_children : simpl never.

(* ================================================================== *)
(* 1. the tag of a node and what it depends on                         *)
(* ================================================================== *)

(* no attractor data is cached at node p *)
Definition cleared (d : sd) (p : nat) : Prop :=
  n_cands (get d p) = None /\ n_seeds (get d p) = None /\ n_sets (get d p) = None.

(* node j carries the same cached data in d' as in d *)
Definition same_cache (d d' : sd) (j : nat) : Prop :=
  n_cands (get d' j) = n_cands (get d j) /\ n_seeds (get d' j) = n_seeds (get d j) /\
  n_sets (get d' j) = n_sets (get d j).

Lemma first_motifs_out : forall d i,
  first_motifs d i = map (fun e => hd [] (e_motifs e)) (out_edges d i).
Proof. intros d i. reflexivity. Qed.

(* the tag depends on the expanded flag, the skip flag and the out-edges only *)
Lemma cur_tag_eq : forall d d' j,
  n_exp (get d' j) = n_exp (get d j) -> n_skip (get d' j) = n_skip (get d j) ->
  out_edges d' j = out_edges d j -> cur_tag d' j = cur_tag d j.
Proof.
  intros d d' j He Hs Ho. unfold cur_tag. rewrite !first_motifs_out, He, Hs, Ho. reflexivity.
Qed.

(* without out-edges the expanded flag does not matter *)
Lemma cur_tag_no_edges : forall d d' j,
  n_skip (get d' j) = n_skip (get d j) ->
  out_edges d' j = [] -> out_edges d j = [] -> cur_tag d' j = cur_tag d j.
Proof.
  intros d d' j Hs Ho' Ho. unfold cur_tag. rewrite !first_motifs_out, Hs, Ho, Ho'. simpl.
  destruct (n_exp (get d' j)); destruct (n_exp (get d j)); reflexivity.
Qed.

Lemma cleared_tag_ok : forall d j, cleared d j ->
  tag_ok d j (n_cands (get d j)) /\ tag_ok d j (n_seeds (get d j)) /\ tag_ok d j (n_sets (get d j)).
Proof. intros d j (H1 & H2 & H3). rewrite H1, H2, H3. simpl. auto. Qed.

(* the generic preservation argument: every node of d' is either cleared, or an
   old node with the same cached data and the same tag *)
Lemma CacheOK_transfer : forall d d',
  (forall j, j < size d' ->
     cleared d' j \/ (j < size d /\ same_cache d d' j /\ cur_tag d' j = cur_tag d j)) ->
  CacheOK d -> CacheOK d'.
Proof.
  intros d d' H Hc j Hj. destruct (H j Hj) as [Hcl|(Hlt & (S1 & S2 & S3) & Ht)].
  - apply cleared_tag_ok. exact Hcl.
  - destruct (Hc j Hlt) as (T1 & T2 & T3). rewrite S1, S2, S3. unfold tag_ok in *.
    rewrite Ht. auto.
Qed.

Lemma same_cache_mod_depth : forall d d' j,
  node_eq_mod_depth (get d j) (get d' j) -> same_cache d d' j.
Proof.
  intros d d' j (_ & _ & _ & _ & H5 & H6 & H7 & _). unfold same_cache. auto.
Qed.

Lemma cleared_mod_depth : forall d d' j,
  node_eq_mod_depth (get d j) (get d' j) -> cleared d j -> cleared d' j.
Proof.
  intros d d' j (_ & _ & _ & _ & H5 & H6 & H7 & _) (C1 & C2 & C3). unfold cleared.
  rewrite H5, H6, H7. auto.
Qed.

Lemma out_edges_upd_node : forall d i f j, out_edges (upd_node d i f) j = out_edges d j.
Proof. intros d i f j. unfold out_edges. rewrite sd_edges_upd_node. reflexivity. Qed.

(* ================================================================== *)
(* 2. node updates                                                     *)
(* ================================================================== *)

(* an update of node i that keeps the flags: all tags are unchanged *)
Lemma cur_tag_upd_keep : forall d i f j,
  (forall x, n_exp (f x) = n_exp x) -> (forall x, n_skip (f x) = n_skip x) ->
  cur_tag (upd_node d i f) j = cur_tag d j.
Proof.
  intros d i f j He Hs. apply cur_tag_eq.
  - destruct (get_upd_node_cases d i j f) as [Hg|(_ & _ & Hg)]; rewrite Hg; [reflexivity|apply He].
  - destruct (get_upd_node_cases d i j f) as [Hg|(_ & _ & Hg)]; rewrite Hg; [reflexivity|apply Hs].
  - apply out_edges_upd_node.
Qed.

Lemma cur_tag_upd_cache : forall d i f j, cache_setter f ->
  cur_tag (upd_node d i f) j = cur_tag d j.
Proof.
  intros d i f j Hf. apply cur_tag_upd_keep; intro x;
    [apply cache_setter_exp|apply cache_setter_skip]; exact Hf.
Qed.

Lemma cur_tag_upd_other : forall d i f j, j <> i -> cur_tag (upd_node d i f) j = cur_tag d j.
Proof.
  intros d i f j Hne. apply cur_tag_eq.
  - rewrite get_upd_node_neq by lia. reflexivity.
  - rewrite get_upd_node_neq by lia. reflexivity.
  - apply out_edges_upd_node.
Qed.

Lemma cleared_clear : forall d p, p < size d -> cleared (upd_node d p clear_attr) p.
Proof.
  intros d p Hp. unfold cleared. rewrite get_upd_node_eq by exact Hp. simpl. auto.
Qed.

Lemma CacheOK_clear : forall d p, CacheOK d -> CacheOK (upd_node d p clear_attr).
Proof.
  intros d p Hc. apply (CacheOK_transfer d); [|exact Hc].
  intros j Hj. rewrite size_upd_node in Hj.
  destruct (Nat.eq_dec j p) as [Heq|Hne].
  - subst j. left. apply cleared_clear. exact Hj.
  - right. split; [exact Hj|]. split.
    + unfold same_cache. rewrite get_upd_node_neq by lia. auto.
    + apply cur_tag_upd_other. exact Hne.
Qed.

(* a flag update of a cleared node *)
Lemma CacheOK_upd_cleared : forall d p f,
  (forall x, n_cands (f x) = n_cands x /\ n_seeds (f x) = n_seeds x /\ n_sets (f x) = n_sets x) ->
  cleared d p -> CacheOK d -> CacheOK (upd_node d p f).
Proof.
  intros d p f Hf Hcl Hc. apply (CacheOK_transfer d); [|exact Hc].
  intros j Hj. rewrite size_upd_node in Hj.
  destruct (Nat.eq_dec j p) as [Heq|Hne].
  - subst j. left. unfold cleared. rewrite get_upd_node_eq by exact Hj.
    destruct (Hf (get d p)) as (F1 & F2 & F3). destruct Hcl as (C1 & C2 & C3).
    rewrite F1, F2, F3. auto.
  - right. split; [exact Hj|]. split.
    + unfold same_cache. rewrite get_upd_node_neq by lia. auto.
    + apply cur_tag_upd_other. exact Hne.
Qed.

Lemma cleared_upd : forall d p i f,
  (forall x, n_cands (f x) = n_cands x /\ n_seeds (f x) = n_seeds x /\ n_sets (f x) = n_sets x) ->
  cleared d p -> cleared (upd_node d i f) p.
Proof.
  intros d p i f Hf (C1 & C2 & C3). unfold cleared.
  destruct (get_upd_node_cases d i p f) as [Hg|(_ & _ & Hg)]; rewrite Hg; [auto|].
  destruct (Hf (get d p)) as (F1 & F2 & F3). rewrite F1, F2, F3. auto.
Qed.

Lemma set_exp_keeps : forall b x,
  n_cands (set_exp x b) = n_cands x /\ n_seeds (set_exp x b) = n_seeds x /\
  n_sets (set_exp x b) = n_sets x.
Proof. intros b x. simpl. auto. Qed.

Lemma set_skip_keeps : forall b x,
  n_cands (set_skip x b) = n_cands x /\ n_seeds (set_skip x b) = n_seeds x /\
  n_sets (set_skip x b) = n_sets x.
Proof. intros b x. simpl. auto. Qed.

(* marking node c expanded: safe if it is expanded already, has no out-edges, or
   carries no cached data *)
Lemma CacheOK_mark : forall d c,
  n_exp (get d c) = true \/ out_edges d c = [] \/ cleared d c ->
  CacheOK d -> CacheOK (mark_expanded d c).
Proof.
  intros d c Hcase Hc. unfold mark_expanded.
  destruct Hcase as [He|[Ho|Hcl]].
  - apply (CacheOK_transfer d); [|exact Hc]. intros j Hj. rewrite size_upd_node in Hj.
    right. split; [exact Hj|]. split.
    + unfold same_cache.
      destruct (get_upd_node_cases d c j (fun y => set_exp y true)) as [Hg|(_ & _ & Hg)];
        rewrite Hg; simpl; auto.
    + apply cur_tag_eq.
      * destruct (get_upd_node_cases d c j (fun y => set_exp y true)) as [Hg|(Hcj & _ & Hg)];
          rewrite Hg; simpl; [reflexivity|]. subst j. symmetry. exact He.
      * destruct (get_upd_node_cases d c j (fun y => set_exp y true)) as [Hg|(_ & _ & Hg)];
          rewrite Hg; simpl; reflexivity.
      * apply out_edges_upd_node.
  - apply (CacheOK_transfer d); [|exact Hc]. intros j Hj. rewrite size_upd_node in Hj.
    right. split; [exact Hj|]. split.
    + unfold same_cache.
      destruct (get_upd_node_cases d c j (fun y => set_exp y true)) as [Hg|(_ & _ & Hg)];
        rewrite Hg; simpl; auto.
    + destruct (Nat.eq_dec j c) as [Heq|Hne].
      * subst j. apply cur_tag_no_edges.
        -- rewrite get_upd_node_eq by exact Hj. reflexivity.
        -- rewrite out_edges_upd_node. exact Ho.
        -- exact Ho.
      * apply cur_tag_upd_other. exact Hne.
  - apply CacheOK_upd_cleared; [apply set_exp_keeps|exact Hcl|exact Hc].
Qed.

(* ================================================================== *)
(* 3. compound operations on one cleared parent node p                 *)
(* ================================================================== *)

(* while node p receives its successors: p carries no cached data, every other
   unexpanded node is free of out-edges, and CacheOK holds throughout *)
Definition CI (N : net) (p : nat) (d : sd) : Prop :=
  NSE_inv N p d /\ CacheOK d /\ cleared d p.

Lemma CI_swf : forall N p d, CI N p d -> SWF N d.
Proof. intros N p d ((H & _) & _). exact H. Qed.

Lemma CI_p : forall N p d, CI N p d -> p < size d.
Proof. intros N p d ((_ & H & _) & _). exact H. Qed.

Lemma CI_start : forall N p d, SWF N d -> NoStubEdges d -> CacheOK d -> p < size d ->
  CI N p (upd_node d p clear_attr).
Proof.
  intros N p d Hswf Hn Hc Hp. split; [apply NSE_inv_start; assumption|].
  split; [apply CacheOK_clear; exact Hc|apply cleared_clear; exact Hp].
Qed.

(* a node created by ensure_node carries no cached data *)
Lemma ensure_node_new_cleared : forall N d parent m j,
  size d <= j -> j < size (fst (ensure_node N d parent m)) ->
  cleared (fst (ensure_node N d parent m)) j.
Proof.
  intros N d parent m j Hle Hlt. rewrite ensure_node_unfold in *.
  destruct (find_node d (percolate_b N m)) as [c|]; simpl in *.
  - rewrite size_link in Hlt. lia.
  - rewrite size_link, size_add_node in Hlt. assert (Hj : j = size d) by lia. subst j.
    pose proof (get_link (add_node d (fresh_node (percolate_b N m) parent)) parent (size d) m (size d))
      as Hg.
    eapply cleared_mod_depth; [exact Hg|].
    unfold cleared. rewrite get_add_node_new. simpl. auto.
Qed.

(* a new child of the cleared node p *)
Lemma CacheOK_child : forall N d p m, cleared d p -> p < size d -> CacheOK d ->
  CacheOK (fst (ensure_node N d (Some p) m)) /\ cleared (fst (ensure_node N d (Some p) m)) p.
Proof.
  intros N d p m Hcl Hp Hc. split.
  - apply (CacheOK_transfer d); [|exact Hc]. intros j Hj.
    destruct (lt_dec j (size d)) as [Hlt|Hge].
    + pose proof (ensure_node_old N d (Some p) m j Hlt) as Hold.
      destruct (Nat.eq_dec j p) as [Heq|Hne].
      * subst j. left. eapply cleared_mod_depth; [exact Hold|exact Hcl].
      * right. split; [exact Hlt|]. split; [apply same_cache_mod_depth; exact Hold|].
        destruct Hold as (_ & He & Hs & _).
        apply cur_tag_eq; [exact He|exact Hs|]. apply ensure_child_out_other. exact Hne.
    + left. apply ensure_node_new_cleared; [lia|exact Hj].
  - eapply cleared_mod_depth; [apply (ensure_node_old N d (Some p) m p Hp)|exact Hcl].
Qed.

Lemma CI_child : forall N p d m, CI N p d -> length m = nvars N ->
  CI N p (fst (ensure_node N d (Some p) m)).
Proof.
  intros N p d m (H1 & H2 & H3) Hm. split; [apply NSE_inv_child; assumption|].
  apply CacheOK_child; try assumption. apply H1.
Qed.

Lemma CI_mark : forall N p d m, CI N p d -> length m = nvars N -> min_trap N m ->
  CI N p (mark_expanded (fst (ensure_node N d (Some p) m)) (snd (ensure_node N d (Some p) m))).
Proof.
  intros N p d m H Hm Hmt. pose proof (CI_child N p d m H Hm) as (K1 & K2 & K3).
  split; [apply NSE_inv_mark; [apply H|exact Hm|exact Hmt]|]. split.
  - apply CacheOK_mark; [|exact K2].
    destruct (Nat.eq_dec (snd (ensure_node N d (Some p) m)) p) as [Heq|Hne].
    + right. right. rewrite Heq. exact K3.
    + destruct (n_exp (get (fst (ensure_node N d (Some p) m)) (snd (ensure_node N d (Some p) m))))
        eqn:Ee; [left; reflexivity|].
      right. left. destruct K1 as (_ & _ & K1). eapply NSE_out_empty; eassumption.
  - unfold mark_expanded. apply cleared_upd; [apply set_exp_keeps|exact K3].
Qed.

Lemma CI_edge : forall N p d c m, CI N p d -> c < size d -> length m = nvars N ->
  percolate_b N m = n_space (get d c) -> CI N p (ensure_edge d p c m).
Proof.
  intros N p d c m (H1 & H2 & H3) Hc Hm Hpm. split; [apply NSE_inv_edge; assumption|]. split.
  - apply (CacheOK_transfer d); [|exact H2]. intros j Hj. rewrite size_ensure_edge in Hj.
    pose proof (get_ensure_edge d p c m j) as Hold.
    destruct (Nat.eq_dec j p) as [Heq|Hne].
    + subst j. left. eapply cleared_mod_depth; [exact Hold|exact H3].
    + right. split; [exact Hj|]. split; [apply same_cache_mod_depth; exact Hold|].
      destruct Hold as (_ & He & Hs & _).
      apply cur_tag_eq; [exact He|exact Hs|]. apply ensure_edge_out_other. exact Hne.
  - eapply cleared_mod_depth; [apply (get_ensure_edge d p c m p)|exact H3].
Qed.

(* closing a compound operation: p is marked expanded (and possibly skipped) *)
Lemma CI_close : forall N p d, CI N p d ->
  SWF N (mark_expanded d p) /\ NoStubEdges (mark_expanded d p) /\ CacheOK (mark_expanded d p).
Proof.
  intros N p d (H1 & H2 & H3). destruct (NSE_inv_close N p d H1) as [K1 K2].
  split; [exact K1|]. split; [exact K2|].
  apply CacheOK_mark; [right; right; exact H3|exact H2].
Qed.

Lemma CI_close_skip : forall N p d, CI N p d ->
  SWF N (upd_node (mark_expanded d p) p (fun y => set_skip y true)) /\
  NoStubEdges (upd_node (mark_expanded d p) p (fun y => set_skip y true)) /\
  CacheOK (upd_node (mark_expanded d p) p (fun y => set_skip y true)).
Proof.
  intros N p d (H1 & H2 & H3). destruct (NSE_inv_close_skip N p d H1) as [K1 K2].
  split; [exact K1|]. split; [exact K2|].
  apply CacheOK_upd_cleared; [apply set_skip_keeps| |].
  - unfold mark_expanded. apply cleared_upd; [apply set_exp_keeps|exact H3].
  - apply CacheOK_mark; [right; right; exact H3|exact H2].
Qed.

Lemma CI_min_children : forall N p d mins, CI N p d ->
  (forall m, In m mins -> min_trap N m) -> CI N p (ensure_min_children N d p mins).
Proof.
  intros N p d mins H Hmin.
  apply (C_ensure_min_children N p (CI N p) (fun m => length m = nvars N)).
  - intros d0 m H0 Hm Hmt. apply CI_mark; assumption.
  - exact H.
  - intros m Hin. split; [apply min_trap_length|]; apply Hmin; exact Hin.
Qed.

(* the invariant carried by whole operations *)
Definition SNC (N : net) (d : sd) : Prop := SWF N d /\ NoStubEdges d /\ CacheOK d.

(* ================================================================== *)
(* 4. expand_one                                                       *)
(* ================================================================== *)

Lemma expand_one_SNC : forall N cfg d i, SNC N d -> SNC N (fst (expand_one N cfg d i)).
Proof.
  intros N cfg d i (Hswf & Hn & Hc).
  destruct (lt_dec i (size d)) as [Hi|Hge].
  2:{ rewrite expand_one_beyond by lia. simpl. exact (conj Hswf (conj Hn Hc)). }
  destruct (expand_one N cfg d i) as [d' r] eqn:E. simpl.
  apply expand_one_cases in E.
  destruct E as [(_ & Hd & _)|[(_ & _ & Hd & _)|[(_ & _ & _ & Hd & _)|(_ & Ef & _ & Hd & _)]]];
    subst d'.
  - exact (conj Hswf (conj Hn Hc)).
  - apply (CI_close N i). apply CI_start; assumption.
  - split; [apply upd_flag_SWF; [constructor|exact Hswf]|].
    split; [apply NoStubEdges_upd; [constructor|exact Hn]|]. apply CacheOK_clear. exact Hc.
  - apply (CI_close N i).
    apply (C_ensure_all N i (CI N i) (fun m => length m = nvars N)).
    + intros d0 m H0 Hm. apply CI_child; assumption.
    + apply CI_start; assumption.
    + intros m Hin. apply In_firstn_in in Hin. apply (eo_all_In N d i m Hswf Hi Hin).
Qed.

Theorem expand_one_CacheOK : forall N cfg d i, SWF N d -> NoStubEdges d -> CacheOK d ->
  CacheOK (fst (expand_one N cfg d i)).
Proof.
  intros N cfg d i Hswf Hn Hc. apply (expand_one_SNC N cfg d i). exact (conj Hswf (conj Hn Hc)).
Qed.

(* ================================================================== *)
(* 5. the skip operations                                              *)
(* ================================================================== *)

Lemma make_skip_node_SNC : forall N d i all_min, SNC N d -> i < size d ->
  (forall m, In m all_min -> min_trap N m) -> SNC N (make_skip_node N d i all_min).
Proof.
  intros N d i all_min (Hswf & Hn & Hc) Hi Hmin. unfold make_skip_node.
  destruct (n_exp (get d i)); [exact (conj Hswf (conj Hn Hc))|].
  apply (CI_close_skip N i). apply CI_min_children.
  - apply CI_start; assumption.
  - intros m Hin. apply filter_In in Hin. apply Hmin. apply Hin.
Qed.

Lemma skip_to_minimal_SNC : forall N d i tape, SNC N d -> i < size d ->
  SNC N (fst (skip_to_minimal_t N d i tape)).
Proof.
  intros N d i tape (Hswf & Hn & Hc) Hi. unfold skip_to_minimal_t.
  destruct (n_exp (get d i)); [exact (conj Hswf (conj Hn Hc))|].
  destruct (negb (perm_of tape (min_traps_b N (n_space (get d i))))) eqn:Ep;
    [exact (conj Hswf (conj Hn Hc))|].
  assert (Hmin : forall m, In m tape -> min_trap N m).
  { intros m Hin. eapply (tape_min_traps N (n_space (get d i)) tape); [|exact Ep|exact Hin].
    apply (swf_len N d Hswf). apply get_In. exact Hi. }
  pose proof (CI_start N i d Hswf Hn Hc Hi) as H0.
  assert (Hcommon :
    SNC N (upd_node (mark_expanded (ensure_min_children N (upd_node d i clear_attr) i tape) i) i
                    (fun y => set_skip y true))).
  { apply (CI_close_skip N i). apply CI_min_children; assumption. }
  destruct tape as [|m [|m2 r]]; simpl; try exact Hcommon.
  destruct (eqb_space m (n_space (get d i))); simpl; [|exact Hcommon].
  apply (CI_close N i). exact H0.
Qed.

Lemma skip_remaining_SNC : forall N d tape, SNC N d -> SNC N (fst (skip_remaining N d tape)).
Proof.
  intros N d tape H. apply (S_skip_remaining N (SNC N)); [| | |exact H].
  - intros d0 (H0 & _). exact H0.
  - intros d0 m (H1 & H2 & H3) Hmt. pose proof (min_trap_length N m Hmt) as Hm.
    destruct (ensure_root_spec N d0 m H1 Hm) as (S1 & S2 & _ & _).
    assert (Hn1 : NoStubEdges (fst (ensure_node N d0 None m))).
    { intros e Hin. rewrite sd_edges_ensure_root in Hin.
      destruct S2 as (_ & _ & S3 & _). apply S3; [apply (swf_edges N d0 H1 e Hin)|].
      apply H2. exact Hin. }
    assert (Hc1 : CacheOK (fst (ensure_node N d0 None m))).
    { apply (CacheOK_transfer d0); [|exact H3]. intros j Hj.
      destruct (lt_dec j (size d0)) as [Hlt|Hge].
      - right. pose proof (ensure_node_old N d0 None m j Hlt) as Hold.
        split; [exact Hlt|]. split; [apply same_cache_mod_depth; exact Hold|].
        destruct Hold as (_ & He & Hs & _). apply cur_tag_eq; [exact He|exact Hs|].
        unfold out_edges. rewrite sd_edges_ensure_root. reflexivity.
      - left. apply ensure_node_new_cleared; [lia|exact Hj]. }
    split; [unfold mark_expanded; apply upd_flag_SWF; [constructor|exact S1]|].
    split; [unfold mark_expanded; apply NoStubEdges_upd; [constructor|exact Hn1]|].
    apply CacheOK_mark; [|exact Hc1].
    destruct (n_exp (get (fst (ensure_node N d0 None m)) (snd (ensure_node N d0 None m)))) eqn:Ee;
      [left; reflexivity|].
    right. left. apply NoStub_out_empty; assumption.
  - intros d0 i traps (H1 & H2 & H3) Hi _ Hok Hex.
    apply (CI_close_skip N i).
    apply (C_skip_edges N i (CI N i)).
    + intros d1 c m H0 Hc Hm Hpm _ _. apply CI_edge; assumption.
    + apply CI_start; assumption.
    + eapply traps_ok_extends; [|exact Hok]. apply upd_flag_extends. constructor.
    + eapply traps_exp_extends; [|exact Hok|exact Hex]. apply upd_flag_extends. constructor.
Qed.

(* ================================================================== *)
(* 6. the attractor queries, reclaim, init                             *)
(* ================================================================== *)

(* writing a cache field of node i with nothing or with the current tag *)
Lemma CacheOK_set : forall d i f,
  cache_setter f -> i < size d ->
  (tag_ok d i (n_cands (f (get d i))) /\ tag_ok d i (n_seeds (f (get d i))) /\
   tag_ok d i (n_sets (f (get d i)))) ->
  CacheOK d -> CacheOK (upd_node d i f).
Proof.
  intros d i f Hf Hi Hnew Hc j Hj. rewrite size_upd_node in Hj.
  unfold tag_ok. rewrite (cur_tag_upd_cache d i f j Hf).
  destruct (Nat.eq_dec j i) as [Heq|Hne].
  - subst j. rewrite get_upd_node_eq by exact Hi. exact Hnew.
  - rewrite get_upd_node_neq by lia. apply Hc. exact Hj.
Qed.

Lemma CacheOK_set_cands : forall d i c, i < size d -> tag_ok d i c -> CacheOK d ->
  CacheOK (upd_node d i (fun y => set_cands y c)).
Proof.
  intros d i c Hi Ht Hc. apply CacheOK_set; [constructor|exact Hi| |exact Hc].
  simpl. destruct (Hc i Hi) as (_ & T2 & T3). auto.
Qed.

Lemma CacheOK_set_seeds : forall d i c, i < size d -> tag_ok d i c -> CacheOK d ->
  CacheOK (upd_node d i (fun y => set_seeds y c)).
Proof.
  intros d i c Hi Ht Hc. apply CacheOK_set; [constructor|exact Hi| |exact Hc].
  simpl. destruct (Hc i Hi) as (T1 & _ & T3). auto.
Qed.

Lemma CacheOK_set_sets : forall d i c, i < size d -> tag_ok d i c -> CacheOK d ->
  CacheOK (upd_node d i (fun y => set_sets y c)).
Proof.
  intros d i c Hi Ht Hc. apply CacheOK_set; [constructor|exact Hi| |exact Hc].
  simpl. destruct (Hc i Hi) as (T1 & T2 & _). auto.
Qed.

Lemma tag_ok_cur : forall d i, tag_ok d i (Some (cur_tag d i)).
Proof. intros d i. reflexivity. Qed.

Lemma tag_ok_cur_upd : forall d i f j, cache_setter f ->
  tag_ok (upd_node d i f) j (Some (cur_tag d j)).
Proof. intros d i f j Hf. simpl. symmetry. apply cur_tag_upd_cache. exact Hf. Qed.

Lemma size_q_cands : forall d i o, size (fst (q_cands d i o)) = size d.
Proof.
  intros d i o. unfold q_cands.
  destruct (n_cands (get d i)); [reflexivity|].
  destruct (n_seeds (get d i)); [reflexivity|].
  destruct o as [|k b]; [reflexivity|].
  destruct (_ || _); simpl; rewrite ?size_upd_node; reflexivity.
Qed.

Theorem q_cands_CacheOK : forall d i o, CacheOK d -> i < size d -> CacheOK (fst (q_cands d i o)).
Proof.
  intros d i o Hc Hi. unfold q_cands.
  destruct (n_cands (get d i)); [exact Hc|].
  destruct (n_seeds (get d i)); [exact Hc|].
  destruct o as [|k b]; [exact Hc|].
  assert (H1 : CacheOK (upd_node d i (fun y => set_cands y (Some (cur_tag d i))))).
  { apply CacheOK_set_cands; [exact Hi|apply tag_ok_cur|exact Hc]. }
  destruct (_ || _); simpl; [|exact H1].
  apply CacheOK_set_seeds; [rewrite size_upd_node; exact Hi| |exact H1].
  apply tag_ok_cur_upd. constructor.
Qed.

Lemma size_q_seeds : forall d i fb oc os, size (fst (q_seeds d i fb oc os)) = size d.
Proof.
  intros d i fb oc os. unfold q_seeds.
  destruct (n_seeds (get d i)); [reflexivity|].
  pose proof (size_q_cands d i oc) as Hs.
  destruct (q_cands d i oc) as [d1 r]. simpl in Hs.
  destruct r;
    try (destruct (n_seeds (get d1 i)); [exact Hs|];
         destruct os as [|k0 [|]]; simpl; rewrite ?size_upd_node; exact Hs).
  destruct fb; simpl; rewrite ?size_upd_node; exact Hs.
Qed.

Theorem q_seeds_CacheOK : forall d i fb oc os, CacheOK d -> i < size d ->
  CacheOK (fst (q_seeds d i fb oc os)).
Proof.
  intros d i fb oc os Hc Hi. unfold q_seeds.
  destruct (n_seeds (get d i)); [exact Hc|].
  pose proof (q_cands_CacheOK d i oc Hc Hi) as Hc1.
  pose proof (size_q_cands d i oc) as Hs.
  destruct (q_cands d i oc) as [d1 r]. simpl in Hc1, Hs.
  assert (Hi1 : i < size d1) by lia.
  assert (H2 : CacheOK (upd_node d1 i (fun y => set_seeds y (Some (cur_tag d1 i))))).
  { apply CacheOK_set_seeds; [exact Hi1|apply tag_ok_cur|exact Hc1]. }
  assert (H3 : forall c, c = None \/ c = Some (cur_tag d1 i) ->
            CacheOK (upd_node (upd_node d1 i (fun y => set_seeds y (Some (cur_tag d1 i)))) i
                              (fun y => set_sets y c))).
  { intros c Hcase. apply CacheOK_set_sets; [rewrite size_upd_node; exact Hi1| |exact H2].
    destruct Hcase as [Hn|Hs']; subst c; [exact I|]. apply tag_ok_cur_upd. constructor. }
  destruct r;
    try (destruct (n_seeds (get d1 i)); [exact Hc1|];
         destruct os as [|k0 [|]]; simpl; apply H3; auto).
  destruct fb; simpl; [|exact Hc1]. apply H3. auto.
Qed.

Theorem q_sets_CacheOK : forall d i oc os, CacheOK d -> i < size d ->
  CacheOK (fst (q_sets d i oc os)).
Proof.
  intros d i oc os Hc Hi. unfold q_sets.
  destruct (n_sets (get d i)); [exact Hc|].
  pose proof (q_seeds_CacheOK d i false oc os Hc Hi) as Hc1.
  pose proof (size_q_seeds d i false oc os) as Hs.
  destruct (q_seeds d i false oc os) as [d1 r]. simpl in Hc1, Hs.
  assert (Hi1 : i < size d1) by lia.
  destruct r; simpl; try exact Hc1;
    (apply CacheOK_set_sets; [exact Hi1|apply tag_ok_cur|exact Hc1]).
Qed.

Theorem reclaim_CacheOK : forall d, CacheOK d -> CacheOK (reclaim d).
Proof.
  intros d Hc j Hj. rewrite size_reclaim in Hj.
  assert (Ht : cur_tag (reclaim d) j = cur_tag d j).
  { apply cur_tag_eq.
    - rewrite get_reclaim. destruct (n_seeds (get d j)); reflexivity.
    - rewrite get_reclaim. destruct (n_seeds (get d j)); reflexivity.
    - reflexivity. }
  unfold tag_ok. rewrite Ht, get_reclaim. destruct (Hc j Hj) as (T1 & T2 & T3).
  destruct (n_seeds (get d j)) eqn:Es; simpl.
  - rewrite Es. split; [exact I|]. split; [exact T2|exact T3].
  - rewrite Es. split; [exact T1|]. split; [exact I|exact T3].
Qed.

Theorem init_CacheOK : forall N, CacheOK (init N).
Proof.
  intros N j Hj. apply cleared_tag_ok. unfold init in *.
  apply ensure_node_new_cleared; [unfold size; simpl; lia|exact Hj].
Qed.

(* ================================================================== *)
(* 7. every operation                                                  *)
(* ================================================================== *)

Lemma step_SNC : forall fuel N cfg d o, SNC N d -> SNC N (fst (step fuel N cfg d o)).
Proof.
  intros fuel N cfg d o Hq.
  assert (Qswf : forall d0, SNC N d0 -> SWF N d0) by (intros d0 (H & _); exact H).
  assert (Qexp : forall d0 i, SNC N d0 -> SNC N (fst (expand_one N cfg d0 i)))
    by (intros d0 i H; apply expand_one_SNC; exact H).
  assert (Hs1 : SWF N (fst (step fuel N cfg d o))) by (apply step_SWF; apply Hq).
  assert (Hn1 : NoStubEdges (fst (step fuel N cfg d o)))
    by (apply step_NoStubEdges; apply Hq).
  split; [exact Hs1|]. split; [exact Hn1|]. clear Hs1 Hn1.
  destruct o; unfold step.
  - destruct (Nat.ltb i (size d)); [|apply Hq].
    pose proof (B_node_successors N cfg (SNC N) Qexp d i Hq) as Hq1.
    destruct (node_successors N cfg d i) as [[d1 r] succ]. apply Hq1.
  - destruct (valid_start d start); [|apply Hq]. unfold expand_bfs.
    apply (B_bfs_loop N cfg (SNC N) Qexp). exact Hq.
  - destruct (valid_start d start); [|apply Hq]. unfold expand_dfs.
    apply (B_dfs_loop N cfg (SNC N) Qexp). exact Hq.
  - destruct (valid_start d start) eqn:Ev; [|apply Hq].
    apply (B_expand_min N cfg (SNC N) Qswf Qexp); try assumption.
    intros S HS Hp Hsk d0 x s remaining Hq0 Hx He _ _.
    apply make_skip_node_SNC; [exact Hq0| |].
    + apply (has_edge_valid N d0 x s (Qswf d0 Hq0) He).
    + intros m Hin. eapply (tape_min_traps N S tape); eauto.
  - unfold expand_to_target. apply (B_target_loop N cfg (SNC N) Qexp). exact Hq.
  - destruct (Nat.ltb i (size d)) eqn:Ei; [|apply Hq].
    apply skip_to_minimal_SNC; [exact Hq|apply Nat.ltb_lt; exact Ei].
  - apply skip_remaining_SNC. exact Hq.
  - simpl. apply reclaim_CacheOK. apply Hq.
  - apply Hq.
  - destruct (Nat.ltb i (size d)) eqn:Ei; [|apply Hq].
    apply q_cands_CacheOK; [apply Hq|apply Nat.ltb_lt; exact Ei].
  - destruct (Nat.ltb i (size d)) eqn:Ei; [|apply Hq].
    apply q_seeds_CacheOK; [apply Hq|apply Nat.ltb_lt; exact Ei].
  - destruct (Nat.ltb i (size d)) eqn:Ei; [|apply Hq].
    apply q_sets_CacheOK; [apply Hq|apply Nat.ltb_lt; exact Ei].
Qed.

(* EdgeStrict is not needed: the argument never looks at the spaces of the nodes *)
Theorem step_CacheOK : forall fuel N cfg d o, SWF N d -> NoStubEdges d -> EdgeStrict d -> CacheOK d ->
  CacheOK (fst (step fuel N cfg d o)).
Proof.
  intros fuel N cfg d o Hswf Hn _ Hc.
  apply (step_SNC fuel N cfg d o). exact (conj Hswf (conj Hn Hc)).
Qed.

Theorem init_SNC : forall N, SNC N (init N).
Proof.
  intro N. split; [apply init_SWF|]. split; [apply init_NoStubEdges|apply init_CacheOK].
Qed.

Lemma run_SNC_from : forall fuel N cfg h d0 d r,
  SNC N d0 -> In (d, r) (run fuel N cfg d0 h) -> SNC N d.
Proof.
  intros fuel N cfg h. induction h as [|o h IH]; intros d0 d r H0 Hin; simpl in Hin;
    [contradiction|].
  pose proof (step_SNC fuel N cfg d0 o H0) as H1.
  destruct (step fuel N cfg d0 o) as [d1 x]. simpl in H1.
  destruct Hin as [Heq|Hin].
  - injection Heq as Hd Hr. subst d1. exact H1.
  - apply (IH d1 d r H1 Hin).
Qed.

(* every diagram of a run satisfies NoStubEdges as well *)
Theorem run_NoStubEdges : forall fuel N cfg h d r,
  In (d, r) (run fuel N cfg (init N) h) -> NoStubEdges d.
Proof.
  intros fuel N cfg h d r Hin.
  apply (run_SNC_from fuel N cfg h (init N) d r (init_SNC N) Hin).
Qed.

Theorem run_CacheOK : forall fuel N cfg h d r, In (d, r) (run fuel N cfg (init N) h) -> CacheOK d.
Proof.
  intros fuel N cfg h d r Hin.
  apply (run_SNC_from fuel N cfg h (init N) d r (init_SNC N) Hin).
Qed.

(* ================================================================== *)
(* 8. the invariant is not vacuous                                     *)
(* ================================================================== *)

(* an unexpanded node whose seeds were computed against one successor motif *)
Definition stale_sd : sd :=
  {| sd_nodes := [ {| n_space := []; n_depth := 0; n_exp := false; n_skip := false;
                      n_parent := None; n_cands := None;
                      n_seeds := Some {| t_motifs := [[]]; t_skip := false |};
                      n_sets := None |} ];
     sd_edges := [] |}.

Lemma stale_example : exists d i, i < size d /\ n_seeds (get d i) <> None /\ ~ tag_ok d i (n_seeds (get d i)).
Proof.
  exists stale_sd, 0. split; [unfold size; simpl; lia|]. split.
  - simpl. discriminate.
  - simpl. unfold cur_tag. simpl. intro H. discriminate H.
Qed.

Lemma stale_not_CacheOK : ~ CacheOK stale_sd.
Proof.
  intro H. destruct (H 0) as (_ & T & _); [unfold size; simpl; lia|].
  simpl in T. unfold cur_tag in T. simpl in T. discriminate T.
Qed.

Print Assumptions step_CacheOK.
Print Assumptions run_CacheOK.
