(* PySrcSuccCtlFacts.v
   succession_control AS WRITTEN IN THE SOURCE (PySrcSuccCtl.v: its straight-line body pinned to a reference text, calling the GENERATED
   successions_to_target of PySrcSucc.v and the GENERATED drivers_of_succession of PySrcControl.v) is the model's Control.succession_control_ff on the
   diagram left by expand_to_target, filtered by successful_only -- and therefore sound after ANY history (C06 for the source text). *)
(* RESULT.  Both theorems of the spec are proved exactly as stated.  py_succession_control_spec: the generated successions_to_target is
   successions_ff on the diagram left by expand_to_target (PySrcSuccFacts); every space of every such succession has length nvars N (reduced
   motifs of edges of a well-formed diagram: successions_len), so the generated drivers_of_succession never fails and is the model's
   (PySrcControlFacts); the loop over the successions is a filter of a map (py_sc_loop_spec); `not any(not c ...)` is `all(c ...)`
   (successful_flag).  py_succession_control_after_any_history_sound: with no size limit expand_to_target has no `false` exit
   (target_loop_None_result), so a returned value means RBool true and ControlFacts6.control_after_any_history_sound applies. *)
From Coq Require Import List Bool Arith Lia.
Import ListNotations.
From BB Require Import BN Brute SpaceFacts TrapFacts PercolateFacts Diagram Invariants DiagramStruct DiagramSem1 Blocks Control ControlFacts ControlFacts2
  ControlFacts3 ControlFacts4 ControlFacts5 SkipSem ControlFacts6
  PyLib PyLibSd PyLibCore PyLibSd2 PyLibControl PySrcControl PySrcControlFacts PyLibSucc PySrcSdBase PySrcSdTarget PySrcSdTargetFacts PySrcSucc PySrcSuccFacts PySrcSuccCtl.

Definition forb_list (forb : option (list nat)) : list nat := match forb with Some l => l | None => [] end.

Local Arguments percolate_b : simpl never.
Local Arguments expand_to_target : simpl never.
Local Arguments py_successions_to_target : simpl never.
Local Arguments py_drivers_of_succession : simpl never.
Local Arguments drivers_of_succession : simpl never.
Local Arguments node_successors : simpl never.
Local Arguments paths : simpl never.
Local Arguments product : simpl never.

(* ================================================================== *)
(* 1. small facts                                                      *)
(* ================================================================== *)

(* not any(not c for c in control) = all(c for c in control) *)
Lemma successful_flag : forall ctl : list (list space),
  negb (existsb (fun c => match c with [] => true | _ => false end) ctl) =
  forallb (fun c => match c with [] => false | _ => true end) ctl.
Proof.
  induction ctl as [|c ctl IH]; [reflexivity|]. simpl. rewrite negb_orb, IH.
  destruct c; reflexivity.
Qed.

(* every space of every succession read off a well-formed diagram has the length of the network *)
Lemma successions_len : forall N d target succ, SWF N d -> EdgeStrict d ->
  In succ (successions d target) -> forall ts, In ts succ -> length ts = nvars N.
Proof.
  intros N d target succ Hswf Hes Hin ts Hts. rewrite successions_unfold in Hin.
  assert (Hres : In succ (sres d target) -> length ts = nvars N).
  { intro H. unfold sres in H. apply in_flat_map in H. destruct H as [s [_ Hp]].
    unfold piece in Hp. destruct (existsb (reaches_lava d target) (predecessors d s)); [|destruct Hp].
    destruct (Nat.eqb s 0) eqn:Es; [destruct Hp|]. apply Nat.eqb_neq in Es.
    apply in_flat_map in Hp. destruct Hp as [ml [Hml Hsucc]].
    destruct (paths_good N d s ml succ Hswf Hes Es Hml Hsucc) as [_ Hall].
    rewrite Forall_forall in Hall. apply Hall. exact Hts. }
  destruct (sres d target) as [|x l] eqn:E.
  - destruct (ends d target); [destruct Hin|]. destruct Hin as [H|[]]. subst succ. destruct Hts.
  - apply Hres. exact Hin.
Qed.

Lemma successions_ff_len : forall N d target ff succ, SWF N d -> EdgeStrict d ->
  In succ (successions_ff d target ff) -> forall ts, In ts succ -> length ts = nvars N.
Proof.
  intros N d target ff succ Hswf Hes Hin. apply successions_ff_incl in Hin.
  apply (successions_len N d target succ Hswf Hes Hin).
Qed.

(* ================================================================== *)
(* 2. the loop over the successions                                    *)
(* ================================================================== *)

Definition model_iv (N : net) (strat : bool) (maxd : option nat) (forbidden : list nat) (succ : list space)
  : list space * list (list space) * bool :=
  let ctl := drivers_of_succession N succ strat (top_space (nvars N)) maxd forbidden in
  (succ, ctl, forallb (fun c => match c with [] => false | _ => true end) ctl).

Lemma py_sc_loop_spec : forall N strat maxd forb so succs,
  (forall s, In s succs -> forall ts, In ts s -> length ts = nvars N) ->
  py_sc_loop N strat maxd forb so succs =
  Some (filter (fun iv => negb so || snd iv) (map (model_iv N strat maxd (forb_list forb)) succs)).
Proof.
  intros N strat maxd forb so succs. induction succs as [|s r IH]; intro Hlen; [reflexivity|].
  cbn [py_sc_loop map filter].
  rewrite (py_drivers_of_succession_spec N s strat maxd forb (Hlen s (or_introl eq_refl))).
  fold (forb_list forb).
  rewrite IH by (intros s0 H0; apply Hlen; right; exact H0).
  unfold py_intervention, model_iv. cbn [option_map snd]. rewrite successful_flag.
  destruct (negb so || forallb (fun c : list space => match c with [] => false | _ :: _ => true end)
              (drivers_of_succession N s strat (top_space (nvars N)) maxd (forb_list forb))); reflexivity.
Qed.

(* ================================================================== *)
(* 3. the first theorem                                                *)
(* ================================================================== *)

Theorem py_succession_control_spec : forall fuel N cfg d target strat maxd forb so ff, succ_inv N d -> length target = nvars N -> 0 < count_fixed target ->
  let '(d1, r) := expand_to_target fuel N cfg d target None in
  py_succession_control fuel N cfg d target strat maxd forb so ff =
  match r with
  | RRaised _ | RFuel => SRaise d1 r
  | _ => SRet d1 (filter (fun iv => negb so || snd iv) (succession_control_ff N d1 target strat maxd (forb_list forb) ff))
  end.
Proof.
  intros fuel N cfg d target strat maxd forb so ff Hinv Hlen Hpos.
  pose proof (py_successions_to_target_spec fuel N cfg d target ff Hinv Hlen Hpos) as Hspec.
  pose proof (expand_to_target_succ_inv fuel N cfg d target None Hinv) as Hinv1.
  destruct (expand_to_target fuel N cfg d target None) as [d1 r] eqn:E. cbn [fst] in Hinv1.
  destruct Hinv1 as (Hswf1 & _ & Hes1 & _).
  unfold py_succession_control. rewrite Hspec.
  assert (Hloop : py_sc_loop N strat maxd forb so (successions_ff d1 target ff) =
                  Some (filter (fun iv => negb so || snd iv) (succession_control_ff N d1 target strat maxd (forb_list forb) ff))).
  { apply py_sc_loop_spec. intros s Hs. apply (successions_ff_len N d1 target ff s Hswf1 Hes1 Hs). }
  destruct r; try reflexivity; rewrite Hloop; reflexivity.
Qed.

(* ================================================================== *)
(* 4. without a size limit expand_to_target has no `false` exit        *)
(* ================================================================== *)

Lemma target_level_None_result : forall N cfg target cur d seen next d1 r seen1 next1,
  target_level N cfg target None d seen next cur = (d1, r, seen1, next1) -> r = RUnit \/ r = RRaised ErrMotifLimit.
Proof.
  intros N cfg target cur. induction cur as [|x cur IH]; intros d seen next d1 r seen1 next1 H.
  - simpl in H. injection H as _ Hr _ _. subst r. left. reflexivity.
  - rewrite ControlFacts2.target_level_cons in H. destruct (tcond (n_space (get d x)) target); [|eapply IH; eauto].
    destruct (node_successors N cfg d x) as [[d2 r2] succ] eqn:En.
    destruct (ControlFacts2.node_successors_result N cfg d x d2 r2 succ En) as [(Hr & _)|Hr]; subst r2.
    + cbv beta iota zeta in H. exact (IH _ _ _ _ _ _ _ H).
    + injection H as _ Hr _ _. subst r. right. reflexivity.
Qed.

Lemma target_loop_None_result : forall N cfg target fuel d seen cur d1 r,
  target_loop fuel N cfg target None d seen cur = (d1, r) -> r = RBool true \/ r = RFuel \/ r = RRaised ErrMotifLimit.
Proof.
  intros N cfg target fuel. induction fuel as [|f IH]; intros d seen cur d1 r H.
  - simpl in H. injection H as _ Hr. subst r. right. left. reflexivity.
  - cbn [target_loop] in H. destruct cur as [|x cur].
    + injection H as _ Hr. subst r. left. reflexivity.
    + destruct (target_level N cfg target None d seen [] (x :: cur)) as [[[d2 r2] seen2] next2] eqn:El.
      destruct (target_level_None_result _ _ _ _ _ _ _ _ _ _ _ El) as [Hr|Hr]; subst r2.
      * eapply IH; eauto.
      * injection H as _ Hr. subst r. right. right. reflexivity.
Qed.

Lemma expand_to_target_None_result : forall fuel N cfg d target d1 r,
  expand_to_target fuel N cfg d target None = (d1, r) -> r = RBool true \/ r = RFuel \/ r = RRaised ErrMotifLimit.
Proof.
  intros fuel N cfg d target d1 r H. unfold expand_to_target in H.
  apply (target_loop_None_result N cfg target fuel d [0] [0] d1 r H).
Qed.

(* ================================================================== *)
(* 5. the second theorem                                               *)
(* ================================================================== *)

(* C06 for the source text: whatever happened to the diagram before (any history of operations of the model's API, which is tied to the code operation by
   operation), every intervention that the generated succession_control reports as successful is sound *)
Theorem py_succession_control_after_any_history_sound : forall fuel N cfg h d r target d' l strat maxd forb so ff succ ctl,
  1 <= max_motifs cfg -> length target = nvars N -> 0 < count_fixed target ->
  In (d, r) (run fuel N cfg (init N) h) ->
  py_succession_control fuel N cfg d target strat maxd forb so ff = SRet d' l ->
  In (succ, ctl, true) l ->
  let spaces := chain N succ (top_space (nvars N)) in
  length ctl = length succ /\
  (forall i, i < length succ ->
     forall drv, In drv (nth i ctl []) ->
       subspace (percolate_b N (merge drv (nth i spaces []))) (nth i succ []) = true /\
       forced (override N drv) (nth i spaces []) (nth i succ [])) /\
  intersect (last spaces []) target <> None /\
  (forall M, min_trap N M -> subspace M (last spaces []) = true -> subspace M target = true).
Proof.
  intros fuel N cfg h d r target d' l strat maxd forb so ff succ ctl Hmm Hlen Hpos Hrun Hpy Hin.
  destruct (run_AnyInv_Anch fuel N cfg h d r Hmm Hrun) as [Hp Ha].
  assert (Hinv : succ_inv N d).
  { destruct Hp as (H1 & H2 & H3 & _ & _ & _ & H4). split; [exact H1|]. split; [exact H2|]. split; [exact H3|exact H4]. }
  pose proof (py_succession_control_spec fuel N cfg d target strat maxd forb so ff Hinv Hlen Hpos) as Hspec.
  destruct (expand_to_target fuel N cfg d target None) as [d1 r1] eqn:E.
  rewrite Hspec in Hpy.
  destruct (expand_to_target_None_result fuel N cfg d target d1 r1 E) as [Hr|[Hr|Hr]]; subst r1; try discriminate Hpy.
  injection Hpy as Hd Hl. subst d' l.
  apply filter_In in Hin. destruct Hin as [Hin _].
  exact (control_after_any_history_sound fuel N cfg h d r target d1 strat maxd (forb_list forb) ff succ ctl Hmm Hlen Hrun E Hin).
Qed.

Print Assumptions py_succession_control_spec.
Print Assumptions py_succession_control_after_any_history_sound.
