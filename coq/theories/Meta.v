(* Meta.v -- representation-independence vocabulary: extensional equality of
   networks, polarity flips, disjoint unions, input restriction.
   Definitions only; the theorems live in MetaFacts.v. *)
From Coq Require Import List Bool Arith.
Import ListNotations.
From BB Require Import BN Brute.

(* extensional equality of networks: same length, same update functions on well-formed states *)
Definition net_equiv (N M : net) : Prop :=
  nvars N = nvars M /\ forall i s, length s = nvars N -> upd N i s = upd M i s.

(* flipping the polarity of the variables marked in `fl` (a list of booleans of length n) *)
Definition flip_state (fl : list bool) (s : state) : state :=
  map (fun p => xorb (fst p) (snd p)) (combine fl s).
Definition flip_space (fl : list bool) (S : space) : space :=
  map (fun p => match snd p with Some v => Some (xorb (fst p) v) | None => None end) (combine fl S).
Definition flip_net (fl : list bool) (N : net) : net :=
  map (fun p => fun s => xorb (fst p) (snd p (flip_state fl s))) (combine fl N).

(* disjoint union: the variables of N first, then those of M *)
Definition union_net (N M : net) : net :=
  map (fun f => fun s => f (firstn (nvars N) s)) N ++ map (fun g => fun s => g (skipn (nvars N) s)) M.

(* fixing variables to constants (input restriction): variables fixed by v get constant update functions *)
Fixpoint fix_net (N : net) (v : space) : net :=
  match N, v with
  | f :: N', o :: v' => (match o with Some b => (fun _ => b) | None => f end) :: fix_net N' v'
  | _, _ => N
  end.
