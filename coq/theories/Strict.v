(* Strict.v -- model of percolate_space_strict / percolation_conflicts (space_utils.py) and of
   find_single_node_LDOIs / find_single_drivers (drivers.py).  Definitions only. *)
From Coq Require Import List Bool Arith.
Import ListNotations.
From BB Require Import BN Brute.

Definition globally_const (N : net) (i : nat) : bool :=
  match const_on_b N i (top_space (nvars N)) with Some _ => true | None => false end.

(* one pass of "for var in copy(candidates)" in the given order; returns
   (remaining candidates, restriction, result, changed) *)
Fixpoint strict_pass (N : net) (order : list nat) (restr res : space) (keep : list nat) (changed : bool)
  : list nat * space * space * bool :=
  match order with
  | [] => (rev keep, restr, res, changed)
  | v :: r =>
      match const_on_b N v restr with
      | None => strict_pass N r restr res (v :: keep) changed
      | Some c =>
          match nth v restr None with
          | Some g => if Bool.eqb g c
                      then strict_pass N r (set_nth v (Some c) restr) (set_nth v (Some c) res) keep true
                      else strict_pass N r restr res keep changed          (* conflict: dropped silently *)
          | None => strict_pass N r (set_nth v (Some c) restr) (set_nth v (Some c) res) keep true
          end
      end
  end.

Fixpoint strict_loop (fuel : nat) (N : net) (cands : list nat) (restr res : space) : space :=
  match fuel with
  | O => res
  | S f =>
      let '(cands', restr', res', changed) := strict_pass N cands restr res [] false in
      if changed then strict_loop f N cands' restr' res' else res'
  end.

(* the candidate set is a Python set: `order` is the iteration order the code happened to use;
   the theorem says the result does not depend on it *)
Definition percolate_strict_ord (N : net) (order : list nat) (X : space) : space :=
  strict_loop (Datatypes.S (nvars N)) N (filter (fun v => negb (globally_const N v)) order) X (top_space (nvars N)).
Definition percolate_strict_b (N : net) (S : space) : space :=
  percolate_strict_ord N (seq 0 (nvars N)) S.

(* percolation_conflicts(strict_percolation=False): fixed variables of the percolated space whose
   update function is constant, with the other value, on it *)
Definition conflicts_b (N : net) (S : space) : list nat :=
  let P := percolate_b N S in
  filter (fun v => match nth v P None, const_on_b N v P with
                   | Some g, Some c => negb (Bool.eqb g c)
                   | _, _ => false
                   end) (seq 0 (nvars N)).

(* find_single_node_LDOIs: for every non-constant variable and both values *)
Definition single_space (n v : nat) (b : bool) : space := set_nth v (Some b) (top_space n).
Definition single_ldois (N : net) : list (nat * bool * space) :=
  flat_map (fun v => if globally_const N v then []
                     else [(v, false, percolate_strict_b N (single_space (nvars N) v false));
                           (v, true, percolate_strict_b N (single_space (nvars N) v true))])
           (seq 0 (nvars N)).

(* find_single_drivers: target.items() <= LDOI.items() | {fix} *)
Definition drives (target ldoi : space) (v : nat) (b : bool) : bool :=
  subspace (set_nth v (Some b) ldoi) target.
Definition single_drivers (N : net) (target : space) : list (nat * bool) :=
  map (fun x => (fst (fst x), snd (fst x)))
      (filter (fun x => drives target (snd x) (fst (fst x)) (snd (fst x))) (single_ldois N)).
