(* PyLibScc.v -- additions to the embedding for _sd_algorithms/expand_source_SCCs.attach_scc_subdiagram (tools/py2coq_sd.py).  Definitions only; trusted.
     scc_sd                                   a second, read-only diagram (the fully built sub-diagram of a source SCC), over the same variable positions as
                                              the main network; Python's sub-diagram lives on the component's variables B only, so every space read from it
                                              (node spaces, stable motifs) is SCC.only_on B of the model's space
     len(scc_sd.node_attractor_candidates(i, compute=True)) == 0
                                              the next entry of the candidate-query tape: Some true = no candidates, Some false = candidates,
                                              anything else = the computation raised (RuntimeError -> RRaised ErrLimit); the remaining tape is returned
                                              with the result
     node_id_map (dict int -> int)            association list (idmap_get / idmap_set with dict update semantics)
     sd.node_data(i)["attractor_seeds" | "attractor_sets"] = []
                                              the ghost tag Blocks.cur_tag of node i as it is now ("computed against the current successors")
     sd._ensure_node(parent_id=None, stable_motif=S) / sd._ensure_edge(a, b, m)     Diagram.ensure_node N sd_ None S / Diagram.ensure_edge *)
From Coq Require Import List Bool Arith.
Import ListNotations.
From BB Require Import BN Diagram.

Fixpoint idmap_get (l : list (nat * nat)) (k : nat) : option nat :=
  match l with
  | [] => None
  | (k', v) :: r => if Nat.eqb k' k then Some v else idmap_get r k
  end.
Fixpoint idmap_set (l : list (nat * nat)) (k v : nat) : list (nat * nat) :=
  match l with
  | [] => [(k, v)]
  | (k', v') :: r => if Nat.eqb k' k then (k, v) :: r else (k', v') :: idmap_set r k v
  end.
