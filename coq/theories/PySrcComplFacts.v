(* PySrcComplFacts.v -- C03 stated for the SOURCE TEXT: when the generated public methods expand_minimal_spaces / expand_attractor_seeds /
   expand_bfs / expand_dfs report completion on a diagram reached by plain operations, every minimal trap space of the network is found
   (MinFound) resp. everything is expanded.  Corollaries of the equalities of PySrcSd*Facts.v and the completeness theorems of the model. *)
From Coq Require Import List Bool Arith Lia.
Import ListNotations.
From BB Require Import BN Brute SpaceFacts TrapFacts Diagram Invariants DiagramStruct DiagramComplete MinExpandFacts Candidates Blocks ASeeds ASeedsFacts
  PyLib PyLibSd PyLibCore PyLibSd2 PySrcSdBase PySrcSd PySrcSdFacts PySrcSdMin PySrcSdMinFacts PySrcSdASeeds PySrcSdASeedsFacts.

Theorem py_expand_bfs_complete : forall fuel N cfg d d', 1 <= max_motifs cfg ->
  SWF N d -> NoStubEdges d -> EdgeStrict d -> Rooted d ->
  py_api_expand_bfs fuel N cfg d None None None = (d', RBool true) -> AllExpanded d'.
Proof. intros fuel N cfg d d' H1 H2 H3 H4 H5 H. rewrite py_api_expand_bfs_spec in H. eapply bfs_complete; eassumption. Qed.

Theorem py_expand_dfs_complete : forall fuel N cfg d d', 1 <= max_motifs cfg ->
  SWF N d -> NoStubEdges d -> EdgeStrict d -> Rooted d ->
  py_api_expand_dfs fuel N cfg d None None None = (d', RBool true) -> AllExpanded d'.
Proof. intros fuel N cfg d d' H1 H2 H3 H4 H5 H. rewrite py_api_expand_dfs_spec in H. eapply dfs_complete; eassumption. Qed.

Theorem py_expand_minimal_spaces_complete : forall fuel N cfg d d' skip tape, 1 <= max_motifs cfg ->
  SWF N d -> TrapNodes N d -> NoStubEdges d -> EdgeStrict d -> Faithful N d ->
  n_space (get d 0) = percolate_b N (top_space (nvars N)) ->
  perm_of tape (min_traps_b N (n_space (get d 0))) = true ->
  py_api_expand_minimal_spaces fuel N cfg d tape None None skip = (d', RBool true) -> MinFound N d'.
Proof.
  intros fuel N cfg d d' skip tape H1 H2 H3 H4 H5 H6 H7 Hp H.
  rewrite py_api_expand_minimal_spaces_spec in H; try assumption.
  - eapply expand_min_complete; eassumption.
  - apply (swf_size N d H2).
Qed.

Theorem py_expand_attractor_seeds_MinFound : forall fuel N cfg d d' sz min_tape tape, 1 <= max_motifs cfg ->
  PlainInv N d ->
  perm_of min_tape (min_traps_b N (n_space (get d 0))) = true ->
  py_api_expand_attractor_seeds fuel N cfg d min_tape tape sz = (d', RBool true) ->
  nfvs_log_ok N (expand_aseeds_log fuel N cfg d sz min_tape tape) ->
  MinFound N d'.
Proof.
  intros fuel N cfg d d' sz min_tape tape H1 Hp Hperm H Hlog.
  pose proof Hp as (Hswf & Htn & Hes & _).
  rewrite py_api_expand_attractor_seeds_spec in H; try assumption.
  eapply expand_aseeds_MinFound; eassumption.
Qed.

Print Assumptions py_expand_bfs_complete.
Print Assumptions py_expand_dfs_complete.
Print Assumptions py_expand_minimal_spaces_complete.
Print Assumptions py_expand_attractor_seeds_MinFound.
