(* ControlFacts4.v -- skip_feedforward_successions: the filter only removes successions (so everything proved
   about reported interventions -- C06 -- still holds), every removed succession is subsumed by a kept one with
   a weaker signature, and the kept signatures are pairwise incomparable. *)
From Coq Require Import List Bool Arith NArith Lia Permutation.
Import ListNotations.
From BB Require Import BN Brute SpaceFacts Diagram Invariants Control ControlFacts ControlFacts2 ASeedsFacts ControlFacts3.

(* ---------- auxiliary: the scan ---------- *)

Definition ff_step (rkept : list (space * list space)) (succ : list space) : list (space * list space) :=
  let sig := signature succ in
  let '(rk, skip) := ff_scan sig rkept in
  if skip then rk else (sig, succ) :: rk.

Lemma ff_filter_unfold : forall succs, ff_filter succs = map snd (rev (fold_left ff_step succs [])).
Proof. reflexivity. Qed.

Lemma ff_scan_incl : forall sig rkept p, In p (fst (ff_scan sig rkept)) -> In p rkept.
Proof.
  intros sig rkept. induction rkept as [|[e s] r IH]; intros p Hin; simpl in *.
  - exact Hin.
  - destruct (subspace sig e) eqn:E1.
    + exact Hin.
    + destruct (subspace e sig) eqn:E2.
      * right. apply IH. exact Hin.
      * destruct (ff_scan sig r) as [r' skip] eqn:ES. simpl in *.
        destruct Hin as [Hin|Hin]; [left; exact Hin | right; apply IH; exact Hin].
Qed.

(* every entry is kept or subsumed by the new signature *)
Lemma ff_scan_kept_or_sub : forall sig rkept p, In p rkept ->
  In p (fst (ff_scan sig rkept)) \/ subspace (fst p) sig = true.
Proof.
  intros sig rkept. induction rkept as [|[e s] r IH]; intros p Hin; simpl in *.
  - contradiction.
  - destruct (subspace sig e) eqn:E1.
    + left. exact Hin.
    + destruct (subspace e sig) eqn:E2.
      * destruct Hin as [Hin|Hin].
        -- subst p. right. exact E2.
        -- apply IH. exact Hin.
      * destruct (ff_scan sig r) as [r' skip] eqn:ES. simpl in *.
        destruct Hin as [Hin|Hin].
        -- left. left. exact Hin.
        -- destruct (IH p Hin) as [H|H]; [left; right; exact H | right; exact H].
Qed.

(* skip: some kept entry subsumes the new signature *)
Lemma ff_scan_skip_true : forall sig rkept, snd (ff_scan sig rkept) = true ->
  exists k, In k (fst (ff_scan sig rkept)) /\ subspace sig (fst k) = true.
Proof.
  intros sig rkept. induction rkept as [|[e s] r IH]; intros Hs; simpl in *.
  - discriminate.
  - destruct (subspace sig e) eqn:E1.
    + exists (e, s). split; [left; reflexivity | exact E1].
    + destruct (subspace e sig) eqn:E2.
      * apply IH. exact Hs.
      * destruct (ff_scan sig r) as [r' skip] eqn:ES. simpl in *.
        destruct (IH Hs) as (k & Hk & Hsub). exists k. split; [right; exact Hk | exact Hsub].
Qed.

(* no skip: every kept entry is incomparable with the new signature *)
Lemma ff_scan_skip_false : forall sig rkept, snd (ff_scan sig rkept) = false ->
  forall k, In k (fst (ff_scan sig rkept)) -> subspace sig (fst k) = false /\ subspace (fst k) sig = false.
Proof.
  intros sig rkept. induction rkept as [|[e s] r IH]; intros Hs k Hk; simpl in *.
  - contradiction.
  - destruct (subspace sig e) eqn:E1.
    + discriminate.
    + destruct (subspace e sig) eqn:E2.
      * apply IH; assumption.
      * destruct (ff_scan sig r) as [r' skip] eqn:ES. simpl in *.
        destruct Hk as [Hk|Hk].
        -- subst k. simpl. split; assumption.
        -- apply IH; assumption.
Qed.

(* ---------- auxiliary: the fold ---------- *)

Lemma ff_step_incl : forall rkept succ p, In p (ff_step rkept succ) ->
  p = (signature succ, succ) \/ In p rkept.
Proof.
  intros rkept succ p Hin. unfold ff_step in Hin.
  pose proof (ff_scan_incl (signature succ) rkept p) as Hi.
  destruct (ff_scan (signature succ) rkept) as [rk skip]. simpl in Hi.
  destruct skip.
  - right. apply Hi. exact Hin.
  - destruct Hin as [Hin|Hin]; [left; symmetry; exact Hin | right; apply Hi; exact Hin].
Qed.

(* invariant 1: the kept pairs are (signature s, s) for s among the inputs seen *)
Lemma ff_fold_shape : forall succs acc p, In p (fold_left ff_step succs acc) ->
  In p acc \/ (In (snd p) succs /\ fst p = signature (snd p)).
Proof.
  induction succs as [|s r IH]; intros acc p Hin; simpl in *.
  - left. exact Hin.
  - destruct (IH _ _ Hin) as [H|(H1 & H2)].
    + destruct (ff_step_incl _ _ _ H) as [E|H'].
      * subst p. simpl. right. split; [left; reflexivity | reflexivity].
      * left. exact H'.
    + right. split; [right; exact H1 | exact H2].
Qed.

(* invariant 2: coverage *)
Definition covered (acc : list (space * list space)) (sig : space) : Prop :=
  exists k, In k acc /\ subspace sig (fst k) = true.

Lemma ff_step_covers_new : forall rkept succ, covered (ff_step rkept succ) (signature succ).
Proof.
  intros rkept succ. unfold covered, ff_step.
  pose proof (ff_scan_skip_true (signature succ) rkept) as Ht.
  destruct (ff_scan (signature succ) rkept) as [rk skip]. simpl in Ht.
  destruct skip.
  - apply Ht. reflexivity.
  - exists (signature succ, succ). split; [left; reflexivity | apply subspace_refl].
Qed.

Lemma ff_step_covers_old : forall rkept succ sig, covered rkept sig -> covered (ff_step rkept succ) sig.
Proof.
  intros rkept succ sig (k & Hk & Hsub).
  destruct (ff_step_covers_new rkept succ) as (k' & Hk' & Hsub').
  unfold covered, ff_step in *.
  pose proof (ff_scan_kept_or_sub (signature succ) rkept k Hk) as Hko.
  destruct (ff_scan (signature succ) rkept) as [rk skip]. simpl in Hko.
  destruct Hko as [Hko|Hko].
  - exists k. split; [|exact Hsub]. destruct skip; [exact Hko | right; exact Hko].
  - exists k'. split; [exact Hk'|].
    eapply subspace_trans; [exact Hsub|]. eapply subspace_trans; [exact Hko | exact Hsub'].
Qed.

Lemma ff_fold_covers_acc : forall succs acc sig, covered acc sig -> covered (fold_left ff_step succs acc) sig.
Proof.
  induction succs as [|s r IH]; intros acc sig Hc; simpl.
  - exact Hc.
  - apply IH. apply ff_step_covers_old. exact Hc.
Qed.

Lemma ff_fold_covers : forall succs acc s, In s succs -> covered (fold_left ff_step succs acc) (signature s).
Proof.
  induction succs as [|s0 r IH]; intros acc s Hin; simpl in *.
  - contradiction.
  - destruct Hin as [E|Hin].
    + subst s0. apply ff_fold_covers_acc. apply ff_step_covers_new.
    + apply IH. exact Hin.
Qed.

(* invariant 3: antichain *)
Definition antichain (acc : list (space * list space)) : Prop :=
  forall p q, In p acc -> In q acc -> subspace (fst p) (fst q) = true -> fst p = fst q.

Lemma ff_step_antichain : forall rkept succ, antichain rkept -> antichain (ff_step rkept succ).
Proof.
  intros rkept succ Ha. unfold antichain, ff_step in *.
  pose proof (ff_scan_incl (signature succ) rkept) as Hi.
  pose proof (ff_scan_skip_false (signature succ) rkept) as Hf.
  destruct (ff_scan (signature succ) rkept) as [rk skip]. simpl in Hi, Hf.
  destruct skip.
  - intros p q Hp Hq Hsub. apply Ha; auto.
  - specialize (Hf eq_refl). intros p q Hp Hq Hsub.
    destruct Hp as [Hp|Hp]; destruct Hq as [Hq|Hq].
    + subst p q. reflexivity.
    + subst p. simpl in Hsub. destruct (Hf q Hq) as (H1 & _). congruence.
    + subst q. simpl in Hsub. destruct (Hf p Hp) as (_ & H2). congruence.
    + apply Ha; auto.
Qed.

Lemma ff_fold_antichain : forall succs acc, antichain acc -> antichain (fold_left ff_step succs acc).
Proof.
  induction succs as [|s r IH]; intros acc Ha; simpl.
  - exact Ha.
  - apply IH. apply ff_step_antichain. exact Ha.
Qed.

Lemma in_ff_filter : forall succs s, In s (ff_filter succs) <->
  exists p, In p (fold_left ff_step succs []) /\ snd p = s.
Proof.
  intros succs s. rewrite ff_filter_unfold. rewrite in_map_iff. split.
  - intros (p & E & Hin). exists p. split; [apply in_rev; exact Hin | exact E].
  - intros (p & Hin & E). exists p. split; [exact E | apply in_rev in Hin; exact Hin].
Qed.

(* ---------- the theorems of the spec ---------- *)

Theorem ff_filter_incl : forall succs s, In s (ff_filter succs) -> In s succs.
Proof.
  intros succs s Hin. apply in_ff_filter in Hin. destruct Hin as (p & Hp & E).
  destruct (ff_fold_shape _ _ _ Hp) as [H|(H & _)].
  - contradiction.
  - subst s. exact H.
Qed.

(* the length hypothesis is not needed: subspace is reflexive and transitive unconditionally *)
Theorem ff_filter_covers_nolen : forall succs s,
  In s succs -> exists k, In k (ff_filter succs) /\ subspace (signature s) (signature k) = true.
Proof.
  intros succs s Hin.
  destruct (ff_fold_covers succs [] s Hin) as (p & Hp & Hsub).
  exists (snd p). split.
  - apply in_ff_filter. exists p. split; [exact Hp | reflexivity].
  - destruct (ff_fold_shape _ _ _ Hp) as [H|(_ & E)]; [contradiction|].
    rewrite <- E. exact Hsub.
Qed.

Theorem ff_filter_covers : forall succs s, (forall x, In x succs -> forall m, In m x -> length m = length (signature s)) ->
  In s succs -> exists k, In k (ff_filter succs) /\ subspace (signature s) (signature k) = true.
Proof.
  intros succs s _ Hin. apply ff_filter_covers_nolen. exact Hin.
Qed.

Theorem ff_filter_antichain_nolen : forall succs a b,
  In a (ff_filter succs) -> In b (ff_filter succs) ->
  subspace (signature a) (signature b) = true -> signature a = signature b.
Proof.
  intros succs a b Ha Hb Hsub.
  apply in_ff_filter in Ha. destruct Ha as (p & Hp & Ea).
  apply in_ff_filter in Hb. destruct Hb as (q & Hq & Eb).
  destruct (ff_fold_shape _ _ _ Hp) as [H|(_ & E1)]; [contradiction|].
  destruct (ff_fold_shape _ _ _ Hq) as [H|(_ & E2)]; [contradiction|].
  subst a b. rewrite <- E1, <- E2 in *.
  apply (ff_fold_antichain succs []); auto.
  intros x y Hx. contradiction.
Qed.

Theorem ff_filter_antichain : forall succs a b, (forall x, In x succs -> forall m y, In m x -> In y succs -> forall m', In m' y -> length m = length m') ->
  In a (ff_filter succs) -> In b (ff_filter succs) ->
  subspace (signature a) (signature b) = true -> signature a = signature b.
Proof.
  intros succs a b _. apply ff_filter_antichain_nolen.
Qed.

Theorem successions_ff_incl : forall d target b s, In s (successions_ff d target b) -> In s (successions d target).
Proof.
  intros d target b s Hin. unfold successions_ff in Hin.
  destruct b; [|exact Hin].
  destruct (successions d target) as [|x l] eqn:ES.
  - apply ff_filter_incl in Hin. exact Hin.
  - destruct x as [|m x'].
    + destruct l as [|y l'].
      * exact Hin.
      * apply ff_filter_incl in Hin. exact Hin.
    + apply ff_filter_incl in Hin. exact Hin.
Qed.

(* C06 with the option on: the interventions reported are among those reported with the option off *)
Theorem succession_control_ff_incl : forall N d target all_strategy maxd forbidden b x,
  In x (succession_control_ff N d target all_strategy maxd forbidden b) ->
  In x (succession_control N d target all_strategy maxd forbidden).
Proof.
  intros N d target all_strategy maxd forbidden b x Hin.
  unfold succession_control_ff in Hin. unfold succession_control.
  apply in_map_iff in Hin. destruct Hin as (s & E & Hs).
  apply in_map_iff. exists s. split; [exact E|].
  eapply successions_ff_incl. exact Hs.
Qed.

Theorem succession_control_ff_sound : forall N d target all_strategy maxd forbidden b succ ctl,
  PlainInv N d -> length target = nvars N -> TargetExpanded target d ->
  In (succ, ctl, true) (succession_control_ff N d target all_strategy maxd forbidden b) ->
  let spaces := chain N succ (top_space (nvars N)) in
  length ctl = length succ /\
  (forall i, i < length succ ->
     trap_space N (nth i spaces []) /\ trap_space N (nth (S i) spaces []) /\
     subspace (nth (S i) spaces []) (nth i spaces []) = true /\
     nth i ctl [] <> [] /\
     forall drv, In drv (nth i ctl []) ->
       subspace (percolate_b N (merge drv (nth i spaces []))) (nth i succ []) = true /\
       forced (override N drv) (nth i spaces []) (nth i succ [])) /\
  intersect (last spaces []) target <> None /\
  (forall M, min_trap N M -> subspace M (last spaces []) = true -> subspace M target = true).
Proof.
  intros N d target all_strategy maxd forbidden b succ ctl Hp Hlt Hte Hin.
  apply succession_control_ff_incl in Hin.
  exact (succession_control_sound N d target all_strategy maxd forbidden succ ctl Hp Hlt Hte Hin).
Qed.

Print Assumptions ff_filter_incl.
Print Assumptions ff_filter_covers.
Print Assumptions ff_filter_antichain.
Print Assumptions successions_ff_incl.
Print Assumptions succession_control_ff_incl.
Print Assumptions succession_control_ff_sound.
