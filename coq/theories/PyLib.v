(* PyLib.v -- hand-written semantic prelude for the Python fragment translated by tools/py2coq.py
   (part of the trusted base of the translator tie).  Definitions only.
     dict[str, 0|1]  : insertion-ordered association list with unique keys (keys = variable indices)
     str             : list of code points
     statements      : flow R S  = returned r | raised | fell through with local state s
     raising exprs   : option *)
From Coq Require Import List Bool Arith NArith.
Import ListNotations.

Definition pdict : Type := list (nat * bool).
Definition pstr : Type := list N.

Fixpoint d_get (d : pdict) (k : nat) : option bool :=
  match d with
  | [] => None
  | (k', v) :: r => if Nat.eqb k' k then Some v else d_get r k
  end.
Definition d_mem (k : nat) (d : pdict) : bool :=
  match d_get d k with Some _ => true | None => false end.
(* d[k] = v : an existing key keeps its position *)
Fixpoint d_set (d : pdict) (k : nat) (v : bool) : pdict :=
  match d with
  | [] => [(k, v)]
  | (k', v') :: r => if Nat.eqb k' k then (k, v) :: r else (k', v') :: d_set r k v
  end.
Definition d_keys (d : pdict) : list nat := map fst d.
Definition d_items (d : pdict) : list (nat * bool) := d.

(* network.find_variable(name): the index of the variable, None if there is no such variable *)
Definition net_find (n : nat) (k : nat) : option nat := if Nat.ltb k n then Some k else None.

Definition obind {A B : Type} (o : option A) (f : A -> option B) : option B :=
  match o with Some a => f a | None => None end.
Definition omap {A B : Type} (f : A -> B) (o : option A) : option B :=
  match o with Some a => Some (f a) | None => None end.

Inductive flow (R S : Type) : Type :=
| FRet (r : R)
| FRaise
| FNext (s : S).
Arguments FRet {R S} r.
Arguments FRaise {R S}.
Arguments FNext {R S} s.

(* for x in items: body *)
Fixpoint py_for {K R S : Type} (items : list K) (body : K -> S -> flow R S) (s : S) : flow R S :=
  match items with
  | [] => FNext s
  | x :: r => match body x s with
              | FNext s' => py_for r body s'
              | FRet v => FRet v
              | FRaise => FRaise
              end
  end.

(* s.startswith(prefix) *)
Fixpoint starts_with (prefix s : pstr) : bool :=
  match prefix, s with
  | [], _ => true
  | p :: prefix', c :: s' => N.eqb p c && starts_with prefix' s'
  | _ :: _, [] => false
  end.
