(* LogChecks.v -- executable forms of the tape contracts of the completeness theorems, run by the driver on the
   logs of every replayed block / attractor-seed expansion:
     clean_log_ok_b  <->  BlockComplete.clean_log_ok   (every "is_clean = True" answer is justified)
     nfvs_log_ok_b   <->  ASeedsFacts.nfvs_log_ok      (every NFVS read from the tape hits every negative cycle) *)
From Coq Require Import List Bool Arith NArith Lia.
Import ListNotations.
From BB Require Import BN Brute Diagram Signed ReductionFacts Blocks BlockMath BlockComplete ASeeds ASeedsFacts.

Fixpoint nodup_nat_b (l : list nat) : bool :=
  match l with
  | [] => true
  | x :: r => negb (mem_nat x r) && nodup_nat_b r
  end.

Definition nfvs_entry_ok_b (N : net) (e : space * list nat) : bool :=
  nodup_nat_b (snd e) && forallb (fun v => Nat.ltb v (nvars N)) (snd e) && no_neg_walk_b N (fst e) (snd e).
Definition nfvs_log_ok_b (N : net) (lg : list (space * list nat)) : bool := forallb (nfvs_entry_ok_b N) lg.

Definition clean_entry_ok_b (N : net) (e : clean_entry) : bool :=
  match e with
  | (sp, B, motifs, true) => block_clean_b N sp B motifs
  | (_, _, _, false) => true
  end.
Definition clean_log_ok_b (N : net) (lg : list clean_entry) : bool := forallb (clean_entry_ok_b N) lg.

Lemma mem_nat_In : forall x l, mem_nat x l = true <-> In x l.
Proof.
  intros x l. unfold mem_nat. rewrite existsb_exists. split.
  - intros (y & Hy & E). apply Nat.eqb_eq in E. subst y. exact Hy.
  - intro H. exists x. split; [exact H|apply Nat.eqb_refl].
Qed.

Lemma nodup_nat_b_spec : forall l, nodup_nat_b l = true <-> NoDup l.
Proof.
  induction l as [|x r IH]; simpl.
  - split; [intros _; constructor|reflexivity].
  - rewrite andb_true_iff, negb_true_iff, IH. split.
    + intros [Hm Hn]. constructor; [|exact Hn]. intro Hin. apply mem_nat_In in Hin. congruence.
    + intro H. inversion H as [|? ? Hnot Hnd]; subst. split; [|exact Hnd].
      destruct (mem_nat x r) eqn:E; [|reflexivity]. exfalso. apply Hnot. apply mem_nat_In. exact E.
Qed.

Theorem nfvs_log_ok_b_spec : forall N lg, (forall sp nfvs, In (sp, nfvs) lg -> length sp = nvars N) ->
  (nfvs_log_ok_b N lg = true <-> nfvs_log_ok N lg).
Proof.
  intros N lg Hlen. unfold nfvs_log_ok_b, nfvs_log_ok. rewrite forallb_forall. split.
  - intros H sp nfvs Hin. specialize (H _ Hin). unfold nfvs_entry_ok_b in H. simpl in H.
    apply andb_true_iff in H. destruct H as [H H3]. apply andb_true_iff in H. destruct H as [H1 H2].
    split; [apply nodup_nat_b_spec; exact H1|]. split.
    + intros v Hv. rewrite forallb_forall in H2. specialize (H2 v Hv). apply Nat.ltb_lt. exact H2.
    + apply (no_neg_walk_b_spec N sp nfvs (Hlen sp nfvs Hin)). exact H3.
  - intros H [sp nfvs] Hin. destruct (H sp nfvs Hin) as (H1 & H2 & H3). unfold nfvs_entry_ok_b. simpl.
    rewrite !andb_true_iff. split; [split|].
    + apply nodup_nat_b_spec. exact H1.
    + apply forallb_forall. intros v Hv. apply Nat.ltb_lt. apply H2. exact Hv.
    + apply (no_neg_walk_b_spec N sp nfvs (Hlen sp nfvs Hin)). exact H3.
Qed.

Theorem clean_log_ok_b_spec : forall N lg,
  (forall sp B motifs b, In (sp, B, motifs, b) lg -> length sp = nvars N /\ forall m, In m motifs -> length m = nvars N) ->
  (clean_log_ok_b N lg = true <-> clean_log_ok N lg).
Proof.
  intros N lg Hlen. unfold clean_log_ok_b, clean_log_ok. rewrite forallb_forall. split.
  - intros H sp B motifs Hin. specialize (H _ Hin). simpl in H.
    destruct (Hlen sp B motifs true Hin) as [Hs Hm].
    apply (block_clean_b_spec N sp B motifs Hs Hm). exact H.
  - intros H e Hin. destruct e as [[[sp B] motifs] b]. destruct b; [|reflexivity]. simpl.
    destruct (Hlen sp B motifs true Hin) as [Hs Hm].
    apply (block_clean_b_spec N sp B motifs Hs Hm). apply H. exact Hin.
Qed.

Print Assumptions nfvs_log_ok_b_spec.
Print Assumptions clean_log_ok_b_spec.
