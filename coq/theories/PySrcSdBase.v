(* PySrcSdBase.v -- shared lemmas of the translator tie for the strategy drivers (s_for / s_while / s_finish, the
   membership relation between Python's `seen` set and the model's list, size / level limit tests).  No generated code is imported. *)
From Coq Require Import List Bool Arith Lia.
Import ListNotations.
From BB Require Import BN Brute SpaceFacts Diagram Invariants DiagramStruct PyLib PyLibSd.
From BB Require Import Termination DiagramComplete.

(* ================================================================== *)
(* 0. common facts                                                     *)
(* ================================================================== *)

(* Python sets are modelled as lists; only membership matters *)
Definition same_mem (a b : list nat) : Prop := forall x, mem_nat x a = mem_nat x b.

Lemma same_mem_refl : forall a, same_mem a a.
Proof. intros a x. reflexivity. Qed.

Lemma mem_nat_app : forall x a b, mem_nat x (a ++ b) = mem_nat x a || mem_nat x b.
Proof. intros x a b. unfold mem_nat. apply existsb_app. Qed.

Lemma mem_nat_cons : forall x y l, mem_nat x (y :: l) = Nat.eqb x y || mem_nat x l.
Proof. intros x y l. reflexivity. Qed.

Lemma mem_set_add : forall x s l, mem_nat x (set_add s l) = Nat.eqb x s || mem_nat x l.
Proof.
  intros x s l. unfold set_add. destruct (mem_nat s l) eqn:E; [|reflexivity].
  destruct (Nat.eqb x s) eqn:Exs; [|reflexivity].
  apply Nat.eqb_eq in Exs. subst x. simpl. exact E.
Qed.

Lemma filter_not_in : forall (seen : list nat) s r, ~ In s r ->
  filter (fun t => negb (mem_nat t (seen ++ [s]))) r = filter (fun t => negb (mem_nat t seen)) r.
Proof.
  intros seen s r. induction r as [|a r IH]; intro Hnin; [reflexivity|].
  simpl. rewrite IH by (intro H; apply Hnin; right; exact H).
  rewrite mem_nat_app. simpl. rewrite orb_false_r.
  destruct (Nat.eqb a s) eqn:Eas.
  - apply Nat.eqb_eq in Eas. subst a. exfalso. apply Hnin. left. reflexivity.
  - rewrite orb_false_r. reflexivity.
Qed.

(* the translation of `size_limit is not None and len(sd) >= size_limit and not sd.node_data(node)["expanded"]` *)
Definition py_size_check (size_limit : option nat) (sd_ : sd) (node : nat) : option bool :=
  if (negb (match size_limit with None => true | Some _ => false end))
  then (obind (omap (fun b_ => (Nat.leb b_ (size sd_))) size_limit)
              (fun a_ => if a_ then (Some (negb (n_exp (get sd_ node)))) else Some false))
  else Some false.

Lemma py_size_check_eq : forall sl d x,
  py_size_check sl d x = Some (over_limit sl d && negb (n_exp (get d x))).
Proof.
  intros [k|] d x; unfold py_size_check, over_limit; simpl; [|reflexivity].
  destruct (Nat.leb k (size d)); reflexivity.
Qed.

(* the translation of `limit is not None and x >= limit` *)
Definition py_limit_check (limit : option nat) (x : nat) : option bool :=
  if (negb (match limit with None => true | Some _ => false end))
  then (omap (fun b_ => (Nat.leb b_ x)) limit) else Some false.

Lemma py_limit_check_eq : forall lim x,
  py_limit_check lim x = Some (match lim with Some l => Nat.leb l x | None => false end).
Proof. intros [l|] x; reflexivity. Qed.

(* a flow that leaves every enclosing loop with the model's result r *)
Definition stops {S : Type} (f : sflow bool S) (d : sd) (r : result) : Prop :=
  f = SRaise d r \/ exists b, f = SRet d b /\ r = RBool b.

Lemma stops_finish : forall S (f : sflow bool S) d r, stops f d r -> s_finish f = (d, r).
Proof.
  intros S f d r [H|[b [H Hr]]]; subst; reflexivity.
Qed.

Lemma node_successors_SWF : forall N cfg d x d1 r succ, SWF N d ->
  node_successors N cfg d x = (d1, r, succ) -> SWF N d1 /\ NoDup (sort_nat succ).
Proof.
  intros N cfg d x d1 r succ Hswf E.
  destruct (node_successors_facts N cfg d x d1 r succ Hswf E) as [H1 [_ [_ [H2 _]]]].
  split; [exact H1|apply sort_nat_NoDup; exact H2].
Qed.


(* ------------------------------------------------------------------ *)
(* 0b. the loops without the NoDup assumption                          *)
(*     Python adds each new successor once; the model's one-pass filter *)
(*     keeps the repetitions of a new successor, which are adjacent     *)
(*     because the list is sorted.  A node repeated in a level is       *)
(*     processed a second time by the model, to no effect.              *)
(* ------------------------------------------------------------------ *)

(* what the Python loop appends to next_level *)
Fixpoint fresh_py (seen : list nat) (succ : list nat) : list nat :=
  match succ with
  | [] => []
  | s :: r => if mem_nat s seen then fresh_py seen r else s :: fresh_py (s :: seen) r
  end.

(* m is p with some elements repeated, the repetitions adjacent *)
Inductive dup_rel : list nat -> list nat -> Prop :=
| dr_nil : dup_rel [] []
| dr_cons : forall x m p, dup_rel m p -> dup_rel (x :: m) (x :: p)
| dr_dup : forall x m p, dup_rel (x :: m) (x :: p) -> dup_rel (x :: x :: m) (x :: p).

Lemma dup_rel_refl : forall l, dup_rel l l.
Proof. induction l as [|a l IH]; [constructor|apply dr_cons; exact IH]. Qed.

Lemma dup_rel_app : forall m1 p1 m2 p2, dup_rel m1 p1 -> dup_rel m2 p2 -> dup_rel (m1 ++ m2) (p1 ++ p2).
Proof.
  intros m1 p1 m2 p2 H1 H2. induction H1 as [|x m p H IH|x m p H IH]; simpl.
  - exact H2.
  - apply dr_cons. exact IH.
  - apply dr_dup. exact IH.
Qed.

Fixpoint asc (l : list nat) : Prop :=
  match l with
  | [] => True
  | a :: r => (forall y, In y r -> a <= y) /\ asc r
  end.

Lemma insert_nat_asc : forall x l, asc l -> asc (insert_nat x l).
Proof.
  intros x l. induction l as [|y r IH]; intro Ha; simpl.
  - split; [intros y []|exact I].
  - destruct Ha as [Hy Hr]. destruct (Nat.leb x y) eqn:E.
    + apply Nat.leb_le in E. split; [|split; assumption].
      intros z [Hz|Hz]; [subst z; exact E|]. specialize (Hy z Hz). lia.
    + apply Nat.leb_gt in E. split; [|apply IH; exact Hr].
      intros z Hz. apply insert_nat_In in Hz. destruct Hz as [Hz|Hz]; [subst z; lia|apply Hy; exact Hz].
Qed.

Lemma sort_nat_asc : forall l, asc (sort_nat l).
Proof.
  induction l as [|a l IH]; simpl; [exact I|]. apply insert_nat_asc. exact IH.
Qed.

Lemma dup_rel_fresh_aux : forall seenF l s seenP,
  asc (s :: l) -> mem_nat s seenF = false -> mem_nat s seenP = true ->
  (forall y, In y l -> y <> s -> mem_nat y seenP = mem_nat y seenF) ->
  dup_rel (s :: filter (fun t => negb (mem_nat t seenF)) l) (s :: fresh_py seenP l).
Proof.
  intros seenF. induction l as [|t r IH]; intros s seenP Ha HsF HsP Hy.
  - simpl. apply dr_cons. constructor.
  - destruct Ha as [Hs [Ht Hr]].
    destruct (Nat.eq_dec t s) as [Hts|Hts].
    + subst t. simpl. rewrite HsF, HsP. simpl. apply dr_dup.
      apply IH; [split; [intros y H; apply Hs; right; exact H|exact Hr]|exact HsF|exact HsP|].
      intros y H1 H2. apply Hy; [right; exact H1|exact H2].
    + assert (Hlt : s < t).
      { assert (s <= t) by (apply Hs; left; reflexivity). lia. }
      simpl. rewrite (Hy t (or_introl eq_refl) Hts).
      destruct (mem_nat t seenF) eqn:EtF; simpl.
      * apply IH; [split; [intros y H; apply Hs; right; exact H|exact Hr]|exact HsF|exact HsP|].
        intros y H1 H2. apply Hy; [right; exact H1|exact H2].
      * apply dr_cons.
        apply IH; [split; assumption|exact EtF|simpl; rewrite Nat.eqb_refl; reflexivity|].
        intros y H1 H2. rewrite mem_nat_cons.
        assert (Hyt : Nat.eqb y t = false) by (apply Nat.eqb_neq; exact H2).
        rewrite Hyt. simpl. apply Hy; [right; exact H1|].
        specialize (Ht y H1). lia.
Qed.

Lemma dup_rel_fresh : forall l seenP seenF, asc l -> same_mem seenP seenF ->
  dup_rel (filter (fun t => negb (mem_nat t seenF)) l) (fresh_py seenP l).
Proof.
  induction l as [|t r IH]; intros seenP seenF Ha Hsm; [constructor|].
  simpl. rewrite (Hsm t). destruct (mem_nat t seenF) eqn:Et; simpl.
  - apply IH; [exact (proj2 Ha)|exact Hsm].
  - apply dup_rel_fresh_aux; [exact Ha|exact Et|simpl; rewrite Nat.eqb_refl; reflexivity|].
    intros y _ Hne. rewrite mem_nat_cons, (Hsm y).
    assert (Hyt : Nat.eqb y t = false) by (apply Nat.eqb_neq; exact Hne).
    rewrite Hyt. reflexivity.
Qed.

Lemma mem_filter_fresh : forall x seen l,
  mem_nat x (seen ++ filter (fun t => negb (mem_nat t seen)) l) = mem_nat x seen || mem_nat x l.
Proof.
  intros x seen l. rewrite mem_nat_app. induction l as [|a r IH]; [reflexivity|].
  simpl filter. rewrite mem_nat_cons.
  destruct (mem_nat a seen) eqn:Ea; simpl negb; cbv iota.
  - rewrite IH. destruct (Nat.eqb x a) eqn:Exa; [|reflexivity].
    apply Nat.eqb_eq in Exa. subst a. rewrite Ea. reflexivity.
  - rewrite mem_nat_cons. destruct (Nat.eqb x a); simpl.
    + rewrite orb_true_r. reflexivity.
    + exact IH.
Qed.

Lemma filter_all_seen : forall seen l,
  filter (fun s => negb (mem_nat s (seen ++ filter (fun t => negb (mem_nat t seen)) l))) l = [].
Proof.
  intros seen l.
  assert (H : forall l0, (forall s, In s l0 -> mem_nat s l = true) ->
            filter (fun s => negb (mem_nat s (seen ++ filter (fun t => negb (mem_nat t seen)) l))) l0 = []).
  { induction l0 as [|a r IH]; intro Hin; [reflexivity|].
    simpl. rewrite mem_filter_fresh, (Hin a (or_introl eq_refl)), orb_true_r. simpl.
    apply IH. intros s Hs. apply Hin. right. exact Hs. }
  apply H. intros s Hs. apply (proj2 (Termination.mem_nat_In s l)). exact Hs.
Qed.

(* asking again for the successors of a node changes nothing *)
Lemma node_successors_again : forall N cfg sl d x d1 succ,
  node_successors N cfg d x = (d1, RUnit, succ) ->
  over_limit sl d && negb (n_exp (get d x)) = false ->
  node_successors N cfg d1 x = (d1, RUnit, succ) /\
  over_limit sl d1 && negb (n_exp (get d1 x)) = false.
Proof.
  intros N cfg sl d x d1 succ E Hlim.
  destruct (Nat.lt_ge_cases x (size d)) as [Hx|Hx].
  - assert (Hexp : n_exp (get d1 x) = true).
    { unfold node_successors in E. destruct (expand_one N cfg d x) as [d' r] eqn:Ee.
      destruct r; inversion E; subst.
      apply (DiagramComplete.expand_one_exp N cfg d x d1 Ee Hx). }
    split; [|rewrite Hexp; apply andb_false_r].
    assert (Hs : succ = successors d1 x).
    { unfold node_successors in E. destruct (expand_one N cfg d x) as [d' r].
      destruct r; inversion E; subst; reflexivity. }
    unfold node_successors, expand_one. rewrite Hexp, Hs. reflexivity.
  - assert (Hd : d1 = d).
    { unfold node_successors, expand_one in E.
      assert (Hg : get d x = dummy_node) by (unfold get; apply nth_overflow; exact Hx).
      rewrite Hg in E. simpl in E.
      rewrite !upd_node_beyond in E by (try rewrite upd_node_beyond by exact Hx; exact Hx).
      inversion E. reflexivity. }
    subst d1. split; assumption.
Qed.

