(* FilterFacts.v -- the expected attractors of a node, the meaning of the verdict
   predicates of Checks.v, and correctness of the candidate-filtering loop of Filter.v:
   if the candidates cover the attractors of the node, the accepted seeds correspond
   one-to-one to these attractors and the returned sets are the attractors themselves. *)
From Coq Require Import List Bool Arith Lia Relations Permutation.
Import ListNotations.
From BB Require Import BN Brute SpaceFacts TrapFacts PercolateFacts AttractorFacts Checks Filter.

(* ------------------------------------------------------------------ *)
(* Generic list helpers                                                *)
(* ------------------------------------------------------------------ *)

Lemma F_find_none_iff : forall (A : Type) (f : A -> bool) l,
  find f l = None <-> forall x, In x l -> f x = false.
Proof.
  intros A f l. split.
  - intros H x Hx. exact (find_none f l H x Hx).
  - induction l as [|a l IH]; intros H; simpl; [reflexivity|].
    rewrite (H a (or_introl eq_refl)). apply IH.
    intros x Hx. apply H. right. exact Hx.
Qed.

Lemma F_existsb_false : forall (A : Type) (f : A -> bool) l,
  existsb f l = false <-> ~ exists x, In x l /\ f x = true.
Proof.
  intros A f l. rewrite <- existsb_exists.
  destruct (existsb f l); split; intros H; try reflexivity; try discriminate.
  exfalso. apply H. reflexivity.
Qed.

Lemma F_Forall2_length : forall (A B : Type) (R : A -> B -> Prop) l1 l2,
  Forall2 R l1 l2 -> length l1 = length l2.
Proof.
  intros A B R l1 l2 H. induction H as [|x y l1 l2 Hxy H IH]; simpl; [reflexivity|].
  rewrite IH. reflexivity.
Qed.

Lemma F_Forall2_rev : forall (A B : Type) (R : A -> B -> Prop) l1 l2,
  Forall2 R l1 l2 -> Forall2 R (rev l1) (rev l2).
Proof.
  intros A B R l1 l2 H. induction H as [|x y l1 l2 Hxy H IH]; simpl; [constructor|].
  apply Forall2_app; [exact IH|]. constructor; [exact Hxy | constructor].
Qed.

Lemma F_Forall2_nth_error : forall (A B : Type) (R : A -> B -> Prop) l1 l2,
  Forall2 R l1 l2 -> forall i x y,
  nth_error l1 i = Some x -> nth_error l2 i = Some y -> R x y.
Proof.
  intros A B R l1 l2 H. induction H as [|a b l1 l2 Hab H IH]; intros i x y Hx Hy.
  - destruct i; discriminate.
  - destruct i as [|i]; simpl in *.
    + injection Hx as Hx. injection Hy as Hy. subst. exact Hab.
    + eapply IH; eauto.
Qed.

Lemma F_Forall2_in_r : forall (A B : Type) (R : A -> B -> Prop) l1 l2 y,
  Forall2 R l1 l2 -> In y l2 -> exists x, In x l1 /\ R x y.
Proof.
  intros A B R l1 l2 y H. induction H as [|a b l1 l2 Hab H IH]; intros Hy.
  - contradiction.
  - destruct Hy as [Hy|Hy].
    + subst b. exists a. split; [left; reflexivity | exact Hab].
    + destruct (IH Hy) as [x [Hx HR]]. exists x. split; [right; exact Hx | exact HR].
Qed.

Lemma F_inside_b_spec : forall (A : list state) (Sp : space),
  inside_b A Sp = true <-> forall s, In s A -> in_space s Sp = true.
Proof. intros A Sp. unfold inside_b. apply forallb_forall. Qed.

(* ------------------------------------------------------------------ *)
(* PART A: expected attractors of a node                               *)
(* ------------------------------------------------------------------ *)

Definition node_attr (N : net) (S : space) (motifs : list space) (A : state -> Prop) : Prop :=
  attractor N A /\ (forall s, A s -> in_space s S = true) /\
  ~ exists M, In M motifs /\ forall s, A s -> in_space s M = true.

Lemma node_attr_ext : forall N S motifs (A B : state -> Prop),
  (forall t, A t <-> B t) -> node_attr N S motifs A -> node_attr N S motifs B.
Proof.
  intros N S motifs A B Hab [Hatt [Hin Hno]]. split; [|split].
  - eapply A_attractor_ext; eauto.
  - intros s Hs. apply Hin. apply Hab. exact Hs.
  - intros [M [HM Hall]]. apply Hno. exists M. split; [exact HM|].
    intros s Hs. apply Hall. apply Hab. exact Hs.
Qed.

Lemma node_attractors_b_spec : forall N S motifs A, In A (node_attractors_b N S motifs) <->
  In A (attractors_b N) /\ inside_b A S = true /\ existsb (inside_b A) motifs = false.
Proof.
  intros N S motifs A. unfold node_attractors_b, node_attractors_of.
  rewrite filter_In, andb_true_iff, negb_true_iff. tauto.
Qed.

Lemma node_attractors_b_sound : forall N S motifs A, In A (node_attractors_b N S motifs) ->
  node_attr N S motifs (fun s => In s A).
Proof.
  intros N S motifs A H. apply node_attractors_b_spec in H.
  destruct H as [HA [Hin Hno]]. split; [|split].
  - apply (attractors_b_sound N A HA).
  - apply F_inside_b_spec. exact Hin.
  - intros [M [HM Hall]]. apply F_existsb_false in Hno. apply Hno.
    exists M. split; [exact HM|]. apply F_inside_b_spec. exact Hall.
Qed.

Lemma node_attractors_b_complete : forall N S motifs (A : state -> Prop), node_attr N S motifs A ->
  exists L, In L (node_attractors_b N S motifs) /\ forall s, A s <-> In s L.
Proof.
  intros N S motifs A [Hatt [Hin Hno]].
  pose proof Hatt as [[s0 Hs0] _].
  pose proof (attractor_member_in_attractor N A s0 Hatt Hs0) as Hia.
  destruct (attractors_b_complete N s0 Hia) as [L [HL HsL]].
  pose proof (attractors_b_sound N L HL) as [_ HattL].
  assert (Heq : forall s, A s <-> In s L).
  { intros s. apply (attractors_disjoint_or_equal N A (fun x => In x L) s0); assumption. }
  exists L. split; [|exact Heq].
  apply node_attractors_b_spec. split; [exact HL|]. split.
  - apply F_inside_b_spec. intros s Hs. apply Hin. apply Heq. exact Hs.
  - apply F_existsb_false. intros [M [HM HiM]]. apply Hno.
    exists M. split; [exact HM|]. intros s Hs.
    apply (proj1 (F_inside_b_spec L M) HiM). apply Heq. exact Hs.
Qed.

Lemma node_attractors_b_disjoint : forall N S motifs A B s,
  In A (node_attractors_b N S motifs) -> In B (node_attractors_b N S motifs) ->
  In s A -> In s B -> A = B.
Proof.
  intros N S motifs A B s HA HB HsA HsB.
  apply node_attractors_b_spec in HA. apply node_attractors_b_spec in HB.
  destruct HA as [HA _]. destruct HB as [HB _].
  eapply attractors_b_disjoint; eauto.
Qed.

Definition covers (N : net) (S : space) (motifs : list space) (cands : list state) : Prop :=
  forall A, node_attr N S motifs A -> exists c, In c cands /\ A c.

Definition one_to_one (N : net) (S : space) (motifs : list space) (seeds : list state) : Prop :=
  NoDup seeds /\
  (forall s, In s seeds -> exists A, node_attr N S motifs A /\ A s) /\
  (forall A s t, node_attr N S motifs A -> In s seeds -> In t seeds -> A s -> A t -> s = t) /\
  (forall A, node_attr N S motifs A -> exists s, In s seeds /\ A s).

(* covers, on the executable list of expected attractors *)
Lemma covers_iff : forall N S motifs cands,
  covers N S motifs cands <->
  forall L, In L (node_attractors_b N S motifs) ->
            existsb (fun c => mem_state c L) cands = true.
Proof.
  intros N S motifs cands. split.
  - intros Hcov L HL.
    destruct (Hcov _ (node_attractors_b_sound N S motifs L HL)) as [c [Hc HcL]].
    apply existsb_exists. exists c. split; [exact Hc|].
    apply A_mem_state_In. exact HcL.
  - intros H A HA.
    destruct (node_attractors_b_complete N S motifs A HA) as [L [HL Heq]].
    pose proof (H L HL) as Hex. apply existsb_exists in Hex.
    destruct Hex as [c [Hc Hm]]. exists c. split; [exact Hc|].
    apply Heq. apply A_mem_state_In. exact Hm.
Qed.

Lemma F_all_in_space : forall (Sp : space) (l : list state),
  find (fun c => negb (in_space c Sp)) l = None <->
  forall c, In c l -> in_space c Sp = true.
Proof.
  intros Sp l. rewrite F_find_none_iff. split; intros H c Hc.
  - apply negb_false_iff. apply H. exact Hc.
  - apply negb_false_iff. apply H. exact Hc.
Qed.

Lemma F_all_hit : forall (E : list (list state)) (l : list state),
  find (fun A => negb (existsb (fun c => mem_state c A) l)) E = None <->
  forall A, In A E -> existsb (fun c => mem_state c A) l = true.
Proof.
  intros E l. rewrite F_find_none_iff. split; intros H A HA.
  - apply negb_false_iff. apply H. exact HA.
  - apply negb_false_iff. apply H. exact HA.
Qed.

Theorem check_cover_ok : forall N S motifs cands,
  check_cover S (node_attractors_b N S motifs) cands = VOk <->
  (forall c, In c cands -> in_space c S = true) /\ covers N S motifs cands.
Proof.
  intros N S motifs cands. rewrite covers_iff.
  rewrite <- F_all_in_space, <- F_all_hit. unfold check_cover.
  destruct (find (fun c => negb (in_space c S)) cands) as [c|].
  - split; [discriminate | intros [H _]; discriminate].
  - destruct (find (fun A => negb (existsb (fun c => mem_state c A) cands))
                   (node_attractors_b N S motifs)) as [A|].
    + split; [discriminate | intros [_ H]; discriminate].
    + split; intros _; [split|]; reflexivity.
Qed.

(* ---------------- owner / first_dup ---------------- *)

Lemma owner_some : forall E s A, owner E s = Some A -> In A E /\ In s A.
Proof.
  intros E s A H. unfold owner in H. apply find_some in H.
  destruct H as [H1 H2]. split; [exact H1|]. apply A_mem_state_In. exact H2.
Qed.

Lemma owner_none : forall E s, owner E s = None -> forall A, In A E -> ~ In s A.
Proof.
  intros E s H A HA Hs. unfold owner in H.
  pose proof (find_none _ _ H A HA) as Hf. simpl in Hf.
  apply A_mem_state_false in Hf. contradiction.
Qed.

Definition E_disj (E : list (list state)) : Prop :=
  forall A B s, In A E -> In B E -> In s A -> In s B -> A = B.

Lemma owner_disj : forall E s A, E_disj E -> In A E -> In s A -> owner E s = Some A.
Proof.
  intros E s A Hd HA Hs. destruct (owner E s) as [B|] eqn:Ho.
  - apply owner_some in Ho. destruct Ho as [HB HsB].
    rewrite (Hd A B s HA HB Hs HsB). reflexivity.
  - exfalso. exact (owner_none E s Ho A HA Hs).
Qed.

Lemma F_all_owned : forall E (seeds : list state),
  find (fun s => match owner E s with None => true | Some _ => false end) seeds = None <->
  forall s, In s seeds -> exists A, In A E /\ In s A.
Proof.
  intros E seeds. rewrite F_find_none_iff. split; intros H s Hs.
  - specialize (H s Hs). simpl in H. destruct (owner E s) as [A|] eqn:Ho; [|discriminate].
    exists A. apply owner_some. exact Ho.
  - destruct (H s Hs) as [A [HA HsA]]. simpl.
    destruct (owner E s) as [B|] eqn:Ho; [reflexivity|].
    exfalso. exact (owner_none E s Ho A HA HsA).
Qed.

Lemma first_dup_none : forall E seeds, E_disj E ->
  (forall s, In s seeds -> exists A, In A E /\ In s A) ->
  (first_dup E seeds = None <->
   NoDup seeds /\
   forall A s t, In A E -> In s seeds -> In t seeds -> In s A -> In t A -> s = t).
Proof.
  intros E seeds Hd. induction seeds as [|s r IH]; intros Hown.
  - simpl. split; [|reflexivity]. intros _. split; [constructor|].
    intros A s t _ [].
  - assert (Hown' : forall x, In x r -> exists A, In A E /\ In x A).
    { intros x Hx. apply Hown. right. exact Hx. }
    destruct (Hown s (or_introl eq_refl)) as [A [HA HsA]].
    simpl. rewrite (owner_disj E s A Hd HA HsA).
    destruct (existsb (fun t => mem_state t A) r) eqn:Hex.
    + split; [discriminate|]. intros [Hnd Hinj]. exfalso.
      apply existsb_exists in Hex. destruct Hex as [t [Ht Hm]].
      apply A_mem_state_In in Hm.
      assert (Heq : s = t).
      { exact (Hinj A s t HA (or_introl eq_refl) (or_intror Ht) HsA Hm). }
      subst t. inversion Hnd as [|x l Hn Hnd']. contradiction.
    + apply F_existsb_false in Hex. rewrite (IH Hown'). split.
      * intros [Hnd Hinj]. split.
        -- constructor; [|exact Hnd]. intros Hs. apply Hex. exists s.
           split; [exact Hs|]. apply A_mem_state_In. exact HsA.
        -- intros B x y HB [Hx|Hx] [Hy|Hy] HxB HyB.
           ++ subst. reflexivity.
           ++ subst x. exfalso. apply Hex. exists y. split; [exact Hy|].
              apply A_mem_state_In. rewrite (Hd A B s HA HB HsA HxB). exact HyB.
           ++ subst y. exfalso. apply Hex. exists x. split; [exact Hx|].
              apply A_mem_state_In. rewrite (Hd A B s HA HB HsA HyB). exact HxB.
           ++ eapply Hinj; eauto.
      * intros [Hnd Hinj]. inversion Hnd as [|x l Hn Hnd']. subst. split; [exact Hnd'|].
        intros B x y HB Hx Hy HxB HyB.
        apply (Hinj B x y HB); auto; right; assumption.
Qed.

Lemma check_seeds_VOk_iff : forall S E seeds,
  check_seeds S E seeds = VOk <->
  (forall c, In c seeds -> in_space c S = true) /\
  (forall s, In s seeds -> exists A, In A E /\ In s A) /\
  first_dup E seeds = None /\
  (forall A, In A E -> existsb (fun c => mem_state c A) seeds = true).
Proof.
  intros S E seeds. rewrite <- F_all_in_space, <- F_all_owned, <- F_all_hit.
  unfold check_seeds.
  destruct (find (fun c => negb (in_space c S)) seeds) as [c|].
  { split; [discriminate | intros [H _]; discriminate]. }
  destruct (find (fun s => match owner E s with None => true | Some _ => false end) seeds) as [s|].
  { split; [discriminate | intros [_ [H _]]; discriminate]. }
  destruct (first_dup E seeds) as [s|].
  { split; [discriminate | intros [_ [_ [H _]]]; discriminate]. }
  destruct (find (fun A => negb (existsb (fun c => mem_state c A) seeds)) E) as [A|].
  { split; [discriminate | intros [_ [_ [_ H]]]; discriminate]. }
  split; intros _; repeat split; reflexivity.
Qed.

Lemma owned_iff : forall N S motifs (seeds : list state),
  (forall s, In s seeds -> exists A, In A (node_attractors_b N S motifs) /\ In s A) <->
  (forall s, In s seeds -> exists A, node_attr N S motifs A /\ A s).
Proof.
  intros N S motifs seeds. split; intros H s Hs.
  - destruct (H s Hs) as [L [HL HsL]]. exists (fun x => In x L).
    split; [apply node_attractors_b_sound; exact HL | exact HsL].
  - destruct (H s Hs) as [A [HA HsA]].
    destruct (node_attractors_b_complete N S motifs A HA) as [L [HL Heq]].
    exists L. split; [exact HL|]. apply Heq. exact HsA.
Qed.

Lemma inj_iff : forall N S motifs (seeds : list state),
  (forall L s t, In L (node_attractors_b N S motifs) -> In s seeds -> In t seeds ->
                 In s L -> In t L -> s = t) <->
  (forall A s t, node_attr N S motifs A -> In s seeds -> In t seeds -> A s -> A t -> s = t).
Proof.
  intros N S motifs seeds. split; intros H.
  - intros A s t HA Hs Ht HsA HtA.
    destruct (node_attractors_b_complete N S motifs A HA) as [L [HL Heq]].
    apply (H L s t HL Hs Ht); apply Heq; assumption.
  - intros L s t HL Hs Ht HsL HtL.
    apply (H (fun x => In x L) s t); auto.
    apply node_attractors_b_sound. exact HL.
Qed.

Theorem check_seeds_ok : forall N S motifs seeds,
  check_seeds S (node_attractors_b N S motifs) seeds = VOk <->
  (forall c, In c seeds -> in_space c S = true) /\ one_to_one N S motifs seeds.
Proof.
  intros N S motifs seeds. rewrite check_seeds_VOk_iff. unfold one_to_one.
  fold (covers N S motifs seeds). rewrite covers_iff.
  rewrite <- owned_iff, <- inj_iff.
  pose proof (node_attractors_b_disjoint N S motifs) as Hd.
  split.
  - intros [H1 [H2 [H3 H4]]].
    apply (first_dup_none _ seeds Hd H2) in H3. destruct H3 as [Hnd Hinj].
    repeat split; assumption.
  - intros [H1 [Hnd [H2 [Hinj H4]]]].
    repeat split; try assumption.
    apply (first_dup_none _ seeds Hd H2). split; assumption.
Qed.

Lemma same_set_spec : forall a b, same_set a b = true <-> forall x, In x a <-> In x b.
Proof.
  intros a b. unfold same_set. rewrite andb_true_iff, !forallb_forall. split.
  - intros [H1 H2] x. split; intros Hx; apply A_mem_state_In; auto.
  - intros H. split; intros x Hx; apply A_mem_state_In; apply H; exact Hx.
Qed.

Theorem check_sets_ok : forall N S motifs seeds sets,
  check_sets (node_attractors_b N S motifs) seeds sets = VOk ->
  length sets = length seeds /\
  forall i s X, nth_error seeds i = Some s -> nth_error sets i = Some X ->
    (forall t, In t X <-> reach N s t) /\ in_attractor N s.
Proof.
  intros N S motifs. induction seeds as [|s r IH]; intros [|X rx] H; simpl in H; try discriminate.
  - split; [reflexivity|]. intros [|i] s X Hs; discriminate.
  - destruct (owner (node_attractors_b N S motifs) s) as [A|] eqn:Ho; [|discriminate].
    destruct (same_set A X) eqn:Hss; [|discriminate].
    destruct (IH rx H) as [Hlen Hnth]. split; [simpl; rewrite Hlen; reflexivity|].
    apply owner_some in Ho. destruct Ho as [HA HsA].
    apply node_attractors_b_sound in HA. destruct HA as [Hatt _].
    pose proof (proj1 (same_set_spec A X) Hss) as Hsame.
    intros [|i] s' X' Hs' HX'; simpl in *.
    + injection Hs' as Hs'. injection HX' as HX'. subst s' X'. split.
      * intros t. rewrite <- Hsame.
        apply (attractor_is_class N (fun x => In x A) s Hatt HsA t).
      * apply (attractor_member_in_attractor N (fun x => In x A) s Hatt HsA).
    + eapply Hnth; eauto.
Qed.

(* ------------------------------------------------------------------ *)
(* PART B: the filtering loop                                          *)
(* ------------------------------------------------------------------ *)

Lemma remove_state_spec : forall c l t, In t (remove_state c l) <-> In t l /\ t <> c.
Proof.
  intros c l t. unfold remove_state. rewrite filter_In, negb_true_iff.
  rewrite A_eqb_state_false. tauto.
Qed.

Lemma in_avoid_space : forall a t M,
  In M (av_spaces a) -> in_space t M = true -> in_avoid a t = true.
Proof.
  intros a t M HM Ht. unfold in_avoid. apply orb_true_iff. left.
  apply existsb_exists. exists M. split; assumption.
Qed.

Lemma in_avoid_state : forall a t, In t (av_states a) -> in_avoid a t = true.
Proof.
  intros a t Ht. unfold in_avoid. apply orb_true_iff. right.
  apply A_mem_state_In. exact Ht.
Qed.

Lemma in_avoid_inv : forall a t, in_avoid a t = true ->
  (exists M, In M (av_spaces a) /\ in_space t M = true) \/ In t (av_states a).
Proof.
  intros a t H. unfold in_avoid in H. apply orb_true_iff in H. destruct H as [H|H].
  - left. apply existsb_exists in H. exact H.
  - right. apply A_mem_state_In. exact H.
Qed.

Lemma attractor_test_none : forall N c a, attractor_test N c a = None ->
  exists t, In t (reach_list N c) /\ in_avoid a t = true.
Proof.
  intros N c a H. unfold attractor_test in H.
  destruct (existsb (in_avoid a) (reach_list N c)) eqn:Hex; [|discriminate].
  apply existsb_exists in Hex. exact Hex.
Qed.

Lemma attractor_test_some : forall N c a cl, attractor_test N c a = Some cl ->
  cl = reach_list N c /\ forall t, In t (reach_list N c) -> in_avoid a t = false.
Proof.
  intros N c a cl H. unfold attractor_test in H.
  destruct (existsb (in_avoid a) (reach_list N c)) eqn:Hex; [discriminate|].
  injection H as H. split; [symmetry; exact H|].
  intros t Ht. destruct (in_avoid a t) eqn:Hav; [|reflexivity].
  exfalso. apply F_existsb_false in Hex. apply Hex. exists t. split; assumption.
Qed.

(* an attractor meeting a trap space lies inside it *)
Lemma attractor_meets_trap : forall N (A : state -> Prop) M t,
  attractor N A -> trap_space N M -> A t -> in_space t M = true ->
  forall s, A s -> in_space s M = true.
Proof.
  intros N A M t [_ [Hwf [_ Hmut]]] [_ Hcl] Ht HtM s Hs.
  assert (H : sp_states N M s).
  { apply (A_closed_reach N (sp_states N M) t s Hcl).
    - split; [apply Hwf; exact Ht | exact HtM].
    - apply Hmut; assumption. }
  exact (proj2 H).
Qed.

Lemma trap_reach_inside : forall N M s t,
  trap_space N M -> wf_state N s -> in_space s M = true -> reach N s t ->
  in_space t M = true.
Proof.
  intros N M s t [_ Hcl] Hwf Hs Hr.
  assert (H : sp_states N M t).
  { apply (A_closed_reach N (sp_states N M) s t Hcl); [split; assumption | exact Hr]. }
  exact (proj2 H).
Qed.

Section FilterInv.

Variable N : net.
Variable S : space.
Variable motifs : list space.
Variable cands0 : list state.
Hypothesis HS : trap_space N S.
Hypothesis Hmot : forall M, In M motifs -> trap_space N M /\ subspace M S = true.
Hypothesis Hnd : NoDup cands0.
Hypothesis HinS : forall c, In c cands0 -> in_space c S = true.
Hypothesis Hcov : covers N S motifs cands0.

(* the loop invariant: done = processed candidates, rest = pending candidates,
   seeds / sets = accepted seeds and their closures (most recent first) *)
Record finv (done rest : list state) (a : avoid_set)
            (seeds : list state) (sets : list (list state)) : Prop := {
  fi_split : cands0 = done ++ rest;
  fi_spaces : av_spaces a = motifs;
  fi_av_sub : forall t, In t (av_states a) ->
                In t rest \/ exists X, In X sets /\ In t X;
  fi_av_rest : forall t, In t rest -> In t (av_states a);
  fi_av_seeds : forall s, In s seeds -> In s (av_states a);
  fi_sets : Forall2 (fun s X => forall t, In t X <-> reach N s t) seeds sets;
  fi_done : forall s, In s seeds -> In s done;
  fi_nodup : NoDup seeds;
  fi_attr : forall s, In s seeds -> node_attr N S motifs (reach N s);
  fi_sep : forall s t, In s seeds -> In t seeds -> reach N s t -> s = t;
  fi_cov : forall A, node_attr N S motifs A ->
             (exists c, In c rest /\ A c) \/ (exists s, In s seeds /\ A s)
}.

Lemma cand_wf : forall c, In c cands0 -> wf_state N c.
Proof.
  intros c Hc. apply (in_space_wf N c S); [apply trap_space_length; exact HS|].
  apply HinS. exact Hc.
Qed.

Lemma finv_init :
  finv [] cands0 {| av_spaces := motifs; av_states := cands0 |} [] [].
Proof.
  constructor; simpl.
  - reflexivity.
  - reflexivity.
  - intros t Ht. left. exact Ht.
  - intros t Ht. exact Ht.
  - intros s [].
  - constructor.
  - intros s [].
  - constructor.
  - intros s [].
  - intros s t [].
  - intros A HA. left. apply Hcov. exact HA.
Qed.

(* facts about the candidate under test *)
Lemma finv_head : forall done c rest a seeds sets,
  finv done (c :: rest) a seeds sets ->
  In c cands0 /\ wf_state N c /\ in_space c S = true /\ ~ In c done /\ ~ In c rest.
Proof.
  intros done c rest a seeds sets I.
  assert (Hc : In c cands0).
  { rewrite (fi_split _ _ _ _ _ I). apply in_or_app. right. left. reflexivity. }
  split; [exact Hc|]. split; [apply cand_wf; exact Hc|]. split; [apply HinS; exact Hc|].
  pose proof Hnd as Hnd'. rewrite (fi_split _ _ _ _ _ I) in Hnd'.
  apply NoDup_remove_2 in Hnd'. split; intros H; apply Hnd'; apply in_or_app; auto.
Qed.

(* a state of the current avoid set, other than c, reachable from c, blocks acceptance *)
Lemma accept_contra : forall c (a : avoid_set) u,
  wf_state N c ->
  (forall t, In t (reach_list N c) ->
     in_avoid {| av_spaces := av_spaces a; av_states := remove_state c (av_states a) |} t = false) ->
  reach N c u -> In u (av_states a) -> u <> c -> False.
Proof.
  intros c a u Hwf Hacc Hr Hu Hne.
  assert (Hin : In u (reach_list N c)) by (apply reach_list_complete; assumption).
  specialize (Hacc u Hin).
  rewrite in_avoid_state in Hacc; [discriminate|].
  simpl. apply remove_state_spec. split; assumption.
Qed.

(* the closure of an accepted candidate is an attractor of the node *)
Lemma accept_node_attr : forall done c rest a seeds sets,
  finv done (c :: rest) a seeds sets ->
  (forall t, In t (reach_list N c) ->
     in_avoid {| av_spaces := av_spaces a; av_states := remove_state c (av_states a) |} t = false) ->
  node_attr N S motifs (reach N c).
Proof.
  intros done c rest a seeds sets I Hacc.
  destruct (finv_head _ _ _ _ _ _ I) as [Hc0 [Hwf [HcS [Hnd1 Hnd2]]]].
  destruct (reaches_attractor N c Hwf) as [t [Hct Hat]].
  pose proof (in_attractor_closed_class N t Hat) as HattA.
  assert (HA : node_attr N S motifs (reach N t)).
  { split; [exact HattA|]. split.
    - intros u Hu. apply (trap_reach_inside N S c u HS Hwf HcS).
      eapply A_reach_trans; eauto.
    - intros [M [HM Hall]].
      assert (Hin : In t (reach_list N c)) by (apply reach_list_complete; assumption).
      specialize (Hacc t Hin).
      rewrite (in_avoid_space _ t M) in Hacc; [discriminate| |].
      + simpl. rewrite (fi_spaces _ _ _ _ _ I). exact HM.
      + apply Hall. apply A_reach_refl. }
  destruct (fi_cov _ _ _ _ _ I _ HA) as [[c' [[Hc'|Hc'] HAc']]|[s [Hs HAs]]].
  - subst c'. apply (node_attr_ext N S motifs (reach N t)); [|exact HA].
    intros u. split; intros Hu.
    + eapply A_reach_trans; eauto.
    + eapply A_reach_trans; eauto.
  - exfalso. apply (accept_contra c a c' Hwf Hacc).
    + eapply A_reach_trans; eauto.
    + apply (fi_av_rest _ _ _ _ _ I). right. exact Hc'.
    + intros He. subst c'. contradiction.
  - exfalso. apply (accept_contra c a s Hwf Hacc).
    + eapply A_reach_trans; eauto.
    + apply (fi_av_seeds _ _ _ _ _ I). exact Hs.
    + intros He. subst s. apply Hnd1. apply (fi_done _ _ _ _ _ I). exact Hs.
Qed.

Lemma finv_reject : forall done c rest a seeds sets,
  finv done (c :: rest) a seeds sets ->
  attractor_test N c {| av_spaces := av_spaces a;
                        av_states := remove_state c (av_states a) |} = None ->
  finv (done ++ [c]) rest
       {| av_spaces := av_spaces a; av_states := remove_state c (av_states a) |}
       seeds sets.
Proof.
  intros done c rest a seeds sets I Htest.
  destruct (finv_head _ _ _ _ _ _ I) as [Hc0 [Hwf [HcS [Hnd1 Hnd2]]]].
  apply attractor_test_none in Htest. destruct Htest as [t [Hrt Hav]].
  apply reach_list_sound in Hrt.
  constructor; simpl.
  - rewrite <- app_assoc. simpl. apply (fi_split _ _ _ _ _ I).
  - apply (fi_spaces _ _ _ _ _ I).
  - intros u Hu. apply remove_state_spec in Hu. destruct Hu as [Hu Hne].
    destruct (fi_av_sub _ _ _ _ _ I u Hu) as [[He|Hr]|HX].
    + exfalso. apply Hne. symmetry. exact He.
    + left. exact Hr.
    + right. exact HX.
  - intros u Hu. apply remove_state_spec. split.
    + apply (fi_av_rest _ _ _ _ _ I). right. exact Hu.
    + intros He. subst u. contradiction.
  - intros s Hs. apply remove_state_spec. split.
    + apply (fi_av_seeds _ _ _ _ _ I). exact Hs.
    + intros He. subst s. apply Hnd1. apply (fi_done _ _ _ _ _ I). exact Hs.
  - apply (fi_sets _ _ _ _ _ I).
  - intros s Hs. apply in_or_app. left. apply (fi_done _ _ _ _ _ I). exact Hs.
  - apply (fi_nodup _ _ _ _ _ I).
  - apply (fi_attr _ _ _ _ _ I).
  - apply (fi_sep _ _ _ _ _ I).
  - intros A HA.
    destruct (fi_cov _ _ _ _ _ I A HA) as [[c' [[Hc'|Hc'] HAc']]|Hseed].
    + subst c'. pose proof HA as [HattA [_ HnoM]].
      assert (HAt : A t) by (apply (attractor_is_class N A c HattA HAc'); exact Hrt).
      apply in_avoid_inv in Hav. simpl in Hav. destruct Hav as [[M [HM HtM]]|Hst].
      * exfalso. apply HnoM. exists M. rewrite (fi_spaces _ _ _ _ _ I) in HM.
        split; [exact HM|].
        apply (attractor_meets_trap N A M t HattA (proj1 (Hmot M HM)) HAt HtM).
      * apply remove_state_spec in Hst. destruct Hst as [Hst Hne].
        destruct (fi_av_sub _ _ _ _ _ I t Hst) as [[He|Hr]|[X [HX HtX]]].
        -- exfalso. apply Hne. symmetry. exact He.
        -- left. exists t. split; assumption.
        -- right.
           destruct (F_Forall2_in_r _ _ _ _ _ X (fi_sets _ _ _ _ _ I) HX) as [s [Hs Hsp]].
           exists s. split; [exact Hs|].
           apply Hsp in HtX.
           pose proof (fi_attr _ _ _ _ _ I s Hs) as [HattS _].
           destruct HattA as [_ [_ [HclA _]]].
           apply (A_closed_reach N A t s HclA HAt).
           destruct HattS as [_ [_ [_ HmutS]]].
           apply HmutS; [exact HtX | apply A_reach_refl].
    + left. exists c'. split; assumption.
    + right. exact Hseed.
Qed.

Lemma finv_accept : forall done c rest a seeds sets cl,
  finv done (c :: rest) a seeds sets ->
  attractor_test N c {| av_spaces := av_spaces a;
                        av_states := remove_state c (av_states a) |} = Some cl ->
  finv (done ++ [c]) rest
       {| av_spaces := av_spaces a;
          av_states := cl ++ remove_state c (av_states a) |}
       (c :: seeds) (cl :: sets).
Proof.
  intros done c rest a seeds sets cl I Htest.
  destruct (finv_head _ _ _ _ _ _ I) as [Hc0 [Hwf [HcS [Hnd1 Hnd2]]]].
  apply attractor_test_some in Htest. destruct Htest as [Hcl Hacc]. subst cl.
  pose proof (accept_node_attr _ _ _ _ _ _ I Hacc) as Hnode.
  assert (Hold : forall s, In s seeds -> s <> c).
  { intros s Hs He. subst s. apply Hnd1. apply (fi_done _ _ _ _ _ I). exact Hs. }
  assert (Hnoreach : forall s, In s seeds -> ~ reach N c s).
  { intros s Hs Hr. apply (accept_contra c a s Hwf Hacc Hr).
    - apply (fi_av_seeds _ _ _ _ _ I). exact Hs.
    - apply Hold. exact Hs. }
  constructor; simpl.
  - rewrite <- app_assoc. simpl. apply (fi_split _ _ _ _ _ I).
  - apply (fi_spaces _ _ _ _ _ I).
  - intros u Hu. apply in_app_or in Hu. destruct Hu as [Hu|Hu].
    + right. exists (reach_list N c). split; [left; reflexivity | exact Hu].
    + apply remove_state_spec in Hu. destruct Hu as [Hu Hne].
      destruct (fi_av_sub _ _ _ _ _ I u Hu) as [[He|Hr]|[X [HX HuX]]].
      * exfalso. apply Hne. symmetry. exact He.
      * left. exact Hr.
      * right. exists X. split; [right; exact HX | exact HuX].
  - intros u Hu. apply in_or_app. right. apply remove_state_spec. split.
    + apply (fi_av_rest _ _ _ _ _ I). right. exact Hu.
    + intros He. subst u. contradiction.
  - intros s [Hs|Hs]; apply in_or_app.
    + subst s. left. apply A_reach_list_self. exact Hwf.
    + right. apply remove_state_spec. split.
      * apply (fi_av_seeds _ _ _ _ _ I). exact Hs.
      * apply Hold. exact Hs.
  - constructor; [|apply (fi_sets _ _ _ _ _ I)].
    intros t. apply A_reach_list_spec. exact Hwf.
  - intros s [Hs|Hs]; apply in_or_app.
    + subst s. right. left. reflexivity.
    + left. apply (fi_done _ _ _ _ _ I). exact Hs.
  - constructor; [|apply (fi_nodup _ _ _ _ _ I)].
    intros Hc. exact (Hold c Hc eq_refl).
  - intros s [Hs|Hs].
    + subst s. exact Hnode.
    + apply (fi_attr _ _ _ _ _ I). exact Hs.
  - intros s t [Hs|Hs] [Ht|Ht] Hr.
    + subst. reflexivity.
    + subst s. exfalso. exact (Hnoreach t Ht Hr).
    + subst t. exfalso. apply (Hnoreach s Hs).
      pose proof (fi_attr _ _ _ _ _ I s Hs) as [[_ [_ [_ Hmut]]] _].
      apply Hmut; [exact Hr | apply A_reach_refl].
    + apply (fi_sep _ _ _ _ _ I); assumption.
  - intros A HA.
    destruct (fi_cov _ _ _ _ _ I A HA) as [[c' [[Hc'|Hc'] HAc']]|[s [Hs HAs]]].
    + subst c'. right. exists c. split; [left; reflexivity | exact HAc'].
    + left. exists c'. split; assumption.
    + right. exists s. split; [right; exact Hs | exact HAs].
Qed.

(* The loop invariant: running the loop from a state satisfying the invariant either
   processes all candidates and ends in a state satisfying the invariant, or (only with
   seeds_only and minimal) stops at the last candidate with no seed accepted so far. *)
Lemma filter_loop_inv : forall so mi rest done a seeds sets res,
  finv done rest a seeds sets ->
  filter_loop N so mi a rest seeds sets = res ->
  (exists done' a' seeds' sets',
     finv done' [] a' seeds' sets' /\ res = (rev seeds', Some (rev sets'))) \/
  (so = true /\ mi = true /\
   exists done' a' c, finv done' [c] a' [] [] /\ res = ([c], None)).
Proof.
  intros so mi. induction rest as [|c rest IH]; intros done a seeds sets res I Hrun.
  - left. exists done, a, seeds, sets. split; [exact I|]. simpl in Hrun.
    symmetry. exact Hrun.
  - cbn [filter_loop] in Hrun.
    destruct (so && mi && (match rest with [] => true | _ => false end)
              && (match seeds with [] => true | _ => false end)) eqn:Hshort.
    + right. apply andb_true_iff in Hshort. destruct Hshort as [Hshort Hseeds].
      apply andb_true_iff in Hshort. destruct Hshort as [Hshort Hrest].
      apply andb_true_iff in Hshort. destruct Hshort as [Hso Hmi].
      destruct rest as [|x rest]; [|discriminate].
      destruct seeds as [|x seeds]; [|discriminate].
      pose proof (fi_sets _ _ _ _ _ I) as HF.
      destruct sets as [|X sets]; [|inversion HF].
      split; [exact Hso|]. split; [exact Hmi|].
      exists done, a, c. split; [exact I | symmetry; exact Hrun].
    + destruct (attractor_test N c
                  {| av_spaces := av_spaces a;
                     av_states := remove_state c (av_states a) |}) as [cl|] eqn:Htest.
      * apply (IH _ _ _ _ _ (finv_accept _ _ _ _ _ _ _ I Htest) Hrun).
      * apply (IH _ _ _ _ _ (finv_reject _ _ _ _ _ _ I Htest) Hrun).
Qed.

(* consequences of the invariant when no candidate is pending *)
Lemma finv_final : forall done a seeds sets,
  finv done [] a seeds sets ->
  one_to_one N S motifs (rev seeds) /\
  length (rev sets) = length (rev seeds) /\
  (forall i s X, nth_error (rev seeds) i = Some s -> nth_error (rev sets) i = Some X ->
                 forall t, In t X <-> reach N s t).
Proof.
  intros done a seeds sets I. split; [|split].
  - split; [|split; [|split]].
    + apply NoDup_rev. apply (fi_nodup _ _ _ _ _ I).
    + intros s Hs. apply in_rev in Hs. exists (reach N s).
      split; [apply (fi_attr _ _ _ _ _ I); exact Hs | apply A_reach_refl].
    + intros A s t HA Hs Ht HAs HAt. apply in_rev in Hs. apply in_rev in Ht.
      apply (fi_sep _ _ _ _ _ I); auto.
      destruct HA as [[_ [_ [_ Hmut]]] _]. apply Hmut; assumption.
    + intros A HA. destruct (fi_cov _ _ _ _ _ I A HA) as [[c [[] _]]|[s [Hs HAs]]].
      exists s. split; [apply in_rev in Hs; exact Hs | exact HAs].
  - rewrite !rev_length. symmetry.
    apply (F_Forall2_length _ _ _ _ _ (fi_sets _ _ _ _ _ I)).
  - intros i s X Hs HX.
    apply (F_Forall2_nth_error _ _ _ _ _ (F_Forall2_rev _ _ _ _ _ (fi_sets _ _ _ _ _ I))
             i s X Hs HX).
Qed.

(* the seeds_only shortcut: with no motifs, a single pending candidate and no seed *)
Lemma finv_shortcut : forall done a c,
  motifs = [] -> finv done [c] a [] [] -> one_to_one N S motifs [c].
Proof.
  intros done a c Hm I.
  destruct (finv_head _ _ _ _ _ _ I) as [Hc0 [Hwf [HcS _]]].
  assert (Honly : forall A, node_attr N S motifs A -> A c).
  { intros A HA. destruct (fi_cov _ _ _ _ _ I A HA) as [[c' [[Hc'|[]] HAc']]|[s [[] _]]].
    subst c'. exact HAc'. }
  split; [|split; [|split]].
  - constructor; [intros [] | constructor].
  - intros s [Hs|[]]. subst s.
    destruct (reaches_attractor N c Hwf) as [t [Hct Hat]].
    exists (reach N t).
    assert (HA : node_attr N S motifs (reach N t)).
    { split; [apply in_attractor_closed_class; exact Hat|]. split.
      - intros u Hu. apply (trap_reach_inside N S c u HS Hwf HcS).
        eapply A_reach_trans; eauto.
      - rewrite Hm. intros [M [[] _]]. }
    split; [exact HA | apply Honly; exact HA].
  - intros A s t _ [Hs|[]] [Ht|[]] _ _. subst. reflexivity.
  - intros A HA. exists c. split; [left; reflexivity | apply Honly; exact HA].
Qed.

End FilterInv.

(* ---------------- the filtering theorems ---------------- *)

Theorem filter_exact : forall N S motifs cands seeds sets,
  trap_space N S -> (forall M, In M motifs -> trap_space N M /\ subspace M S = true) ->
  NoDup cands -> (forall c, In c cands -> in_space c S = true) ->
  covers N S motifs cands ->
  compute_attractors_filter N false motifs cands = (seeds, Some sets) ->
  one_to_one N S motifs seeds /\
  length sets = length seeds /\
  (forall i s X, nth_error seeds i = Some s -> nth_error sets i = Some X -> forall t, In t X <-> reach N s t).
Proof.
  intros N S motifs cands seeds sets HS Hmot Hnd HinS Hcov Hrun.
  unfold compute_attractors_filter in Hrun.
  destruct (filter_loop_inv N S motifs cands HS Hmot Hnd HinS _ _ _ _ _ _ _ _
              (finv_init N S motifs cands Hcov) Hrun)
    as [[done' [a' [seeds' [sets' [I Hres]]]]]|[Hso _]]; [|discriminate].
  injection Hres as Hs1 Hs2. subst seeds sets.
  exact (finv_final N S motifs cands done' a' seeds' sets' I).
Qed.

Theorem filter_exact_seeds_only : forall N S motifs cands seeds osets,
  trap_space N S -> (forall M, In M motifs -> trap_space N M /\ subspace M S = true) ->
  NoDup cands -> (forall c, In c cands -> in_space c S = true) ->
  covers N S motifs cands ->
  compute_attractors_filter N true motifs cands = (seeds, osets) ->
  one_to_one N S motifs seeds.
Proof.
  intros N S motifs cands seeds osets HS Hmot Hnd HinS Hcov Hrun.
  unfold compute_attractors_filter in Hrun.
  destruct (filter_loop_inv N S motifs cands HS Hmot Hnd HinS _ _ _ _ _ _ _ _
              (finv_init N S motifs cands Hcov) Hrun)
    as [[done' [a' [seeds' [sets' [I Hres]]]]]|[_ [Hmi [done' [a' [c [I Hres]]]]]]].
  - injection Hres as Hs1 Hs2. subst seeds osets.
    exact (proj1 (finv_final N S motifs cands done' a' seeds' sets' I)).
  - injection Hres as Hs1 Hs2. subst seeds osets.
    assert (Hm : motifs = []) by (destruct motifs; [reflexivity | discriminate]).
    exact (finv_shortcut N S motifs cands HS Hnd HinS done' a' c Hm I).
Qed.

Print Assumptions filter_exact.
Print Assumptions filter_exact_seeds_only.
Print Assumptions check_seeds_ok.
