(* PetriNet.v -- model of petri_net_translation.py (implicant Petri net, restriction) and of the
   logic programs of trappist_core.py.  Definitions only. *)
From Coq Require Import List Bool Arith.
Import ListNotations.
From BB Require Import BN Brute.

(* a place is (variable, polarity): (v,true) = "b1_v", (v,false) = "b0_v" *)
Definition place := (nat * bool)%type.
Definition eqb_place (a b : place) : bool := Nat.eqb (fst a) (fst b) && Bool.eqb (snd a) (snd b).
Definition mem_place (a : place) (l : list place) : bool := existsb (eqb_place a) l.

(* transition "tr_<var>_<up|down>_k": moves t_var from (negb t_up) to t_up when the
   implicant t_cond (literals on the OTHER variables; position t_var is None) holds *)
Record transition := { t_var : nat; t_up : bool; t_cond : space }.
Record pnet := { p_vars : list nat; p_trans : list transition }.

Fixpoint cond_places_from (i : nat) (c : space) : list place :=
  match c with
  | [] => []
  | None :: r => cond_places_from (S i) r
  | Some b :: r => (i, b) :: cond_places_from (S i) r
  end.
Definition cond_places (t : transition) : list place := cond_places_from 0 (t_cond t).
Definition pre_places (t : transition) : list place := (t_var t, negb (t_up t)) :: cond_places t.
Definition post_places (t : transition) : list place := (t_var t, t_up t) :: cond_places t.

(* marking of a state: place (v,b) holds a token iff s_v = b *)
Definition marked (s : state) (p : place) : bool := Bool.eqb (nth (fst p) s false) (snd p).
Definition enabled (s : state) (t : transition) : bool := forallb (marked s) (pre_places t).
Definition fire (s : state) (t : transition) : state := set_nth (t_var t) (t_up t) s.

(* ---- network_to_petrinet: the implicants come from the BDD-based DNF generator (tape) ---- *)
(* impl i up = implicants of  f_i & !x_i  (up = true)  resp.  !f_i & x_i  (up = false) *)
Definition clear_pos (i : nat) (c : space) : space := set_nth i None c.
Definition net_to_pn (n : nat) (impl : nat -> bool -> list space) : pnet :=
  {| p_vars := seq 0 n;
     p_trans := flat_map (fun i =>
        map (fun c => {| t_var := i; t_up := true; t_cond := clear_pos i c |}) (impl i true) ++
        map (fun c => {| t_var := i; t_up := false; t_cond := clear_pos i c |}) (impl i false))
        (seq 0 n) |}.

(* the DNF contract: the implicants of (i, up) are satisfied by exactly the states where
   f_i disagrees with x_i in that direction *)
Definition impl_cover (N : net) (impl : nat -> bool -> list space) : Prop :=
  forall i up s, i < nvars N -> length s = nvars N ->
    ((exists c, In c (impl i up) /\ in_space s c = true) <->
     (upd N i s = up /\ nth i s false = negb up)).

(* faithfulness of a net w.r.t. a network on the states of a space S, for the variables free in S *)
Definition pn_faithful_on (N : net) (S : space) (pn : pnet) : Prop :=
  forall s, length s = nvars N -> in_space s S = true ->
  forall i up, i < nvars N -> nth i S None = None ->
    ((exists t, In t (p_trans pn) /\ t_var t = i /\ t_up t = up /\ enabled s t = true) <->
     (upd N i s = up /\ nth i s false = negb up)).
Definition pn_faithful (N : net) (pn : pnet) : Prop := pn_faithful_on N (top_space (nvars N)) pn.

(* executable check used on the real Petri nets *)
Definition pn_faithful_b (N : net) (S : space) (pn : pnet) : bool :=
  forallb (fun s =>
    forallb (fun i =>
      match nth i S None with
      | Some _ => true
      | None =>
          forallb (fun up =>
            Bool.eqb (existsb (fun t => Nat.eqb (t_var t) i && Bool.eqb (t_up t) up && enabled s t) (p_trans pn))
                     (Bool.eqb (upd N i s) up && Bool.eqb (nth i s false) (negb up)))
            [true; false]
      end) (seq 0 (nvars N))) (states_of S).

(* ---- restrict_petrinet_to_subspace ---- *)
Definition cond_compatible (c S : space) : bool :=
  forallb (fun p => match p with
                    | (Some b, Some v) => Bool.eqb b v
                    | _ => true
                    end) (combine c S).
Fixpoint clear_fixed (c S : space) : space :=
  match c, S with
  | x :: c', o :: S' => (match o with Some _ => None | None => x end) :: clear_fixed c' S'
  | _, _ => c
  end.
Definition restrict_pn (pn : pnet) (S : space) : pnet :=
  {| p_vars := filter (fun v => match nth v S None with None => true | Some _ => false end) (p_vars pn);
     p_trans := map (fun t => {| t_var := t_var t; t_up := t_up t; t_cond := clear_fixed (t_cond t) S |})
                    (filter (fun t => (match nth (t_var t) S None with None => true | Some _ => false end)
                                      && cond_compatible (t_cond t) S) (p_trans pn)) |}.

(* variables of the net without any transition changing them (extract_source_variables) *)
Definition pn_sources (pn : pnet) : list nat :=
  filter (fun v => negb (existsb (fun t => Nat.eqb (t_var t) v) (p_trans pn))) (p_vars pn).

(* ---- reduced net of compute_fixed_point_reduced_STG: drop the transitions that move a
   retained variable away from its retained value ---- *)
Definition reduce_pn (pn : pnet) (R : space) : pnet :=
  {| p_vars := p_vars pn;
     p_trans := filter (fun t => match nth (t_var t) R None with
                                 | Some b => negb (Bool.eqb (t_up t) (negb b))
                                 | None => true
                                 end) (p_trans pn) |}.

(* ---- logic programs ---- *)
Inductive rule :=
| RChoice (a : place)                       (* {a}. *)
| RConstraint (body : list place)           (* :- b1, ..., bk. *)
| RFact (a : place)                         (* a. *)
| RDisj (heads body : list place)           (* h1; ...; hk :- b1, ..., bm.   (body may be empty) *)
| RFalse.                                   (* #false. *)

Definition interp := place -> bool.
Definition sat (M : interp) (r : rule) : bool :=
  match r with
  | RChoice _ => true
  | RConstraint body => negb (forallb M body)
  | RFact a => M a
  | RDisj heads body => negb (forallb M body) || existsb M heads
  | RFalse => false
  end.
Definition is_model (M : interp) (prog : list rule) : bool := forallb (sat M) prog.

Inductive problem := PMin | PMax | PFix.

Definition fixed_vars (S : space) : list (nat * bool) := cond_places_from 0 S.

(* _create_clingo_constraints *)
Definition trap_program (pb : problem) (reverse : bool) (pn : pnet)
           (ensure : space) (avoid : list space) (sources : list nat) : list rule :=
  flat_map (fun v => [RChoice (v, true); RChoice (v, false); RConstraint [(v, true); (v, false)]]
                     ++ match pb with PFix => [RDisj [(v, true); (v, false)] []] | _ => [] end) (p_vars pn)
  ++ map (fun vb => RFact (fst vb, negb (snd vb))) (fixed_vars ensure)
  ++ map (fun a => RConstraint (map (fun vb => (fst vb, negb (snd vb))) (fixed_vars a))) avoid
  ++ flat_map (fun t =>
       if reverse
       then map (fun p => RDisj (post_places t) [p])
                (filter (fun p => negb (mem_place p (post_places t))) (pre_places t))
       else map (fun s => RDisj (pre_places t) [s])
                (filter (fun s => negb (mem_place s (pre_places t))) (post_places t))) (p_trans pn)
  ++ match pb with
     | PMax =>
         let free := flat_map (fun v => match nth v ensure None with
                                        | None => [(v, true); (v, false)]
                                        | Some _ => [] end) (p_vars pn) in
         match free with
         | [] => []
         | _ => RDisj free [] ::
                map (fun v => RDisj [(v, true); (v, false)] [])
                    (filter (fun v => match nth v ensure None with None => true | Some _ => false end) sources)
         end
     | _ => []
     end.

(* _clingo_model_to_space: a true atom b1_v means v is fixed to 0 (inverted polarity) *)
Definition space_of_model (n : nat) (M : interp) : space :=
  map (fun v => if M (v, true) then Some false else if M (v, false) then Some true else None) (seq 0 n).
Definition model_of_space (S : space) : interp :=
  fun p => match nth (fst p) S None with Some v => Bool.eqb v (negb (snd p)) | None => false end.

(* avoid spaces are processed in order; an empty one (covering everything) emits #false and stops *)
Fixpoint avoid_rules (avoid : list space) : list rule :=
  match avoid with
  | [] => []
  | a :: r => match fixed_vars a with
              | [] => [RFalse]
              | fv => RConstraint fv :: avoid_rules r
              end
  end.

(* _create_clingo_fixed_point_constraints (on the reduced net) *)
Definition deadlock_program (pn : pnet) (ensure : space) (avoid : list space) : list rule :=
  flat_map (fun v => [RChoice (v, true); RChoice (v, false); RConstraint [(v, true); (v, false)];
                      RDisj [(v, true); (v, false)] []]) (p_vars pn)
  ++ map (fun t => RConstraint (pre_places t)) (p_trans pn)
  ++ map (fun vb => RFact vb) (fixed_vars ensure)
  ++ avoid_rules avoid.

(* _clingo_model_to_fixed_point: positive polarity *)
Definition state_of_model (n : nat) (M : interp) : state := map (fun v => M (v, true)) (seq 0 n).
Definition model_of_state (s : state) : interp := fun p => Bool.eqb (nth (fst p) s false) (snd p).

(* time reversal: a space no transition enters *)
Definition rev_trap_space (N : net) (S : space) : Prop :=
  length S = nvars N /\
  forall s t, length s = nvars N -> trans N s t -> in_space t S = true -> in_space s S = true.
