(* SpaceFacts.v -- basic facts about states, spaces, the subspace order,
   intersection/merge, the brute-force enumerations and the integer key. *)
From Coq Require Import List Bool Arith NArith Lia.
Import ListNotations.
From BB Require Import BN Brute.

(* ------------------------------------------------------------------ *)
(* equality tests                                                      *)
(* ------------------------------------------------------------------ *)

Lemma eqb_state_spec : forall x y : state, eqb_state x y = true <-> x = y.
Proof.
  induction x as [|a x IH]; intros [|b y]; simpl; split; intro H;
    try reflexivity; try discriminate.
  - apply andb_true_iff in H. destruct H as [Hab Hxy].
    apply eqb_prop in Hab. apply IH in Hxy. subst. reflexivity.
  - injection H as Hab Hxy. subst. rewrite eqb_reflx. simpl.
    apply IH. reflexivity.
Qed.

Lemma eqb_ob_spec : forall a b : option bool, eqb_ob a b = true <-> a = b.
Proof.
  intros [[|]|] [[|]|]; simpl; split; intro H;
    try reflexivity; try discriminate.
Qed.

Lemma eqb_space_spec : forall x y : space, eqb_space x y = true <-> x = y.
Proof.
  induction x as [|a x IH]; intros [|b y]; simpl; split; intro H;
    try reflexivity; try discriminate.
  - apply andb_true_iff in H. destruct H as [Hab Hxy].
    apply eqb_ob_spec in Hab. apply IH in Hxy. subst. reflexivity.
  - injection H as Hab Hxy. subst.
    apply andb_true_iff. split.
    + apply eqb_ob_spec. reflexivity.
    + apply IH. reflexivity.
Qed.

Lemma mem_state_spec : forall s l, mem_state s l = true <-> In s l.
Proof.
  intros s l. unfold mem_state. rewrite existsb_exists. split.
  - intros [x [Hin Heq]]. apply eqb_state_spec in Heq. subst. exact Hin.
  - intro Hin. exists s. split; [exact Hin|]. apply eqb_state_spec. reflexivity.
Qed.

Lemma mem_space_spec : forall s l, mem_space s l = true <-> In s l.
Proof.
  intros s l. unfold mem_space. rewrite existsb_exists. split.
  - intros [x [Hin Heq]]. apply eqb_space_spec in Heq. subst. exact Hin.
  - intro Hin. exists s. split; [exact Hin|]. apply eqb_space_spec. reflexivity.
Qed.

(* ------------------------------------------------------------------ *)
(* set_nth                                                             *)
(* ------------------------------------------------------------------ *)

Lemma set_nth_length : forall A i (v : A) l, length (set_nth i v l) = length l.
Proof.
  intros A i v l. revert i.
  induction l as [|h t IH]; intros [|i]; simpl; try reflexivity.
  rewrite IH. reflexivity.
Qed.

Lemma nth_set_nth_eq : forall A i (v d : A) l, i < length l -> nth i (set_nth i v l) d = v.
Proof.
  intros A i v d l. revert i.
  induction l as [|h t IH]; intros [|i] Hlt; simpl in *; try lia.
  - reflexivity.
  - apply IH. lia.
Qed.

Lemma nth_set_nth_neq : forall A i j (v d : A) l, i <> j -> nth j (set_nth i v l) d = nth j l d.
Proof.
  intros A i j v d l. revert i j.
  induction l as [|h t IH]; intros [|i] [|j] Hne; simpl; try reflexivity.
  - exfalso. apply Hne. reflexivity.
  - apply IH. intro Heq. apply Hne. subst. reflexivity.
Qed.

Lemma set_nth_same : forall A i (d : A) l, i < length l -> set_nth i (nth i l d) l = l.
Proof.
  intros A i d l. revert i.
  induction l as [|h t IH]; intros [|i] Hlt; simpl in *; try lia.
  - reflexivity.
  - rewrite IH; [reflexivity | lia].
Qed.

(* ------------------------------------------------------------------ *)
(* membership and lengths                                              *)
(* ------------------------------------------------------------------ *)

Lemma in_space_length : forall s S, in_space s S = true -> length s = length S.
Proof.
  induction s as [|b s IH]; intros [|o S] H; simpl in *;
    try reflexivity; try discriminate.
  apply andb_true_iff in H. destruct H as [_ Hr].
  rewrite (IH S Hr). reflexivity.
Qed.

Lemma in_space_nth : forall s S, length s = length S ->
  (in_space s S = true <-> forall i v, nth i S None = Some v -> nth i s false = v).
Proof.
  induction s as [|b s IH]; intros [|o S] Hlen; simpl in *; try discriminate.
  - split.
    + intros _ i v Hn. destruct i; discriminate.
    + intros _. reflexivity.
  - injection Hlen as Hlen. split.
    + intros H. apply andb_true_iff in H. destruct H as [Ho Hr].
      intros [|i] v Hn.
      * subst o. apply eqb_prop in Ho. exact Ho.
      * apply (proj1 (IH S Hlen) Hr i v Hn).
    + intros H. apply andb_true_iff. split.
      * destruct o as [v|]; [|reflexivity].
        specialize (H 0 v eq_refl). simpl in H. subst. apply eqb_reflx.
      * apply (IH S Hlen). intros i v Hn. apply (H (Datatypes.S i) v Hn).
Qed.

Lemma in_space_set_nth_free : forall s S i b, in_space s S = true -> nth i S None = None ->
  in_space (set_nth i b s) S = true.
Proof.
  induction s as [|a s IH]; intros [|o S] i b Hin Hn; simpl in *; try discriminate.
  - destruct i; reflexivity.
  - apply andb_true_iff in Hin. destruct Hin as [Ho Hr].
    destruct i as [|i]; simpl in *.
    + subst o. exact Hr.
    + rewrite Ho. simpl. apply IH; assumption.
Qed.

Lemma in_space_set_nth_fixed : forall s S i v, in_space s S = true -> i < length S ->
  in_space s (set_nth i (Some v) S) = Bool.eqb (nth i s false) v.
Proof.
  induction s as [|a s IH]; intros [|o S] i v Hin Hlt; simpl in *;
    try discriminate; try lia.
  apply andb_true_iff in Hin. destruct Hin as [Ho Hr].
  destruct i as [|i]; simpl.
  - rewrite Hr. apply andb_true_r.
  - rewrite Ho. simpl. apply IH; [exact Hr | lia].
Qed.

(* every space contains a state *)
Lemma space_nonempty : forall S : space, exists s, in_space s S = true.
Proof.
  induction S as [|o S [s Hs]].
  - exists []. reflexivity.
  - exists (match o with Some v => v | None => false end :: s).
    simpl. rewrite Hs. destruct o as [v|]; [rewrite eqb_reflx|]; reflexivity.
Qed.

(* ------------------------------------------------------------------ *)
(* subspace order                                                      *)
(* ------------------------------------------------------------------ *)

Lemma subspace_length : forall x y, subspace x y = true -> length x = length y.
Proof.
  induction x as [|a x IH]; intros [|b y] H; simpl in *;
    try reflexivity; try discriminate.
  apply andb_true_iff in H. destruct H as [_ Hr].
  rewrite (IH y Hr). reflexivity.
Qed.

Lemma subspace_refl : forall x, subspace x x = true.
Proof.
  induction x as [|a x IH]; simpl; [reflexivity|].
  rewrite IH. destruct a as [v|]; [rewrite eqb_reflx|]; reflexivity.
Qed.

Lemma subspace_trans : forall x y z, subspace x y = true -> subspace y z = true -> subspace x z = true.
Proof.
  induction x as [|a x IH]; intros [|b y] [|c z] Hxy Hyz; simpl in *;
    try reflexivity; try discriminate.
  apply andb_true_iff in Hxy. destruct Hxy as [Hab Hxy].
  apply andb_true_iff in Hyz. destruct Hyz as [Hbc Hyz].
  apply andb_true_iff. split; [|apply (IH y z Hxy Hyz)].
  destruct a as [a|], b as [b|], c as [c|]; simpl in *;
    try reflexivity; try discriminate.
  apply eqb_prop in Hab. apply eqb_prop in Hbc. subst. apply eqb_reflx.
Qed.

Lemma subspace_antisym : forall x y, subspace x y = true -> subspace y x = true -> x = y.
Proof.
  induction x as [|a x IH]; intros [|b y] Hxy Hyx; simpl in *;
    try reflexivity; try discriminate.
  apply andb_true_iff in Hxy. destruct Hxy as [Hab Hxy].
  apply andb_true_iff in Hyx. destruct Hyx as [Hba Hyx].
  rewrite (IH y Hxy Hyx).
  destruct a as [a|], b as [b|]; simpl in *;
    try reflexivity; try discriminate.
  apply eqb_prop in Hab. subst. reflexivity.
Qed.

Lemma subspace_spec : forall x y, length x = length y ->
  (subspace x y = true <-> forall s, in_space s x = true -> in_space s y = true).
Proof.
  induction x as [|a x IH]; intros [|b y] Hlen; simpl in *; try discriminate.
  - split; [intros _ s Hs; exact Hs | intros _; reflexivity].
  - injection Hlen as Hlen. split.
    + intros H. apply andb_true_iff in H. destruct H as [Hab Hxy].
      intros [|c s] Hs; simpl in *; [discriminate|].
      apply andb_true_iff in Hs. destruct Hs as [Hc Hs].
      apply andb_true_iff. split.
      * destruct b as [v|]; [|reflexivity].
        destruct a as [w|]; [|discriminate].
        apply eqb_prop in Hab. subst. exact Hc.
      * apply (proj1 (IH y Hlen) Hxy s Hs).
    + intros H. apply andb_true_iff. split.
      * destruct b as [v|]; [|reflexivity].
        destruct (space_nonempty x) as [s Hs].
        destruct a as [w|].
        -- specialize (H (w :: s)). simpl in H. rewrite Hs, eqb_reflx in H.
           specialize (H eq_refl). apply andb_true_iff in H.
           destruct H as [Hwv _]. apply eqb_prop in Hwv. subst. apply eqb_reflx.
        -- specialize (H (negb v :: s)). simpl in H. rewrite Hs in H.
           specialize (H eq_refl). apply andb_true_iff in H.
           destruct H as [Hnv _]. destruct v; discriminate.
      * apply (IH y Hlen). intros s Hs.
        specialize (H (match a with Some v => v | None => false end :: s)).
        simpl in H. rewrite Hs in H.
        assert (Hhd : match a with
                      | Some v => Bool.eqb (match a with Some v0 => v0 | None => false end) v
                      | None => true end = true).
        { destruct a as [w|]; [apply eqb_reflx | reflexivity]. }
        rewrite Hhd in H. specialize (H eq_refl).
        apply andb_true_iff in H. destruct H as [_ Hr]. exact Hr.
Qed.

Lemma subspace_nth : forall x y, length x = length y ->
  (subspace x y = true <-> forall i v, nth i y None = Some v -> nth i x None = Some v).
Proof.
  induction x as [|a x IH]; intros [|b y] Hlen; simpl in *; try discriminate.
  - split.
    + intros _ i v Hn. destruct i; discriminate.
    + intros _. reflexivity.
  - injection Hlen as Hlen. split.
    + intros H. apply andb_true_iff in H. destruct H as [Hab Hxy].
      intros [|i] v Hn.
      * subst b. destruct a as [w|]; [|discriminate].
        apply eqb_prop in Hab. subst. reflexivity.
      * apply (proj1 (IH y Hlen) Hxy i v Hn).
    + intros H. apply andb_true_iff. split.
      * destruct b as [v|]; [|reflexivity].
        specialize (H 0 v eq_refl). simpl in H. subst. apply eqb_reflx.
      * apply (IH y Hlen). intros i v Hn. apply (H (S i) v Hn).
Qed.

Lemma subspace_top : forall x, subspace x (top_space (length x)) = true.
Proof.
  induction x as [|a x IH]; simpl; [reflexivity | exact IH].
Qed.

(* ------------------------------------------------------------------ *)
(* intersection and merge                                              *)
(* ------------------------------------------------------------------ *)

Lemma intersect_length : forall x y z, intersect x y = Some z -> length z = length x /\ length z = length y.
Proof.
  induction x as [|a x IH]; intros [|b y] z H; simpl in *; try discriminate.
  - injection H as H. subst. split; reflexivity.
  - destruct (intersect x y) as [r|] eqn:E; [|discriminate].
    destruct (IH y r E) as [Hx Hy].
    destruct a as [v|], b as [w|];
      try (injection H as H; subst; simpl; split; congruence).
    destruct (Bool.eqb v w); [|discriminate].
    injection H as H. subst. simpl. split; congruence.
Qed.

Lemma intersect_spec_some : forall x y z, intersect x y = Some z ->
  forall s, in_space s z = in_space s x && in_space s y.
Proof.
  induction x as [|a x IH]; intros [|b y] z H s; simpl in *; try discriminate.
  - injection H as H. subst. destruct s; reflexivity.
  - destruct (intersect x y) as [r|] eqn:E; [|discriminate].
    assert (Hr : forall t, in_space t r = in_space t x && in_space t y).
    { apply (IH y r E). }
    assert (Hz : exists c, z = c :: r /\
                 forall h : bool,
                   match c with None => true | Some v => Bool.eqb h v end =
                   match a with None => true | Some v => Bool.eqb h v end &&
                   match b with None => true | Some v => Bool.eqb h v end).
    { destruct a as [v|], b as [w|].
      - destruct (Bool.eqb v w) eqn:Evw; [|discriminate].
        injection H as H. exists (Some v). split; [congruence|].
        apply eqb_prop in Evw. subst. intro h. destruct (Bool.eqb h w); reflexivity.
      - injection H as H. exists (Some v). split; [congruence|].
        intro h. rewrite andb_true_r. reflexivity.
      - injection H as H. exists (Some w). split; [congruence|]. reflexivity.
      - injection H as H. exists None. split; [congruence|]. reflexivity. }
    destruct Hz as [c [Hzc Hc]]. subst z.
    destruct s as [|h s]; simpl; [reflexivity|].
    rewrite Hc, Hr.
    destruct (match a with None => true | Some v => Bool.eqb h v end);
      destruct (match b with None => true | Some v => Bool.eqb h v end);
      destruct (in_space s x); destruct (in_space s y); reflexivity.
Qed.

Lemma intersect_spec_none : forall x y, length x = length y -> intersect x y = None ->
  forall s, in_space s x && in_space s y = false.
Proof.
  induction x as [|a x IH]; intros [|b y] Hlen H s; simpl in *; try discriminate.
  injection Hlen as Hlen.
  destruct s as [|h s]; [reflexivity|].
  destruct (intersect x y) as [r|] eqn:E.
  - destruct a as [v|], b as [w|]; try discriminate.
    destruct (Bool.eqb v w) eqn:Evw; [discriminate|].
    destruct h, v, w; simpl in *; try discriminate; try reflexivity;
      apply andb_false_r.
  - specialize (IH y Hlen E s). simpl.
    destruct (match a with Some v => Bool.eqb h v | None => true end);
      destruct (match b with Some v => Bool.eqb h v | None => true end);
      destruct (in_space s x); destruct (in_space s y);
      simpl in IH; try reflexivity; discriminate.
Qed.

Lemma merge_length : forall x y, length x = length y -> length (merge x y) = length x.
Proof.
  induction x as [|a x IH]; intros [|b y] Hlen; simpl in *; try discriminate.
  - reflexivity.
  - injection Hlen as Hlen. rewrite (IH y Hlen). reflexivity.
Qed.

Lemma merge_subspace_r : forall x y, length x = length y -> subspace (merge x y) y = true.
Proof.
  induction x as [|a x IH]; intros [|b y] Hlen; simpl in *; try discriminate.
  - reflexivity.
  - injection Hlen as Hlen. rewrite (IH y Hlen).
    destruct b as [v|]; [rewrite eqb_reflx|]; reflexivity.
Qed.

Lemma merge_of_subspace : forall x y, subspace x y = true -> merge y x = x.
Proof.
  induction x as [|a x IH]; intros [|b y] H; simpl in *;
    try reflexivity; try discriminate.
  apply andb_true_iff in H. destruct H as [Hab Hxy].
  rewrite (IH y Hxy).
  destruct a as [w|]; [reflexivity|].
  destruct b as [v|]; [discriminate | reflexivity].
Qed.

(* ------------------------------------------------------------------ *)
(* enumerations                                                        *)
(* ------------------------------------------------------------------ *)

Lemma NoDup_map_cons : forall A (a : A) (l : list (list A)),
  NoDup l -> NoDup (map (cons a) l).
Proof.
  intros A a l Hnd. induction Hnd as [|x l Hnin Hnd IH]; simpl.
  - constructor.
  - constructor; [|exact IH].
    intro Hin. apply in_map_iff in Hin. destruct Hin as [y [Heq Hy]].
    injection Heq as Heq. subst. apply Hnin. exact Hy.
Qed.

Lemma NoDup_app_disjoint : forall A (l1 l2 : list A),
  NoDup l1 -> NoDup l2 -> (forall x, In x l1 -> In x l2 -> False) ->
  NoDup (l1 ++ l2).
Proof.
  intros A l1 l2 Hnd1 Hnd2. induction Hnd1 as [|x l Hnin Hnd IH]; intros Hdis; simpl.
  - exact Hnd2.
  - constructor.
    + intro Hin. apply in_app_iff in Hin. destruct Hin as [Hin|Hin].
      * apply Hnin. exact Hin.
      * apply (Hdis x); [left; reflexivity | exact Hin].
    + apply IH. intros y Hy1 Hy2. apply (Hdis y); [right; exact Hy1 | exact Hy2].
Qed.

Lemma map_cons_disjoint : forall A (a b : A) (l1 l2 : list (list A)) x,
  a <> b -> In x (map (cons a) l1) -> In x (map (cons b) l2) -> False.
Proof.
  intros A a b l1 l2 x Hne H1 H2.
  apply in_map_iff in H1. destruct H1 as [y1 [Hy1 _]].
  apply in_map_iff in H2. destruct H2 as [y2 [Hy2 _]].
  subst x. injection Hy2 as Hba _. apply Hne. symmetry. exact Hba.
Qed.

Lemma all_states_spec : forall n s, In s (all_states n) <-> length s = n.
Proof.
  induction n as [|n IH]; intros s; simpl.
  - split.
    + intros [Heq|[]]. subst. reflexivity.
    + intro Hlen. destruct s; [left; reflexivity | discriminate].
  - rewrite in_app_iff, !in_map_iff. split.
    + intros [[t [Heq Ht]]|[t [Heq Ht]]]; subst s; simpl; f_equal; apply IH; exact Ht.
    + intro Hlen. destruct s as [|b s]; [discriminate|].
      injection Hlen as Hlen. apply IH in Hlen.
      destruct b; [right | left]; exists s; split; [reflexivity | exact Hlen
                                                   | reflexivity | exact Hlen].
Qed.

Lemma all_states_NoDup : forall n, NoDup (all_states n).
Proof.
  induction n as [|n IH]; simpl.
  - constructor; [intros [] | constructor].
  - apply NoDup_app_disjoint; try (apply NoDup_map_cons; exact IH).
    intros x H1 H2. refine (map_cons_disjoint _ false true _ _ x _ H1 H2); discriminate.
Qed.

Lemma all_states_length : forall n, length (all_states n) = Nat.pow 2 n.
Proof.
  induction n as [|n IH]; [reflexivity|].
  change (all_states (S n))
    with (map (cons false) (all_states n) ++ map (cons true) (all_states n)).
  rewrite app_length, !map_length, Nat.pow_succ_r'.
  unfold state in *. rewrite IH. lia.
Qed.

Lemma states_of_spec : forall S s, In s (states_of S) <-> in_space s S = true.
Proof.
  induction S as [|o S IH]; intros s; simpl.
  - split.
    + intros [Heq|[]]. subst. reflexivity.
    + intro H. destruct s; [left; reflexivity | discriminate].
  - destruct o as [v|].
    + rewrite in_map_iff. split.
      * intros [t [Heq Ht]]. subst s. simpl. rewrite eqb_reflx. simpl.
        apply IH. exact Ht.
      * intro H. destruct s as [|b s]; [discriminate|].
        apply andb_true_iff in H. destruct H as [Hb Hs].
        apply eqb_prop in Hb. subst. exists s. split; [reflexivity|].
        apply IH. exact Hs.
    + rewrite in_app_iff, !in_map_iff. split.
      * intros [[t [Heq Ht]]|[t [Heq Ht]]]; subst s; simpl; apply IH; exact Ht.
      * intro H. destruct s as [|b s]; [discriminate|]. simpl in H.
        apply IH in H.
        destruct b; [right | left]; exists s; split; [reflexivity | exact H
                                                     | reflexivity | exact H].
Qed.

Lemma states_of_NoDup : forall S, NoDup (states_of S).
Proof.
  induction S as [|o S IH]; simpl.
  - constructor; [intros [] | constructor].
  - destruct o as [v|].
    + apply NoDup_map_cons. exact IH.
    + apply NoDup_app_disjoint; try (apply NoDup_map_cons; exact IH).
      intros x H1 H2. refine (map_cons_disjoint _ false true _ _ x _ H1 H2); discriminate.
Qed.

Lemma states_of_nonempty : forall S, states_of S <> [].
Proof.
  intros S Hnil. destruct (space_nonempty S) as [s Hs].
  apply states_of_spec in Hs. rewrite Hnil in Hs. exact Hs.
Qed.

Lemma subspaces_of_spec : forall S T, In T (subspaces_of S) <-> subspace T S = true.
Proof.
  induction S as [|o S IH]; intros T; simpl.
  - split.
    + intros [Heq|[]]. subst. reflexivity.
    + intro H. destruct T; [left; reflexivity | discriminate].
  - destruct o as [v|].
    + rewrite in_map_iff. split.
      * intros [t [Heq Ht]]. subst T. simpl. rewrite eqb_reflx. simpl.
        apply IH. exact Ht.
      * intro H. destruct T as [|a T]; [discriminate|].
        apply andb_true_iff in H. destruct H as [Ha HT].
        destruct a as [w|]; [|discriminate].
        apply eqb_prop in Ha. subst. exists T. split; [reflexivity|].
        apply IH. exact HT.
    + rewrite !in_app_iff, !in_map_iff. split.
      * intros [[t [Heq Ht]]|[[t [Heq Ht]]|[t [Heq Ht]]]]; subst T; simpl;
          apply IH; exact Ht.
      * intro H. destruct T as [|a T]; [discriminate|]. simpl in H.
        apply IH in H.
        destruct a as [[|]|].
        -- right. right. exists T. split; [reflexivity | exact H].
        -- right. left. exists T. split; [reflexivity | exact H].
        -- left. exists T. split; [reflexivity | exact H].
Qed.

Lemma subspaces_of_NoDup : forall S, NoDup (subspaces_of S).
Proof.
  induction S as [|o S IH]; simpl.
  - constructor; [intros [] | constructor].
  - destruct o as [v|].
    + apply NoDup_map_cons. exact IH.
    + apply NoDup_app_disjoint; [apply NoDup_map_cons; exact IH | |].
      * apply NoDup_app_disjoint; try (apply NoDup_map_cons; exact IH).
        intros x H1 H2.
        refine (map_cons_disjoint _ (Some false) (Some true) _ _ x _ H1 H2); discriminate.
      * intros x H1 H2. apply in_app_iff in H2. destruct H2 as [H2|H2].
        -- refine (map_cons_disjoint _ None (Some false) _ _ x _ H1 H2); discriminate.
        -- refine (map_cons_disjoint _ None (Some true) _ _ x _ H1 H2); discriminate.
Qed.

(* ------------------------------------------------------------------ *)
(* the integer key: two bits per variable                              *)
(* ------------------------------------------------------------------ *)

Definition ob_code (o : option bool) : N :=
  match o with
  | None => 0%N
  | Some false => 2%N
  | Some true => 3%N
  end.

Lemma space_key_from_cons : forall i o S,
  space_key_from i (o :: S) =
  N.lor (N.shiftl (ob_code o) (2 * i)) (space_key_from (N.succ i) S).
Proof.
  intros i o S. simpl. destruct o as [[|]|]; simpl ob_code;
    rewrite ?N.shiftl_0_l; reflexivity.
Qed.

Lemma space_key_from_shift : forall S i,
  space_key_from i S = N.shiftl (space_key_from 0 S) (2 * i).
Proof.
  induction S as [|o S IH]; intros i.
  - simpl. rewrite ?N.shiftl_0_l. reflexivity.
  - rewrite !space_key_from_cons.
    rewrite (IH (N.succ i)), (IH (N.succ 0%N)).
    rewrite N.shiftl_lor, !N.shiftl_shiftl.
    f_equal; f_equal; lia.
Qed.

Lemma space_key_cons : forall o S,
  space_key (o :: S) = N.lor (ob_code o) (N.shiftl (space_key S) 2).
Proof.
  intros o S. unfold space_key. rewrite space_key_from_cons.
  rewrite (space_key_from_shift S (N.succ 0)).
  rewrite N.shiftl_0_r. reflexivity.
Qed.

Lemma ob_code_high : forall o n, N.testbit (ob_code o) (n + 2) = false.
Proof.
  intros o n. apply N.bits_above_log2.
  destruct o as [[|]|]; simpl; lia.
Qed.

Lemma key_step_inj : forall a b k1 k2,
  N.lor (ob_code a) (N.shiftl k1 2) = N.lor (ob_code b) (N.shiftl k2 2) ->
  a = b /\ k1 = k2.
Proof.
  intros a b k1 k2 H.
  assert (Hbit : forall c k n,
             N.testbit (N.lor (ob_code c) (N.shiftl k 2)) (n + 2) = N.testbit k n).
  { intros c k n. rewrite N.lor_spec, ob_code_high. simpl.
    rewrite N.shiftl_spec_high by lia. f_equal. lia. }
  assert (Hlow : forall c k n, (n < 2)%N ->
             N.testbit (N.lor (ob_code c) (N.shiftl k 2)) n = N.testbit (ob_code c) n).
  { intros c k n Hn. rewrite N.lor_spec, N.shiftl_spec_low by exact Hn.
    apply orb_false_r. }
  split.
  - assert (H0 : N.testbit (ob_code a) 0 = N.testbit (ob_code b) 0).
    { rewrite <- (Hlow a k1 0%N), <- (Hlow b k2 0%N) by lia. rewrite H. reflexivity. }
    assert (H1 : N.testbit (ob_code a) 1 = N.testbit (ob_code b) 1).
    { rewrite <- (Hlow a k1 1%N), <- (Hlow b k2 1%N) by lia. rewrite H. reflexivity. }
    destruct a as [[|]|], b as [[|]|]; simpl in H0, H1;
      try reflexivity; discriminate.
  - apply N.bits_inj. intro n.
    rewrite <- (Hbit a k1 n), <- (Hbit b k2 n). rewrite H. reflexivity.
Qed.

Lemma space_key_inj : forall x y : space, length x = length y -> space_key x = space_key y -> x = y.
Proof.
  induction x as [|a x IH]; intros [|b y] Hlen Hkey; simpl in Hlen; try discriminate.
  - reflexivity.
  - injection Hlen as Hlen.
    rewrite !space_key_cons in Hkey.
    apply key_step_inj in Hkey. destruct Hkey as [Hab Hk].
    subst b. rewrite (IH y Hlen Hk). reflexivity.
Qed.

Print Assumptions space_key_inj.
Print Assumptions subspace_spec.
