(* PySrcClingoFacts.v -- translator tie for the answer-set readers of trappist_core.py (C09: "inverted polarity when mapping siphon atoms to fixed
   values"): the functions generated from the current text (PySrcClingo.v) turn the atom list of a conflict-free model M into the model's
   PetriNet.space_of_model n M (trap spaces: a true atom b1_v fixes v to 0) resp. state_of_model n M (fixed points: direct polarity). *)
From Coq Require Import List Bool Arith Lia.
Import ListNotations.
From BB Require Import BN PetriNet PySrcClingo.

Definition kv_lookup (kv : list (nat * bool)) (v : nat) : option bool :=
  option_map snd (find (fun p => Nat.eqb (fst p) v) kv).
Definition model_of_atoms (atoms : list place) : interp := fun p => mem_place p atoms.

Lemma py_atoms_loop_ok : forall value atoms acc, NoDup (map fst atoms) ->
  (forall a, In a atoms -> ~ In (fst a) (map fst acc)) ->
  py_atoms_loop value atoms acc = Some (acc ++ map (fun a => (fst a, value (snd a))) atoms).
Proof.
  intros value atoms. induction atoms as [|[w b] r IH]; intros acc Hnd Hfresh; cbn [py_atoms_loop map].
  - rewrite app_nil_r. reflexivity.
  - cbn [map fst] in Hnd. inversion Hnd as [|x l Hnotin Hnd']; subst.
    assert (Hex : existsb (fun kv => Nat.eqb (fst kv) w) acc = false).
    { apply not_true_is_false. intro H. apply existsb_exists in H. destruct H as (kv & Hin & Heq).
      apply Nat.eqb_eq in Heq. apply (Hfresh (w, b) (or_introl eq_refl)). cbn [fst]. rewrite <- Heq. apply in_map. exact Hin. }
    rewrite Hex. rewrite IH; [rewrite <- app_assoc; reflexivity|exact Hnd'|].
    intros a Ha Hin. rewrite map_app in Hin. apply in_app_or in Hin. destruct Hin as [Hin|Hin].
    + apply (Hfresh a (or_intror Ha) Hin).
    + cbn [map fst] in Hin. destruct Hin as [Heq|[]]. apply Hnotin. rewrite Heq. apply in_map. exact Ha.
Qed.

Lemma mem_place_fresh : forall v x r, ~ In v (map fst r) -> mem_place (v, x) r = false.
Proof.
  intros v x r Hn. unfold mem_place. apply not_true_is_false. intro H. apply existsb_exists in H.
  destruct H as (p & Hin & Heq). unfold eqb_place in Heq. apply andb_true_iff in Heq. destruct Heq as [Heq _].
  apply Nat.eqb_eq in Heq. cbn [fst] in Heq. apply Hn. rewrite Heq. apply in_map. exact Hin.
Qed.

Lemma kv_lookup_atoms : forall value atoms v, NoDup (map fst atoms) ->
  kv_lookup (map (fun a => (fst a, value (snd a))) atoms) v =
  if model_of_atoms atoms (v, true) then Some (value true)
  else if model_of_atoms atoms (v, false) then Some (value false) else None.
Proof.
  intros value atoms v. unfold kv_lookup, model_of_atoms. induction atoms as [|[w b] r IH]; intro Hnd; [reflexivity|].
  cbn [map fst] in Hnd. inversion Hnd as [|x l Hnotin Hnd']; subst.
  cbn [map find fst snd]. destruct (Nat.eqb w v) eqn:E.
  - apply Nat.eqb_eq in E. subst w. cbn [option_map snd].
    unfold mem_place at 1 2. cbn [existsb]. unfold eqb_place at 1 3. cbn [fst snd]. rewrite Nat.eqb_refl. cbn [andb].
    fold (mem_place (v, true) r). fold (mem_place (v, false) r).
    rewrite (mem_place_fresh v true r Hnotin), (mem_place_fresh v false r Hnotin).
    destruct b; reflexivity.
  - rewrite (IH Hnd'). unfold mem_place at 3 4. cbn [existsb]. unfold eqb_place at 1 3. cbn [fst snd].
    rewrite Nat.eqb_sym in E. rewrite E. cbn [andb orb]. reflexivity.
Qed.

Lemma nth_map_seq : forall (A : Type) (f : nat -> A) n v d, v < n -> nth v (map f (seq 0 n)) d = f v.
Proof.
  intros A f n v d Hv. rewrite (nth_indep _ d (f 0)) by (rewrite map_length, seq_length; exact Hv).
  rewrite map_nth. rewrite seq_nth by exact Hv. reflexivity.
Qed.

(* trap spaces: the assertion never fires on a conflict-free model, and the dict that is returned is space_of_model *)
Theorem py_clingo_model_to_space_spec : forall n atoms, NoDup (map fst atoms) ->
  exists kv, py_clingo_model_to_space atoms = Some kv /\
             forall v, v < n -> kv_lookup kv v = nth v (space_of_model n (model_of_atoms atoms)) None.
Proof.
  intros n atoms Hnd. unfold py_clingo_model_to_space.
  rewrite (py_atoms_loop_ok _ atoms [] Hnd) by (intros a _ []). cbn [app]. eexists. split; [reflexivity|].
  intros v Hv. pose proof (kv_lookup_atoms (fun is_positive : bool => if is_positive then false else true) atoms v Hnd) as Hl.
  cbn beta in Hl. rewrite Hl. unfold space_of_model. rewrite nth_map_seq by exact Hv. reflexivity.
Qed.

(* fixed points of the reduced STG: every variable has exactly one true atom; the dict is the state *)
Theorem py_clingo_model_to_fixed_point_spec : forall n atoms, NoDup (map fst atoms) ->
  (forall v, v < n -> In v (map fst atoms)) ->
  exists kv, py_clingo_model_to_fixed_point atoms = Some kv /\
             forall v, v < n -> kv_lookup kv v = Some (nth v (state_of_model n (model_of_atoms atoms)) false).
Proof.
  intros n atoms Hnd Htot. unfold py_clingo_model_to_fixed_point.
  rewrite (py_atoms_loop_ok _ atoms [] Hnd) by (intros a _ []). cbn [app]. eexists. split; [reflexivity|].
  intros v Hv. pose proof (kv_lookup_atoms (fun is_positive : bool => if is_positive then true else false) atoms v Hnd) as Hl.
  cbn beta in Hl. rewrite Hl. unfold state_of_model. rewrite nth_map_seq by exact Hv.
  destruct (model_of_atoms atoms (v, true)) eqn:Et; [reflexivity|].
  destruct (model_of_atoms atoms (v, false)) eqn:Ef; [reflexivity|].
  exfalso. specialize (Htot v Hv). apply in_map_iff in Htot. destruct Htot as ([w b] & Hw & Hin). cbn [fst] in Hw. subst w.
  assert (Hm : model_of_atoms atoms (v, b) = true).
  { unfold model_of_atoms, mem_place. apply existsb_exists. exists (v, b). split; [exact Hin|].
    unfold eqb_place. cbn [fst snd]. rewrite Nat.eqb_refl, eqb_reflx. reflexivity. }
  destruct b; congruence.
Qed.

(* a conflict in the model trips the assertion *)
Theorem py_clingo_model_to_space_conflict : forall v, py_clingo_model_to_space [(v, true); (v, false)] = None.
Proof. intro v. unfold py_clingo_model_to_space. cbn. rewrite Nat.eqb_refl. reflexivity. Qed.

Print Assumptions py_clingo_model_to_space_spec.
Print Assumptions py_clingo_model_to_fixed_point_spec.
Print Assumptions py_clingo_model_to_space_conflict.
