(* SCCStruct.v -- SPEC (prove the theorems; the model is theories/SCC.v, do not edit it).
   Structural facts about the source-SCC strategy: what source_sccs returns, the component sub-network agrees with
   the network on the component, grafting a trap space of the sub-network onto a trap space of the network gives a
   trap space, the strategy only adds nodes (ids and spaces are stable), and every node it creates is a trap space
   of the network.  (The strategy does NOT keep the diagram faithful: see SCCFacts.D15_refuted.) *)
From Coq Require Import List Bool Arith NArith Lia Permutation.
Import ListNotations.
From BB Require Import BN Brute SpaceFacts TrapFacts PercolateFacts Diagram Invariants DiagramStruct DiagramSem1
  Blocks BlocksFacts BlockMath SCC.
From Coq Require Import Relations.

Local Arguments percolate_b : simpl never.
Local Arguments expand_one : simpl never.
Local Arguments node_successors : simpl never.
Local Arguments ensure_node : simpl never.
Local Arguments ensure_edge : simpl never.
Local Arguments source_sccs : simpl never.
Local Arguments sub_net : simpl never.
Local Arguments graft : simpl never.
Local Arguments regulates_b : simpl never.
Local Arguments sources_in_b : simpl never.
Local Arguments set_empty_seeds : simpl never.
Local Arguments clear_cands : simpl never.
Local Arguments ensure_children : simpl never.

(* ====================================================================== *)
(* 1. the regulation graph among the free variables                        *)
(* ====================================================================== *)

Definition sgood (N : net) (Sp : space) (v : nat) : Prop := v < nvars N /\ free_in Sp v = true.
Definition sE (N : net) (Sp : space) (i j : nat) : Prop :=
  sgood N Sp i /\ sgood N Sp j /\ regulates_b N Sp i j = true.
Definition sreach (N : net) (Sp : space) : nat -> nat -> Prop := clos_refl_trans nat (sE N Sp).

Lemma sreach_good_r : forall N Sp u w, sreach N Sp u w -> sgood N Sp u -> sgood N Sp w.
Proof.
  intros N Sp u w H. induction H as [x y Hxy | x | x y z H1 IH1 H2 IH2]; intro Hg.
  - destruct Hxy as (_ & Hy & _). exact Hy.
  - exact Hg.
  - apply IH2. apply IH1. exact Hg.
Qed.

Lemma sreach_good_l : forall N Sp u w, sreach N Sp u w -> sgood N Sp w -> sgood N Sp u.
Proof.
  intros N Sp u w H. induction H as [x y Hxy | x | x y z H1 IH1 H2 IH2]; intro Hg.
  - destruct Hxy as (Hx & _ & _). exact Hx.
  - exact Hg.
  - apply IH1. apply IH2. exact Hg.
Qed.

(* ---------- forward closure ---------- *)
Definition fw_add (N : net) (Sp : space) (cur : list nat) : list nat :=
  filter (fun j => free_in Sp j && negb (mem_nat j cur) &&
                   existsb (fun i => regulates_b N Sp i j) cur) (seq 0 (nvars N)).

Lemma fwd_closure_succ : forall f N Sp cur,
  fwd_closure (Datatypes.S f) N Sp cur =
  match fw_add N Sp cur with [] => cur | _ :: _ => fwd_closure f N Sp (cur ++ fw_add N Sp cur) end.
Proof. intros. reflexivity. Qed.

Lemma fw_add_In : forall N Sp cur j, In j (fw_add N Sp cur) <->
  j < nvars N /\ free_in Sp j = true /\ ~ In j cur /\ exists i, In i cur /\ regulates_b N Sp i j = true.
Proof.
  intros N Sp cur j. unfold fw_add.
  rewrite filter_In, in_seq, !andb_true_iff, negb_true_iff, BM_mem_nat_false, existsb_exists.
  split.
  - intros (H1 & (H2 & H3) & H4). split; [lia|]. auto.
  - intros (H1 & H2 & H3 & H4). split; [lia|]. auto.
Qed.

Lemma fwd_sound : forall N Sp fuel cur, (forall v, In v cur -> sgood N Sp v) ->
  forall w, In w (fwd_closure fuel N Sp cur) -> exists u, In u cur /\ sreach N Sp u w.
Proof.
  intros N Sp fuel. induction fuel as [|f IH]; intros cur Hcur w Hw.
  - simpl in Hw. exists w. split; [exact Hw|apply rt_refl].
  - rewrite fwd_closure_succ in Hw. destruct (fw_add N Sp cur) as [|a l] eqn:Ea.
    + exists w. split; [exact Hw|apply rt_refl].
    + rewrite <- Ea in Hw.
      destruct (IH (cur ++ fw_add N Sp cur)) with (w := w) as (u & Hu & Hr).
      * intros v Hv. apply in_app_or in Hv. destruct Hv as [Hv|Hv]; [apply Hcur; exact Hv|].
        apply fw_add_In in Hv. destruct Hv as (H1 & H2 & _). split; assumption.
      * exact Hw.
      * apply in_app_or in Hu. destruct Hu as [Hu|Hu]; [exists u; split; assumption|].
        apply fw_add_In in Hu. destruct Hu as (H1 & H2 & _ & i & Hi & Hreg).
        exists i. split; [exact Hi|].
        apply (rt_trans _ _ _ u); [|exact Hr]. apply rt_step.
        split; [apply Hcur; exact Hi|]. split; [split; assumption|exact Hreg].
Qed.

Lemma fwd_closure_inv : forall N Sp fuel cur,
  missing (nvars N) cur <= fuel ->
  (forall i j, In i (fwd_closure fuel N Sp cur) -> j < nvars N -> free_in Sp j = true ->
     regulates_b N Sp i j = true -> In j (fwd_closure fuel N Sp cur)) /\
  (forall v, In v cur -> In v (fwd_closure fuel N Sp cur)).
Proof.
  intros N Sp fuel. induction fuel as [|f IH]; intros cur Hm.
  - simpl. split; [|auto].
    intros i j _ Hj _ _.
    destruct (mem_nat j cur) eqn:E; [apply BM_mem_nat_In; exact E|]. exfalso.
    unfold missing in Hm.
    assert (Hin : In j (filter (fun v => negb (mem_nat v cur)) (seq 0 (nvars N)))).
    { apply filter_In. split; [apply in_seq; lia|]. rewrite E. reflexivity. }
    destruct (filter (fun v => negb (mem_nat v cur)) (seq 0 (nvars N))); [destruct Hin|simpl in Hm; lia].
  - rewrite fwd_closure_succ. destruct (fw_add N Sp cur) as [|a l] eqn:E.
    + split; [|auto].
      intros i j Hi Hj Hfree Hreg.
      destruct (mem_nat j cur) eqn:Ej; [apply BM_mem_nat_In; exact Ej|]. exfalso.
      assert (Hin : In j (fw_add N Sp cur)).
      { apply fw_add_In. split; [exact Hj|]. split; [exact Hfree|].
        split; [apply BM_mem_nat_false; exact Ej|]. exists i. auto. }
      rewrite E in Hin. destruct Hin.
    + rewrite <- E.
      assert (Ha : In a (fw_add N Sp cur)) by (rewrite E; left; reflexivity).
      destruct (IH (cur ++ fw_add N Sp cur)) as [Hcl Hsub].
      * assert (Hlt : missing (nvars N) (cur ++ fw_add N Sp cur) < missing (nvars N) cur).
        { unfold missing. apply fw_add_In in Ha. destruct Ha as (Ha1 & _ & Ha3 & _).
          apply (BM_filter_length_lt _ _ _ _ a).
          - intros y _ Hy. apply negb_true_iff in Hy. apply negb_true_iff.
            apply BM_mem_nat_false. apply BM_mem_nat_false in Hy.
            intro Hc. apply Hy. apply in_or_app. left. exact Hc.
          - apply in_seq. lia.
          - apply negb_true_iff. apply BM_mem_nat_false. exact Ha3.
          - apply negb_false_iff. apply BM_mem_nat_In. apply in_or_app. right.
            rewrite E. left. reflexivity. }
        lia.
      * split; [exact Hcl|]. intros v Hv. apply Hsub. apply in_or_app. left. exact Hv.
Qed.

Lemma missing_le : forall n cur, missing n cur <= n.
Proof.
  intros n cur. unfold missing.
  pose proof (BM_filter_le _ (fun v => negb (mem_nat v cur)) (seq 0 n)) as H.
  rewrite seq_length in H. exact H.
Qed.

Lemma fwd_complete : forall N Sp cur u w, In u (fwd_closure (nvars N) N Sp cur) -> sreach N Sp u w ->
  In w (fwd_closure (nvars N) N Sp cur).
Proof.
  intros N Sp cur u w Hu Hr.
  destruct (fwd_closure_inv N Sp (nvars N) cur (missing_le _ _)) as [Hcl _].
  induction Hr as [x y Hxy | x | x y z H1 IH1 H2 IH2].
  - destruct Hxy as (_ & (Hy1 & Hy2) & Hreg). apply (Hcl x y); assumption.
  - exact Hu.
  - apply IH2. apply IH1. exact Hu.
Qed.

Lemma fwd_start : forall N Sp cur v, In v cur -> In v (fwd_closure (nvars N) N Sp cur).
Proof.
  intros N Sp cur v Hv.
  destruct (fwd_closure_inv N Sp (nvars N) cur (missing_le _ _)) as [_ Hsub]. apply Hsub. exact Hv.
Qed.

(* ---------- backward closure ---------- *)
Lemma bwd_sound : forall N Sp fuel cur, (forall v, In v cur -> sgood N Sp v) ->
  forall w, In w (bwd_closure fuel N Sp cur) -> exists u, In u cur /\ sreach N Sp w u.
Proof.
  intros N Sp fuel. induction fuel as [|f IH]; intros cur Hcur w Hw.
  - simpl in Hw. exists w. split; [exact Hw|apply rt_refl].
  - rewrite bwd_closure_succ in Hw. destruct (bw_add N Sp cur) as [|a l] eqn:Ea.
    + exists w. split; [exact Hw|apply rt_refl].
    + rewrite <- Ea in Hw.
      destruct (IH (cur ++ bw_add N Sp cur)) with (w := w) as (u & Hu & Hr).
      * intros v Hv. apply in_app_or in Hv. destruct Hv as [Hv|Hv]; [apply Hcur; exact Hv|].
        apply bw_add_In in Hv. destruct Hv as (H1 & H2 & _). split; assumption.
      * exact Hw.
      * apply in_app_or in Hu. destruct Hu as [Hu|Hu]; [exists u; split; assumption|].
        apply bw_add_In in Hu. destruct Hu as (H1 & H2 & _ & j & Hj & Hreg).
        exists j. split; [exact Hj|].
        apply (rt_trans _ _ _ u); [exact Hr|]. apply rt_step.
        split; [split; assumption|]. split; [apply Hcur; exact Hj|exact Hreg].
Qed.

Lemma bwd_complete : forall N Sp cur u w, (forall v, In v cur -> sgood N Sp v) ->
  In u (bwd_closure (nvars N) N Sp cur) -> sreach N Sp w u ->
  In w (bwd_closure (nvars N) N Sp cur).
Proof.
  intros N Sp cur u w Hcur Hu Hr.
  destruct (bwd_closure_inv N Sp (nvars N) cur Hcur (missing_le _ _)) as [[_ Hcl] _].
  induction Hr as [x y Hxy | x | x y z H1 IH1 H2 IH2].
  - destruct Hxy as ((Hx1 & Hx2) & _ & Hreg). apply (Hcl x y); assumption.
  - exact Hu.
  - apply IH1. apply IH2. exact Hu.
Qed.

Lemma bwd_start : forall N Sp cur v, (forall v, In v cur -> sgood N Sp v) -> In v cur ->
  In v (bwd_closure (nvars N) N Sp cur).
Proof.
  intros N Sp cur v Hcur Hv.
  destruct (bwd_closure_inv N Sp (nvars N) cur Hcur (missing_le _ _)) as [_ Hsub]. apply Hsub. exact Hv.
Qed.

Lemma bwd_NoDup : forall N Sp fuel cur, NoDup cur -> NoDup (bwd_closure fuel N Sp cur).
Proof.
  intros N Sp fuel. induction fuel as [|f IH]; intros cur Hnd; [exact Hnd|].
  rewrite bwd_closure_succ. destruct (bw_add N Sp cur) as [|a l] eqn:Ea; [exact Hnd|].
  rewrite <- Ea. apply IH. apply NoDup_app_disjoint.
  - exact Hnd.
  - unfold bw_add. apply NoDup_filter. apply seq_NoDup.
  - intros x Hx Hx2. apply bw_add_In in Hx2. destruct Hx2 as (_ & _ & Hn & _). apply Hn. exact Hx.
Qed.

(* ---------- scc_of ---------- *)
Definition scc_raw (N : net) (Sp : space) (v : nat) : list nat :=
  sort_nat (filter (fun u => mem_nat u (fwd_closure (nvars N) N Sp [v])) (bwd_closure (nvars N) N Sp [v])).

Lemma scc_of_cases : forall N Sp v, scc_of N Sp v = [] \/ scc_of N Sp v = scc_raw N Sp v.
Proof.
  intros N Sp v. unfold scc_of. fold (scc_raw N Sp v).
  destruct (scc_raw N Sp v) as [|a [|b r]]; auto.
  destruct (regulates_b N Sp v v); auto.
Qed.

Lemma sgood_single : forall N Sp v, sgood N Sp v -> forall x, In x [v] -> sgood N Sp x.
Proof. intros N Sp v Hv x [Hx|[]]. subst x. exact Hv. Qed.

Lemma scc_raw_In : forall N Sp v u, sgood N Sp v ->
  (In u (scc_raw N Sp v) <-> sreach N Sp u v /\ sreach N Sp v u).
Proof.
  intros N Sp v u Hv. unfold scc_raw. rewrite BM_sort_nat_In, filter_In, BM_mem_nat_In. split.
  - intros [Hb Hf].
    destruct (bwd_sound N Sp (nvars N) [v] (sgood_single N Sp v Hv) u Hb) as (x & [Hx|[]] & Hr). subst x.
    destruct (fwd_sound N Sp (nvars N) [v] (sgood_single N Sp v Hv) u Hf) as (y & [Hy|[]] & Hr2). subst y.
    split; assumption.
  - intros [H1 H2]. split.
    + apply (bwd_complete N Sp [v] v u (sgood_single N Sp v Hv)); [|exact H1].
      apply bwd_start; [apply sgood_single; exact Hv|left; reflexivity].
    + apply (fwd_complete N Sp [v] v u); [|exact H2]. apply fwd_start. left. reflexivity.
Qed.

Lemma SS_insert_nat_NoDup : forall x l, ~ In x l -> NoDup l -> NoDup (insert_nat x l).
Proof.
  intros x l. induction l as [|y r IH]; intros Hnin Hnd; simpl.
  - constructor; [intros []|constructor].
  - destruct (Nat.leb x y); [constructor; assumption|].
    apply NoDup_cons_iff in Hnd. destruct Hnd as [Hy Hr].
    constructor.
    + intro Hin. apply insert_nat_In in Hin. destruct Hin as [Heq|Hin].
      * apply Hnin. left. exact Heq.
      * apply Hy. exact Hin.
    + apply IH; [|exact Hr]. intro Hin. apply Hnin. right. exact Hin.
Qed.

Lemma SS_sort_nat_NoDup : forall l, NoDup l -> NoDup (sort_nat l).
Proof.
  intros l Hnd. induction Hnd as [|x l Hnin Hnd IH]; simpl; [constructor|].
  apply SS_insert_nat_NoDup; [|exact IH].
  intro Hin. apply Hnin. apply sort_nat_In. exact Hin.
Qed.

Lemma scc_raw_NoDup : forall N Sp v, NoDup (scc_raw N Sp v).
Proof.
  intros N Sp v. unfold scc_raw. apply SS_sort_nat_NoDup. apply NoDup_filter. apply bwd_NoDup.
  constructor; [intros []|constructor].
Qed.

(* ---------- source_sccs ---------- *)
Definition scc_step (N : net) (Sp : space) (acc : list (list nat)) (v : nat) : list (list nat) :=
  if free_in Sp v && negb (existsb (mem_nat v) acc) then
    let c := scc_of N Sp v in
    match c with
    | [] => acc
    | _ => if same_set (bwd_closure (nvars N) N Sp c) c then acc ++ [c] else acc
    end
  else acc.

Lemma source_sccs_fold : forall N Sp, source_sccs N Sp = fold_left (scc_step N Sp) (seq 0 (nvars N)) [].
Proof. intros. reflexivity. Qed.

Definition scc_item (N : net) (Sp : space) (B : list nat) : Prop :=
  exists v0, sgood N Sp v0 /\ B = scc_raw N Sp v0 /\ B <> [] /\
             same_set (bwd_closure (nvars N) N Sp B) B = true.

Definition disj (a b : list nat) : Prop := forall v, In v a -> In v b -> False.

Fixpoint pw_disj (l : list (list nat)) : Prop :=
  match l with
  | [] => True
  | a :: r => (forall b, In b r -> disj a b) /\ pw_disj r
  end.

Lemma pw_disj_snoc : forall l c, pw_disj l -> (forall a, In a l -> disj a c) -> pw_disj (l ++ [c]).
Proof.
  induction l as [|a r IH]; intros c Hp Hc; simpl.
  - split; [intros b []|exact I].
  - destruct Hp as [Ha Hr]. split.
    + intros b Hb. apply in_app_or in Hb. destruct Hb as [Hb|[Hb|[]]].
      * apply Ha. exact Hb.
      * subst b. apply Hc. left. reflexivity.
    + apply IH; [exact Hr|]. intros a0 Ha0. apply Hc. right. exact Ha0.
Qed.

Lemma source_fold_inv : forall N Sp l acc, (forall v, In v l -> v < nvars N) ->
  (forall B, In B acc -> scc_item N Sp B) -> pw_disj acc ->
  (forall B, In B (fold_left (scc_step N Sp) l acc) -> scc_item N Sp B) /\
  pw_disj (fold_left (scc_step N Sp) l acc).
Proof.
  intros N Sp l. induction l as [|v l IH]; intros acc Hl Hacc Hpw; simpl; [split; assumption|].
  apply IH.
  - intros w Hw. apply Hl. right. exact Hw.
  - unfold scc_step.
    destruct (free_in Sp v && negb (existsb (mem_nat v) acc)) eqn:Ec; [|exact Hacc].
    destruct (scc_of N Sp v) as [|c0 cr] eqn:Es; [exact Hacc|].
    destruct (same_set (bwd_closure (nvars N) N Sp (c0 :: cr)) (c0 :: cr)) eqn:Ess; [|exact Hacc].
    intros B HB. apply in_app_or in HB. destruct HB as [HB|[HB|[]]]; [apply Hacc; exact HB|].
    subst B. apply andb_true_iff in Ec. destruct Ec as [Ef _].
    exists v. split; [split; [apply Hl; left; reflexivity|exact Ef]|].
    destruct (scc_of_cases N Sp v) as [H0|H0]; [rewrite H0 in Es; discriminate|].
    split; [rewrite <- Es; exact H0|]. split; [discriminate|exact Ess].
  - unfold scc_step.
    destruct (free_in Sp v && negb (existsb (mem_nat v) acc)) eqn:Ec; [|exact Hpw].
    destruct (scc_of N Sp v) as [|c0 cr] eqn:Es; [exact Hpw|].
    destruct (same_set (bwd_closure (nvars N) N Sp (c0 :: cr)) (c0 :: cr)) eqn:Ess; [|exact Hpw].
    apply pw_disj_snoc; [exact Hpw|].
    apply andb_true_iff in Ec. destruct Ec as [Ef Ene].
    assert (Hv : sgood N Sp v) by (split; [apply Hl; left; reflexivity|exact Ef]).
    destruct (scc_of_cases N Sp v) as [H0|H0]; [rewrite H0 in Es; discriminate|].
    rewrite Es in H0. rewrite H0.
    intros a Ha u Hua Huc.
    destruct (Hacc a Ha) as (v' & Hv' & Ea & _ & _).
    rewrite Ea in Hua. apply (scc_raw_In N Sp v' u Hv') in Hua. destruct Hua as [U1 U2].
    apply (scc_raw_In N Sp v u Hv) in Huc. destruct Huc as [U3 U4].
    assert (Hva : In v a).
    { rewrite Ea. apply (scc_raw_In N Sp v' v Hv'). split.
      - apply (rt_trans _ _ _ u); assumption.
      - apply (rt_trans _ _ _ u); assumption. }
    apply negb_true_iff in Ene.
    assert (Ht : existsb (mem_nat v) acc = true).
    { apply existsb_exists. exists a. split; [exact Ha|]. apply BM_mem_nat_In. exact Hva. }
    rewrite Ht in Ene. discriminate.
Qed.

Lemma source_sccs_items : forall N Sp,
  (forall B, In B (source_sccs N Sp) -> scc_item N Sp B) /\ pw_disj (source_sccs N Sp).
Proof.
  intros N Sp. rewrite source_sccs_fold. apply source_fold_inv.
  - intros v Hv. apply in_seq in Hv. lia.
  - intros B [].
  - exact I.
Qed.

Lemma scc_item_good : forall N Sp B v, scc_item N Sp B -> In v B -> sgood N Sp v.
Proof.
  intros N Sp B v (v0 & Hv0 & EB & _ & _) Hv. rewrite EB in Hv.
  apply (scc_raw_In N Sp v0 v Hv0) in Hv. destruct Hv as [H1 _].
  apply (sreach_good_l N Sp v v0 H1 Hv0).
Qed.

Lemma scc_item_closed : forall N Sp B, scc_item N Sp B -> closed_in N Sp B.
Proof.
  intros N Sp B HB. pose proof HB as (v0 & Hv0 & EB & _ & Hss).
  assert (Hgood : forall v, In v B -> sgood N Sp v) by (intros v Hv; apply (scc_item_good N Sp B v HB Hv)).
  destruct (bwd_closure_inv N Sp (nvars N) B Hgood (missing_le _ _)) as [[_ Hcl] Hsub].
  unfold same_set in Hss. apply andb_true_iff in Hss. destruct Hss as [Hs1 _].
  rewrite forallb_forall in Hs1.
  split; [exact Hgood|].
  intros i j Hj Hi Hf Hr. apply BM_mem_nat_In. apply Hs1. apply (Hcl i j); auto.
Qed.

Theorem source_sccs_spec : forall N S B, length S = nvars N -> In B (source_sccs N S) ->
  B <> [] /\ closed_in N S B /\ NoDup B /\
  (forall u v, In u B -> In v B -> In v (fwd_closure (nvars N) N S [u])).
Proof.
  intros N Sp B _ HB. destruct (source_sccs_items N Sp) as [Hit _].
  pose proof (Hit B HB) as Hitem. pose proof Hitem as (v0 & Hv0 & EB & Hne & Hss).
  split; [exact Hne|]. split; [apply scc_item_closed; exact Hitem|]. split.
  - rewrite EB. apply scc_raw_NoDup.
  - intros u v Hu Hv. rewrite EB in Hu, Hv.
    apply (scc_raw_In N Sp v0 u Hv0) in Hu. apply (scc_raw_In N Sp v0 v Hv0) in Hv.
    destruct Hu as [U1 _]. destruct Hv as [_ V2].
    apply (fwd_complete N Sp [u] u v); [apply fwd_start; left; reflexivity|].
    apply (rt_trans _ _ _ v0); assumption.
Qed.

Lemma pw_disj_In_eq : forall l B1 B2 v, pw_disj l -> In B1 l -> In B2 l -> In v B1 -> In v B2 -> B1 = B2.
Proof.
  induction l as [|a r IH]; intros B1 B2 v Hp H1 H2 Hv1 Hv2; [destruct H1|].
  destruct Hp as [Ha Hr]. destruct H1 as [H1|H1]; destruct H2 as [H2|H2].
  - congruence.
  - subst a. exfalso. apply (Ha B2 H2 v Hv1 Hv2).
  - subst a. exfalso. apply (Ha B1 H1 v Hv2 Hv1).
  - apply (IH B1 B2 v Hr H1 H2 Hv1 Hv2).
Qed.

Theorem source_sccs_disjoint : forall N S B1 B2 v, length S = nvars N ->
  In B1 (source_sccs N S) -> In B2 (source_sccs N S) -> In v B1 -> In v B2 -> B1 = B2.
Proof.
  intros N Sp B1 B2 v _ H1 H2 Hv1 Hv2. destruct (source_sccs_items N Sp) as [_ Hpw].
  apply (pw_disj_In_eq _ B1 B2 v Hpw H1 H2 Hv1 Hv2).
Qed.

(* ====================================================================== *)
(* 2. the component sub-network                                            *)
(* ====================================================================== *)

Theorem sub_net_nvars : forall N S B, nvars (sub_net N S B) = nvars N.
Proof. intros. unfold nvars, sub_net. rewrite map_length, seq_length. reflexivity. Qed.

Lemma impose_in : forall (Sp : space) s, in_space s Sp = true -> impose Sp s = s.
Proof.
  unfold impose. induction Sp as [|o Sp IH]; intros [|b s] H; simpl in *; try reflexivity; try discriminate.
  apply andb_true_iff in H. destruct H as [H1 H2]. f_equal; [|apply IH; exact H2].
  destruct o as [x|]; [|reflexivity]. symmetry. apply eqb_prop. exact H1.
Qed.

Lemma sub_net_nth : forall N Sp B v, v < nvars N ->
  nth v (sub_net N Sp B) (fun _ => false) =
  (if mem_nat v B then (fun s : state => upd N v (impose Sp s))
   else (fun _ : state => match nth v Sp None with Some b => b | None => false end)).
Proof.
  intros N Sp B v Hv. unfold sub_net.
  apply (BM_nth_map_seq _ (fun v => if mem_nat v B then (fun s : state => upd N v (impose Sp s))
            else (fun _ : state => match nth v Sp None with Some b => b | None => false end))
           (nvars N) v (fun _ => false) Hv).
Qed.

Lemma sub_net_upd_in_gen : forall N Sp B v s, v < nvars N -> In v B ->
  upd (sub_net N Sp B) v s = upd N v (impose Sp s).
Proof.
  intros N Sp B v s Hv HB. unfold upd at 1. rewrite (sub_net_nth N Sp B v Hv).
  rewrite (proj2 (BM_mem_nat_In v B) HB). reflexivity.
Qed.

Theorem sub_net_upd_in : forall N S B v s, length S = nvars N -> v < nvars N -> In v B -> wf_state N s -> in_space s S = true ->
  upd (sub_net N S B) v s = upd N v s.
Proof.
  intros N Sp B v s _ Hv HB _ Hs. rewrite (sub_net_upd_in_gen N Sp B v s Hv HB).
  rewrite (impose_in Sp s Hs). reflexivity.
Qed.

Theorem sub_net_upd_out : forall N S B v s, v < nvars N -> ~ In v B ->
  upd (sub_net N S B) v s = match nth v S None with Some b => b | None => false end.
Proof.
  intros N Sp B v s Hv HB. unfold upd at 1. rewrite (sub_net_nth N Sp B v Hv).
  rewrite (proj2 (BM_mem_nat_false v B) HB). reflexivity.
Qed.

Lemma init_root_space : forall N, n_space (get (init N) 0) = percolate_b N (top_space (nvars N)).
Proof.
  intro N. unfold init. rewrite ensure_node_unfold.
  unfold find_node, find_key. simpl. reflexivity.
Qed.

(* the root of the sub-diagram fixes every variable outside the component *)
Theorem sub_net_root_fixes : forall N S B v, length S = nvars N -> v < nvars N -> ~ In v B ->
  nth v (n_space (get (init (sub_net N S B)) 0)) None <> None.
Proof.
  intros N Sp B v _ Hv HB Hnone. rewrite init_root_space in Hnone.
  set (M := sub_net N Sp B) in *.
  assert (Hn : nvars M = nvars N) by (apply sub_net_nvars).
  assert (Hlen : length (top_space (nvars M)) = nvars M) by (unfold top_space; apply repeat_length).
  pose proof (percolate_b_closed M (top_space (nvars M)) Hlen) as Hpc.
  apply (Hpc v (match nth v Sp None with Some b => b | None => false end)); [lia|exact Hnone|].
  intros s _ _. unfold M. apply sub_net_upd_out; assumption.
Qed.

(* ====================================================================== *)
(* 3. grafting                                                             *)
(* ====================================================================== *)

Theorem graft_length : forall B inner outer, length (graft B inner outer) = length outer.
Proof. intros. unfold graft. rewrite map_length, seq_length. reflexivity. Qed.

Lemma nth_graft : forall B inner outer v, v < length outer ->
  nth v (graft B inner outer) None = if mem_nat v B then nth v inner None else nth v outer None.
Proof.
  intros B inner outer v Hv. unfold graft.
  apply (BM_nth_map_seq _ (fun v => if mem_nat v B then nth v inner None else nth v outer None) _ v None Hv).
Qed.

Lemma impose_length : forall (Sp : space) s, length s = length Sp -> length (impose Sp s) = length Sp.
Proof.
  intros Sp s H. unfold impose. rewrite map_length, combine_length, H. apply Nat.min_id.
Qed.

Lemma nth_impose : forall (Sp : space) s i, length s = length Sp ->
  nth i (impose Sp s) false = match nth i Sp None with Some b => b | None => nth i s false end.
Proof.
  unfold impose. induction Sp as [|o Sp IH]; intros [|b s] i H; simpl in *; try discriminate.
  - destruct i; reflexivity.
  - injection H as H. destruct i as [|i]; simpl; [reflexivity|]. apply IH. exact H.
Qed.

Lemma impose_in_space : forall (Sp : space) s, length s = length Sp -> in_space (impose Sp s) Sp = true.
Proof.
  intros Sp s H. apply in_space_nth; [apply impose_length; exact H|].
  intros i v Hi. rewrite (nth_impose Sp s i H), Hi. reflexivity.
Qed.

Theorem graft_trap : forall N S B T A, trap_space N S -> closed_in N S B ->
  trap_space (sub_net N S B) T -> trap_space N A -> subspace A S = true ->
  (forall v, In v B -> nth v A None = None) ->
  trap_space N (graft B T A).
Proof.
  intros N Sp B T A HtS Hc HtT HtA HAS Hfree.
  pose proof (trap_space_length N Sp HtS) as HS.
  pose proof (trap_space_length N A HtA) as HA.
  pose proof (trap_space_length _ T HtT) as HT. rewrite sub_net_nvars in HT.
  set (G := graft B T A).
  assert (HG : length G = nvars N) by (unfold G; rewrite graft_length; exact HA).
  assert (HGnth : forall v, v < nvars N -> nth v G None = if mem_nat v B then nth v T None else nth v A None).
  { intros v Hv. unfold G. apply nth_graft. rewrite HA. exact Hv. }
  apply (trap_space_char N G HG). intros v x Hn s Hwf Hin.
  assert (Hv : v < nvars N) by (rewrite <- HG; apply (nth_some_lt G v x Hn)).
  assert (Hsnth : forall i y, nth i G None = Some y -> nth i s false = y).
  { apply (proj1 (in_space_nth s G (in_space_length s G Hin)) Hin). }
  (* s lies in A, hence in Sp *)
  assert (HsA : in_space s A = true).
  { apply in_space_nth; [unfold wf_state in Hwf; congruence|]. intros i y Hi.
    assert (Hil : i < nvars N) by (rewrite <- HA; apply (nth_some_lt A i y Hi)).
    apply Hsnth. rewrite (HGnth i Hil).
    destruct (mem_nat i B) eqn:EiB; [|exact Hi].
    apply BM_mem_nat_In in EiB. rewrite (Hfree i EiB) in Hi. discriminate. }
  assert (HsS : in_space s Sp = true).
  { apply (proj1 (subspace_spec A Sp (subspace_length A Sp HAS)) HAS s HsA). }
  rewrite (HGnth v Hv) in Hn. destruct (mem_nat v B) eqn:EvB.
  - apply BM_mem_nat_In in EvB.
    set (s' := fill (nvars N) T s).
    assert (Hs'T : in_space s' T = true) by (apply fill_in_space; exact HT).
    assert (Hs'len : length s' = nvars N) by (unfold s'; apply fill_length).
    assert (Hs'wf : wf_state (sub_net N Sp B) s') by (unfold wf_state; rewrite sub_net_nvars; exact Hs'len).
    set (t := impose Sp s').
    assert (Htlen : length t = nvars N) by (unfold t; rewrite impose_length; congruence).
    assert (HtS' : in_space t Sp = true) by (unfold t; apply impose_in_space; congruence).
    assert (Hag : forall i, In i B -> nth i s false = nth i t false).
    { intros i Hi. pose proof (BM_closed_lt N Sp B i Hc Hi) as Hil.
      unfold t. rewrite nth_impose by congruence. rewrite (BM_closed_free N Sp B i Hc Hi).
      unfold s'. symmetry. apply (fill_agree _ T s i Hil). intros y Hy.
      apply Hsnth. rewrite (HGnth i Hil), (proj2 (BM_mem_nat_In i B) Hi). exact Hy. }
    rewrite (closed_in_reads_B N Sp B v s t Hc EvB Hwf Htlen HsS HtS' Hag).
    unfold t. rewrite <- (sub_net_upd_in_gen N Sp B v s' Hv EvB).
    assert (HTlen' : length T = nvars (sub_net N Sp B)) by (rewrite sub_net_nvars; exact HT).
    apply (proj1 (trap_space_char _ T HTlen') HtT v x Hn s' Hs'wf Hs'T).
  - apply (proj1 (trap_space_char N A HA) HtA v x Hn s Hwf HsA).
Qed.

(* ====================================================================== *)
(* 4. the strategy only adds nodes                                         *)
(* ====================================================================== *)

Local Arguments attach_nodes : simpl never.
Local Arguments attach_edges : simpl never.
Local Arguments attach_scc : simpl never.
Local Arguments attach_all : simpl never.
Local Arguments scc_components : simpl never.
Local Arguments scc_level : simpl never.
Local Arguments scc_levels : simpl never.
Local Arguments scc_main : simpl never.

Lemma discard_if_stub_extends : forall d i, extends d (discard_if_stub d i).
Proof.
  intros d i. unfold discard_if_stub.
  destruct (n_exp (get d i) && negb (n_skip (get d i))); [apply extends_refl|apply upd_flag_extends; constructor].
Qed.

(* one iteration of the first loop of attach_scc_subdiagram *)
Definition an_step (N : net) (B : list nat) (sub : sd) (A : space) (i : nat) (d : sd) (mins : list nat)
  : sd * nat * list nat :=
  let '(d1, mid) := ensure_node N d None (graft B (n_space (get sub i)) A) in
  let '(d2, mins2) :=
    if is_minimal sub i then (d1, mins ++ [mid])
    else (upd_node (discard_if_stub d1 mid) mid (fun y => set_exp y true), mins) in
  (d2, mid, mins2).

Lemma attach_nodes_nil : forall N cm B sub A d map_ mins tape,
  attach_nodes N cm B sub A [] d map_ mins tape = (d, Some (map_, mins), tape).
Proof. intros. reflexivity. Qed.

Lemma attach_nodes_cons : forall N cm B sub A i r d map_ mins tape,
  attach_nodes N cm B sub A (i :: r) d map_ mins tape =
  let d2 := fst (fst (an_step N B sub A i d mins)) in
  let mid := snd (fst (an_step N B sub A i d mins)) in
  let mins2 := snd (an_step N B sub A i d mins) in
  if cm then
    match tape with
    | Some true :: t => attach_nodes N cm B sub A r (set_empty_seeds d2 mid) (map_ ++ [mid]) mins2 t
    | Some false :: t => attach_nodes N cm B sub A r d2 (map_ ++ [mid]) mins2 t
    | _ => (d2, None, tl tape)
    end
  else attach_nodes N cm B sub A r d2 (map_ ++ [mid]) mins2 tape.
Proof.
  intros. unfold an_step. unfold attach_nodes at 1. fold attach_nodes.
  destruct (ensure_node N d None (graft B (n_space (get sub i)) A)) as [d1 mid].
  destruct (is_minimal sub i); reflexivity.
Qed.

Lemma attach_nodes_inv : forall (P : sd -> list nat -> list nat -> Prop) N cm B sub A ids,
  (forall i d map_ mins, In i ids -> P d map_ mins ->
     P (fst (fst (an_step N B sub A i d mins))) (map_ ++ [snd (fst (an_step N B sub A i d mins))])
       (snd (an_step N B sub A i d mins)) /\
     P (set_empty_seeds (fst (fst (an_step N B sub A i d mins))) (snd (fst (an_step N B sub A i d mins))))
       (map_ ++ [snd (fst (an_step N B sub A i d mins))]) (snd (an_step N B sub A i d mins))) ->
  forall l, incl l ids -> forall d map_ mins tape, P d map_ mins ->
  exists m mi, P (fst (fst (attach_nodes N cm B sub A l d map_ mins tape))) m mi /\
    (forall m' mi', snd (fst (attach_nodes N cm B sub A l d map_ mins tape)) = Some (m', mi') ->
                    m' = m /\ mi' = mi).
Proof.
  intros P N cm B sub A ids Hstep l. induction l as [|i r IH]; intros Hincl d map_ mins tape HP.
  - rewrite attach_nodes_nil. simpl. exists map_, mins. split; [exact HP|].
    intros m' mi' H. injection H as H1 H2. auto.
  - rewrite attach_nodes_cons.
    assert (Hi : In i ids) by (apply Hincl; left; reflexivity).
    assert (Hr : incl r ids) by (intros z Hz; apply Hincl; right; exact Hz).
    destruct (Hstep i d map_ mins Hi HP) as [H1 H2].
    cbv zeta.
    destruct cm.
    + destruct tape as [|[[|]|] t].
      * simpl. eexists; eexists. split; [exact H1|]. intros m' mi' H. discriminate.
      * apply IH; assumption.
      * apply IH; assumption.
      * simpl. eexists; eexists. split; [exact H1|]. intros m' mi' H. discriminate.
    + apply IH; assumption.
Qed.

Lemma an_step_extends : forall N B sub A i d mins, extends d (fst (fst (an_step N B sub A i d mins))).
Proof.
  intros. unfold an_step.
  pose proof (ensure_node_extends N d None (graft B (n_space (get sub i)) A)) as He.
  destruct (ensure_node N d None (graft B (n_space (get sub i)) A)) as [d1 mid]. simpl in He.
  destruct (is_minimal sub i); simpl; [exact He|].
  eapply extends_trans; [exact He|].
  eapply extends_trans; [apply discard_if_stub_extends|apply upd_flag_extends; constructor].
Qed.

Lemma attach_nodes_extends : forall N cm B sub A l d map_ mins tape,
  extends d (fst (fst (attach_nodes N cm B sub A l d map_ mins tape))).
Proof.
  intros N cm B sub A l d map_ mins tape.
  destruct (attach_nodes_inv (fun d' _ _ => extends d d') N cm B sub A l) with (l := l) (d := d)
    (map_ := map_) (mins := mins) (tape := tape) as (m & mi & H & _).
  - intros i d0 m0 mi0 _ H0. split.
    + eapply extends_trans; [exact H0|apply an_step_extends].
    + eapply extends_trans; [exact H0|]. eapply extends_trans; [apply an_step_extends|apply set_empty_seeds_extends].
  - apply incl_refl.
  - apply extends_refl.
  - exact H.
Qed.

Lemma attach_edges_nil : forall B sub map_ d, attach_edges B sub map_ [] d = Some d.
Proof. intros. reflexivity. Qed.

Lemma attach_edges_cons : forall B sub map_ a b r d,
  attach_edges B sub map_ ((a, b) :: r) d =
  if Nat.eqb (nth a map_ 0) (nth b map_ 0) then None
  else attach_edges B sub map_ r (ensure_edge d (nth a map_ 0) (nth b map_ 0) (only_on B (first_motif sub a b))).
Proof. intros. reflexivity. Qed.

Lemma attach_edges_inv : forall (P : sd -> Prop) B sub map_,
  (forall d a b, P d -> P (ensure_edge d (nth a map_ 0) (nth b map_ 0) (only_on B (first_motif sub a b)))) ->
  forall pairs d d2, P d -> attach_edges B sub map_ pairs d = Some d2 -> P d2.
Proof.
  intros P B sub map_ Hstep pairs. induction pairs as [|[a b] r IH]; intros d d2 HP He.
  - rewrite attach_edges_nil in He. injection He as He. subst d2. exact HP.
  - rewrite attach_edges_cons in He.
    destruct (Nat.eqb (nth a map_ 0) (nth b map_ 0)); [discriminate|].
    apply (IH _ d2 (Hstep d a b HP) He).
Qed.

Lemma attach_edges_extends : forall B sub map_ pairs d d2,
  attach_edges B sub map_ pairs d = Some d2 -> extends d d2.
Proof.
  intros B sub map_ pairs d d2 He.
  apply (attach_edges_inv (fun d' => extends d d') B sub map_) with (pairs := pairs) (d := d);
    [|apply extends_refl|exact He].
  intros d0 a b H0. eapply extends_trans; [exact H0|apply ensure_edge_extends].
Qed.

(* the last part of attach_scc, after the edges *)
Definition as_close (cm : bool) (d2 : sd) (a : nat) (mins : list nat) (tape1 : tape_t)
  : sd * result * list nat * tape_t :=
  let d3 := upd_node (discard_if_stub d2 a) a (fun y => set_exp y true) in
  if cm then
    match tape1 with
    | Some true :: t => (set_empty_seeds d3 a, RUnit, mins, t)
    | Some false :: t => (d3, RUnit, mins, t)
    | _ => (d3, RRaised ErrLimit, [], tl tape1)
    end
  else (d3, RUnit, mins, tape1).

Lemma attach_scc_unfold : forall N cm B sub d a tape,
  attach_scc N cm B sub d a tape =
  if Nat.eqb (size sub) 1 then (d, RUnit, [a], tape) else
  let r := attach_nodes N cm B sub (n_space (get d a)) (seq 1 (size sub - 1)) d [a] [] tape in
  match snd (fst r) with
  | None => (fst (fst r), RRaised ErrLimit, [], snd r)
  | Some (map_, mins) =>
      match attach_edges B sub map_
              (flat_map (fun a0 => map (fun b => (a0, b)) (successors sub a0)) (seq 0 (size sub)))
              (fst (fst r)) with
      | None => (fst (fst r), RRaised ErrAssert, [], snd r)
      | Some d2 => as_close cm d2 a mins (snd r)
      end
  end.
Proof.
  intros. unfold attach_scc, as_close.
  destruct (Nat.eqb (size sub) 1); [reflexivity|].
  destruct (attach_nodes N cm B sub (n_space (get d a)) (seq 1 (size sub - 1)) d [a] [] tape) as [[d1 res] tape1].
  reflexivity.
Qed.

Lemma as_close_cases : forall (P : sd -> Prop) cm d2 a mins tape1,
  (forall d f, flag_setter f -> P d -> P (upd_node d a f)) -> P d2 ->
  P (fst (fst (fst (as_close cm d2 a mins tape1)))) /\
  (forall m, In m (snd (fst (as_close cm d2 a mins tape1))) -> In m mins).
Proof.
  intros P cm d2 a mins tape1 Hf HP. unfold as_close.
  assert (H3 : P (upd_node (discard_if_stub d2 a) a (fun y => set_exp y true))).
  { apply Hf; [constructor|]. unfold discard_if_stub. destruct (n_exp (get d2 a) && negb (n_skip (get d2 a))); [exact HP|].
    apply Hf; [constructor|exact HP]. }
  destruct cm; [destruct tape1 as [|[[|]|] t]|]; simpl; (split; [|auto; intros m []]); try exact H3.
  apply (set_empty_seeds_flag P); [|exact H3]. intros d0 f Hfs H0. apply Hf; assumption.
Qed.

Lemma attach_scc_extends : forall N cm B sub d a tape,
  extends d (fst (fst (fst (attach_scc N cm B sub d a tape)))).
Proof.
  intros. rewrite attach_scc_unfold.
  destruct (Nat.eqb (size sub) 1); [apply extends_refl|].
  pose proof (attach_nodes_extends N cm B sub (n_space (get d a)) (seq 1 (size sub - 1)) d [a] [] tape) as H1.
  cbv zeta.
  destruct (snd (fst (attach_nodes N cm B sub (n_space (get d a)) (seq 1 (size sub - 1)) d [a] [] tape)))
    as [[map_ mins]|]; [|exact H1].
  destruct (attach_edges B sub map_ _ _) as [d2|] eqn:Ee; [|exact H1].
  apply attach_edges_extends in Ee.
  apply (as_close_cases (fun d' => extends d d')).
  - intros d0 f Hf H0. eapply extends_trans; [exact H0|apply upd_flag_extends; exact Hf].
  - eapply extends_trans; eassumption.
Qed.

Lemma attach_all_nil : forall N cm B sub d acc tape,
  attach_all N cm B sub d [] acc tape = (d, RUnit, acc, tape).
Proof. intros. reflexivity. Qed.

Lemma attach_all_cons : forall N cm B sub d a r acc tape,
  attach_all N cm B sub d (a :: r) acc tape =
  let x := attach_scc N cm B sub d a tape in
  match snd (fst (fst x)) with
  | RUnit => attach_all N cm B sub (fst (fst (fst x))) r (acc ++ snd (fst x)) (snd x)
  | res => (fst (fst (fst x)), res, acc, snd x)
  end.
Proof.
  intros. unfold attach_all at 1. fold attach_all.
  destruct (attach_scc N cm B sub d a tape) as [[[d1 res] mins] tape1]. simpl.
  destruct res; reflexivity.
Qed.

Lemma attach_all_extends : forall N cm B sub ats d acc tape,
  extends d (fst (fst (fst (attach_all N cm B sub d ats acc tape)))).
Proof.
  intros N cm B sub ats. induction ats as [|a r IH]; intros d acc tape.
  - rewrite attach_all_nil. apply extends_refl.
  - rewrite attach_all_cons. cbv zeta.
    pose proof (attach_scc_extends N cm B sub d a tape) as H1.
    destruct (snd (fst (fst (attach_scc N cm B sub d a tape)))); try exact H1.
    eapply extends_trans; [exact H1|apply IH].
Qed.

Lemma scc_components_nil : forall expander N cm sp d ats tape,
  scc_components expander N cm sp [] d ats tape = (d, RUnit, ats, tape).
Proof. intros. reflexivity. Qed.

Lemma scc_components_cons : forall expander N cm sp B r d ats tape,
  scc_components expander N cm sp (B :: r) d ats tape =
  let Nsub := sub_net N sp B in
  let e := expander Nsub (init Nsub) tape in
  match snd (fst e) with
  | RBool true =>
      let x := attach_all N cm B (fst (fst e)) d ats [] (snd e) in
      match snd (fst (fst x)) with
      | RUnit => scc_components expander N cm sp r (fst (fst (fst x))) (snd (fst x)) (snd x)
      | res => (fst (fst (fst x)), res, snd (fst x), snd x)
      end
  | rsub => (d, rsub, ats, snd e)
  end.
Proof.
  intros. unfold scc_components at 1. fold scc_components. cbv zeta.
  destruct (expander (sub_net N sp B) (init (sub_net N sp B)) tape) as [[sub rsub] tape1]. simpl.
  destruct rsub as [|[|]| | | |]; try reflexivity.
  destruct (attach_all N cm B sub d ats [] tape1) as [[[d1 res] ats1] tape2]. simpl.
  destruct res; reflexivity.
Qed.

Lemma scc_components_extends : forall expander N cm sp comps d ats tape,
  extends d (fst (fst (fst (scc_components expander N cm sp comps d ats tape)))).
Proof.
  intros expander N cm sp comps. induction comps as [|B r IH]; intros d ats tape.
  - rewrite scc_components_nil. apply extends_refl.
  - rewrite scc_components_cons. cbv zeta.
    destruct (snd (fst (expander (sub_net N sp B) (init (sub_net N sp B)) tape))) as [|[|]| | | |];
      try apply extends_refl.
    match goal with |- context [attach_all ?a ?b ?c ?dd ?e ?f ?g ?h] =>
      pose proof (attach_all_extends a b c dd f e g h) as H1;
      destruct (snd (fst (fst (attach_all a b c dd e f g h)))); try exact H1 end.
    eapply extends_trans; [exact H1|apply IH].
Qed.

Lemma scc_level_nil : forall expander N cfg cm d next tape,
  scc_level expander N cfg cm d [] next tape = (d, RUnit, next, tape).
Proof. intros. reflexivity. Qed.

(* what one iteration of the level loop does before it continues with the rest of the level:
   either it stops with a result, or it continues with a new diagram, next level and tape *)
Inductive lvl_out :=
| LStop (d : sd) (r : result) (next : list nat) (tape : tape_t)
| LCont (d : sd) (next : list nat) (tape : tape_t).

Definition lvl_succ (N : net) (cfg : config) (d : sd) (x : nat) (next : list nat) (tape : tape_t) : lvl_out :=
  let ns := node_successors N cfg d x in
  match snd (fst ns) with
  | RUnit => LCont (fst (fst ns)) (union_nat next (snd ns)) tape
  | r => LStop (fst (fst ns)) r next tape
  end.

Definition lvl_one (expander : expander_t) (N : net) (cfg : config) (cm : bool) (d : sd) (x : nat)
           (next : list nat) (tape : tape_t) : lvl_out :=
  let sp := n_space (get d x) in
  match source_sccs N sp with
  | [] =>
      let ns := node_successors N cfg d x in
      match snd (fst ns) with
      | RUnit => match snd ns with
                 | [] => LCont (fst (fst ns)) next tape
                 | _ => LStop (fst (fst ns)) (RRaised ErrAssert) next tape
                 end
      | r => LStop (fst (fst ns)) r next tape
      end
  | [_] => lvl_succ N cfg d x next tape
  | comps =>
      let c := scc_components expander N cm sp comps d [x] tape in
      let d1 := fst (fst (fst c)) in
      match snd (fst (fst c)) with
      | RUnit =>
          match snd (fst c) with
          | [y] => if Nat.eqb y x then lvl_succ N cfg d1 x next (snd c)
                   else LCont d1 (union_nat next (snd (fst c))) (snd c)
          | ats => LCont d1 (union_nat next ats) (snd c)
          end
      | res => LStop d1 res next (snd c)
      end
  end.

Lemma scc_level_cons : forall expander N cfg cm d x cur next tape,
  scc_level expander N cfg cm d (x :: cur) next tape =
  match lvl_one expander N cfg cm d x next tape with
  | LStop d1 r next1 tape1 => (d1, r, next1, tape1)
  | LCont d1 next1 tape1 => scc_level expander N cfg cm d1 cur next1 tape1
  end.
Proof.
  intros. unfold scc_level at 1. fold scc_level. unfold lvl_one, lvl_succ. cbv zeta.
  destruct (source_sccs N (n_space (get d x))) as [|c1 [|c2 cr]].
  - destruct (node_successors N cfg d x) as [[d1 r] succ]. simpl.
    destruct r; try reflexivity. destruct succ; reflexivity.
  - destruct (node_successors N cfg d x) as [[d1 r] succ]. simpl.
    destruct r; reflexivity.
  - destruct (scc_components expander N cm (n_space (get d x)) (c1 :: c2 :: cr) d [x] tape)
      as [[[d1 res] ats] tape1]. simpl.
    destruct res as [|[|]| | | |]; try reflexivity.
    destruct ats as [|y [|y2 yr]]; try reflexivity.
    destruct (Nat.eqb y x); [|reflexivity].
    destruct (node_successors N cfg d1 x) as [[d2 r] succ]. simpl.
    destruct r; reflexivity.
Qed.

Definition lvl_out_sd (o : lvl_out) : sd :=
  match o with LStop d _ _ _ => d | LCont d _ _ => d end.

Lemma lvl_succ_extends : forall N cfg d x next tape, extends d (lvl_out_sd (lvl_succ N cfg d x next tape)).
Proof.
  intros. unfold lvl_succ. cbv zeta. pose proof (node_successors_extends N cfg d x) as H.
  destruct (snd (fst (node_successors N cfg d x))); exact H.
Qed.

Lemma lvl_one_extends : forall expander N cfg cm d x next tape,
  extends d (lvl_out_sd (lvl_one expander N cfg cm d x next tape)).
Proof.
  intros. unfold lvl_one. cbv zeta.
  destruct (source_sccs N (n_space (get d x))) as [|c1 [|c2 cr]].
  - pose proof (node_successors_extends N cfg d x) as H.
    destruct (snd (fst (node_successors N cfg d x))); try exact H.
    destruct (snd (node_successors N cfg d x)); exact H.
  - apply lvl_succ_extends.
  - pose proof (scc_components_extends expander N cm (n_space (get d x)) (c1 :: c2 :: cr) d [x] tape) as H.
    destruct (snd (fst (fst (scc_components expander N cm (n_space (get d x)) (c1 :: c2 :: cr) d [x] tape))))
      as [|[|]| | | |]; try exact H.
    destruct (snd (fst (scc_components expander N cm (n_space (get d x)) (c1 :: c2 :: cr) d [x] tape)))
      as [|y [|y2 yr]]; try exact H.
    destruct (Nat.eqb y x); [|exact H].
    eapply extends_trans; [exact H|apply lvl_succ_extends].
Qed.

Lemma scc_level_extends : forall expander N cfg cm cur d next tape,
  extends d (fst (fst (fst (scc_level expander N cfg cm d cur next tape)))).
Proof.
  intros expander N cfg cm cur. induction cur as [|x cur IH]; intros d next tape.
  - rewrite scc_level_nil. apply extends_refl.
  - rewrite scc_level_cons. pose proof (lvl_one_extends expander N cfg cm d x next tape) as H.
    destruct (lvl_one expander N cfg cm d x next tape) as [d1 r n1 t1|d1 n1 t1]; simpl in H; [exact H|].
    eapply extends_trans; [exact H|apply IH].
Qed.

Lemma scc_levels_O : forall expander N cfg cm d cur tape,
  scc_levels 0 expander N cfg cm d cur tape = (d, RFuel, tape).
Proof. intros. reflexivity. Qed.

Lemma scc_levels_S : forall f expander N cfg cm d cur tape,
  scc_levels (S f) expander N cfg cm d cur tape =
  match cur with
  | [] => (d, RBool true, tape)
  | _ =>
      let l := scc_level expander N cfg cm d (sort_nat cur) [] tape in
      match snd (fst (fst l)) with
      | RUnit => scc_levels f expander N cfg cm (fst (fst (fst l))) (snd (fst l)) (snd l)
      | r => (fst (fst (fst l)), r, snd l)
      end
  end.
Proof.
  intros. unfold scc_levels at 1. fold scc_levels. destruct cur as [|c0 cr]; [reflexivity|].
  cbv zeta. destruct (scc_level expander N cfg cm d (sort_nat (c0 :: cr)) [] tape) as [[[d1 r] next] tape1].
  simpl. destruct r; reflexivity.
Qed.

Lemma scc_levels_extends : forall fuel expander N cfg cm d cur tape,
  extends d (fst (fst (scc_levels fuel expander N cfg cm d cur tape))).
Proof.
  intros fuel expander N cfg cm. induction fuel as [|f IH]; intros d cur tape.
  - rewrite scc_levels_O. apply extends_refl.
  - rewrite scc_levels_S. destruct cur as [|c0 cr]; [apply extends_refl|]. cbv zeta.
    pose proof (scc_level_extends expander N cfg cm (sort_nat (c0 :: cr)) d [] tape) as H.
    destruct (snd (fst (fst (scc_level expander N cfg cm d (sort_nat (c0 :: cr)) [] tape)))); try exact H.
    eapply extends_trans; [exact H|apply IH].
Qed.

Lemma scc_main_O : forall N cfg cm d tape, scc_main 0 N cfg cm d tape = (d, RFuel, tape).
Proof. intros. reflexivity. Qed.

Lemma scc_main_S : forall f N cfg cm d tape,
  scc_main (S f) N cfg cm d tape =
  let expander : expander_t := fun N' d' t' => scc_main f N' cfg cm d' t' in
  let sp := n_space (get d 0) in
  match sources_in_b N sp with
  | [] => scc_levels (S f) expander N cfg cm d [0] tape
  | _ =>
      if Nat.ltb (max_motifs cfg) (Nat.pow 2 (length (sources_in_b N sp))) then (d, RRaised ErrMotifLimit, tape)
      else
        let ec := ensure_children N d 0 (ff_motifs N sp) [] in
        let d2 := set_empty_seeds (clear_cands (upd_node (fst ec) 0 (fun y => set_exp y true)) 0) 0 in
        scc_levels (S f) expander N cfg cm d2 (union_nat [] (snd ec)) tape
  end.
Proof.
  intros. unfold scc_main at 1. fold scc_main. cbv zeta. unfold ff_motifs.
  destruct (sources_in_b N (n_space (get d 0))) as [|s0 sr]; [reflexivity|].
  destruct (Nat.ltb (max_motifs cfg) (Nat.pow 2 (length (s0 :: sr)))); [reflexivity|].
  destruct (ensure_children N d 0 (map (merge (n_space (get d 0))) (source_valuations (nvars N) (s0 :: sr))) [])
    as [d1 kids]. reflexivity.
Qed.

Lemma scc_main_extends : forall fuel N cfg cm d tape,
  extends d (fst (fst (scc_main fuel N cfg cm d tape))).
Proof.
  intros fuel N cfg cm d tape. destruct fuel as [|f].
  - rewrite scc_main_O. apply extends_refl.
  - rewrite scc_main_S. cbv zeta.
    destruct (sources_in_b N (n_space (get d 0))) as [|s0 sr] eqn:Es; [apply scc_levels_extends|].
    destruct (Nat.ltb (max_motifs cfg) (Nat.pow 2 (length (s0 :: sr)))); [apply extends_refl|].
    eapply extends_trans; [|apply scc_levels_extends].
    rewrite ensure_children_fst.
    eapply extends_trans; [apply ensure_all_extends|].
    eapply extends_trans; [apply upd_flag_extends; constructor|].
    eapply extends_trans; [apply clear_cands_extends|apply set_empty_seeds_extends].
Qed.

Lemma expand_scc_fst : forall fuel N cfg d maa tape,
  fst (expand_scc fuel N cfg d maa tape) = fst (fst (scc_main fuel N cfg maa d tape)).
Proof.
  intros. unfold expand_scc. destruct (scc_main fuel N cfg maa d tape) as [[d1 r] t]. reflexivity.
Qed.

Theorem expand_scc_grows : forall fuel N cfg d maa tape,
  size d <= size (fst (expand_scc fuel N cfg d maa tape)) /\
  forall i, i < size d -> n_space (get (fst (expand_scc fuel N cfg d maa tape)) i) = n_space (get d i).
Proof.
  intros. rewrite expand_scc_fst.
  pose proof (scc_main_extends fuel N cfg maa d tape) as H.
  split; [apply extends_size; exact H|]. intros i Hi. apply extends_space; assumption.
Qed.

(* ====================================================================== *)
(* 5. every node is a trap space                                           *)
(* ====================================================================== *)

(* the invariant the strategy does preserve (SWF is lost: the motifs written on the attached edges are
   restricted to the component): a root exists, every node space is a percolated trap space, edges join
   valid ids *)
Definition WI (N : net) (d : sd) : Prop :=
  0 < size d /\
  (forall X, In X (spaces d) -> trap_space N X /\ percolate_b N X = X) /\
  (forall e, In e (sd_edges d) -> e_src e < size d /\ e_dst e < size d).

Lemma WI_of_SWF : forall N d, SWF N d -> TrapNodes N d -> WI N d.
Proof.
  intros N d Hs Ht. split; [apply (swf_size N d Hs)|]. split.
  - intros X HX. unfold spaces in HX. apply in_map_iff in HX. destruct HX as (x & Ex & Hx). subst X.
    split; [apply Ht; exact Hx|apply (swf_closed N d Hs x Hx)].
  - intros e He. destruct (swf_edges N d Hs e He) as (H1 & H2 & _). split; assumption.
Qed.

Lemma WI_TrapNodes : forall N d, WI N d -> TrapNodes N d.
Proof. intros N d (_ & H & _). apply TrapNodes_spaces. intros X HX. apply (H X HX). Qed.

Lemma WI_len : forall N d, WI N d -> forall x, In x (sd_nodes d) -> length (n_space x) = nvars N.
Proof.
  intros N d (_ & H & _) x Hx. apply trap_space_length. apply (H (n_space x)).
  unfold spaces. apply in_map. exact Hx.
Qed.

Lemma WI_get : forall N d i, WI N d -> i < size d ->
  trap_space N (n_space (get d i)) /\ percolate_b N (n_space (get d i)) = n_space (get d i).
Proof.
  intros N d i (_ & H & _) Hi. apply H. apply In_spaces_iff. exists i. split; [exact Hi|reflexivity].
Qed.

Lemma WI_same_shape : forall N d d', size d' = size d -> spaces d' = spaces d ->
  (forall e, In e (sd_edges d') -> In e (sd_edges d) \/ (e_src e < size d /\ e_dst e < size d)) ->
  WI N d -> WI N d'.
Proof.
  intros N d d' Hs Hsp He (H1 & H2 & H3). split; [rewrite Hs; exact H1|]. split.
  - rewrite Hsp. exact H2.
  - intros e Hin. rewrite Hs. destruct (He e Hin) as [Ho|Hn]; [apply H3; exact Ho|exact Hn].
Qed.

Lemma WI_upd_flag : forall N d i f, flag_setter f -> WI N d -> WI N (upd_node d i f).
Proof.
  intros N d i f Hf Hw. apply (WI_same_shape N d); [apply size_upd_node|apply spaces_upd_flag; exact Hf| |exact Hw].
  intros e He. rewrite sd_edges_upd_node in He. left. exact He.
Qed.

Lemma WI_ensure_edge : forall N d p c m, WI N d -> p < size d -> c < size d -> WI N (ensure_edge d p c m).
Proof.
  intros N d p c m Hw Hp Hc.
  apply (WI_same_shape N d); [apply size_ensure_edge|apply spaces_ensure_edge| |exact Hw].
  intros e He. rewrite sd_edges_ensure_edge in He. apply edge_added_In in He.
  destruct He as [He|[E1 E2]]; [left; exact He|right; rewrite E1, E2; split; assumption].
Qed.

Lemma WI_link : forall N d parent c m, WI N d -> (forall p, parent = Some p -> p < size d) -> c < size d ->
  WI N (link d parent c m).
Proof.
  intros N d [p|] c m Hw Hp Hc; simpl; [|exact Hw].
  apply WI_ensure_edge; [exact Hw|apply Hp; reflexivity|exact Hc].
Qed.

Lemma WI_add_node : forall N d x, WI N d -> trap_space N (n_space x) -> percolate_b N (n_space x) = n_space x ->
  WI N (add_node d x).
Proof.
  intros N d x (H1 & H2 & H3) Ht Hp. split; [rewrite size_add_node; lia|]. split.
  - rewrite spaces_add_node. intros X HX. apply in_app_or in HX.
    destruct HX as [HX|[HX|[]]]; [apply H2; exact HX|]. subst X. split; assumption.
  - intros e He. rewrite size_add_node. destruct (H3 e He) as [A1 A2]. split; lia.
Qed.

Lemma WI_ensure_node : forall N d parent m, WI N d -> trap_space N m ->
  (forall p, parent = Some p -> p < size d) ->
  WI N (fst (ensure_node N d parent m)) /\
  snd (ensure_node N d parent m) < size (fst (ensure_node N d parent m)) /\
  n_space (get (fst (ensure_node N d parent m)) (snd (ensure_node N d parent m))) = percolate_b N m.
Proof.
  intros N d parent m Hw Ht Hp. rewrite ensure_node_unfold.
  pose proof (trap_space_length N m Ht) as Hm.
  assert (Hlen : length (percolate_b N m) = nvars N) by (rewrite percolate_b_length; exact Hm).
  destruct (percolate_b_trap N m Ht) as [Htp _].
  destruct (find_node d (percolate_b N m)) as [c|] eqn:Ef; simpl.
  - destruct (find_node_some_len (nvars N) d _ c (WI_len N d Hw) Hlen Ef) as [Hc Hsp].
    split; [apply WI_link; assumption|]. split; [rewrite size_link; exact Hc|].
    destruct (get_link d parent c m c) as [Hs _]. rewrite Hs. exact Hsp.
  - set (d1 := add_node d (fresh_node (percolate_b N m) parent)).
    assert (Hs1 : size d1 = S (size d)) by (unfold d1; apply size_add_node).
    assert (Hw1 : WI N d1).
    { unfold d1. apply WI_add_node; [exact Hw|exact Htp|]. simpl. apply percolate_b_idem. exact Hm. }
    split.
    + apply WI_link; [exact Hw1| |lia]. intros p Ep. specialize (Hp p Ep). lia.
    + split; [rewrite size_link; lia|].
      destruct (get_link d1 parent (size d) m (size d)) as [Hs _]. rewrite Hs.
      unfold d1. rewrite get_add_node_new. reflexivity.
Qed.

Lemma WI_set_empty_seeds : forall N d i, WI N d -> WI N (set_empty_seeds d i).
Proof.
  intros N d i H. apply (set_empty_seeds_flag (WI N)); [|exact H].
  intros d0 f Hf H0. apply WI_upd_flag; assumption.
Qed.

Lemma WI_clear_cands : forall N d i, WI N d -> WI N (clear_cands d i).
Proof.
  intros N d i H. apply (clear_cands_flag (WI N)); [|exact H].
  intros d0 f Hf H0. apply WI_upd_flag; assumption.
Qed.

Lemma WI_discard_if_stub : forall N d i, WI N d -> WI N (discard_if_stub d i).
Proof.
  intros N d i H. unfold discard_if_stub. destruct (n_exp (get d i) && negb (n_skip (get d i))); [exact H|].
  apply WI_upd_flag; [constructor|exact H].
Qed.

Lemma WI_ensure_all : forall N subs d p, WI N d -> p < size d -> (forall m, In m subs -> trap_space N m) ->
  WI N (ensure_all N d p subs).
Proof.
  intros N subs. induction subs as [|m r IH]; intros d p Hw Hp Ht; [exact Hw|].
  rewrite ensure_all_cons.
  destruct (WI_ensure_node N d (Some p) m Hw (Ht m (or_introl eq_refl))) as (Hw1 & _ & _).
  { intros p0 E. injection E as E. subst p0. exact Hp. }
  apply IH; [exact Hw1| |intros m0 Hm0; apply Ht; right; exact Hm0].
  apply (extends_lt d _ p (ensure_node_extends N d (Some p) m) Hp).
Qed.

Lemma WI_expand_one : forall N cfg d i, WI N d -> i < size d -> WI N (fst (expand_one N cfg d i)).
Proof.
  intros N cfg d i Hw Hi. unfold expand_one. cbv zeta.
  destruct (n_exp (get d i)); [exact Hw|].
  assert (Hw0 : WI N (upd_node d i clear_attr)) by (apply WI_upd_flag; [constructor|exact Hw]).
  destruct (is_full (n_space (get d i))); [simpl; apply WI_upd_flag; [constructor|exact Hw0]|].
  match goal with |- context [if ?c then _ else _] => destruct c end; [exact Hw0|].
  simpl. apply WI_upd_flag; [constructor|].
  apply WI_ensure_all; [exact Hw0|rewrite size_upd_node; exact Hi|].
  intros m Hm. apply In_firstn_in in Hm. apply sort_by_key_In in Hm.
  destruct (WI_get N d i Hw Hi) as [Htr _].
  apply (max_traps_b_spec_srcs N _ _ m (trap_space_length N _ Htr)) in Hm. apply Hm.
Qed.

Lemma WI_successors : forall N d i s, WI N d -> In s (successors d i) -> s < size d.
Proof.
  intros N d i s (_ & _ & H) Hin. unfold successors, successors_of in Hin.
  apply in_map_iff in Hin. destruct Hin as [e [Heq Hin]].
  apply filter_In in Hin. destruct Hin as [Hin _]. subst s. apply (H e Hin).
Qed.

Lemma WI_node_successors : forall N cfg d i, WI N d -> i < size d ->
  WI N (fst (fst (node_successors N cfg d i))) /\
  forall s, In s (snd (node_successors N cfg d i)) -> s < size (fst (fst (node_successors N cfg d i))).
Proof.
  intros N cfg d i Hw Hi.
  assert (H : WI N (fst (fst (node_successors N cfg d i)))).
  { rewrite node_successors_fst. apply WI_expand_one; assumption. }
  split; [exact H|]. intros s Hs. apply node_successors_succ in Hs.
  apply (WI_successors N _ i s H Hs).
Qed.

Lemma ensure_children_nil : forall N d p acc, ensure_children N d p [] acc = (d, acc).
Proof. intros. reflexivity. Qed.

Lemma WI_ensure_children_valid : forall N subs d p acc, WI N d -> p < size d ->
  (forall m, In m subs -> trap_space N m) -> (forall a, In a acc -> a < size d) ->
  forall c, In c (snd (ensure_children N d p subs acc)) -> c < size (ensure_all N d p subs).
Proof.
  intros N subs. induction subs as [|m r IH]; intros d p acc Hw Hp Ht Hacc c Hc.
  - rewrite ensure_children_nil in Hc. simpl in Hc. simpl. apply Hacc. exact Hc.
  - rewrite ensure_children_cons in Hc. rewrite ensure_all_cons.
    destruct (WI_ensure_node N d (Some p) m Hw (Ht m (or_introl eq_refl))) as (Hw1 & Hc1 & _).
    { intros p0 E. injection E as E. subst p0. exact Hp. }
    pose proof (ensure_node_extends N d (Some p) m) as He.
    apply (IH _ p (acc ++ [snd (ensure_node N d (Some p) m)]) Hw1 (extends_lt _ _ _ He Hp)) with (c := c); [| |exact Hc].
    + intros m0 Hm0. apply Ht. right. exact Hm0.
    + intros a Ha. apply in_app_or in Ha. destruct Ha as [Ha|[Ha|[]]].
      * apply (extends_lt _ _ _ He). apply Hacc. exact Ha.
      * subst a. exact Hc1.
Qed.

(* ---------- attach points ---------- *)
Definition good_at (sp : space) (rest : list (list nat)) (d : sd) (a : nat) : Prop :=
  a < size d /\ subspace (n_space (get d a)) sp = true /\
  forall B v, In B rest -> In v B -> nth v (n_space (get d a)) None = None.

Lemma good_at_extends : forall sp rest d d' a, extends d d' -> good_at sp rest d a -> good_at sp rest d' a.
Proof.
  intros sp rest d d' a He (H1 & H2 & H3). unfold good_at.
  rewrite (extends_space d d' a He H1). split; [apply (extends_lt d d' a He H1)|]. split; assumption.
Qed.

Lemma good_at_weaken : forall sp B rest d a, good_at sp (B :: rest) d a -> good_at sp rest d a.
Proof.
  intros sp B rest d a (H1 & H2 & H3). split; [exact H1|]. split; [exact H2|].
  intros B' v HB' Hv. apply (H3 B' v); [right; exact HB'|exact Hv].
Qed.

Record attach_env (N : net) (sp : space) (B : list nat) (rest : list (list nat)) (sub : sd) : Prop := {
  ae_trap : trap_space N sp;
  ae_pc : perc_closed N sp;
  ae_closed : closed_in N sp B;
  ae_rest : forall B', In B' rest -> closed_in N sp B' /\ disj B B';
  ae_sub : forall i, i < size sub -> trap_space (sub_net N sp B) (n_space (get sub i))
}.

Lemma graft_sub : forall B T (A : space), (forall v, In v B -> nth v A None = None) ->
  subspace (graft B T A) A = true.
Proof.
  intros B T A Hfree. apply subspace_nth; [apply graft_length|].
  intros i v Hi. assert (Hil : i < length A) by (apply (nth_some_lt A i v Hi)).
  rewrite (nth_graft B T A i Hil). destruct (mem_nat i B) eqn:E; [|exact Hi].
  apply BM_mem_nat_In in E. rewrite (Hfree i E) in Hi. discriminate.
Qed.

Lemma an_step_WI : forall N sp B rest sub A i d mins, attach_env N sp B rest sub -> i < size sub ->
  trap_space N A -> subspace A sp = true ->
  (forall B' v, In B' (B :: rest) -> In v B' -> nth v A None = None) ->
  WI N d ->
  WI N (fst (fst (an_step N B sub A i d mins))) /\
  good_at sp rest (fst (fst (an_step N B sub A i d mins))) (snd (fst (an_step N B sub A i d mins))) /\
  (forall m, In m (snd (an_step N B sub A i d mins)) -> In m mins \/ m = snd (fst (an_step N B sub A i d mins))).
Proof.
  intros N sp B rest sub A i d mins Henv Hi HtA HAsp Hfree Hw.
  pose proof (ae_trap _ _ _ _ _ Henv) as HtS.
  pose proof (trap_space_length N sp HtS) as HS.
  pose proof (trap_space_length N A HtA) as HA.
  assert (HfreeB : forall v, In v B -> nth v A None = None).
  { intros v Hv. apply (Hfree B v); [left; reflexivity|exact Hv]. }
  set (G := graft B (n_space (get sub i)) A).
  assert (HtG : trap_space N G).
  { unfold G. apply (graft_trap N sp B _ A HtS (ae_closed _ _ _ _ _ Henv) (ae_sub _ _ _ _ _ Henv i Hi) HtA HAsp HfreeB). }
  assert (HG : length G = nvars N) by (apply trap_space_length; exact HtG).
  assert (HGsp : subspace G sp = true).
  { apply (subspace_trans G A sp); [unfold G; apply graft_sub; exact HfreeB|exact HAsp]. }
  destruct (percolate_b_trap N G HtG) as [_ HPG].
  assert (Hgood : forall d1 mid, mid < size d1 -> n_space (get d1 mid) = percolate_b N G -> good_at sp rest d1 mid).
  { intros d1 mid Hmid Hsp. split; [exact Hmid|]. rewrite Hsp. split.
    - apply (subspace_trans _ G sp); assumption.
    - intros B' v HB' Hv. destruct (ae_rest _ _ _ _ _ Henv B' HB') as [Hc' Hdis].
      destruct (perc_steps_B_free N sp B' Hc' HS (ae_pc _ _ _ _ _ Henv) G (percolate_b N G)
                  (percolate_b_steps N G HG)) as [_ Hfr]; [|apply Hfr; exact Hv].
      split; [exact HGsp|]. intros j Hj.
      pose proof (BM_closed_lt N sp B' j Hc' Hj) as Hjl.
      unfold G. rewrite nth_graft by (rewrite HA; exact Hjl).
      destruct (mem_nat j B) eqn:E.
      + exfalso. apply BM_mem_nat_In in E. apply (Hdis j E Hj).
      + apply (Hfree B' j); [right; exact HB'|exact Hj]. }
  unfold an_step. fold G.
  destruct (WI_ensure_node N d None G Hw HtG) as (Hw1 & Hmid & Hsp); [intros p E; discriminate|].
  destruct (ensure_node N d None G) as [d1 mid]. simpl in Hw1, Hmid, Hsp.
  destruct (is_minimal sub i); simpl.
  - split; [exact Hw1|]. split; [apply Hgood; assumption|].
    intros m Hm. apply in_app_or in Hm. destruct Hm as [Hm|[Hm|[]]]; [left; exact Hm|right; symmetry; exact Hm].
  - split; [apply WI_upd_flag; [constructor|apply WI_discard_if_stub; exact Hw1]|].
    split; [|intros m Hm; left; exact Hm].
    apply (good_at_extends sp rest d1); [|apply Hgood; assumption].
    eapply extends_trans; [apply discard_if_stub_extends|apply upd_flag_extends; constructor].
Qed.

Lemma attach_scc_WI : forall N cm sp B rest sub d a tape, attach_env N sp B rest sub -> WI N d ->
  good_at sp (B :: rest) d a ->
  WI N (fst (fst (fst (attach_scc N cm B sub d a tape)))) /\
  forall m, In m (snd (fst (attach_scc N cm B sub d a tape))) ->
            good_at sp rest (fst (fst (fst (attach_scc N cm B sub d a tape)))) m.
Proof.
  intros N cm sp B rest sub d a tape Henv Hw Hga.
  rewrite attach_scc_unfold.
  destruct (Nat.eqb (size sub) 1); simpl.
  { split; [exact Hw|]. intros m [Hm|[]]. subst m. apply (good_at_weaken sp B rest d a Hga). }
  pose proof Hga as (Ha & HAsp & HAfree).
  destruct (WI_get N d a Hw Ha) as [HtA _].
  set (A := n_space (get d a)) in *.
  set (ids := seq 1 (size sub - 1)).
  destruct (attach_nodes_inv
              (fun d' map_ mins => WI N d' /\ extends d d' /\ (forall x, In x map_ -> x < size d') /\
                                   (forall x, In x mins -> good_at sp rest d' x))
              N cm B sub A ids) with (l := ids) (d := d) (map_ := [a]) (mins := @nil nat) (tape := tape)
    as (m & mi & (Hw1 & He1 & Hmap & Hmins) & Heq).
  - intros i d0 map_ mins Hi (Hw0 & He0 & Hmap0 & Hmins0).
    assert (Hil : i < size sub) by (unfold ids in Hi; apply in_seq in Hi; lia).
    destruct (an_step_WI N sp B rest sub A i d0 mins Henv Hil HtA HAsp HAfree Hw0) as (Hw2 & Hg2 & Hm2).
    pose proof (an_step_extends N B sub A i d0 mins) as He2.
    assert (K : forall d', WI N d' -> extends (fst (fst (an_step N B sub A i d0 mins))) d' ->
              WI N d' /\ extends d d' /\
              (forall x, In x (map_ ++ [snd (fst (an_step N B sub A i d0 mins))]) -> x < size d') /\
              (forall x, In x (snd (an_step N B sub A i d0 mins)) -> good_at sp rest d' x)).
    { intros d' Hw' He'. split; [exact Hw'|].
      assert (He0' : extends d0 d') by (eapply extends_trans; eassumption).
      split; [eapply extends_trans; eassumption|]. split.
      - intros x Hx. apply in_app_or in Hx. destruct Hx as [Hx|[Hx|[]]].
        + apply (extends_lt d0 d' x He0'). apply Hmap0. exact Hx.
        + subst x. apply (extends_lt _ d' _ He'). apply Hg2.
      - intros x Hx. destruct (Hm2 x Hx) as [Hx1|Hx1].
        + apply (good_at_extends sp rest d0 d' x He0'). apply Hmins0. exact Hx1.
        + subst x. apply (good_at_extends sp rest _ d' _ He' Hg2). }
    split.
    + apply K; [exact Hw2|apply extends_refl].
    + apply K; [apply WI_set_empty_seeds; exact Hw2|apply set_empty_seeds_extends].
  - apply incl_refl.
  - split; [exact Hw|]. split; [apply extends_refl|]. split.
    + intros x [Hx|[]]. subst x. exact Ha.
    + intros x [].
  - cbv zeta.
    set (r := attach_nodes N cm B sub A ids d [a] [] tape) in *.
    destruct (snd (fst r)) as [[map_ mins]|] eqn:Er.
    2:{ simpl. split; [exact Hw1|intros x []]. }
    destruct (Heq map_ mins eq_refl) as [E1 E2]. subst m mi.
    destruct (attach_edges B sub map_ _ (fst (fst r))) as [d2|] eqn:Ee.
    2:{ simpl. split; [exact Hw1|intros x []]. }
    assert (H2 : WI N d2 /\ extends (fst (fst r)) d2).
    { apply (attach_edges_inv (fun d' => WI N d' /\ extends (fst (fst r)) d') B sub map_) with (2 := conj Hw1 (extends_refl _)) (3 := Ee).
      intros d0 x y [Hw0 He0]. split; [|eapply extends_trans; [exact He0|apply ensure_edge_extends]].
      assert (Hv : forall k, nth k map_ 0 < size d0).
      { intro k. apply (extends_lt _ d0 _ He0).
        destruct (nth_in_or_default k map_ 0) as [Hin|Hd]; [apply Hmap; exact Hin|].
        rewrite Hd. destruct Hw1 as (Hpos & _). exact Hpos. }
      apply WI_ensure_edge; [exact Hw0|apply Hv|apply Hv]. }
    destruct H2 as [Hw2 He2].
    destruct (as_close_cases (fun d' => WI N d' /\ extends d2 d') cm d2 a mins (snd r)) as [[Hw3 He3] Hsub].
    + intros d0 f Hf [Hw0 He0]. split; [apply WI_upd_flag; assumption|].
      eapply extends_trans; [exact He0|apply upd_flag_extends; exact Hf].
    + split; [exact Hw2|apply extends_refl].
    + split; [exact Hw3|]. intros x Hx. apply Hsub in Hx.
      apply (good_at_extends sp rest (fst (fst r))); [eapply extends_trans; eassumption|].
      apply Hmins. exact Hx.
Qed.

Lemma attach_all_WI : forall N cm sp B rest sub, attach_env N sp B rest sub ->
  forall ats d acc tape, WI N d ->
  (forall a, In a ats -> good_at sp (B :: rest) d a) -> (forall a, In a acc -> good_at sp rest d a) ->
  WI N (fst (fst (fst (attach_all N cm B sub d ats acc tape)))) /\
  forall m, In m (snd (fst (attach_all N cm B sub d ats acc tape))) ->
            good_at sp rest (fst (fst (fst (attach_all N cm B sub d ats acc tape)))) m.
Proof.
  intros N cm sp B rest sub Henv ats. induction ats as [|a r IH]; intros d acc tape Hw Hats Hacc.
  - rewrite attach_all_nil. simpl. split; assumption.
  - rewrite attach_all_cons. cbv zeta.
    destruct (attach_scc_WI N cm sp B rest sub d a tape Henv Hw (Hats a (or_introl eq_refl))) as [Hw1 Hm1].
    pose proof (attach_scc_extends N cm B sub d a tape) as He1.
    assert (Hacc1 : forall x, In x acc -> good_at sp rest (fst (fst (fst (attach_scc N cm B sub d a tape)))) x).
    { intros x Hx. apply (good_at_extends sp rest d _ x He1). apply Hacc. exact Hx. }
    destruct (snd (fst (fst (attach_scc N cm B sub d a tape)))); simpl; try (split; assumption).
    apply IH; [exact Hw1| |].
    + intros x Hx. apply (good_at_extends sp (B :: rest) d _ x He1). apply Hats. right. exact Hx.
    + intros x Hx. apply in_app_or in Hx. destruct Hx as [Hx|Hx]; [apply Hacc1; exact Hx|apply Hm1; exact Hx].
Qed.

Definition exp_ok (expander : expander_t) : Prop :=
  forall N' d' t', WI N' d' -> WI N' (fst (fst (expander N' d' t'))).

Lemma init_WI : forall N, WI N (init N).
Proof. intro N. apply WI_of_SWF; [apply init_SWF|apply init_TrapNodes]. Qed.

Lemma scc_components_WI : forall expander N cm sp, exp_ok expander -> trap_space N sp -> perc_closed N sp ->
  forall comps d ats tape, (forall B, In B comps -> closed_in N sp B) -> pw_disj comps -> WI N d ->
  (forall a, In a ats -> good_at sp comps d a) ->
  WI N (fst (fst (fst (scc_components expander N cm sp comps d ats tape)))) /\
  forall m, In m (snd (fst (scc_components expander N cm sp comps d ats tape))) ->
            m < size (fst (fst (fst (scc_components expander N cm sp comps d ats tape)))).
Proof.
  intros expander N cm sp Hexp HtS Hpc comps. induction comps as [|B r IH]; intros d ats tape Hcl Hpw Hw Hats.
  - rewrite scc_components_nil. simpl. split; [exact Hw|]. intros m Hm. apply (Hats m Hm).
  - rewrite scc_components_cons. cbv zeta.
    set (Nsub := sub_net N sp B).
    pose proof (Hexp Nsub (init Nsub) tape (init_WI Nsub)) as Hwsub.
    set (e := expander Nsub (init Nsub) tape) in *.
    assert (Hstop : forall (rs : result) (t : tape_t), WI N (fst (fst (fst (d, rs, ats, t)))) /\
               forall m, In m (snd (fst (d, rs, ats, t))) -> m < size (fst (fst (fst (d, rs, ats, t))))).
    { intros rs t. simpl. split; [exact Hw|]. intros m Hm. apply (Hats m Hm). }
    destruct (snd (fst e)) as [|[|]| | | |]; try apply Hstop.
    destruct Hpw as [Hdis Hpw'].
    assert (Henv : attach_env N sp B r (fst (fst e))).
    { constructor; [exact HtS|exact Hpc|apply Hcl; left; reflexivity| |].
      - intros B' HB'. split; [apply Hcl; right; exact HB'|apply Hdis; exact HB'].
      - intros i Hi. apply (WI_get Nsub _ i Hwsub Hi). }
    destruct (attach_all_WI N cm sp B r (fst (fst e)) Henv ats d [] (snd e) Hw Hats) as [Hw1 Hm1];
      [intros a []|].
    destruct (snd (fst (fst (attach_all N cm B (fst (fst e)) d ats [] (snd e))))); simpl;
      try (split; [exact Hw1|intros m Hm; apply (Hm1 m Hm)]).
    apply IH; [intros B' HB'; apply Hcl; right; exact HB'|exact Hpw'|exact Hw1|exact Hm1].
Qed.

(* ---------- the level loop ---------- *)
Definition lvl_out_ok (N : net) (o : lvl_out) : Prop :=
  match o with
  | LStop d _ next _ => WI N d /\ forall y, In y next -> y < size d
  | LCont d next _ => WI N d /\ forall y, In y next -> y < size d
  end.

Lemma lvl_succ_WI : forall N cfg d x next tape, WI N d -> x < size d -> (forall y, In y next -> y < size d) ->
  lvl_out_ok N (lvl_succ N cfg d x next tape).
Proof.
  intros N cfg d x next tape Hw Hx Hnext. unfold lvl_succ. cbv zeta.
  destruct (WI_node_successors N cfg d x Hw Hx) as [Hw1 Hs1].
  pose proof (node_successors_extends N cfg d x) as He.
  assert (Hn1 : forall y, In y next -> y < size (fst (fst (node_successors N cfg d x)))).
  { intros y Hy. apply (extends_lt d _ y He). apply Hnext. exact Hy. }
  destruct (snd (fst (node_successors N cfg d x))); simpl; try (split; assumption).
  split; [exact Hw1|]. intros y Hy. apply union_nat_In in Hy. destruct Hy as [Hy|Hy]; [apply Hn1|apply Hs1]; exact Hy.
Qed.

Lemma lvl_one_WI : forall expander N cfg cm d x next tape, exp_ok expander -> WI N d -> x < size d ->
  (forall y, In y next -> y < size d) ->
  lvl_out_ok N (lvl_one expander N cfg cm d x next tape).
Proof.
  intros expander N cfg cm d x next tape Hexp Hw Hx Hnext. unfold lvl_one. cbv zeta.
  destruct (WI_get N d x Hw Hx) as [HtS Hperc].
  pose proof (trap_space_length N _ HtS) as HS.
  pose proof (proj1 (percolate_b_fixed_iff_closed N _ HS) Hperc) as Hpc.
  destruct (source_sccs_items N (n_space (get d x))) as [Hitems Hpw].
  destruct (source_sccs N (n_space (get d x))) as [|c1 [|c2 cr]] eqn:Ecomps.
  - destruct (WI_node_successors N cfg d x Hw Hx) as [Hw1 Hs1].
    pose proof (node_successors_extends N cfg d x) as He.
    assert (Hn1 : forall y, In y next -> y < size (fst (fst (node_successors N cfg d x)))).
    { intros y Hy. apply (extends_lt d _ y He). apply Hnext. exact Hy. }
    destruct (snd (fst (node_successors N cfg d x))); simpl; try (split; assumption).
    destruct (snd (node_successors N cfg d x)); simpl; split; assumption.
  - apply lvl_succ_WI; assumption.
  - set (comps := c1 :: c2 :: cr) in *.
    assert (Hcl : forall B, In B comps -> closed_in N (n_space (get d x)) B).
    { intros B HB. apply scc_item_closed. apply Hitems. exact HB. }
    destruct (scc_components_WI expander N cm (n_space (get d x)) Hexp HtS Hpc comps d [x] tape Hcl Hpw Hw)
      as [Hw1 Hats].
    { intros a [Ha|[]]. subst a. split; [exact Hx|]. split; [apply subspace_refl|].
      intros B v HB Hv. apply (BM_closed_free N _ B v (Hcl B HB) Hv). }
    pose proof (scc_components_extends expander N cm (n_space (get d x)) comps d [x] tape) as He.
    set (c := scc_components expander N cm (n_space (get d x)) comps d [x] tape) in *.
    assert (Hn1 : forall y, In y next -> y < size (fst (fst (fst c)))).
    { intros y Hy. apply (extends_lt d _ y He). apply Hnext. exact Hy. }
    assert (Hu : forall y, In y (union_nat next (snd (fst c))) -> y < size (fst (fst (fst c)))).
    { intros y Hy. apply union_nat_In in Hy. destruct Hy as [Hy|Hy]; [apply Hn1|apply Hats]; exact Hy. }
    destruct (snd (fst (fst c))) as [|[|]| | | |]; simpl; try (split; assumption).
    destruct (snd (fst c)) as [|y [|y2 yr]] eqn:Eats; simpl; try (split; assumption).
    destruct (Nat.eqb y x); [|simpl; split; assumption].
    apply lvl_succ_WI; [exact Hw1|apply (extends_lt d _ x He Hx)|exact Hn1].
Qed.

Lemma scc_level_WI : forall expander N cfg cm, exp_ok expander -> forall cur d next tape, WI N d ->
  (forall x, In x cur -> x < size d) -> (forall y, In y next -> y < size d) ->
  WI N (fst (fst (fst (scc_level expander N cfg cm d cur next tape)))) /\
  forall y, In y (snd (fst (scc_level expander N cfg cm d cur next tape))) ->
            y < size (fst (fst (fst (scc_level expander N cfg cm d cur next tape)))).
Proof.
  intros expander N cfg cm Hexp cur. induction cur as [|x cur IH]; intros d next tape Hw Hcur Hnext.
  - rewrite scc_level_nil. simpl. split; assumption.
  - rewrite scc_level_cons.
    pose proof (lvl_one_WI expander N cfg cm d x next tape Hexp Hw (Hcur x (or_introl eq_refl)) Hnext) as H1.
    pose proof (lvl_one_extends expander N cfg cm d x next tape) as He.
    destruct (lvl_one expander N cfg cm d x next tape) as [d1 r n1 t1|d1 n1 t1]; simpl in H1, He.
    + simpl. exact H1.
    + destruct H1 as [Hw1 Hn1]. apply IH; [exact Hw1| |exact Hn1].
      intros y Hy. apply (extends_lt d d1 y He). apply Hcur. right. exact Hy.
Qed.

Lemma scc_levels_WI : forall fuel expander N cfg cm, exp_ok expander -> forall d cur tape, WI N d ->
  (forall x, In x cur -> x < size d) ->
  WI N (fst (fst (scc_levels fuel expander N cfg cm d cur tape))).
Proof.
  intros fuel expander N cfg cm Hexp. induction fuel as [|f IH]; intros d cur tape Hw Hcur.
  - rewrite scc_levels_O. exact Hw.
  - rewrite scc_levels_S. destruct cur as [|c0 cr]; [exact Hw|]. cbv zeta.
    destruct (scc_level_WI expander N cfg cm Hexp (sort_nat (c0 :: cr)) d [] tape Hw) as [Hw1 Hn1].
    + intros x Hx. apply Hcur. apply sort_nat_In. exact Hx.
    + intros y [].
    + destruct (snd (fst (fst (scc_level expander N cfg cm d (sort_nat (c0 :: cr)) [] tape)))); simpl; try exact Hw1.
      apply IH; assumption.
Qed.

Lemma scc_main_WI : forall fuel cfg cm N d tape, WI N d -> WI N (fst (fst (scc_main fuel N cfg cm d tape))).
Proof.
  intros fuel cfg cm. induction fuel as [|f IH]; intros N d tape Hw.
  - rewrite scc_main_O. exact Hw.
  - rewrite scc_main_S. cbv zeta.
    assert (Hexp : exp_ok (fun N' d' t' => scc_main f N' cfg cm d' t')).
    { intros N' d' t' Hw'. apply IH. exact Hw'. }
    pose proof Hw as (Hpos & _ & _).
    destruct (sources_in_b N (n_space (get d 0))) as [|s0 sr] eqn:Es.
    + apply scc_levels_WI; [exact Hexp|exact Hw|]. intros x [Hx|[]]. subst x. exact Hpos.
    + destruct (Nat.ltb (max_motifs cfg) (Nat.pow 2 (length (s0 :: sr)))); [exact Hw|].
      destruct (WI_get N d 0 Hw Hpos) as [HtS _].
      assert (Htm : forall m, In m (ff_motifs N (n_space (get d 0))) -> trap_space N m).
      { intros m Hm. apply (ff_motif_trap N _ m HtS Hm). }
      assert (Hwa : WI N (ensure_all N d 0 (ff_motifs N (n_space (get d 0))))).
      { apply WI_ensure_all; assumption. }
      apply scc_levels_WI; [exact Hexp| |].
      * apply WI_set_empty_seeds. apply WI_clear_cands. apply WI_upd_flag; [constructor|].
        rewrite ensure_children_fst. exact Hwa.
      * intros x Hx. apply union_nat_In in Hx. destruct Hx as [[]|Hx].
        rewrite size_set_empty_seeds, size_clear_cands, size_upd_node, ensure_children_fst.
        apply (WI_ensure_children_valid N _ d 0 [] Hw Hpos Htm) with (c := x); [intros a []|exact Hx].
Qed.

Theorem expand_scc_TrapNodes : forall fuel N cfg d maa tape, 1 <= max_motifs cfg ->
  SWF N d -> TrapNodes N d -> TrapNodes N (fst (expand_scc fuel N cfg d maa tape)).
Proof.
  intros fuel N cfg d maa tape _ Hs Ht. rewrite expand_scc_fst.
  apply WI_TrapNodes. apply scc_main_WI. apply WI_of_SWF; assumption.
Qed.

Print Assumptions source_sccs_spec.
Print Assumptions source_sccs_disjoint.
Print Assumptions sub_net_nvars.
Print Assumptions sub_net_upd_in.
Print Assumptions sub_net_upd_out.
Print Assumptions sub_net_root_fixes.
Print Assumptions graft_length.
Print Assumptions graft_trap.
Print Assumptions expand_scc_grows.
Print Assumptions expand_scc_TrapNodes.
