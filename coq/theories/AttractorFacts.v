(* AttractorFacts.v -- correctness of the brute-force reachability closure
   (reach_list) and of the executable attractor enumeration (attractors_b).
   Stdlib only, no axioms. *)
From Coq Require Import List Bool Arith Lia Relations.
Import ListNotations.
From BB Require Import BN Brute.

(* ------------------------------------------------------------------ *)
(* Small local facts (prefixed A_ to avoid clashes with SpaceFacts.v)  *)
(* ------------------------------------------------------------------ *)

Lemma A_eqb_state_true : forall x y, eqb_state x y = true <-> x = y.
Proof.
  intros x. induction x as [|a x IH]; intros y; destruct y as [|b y]; simpl;
    split; intros H; try discriminate; auto.
  - apply andb_true_iff in H. destruct H as [H1 H2].
    apply eqb_prop in H1. apply IH in H2. subst. reflexivity.
  - inversion H; subst. apply andb_true_iff. split.
    + apply eqb_reflx.
    + apply IH. reflexivity.
Qed.

Lemma A_eqb_state_refl : forall x, eqb_state x x = true.
Proof. intros x. apply A_eqb_state_true. reflexivity. Qed.

Lemma A_eqb_state_false : forall x y, eqb_state x y = false <-> x <> y.
Proof.
  intros x y. split.
  - intros H E. apply A_eqb_state_true in E. rewrite E in H. discriminate.
  - intros H. destruct (eqb_state x y) eqn:E; auto.
    apply A_eqb_state_true in E. contradiction.
Qed.

Lemma A_state_eq_dec : forall x y : state, {x = y} + {x <> y}.
Proof. exact (list_eq_dec bool_dec). Qed.

Lemma A_mem_state_In : forall s l, mem_state s l = true <-> In s l.
Proof.
  intros s l. unfold mem_state. rewrite existsb_exists. split.
  - intros [x [Hin He]]. apply A_eqb_state_true in He. subst. exact Hin.
  - intros H. exists s. split; auto. apply A_eqb_state_refl.
Qed.

Lemma A_mem_state_false : forall s l, mem_state s l = false <-> ~ In s l.
Proof.
  intros s l. split.
  - intros H Hin. apply A_mem_state_In in Hin. rewrite Hin in H. discriminate.
  - intros H. destruct (mem_state s l) eqn:E; auto.
    apply A_mem_state_In in E. contradiction.
Qed.

Lemma A_set_nth_length : forall (A : Type) i (v : A) l, length (set_nth i v l) = length l.
Proof.
  intros A i v. induction i as [|i IH]; intros l; destruct l as [|h t]; simpl;
    try reflexivity.
  rewrite IH. reflexivity.
Qed.

Lemma A_all_states_In : forall n s, In s (all_states n) <-> length s = n.
Proof.
  induction n as [|n IH]; intros s.
  - simpl. split.
    + intros [H|[]]. subst. reflexivity.
    + destruct s; simpl; intros H; [left; reflexivity | discriminate].
  - simpl. rewrite in_app_iff, !in_map_iff. split.
    + intros [[x [Hx Hin]]|[x [Hx Hin]]]; subst; simpl; f_equal; apply IH; exact Hin.
    + intros H. destruct s as [|b s]; [discriminate|].
      simpl in H. injection H as H. apply IH in H.
      destruct b; [right|left]; exists s; auto.
Qed.

Lemma A_all_states_length : forall n, length (all_states n) = 2 ^ n.
Proof.
  induction n as [|n IH]; [reflexivity|].
  rewrite Nat.pow_succ_r'. cbn [all_states]. cbv zeta.
  rewrite app_length, !map_length. unfold state in *. rewrite IH. lia.
Qed.

Lemma A_wf_NoDup_length : forall N l,
  NoDup l -> (forall x, In x l -> wf_state N x) -> length l <= 2 ^ nvars N.
Proof.
  intros N l Hnd Hwf. rewrite <- A_all_states_length.
  apply NoDup_incl_length; auto.
  intros x Hx. apply A_all_states_In. apply Hwf. exact Hx.
Qed.

Lemma A_forallb_false : forall (A : Type) (f : A -> bool) l,
  forallb f l = false -> exists x, In x l /\ f x = false.
Proof.
  induction l as [|a l IH]; simpl; intros H; [discriminate|].
  destruct (f a) eqn:E.
  - simpl in H. destruct (IH H) as [x [Hx Hf]]. exists x; auto.
  - exists a; auto.
Qed.

Lemma A_forallb_ext_in : forall (A : Type) (f g : A -> bool) l,
  (forall x, In x l -> f x = g x) -> forallb f l = forallb g l.
Proof.
  induction l as [|a l IH]; simpl; intros H; auto.
  rewrite (H a), IH; auto.
Qed.

(* ------------------------------------------------------------------ *)
(* Basic dynamics                                                      *)
(* ------------------------------------------------------------------ *)

Lemma step_i_length : forall N i s, length (step_i N i s) = length s.
Proof. intros N i s. unfold step_i. apply A_set_nth_length. Qed.

Lemma trans_wf : forall N s t, wf_state N s -> trans N s t -> wf_state N t.
Proof.
  intros N s t Hwf [i [Hi [Ht Hne]]]. subst t.
  unfold wf_state in *. rewrite step_i_length. exact Hwf.
Qed.

Lemma reach_wf : forall N s t, wf_state N s -> reach N s t -> wf_state N t.
Proof.
  intros N s t Hwf Hr. unfold reach in Hr.
  induction Hr as [x y Ht | x | x y z H1 IH1 H2 IH2]; auto.
  eapply trans_wf; eauto.
Qed.

Lemma succs_spec : forall N s t, In t (succs N s) <-> trans N s t.
Proof.
  intros N s t. unfold succs, trans. rewrite filter_In, in_map_iff. split.
  - intros [[i [Hi Hin]] Hneq]. apply in_seq in Hin.
    exists i. split; [lia|]. split; [auto|].
    apply negb_true_iff in Hneq. apply A_eqb_state_false in Hneq. exact Hneq.
  - intros [i [Hi [Ht Hne]]]. split.
    + exists i. split; auto. apply in_seq. lia.
    + apply negb_true_iff. apply A_eqb_state_false. exact Hne.
Qed.

Lemma A_reach_step_r : forall N s x y, reach N s x -> trans N x y -> reach N s y.
Proof.
  intros N s x y Hr Ht. eapply rt_trans; [exact Hr | apply rt_step; exact Ht].
Qed.

Lemma A_reach_trans : forall N x y z, reach N x y -> reach N y z -> reach N x z.
Proof. intros N x y z H1 H2. eapply rt_trans; eauto. Qed.

Lemma A_reach_refl : forall N x, reach N x x.
Proof. intros N x. apply rt_refl. Qed.

(* ------------------------------------------------------------------ *)
(* add_new                                                             *)
(* ------------------------------------------------------------------ *)

Lemma A_add_new_rev : forall cands visited nw vis,
  add_new cands visited = (nw, vis) ->
  vis = rev nw ++ visited /\ incl nw cands /\ incl cands vis /\
  (NoDup visited -> NoDup vis).
Proof.
  induction cands as [|c r IH]; intros visited nw vis H; simpl in H.
  - inversion H; subst. simpl.
    split; [reflexivity|]. split; [apply incl_refl|]. split; [|auto].
    intros x [].
  - destruct (mem_state c visited) eqn:Hm.
    + apply IH in H. destruct H as [H1 [H2 [H3 H4]]].
      split; [exact H1|]. split; [apply incl_tl; exact H2|]. split; [|exact H4].
      intros x [Hx|Hx].
      * subst x. rewrite H1. apply in_or_app. right.
        apply A_mem_state_In. exact Hm.
      * apply H3. exact Hx.
    + destruct (add_new r (c :: visited)) as [nw' vis'] eqn:He.
      inversion H; subst nw vis. clear H.
      apply IH in He. destruct He as [H1 [H2 [H3 H4]]].
      split; [|split; [|split]].
      * rewrite H1. simpl. rewrite <- app_assoc. reflexivity.
      * intros x [Hx|Hx]; [left; exact Hx | right; apply H2; exact Hx].
      * intros x [Hx|Hx].
        -- subst x. rewrite H1. apply in_or_app. right. left. reflexivity.
        -- apply H3. exact Hx.
      * intros Hnd. apply H4. constructor; auto.
        apply A_mem_state_false. exact Hm.
Qed.

Lemma A_add_new_spec : forall cands visited nw vis,
  add_new cands visited = (nw, vis) ->
  (forall x, In x vis <-> In x nw \/ In x visited) /\
  length vis = length nw + length visited /\
  incl nw cands /\ incl cands vis /\ (NoDup visited -> NoDup vis).
Proof.
  intros cands visited nw vis H. apply A_add_new_rev in H.
  destruct H as [H1 [H2 [H3 H4]]].
  split; [|split; [|split; [|split]]]; auto.
  - intros x. rewrite H1, in_app_iff, <- in_rev. tauto.
  - rewrite H1, app_length, rev_length. reflexivity.
Qed.

(* ------------------------------------------------------------------ *)
(* reach_loop                                                          *)
(* ------------------------------------------------------------------ *)

Lemma A_reach_loop_NoDup : forall N fuel visited work,
  NoDup visited -> NoDup (reach_loop fuel N visited work).
Proof.
  intros N. induction fuel as [|fuel IH]; intros visited work Hnd; simpl; auto.
  destruct work as [|x w]; auto.
  destruct (add_new (succs N x) visited) as [nw vis] eqn:He.
  apply IH. apply A_add_new_spec in He. apply He. exact Hnd.
Qed.

Lemma A_reach_loop_sound : forall N s fuel visited work,
  (forall x, In x visited -> reach N s x) -> incl work visited ->
  forall t, In t (reach_loop fuel N visited work) -> reach N s t.
Proof.
  intros N s. induction fuel as [|fuel IH]; intros visited work Hv Hw t Ht;
    simpl in Ht; auto.
  destruct work as [|x w]; auto.
  destruct (add_new (succs N x) visited) as [nw vis] eqn:He.
  apply A_add_new_spec in He. destruct He as [HIn [Hlen [Hnc [Hcv Hnd]]]].
  eapply IH; [ | | exact Ht].
  - intros y Hy. apply HIn in Hy. destruct Hy as [Hy|Hy]; auto.
    apply Hnc in Hy. apply succs_spec in Hy.
    eapply A_reach_step_r; [|exact Hy]. apply Hv. apply Hw. left. reflexivity.
  - intros y Hy. apply in_app_or in Hy. apply HIn.
    destruct Hy as [Hy|Hy]; [left; exact Hy | right; apply Hw; right; exact Hy].
Qed.

(* loop invariant used for completeness *)
Definition A_inv (N : net) (s : state) (visited work : list state) : Prop :=
  NoDup visited /\ In s visited /\
  (forall x, In x visited -> wf_state N x) /\
  incl work visited /\
  (forall x, In x visited -> ~ In x work -> forall y, trans N x y -> In y visited).

Lemma A_inv_step : forall N s visited x w nw vis,
  A_inv N s visited (x :: w) -> add_new (succs N x) visited = (nw, vis) ->
  A_inv N s vis (nw ++ w).
Proof.
  intros N s visited x w nw vis [Hnd [Hs [Hwf [Hincl Hcl]]]] He.
  apply A_add_new_spec in He. destruct He as [HIn [Hlen [Hnc [Hcv Hnd']]]].
  assert (Hx : In x visited) by (apply Hincl; left; reflexivity).
  unfold A_inv. split; [|split; [|split; [|split]]].
  - apply Hnd'. exact Hnd.
  - apply HIn. right. exact Hs.
  - intros y Hy. apply HIn in Hy. destruct Hy as [Hy|Hy]; [|auto].
    apply Hnc in Hy. apply succs_spec in Hy.
    eapply trans_wf; [apply Hwf; exact Hx | exact Hy].
  - intros y Hy. apply in_app_or in Hy. apply HIn.
    destruct Hy as [Hy|Hy]; [left; exact Hy | right; apply Hincl; right; exact Hy].
  - intros y Hy Hnw z Hz. apply HIn in Hy. destruct Hy as [Hy|Hy].
    + exfalso. apply Hnw. apply in_or_app. left. exact Hy.
    + destruct (A_state_eq_dec y x) as [E|E].
      * subst y. apply Hcv. apply succs_spec. exact Hz.
      * apply HIn. right. apply (Hcl y Hy); auto.
        intros [H|H]; [apply E; auto | apply Hnw; apply in_or_app; right; exact H].
Qed.

Lemma A_reach_loop_inv : forall N s fuel visited work,
  A_inv N s visited work ->
  (2 ^ nvars N - length visited) + length work <= fuel ->
  A_inv N s (reach_loop fuel N visited work) [].
Proof.
  intros N s. induction fuel as [|fuel IH]; intros visited work Hinv Hf; simpl.
  - destruct work as [|x w]; [exact Hinv | simpl in Hf; lia].
  - destruct work as [|x w]; [exact Hinv|].
    destruct (add_new (succs N x) visited) as [nw vis] eqn:He.
    pose proof (A_inv_step _ _ _ _ _ _ _ Hinv He) as Hinv'.
    apply IH; [exact Hinv'|].
    destruct Hinv' as [Hnd' [_ [Hwf' _]]].
    pose proof (A_wf_NoDup_length N vis Hnd' Hwf') as Hle.
    apply A_add_new_spec in He. destruct He as [_ [Hlen _]].
    rewrite app_length. simpl in Hf. lia.
Qed.

Lemma A_inv_complete : forall N s vis,
  A_inv N s vis [] -> forall t, reach N s t -> In t vis.
Proof.
  intros N s vis [Hnd [Hs [Hwf [Hincl Hcl]]]] t Hr.
  revert Hs. unfold reach in Hr.
  induction Hr as [x y Ht | x | x y z H1 IH1 H2 IH2]; auto.
  intros Hx. apply (Hcl x Hx); auto.
Qed.

(* soundness and completeness of the worklist closure *)
Theorem reach_list_sound : forall N s t, In t (reach_list N s) -> reach N s t.
Proof.
  intros N s t H. unfold reach_list in H.
  eapply A_reach_loop_sound; [ | | exact H].
  - intros x [Hx|[]]. subst. apply A_reach_refl.
  - apply incl_refl.
Qed.

Theorem reach_list_complete : forall N s t,
  wf_state N s -> reach N s t -> In t (reach_list N s).
Proof.
  intros N s t Hwf Hr. unfold reach_list.
  eapply A_inv_complete; [|exact Hr].
  apply A_reach_loop_inv.
  - unfold A_inv. split; [|split; [|split; [|split]]].
    + constructor; [intros [] | constructor].
    + left. reflexivity.
    + intros x [Hx|[]]. subst. exact Hwf.
    + apply incl_refl.
    + intros x Hx Hnx. contradiction.
  - simpl. pose proof (Nat.pow_nonzero 2 (nvars N)). lia.
Qed.

Theorem reach_list_NoDup : forall N s, NoDup (reach_list N s).
Proof.
  intros N s. unfold reach_list. apply A_reach_loop_NoDup.
  constructor; [intros [] | constructor].
Qed.

Lemma A_reach_list_spec : forall N s t,
  wf_state N s -> (In t (reach_list N s) <-> reach N s t).
Proof.
  intros N s t Hwf. split.
  - apply reach_list_sound.
  - apply reach_list_complete. exact Hwf.
Qed.

Lemma A_reach_list_self : forall N s, wf_state N s -> In s (reach_list N s).
Proof. intros N s Hwf. apply reach_list_complete; auto. apply A_reach_refl. Qed.

(* decidable reachability as a corollary *)
Definition reach_b (N : net) (s t : state) : bool := mem_state t (reach_list N s).

Lemma reach_b_spec : forall N s t,
  wf_state N s -> (reach_b N s t = true <-> reach N s t).
Proof.
  intros N s t Hwf. unfold reach_b. rewrite A_mem_state_In.
  apply A_reach_list_spec. exact Hwf.
Qed.

(* ------------------------------------------------------------------ *)
(* Attractors                                                          *)
(* ------------------------------------------------------------------ *)

Lemma A_closed_reach : forall N (P : state -> Prop) s t,
  closed N P -> P s -> reach N s t -> P t.
Proof.
  intros N P s t Hcl Hs Hr. revert Hs. unfold reach in Hr.
  induction Hr as [x y Ht | x | x y z H1 IH1 H2 IH2]; auto.
  intros Hx. eapply Hcl; eauto.
Qed.

Lemma A_attractor_ext : forall N (A B : state -> Prop),
  (forall t, A t <-> B t) -> attractor N A -> attractor N B.
Proof.
  intros N A B Hab [[s Hs] [Hwf [Hcl Hmut]]].
  split; [|split; [|split]].
  - exists s. apply Hab. exact Hs.
  - intros x Hx. apply Hwf. apply Hab. exact Hx.
  - intros x y Hx Hxy. apply Hab. apply (Hcl x y); auto. apply Hab. exact Hx.
  - intros x y Hx Hy. apply Hmut; apply Hab; assumption.
Qed.

Lemma in_attractor_closed_class : forall N s, in_attractor N s ->
  attractor N (fun t => reach N s t).
Proof.
  intros N s [Hwf Hback]. split; [|split; [|split]].
  - exists s. apply A_reach_refl.
  - intros t Ht. eapply reach_wf; eauto.
  - intros x y Hx Hxy. eapply A_reach_step_r; eauto.
  - intros x y Hx Hy. eapply A_reach_trans; [apply Hback; exact Hx | exact Hy].
Qed.

Lemma attractor_is_class : forall N A s, attractor N A -> A s ->
  forall t, A t <-> reach N s t.
Proof.
  intros N A s [_ [Hwf [Hcl Hmut]]] Hs t. split.
  - intros Ht. apply Hmut; assumption.
  - intros Hr. eapply A_closed_reach; eauto.
Qed.

Lemma attractor_member_in_attractor : forall N A s,
  attractor N A -> A s -> in_attractor N s.
Proof.
  intros N A s Hatt Hs. pose proof Hatt as [_ [Hwf [Hcl Hmut]]].
  split; [apply Hwf; exact Hs|].
  intros t Hr. apply Hmut; [|exact Hs].
  eapply A_closed_reach; eauto.
Qed.

Lemma attractors_disjoint_or_equal : forall N A B s,
  attractor N A -> attractor N B -> A s -> B s -> forall t, A t <-> B t.
Proof.
  intros N A B s HA HB HAs HBs t.
  rewrite (attractor_is_class N A s HA HAs t).
  rewrite (attractor_is_class N B s HB HBs t). tauto.
Qed.

(* boolean test for membership in an attractor *)
Definition A_in_attr_b (N : net) (s : state) : bool :=
  forallb (fun t => reach_b N t s) (reach_list N s).

Lemma A_in_attr_b_spec : forall N s, wf_state N s ->
  (A_in_attr_b N s = true <-> in_attractor N s).
Proof.
  intros N s Hwf. unfold A_in_attr_b. rewrite forallb_forall. split.
  - intros H. split; [exact Hwf|]. intros t Hr.
    apply reach_b_spec; [eapply reach_wf; eauto|].
    apply H. apply reach_list_complete; auto.
  - intros [_ H] t Ht. apply reach_list_sound in Ht.
    apply reach_b_spec; [eapply reach_wf; eauto|]. apply H. exact Ht.
Qed.

(* every well-formed state reaches an attractor *)
Theorem reaches_attractor : forall N s, wf_state N s ->
  exists t, reach N s t /\ in_attractor N t.
Proof.
  intros N s. remember (length (reach_list N s)) as k eqn:Hk.
  revert s Hk. induction k as [k IH] using lt_wf_ind.
  intros s Hk Hwf. destruct (A_in_attr_b N s) eqn:Hb.
  - exists s. split; [apply A_reach_refl|]. apply A_in_attr_b_spec; auto.
  - unfold A_in_attr_b in Hb. apply A_forallb_false in Hb.
    destruct Hb as [t [Hin Hf]].
    assert (Hst : reach N s t) by (apply reach_list_sound; exact Hin).
    assert (Hwft : wf_state N t) by (eapply reach_wf; eauto).
    assert (Hnts : ~ reach N t s).
    { intros Hr. apply (reach_b_spec N t s Hwft) in Hr.
      rewrite Hr in Hf. discriminate. }
    assert (Hlt : length (reach_list N t) < k).
    { subst k. unfold lt.
      change (S (length (reach_list N t))) with (length (s :: reach_list N t)).
      apply NoDup_incl_length.
      - constructor; [|apply reach_list_NoDup].
        intros Hc. apply reach_list_sound in Hc. contradiction.
      - intros x [Hx|Hx].
        + subst x. apply A_reach_list_self. exact Hwf.
        + apply reach_list_complete; auto.
          eapply A_reach_trans; [exact Hst|]. apply reach_list_sound. exact Hx. }
    destruct (IH _ Hlt t eq_refl Hwft) as [u [Hu1 Hu2]].
    exists u. split; [eapply A_reach_trans; eauto | exact Hu2].
Qed.

Corollary closed_contains_attractor : forall N (P : state -> Prop) s,
  closed N P -> P s -> wf_state N s -> exists t, P t /\ in_attractor N t.
Proof.
  intros N P s Hcl Hs Hwf.
  destruct (reaches_attractor N s Hwf) as [t [Hr Ha]].
  exists t. split; [|exact Ha]. eapply A_closed_reach; eauto.
Qed.

(* ------------------------------------------------------------------ *)
(* The executable attractor list                                       *)
(* ------------------------------------------------------------------ *)

Lemma A_assoc_table : forall (B : Type) (f : state -> B) l s d,
  In s l -> assoc_state s (map (fun k => (k, f k)) l) d = f s.
Proof.
  intros B f. induction l as [|a l IH]; intros s d Hin; simpl in *.
  - contradiction.
  - destruct (eqb_state s a) eqn:He.
    + apply A_eqb_state_true in He. subst. reflexivity.
    + destruct Hin as [Hin|Hin].
      * subst. rewrite A_eqb_state_refl in He. discriminate.
      * apply IH. exact Hin.
Qed.

Lemma A_assoc_reach_table : forall N s, wf_state N s ->
  assoc_state s (reach_table N) [] = reach_list N s.
Proof.
  intros N s Hwf. unfold reach_table.
  apply (A_assoc_table _ (fun k => reach_list N k)).
  apply A_all_states_In. exact Hwf.
Qed.

Lemma A_in_attr_tb_eq : forall N s, wf_state N s ->
  in_attr_tb (reach_table N) s = A_in_attr_b N s.
Proof.
  intros N s Hwf. unfold in_attr_tb, A_in_attr_b.
  rewrite (A_assoc_reach_table N s Hwf).
  apply A_forallb_ext_in. intros t Ht.
  rewrite A_assoc_reach_table; [reflexivity|].
  eapply reach_wf; [exact Hwf|]. apply reach_list_sound. exact Ht.
Qed.

Lemma A_in_attr_tb_spec : forall N s, wf_state N s ->
  (in_attr_tb (reach_table N) s = true <-> in_attractor N s).
Proof.
  intros N s Hwf. rewrite A_in_attr_tb_eq; auto. apply A_in_attr_b_spec. exact Hwf.
Qed.

(* generic facts about collect_attrs *)
Lemma A_collect_sound : forall tbl todo acc A,
  In A (collect_attrs tbl todo acc) ->
  In A acc \/ exists r, In r todo /\ in_attr_tb tbl r = true /\ A = assoc_state r tbl [].
Proof.
  intros tbl. induction todo as [|s r IH]; intros acc A H; simpl in H.
  - left. apply in_rev. exact H.
  - destruct (existsb (mem_state s) acc).
    + apply IH in H. destruct H as [H|[q [Hq1 Hq2]]]; [left; exact H|].
      right. exists q. split; [right; exact Hq1 | exact Hq2].
    + destruct (in_attr_tb tbl s) eqn:Hat.
      * apply IH in H. destruct H as [[H|H]|[q [Hq1 Hq2]]].
        -- right. exists s. split; [left; reflexivity|]. split; auto.
        -- left. exact H.
        -- right. exists q. split; [right; exact Hq1 | exact Hq2].
      * apply IH in H. destruct H as [H|[q [Hq1 Hq2]]]; [left; exact H|].
        right. exists q. split; [right; exact Hq1 | exact Hq2].
Qed.

Lemma A_collect_mono : forall tbl todo acc A,
  In A acc -> In A (collect_attrs tbl todo acc).
Proof.
  intros tbl. induction todo as [|s r IH]; intros acc A H; simpl.
  - apply in_rev in H. exact H.
  - destruct (existsb (mem_state s) acc); [apply IH; exact H|].
    destruct (in_attr_tb tbl s); apply IH; [right|]; exact H.
Qed.

Lemma A_collect_covers : forall tbl todo acc s,
  In s todo -> in_attr_tb tbl s = true -> In s (assoc_state s tbl []) ->
  exists A, In A (collect_attrs tbl todo acc) /\ In s A.
Proof.
  intros tbl. induction todo as [|a r IH]; intros acc s Hin Hat Hself; simpl.
  - contradiction.
  - destruct Hin as [Hin|Hin].
    + subst a. destruct (existsb (mem_state s) acc) eqn:Hex.
      * apply existsb_exists in Hex. destruct Hex as [A [HA Hm]].
        exists A. split; [apply A_collect_mono; exact HA|].
        apply A_mem_state_In. exact Hm.
      * rewrite Hat. exists (assoc_state s tbl []).
        split; [apply A_collect_mono; left; reflexivity | exact Hself].
    + destruct (existsb (mem_state a) acc); [apply IH; auto|].
      destruct (in_attr_tb tbl a); apply IH; auto.
Qed.

(* pairwise: two members of the list sharing a state are the same list *)
Definition A_disj (acc : list (list state)) : Prop :=
  forall A B s, In A acc -> In B acc -> In s A -> In s B -> A = B.

Lemma A_collect_disj : forall N todo acc,
  (forall r, In r todo -> wf_state N r) ->
  (forall A, In A acc -> exists r, wf_state N r /\ A = reach_list N r) ->
  A_disj acc ->
  A_disj (collect_attrs (reach_table N) todo acc).
Proof.
  intros N. induction todo as [|a r IH]; intros acc Hwf Hacc Hd; simpl.
  - intros A B s HA HB. apply in_rev in HA. apply in_rev in HB.
    apply Hd; assumption.
  - assert (Hwf' : forall q, In q r -> wf_state N q) by (intros q Hq; apply Hwf; right; exact Hq).
    assert (Hwfa : wf_state N a) by (apply Hwf; left; reflexivity).
    destruct (existsb (mem_state a) acc) eqn:Hex; [apply IH; auto|].
    destruct (in_attr_tb (reach_table N) a) eqn:Hat; [|apply IH; auto].
    rewrite (A_assoc_reach_table N a Hwfa).
    apply (A_in_attr_tb_spec N a Hwfa) in Hat. destruct Hat as [_ Hback].
    assert (Hfresh : forall A s, In A acc -> In s A -> In s (reach_list N a) -> False).
    { intros A s HA HsA Hsa.
      destruct (Hacc A HA) as [q [Hq HAq]]. subst A.
      apply reach_list_sound in Hsa. apply reach_list_sound in HsA.
      assert (Hqa : reach N q a).
      { eapply A_reach_trans; [exact HsA|]. apply Hback. exact Hsa. }
      apply (reach_list_complete N q a Hq) in Hqa.
      assert (Hc : existsb (mem_state a) acc = true).
      { apply existsb_exists. exists (reach_list N q). split; [exact HA|].
        apply A_mem_state_In. exact Hqa. }
      rewrite Hc in Hex. discriminate. }
    apply IH; auto.
    + intros A [HA|HA].
      * exists a. split; auto.
      * apply Hacc. exact HA.
    + intros A B s [HA|HA] [HB|HB] HsA HsB.
      * subst. reflexivity.
      * subst A. exfalso. eapply Hfresh; eauto.
      * subst B. exfalso. eapply Hfresh; eauto.
      * eapply Hd; eauto.
Qed.

Theorem attractors_b_sound : forall N A, In A (attractors_b N) ->
  A <> [] /\ attractor N (fun s => In s A).
Proof.
  intros N A H. unfold attractors_b in H. apply A_collect_sound in H.
  destruct H as [[]|[r [Hr [Hat HA]]]].
  apply A_all_states_In in Hr. change (wf_state N r) in Hr.
  rewrite (A_assoc_reach_table N r Hr) in HA. subst A.
  apply (A_in_attr_tb_spec N r Hr) in Hat. split.
  - intros He. pose proof (A_reach_list_self N r Hr) as Hs.
    rewrite He in Hs. contradiction.
  - apply (A_attractor_ext N (fun t => reach N r t)).
    + intros t. symmetry. apply A_reach_list_spec. exact Hr.
    + apply in_attractor_closed_class. exact Hat.
Qed.

Theorem attractors_b_complete : forall N s, in_attractor N s ->
  exists A, In A (attractors_b N) /\ In s A.
Proof.
  intros N s Hat. pose proof Hat as [Hwf _]. unfold attractors_b.
  apply A_collect_covers.
  - apply A_all_states_In. exact Hwf.
  - apply A_in_attr_tb_spec; auto.
  - rewrite A_assoc_reach_table; auto. apply A_reach_list_self. exact Hwf.
Qed.

Theorem attractors_b_disjoint : forall N A B s,
  In A (attractors_b N) -> In B (attractors_b N) -> In s A -> In s B -> A = B.
Proof.
  intros N A B s HA HB HsA HsB.
  assert (Hd : A_disj (attractors_b N)).
  { unfold attractors_b. apply A_collect_disj.
    - intros r Hr. apply A_all_states_In in Hr. exact Hr.
    - intros X [].
    - intros X Y x []. }
  eapply Hd; eauto.
Qed.

Print Assumptions reaches_attractor.
Print Assumptions attractors_b_sound.
Print Assumptions attractors_b_complete.
