(* SCCFacts.v -- the source-SCC strategy (model SCC.v, replayed id by id against expand_scc on every run).
   D15_refuted: the formal record of known finding D15 -- on a 6-variable network the diagram produced by the
   strategy (check_maa = true, the tape recorded from the library) contains two different expanded nodes that
   both own the same attractor, so exact per-node seeds report it twice: the "exactly one seed per attractor"
   clause of C01 fails for this strategy on the faithful model.  (For diagrams whose expanded nodes are canonical
   or in fast-forward form PartialOwner.owner_unique_partial excludes this; the SCC strategy attaches
   sub-diagrams along one source SCC at a time and leaves expanded nodes that are neither.) *)
From Coq Require Import List Bool Arith NArith Lia.
Import ListNotations.
From BB Require Import BN Brute SpaceFacts AttractorFacts FilterFacts Diagram Invariants OwnerFacts PartialOwner Blocks SCC.

(* x0 := x0 xnor x1, x1 := x0 xor x1, x2 := x2 xnor x3, x3 := (x2 xor x3) & x1, x4 := !x4 | !x0, x5 := x5 | !x4 *)
Definition d15_net : net :=
  [ (fun s => Bool.eqb (nth 0 s false) (nth 1 s false));
    (fun s => xorb (nth 0 s false) (nth 1 s false));
    (fun s => Bool.eqb (nth 2 s false) (nth 3 s false));
    (fun s => xorb (nth 2 s false) (nth 3 s false) && nth 1 s false);
    (fun s => negb (nth 4 s false) || negb (nth 0 s false));
    (fun s => nth 5 s false || negb (nth 4 s false)) ].
Definition d15_cfg : config := {| max_motifs := 1000 |}.
(* the answers of scc_sd.node_attractor_candidates recorded from the library: 0 0 0 0 1 *)
Definition d15_tape : tape_t := [Some false; Some false; Some false; Some false; Some true].
Definition d15_run : sd * result := expand_scc 100 d15_net d15_cfg (init d15_net) true d15_tape.
Definition d15_diagram : sd := fst d15_run.

Definition owns_b (N : net) (d : sd) (i : nat) (L : list state) : bool :=
  Nat.ltb i (size d) && n_exp (get d i) &&
  existsb (fun A => forallb (fun s => existsb (eqb_state s) L) A && forallb (fun s => existsb (eqb_state s) A) L)
          (node_attractors_b N (n_space (get d i)) (out_motifs d i)).

Lemma d15_facts :
  snd d15_run = RBool true /\ size d15_diagram = 7 /\
  map n_space (sd_nodes d15_diagram) =
    [ [None; None; None; None; None; None];
      [Some false; Some true; None; None; Some true; None];
      [None; None; None; None; None; Some true];
      [Some false; Some true; Some false; Some true; Some true; None];
      [Some false; Some true; Some false; Some true; Some true; Some false];
      [Some false; Some true; Some false; Some true; Some true; Some true];
      [Some false; Some true; None; None; Some true; Some true] ] /\
  existsb (fun L => owns_b d15_net d15_diagram 1 L && owns_b d15_net d15_diagram 6 L) (attractors_b d15_net) = true.
Proof. vm_compute. repeat split; reflexivity. Qed.

Lemma eqb_state_refl : forall s, eqb_state s s = true.
Proof. induction s as [|b s IH]; [reflexivity|]. simpl. destruct b; simpl; exact IH. Qed.

Lemma owns_b_sound : forall N d i L, owns_b N d i L = true ->
  exists A, owns_exp N d i (fun s => In s A) /\ (forall s, In s A <-> In s L).
Proof.
  intros N d i L H. unfold owns_b in H. apply andb_true_iff in H. destruct H as [H Hex].
  apply andb_true_iff in H. destruct H as [Hlt Hexp]. apply Nat.ltb_lt in Hlt.
  apply existsb_exists in Hex. destruct Hex as (A & HA & Heq). apply andb_true_iff in Heq. destruct Heq as [H1 H2].
  exists A. split.
  - split; [|exact Hexp]. split; [exact Hlt|]. apply node_attractors_b_sound. exact HA.
  - intro s. rewrite forallb_forall in H1, H2. split; intro Hs.
    + specialize (H1 s Hs). apply existsb_exists in H1. destruct H1 as (t & Ht & E).
      apply eqb_state_spec in E. subst t. exact Ht.
    + specialize (H2 s Hs). apply existsb_exists in H2. destruct H2 as (t & Ht & E).
      apply eqb_state_spec in E. subst t. exact Ht.
Qed.

(* two different expanded nodes own the same attractor *)
Theorem D15_refuted : exists (A : state -> Prop) i j, i <> j /\ attractor d15_net A /\
  owns_exp d15_net d15_diagram i A /\ owns_exp d15_net d15_diagram j A.
Proof.
  destruct d15_facts as (_ & _ & _ & Hex). apply existsb_exists in Hex. destruct Hex as (L & HL & Hb).
  apply andb_true_iff in Hb. destruct Hb as [H1 H6].
  destruct (owns_b_sound _ _ _ _ H1) as (A1 & Ho1 & E1). destruct (owns_b_sound _ _ _ _ H6) as (A6 & Ho6 & E6).
  exists (fun s => In s A1), 1, 6. split; [discriminate|]. split.
  - destruct Ho1 as [[_ [Hatt _]] _]. exact Hatt.
  - split; [exact Ho1|].
    destruct Ho6 as [[Hlt Hna] Hexp]. split; [|exact Hexp]. split; [exact Hlt|].
    apply (node_attr_ext d15_net _ _ (fun s => In s A6) (fun s => In s A1)); [|exact Hna].
    intro t. rewrite E6, E1. tauto.
Qed.

Print Assumptions D15_refuted.
