(* PySrcCollectFacts.v -- translator tie for the collecting halves of trappist / compute_fixed_point_reduced_STG (C09: "a solution limit only
   truncates the list"): the functions generated from the current text (PySrcCollect.v) return the first `limit` answers of the enumeration, in the
   enumeration's order, and all of them without a limit -- also for limit 0 (the guard) and for limits beyond the number of answers. *)
From Coq Require Import List Bool Arith Lia.
Import ListNotations.
From BB Require Import PySrcCollect.

Lemma py_enumerate_limit : forall (A : Type) l (answers acc : list A), length acc < l ->
  py_enumerate (fun results => Nat.ltb (length results) l) answers acc = acc ++ firstn (l - length acc) answers.
Proof.
  intros A l answers. induction answers as [|x r IH]; intros acc Hlt; cbn [py_enumerate].
  - rewrite firstn_nil, app_nil_r. reflexivity.
  - destruct (Nat.ltb (length (acc ++ [x])) l) eqn:E.
    + apply Nat.ltb_lt in E. rewrite IH by exact E. rewrite app_length in *. cbn [length] in *.
      replace (l - length acc) with (S (l - (length acc + 1))) by lia. cbn [firstn]. rewrite <- app_assoc. reflexivity.
    + apply Nat.ltb_ge in E. rewrite app_length in E. cbn [length] in E.
      replace (l - length acc) with 1 by lia. cbn [firstn]. destruct r; reflexivity.
Qed.

Lemma py_enumerate_all : forall (A : Type) (answers acc : list A),
  py_enumerate (fun _ => true) answers acc = acc ++ answers.
Proof.
  intros A answers. induction answers as [|x r IH]; intro acc; cbn [py_enumerate].
  - rewrite app_nil_r. reflexivity.
  - rewrite IH, <- app_assoc. reflexivity.
Qed.

Definition truncated {A : Type} (limit : option nat) (answers : list A) : list A :=
  match limit with Some l => firstn l answers | None => answers end.

Theorem py_trappist_collect_spec : forall (A : Type) limit (answers : list A),
  py_trappist_collect limit answers = truncated limit answers.
Proof.
  intros A [l|] answers; unfold py_trappist_collect, truncated.
  - destruct (Nat.leb l 0) eqn:E.
    + apply Nat.leb_le in E. replace l with 0 by lia. reflexivity.
    + apply Nat.leb_gt in E. rewrite py_enumerate_limit by (cbn; exact E). cbn [length app]. rewrite Nat.sub_0_r. reflexivity.
  - apply py_enumerate_all.
Qed.

Theorem py_reduced_stg_collect_spec : forall (A : Type) limit (answers : list A),
  py_reduced_stg_collect limit answers = truncated limit answers.
Proof.
  intros A [l|] answers; unfold py_reduced_stg_collect, truncated.
  - destruct (Nat.leb l 0) eqn:E.
    + apply Nat.leb_le in E. replace l with 0 by lia. reflexivity.
    + apply Nat.leb_gt in E. rewrite py_enumerate_limit by (cbn; exact E). cbn [length app]. rewrite Nat.sub_0_r. reflexivity.
  - apply py_enumerate_all.
Qed.

(* consequences: a prefix, of the expected length, without inventing or reordering answers *)
Theorem py_trappist_collect_length : forall (A : Type) limit (answers : list A),
  length (py_trappist_collect limit answers) = match limit with Some l => Nat.min l (length answers) | None => length answers end.
Proof. intros A [l|] answers; rewrite py_trappist_collect_spec; cbn [truncated]; [apply firstn_length|reflexivity]. Qed.

Print Assumptions py_trappist_collect_spec.
Print Assumptions py_reduced_stg_collect_spec.
Print Assumptions py_trappist_collect_length.
