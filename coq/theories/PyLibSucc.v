(* PyLibSucc.v -- hand-written semantic prelude for the translation (tools/py2coq_succ.py) of biobalm/control.successions_to_target.
   Definitions only; part of the trusted base of the translator tie.

   Embedding (beyond PyLibSd.v / PyLibSd2.v / PyLibCore.v)
     succession_diagram.node_ids()                      seq 0 (size d)                       (the method is pinned by PySrcGetters.v)
     set(nx.descendants(dag, s))                        nx_descendants d s: everything reachable from s by at least one edge, as a list that is
                                                        read as a set (Control.descendants with fuel = number of nodes, without s itself;
                                                        engine contract of networkx on the acyclic diagram)
     descendant_map : dict[int, set[int]]               association list; m[k] raises KeyError without the key (dm_get = None); m[k] = v is dm_set
     A & B as a truth value (sets)                      sets_meet A B: some member of A is in B
     dag.predecessors(s)                                Control.predecessors d s (sources of the edges into s, in insertion order)
     any(f(p) for p in l)                               any_opt: stops at the first true element; an exception in an element that is reached propagates
     nx.all_simple_paths(dag, source=root, target=s)    nx_simple_paths d 0 s: node lists in DFS order over the adjacency (= edge insertion) order;
                                                        networkx 3.x yields the one-node path [s] when source = target
     [sd.edge_all_stable_motifs(x, y, reduced=True) for x, y in zip(path[:-1], path[1:])]
                                                        path_motifs d path: per consecutive pair the reduced motif list of the edge (KeyError = None)
     itertools.product of lists                        Control.product (leftmost list varies slowest)
     functools.reduce(lambda x, y: x | y, l)            reduce_union: fold of the dict union from the left; TypeError on an empty list (None)
     not X  for X : dict | None                         None and the empty dict are false
     del l[i]                                           del_nth i l (IndexError out of range is checked by the generated code)
     reversed(range(len(l)))                            rev (seq 0 (length l)), computed once before the loop *)
From Coq Require Import List Bool Arith.
Import ListNotations.
From BB Require Import BN Diagram PyLib PyLibSd PyLibCore Blocks Control.

Definition nx_descendants (d : sd) (s : nat) : list nat :=
  flat_map (descendants (size d) d) (successors d s).

Fixpoint dm_get (m : list (nat * list nat)) (k : nat) : option (list nat) :=
  match m with
  | [] => None
  | (k', v) :: r => if Nat.eqb k' k then Some v else dm_get r k
  end.
Fixpoint dm_set (m : list (nat * list nat)) (k : nat) (v : list nat) : list (nat * list nat) :=
  match m with
  | [] => [(k, v)]
  | (k', v') :: r => if Nat.eqb k' k then (k, v) :: r else (k', v') :: dm_set r k v
  end.

Definition sets_meet (a b : list nat) : bool := existsb (fun x => mem_nat x b) a.

Fixpoint any_opt {A : Type} (f : A -> option bool) (l : list A) : option bool :=
  match l with
  | [] => Some false
  | x :: r => match f x with
              | None => None
              | Some true => Some true
              | Some false => any_opt f r
              end
  end.

(* all simple paths x -> t as node lists, DFS over the edges in insertion order; the diagram is acyclic, fuel = number of nodes *)
Fixpoint node_paths (fuel : nat) (d : sd) (x t : nat) : list (list nat) :=
  if Nat.eqb x t then [[x]] else
  match fuel with
  | O => []
  | S f => flat_map (fun e => if Nat.eqb (e_src e) x then map (cons x) (node_paths f d (e_dst e) t) else []) (sd_edges d)
  end.
Definition nx_simple_paths (d : sd) (x t : nat) : list (list nat) := node_paths (size d) d x t.

Definition edge_motifs_reduced (d : sd) (x y : nat) : option (list space) :=
  match find (fun e => Nat.eqb (e_src e) x && Nat.eqb (e_dst e) y) (sd_edges d) with
  | Some e => Some (map (fun m => reduce_motif m (n_space (get d x))) (e_motifs e))
  | None => None
  end.
Fixpoint path_motifs (d : sd) (path : list nat) : option (list (list space)) :=
  match path with
  | x :: ((y :: _) as r) =>
      match edge_motifs_reduced d x y, path_motifs d r with
      | Some ms, Some rest => Some (ms :: rest)
      | _, _ => None
      end
  | _ => Some []
  end.

Definition reduce_union (l : list space) : option space :=
  match l with
  | [] => None
  | m :: r => Some (fold_left space_union r m)
  end.

Fixpoint del_nth {A : Type} (i : nat) (l : list A) : list A :=
  match l, i with
  | [], _ => []
  | _ :: r, O => r
  | x :: r, S j => x :: del_nth j r
  end.
