(* PartialOwner.v -- Generalises OwnerFacts.v (fully expanded diagrams) to partially expanded diagrams
   with stubs, as left by block expansion and attractor-seed expansion: owners are EXPANDED nodes.  *)
From Coq Require Import List Bool Arith NArith Lia Permutation.
Import ListNotations.
From BB Require Import BN Brute SpaceFacts TrapFacts PercolateFacts AttractorFacts Filter FilterFacts Diagram Invariants
  DiagramStruct DiagramSem1 DiagramComplete DiagramDepth MinExpandFacts Blocks BlocksFacts OwnerFacts.

(* an expanded node in "fast-forward form": its motifs are the valuations of the sources of its space *)
Definition ff_form (N : net) (d : sd) (i : nat) : Prop :=
  sources_in_b N (n_space (get d i)) <> [] /\
  Permutation (out_motifs d i) (ff_motifs N (n_space (get d i))).
Definition CanonOrFF (N : net) (d : sd) : Prop :=
  forall i, i < size d -> n_exp (get d i) = true -> n_skip (get d i) = false ->
    canonical N d i \/ ff_form N d i.

Definition owns_exp (N : net) (d : sd) (i : nat) (A : state -> Prop) : Prop :=
  owns N d i A /\ n_exp (get d i) = true.
Definition AttrServed (N : net) (d : sd) : Prop :=
  forall A, attractor N A -> exists i, owns_exp N d i A.

(* "work list" invariants: every attractor / minimal trap space inside an expanded node is either settled at
   that node or lies inside a successor that is expanded or still pending *)
Definition attr_good (N : net) (d : sd) (pending : list nat) : Prop :=
  forall x A, x < size d -> n_exp (get d x) = true -> attractor N A -> inside A (n_space (get d x)) ->
    owns N d x A \/
    exists c, In c (successors d x) /\ inside A (n_space (get d c)) /\ (n_exp (get d c) = true \/ In c pending).
Definition min_good (N : net) (d : sd) (pending : list nat) : Prop :=
  forall x M, x < size d -> n_exp (get d x) = true -> min_trap N M -> subspace M (n_space (get d x)) = true ->
    n_space (get d x) = M \/
    exists c, In c (successors d x) /\ subspace M (n_space (get d c)) = true /\ (n_exp (get d c) = true \/ In c pending).

Definition exp_seeds_ok (N : net) (d : sd) (seeds : nat -> list state) : Prop :=
  forall i, i < size d -> n_exp (get d i) = true ->
    one_to_one N (n_space (get d i)) (out_motifs d i) (seeds i).

Local Arguments percolate_b : simpl never.
Local Arguments max_traps_b : simpl never.
Local Arguments sources_in_b : simpl never.
Local Arguments source_valuations : simpl never.
Local Arguments ff_motifs : simpl never.

(* ====================================================================== *)
(* PART 0 -- small structural helpers                                      *)
(* ====================================================================== *)

Lemma swf_space_len : forall N d i, SWF N d -> i < size d -> length (n_space (get d i)) = nvars N.
Proof.
  intros N d i Hswf Hi. apply (swf_len N d Hswf). apply get_In. exact Hi.
Qed.

(* a successor is the target of an edge leaving the node *)
Lemma successor_edge : forall d x c, In c (successors d x) ->
  exists e, In e (sd_edges d) /\ e_src e = x /\ e_dst e = c.
Proof.
  intros d x c Hc. rewrite successors_out in Hc. apply in_map_iff in Hc.
  destruct Hc as (e & Hdst & He). unfold out_edges in He. apply filter_In in He.
  destruct He as [He Hsrc]. apply Nat.eqb_eq in Hsrc.
  exists e. split; [exact He|]. split; [exact Hsrc|exact Hdst].
Qed.

Lemma successor_lt : forall N d x c, SWF N d -> In c (successors d x) -> c < size d.
Proof.
  intros N d x c Hswf Hc. destruct (successor_edge d x c Hc) as (e & He & _ & Hdst).
  destruct (swf_edges N d Hswf e He) as (_ & Hlt & _). rewrite <- Hdst. exact Hlt.
Qed.

Lemma successor_strict : forall d x c, EdgeStrict d -> In c (successors d x) ->
  strict_subspace (n_space (get d c)) (n_space (get d x)).
Proof.
  intros d x c Hes Hc. destruct (successor_edge d x c Hc) as (e & He & Hsrc & Hdst).
  pose proof (Hes e He) as Hs. rewrite Hsrc, Hdst in Hs. exact Hs.
Qed.

(* ====================================================================== *)
(* PART 1 -- a node in fast-forward form owns nothing                      *)
(* ====================================================================== *)

(* the valuation of the listed sources read off a state *)
Lemma valuation_of_state : forall n srcs (s : state), exists val,
  In val (source_valuations n srcs) /\
  forall v b, nth v val None = Some b -> nth v s false = b.
Proof.
  intros n srcs s. induction srcs as [|w r IH].
  - exists (top_space n). split; [left; reflexivity|].
    intros v b H. rewrite nth_top_space in H. discriminate H.
  - destruct IH as (val & Hin & Hv).
    exists (set_nth w (Some (nth w s false)) val). split.
    + rewrite source_valuations_cons. apply in_flat_map. exists (nth w s false). split.
      * destruct (nth w s false); simpl; auto.
      * apply in_map. exact Hin.
    + intros v b H. destruct (Nat.eq_dec w v) as [Heq|Hne].
      * subst v. destruct (lt_dec w (length val)) as [Hlt|Hge].
        -- rewrite nth_set_nth_eq in H by exact Hlt. injection H as H. exact H.
        -- rewrite nth_overflow in H; [discriminate H|]. rewrite set_nth_length. lia.
      * rewrite nth_set_nth_neq in H by exact Hne. apply Hv. exact H.
Qed.

(* a source of the space keeps its value along trajectories that stay inside a closed set inside the space *)
Lemma local_source_reach : forall N (A : state -> Prop) sp k, closed N A -> inside A sp ->
  In k (sources_in_b N sp) ->
  forall s t, reach N s t -> A s -> A t /\ nth k t false = nth k s false.
Proof.
  intros N A sp k Hcl Hin Hk. apply sources_in_b_spec in Hk. destruct Hk as (Hlt & Hfree & Hid).
  intros s t Hr. unfold reach in Hr.
  induction Hr as [x y Hxy|x|x y z Hxy IHxy Hyz IHyz]; intro Hx.
  - split; [apply (Hcl x y Hx Hxy)|].
    destruct Hxy as (j & Hj & Hy & _). subst y. unfold step_i.
    destruct (Nat.eq_dec j k) as [Heq|Hne].
    + subst j. rewrite (Hid x (Hin x Hx)).
      destruct (lt_dec k (length x)) as [Hl|Hl].
      * rewrite set_nth_same by exact Hl. reflexivity.
      * rewrite nth_overflow by (rewrite set_nth_length; lia).
        rewrite nth_overflow by lia. reflexivity.
    + apply nth_set_nth_neq. exact Hne.
  - split; [exact Hx|reflexivity].
  - destruct (IHxy Hx) as [Hy Hxy']. destruct (IHyz Hy) as [Hz Hyz'].
    split; [exact Hz|]. rewrite Hyz'. exact Hxy'.
Qed.

(* hence every attractor inside the space lies inside one of the fast-forward motifs *)
Lemma attractor_in_ff_motif : forall N (A : state -> Prop) sp, length sp = nvars N ->
  attractor N A -> inside A sp -> exists m, In m (ff_motifs N sp) /\ inside A m.
Proof.
  intros N A sp Hlen Hatt Hin. pose proof Hatt as ((s0 & Hs0) & Hwf & Hcl & Hreach).
  destruct (valuation_of_state (nvars N) (sources_in_b N sp) s0) as (val & Hval & Hv).
  destruct (source_valuations_spec _ _ _ Hval) as (Lv & Av & _).
  assert (Hll : length sp = length val) by lia.
  exists (merge sp val). split.
  - unfold ff_motifs. apply in_map. exact Hval.
  - intros t Ht. pose proof (Hin t Ht) as HtS. pose proof (in_space_length t sp HtS) as Hlt.
    apply in_space_nth; [rewrite merge_length by exact Hll; exact Hlt|].
    intros k v Hk. rewrite nth_merge in Hk by exact Hll.
    destruct (nth k val None) as [b|] eqn:Ev.
    + injection Hk as Hk. subst b.
      assert (Hsrc : In k (sources_in_b N sp)) by (apply Av; rewrite Ev; discriminate).
      destruct (local_source_reach N A sp k Hcl Hin Hsrc s0 t (Hreach s0 t Hs0 Ht) Hs0) as [_ Heq].
      rewrite Heq. apply Hv. exact Ev.
    + exact (proj1 (in_space_nth t sp Hlt) HtS k v Hk).
Qed.

Theorem ff_form_owns_nothing : forall N d i A, SWF N d -> TrapNodes N d -> i < size d ->
  ff_form N d i -> attractor N A -> ~ owns N d i A.
Proof.
  intros N d i A Hswf Htn Hi [Hne Hperm] Hatt [_ (_ & Hin & Hno)].
  destruct (attractor_in_ff_motif N A (n_space (get d i)) (swf_space_len N d i Hswf Hi) Hatt Hin)
    as (m & Hm & Hinm).
  apply Hno. exists m. split; [|exact Hinm].
  eapply Permutation_in; [apply Permutation_sym; exact Hperm|exact Hm].
Qed.

(* ====================================================================== *)
(* PART 2 -- uniqueness of the expanded owner                              *)
(* ====================================================================== *)

(* OwnerFacts.owner_no_smaller, using canonicity only at the owner *)
Lemma owner_no_smaller_gen : forall N d A i T, canonical N d i -> attractor N A -> owns N d i A ->
  trap_space N T -> strict_subspace T (n_space (get d i)) -> inside A T -> False.
Proof.
  intros N d A i T Hcan Hatt [Hi (_ & HinX & Hno)] Htrap [Hsub Hne] HinT.
  pose proof Hatt as ((s0 & Hs0) & _).
  pose proof (trap_space_length N T Htrap) as HlT.
  set (T' := fix_vars s0 (sources_b N) T).
  assert (Hs0T : in_space s0 T = true) by (apply HinT; exact Hs0).
  assert (HsubT' : subspace T' T = true) by (apply fix_vars_subspace; exact Hs0T).
  assert (Htrap' : trap_space N T') by (apply OwnerFacts.fix_sources_trap; assumption).
  assert (HinT' : inside A T') by (apply fix_sources_inside; assumption).
  assert (Hstrict' : strict_subspace T' (n_space (get d i))).
  { split; [eapply subspace_trans; [exact HsubT'|exact Hsub]|].
    intro Heq. apply Hne. apply subspace_antisym; [exact Hsub|]. rewrite <- Heq. exact HsubT'. }
  assert (Hfix : fixes_all T' (node_srcs N i) = true).
  { apply fixes_all_node_srcs. apply fix_vars_fixes. intros k Hk.
    apply in_sources_b in Hk. rewrite HlT. apply Hk. }
  destruct (max_trap_above_srcs N _ (node_srcs N i) T' Htrap' Hstrict' Hfix) as (M & HM & HsubM).
  apply Hno. exists M. split.
  - unfold canonical in Hcan.
    eapply Permutation_in; [apply Permutation_sym; exact Hcan|exact HM].
  - apply (inside_sub A T' M HinT' HsubM).
Qed.

Lemma owner_space_below_gen : forall N d A i j Z, TrapNodes N d -> canonical N d i -> attractor N A ->
  owns N d i A -> j < size d -> inside A (n_space (get d j)) ->
  intersect (n_space (get d i)) (n_space (get d j)) = Some Z -> Z = n_space (get d i).
Proof.
  intros N d A i j Z Htn Hcan Hatt Hown Hj HinY HZ.
  pose proof Hown as [Hi (_ & HinX & _)].
  pose proof (TrapNodes_get N d i Htn Hi) as HtX.
  pose proof (TrapNodes_get N d j Htn Hj) as HtY.
  pose proof (trap_space_intersect N _ _ Z HtX HtY HZ) as HtZ.
  assert (HinZ : inside A Z).
  { intros s Hs. rewrite (intersect_spec_some _ _ Z HZ s).
    rewrite (HinX s Hs), (HinY s Hs). reflexivity. }
  assert (HsubZ : subspace Z (n_space (get d i)) = true).
  { apply subspace_spec; [apply (intersect_length _ _ Z HZ)|].
    intros s Hs. rewrite (intersect_spec_some _ _ Z HZ s) in Hs.
    apply andb_prop in Hs. apply Hs. }
  destruct (eqb_space Z (n_space (get d i))) eqn:Eq.
  - apply eqb_space_spec. exact Eq.
  - exfalso. apply (owner_no_smaller_gen N d A i Z Hcan Hatt Hown HtZ); [|exact HinZ].
    split; [exact HsubZ|]. intro Heq. apply eqb_space_spec in Heq. rewrite Heq in Eq.
    discriminate Eq.
Qed.

(* two owners that are both canonical coincide *)
Lemma owner_unique_canon : forall N d A i j, SWF N d -> TrapNodes N d ->
  canonical N d i -> canonical N d j -> attractor N A ->
  owns N d i A -> owns N d j A -> i = j.
Proof.
  intros N d A i j Hswf Htn Hci Hcj Hatt Hi Hj.
  pose proof Hi as [Hilt (_ & HinX & _)]. pose proof Hj as [Hjlt (_ & HinY & _)].
  pose proof Hatt as ((s0 & Hs0) & _).
  pose proof (swf_space_len N d i Hswf Hilt) as HlX.
  pose proof (swf_space_len N d j Hswf Hjlt) as HlY.
  destruct (intersect (n_space (get d i)) (n_space (get d j))) as [Z|] eqn:EZ.
  - destruct (intersect_comm_some _ _ Z EZ) as (Z' & EZ' & Hsame).
    pose proof (owner_space_below_gen N d A i j Z Htn Hci Hatt Hi Hjlt HinY EZ) as HZX.
    pose proof (owner_space_below_gen N d A j i Z' Htn Hcj Hatt Hj Hilt HinX EZ') as HZY.
    apply (spaces_inj N d i j Hswf Hilt Hjlt).
    rewrite <- HZX, <- HZY.
    pose proof (intersect_length _ _ Z EZ) as [HlZ _].
    pose proof (intersect_length _ _ Z' EZ') as [HlZ' _].
    assert (Hll : length Z = length Z') by congruence.
    apply subspace_antisym.
    + apply subspace_spec; [exact Hll|]. intros s Hs. rewrite Hsame. exact Hs.
    + apply subspace_spec; [symmetry; exact Hll|]. intros s Hs. rewrite <- Hsame. exact Hs.
  - exfalso. assert (Hl : length (n_space (get d i)) = length (n_space (get d j))) by congruence.
    pose proof (intersect_spec_none _ _ Hl EZ s0) as Hn.
    rewrite (HinX s0 Hs0), (HinY s0 Hs0) in Hn. discriminate Hn.
Qed.

(* an expanded owner is canonical: the fast-forward form owns nothing *)
Lemma owns_exp_canonical : forall N d A i, SWF N d -> TrapNodes N d -> NoSkips d -> CanonOrFF N d ->
  attractor N A -> owns_exp N d i A -> canonical N d i.
Proof.
  intros N d A i Hswf Htn Hns Hcf Hatt [Hown Hexp]. pose proof Hown as [Hi _].
  destruct (Hcf i Hi Hexp (Hns i Hi)) as [Hcan|Hff]; [exact Hcan|].
  exfalso. exact (ff_form_owns_nothing N d i A Hswf Htn Hi Hff Hatt Hown).
Qed.

Theorem owner_unique_partial : forall N d A i j,
  SWF N d -> TrapNodes N d -> NoSkips d -> CanonOrFF N d -> attractor N A ->
  owns_exp N d i A -> owns_exp N d j A -> i = j.
Proof.
  intros N d A i j Hswf Htn Hns Hcf Hatt Hi Hj.
  pose proof (owns_exp_canonical N d A i Hswf Htn Hns Hcf Hatt Hi) as Hci.
  pose proof (owns_exp_canonical N d A j Hswf Htn Hns Hcf Hatt Hj) as Hcj.
  destruct Hi as [Hi _]. destruct Hj as [Hj _].
  exact (owner_unique_canon N d A i j Hswf Htn Hci Hcj Hatt Hi Hj).
Qed.

(* ====================================================================== *)
(* PART 3 -- descending from the root with an empty work list              *)
(* ====================================================================== *)

Lemma attr_descend : forall N d A, SWF N d -> EdgeStrict d -> attr_good N d [] -> attractor N A ->
  forall k x, x < size d -> n_exp (get d x) = true -> inside A (n_space (get d x)) ->
    nvars N <= nfixed (n_space (get d x)) + k -> exists i, owns_exp N d i A.
Proof.
  intros N d A Hswf Hes Hgood Hatt. induction k as [|k IH]; intros x Hx Hexp Hin Hk.
  - destruct (Hgood x A Hx Hexp Hatt Hin) as [Hown|(c & Hc & _ & _)].
    + exists x. split; [exact Hown|exact Hexp].
    + exfalso. pose proof (successor_lt N d x c Hswf Hc) as Hclt.
      pose proof (strict_subspace_nfixed _ _ (successor_strict d x c Hes Hc)) as Hlt.
      pose proof (nfixed_le_length (n_space (get d c))) as Hle.
      rewrite (swf_space_len N d c Hswf Hclt) in Hle. lia.
  - destruct (Hgood x A Hx Hexp Hatt Hin) as [Hown|(c & Hc & Hinc & [Hce|[]])].
    + exists x. split; [exact Hown|exact Hexp].
    + pose proof (successor_lt N d x c Hswf Hc) as Hclt.
      pose proof (strict_subspace_nfixed _ _ (successor_strict d x c Hes Hc)) as Hlt.
      apply (IH c Hclt Hce Hinc). lia.
Qed.

Lemma attractor_in_root_space : forall N d A,
  n_space (get d 0) = percolate_b N (top_space (nvars N)) -> attractor N A ->
  inside A (n_space (get d 0)).
Proof.
  intros N d A Hroot Hatt. rewrite Hroot. unfold inside.
  apply (attractor_in_percolation N A (top_space (nvars N)) Hatt).
  - apply trap_space_top.
  - intros s Hs. destruct Hatt as (_ & Hwf & _). pose proof (Hwf s Hs) as Hl.
    unfold wf_state in Hl. rewrite <- Hl. apply in_space_top.
Qed.

Theorem attr_good_served : forall N d,
  SWF N d -> TrapNodes N d -> EdgeStrict d ->
  n_space (get d 0) = percolate_b N (top_space (nvars N)) -> n_exp (get d 0) = true ->
  attr_good N d [] -> AttrServed N d.
Proof.
  intros N d Hswf Htn Hes Hroot Hexp0 Hgood A Hatt.
  apply (attr_descend N d A Hswf Hes Hgood Hatt (nvars N) 0 (swf_size N d Hswf) Hexp0); [|lia].
  apply (attractor_in_root_space N d A Hroot Hatt).
Qed.

Lemma min_descend : forall N d M, SWF N d -> EdgeStrict d -> min_good N d [] -> min_trap N M ->
  forall k x, x < size d -> n_exp (get d x) = true -> subspace M (n_space (get d x)) = true ->
    nvars N <= nfixed (n_space (get d x)) + k ->
    exists i, i < size d /\ n_exp (get d i) = true /\ n_space (get d i) = M.
Proof.
  intros N d M Hswf Hes Hgood HM. induction k as [|k IH]; intros x Hx Hexp Hsub Hk.
  - destruct (Hgood x M Hx Hexp HM Hsub) as [Heq|(c & Hc & _ & _)].
    + exists x. split; [exact Hx|]. split; [exact Hexp|exact Heq].
    + exfalso. pose proof (successor_lt N d x c Hswf Hc) as Hclt.
      pose proof (strict_subspace_nfixed _ _ (successor_strict d x c Hes Hc)) as Hlt.
      pose proof (nfixed_le_length (n_space (get d c))) as Hle.
      rewrite (swf_space_len N d c Hswf Hclt) in Hle. lia.
  - destruct (Hgood x M Hx Hexp HM Hsub) as [Heq|(c & Hc & Hsubc & [Hce|[]])].
    + exists x. split; [exact Hx|]. split; [exact Hexp|exact Heq].
    + pose proof (successor_lt N d x c Hswf Hc) as Hclt.
      pose proof (strict_subspace_nfixed _ _ (successor_strict d x c Hes Hc)) as Hlt.
      apply (IH c Hclt Hce Hsubc). lia.
Qed.

Theorem min_good_found : forall N d,
  SWF N d -> TrapNodes N d -> EdgeStrict d ->
  n_space (get d 0) = percolate_b N (top_space (nvars N)) -> n_exp (get d 0) = true ->
  min_good N d [] -> MinFound N d.
Proof.
  intros N d Hswf Htn Hes Hroot Hexp0 Hgood M HM.
  assert (Hsub0 : subspace M (n_space (get d 0)) = true)
    by (rewrite Hroot; apply (min_trap_in_root N M HM)).
  destruct (min_descend N d M Hswf Hes Hgood HM (nvars N) 0 (swf_size N d Hswf) Hexp0 Hsub0)
    as (i & Hi & Hexp & Heq); [lia|].
  exists i. split; [exact Hi|]. split; [|exact Heq].
  apply is_minimal_iff. split; [|exact Hexp].
  destruct (out_edges d i) as [|e r] eqn:Eo; [reflexivity|]. exfalso.
  assert (He : In e (out_edges d i)) by (rewrite Eo; left; reflexivity).
  unfold out_edges in He. apply filter_In in He. destruct He as [He Hsrc].
  apply Nat.eqb_eq in Hsrc.
  destruct (swf_edges N d Hswf e He) as (_ & Hdst & _).
  pose proof (Hes e He) as [Hss Hne]. rewrite Hsrc, Heq in Hss, Hne.
  destruct HM as [_ Hmin]. apply Hne. apply Hmin; [|exact Hss].
  apply (TrapNodes_get N d (e_dst e) Htn Hdst).
Qed.

(* ====================================================================== *)
(* PART 4 -- the global one-to-one statement for partial diagrams          *)
(* ====================================================================== *)

Lemma seed_owner_exp : forall N d seeds A i s, exp_seeds_ok N d seeds -> attractor N A ->
  i < size d -> n_exp (get d i) = true -> In s (seeds i) -> A s -> owns_exp N d i A.
Proof.
  intros N d seeds A i s Hok Hatt Hi Hexp Hs HAs.
  destruct (Hok i Hi Hexp) as (_ & Hsound & _).
  destruct (Hsound s Hs) as (A' & Hna & HA's).
  split; [|exact Hexp]. split; [exact Hi|]. apply (node_attr_ext N _ _ A' A); [|exact Hna].
  destruct Hna as (Hatt' & _).
  apply (attractors_disjoint_or_equal N A' A s Hatt' Hatt HA's HAs).
Qed.

Theorem partial_one_to_one : forall N d seeds,
  SWF N d -> TrapNodes N d -> NoSkips d -> CanonOrFF N d -> AttrServed N d -> exp_seeds_ok N d seeds ->
  (forall A, attractor N A -> exists i s, i < size d /\ n_exp (get d i) = true /\ In s (seeds i) /\ A s) /\
  (forall A i j s t, attractor N A -> i < size d -> j < size d ->
     n_exp (get d i) = true -> n_exp (get d j) = true ->
     In s (seeds i) -> In t (seeds j) -> A s -> A t -> i = j /\ s = t) /\
  (forall i s, i < size d -> n_exp (get d i) = true -> In s (seeds i) ->
     exists A, attractor N A /\ A s /\ inside A (n_space (get d i))).
Proof.
  intros N d seeds Hswf Htn Hns Hcf Hserved Hok. split; [|split].
  - intros A Hatt. destruct (Hserved A Hatt) as (i & (Hi & Hna) & Hexp).
    destruct (Hok i Hi Hexp) as (_ & _ & _ & Hcov).
    destruct (Hcov A Hna) as (s & Hs & HAs).
    exists i, s. split; [exact Hi|]. split; [exact Hexp|]. split; [exact Hs|exact HAs].
  - intros A i j s t Hatt Hi Hj Hei Hej Hs Ht HAs HAt.
    pose proof (seed_owner_exp N d seeds A i s Hok Hatt Hi Hei Hs HAs) as Hoi.
    pose proof (seed_owner_exp N d seeds A j t Hok Hatt Hj Hej Ht HAt) as Hoj.
    pose proof (owner_unique_partial N d A i j Hswf Htn Hns Hcf Hatt Hoi Hoj) as Heq. subst j.
    split; [reflexivity|].
    destruct (Hok i Hi Hei) as (_ & _ & Hinj & _). destruct Hoi as [[_ Hna] _].
    apply (Hinj A s t Hna Hs Ht HAs HAt).
  - intros i s Hi Hexp Hs. destruct (Hok i Hi Hexp) as (_ & Hsound & _).
    destruct (Hsound s Hs) as (A & (Hatt & Hin & _) & HAs).
    exists A. split; [exact Hatt|]. split; [exact HAs|exact Hin].
Qed.

(* ====================================================================== *)
(* PART 5 -- fully faithful diagrams are an instance                       *)
(* ====================================================================== *)

Theorem Faithful_CanonOrFF : forall N d, Faithful N d -> CanonOrFF N d.
Proof.
  intros N d Hf i Hi Hexp Hskip. left. apply (Hf i Hi Hexp Hskip).
Qed.

Print Assumptions ff_form_owns_nothing.
Print Assumptions owner_unique_partial.
Print Assumptions attr_good_served.
Print Assumptions min_good_found.
Print Assumptions partial_one_to_one.
Print Assumptions Faithful_CanonOrFF.
