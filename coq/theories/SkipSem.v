(* SkipSem.v -- SPEC (definitions are fixed; prove the theorems).
   What a skip node IS, as an invariant of every history (skip operations included): it is expanded, each of its
   out-edges leads to a minimal trap space and carries exactly that space as its only motif, and EVERY minimal trap space
   inside the skip node is one of its successors.  Together with Faithful (ordinary expanded nodes are canonical) this
   describes every expanded node of every reachable diagram, which is what the control theorems need on "skipped" diagrams. *)
From Coq Require Import List Bool Arith NArith Lia Permutation.
Import ListNotations.
From BB Require Import BN Brute SpaceFacts TrapFacts PercolateFacts Diagram Invariants DiagramStruct DiagramSem1
  DiagramCache DiagramComplete MinExpandFacts.

Definition SkipSem (N : net) (d : sd) : Prop :=
  forall i, i < size d -> n_skip (get d i) = true ->
    n_exp (get d i) = true /\
    (forall e, In e (out_edges d i) ->
       e_motifs e = [n_space (get d (e_dst e))] /\ min_trap N (n_space (get d (e_dst e)))) /\
    (forall M, min_trap N M -> subspace M (n_space (get d i)) = true ->
       exists c, In c (successors d i) /\ n_space (get d c) = M).

(* the invariants of arbitrary histories (skip operations allowed): PlainInv without NoSkips, plus SkipSem *)
Definition AnyInv (N : net) (d : sd) : Prop :=
  SWF N d /\ TrapNodes N d /\ EdgeStrict d /\ NoStubEdges d /\ Faithful N d /\ SkipSem N d /\
  n_space (get d 0) = percolate_b N (top_space (nvars N)).

Local Arguments percolate_b : simpl never.
Local Arguments expand_one : simpl never.
Local Arguments node_successors : simpl never.
Local Arguments ensure_node : simpl never.
Local Arguments ensure_edge : simpl never.
Local Arguments raise_depth : simpl never.
Local Arguments max_traps_b : simpl never.
Local Arguments min_traps_b : simpl never.
Local Arguments make_skip_node : simpl never.
Local Arguments upd_node : simpl never.
Local Arguments ensure_min_children : simpl never.

(* ================================================================== *)
(* 0. helpers                                                          *)
(* ================================================================== *)

Lemma min_traps_b_NoDup : forall N S, NoDup (min_traps_b N S).
Proof.
  intros N S. rewrite min_traps_b_unfold. apply NoDup_filter. unfold traps_in. apply NoDup_filter.
  apply subspaces_of_NoDup.
Qed.

Lemma perm_of_NoDup : forall a b, perm_of a b = true -> NoDup b -> NoDup a.
Proof.
  intros a b Hp Hnd. apply (@NoDup_incl_NoDup space b a Hnd).
  - unfold perm_of in Hp. apply andb_true_iff in Hp. destruct Hp as [Hp _].
    apply andb_true_iff in Hp. destruct Hp as [Hlen _]. apply Nat.eqb_eq in Hlen. lia.
  - intros x Hx. eapply perm_of_In_rev; eauto.
Qed.

Lemma tape_NoDup : forall N S tape, negb (perm_of tape (min_traps_b N S)) = false -> NoDup tape.
Proof.
  intros N S tape Hp. apply negb_false_iff in Hp.
  eapply perm_of_NoDup; [exact Hp|apply min_traps_b_NoDup].
Qed.

(* the tape is exactly the set of minimal trap spaces inside S *)
Lemma tape_iff : forall N S tape, length S = nvars N ->
  negb (perm_of tape (min_traps_b N S)) = false ->
  forall m, In m tape <-> min_trap N m /\ subspace m S = true.
Proof.
  intros N S tape HS Hp m. apply negb_false_iff in Hp.
  rewrite <- (min_traps_b_spec N S m HS). split; intro Hin.
  - eapply perm_of_In; eassumption.
  - eapply perm_of_In_rev; eassumption.
Qed.

Lemma out_edges_sd : forall d i e, In e (out_edges d i) -> In e (sd_edges d).
Proof. intros d i e H. apply out_edges_In in H. apply H. Qed.

(* ================================================================== *)
(* 1. the frame lemma: SkipSem only looks at flags, spaces and the     *)
(*    out-edges of skip nodes                                          *)
(* ================================================================== *)

Lemma SkipSem_frame : forall N d d',
  SWF N d -> size d <= size d' ->
  (forall j, j < size d -> n_space (get d' j) = n_space (get d j)) ->
  (forall j, j < size d -> n_skip (get d' j) = n_skip (get d j)) ->
  (forall j, j < size d -> n_exp (get d j) = true -> n_exp (get d' j) = true) ->
  (forall j, j < size d -> n_skip (get d j) = true -> out_edges d' j = out_edges d j) ->
  (forall j, size d <= j -> j < size d' -> n_skip (get d' j) = false) ->
  SkipSem N d -> SkipSem N d'.
Proof.
  intros N d d' Hswf Hsz Hsp Hsk Hex Hout Hnew H i Hi Hski.
  destruct (lt_dec i (size d)) as [Hlt|Hge].
  - assert (Hsk0 : n_skip (get d i) = true) by (rewrite <- (Hsk i Hlt); exact Hski).
    destruct (H i Hlt Hsk0) as (A1 & A2 & A3).
    split; [apply Hex; assumption|]. split.
    + intros e He. rewrite (Hout i Hlt Hsk0) in He.
      assert (Hd : e_dst e < size d).
      { apply (swf_edges N d Hswf e). eapply out_edges_sd. exact He. }
      rewrite (Hsp _ Hd). apply A2. exact He.
    + intros M HM Hsub. rewrite (Hsp i Hlt) in Hsub.
      destruct (A3 M HM Hsub) as (c & Hc & Hcs). exists c.
      rewrite successors_out, (Hout i Hlt Hsk0), <- successors_out. split; [exact Hc|].
      rewrite (Hsp c); [exact Hcs|]. eapply successors_valid; eassumption.
  - rewrite Hnew in Hski by lia. discriminate Hski.
Qed.

Lemma SkipSem_upd : forall N d i f, SWF N d -> flag_setter f ->
  (forall x, n_skip (f x) = n_skip x) -> SkipSem N d -> SkipSem N (upd_node d i f).
Proof.
  intros N d i f Hswf Hf Hfs H. apply (SkipSem_frame N d); try assumption.
  - rewrite size_upd_node. lia.
  - intros j _. apply n_space_upd_flag. exact Hf.
  - intros j _. destruct (get_upd_node_cases d i j f) as [Hg|(_ & _ & Hg)]; rewrite Hg;
      [reflexivity|apply Hfs].
  - intros j _ He. apply n_exp_upd_flag_mono; assumption.
  - intros j _ _. apply out_edges_upd_node.
  - intros j Hle Hlt. rewrite size_upd_node in Hlt. lia.
Qed.

Lemma SkipSem_reclaim : forall N d, SWF N d -> SkipSem N d -> SkipSem N (reclaim d).
Proof.
  intros N d Hswf H. apply (SkipSem_frame N d); try assumption.
  - rewrite size_reclaim. lia.
  - intros j _. rewrite get_reclaim. destruct (n_seeds (get d j)); reflexivity.
  - intros j _. rewrite get_reclaim. destruct (n_seeds (get d j)); reflexivity.
  - intros j _ He. rewrite get_reclaim. destruct (n_seeds (get d j)); exact He.
  - intros j _ _. reflexivity.
  - intros j Hle Hlt. rewrite size_reclaim in Hlt. lia.
Qed.

(* an unexpanded node is not a skip node *)
Lemma SkipSem_unexp : forall N d i, SkipSem N d -> n_exp (get d i) = false -> n_skip (get d i) = false.
Proof.
  intros N d i H Hex. destruct (lt_dec i (size d)) as [Hlt|Hge].
  - destruct (n_skip (get d i)) eqn:Es; [|reflexivity].
    destruct (H i Hlt Es) as (A1 & _). congruence.
  - rewrite get_beyond by lia. reflexivity.
Qed.

(* ================================================================== *)
(* 2. expand_one                                                       *)
(* ================================================================== *)

Lemma expand_one_SkipSem : forall N cfg d i, SWF N d -> SkipSem N d ->
  SkipSem N (fst (expand_one N cfg d i)).
Proof.
  intros N cfg d i Hswf H. destruct (expand_one N cfg d i) as [d' r] eqn:E. simpl.
  apply expand_one_cases in E.
  destruct E as [(_ & Hd & _)|[(_ & _ & Hd & _)|[(_ & _ & _ & Hd & _)|(Hex & Ef & _ & Hd & _)]]];
    subst d'.
  - exact H.
  - apply SkipSem_upd; [apply upd_flag_SWF; [constructor|exact Hswf]|constructor|reflexivity|].
    apply SkipSem_upd; [exact Hswf|constructor|reflexivity|exact H].
  - apply SkipSem_upd; [exact Hswf|constructor|reflexivity|exact H].
  - pose proof (not_full_valid d i Ef) as Hi.
    pose proof (SkipSem_unexp N d i H Hex) as Hski.
    remember (upd_node d i clear_attr) as d0 eqn:Ed0.
    assert (Hswf0 : SWF N d0) by (rewrite Ed0; apply upd_flag_SWF; [constructor|exact Hswf]).
    assert (H0 : SkipSem N d0)
      by (rewrite Ed0; apply SkipSem_upd; [exact Hswf|constructor|reflexivity|exact H]).
    assert (Hsz0 : size d0 = size d) by (rewrite Ed0; apply size_upd_node).
    assert (Hski0 : n_skip (get d0 i) = false).
    { rewrite Ed0, get_upd_node_eq by exact Hi. exact Hski. }
    clear Ed0.
    remember (firstn (eo_k N cfg d i) (eo_all N d i)) as subs eqn:Esubs. clear Esubs.
    pose proof (ensure_all_old N subs d0 i) as Hold.
    pose proof (ensure_all_out_other N subs d0 i) as Hother.
    pose proof (ensure_all_new N subs d0 i) as Hnew.
    pose proof (ensure_all_extends N subs d0 i) as Hext.
    remember (ensure_all N d0 i subs) as d1 eqn:Ed1. clear Ed1.
    apply (SkipSem_frame N d0); try assumption.
    + rewrite size_upd_node. apply extends_size. exact Hext.
    + intros j Hj. rewrite n_space_upd_flag by constructor. apply (Hold j Hj).
    + intros j Hj. destruct (Hold j Hj) as (_ & _ & Hs & _).
      destruct (get_upd_node_cases d1 i j (fun y => set_exp y true)) as [Hg|(_ & _ & Hg)];
        rewrite Hg; exact Hs.
    + intros j Hj He. apply n_exp_upd_flag_mono; [constructor|].
      destruct (Hold j Hj) as (_ & He1 & _). rewrite He1. exact He.
    + intros j Hj Hs. rewrite out_edges_upd_node. apply Hother.
      intro Heq. subst j. congruence.
    + intros j Hle Hlt. rewrite size_upd_node in Hlt.
      destruct (Hnew j Hle Hlt) as [_ Hs].
      destruct (get_upd_node_cases d1 i j (fun y => set_exp y true)) as [Hg|(_ & _ & Hg)];
        rewrite Hg; exact Hs.
Qed.

(* the invariant carried through the operations *)
Definition QK (N : net) (d : sd) : Prop :=
  SWF N d /\ NoStubEdges d /\ EdgeStrict d /\ SkipSem N d.

Lemma QK_swf : forall N d, QK N d -> SWF N d.
Proof. intros N d H. apply H. Qed.

Lemma QK_expand : forall N cfg d i, QK N d -> QK N (fst (expand_one N cfg d i)).
Proof.
  intros N cfg d i (Hswf & Hnse & Hes & Hsk).
  split; [apply (expand_one_transfer N (SWF N) (prim_closed_SWF N)); exact Hswf|].
  split; [apply expand_one_NSE; assumption|].
  split; [apply expand_one_ES; assumption|].
  apply expand_one_SkipSem; assumption.
Qed.

Lemma QK_upd_neutral : forall N d i f, flag_setter f -> (forall x, n_skip (f x) = n_skip x) ->
  QK N d -> QK N (upd_node d i f).
Proof.
  intros N d i f Hf Hfs (Hswf & Hnse & Hes & Hsk).
  split; [apply upd_flag_SWF; assumption|].
  split; [apply NoStubEdges_upd; assumption|].
  split; [apply EdgeStrict_upd; assumption|].
  apply SkipSem_upd; assumption.
Qed.

Lemma QK_reclaim : forall N d, QK N d -> QK N (reclaim d).
Proof.
  intros N d (Hswf & Hnse & Hes & Hsk).
  split; [apply reclaim_SWF; exact Hswf|].
  split.
  { intros e Hin. simpl in Hin. destruct (reclaim_extends d) as (_ & _ & K & _).
    apply K; [apply (swf_edges N d Hswf e Hin)|apply Hnse; exact Hin]. }
  split; [apply (EdgeStrict_same_shape d); [apply spaces_reclaim|reflexivity|exact Hes]|].
  apply SkipSem_reclaim; assumption.
Qed.

(* ================================================================== *)
(* 3. while the unexpanded node p (space S) is being turned into a     *)
(*    skip node: `done` lists the minimal trap spaces already linked   *)
(* ================================================================== *)

Definition SKp (N : net) (p : nat) (S : space) (d : sd) (done : list space) : Prop :=
  SWF N d /\ p < size d /\ n_space (get d p) = S /\
  n_exp (get d p) = false /\ n_skip (get d p) = false /\
  NSE_except p d /\ SkipSem N d /\
  (forall e, In e (out_edges d p) ->
     In (n_space (get d (e_dst e))) done /\ e_motifs e = [n_space (get d (e_dst e))]) /\
  (forall m, In m done -> exists c, In c (successors d p) /\ n_space (get d c) = m).

Lemma SKp_start : forall N p d, SWF N d -> NoStubEdges d -> SkipSem N d -> p < size d ->
  n_exp (get d p) = false -> SKp N p (n_space (get d p)) (upd_node d p clear_attr) [].
Proof.
  intros N p d Hswf Hnse Hsk Hp Hex.
  pose proof (SkipSem_unexp N d p Hsk Hex) as Hskp.
  split; [apply upd_flag_SWF; [constructor|exact Hswf]|].
  split; [rewrite size_upd_node; exact Hp|].
  split; [apply n_space_upd_flag; constructor|].
  split; [rewrite get_upd_node_eq by exact Hp; exact Hex|].
  split; [rewrite get_upd_node_eq by exact Hp; exact Hskp|].
  split; [apply NSE_except_upd; [constructor|apply NSE_open; exact Hnse]|].
  split; [apply SkipSem_upd; [exact Hswf|constructor|reflexivity|exact Hsk]|].
  split.
  - intros e He. rewrite out_edges_upd_node, (NoStub_out_empty d p Hnse Hex) in He. contradiction.
  - intros m [].
Qed.

(* marking another node expanded *)
Lemma SKp_mark : forall N p S d done c, SKp N p S d done -> c <> p ->
  SKp N p S (mark_expanded d c) done.
Proof.
  intros N p S d done c (H1 & H2 & H3 & H4 & H5 & H6 & H7 & H8 & H9) Hne. unfold mark_expanded.
  split; [apply upd_flag_SWF; [constructor|exact H1]|].
  split; [rewrite size_upd_node; exact H2|].
  split; [rewrite n_space_upd_flag by constructor; exact H3|].
  split; [rewrite get_upd_node_neq by exact Hne; exact H4|].
  split; [rewrite get_upd_node_neq by exact Hne; exact H5|].
  split; [apply NSE_except_upd; [constructor|exact H6]|].
  split; [apply SkipSem_upd; [exact H1|constructor|reflexivity|exact H7]|].
  split.
  - intros e He. rewrite out_edges_upd_node in He. rewrite n_space_upd_flag by constructor.
    apply H8. exact He.
  - intros m Hm. destruct (H9 m Hm) as (c0 & Hc0 & Hsp). exists c0.
    rewrite successors_out, out_edges_upd_node, <- successors_out.
    rewrite n_space_upd_flag by constructor. auto.
Qed.

Lemma out_edges_app_new : forall d d' p c m j,
  sd_edges d' = sd_edges d ++ [{| e_src := p; e_dst := c; e_motifs := [m] |}] ->
  out_edges d' j = out_edges d j ++
    (if Nat.eqb p j then [{| e_src := p; e_dst := c; e_motifs := [m] |}] else []).
Proof.
  intros d d' p c m j He. unfold out_edges. rewrite He, filter_app. simpl. reflexivity.
Qed.

(* the edge p -> c with motif m is added, where c carries the not yet linked space m *)
Lemma SKp_added : forall N p S d d' c m done,
  SKp N p S d done ->
  SWF N d' -> size d <= size d' ->
  (forall j, j < size d -> node_eq_mod_depth (get d j) (get d' j)) ->
  (forall j, size d <= j -> j < size d' -> n_exp (get d' j) = false /\ n_skip (get d' j) = false) ->
  sd_edges d' = edge_added d p c m ->
  c < size d' -> n_space (get d' c) = m -> ~ In m done ->
  SKp N p S d' (m :: done).
Proof.
  intros N p S d d' c m done (H1 & H2 & H3 & H4 & H5 & H6 & H7 & H8 & H9)
         Hswf' Hsz Hold Hnew Hed Hc Hcm Hnin.
  assert (Hno : has_edge d p c = false).
  { destruct (has_edge d p c) eqn:Eh; [|reflexivity]. exfalso.
    apply has_edge_true in Eh. destruct Eh as (e & Hin & Hs & Hd).
    destruct (swf_edges N d H1 e Hin) as (_ & Hdlt & _).
    assert (He : In e (out_edges d p)) by (apply out_edges_In; auto).
    destruct (H8 e He) as [Hdone _]. rewrite Hd in Hdone, Hdlt.
    destruct (Hold c Hdlt) as (Hsp & _). rewrite <- Hsp, Hcm in Hdone. exact (Hnin Hdone). }
  assert (Hed' : sd_edges d' = sd_edges d ++ [{| e_src := p; e_dst := c; e_motifs := [m] |}]).
  { rewrite Hed. unfold edge_added. rewrite Hno. reflexivity. }
  pose proof (out_edges_app_new d d' p c m) as Hout. specialize (fun j => Hout j Hed').
  assert (Hspace : forall j, j < size d -> n_space (get d' j) = n_space (get d j)).
  { intros j Hj. apply (Hold j Hj). }
  split; [exact Hswf'|]. split; [lia|].
  split; [rewrite (Hspace p H2); exact H3|].
  split; [destruct (Hold p H2) as (_ & He & _); rewrite He; exact H4|].
  split; [destruct (Hold p H2) as (_ & _ & Hs & _); rewrite Hs; exact H5|].
  split.
  { apply (NSE_except_added N d d' p c m H1 Hed); [|exact H6].
    intros j Hj. apply (Hold j Hj). }
  split.
  { apply (SkipSem_frame N d); try assumption.
    - intros j Hj. apply (Hold j Hj).
    - intros j Hj He. destruct (Hold j Hj) as (_ & He1 & _). rewrite He1. exact He.
    - intros j Hj Hs. rewrite Hout.
      assert (Hpj : Nat.eqb p j = false).
      { apply Nat.eqb_neq. intro Heq. subst j. congruence. }
      rewrite Hpj. apply app_nil_r.
    - intros j Hle Hlt. apply (Hnew j Hle Hlt). }
  split.
  - intros e He. rewrite Hout, Nat.eqb_refl in He. apply in_app_or in He.
    destruct He as [He|[He|[]]].
    + assert (Hd : e_dst e < size d).
      { apply (swf_edges N d H1 e). eapply out_edges_sd. exact He. }
      rewrite (Hspace _ Hd). destruct (H8 e He) as [A1 A2]. split; [right; exact A1|exact A2].
    + subst e. simpl. rewrite Hcm. split; [left; reflexivity|reflexivity].
  - intros m0 [Heq|Hin].
    + subst m0. exists c. split; [|exact Hcm].
      apply In_successors. exists {| e_src := p; e_dst := c; e_motifs := [m] |}.
      split; [|split; reflexivity]. rewrite Hed'. apply in_or_app. right. left. reflexivity.
    + destruct (H9 m0 Hin) as (c0 & Hc0 & Hsp). exists c0. split.
      * apply In_successors in Hc0. destruct Hc0 as (e & Hine & Hs & Hd).
        apply In_successors. exists e. split; [|auto]. rewrite Hed'. apply in_or_app. left. exact Hine.
      * rewrite Hspace; [exact Hsp|]. eapply successors_valid; eassumption.
Qed.

(* one step of ensure_min_children *)
Lemma SKp_child : forall N p S d done m, SKp N p S d done ->
  min_trap N m -> ~ In m done -> m <> S ->
  SKp N p S (mark_expanded (fst (ensure_node N d (Some p) m)) (snd (ensure_node N d (Some p) m)))
      (m :: done).
Proof.
  intros N p S d done m H Hmin Hnin Hne.
  pose proof H as (H1 & H2 & H3 & _).
  pose proof (min_trap_length N m Hmin) as Hm.
  destruct (ensure_child_spec N d p m H1 Hm H2) as (S1 & S2 & S3 & S4).
  rewrite (min_trap_percolate N m Hmin) in S4.
  assert (HK : SKp N p S (fst (ensure_node N d (Some p) m)) (m :: done)).
  { apply (SKp_added N p S d _ (snd (ensure_node N d (Some p) m)) m done H); try assumption.
    - apply extends_size. exact S2.
    - intros j Hj. apply ensure_node_old. exact Hj.
    - intros j Hle Hlt. apply (ensure_node_new N d (Some p) m j Hle Hlt).
    - apply sd_edges_ensure_child. }
  apply SKp_mark; [exact HK|].
  intro Heq. rewrite Heq in S4. destruct HK as (_ & _ & K3 & _). congruence.
Qed.

Lemma SKp_min_children : forall N p S mins d done, SKp N p S d done -> NoDup mins ->
  (forall m, In m mins -> min_trap N m /\ ~ In m done /\ m <> S) ->
  SKp N p S (ensure_min_children N d p mins) (rev mins ++ done).
Proof.
  intros N p S. induction mins as [|m r IH]; intros d done H Hnd Hall; [exact H|].
  unfold ensure_min_children; fold ensure_min_children.
  destruct (Hall m (or_introl eq_refl)) as (A1 & A2 & A3).
  pose proof (SKp_child N p S d done m H A1 A2 A3) as H1.
  destruct (ensure_node N d (Some p) m) as [d1 c]. simpl in H1.
  inversion Hnd as [|? ? Hnin Hnd']; subst.
  simpl. rewrite <- app_assoc. simpl. apply IH; [exact H1|exact Hnd'|].
  intros m0 Hin. destruct (Hall m0 (or_intror Hin)) as (B1 & B2 & B3).
  split; [exact B1|]. split; [|exact B3].
  intros [Heq|Hd]; [subst m0; exact (Hnin Hin)|exact (B2 Hd)].
Qed.

(* closing: p becomes an expanded skip node *)
Lemma SKp_close : forall N p S d done, SKp N p S d done ->
  (forall m, In m done -> min_trap N m) ->
  (forall M, min_trap N M -> subspace M S = true -> In M done) ->
  SkipSem N (upd_node (mark_expanded d p) p (fun y => set_skip y true)).
Proof.
  intros N p S d done (H1 & H2 & H3 & H4 & H5 & H6 & H7 & H8 & H9) Hmin Hall.
  remember (upd_node (mark_expanded d p) p (fun y => set_skip y true)) as d' eqn:Ed'.
  assert (Hsp : forall j, n_space (get d' j) = n_space (get d j)).
  { intro j. rewrite Ed'. unfold mark_expanded. rewrite !n_space_upd_flag by constructor. reflexivity. }
  assert (Hout : forall j, out_edges d' j = out_edges d j).
  { intro j. rewrite Ed'. unfold mark_expanded. rewrite !out_edges_upd_node. reflexivity. }
  assert (Hsz : size d' = size d).
  { rewrite Ed'. unfold mark_expanded. rewrite !size_upd_node. reflexivity. }
  intros i Hi Hsk. rewrite Hsz in Hi. rewrite successors_out, Hout, <- successors_out, Hsp.
  destruct (Nat.eq_dec i p) as [Heq|Hne].
  - subst i. split.
    { rewrite Ed'. rewrite get_upd_node_eq by (rewrite size_mark_expanded; exact H2).
      unfold mark_expanded. rewrite get_upd_node_eq by exact H2. reflexivity. }
    split.
    + intros e He. rewrite Hsp. destruct (H8 e He) as [A1 A2]. split; [exact A2|].
      apply Hmin. exact A1.
    + intros M HM Hsub. rewrite H3 in Hsub. destruct (H9 M (Hall M HM Hsub)) as (c & Hc & Hcs).
      exists c. rewrite Hsp. auto.
  - assert (Hg : get d' i = get d i).
    { rewrite Ed'. unfold mark_expanded. rewrite !get_upd_node_neq by (intro; apply Hne; auto).
      reflexivity. }
    rewrite Hg in Hsk |- *. destruct (H7 i Hi Hsk) as (A1 & A2 & A3).
    split; [exact A1|]. split.
    + intros e He. rewrite Hsp. apply A2. exact He.
    + intros M HM Hsub. destruct (A3 M HM Hsub) as (c & Hc & Hcs). exists c. rewrite Hsp. auto.
Qed.

(* ================================================================== *)
(* 4. make_skip_node and skip_to_minimal                               *)
(* ================================================================== *)

Lemma make_skip_node_SkipSem : forall N d i all_min,
  SWF N d -> NoStubEdges d -> SkipSem N d -> i < size d ->
  (forall m, In m all_min -> min_trap N m) -> NoDup all_min ->
  (n_exp (get d i) = false -> ~ In (n_space (get d i)) all_min) ->
  (n_exp (get d i) = false -> forall M, min_trap N M ->
     subspace M (n_space (get d i)) = true -> In M all_min) ->
  SkipSem N (make_skip_node N d i all_min).
Proof.
  intros N d i all_min Hswf Hnse Hsk Hi Hmin Hnd Hself Hall. unfold make_skip_node.
  destruct (n_exp (get d i)) eqn:Ex; [exact Hsk|].
  set (inside := filter (fun m => subspace m (n_space (get d i))) all_min).
  apply (SKp_close N i (n_space (get d i)) _ (rev inside ++ [])).
  - apply SKp_min_children.
    + apply SKp_start; assumption.
    + apply NoDup_filter. exact Hnd.
    + intros m Hin. apply filter_In in Hin. destruct Hin as [Hin Hsub].
      split; [apply Hmin; exact Hin|]. split; [intros []|].
      intro Heq. subst m. exact (Hself eq_refl Hin).
  - intros m Hin. rewrite app_nil_r in Hin. apply in_rev in Hin.
    apply filter_In in Hin. apply Hmin. apply Hin.
  - intros M HM Hsub. rewrite app_nil_r. apply -> in_rev.
    apply filter_In. split; [apply (Hall eq_refl M HM Hsub)|exact Hsub].
Qed.

Lemma QK_msn : forall N d s all_min, QK N d -> s < size d ->
  (forall m, In m all_min -> min_trap N m) -> NoDup all_min ->
  (n_exp (get d s) = false -> ~ In (n_space (get d s)) all_min) ->
  (n_exp (get d s) = false -> forall M, min_trap N M ->
     subspace M (n_space (get d s)) = true -> In M all_min) ->
  QK N (make_skip_node N d s all_min).
Proof.
  intros N d s all_min (Hswf & Hnse & Hes & Hsk) Hs Hmin Hnd Hself Hall.
  destruct (make_skip_node_NSE N d s all_min Hswf Hnse Hs Hmin) as [A1 A2].
  split; [exact A1|]. split; [exact A2|]. split.
  - apply (make_skip_node_ES N d s all_min); assumption.
  - apply make_skip_node_SkipSem; assumption.
Qed.

Lemma skip_to_minimal_SkipSem : forall N d i tape,
  SWF N d -> NoStubEdges d -> SkipSem N d -> i < size d ->
  SkipSem N (fst (skip_to_minimal_t N d i tape)).
Proof.
  intros N d i tape Hswf Hnse Hsk Hi. unfold skip_to_minimal_t.
  destruct (n_exp (get d i)) eqn:Ex; [exact Hsk|].
  destruct (negb (perm_of tape (min_traps_b N (n_space (get d i))))) eqn:Ep; [exact Hsk|].
  assert (HS : length (n_space (get d i)) = nvars N).
  { apply (swf_len N d Hswf). apply get_In. exact Hi. }
  pose proof (tape_iff N (n_space (get d i)) tape HS Ep) as Hiff.
  pose proof (tape_NoDup N _ tape Ep) as Hnd.
  assert (Hself : In (n_space (get d i)) tape -> tape = [n_space (get d i)]).
  { intro Hin. apply negb_false_iff in Ep. apply (min_traps_self N _ tape HS); [|exact Ep].
    eapply perm_of_In; eauto. }
  assert (Hcommon : ~ In (n_space (get d i)) tape ->
    SkipSem N (upd_node (mark_expanded (ensure_min_children N (upd_node d i clear_attr) i tape) i) i
                        (fun y => set_skip y true))).
  { intro Hnin. apply (SKp_close N i (n_space (get d i)) _ (rev tape ++ [])).
    - apply SKp_min_children; [apply SKp_start; assumption|exact Hnd|].
      intros m Hin. split; [apply Hiff; exact Hin|]. split; [intros []|].
      intro Heq. subst m. exact (Hnin Hin).
    - intros m Hin. rewrite app_nil_r in Hin. apply in_rev in Hin. apply Hiff. exact Hin.
    - intros M HM Hsub. rewrite app_nil_r. apply -> in_rev. apply Hiff. split; assumption. }
  destruct tape as [|m [|m2 r]]; simpl.
  - apply Hcommon. intros [].
  - destruct (eqb_space m (n_space (get d i))) eqn:Eeq; simpl.
    + unfold mark_expanded.
      apply SkipSem_upd; [apply upd_flag_SWF; [constructor|exact Hswf]|constructor|reflexivity|].
      apply SkipSem_upd; [exact Hswf|constructor|reflexivity|exact Hsk].
    + apply Hcommon. intros [Heq|[]]. subst m.
      rewrite (proj2 (eqb_space_spec _ _) eq_refl) in Eeq. discriminate Eeq.
  - apply Hcommon. intro Hin. apply Hself in Hin. discriminate Hin.
Qed.

Lemma QK_skip_to_minimal : forall N d i tape, QK N d -> i < size d ->
  QK N (fst (skip_to_minimal_t N d i tape)).
Proof.
  intros N d i tape (Hswf & Hnse & Hes & Hsk) Hi.
  destruct (skip_to_minimal_NSE N d i tape Hswf Hnse Hi) as [A1 A2].
  split; [exact A1|]. split; [exact A2|]. split.
  - apply (skip_to_minimal_ES N d i tape); assumption.
  - apply skip_to_minimal_SkipSem; assumption.
Qed.

(* ================================================================== *)
(* 5. skip_remaining                                                   *)
(* ================================================================== *)

Lemma QK_rootmark : forall N d m, QK N d -> min_trap N m ->
  QK N (mark_expanded (fst (ensure_node N d None m)) (snd (ensure_node N d None m))).
Proof.
  intros N d m (Hswf & Hnse & Hes & Hsk) Hmt.
  pose proof (min_trap_length N m Hmt) as Hm.
  destruct (ensure_root_spec N d m Hswf Hm) as (S1 & S2 & S3 & S4).
  pose proof (sd_edges_ensure_root N d m) as Hed.
  pose proof (ensure_node_old N d None m) as Hold.
  pose proof (ensure_node_new N d None m) as Hnew.
  destruct (ensure_node N d None m) as [d1 c]. simpl in S1, S2, S3, S4, Hed, Hold, Hnew |- *.
  assert (Hn1 : NoStubEdges d1).
  { intros e Hin. rewrite Hed in Hin.
    destruct S2 as (_ & _ & S5 & _). apply S5; [apply (swf_edges N d Hswf e Hin)|].
    apply Hnse. exact Hin. }
  assert (He1 : EdgeStrict d1).
  { intros e Hin. rewrite Hed in Hin.
    destruct (swf_edges N d Hswf e Hin) as (A1 & A2 & _).
    rewrite (extends_space _ _ _ S2 A1), (extends_space _ _ _ S2 A2). apply Hes. exact Hin. }
  assert (Hs1 : SkipSem N d1).
  { apply (SkipSem_frame N d); try assumption.
    - apply extends_size. exact S2.
    - intros j Hj. apply (Hold j Hj).
    - intros j Hj. apply (Hold j Hj).
    - intros j Hj He. destruct (Hold j Hj) as (_ & He2 & _). rewrite He2. exact He.
    - intros j _ _. apply out_edges_same_edges. exact Hed.
    - intros j Hle Hlt. apply (Hnew j Hle Hlt). }
  unfold mark_expanded.
  split; [apply upd_flag_SWF; [constructor|exact S1]|].
  split; [apply NoStubEdges_upd; [constructor|exact Hn1]|].
  split; [apply EdgeStrict_upd; [constructor|exact He1]|].
  apply SkipSem_upd; [exact S1|constructor|reflexivity|exact Hs1].
Qed.

Lemma SKp_skip_edges : forall N p S traps d done, SKp N p S d done ->
  traps_ok N d traps -> (forall c m, In (c, m) traps -> min_trap N m) ->
  NoDup (map snd traps) -> (forall c m, In (c, m) traps -> ~ In m done) ->
  exists done', SKp N p S (skip_edges d p traps) done' /\
    (forall x, In x done' <-> In x done \/ (exists c, In (c, x) traps) /\ subspace x S = true).
Proof.
  intros N p S. induction traps as [|[mid m] r IH]; intros d done H Hok Hmin Hnd Hnin; simpl.
  - exists done. split; [exact H|]. intro x. split; [auto|].
    intros [Hx|[[c []] _]]. exact Hx.
  - assert (Hokr : traps_ok N d r) by (intros c0 m0 Hin; apply Hok; right; exact Hin).
    assert (Hminr : forall c0 m0, In (c0, m0) r -> min_trap N m0)
      by (intros c0 m0 Hin; apply (Hmin c0); right; exact Hin).
    simpl in Hnd. inversion Hnd as [|? ? Hm_nin Hndr]; subst.
    pose proof H as (H1 & H2 & H3 & _).
    destruct (subspace m (n_space (get d p))) eqn:Es.
    + destruct (Hok mid m (or_introl eq_refl)) as (Hmid & Hm & Hp).
      pose proof (Hmin mid m (or_introl eq_refl)) as Hmt.
      rewrite (min_trap_percolate N m Hmt) in Hp.
      assert (HK : SKp N p S (ensure_edge d p mid m) (m :: done)).
      { apply (SKp_added N p S d _ mid m done H).
        - apply ensure_edge_SWF; try assumption.
          rewrite (min_trap_percolate N m Hmt). exact Hp.
        - rewrite size_ensure_edge. lia.
        - intros j _. apply get_ensure_edge.
        - intros j Hle Hlt. rewrite size_ensure_edge in Hlt. lia.
        - apply sd_edges_ensure_edge.
        - rewrite size_ensure_edge. exact Hmid.
        - rewrite n_space_ensure_edge. symmetry. exact Hp.
        - apply (Hnin mid m). left. reflexivity. }
      destruct (IH (ensure_edge d p mid m) (m :: done) HK) as (done' & HK' & Hiff).
      * eapply traps_ok_extends; [apply ensure_edge_extends|exact Hokr].
      * exact Hminr.
      * exact Hndr.
      * intros c0 m0 Hin [Heq|Hd].
        -- subst m0. apply Hm_nin. apply in_map_iff. exists (c0, m). auto.
        -- apply (Hnin c0 m0); [right; exact Hin|exact Hd].
      * exists done'. split; [exact HK'|]. intro x. rewrite Hiff. split.
        -- intros [[Heq|Hd]|[[c0 Hc0] Hs]].
           ++ subst x. right. split; [exists mid; left; reflexivity|]. rewrite <- H3. exact Es.
           ++ left. exact Hd.
           ++ right. split; [exists c0; right; exact Hc0|exact Hs].
        -- intros [Hd|[[c0 [Heq|Hc0]] Hs]].
           ++ left. right. exact Hd.
           ++ injection Heq as E1 E2. subst x. left. left. reflexivity.
           ++ right. split; [exists c0; exact Hc0|exact Hs].
    + destruct (IH d done H Hokr Hminr Hndr) as (done' & HK' & Hiff).
      * intros c0 m0 Hin. apply (Hnin c0 m0). right. exact Hin.
      * exists done'. split; [exact HK'|]. intro x. rewrite Hiff. split.
        -- intros [Hd|[[c0 Hc0] Hs]]; [left; exact Hd|].
           right. split; [exists c0; right; exact Hc0|exact Hs].
        -- intros [Hd|[[c0 [Heq|Hc0]] Hs]]; [left; exact Hd| |].
           ++ injection Heq as E1 E2. subst x. rewrite H3 in Es. congruence.
           ++ right. split; [exists c0; exact Hc0|exact Hs].
Qed.

Lemma QK_skip1 : forall N d i traps, QK N d -> i < size d -> n_exp (get d i) = false ->
  traps_ok N d traps -> traps_exp d traps ->
  (forall c m, In (c, m) traps -> min_trap N m) -> NoDup (map snd traps) ->
  (forall M, min_trap N M -> exists c, In (c, M) traps) ->
  QK N (upd_node (mark_expanded (skip_edges (upd_node d i clear_attr) i traps) i) i
                 (fun y => set_skip y true)).
Proof.
  intros N d i traps (Hswf & Hnse & Hes & Hsk) Hi Hex Hok Hte Hmin Hnd Hall.
  assert (Hok0 : traps_ok N (upd_node d i clear_attr) traps).
  { eapply traps_ok_extends; [|exact Hok]. apply upd_flag_extends. constructor. }
  assert (Hte0 : traps_exp (upd_node d i clear_attr) traps).
  { eapply traps_exp_extends; [|exact Hok|exact Hte]. apply upd_flag_extends. constructor. }
  assert (A : SWF N (upd_node (mark_expanded (skip_edges (upd_node d i clear_attr) i traps) i) i
                 (fun y => set_skip y true)) /\
              NoStubEdges (upd_node (mark_expanded (skip_edges (upd_node d i clear_attr) i traps) i) i
                 (fun y => set_skip y true))).
  { apply NSE_inv_close_skip.
    apply (C_skip_edges N i (NSE_inv N i)); try assumption.
    + intros d1 c m H0 Hc Hm Hpm _ _. apply NSE_inv_edge; assumption.
    + apply NSE_inv_start; assumption. }
  destruct A as [A1 A2]. split; [exact A1|]. split; [exact A2|]. split.
  - apply (ES_inv_close N i (n_space (get d i))).
    apply (C_skip_edges N i (ES_inv N i (n_space (get d i)))); try assumption.
    + intros d1 c m H0 Hc Hm Hpm Hce Hsub. apply ES_inv_edge; assumption.
    + apply ES_inv_start; assumption.
  - destruct (SKp_skip_edges N i (n_space (get d i)) traps (upd_node d i clear_attr) [])
      as (done' & HK & Hiff); try assumption.
    + apply SKp_start; assumption.
    + intros c m _ [].
    + apply (SKp_close N i (n_space (get d i)) _ done' HK).
      * intros m Hm. apply Hiff in Hm. destruct Hm as [[]|[[c Hc] _]]. apply (Hmin c m Hc).
      * intros M HM Hsub. apply Hiff. right. split; [apply Hall; exact HM|exact Hsub].
Qed.

Lemma QK_skip_all : forall N traps,
  (forall c m, In (c, m) traps -> min_trap N m) -> NoDup (map snd traps) ->
  (forall M, min_trap N M -> exists c, In (c, M) traps) ->
  forall ids d count,
  QK N d -> traps_ok N d traps -> traps_exp d traps -> (forall i, In i ids -> i < size d) ->
  QK N (fst (skip_all d ids traps count)).
Proof.
  intros N traps Hmin Hnd Hall. induction ids as [|i r IH]; intros d count Hq Hok Hex Hv; simpl;
    [exact Hq|].
  assert (Hr : forall j, In j r -> j < size d) by (intros j Hin; apply Hv; right; exact Hin).
  assert (Hi : i < size d) by (apply Hv; left; reflexivity).
  destruct (n_exp (get d i)) eqn:Ei; [apply IH; assumption|].
  pose proof (skip1_extends d i traps) as He.
  apply IH.
  - apply QK_skip1; assumption.
  - eapply traps_ok_extends; [exact He|exact Hok].
  - eapply traps_exp_extends; [exact He|exact Hok|exact Hex].
  - intros j Hin. eapply extends_lt; [exact He|apply Hr; exact Hin].
Qed.

Lemma ensure_roots_snd : forall N mins d acc,
  map snd (snd (ensure_roots N d mins acc)) = rev (map snd acc) ++ mins.
Proof.
  intros N. induction mins as [|m r IH]; intros d acc; simpl.
  - rewrite map_rev, app_nil_r. reflexivity.
  - destruct (ensure_node N d None m) as [d1 c]. rewrite IH. simpl.
    rewrite <- app_assoc. reflexivity.
Qed.

Lemma QK_skip_remaining : forall N d tape, QK N d ->
  n_space (get d 0) = percolate_b N (top_space (nvars N)) ->
  QK N (fst (skip_remaining N d tape)).
Proof.
  intros N d tape Hq Hroot. unfold skip_remaining.
  destruct (negb (perm_of tape (min_traps_b N (n_space (get d 0))))) eqn:Ep; [exact Hq|].
  pose proof (QK_swf N d Hq) as Hswf.
  assert (HS : length (n_space (get d 0)) = nvars N).
  { apply (swf_len N d Hswf). apply get_In. apply (swf_size N d Hswf). }
  assert (Hmin : forall m, In m tape -> min_trap N m).
  { intros m Hin. eapply (tape_min_traps N (n_space (get d 0)) tape); [exact HS|exact Ep|exact Hin]. }
  pose proof (tape_NoDup N _ tape Ep) as Hnd.
  assert (Hnil1 : traps_ok N d []) by (intros c m []).
  assert (Hnil2 : traps_exp d []) by (intros c m []).
  destruct (S_ensure_roots N (QK N) (QK_swf N) (QK_rootmark N) tape d [] Hq Hmin Hnil1 Hnil2)
    as (Hq1 & Hok1 & Hex1).
  pose proof (ensure_roots_complete N tape d []) as Hcomp.
  pose proof (ensure_roots_snd N tape d []) as Hsnd.
  destruct (ensure_roots N d tape []) as [d1 traps]. simpl in Hq1, Hok1, Hex1, Hcomp, Hsnd.
  assert (Hall : forall M, min_trap N M -> exists c, In (c, M) traps).
  { intros M HM. apply Hcomp. left. apply negb_false_iff in Ep.
    eapply root_tape_all; eassumption. }
  assert (Hmin1 : forall c m, In (c, m) traps -> min_trap N m).
  { intros c m Hin. apply Hmin. rewrite <- Hsnd. apply in_map_iff. exists (c, m). auto. }
  assert (Hnd1 : NoDup (map snd traps)) by (rewrite Hsnd; exact Hnd).
  assert (Hv : forall i, In i (seq 0 (size d1)) -> i < size d1).
  { intros i Hin. apply in_seq in Hin. lia. }
  pose proof (QK_skip_all N traps Hmin1 Hnd1 Hall (seq 0 (size d1)) d1 0 Hq1 Hok1 Hex1 Hv) as Hq2.
  destruct (skip_all d1 (seq 0 (size d1)) traps 0) as [d2 k]. exact Hq2.
Qed.

(* ================================================================== *)
(* 6. the minimal-space expansion with skip nodes                      *)
(* ================================================================== *)

Section MinLoopSkip.
  Variable N : net.
  Variable cfg : config.
  Variable S : space.
  Variable all_min : list space.
  (* the tape: exactly the minimal trap spaces inside the space S of the start node, each once *)
  Hypothesis Hall : forall m, In m all_min <-> min_trap N m /\ subspace m S = true.
  Hypothesis Hnd : NoDup all_min.

  Lemma K_min_inner : forall remaining skip seen x succ d ns,
    QK N d -> x < size d -> ns = n_space (get d x) -> subspace ns S = true ->
    rem_inv all_min d remaining -> (forall s, In s succ -> has_edge d x s = true) ->
    QK N (fst (min_inner N d seen remaining all_min ns skip succ)).
  Proof.
    intros remaining skip seen x.
    induction succ as [|s r IH]; intros d ns Hq Hx Hns HnsS Hrem Hv; simpl; [exact Hq|].
    assert (Hr : forall s0, In s0 r -> has_edge d x s0 = true)
      by (intros s0 Hin; apply Hv; right; exact Hin).
    destruct (mem_nat s seen); [apply IH; assumption|].
    destruct (negb (existsb (fun m => subspace m ns) remaining)) eqn:Eex; [|exact Hq].
    destruct skip eqn:Esk; [|apply IH; assumption].
    pose proof (make_skip_node_extends N d s all_min) as He.
    assert (Hed : has_edge d x s = true) by (apply Hv; left; reflexivity).
    assert (Hnone : forall m, In m remaining -> subspace m (n_space (get d x)) = false).
    { intros m Hin. apply negb_true_iff in Eex.
      destruct (subspace m (n_space (get d x))) eqn:Es; [|reflexivity].
      assert (Hex : existsb (fun m0 => subspace m0 ns) remaining = true).
      { apply existsb_exists. exists m. split; [exact Hin|]. rewrite Hns. exact Es. }
      congruence. }
    destruct Hq as (Hswf & Hnse & Hes & Hsk).
    destruct (has_edge_valid N d x s Hswf Hed) as [_ Hs].
    pose proof (edge_sub d x s Hes Hed) as Hsx.
    apply IH.
    - apply QK_msn; [exact (conj Hswf (conj Hnse (conj Hes Hsk)))|exact Hs| |exact Hnd| |].
      + intros m Hin. apply Hall. exact Hin.
      + intros Hex Hin. destruct (Hrem _ Hin) as [Hrm|(j & Hj & Hsp & Hje)].
        * rewrite (Hnone _ Hrm) in Hsx. discriminate Hsx.
        * apply (spaces_inj N d j s Hswf Hj Hs) in Hsp. subst j. congruence.
      + intros _ M HM Hsub. apply Hall. split; [exact HM|].
        eapply subspace_trans; [exact Hsub|]. eapply subspace_trans; [exact Hsx|].
        rewrite <- Hns. exact HnsS.
    - eapply extends_lt; [exact He|exact Hx].
    - rewrite (extends_space d _ x He Hx). exact Hns.
    - exact HnsS.
    - eapply rem_inv_extends; [exact He|exact Hrem].
    - intros s0 Hin. eapply has_edge_extends; [exact He|apply Hr; exact Hin].
  Qed.

  Lemma K_min_loop : forall sl skip fuel d seen remaining stack,
    QK N d -> stack_inv d stack -> stack_sub S d stack -> rem_inv all_min d remaining ->
    QK N (fst (min_loop fuel N cfg sl skip all_min d seen remaining stack)).
  Proof.
    intros sl skip fuel.
    induction fuel as [|f IH]; intros d seen remaining stack Hq Hst Hsb Hrem; simpl; [exact Hq|].
    destruct stack as [|[x osucc] stack'].
    { destruct (Nat.eqb (length remaining) 0); exact Hq. }
    assert (Hst' : stack_inv d stack').
    { intros x0 o0 Hin. apply Hst. right. exact Hin. }
    assert (Hsb' : stack_sub S d stack').
    { intros x0 o0 Hin. apply (Hsb x0 o0). right. exact Hin. }
    destruct (Hst x osucc (or_introl eq_refl)) as [Hx Hxl].
    pose proof (Hsb x osucc (or_introl eq_refl)) as HxS.
    assert (Htail : forall d1 succ, QK N d1 -> extends d d1 ->
              (forall s, In s succ -> has_edge d1 x s = true) ->
              QK N (fst (let '(d2, succ2) :=
                        min_inner N d1 seen remaining all_min (n_space (get d1 x)) skip succ in
                      match succ2 with
                      | [] =>
                          if is_minimal d2 x
                          then match remove_space (n_space (get d2 x)) remaining with
                               | Some rem' => min_loop f N cfg sl skip all_min d2 seen rem' stack'
                               | None => (d2, RRaised ErrAssert)
                               end
                          else min_loop f N cfg sl skip all_min d2 seen remaining stack'
                      | s :: rest =>
                          min_loop f N cfg sl skip all_min d2 (s :: seen) remaining
                                   ((s, None) :: (x, Some rest) :: stack')
                      end))).
    { intros d1 succ Hq1 He1 Hv1.
      assert (Hx1 : x < size d1) by (eapply extends_lt; eauto).
      assert (Hrem1 : rem_inv all_min d1 remaining) by (eapply rem_inv_extends; eauto).
      assert (HxS1 : subspace (n_space (get d1 x)) S = true).
      { rewrite (extends_space d d1 x He1 Hx). exact HxS. }
      pose proof (K_min_inner remaining skip seen x succ d1 (n_space (get d1 x))
                    Hq1 Hx1 eq_refl HxS1 Hrem1 Hv1) as Hq2.
      pose proof (min_inner_extends N all_min remaining (n_space (get d1 x)) skip seen succ d1)
        as He2.
      pose proof (min_inner_incl N all_min remaining (n_space (get d1 x)) skip seen succ d1)
        as Hi2.
      destruct (min_inner N d1 seen remaining all_min (n_space (get d1 x)) skip succ)
        as [d2 succ2].
      simpl in Hq2, He2, Hi2.
      assert (He02 : extends d d2) by (eapply extends_trans; eassumption).
      assert (Hst2 : stack_inv d2 stack') by (eapply stack_inv_extends; eassumption).
      assert (Hsb2 : stack_sub S d2 stack') by (eapply stack_sub_extends; eassumption).
      assert (Hrem2 : rem_inv all_min d2 remaining) by (eapply rem_inv_extends; eassumption).
      assert (Hx2 : x < size d2) by (eapply extends_lt; eauto).
      assert (HxS2 : subspace (n_space (get d2 x)) S = true).
      { rewrite (extends_space d d2 x He02 Hx). exact HxS. }
      destruct succ2 as [|s rest].
      - destruct (is_minimal d2 x) eqn:Emin; [|apply IH; assumption].
        destruct (remove_space (n_space (get d2 x)) remaining) as [rem'|] eqn:Erem;
          [|exact Hq2].
        apply IH; [exact Hq2|exact Hst2|exact Hsb2|].
        intros m Hin. destruct (Hrem2 m Hin) as [Hm|Hw]; [|right; exact Hw].
        destruct (eqb_space m (n_space (get d2 x))) eqn:Eeq.
        + right. apply eqb_space_spec in Eeq. exists x. split; [exact Hx2|]. split; [auto|].
          apply is_minimal_iff in Emin. apply Emin.
        + left. eapply remove_space_keeps; [exact Erem|exact Hm|].
          intro Heq. subst m.
          rewrite (proj2 (eqb_space_spec _ _) eq_refl) in Eeq. discriminate Eeq.
      - assert (Hs2 : forall s0, In s0 (s :: rest) -> has_edge d2 x s0 = true).
        { intros s0 Hin. eapply has_edge_extends; [exact He2|]. apply Hv1. apply Hi2. exact Hin. }
        apply IH; [exact Hq2| | |exact Hrem2].
        + intros x0 o0 [Heq|[Heq|Hin]].
          * injection Heq as Hxx Hoo. subst x0 o0. split.
            -- apply (has_edge_valid N d2 x s (QK_swf N d2 Hq2)). apply Hs2. left. reflexivity.
            -- intros l s0 Hl. discriminate Hl.
          * injection Heq as Hxx Hoo. subst x0 o0. split; [exact Hx2|].
            intros l s0 Hl Hs0. injection Hl as Hl. subst l. apply Hs2. right. exact Hs0.
          * apply Hst2. exact Hin.
        + intros x0 o0 [Heq|[Heq|Hin]].
          * injection Heq as Hxx Hoo. subst x0 o0.
            eapply subspace_trans; [|exact HxS2].
            apply edge_sub; [apply Hq2|]. apply Hs2. left. reflexivity.
          * injection Heq as Hxx Hoo. subst x0 o0. exact HxS2.
          * apply (Hsb2 x0 o0). exact Hin. }
    destruct osucc as [l|]; simpl.
    - apply Htail; [exact Hq|apply extends_refl|].
      intros s Hs. eapply Hxl; [reflexivity|exact Hs].
    - destruct (over_limit sl d && negb (n_exp (get d x))); [simpl; exact Hq|].
      assert (Hq1 : QK N (fst (fst (node_successors N cfg d x)))).
      { rewrite node_successors_fst. apply QK_expand; assumption. }
      pose proof (node_successors_extends N cfg d x) as He1.
      pose proof (node_successors_succ N cfg d x) as Hs1.
      destruct (node_successors N cfg d x) as [[d1 r] succ]. simpl in Hq1, He1, Hs1.
      destruct r; simpl; try exact Hq1.
      apply Htail; [exact Hq1|exact He1|].
      intros s Hs. apply sort_nat_In in Hs. apply successors_has_edge. apply Hs1. exact Hs.
  Qed.
End MinLoopSkip.

Lemma expand_min_QK : forall fuel N cfg d start sl skip tape,
  QK N d -> valid_start d start = true ->
  QK N (fst (expand_min fuel N cfg d start sl skip tape)).
Proof.
  intros fuel N cfg d start sl skip tape Hq Hv. unfold expand_min.
  pose proof (QK_swf N d Hq) as Hswf.
  assert (Hs : match start with Some s => s | None => 0 end < size d).
  { destruct start as [s|]; simpl in Hv |- *; [apply Nat.ltb_lt; exact Hv|apply (swf_size N d Hswf)]. }
  set (s0 := match start with Some s => s | None => 0 end) in *.
  destruct (negb (perm_of tape (min_traps_b N (n_space (get d s0))))) eqn:Ep; [exact Hq|].
  assert (HS : length (n_space (get d s0)) = nvars N).
  { apply (swf_len N d Hswf). apply get_In. exact Hs. }
  apply (K_min_loop N cfg (n_space (get d s0)) tape).
  - apply tape_iff; assumption.
  - eapply tape_NoDup. exact Ep.
  - exact Hq.
  - intros x o [Heq|[]]. injection Heq as Hx Ho. subst x o. split; [exact Hs|].
    intros l s1 Hl. discriminate Hl.
  - intros x o [Heq|[]]. injection Heq as Hx Ho. subst x o. apply subspace_refl.
  - intros m Hin. left. exact Hin.
Qed.

(* ================================================================== *)
(* 7. every operation                                                  *)
(* ================================================================== *)

Definition QKR (N : net) (d : sd) : Prop :=
  QK N d /\ n_space (get d 0) = percolate_b N (top_space (nvars N)).

Lemma QKR_step : forall fuel N cfg d o, QKR N d -> QKR N (fst (step fuel N cfg d o)).
Proof.
  intros fuel N cfg d o [Hq Hroot].
  split; [|rewrite (root_stable fuel N cfg d o (QK_swf N d Hq)); exact Hroot].
  assert (Hgen : forall o0, op_ok N (QKR N) o0 -> QK N (fst (step fuel N cfg d o0))).
  { intros o0 Hok.
    apply (B_step_op N cfg (QKR N)); [| | | |exact Hok|split; assumption].
    - intros d0 [H0 _]. apply QK_swf. exact H0.
    - intros d0 i [H0 R0]. split; [apply QK_expand; assumption|].
      pose proof (QK_swf N d0 H0) as Hs0.
      rewrite (extends_space d0 _ 0 (expand_one_extends N cfg d0 i) (swf_size N d0 Hs0)). exact R0.
    - intros d0 i f [H0 R0] _ Hf. split.
      + apply QK_upd_neutral; [apply cache_setter_flag; exact Hf| |exact H0].
        intro x. apply cache_setter_skip. exact Hf.
      + rewrite n_space_upd_flag by (apply cache_setter_flag; exact Hf). exact R0.
    - intros d0 [H0 R0]. split; [apply QK_reclaim; exact H0|].
      rewrite get_reclaim. destruct (n_seeds (get d0 0)); exact R0. }
  destruct o; try (apply Hgen; exact I).
  - (* OMin *)
    unfold step. destruct (valid_start d start) eqn:Ev; [|exact Hq].
    apply expand_min_QK; assumption.
  - (* OSkipToMin *)
    apply Hgen. intros d0 [H0 R0] Hi. split; [apply QK_skip_to_minimal; assumption|].
    pose proof (QK_swf N d0 H0) as Hs0.
    pose proof (root_stable 0 N cfg d0 (OSkipToMin i tape) Hs0) as Hr. unfold step in Hr.
    rewrite (proj2 (Nat.ltb_lt _ _) Hi) in Hr. rewrite Hr. exact R0.
  - (* OSkipRemaining *)
    apply Hgen. intros d0 [H0 R0]. split; [apply QK_skip_remaining; assumption|].
    pose proof (QK_swf N d0 H0) as Hs0.
    pose proof (root_stable 0 N cfg d0 (OSkipRemaining tape) Hs0) as Hr. unfold step in Hr.
    rewrite Hr. exact R0.
Qed.

(* ================================================================== *)
(* 8. the theorems                                                     *)
(* ================================================================== *)

Theorem init_AnyInv : forall N, AnyInv N (init N).
Proof.
  intro N. split; [apply init_SWF|]. split; [apply init_TrapNodes|].
  split; [apply init_EdgeStrict|]. split; [apply init_NoStubEdges|].
  split; [apply init_Faithful|]. split; [|apply init_root].
  intros i Hi Hsk. rewrite (init_NoSkips N i Hi) in Hsk. discriminate Hsk.
Qed.

Theorem step_SkipSem : forall fuel N cfg d o, 1 <= max_motifs cfg ->
  AnyInv N d -> SkipSem N (fst (step fuel N cfg d o)).
Proof.
  intros fuel N cfg d o _ (Hswf & Htn & Hes & Hnse & Hf & Hsk & Hroot).
  assert (Hq : QKR N d) by (split; [split; [|split; [|split]]|]; assumption).
  destruct (QKR_step fuel N cfg d o Hq) as [(_ & _ & _ & H) _]. exact H.
Qed.

Theorem step_AnyInv : forall fuel N cfg d o, 1 <= max_motifs cfg ->
  AnyInv N d -> AnyInv N (fst (step fuel N cfg d o)).
Proof.
  intros fuel N cfg d o Hmm Hinv.
  pose proof (step_SkipSem fuel N cfg d o Hmm Hinv) as Hsk'.
  destruct Hinv as (Hswf & Htn & Hes & Hnse & Hf & Hsk & Hroot).
  split; [apply step_SWF; exact Hswf|]. split; [apply step_TrapNodes; assumption|].
  split; [apply step_EdgeStrict; assumption|]. split; [apply step_NoStubEdges; assumption|].
  split; [apply step_Faithful_all; assumption|]. split; [exact Hsk'|].
  rewrite (root_stable fuel N cfg d o Hswf). exact Hroot.
Qed.

Lemma run_AnyInv_from : forall fuel N cfg h d0 d r, 1 <= max_motifs cfg ->
  AnyInv N d0 -> In (d, r) (run fuel N cfg d0 h) -> AnyInv N d.
Proof.
  intros fuel N cfg h. induction h as [|o h IH]; intros d0 d r Hmm H0 Hin; simpl in Hin;
    [contradiction|].
  pose proof (step_AnyInv fuel N cfg d0 o Hmm H0) as H1.
  destruct (step fuel N cfg d0 o) as [d1 x]. simpl in H1.
  destruct Hin as [Heq|Hin].
  - injection Heq as Hd Hr. subst d. exact H1.
  - eapply IH; eauto.
Qed.

Theorem run_AnyInv : forall fuel N cfg h d r, 1 <= max_motifs cfg ->
  In (d, r) (run fuel N cfg (init N) h) -> AnyInv N d.
Proof.
  intros fuel N cfg h d r Hmm Hin.
  apply (run_AnyInv_from fuel N cfg h (init N) d r Hmm (init_AnyInv N) Hin).
Qed.

(* consequences used by the control theorems: below an expanded node every minimal trap space is the node itself or
   lies in a successor, whether the node is ordinary or a skip node *)
Theorem expanded_min_descends : forall N d i M, AnyInv N d -> i < size d -> n_exp (get d i) = true ->
  min_trap N M -> subspace M (n_space (get d i)) = true ->
  n_space (get d i) = M \/ exists c, In c (successors d i) /\ subspace M (n_space (get d c)) = true.
Proof.
  intros N d i M (Hswf & Htn & Hes & Hnse & Hf & Hsk & Hroot) Hi Hexp HM Hsub.
  destruct (n_skip (get d i)) eqn:Es.
  - right. destruct (Hsk i Hi Es) as (_ & _ & H3). destruct (H3 M HM Hsub) as (c & Hc & Hcs).
    exists c. split; [exact Hc|]. rewrite Hcs. apply subspace_refl.
  - destruct (eqb_space (n_space (get d i)) M) eqn:Eq; [left; apply eqb_space_spec; exact Eq|right].
    assert (Hstrict : strict_subspace M (n_space (get d i))).
    { split; [exact Hsub|]. intro Heq. rewrite Heq in Eq.
      rewrite (proj2 (eqb_space_spec _ _) eq_refl) in Eq. discriminate Eq. }
    assert (HlS : length (n_space (get d i)) = nvars N).
    { apply (swf_len N d Hswf). apply get_In. exact Hi. }
    destruct (closed_trap_below_child N (n_space (get d i)) M (node_srcs N i)
                (TrapNodes_get N d i Htn Hi) HlS (proj1 HM)
                (min_trap_closed N M HM) Hstrict (min_trap_fixes_node_srcs N M i HM))
      as (M' & HM' & HsubM).
    pose proof (Hf i Hi Hexp Es) as Hcan. unfold canonical in Hcan.
    apply (Permutation_in _ (Permutation_sym Hcan)) in HM'.
    unfold out_motifs in HM'. apply in_flat_map in HM'. destruct HM' as (e & Hin & Hm).
    pose proof (out_edges_sd d i e Hin) as Hine.
    destruct (swf_motif N d Hswf e M' Hine Hm) as [_ Hp].
    exists (e_dst e). split.
    + rewrite successors_out. apply in_map. exact Hin.
    + rewrite <- Hp. exact HsubM.
Qed.

Print Assumptions init_AnyInv.
Print Assumptions step_SkipSem.
Print Assumptions step_AnyInv.
Print Assumptions run_AnyInv.
Print Assumptions expanded_min_descends.
