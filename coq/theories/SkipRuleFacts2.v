(* SkipRuleFacts2.v -- the positive half of C05 on the model of the exclusion rule: attractors inside minimal trap
   spaces are never lost -- a leaf of the diagram (an expanded ordinary node without successors) has an empty avoid
   list, so the ideal engine reports every attractor inside it, whatever was computed before.  Hence on a diagram
   whose leaves are all the minimal trap spaces (what skip_remaining guarantees:
   MinExpandFacts.skip_remaining_exact) a network WITHOUT motif-avoidant attractors loses nothing; the loss of
   C05_refuted needs a motif-avoidant attractor. *)
From Coq Require Import List Bool Arith NArith Lia.
Import ListNotations.
From BB Require Import BN Brute SpaceFacts AttractorFacts FilterFacts Diagram Invariants MinExpandFacts SkipRule SkipRuleFacts.

(* ---------------- bookkeeping of query_order ---------------- *)

(* after querying node i its cache entry is the engine's answer at that moment, and it is never overwritten *)
Theorem query_order_keeps : forall attrs d order c i l, nth i c None = Some l ->
  nth i (query_order attrs d c order) None = Some l.
Proof.
  intros attrs d order. induction order as [|j r IH]; intros c i l Hi; simpl.
  - exact Hi.
  - destruct (nth j c None) as [lj|] eqn:Ej.
    + apply IH. exact Hi.
    + apply IH. rewrite nth_set_nth_neq; [exact Hi|].
      intro Heq. subst j. rewrite Hi in Ej. discriminate Ej.
Qed.

Theorem query_order_length : forall attrs d order c, length (query_order attrs d c order) = length c.
Proof.
  intros attrs d order. induction order as [|j r IH]; intros c; simpl.
  - reflexivity.
  - destruct (nth j c None) as [lj|] eqn:Ej.
    + apply IH.
    + rewrite IH. apply set_nth_length.
Qed.

(* the sharper form: either the entry was already there and is returned as is, or it is the engine's answer for
   some intermediate cache *)
Lemma query_order_answers_strong : forall attrs d order c i, In i order -> i < length c ->
  (exists c', nth i (query_order attrs d c order) None = Some (ideal_seeds attrs d c' i)) \/
  (exists l, nth i c None = Some l /\ nth i (query_order attrs d c order) None = Some l).
Proof.
  intros attrs d order. induction order as [|j r IH]; intros c i Hin Hlt.
  - destruct Hin.
  - simpl. destruct (Nat.eq_dec i j) as [Heq|Hne].
    + subst j. destruct (nth i c None) as [li|] eqn:Ei.
      * right. exists li. split; [reflexivity|]. apply query_order_keeps. exact Ei.
      * left. exists c. apply query_order_keeps. apply nth_set_nth_eq. exact Hlt.
    + assert (Hinr : In i r).
      { destruct Hin as [Hj|Hr]; [exfalso; apply Hne; symmetry; exact Hj|exact Hr]. }
      destruct (nth j c None) as [lj|] eqn:Ej.
      * apply IH; assumption.
      * destruct (IH (set_nth j (Some (ideal_seeds attrs d c j)) c) i Hinr) as [Hl|Hr].
        { rewrite set_nth_length. exact Hlt. }
        { left. exact Hl. }
        { right. destruct Hr as (l & Hl1 & Hl2). exists l. split; [|exact Hl2].
          rewrite nth_set_nth_neq in Hl1; [exact Hl1|]. intro Heq. apply Hne. symmetry. exact Heq. }
Qed.

Theorem query_order_answers : forall attrs d order c i, In i order -> i < length c ->
  exists c', nth i (query_order attrs d c order) None = Some (ideal_seeds attrs d c' i) \/
             (exists l, nth i c None = Some l /\ nth i (query_order attrs d c order) None = Some l).
Proof.
  intros attrs d order c i Hin Hlt.
  destruct (query_order_answers_strong attrs d order c i Hin Hlt) as [(c' & Hc')|Hr].
  - exists c'. left. exact Hc'.
  - exists c. right. exact Hr.
Qed.

(* ---------------- seeds_everywhere ---------------- *)

Lemma nth_repeat_None : forall (A : Type) n i, nth i (repeat (@None A) n) None = None.
Proof.
  intros A n. induction n as [|n IH]; intros [|i]; simpl; try reflexivity. apply IH.
Qed.

Lemma seeds_everywhere_length : forall N d, length (seeds_everywhere N d) = size d.
Proof.
  intros N d. unfold seeds_everywhere. rewrite query_order_length. apply repeat_length.
Qed.

(* every node of the diagram is queried exactly once, with the engine's answer for some intermediate cache *)
Lemma seeds_everywhere_entry : forall N d i, i < size d ->
  exists c', nth i (seeds_everywhere N d) None = Some (ideal_seeds (attractors_b N) d c' i).
Proof.
  intros N d i Hi. unfold seeds_everywhere.
  destruct (query_order_answers_strong (attractors_b N) d (seq 0 (size d)) (repeat None (size d)) i)
    as [Hl|(l & Hl1 & _)].
  - apply in_seq. lia.
  - rewrite repeat_length. exact Hi.
  - exact Hl.
  - rewrite nth_repeat_None in Hl1. discriminate Hl1.
Qed.

(* ---------------- leaves ---------------- *)

(* a leaf that is not a skip node avoids nothing, whatever the cache *)
Lemma leaf_avoid_nil : forall d c i, is_minimal d i = true -> n_skip (get d i) = false -> avoid_of d c i = [].
Proof.
  intros d c i Hmin Hskip. apply is_minimal_iff in Hmin. destruct Hmin as [Hout Hexp].
  unfold avoid_of. rewrite Hexp, Hskip. unfold out_motifs. rewrite Hout. reflexivity.
Qed.

Lemma eqb_state_refl' : forall s, eqb_state s s = true.
Proof. intros s. apply eqb_state_spec. reflexivity. Qed.

Lemma mem_state_hd : forall L : list state, L <> [] -> mem_state (hd [] L) L = true.
Proof.
  intros L HL. destruct L as [|s r]; [exfalso; apply HL; reflexivity|].
  unfold mem_state. simpl. rewrite eqb_state_refl'. reflexivity.
Qed.

Lemma leaf_seeds_all : forall attrs d c i L, is_minimal d i = true -> n_skip (get d i) = false ->
  In L attrs -> inside_b L (n_space (get d i)) = true -> In (hd [] L) (ideal_seeds attrs d c i).
Proof.
  intros attrs d c i L Hmin Hskip HL Hin. unfold ideal_seeds.
  rewrite (leaf_avoid_nil d c i Hmin Hskip).
  apply in_map_iff. exists L. split; [reflexivity|].
  unfold node_attractors_of. apply filter_In. split; [exact HL|].
  rewrite Hin. reflexivity.
Qed.

(* a leaf reports every attractor inside its space *)
Theorem leaf_attractors_represented : forall N d i L, i < size d ->
  is_minimal d i = true -> n_skip (get d i) = false ->
  In L (attractors_b N) -> L <> [] -> inside_b L (n_space (get d i)) = true ->
  represented (seeds_everywhere N d) L = true.
Proof.
  intros N d i L Hi Hmin Hskip HL Hne Hin.
  destruct (seeds_everywhere_entry N d i Hi) as (c' & Hc').
  unfold represented. apply existsb_exists.
  exists (Some (ideal_seeds (attractors_b N) d c' i)). split.
  - rewrite <- Hc'. apply nth_In. rewrite seeds_everywhere_length. exact Hi.
  - apply existsb_exists. exists (hd [] L). split.
    + apply leaf_seeds_all; assumption.
    + apply mem_state_hd. exact Hne.
Qed.

Lemma filter_nil_all : forall (A : Type) (f : A -> bool) l, (forall x, In x l -> f x = false) -> filter f l = [].
Proof.
  intros A f l. induction l as [|a r IH]; intros H; simpl; [reflexivity|].
  rewrite (H a) by (left; reflexivity). apply IH. intros x Hx. apply H. right. exact Hx.
Qed.

(* no motif-avoidant attractor => nothing is lost *)
Theorem no_maa_nothing_lost : forall N d,
  MinFound N d -> (forall i, i < size d -> is_minimal d i = true -> n_skip (get d i) = false) ->
  (forall L, In L (attractors_b N) -> L <> [] /\ exists M, min_trap N M /\ inside_b L M = true) ->
  lost (attractors_b N) (seeds_everywhere N d) = [].
Proof.
  intros N d Hfound Hns Hall. unfold lost. apply filter_nil_all. intros L HL.
  destruct (Hall L HL) as (Hne & M & HM & Hin).
  destruct (Hfound M HM) as (i & Hi & Hmin & Hsp).
  apply negb_false_iff.
  apply (leaf_attractors_represented N d i L Hi Hmin (Hns i Hi Hmin) HL Hne).
  rewrite Hsp. exact Hin.
Qed.

Print Assumptions query_order_keeps.
Print Assumptions query_order_length.
Print Assumptions query_order_answers.
Print Assumptions leaf_attractors_represented.
Print Assumptions no_maa_nothing_lost.
