(* BlockComplete2.v
   After the repair of defect D18 block expansion continues below nodes that were expanded before the call, so its
   completeness no longer needs a fresh diagram: from ANY diagram reached by plain operations (PlainInv: in particular after
   an earlier, size-limited block expansion without source shortcuts, or after BFS / DFS / single expansions) a run
   reporting completion finds every minimal trap space, and with motif-avoidance checks on and an honest is_clean tape
   every attractor has an expanded owner.  This is also the resumption clause of C15 for block expansion. *)
From Coq Require Import List Bool Arith NArith Lia Permutation.
Import ListNotations.
From BB Require Import BN Brute SpaceFacts TrapFacts PercolateFacts AttractorFacts Filter FilterFacts Diagram Invariants
  DiagramStruct DiagramSem1 DiagramCache DiagramComplete DiagramDepth Termination MinExpandFacts Blocks BlocksFacts
  OwnerFacts PartialOwner BlockMath BlockComplete ASeedsFacts.

Local Arguments percolate_b : simpl never.
Local Arguments expand_one : simpl never.
Local Arguments node_successors : simpl never.
Local Arguments ensure_node : simpl never.
Local Arguments ensure_edge : simpl never.
Local Arguments raise_depth : simpl never.
Local Arguments max_traps_b : simpl never.
Local Arguments min_traps_b : simpl never.
Local Arguments upd_node : simpl never.
Local Arguments sources_in_b : simpl never.
Local Arguments source_valuations : simpl never.
Local Arguments ensure_children : simpl never.
Local Arguments ensure_all : simpl never.
Local Arguments set_empty_seeds : simpl never.
Local Arguments clear_cands : simpl never.
Local Arguments group_blocks : simpl never.
Local Arguments minimal_blocks : simpl never.
Local Arguments sort_blocks : simpl never.
Local Arguments first_clean : simpl never.
Local Arguments first_clean_log : simpl never.
Local Arguments union_nat : simpl never.
Local Arguments sort_nat : simpl never.
Local Arguments over_limit : simpl never.
Local Arguments Nat.pow : simpl never.
Local Arguments Nat.ltb : simpl never.
Local Arguments ff_motifs : simpl never.
Local Arguments block_of : simpl never.
Local Arguments first_motif : simpl never.

(* ====================================================================== *)
(* PART 1 -- the invariant, indexed by the nodes the call has dealt with   *)
(* ====================================================================== *)

(* V: the `visited` list of the run, P: the pending nodes (rest of the level ++ next level).
   Every visited node is expanded and settles everything inside it locally, up to successors that are visited or
   pending; every expanded node the call has not met yet is still canonical (it was expanded by a plain operation). *)
Definition VInv (N : net) (maa : bool) (d : sd) (V P : list nat) : Prop :=
  SWF N d /\ TrapNodes N d /\ NoStubEdges d /\ ids_ok d P /\ ids_ok d V /\
  (forall v, In v V -> n_exp (get d v) = true) /\
  In 0 (V ++ P) /\
  (forall y, y < size d -> n_exp (get d y) = true -> ~ In y V -> canonical N d y) /\
  (forall y, In y V -> min_local N d y (V ++ P)) /\
  (maa = true -> forall y, In y V -> attr_local N d y (V ++ P)).

Lemma VInv_mono : forall N maa d V P P', (forall c, In c P -> In c P') -> ids_ok d P' ->
  VInv N maa d V P -> VInv N maa d V P'.
Proof.
  intros N maa d V P P' Hsub Hids (H1 & H2 & H3 & H4 & H5 & H6 & H7 & H8 & H9 & H10).
  assert (Happ : forall c, In c (V ++ P) -> In c (V ++ P')).
  { intros c Hc. apply in_app_or in Hc. apply in_or_app. destruct Hc as [Hc|Hc]; [left; exact Hc|right; apply Hsub; exact Hc]. }
  split; [exact H1|]. split; [exact H2|]. split; [exact H3|]. split; [exact Hids|]. split; [exact H5|].
  split; [exact H6|]. split; [apply Happ; exact H7|]. split; [exact H8|].
  split.
  - intros y Hy. apply (min_local_mono N d y (V ++ P)); [exact Happ|apply H9; exact Hy].
  - intros Hm y Hy. apply (attr_local_mono N d y (V ++ P)); [exact Happ|apply H10; assumption].
Qed.

Lemma VInv_ext : forall N maa d V P P', (forall c, In c P <-> In c P') -> VInv N maa d V P -> VInv N maa d V P'.
Proof.
  intros N maa d V P P' Hiff Hinv. apply (VInv_mono N maa d V P P'); [intros c Hc; apply Hiff; exact Hc| |exact Hinv].
  destruct Hinv as (_ & _ & _ & H4 & _). intros y Hy. apply H4. apply Hiff. exact Hy.
Qed.

(* a node that was dealt with before leaves the work list *)
Lemma VInv_skip : forall N maa d V x P, In x V -> VInv N maa d V (x :: P) -> VInv N maa d V P.
Proof.
  intros N maa d V x P Hx (H1 & H2 & H3 & H4 & H5 & H6 & H7 & H8 & H9 & H10).
  assert (Happ : forall c, In c (V ++ x :: P) -> In c (V ++ P)).
  { intros c Hc. apply in_app_or in Hc. apply in_or_app. destruct Hc as [Hc|[Hc|Hc]];
      [left; exact Hc|left; subst c; exact Hx|right; exact Hc]. }
  split; [exact H1|]. split; [exact H2|]. split; [exact H3|].
  split; [intros y Hy; apply H4; right; exact Hy|]. split; [exact H5|].
  split; [exact H6|]. split; [apply Happ; exact H7|]. split; [exact H8|].
  split.
  - intros y Hy. apply (min_local_mono N d y (V ++ x :: P)); [exact Happ|apply H9; exact Hy].
  - intros Hm y Hy. apply (attr_local_mono N d y (V ++ x :: P)); [exact Happ|apply H10; assumption].
Qed.

Lemma pend_sub : forall (V : list nat) x cur next ns c, In c (V ++ x :: cur ++ next) ->
  In c ((x :: V) ++ cur ++ union_nat next ns).
Proof.
  intros V x cur next ns c Hc. apply in_app_or in Hc. destruct Hc as [Hc|[Hc|Hc]].
  - apply in_or_app. left. right. exact Hc.
  - subst c. left. reflexivity.
  - apply in_or_app. right. apply pending_sub. exact Hc.
Qed.

Lemma pend_new : forall (V : list nat) x cur next ns c, In c ns -> In c ((x :: V) ++ cur ++ union_nat next ns).
Proof. intros V x cur next ns c Hc. apply in_or_app. right. apply pending_new. exact Hc. Qed.

Lemma pend_sub0 : forall (V : list nat) x P P' c, (forall c0, In c0 P -> In c0 P') -> In c (V ++ x :: P) -> In c ((x :: V) ++ P').
Proof.
  intros V x P P' c Hsub Hc. apply in_app_or in Hc. destruct Hc as [Hc|[Hc|Hc]].
  - apply in_or_app. left. right. exact Hc.
  - subst c. left. reflexivity.
  - apply in_or_app. right. apply Hsub. exact Hc.
Qed.

(* an expanded node the call meets for the first time: canonical, all its successors become pending *)
Lemma VInv_hand : forall N maa d V x cur next, n_exp (get d x) = true -> ~ In x V ->
  VInv N maa d V (x :: cur ++ next) -> VInv N maa d (x :: V) (cur ++ union_nat next (successors d x)).
Proof.
  intros N maa d V x cur next Hexp Hnv (H1 & H2 & H3 & H4 & H5 & H6 & H7 & H8 & H9 & H10).
  assert (Hx : x < size d) by (apply H4; left; reflexivity).
  pose proof (H8 x Hx Hexp Hnv) as Hcan.
  split; [exact H1|]. split; [exact H2|]. split; [exact H3|].
  split.
  { apply (pending_ids d d cur next (successors d x) x (extends_refl d) H4).
    intros c Hc. apply (successors_valid N d x c H1 Hc). }
  split; [intros y [Hy|Hy]; [subst y; exact Hx|apply H5; exact Hy]|].
  split; [intros y [Hy|Hy]; [subst y; exact Hexp|apply H6; exact Hy]|].
  split; [apply pend_sub; exact H7|].
  split; [intros y Hy He Hn; apply H8; [exact Hy|exact He|]; intro Hin; apply Hn; right; exact Hin|].
  split.
  - intros y [Hy|Hy].
    + subst y. apply (min_local_mono N d x (successors d x)); [intros c Hc; apply pend_new; exact Hc|].
      apply canon_min_local; assumption.
    + apply (min_local_mono N d y (V ++ x :: cur ++ next)); [intros c Hc; apply pend_sub; exact Hc|apply H9; exact Hy].
  - intros Hm y [Hy|Hy].
    + subst y. apply (attr_local_mono N d x (successors d x)); [intros c Hc; apply pend_new; exact Hc|].
      apply canon_attr_local; assumption.
    + apply (attr_local_mono N d y (V ++ x :: cur ++ next)); [intros c Hc; apply pend_sub; exact Hc|apply H10; assumption].
Qed.

(* local statements of an untouched node survive the growth of the diagram *)
Lemma min_local_frame : forall N d d' y Q Q', SWF N d -> extends d d' -> y < size d ->
  out_edges d' y = out_edges d y -> (forall c, In c Q -> In c Q') ->
  min_local N d y Q -> min_local N d' y Q'.
Proof.
  intros N d d' y Q Q' Hswf Hext Hy Ho Hsub H M HM Hs.
  rewrite (extends_space d d' y Hext Hy) in Hs |- *. rewrite (successors_same_out d d' y Ho).
  destruct (H M HM Hs) as [He|(c & H1 & H2 & H3)]; [left; exact He|].
  right. exists c. split; [exact H1|].
  pose proof (successor_lt N d y c Hswf H1) as Hc.
  rewrite (extends_space d d' c Hext Hc). split; [exact H2|apply Hsub; exact H3].
Qed.

Lemma attr_local_frame : forall N d d' y Q Q', SWF N d -> extends d d' -> y < size d ->
  out_edges d' y = out_edges d y -> (forall c, In c Q -> In c Q') ->
  attr_local N d y Q -> attr_local N d' y Q'.
Proof.
  intros N d d' y Q Q' Hswf Hext Hy Ho Hsub H A HA Hs.
  pose proof (extends_space d d' y Hext Hy) as Hsp.
  rewrite Hsp in Hs. rewrite (successors_same_out d d' y Ho).
  destruct (H A HA Hs) as [He|(c & H1 & H2 & H3)].
  - left. apply (owns_same N d d' y A Ho Hsp); [eapply extends_lt; eauto|exact He].
  - right. exists c. split; [exact H1|].
    pose proof (successor_lt N d y c Hswf H1) as Hc.
    rewrite (extends_space d d' c Hext Hc). split; [exact H2|apply Hsub; exact H3].
Qed.

(* the call expands node x *)
Lemma VInv_step : forall N maa d d' x V P P', VInv N maa d V (x :: P) -> n_exp (get d x) = false ->
  frame d d' x -> SWF N d' -> TrapNodes N d' -> NoStubEdges d' -> ids_ok d' P' -> (forall c, In c P -> In c P') ->
  min_local N d' x P' -> (maa = true -> attr_local N d' x P') -> VInv N maa d' (x :: V) P'.
Proof.
  intros N maa d d' x V P P' (H1 & H2 & H3 & H4 & H5 & H6 & H7 & H8 & H9 & H10) Hex Hfr Hs' Ht' Hn' Hids Hsub Hmin Hattr.
  pose proof Hfr as (Hext & Hoth & _ & Hxexp).
  assert (Hx : x < size d) by (apply H4; left; reflexivity).
  assert (HV : forall y, In y V -> y < size d /\ y <> x /\ out_edges d' y = out_edges d y).
  { intros y Hy. pose proof (H5 y Hy) as Hyd. assert (Hne : y <> x).
    { intro Heq. subst y. rewrite (H6 x Hy) in Hex. discriminate Hex. }
    split; [exact Hyd|]. split; [exact Hne|]. apply (Hoth y Hyd Hne). }
  split; [exact Hs'|]. split; [exact Ht'|]. split; [exact Hn'|]. split; [exact Hids|].
  split; [intros y [Hy|Hy]; [subst y|]; eapply extends_lt; [exact Hext|exact Hx|exact Hext|apply H5; exact Hy]|].
  split; [intros y [Hy|Hy]; [subst y; exact Hxexp|apply (ext_exp d d' y Hext (H5 y Hy) (H6 y Hy))]|].
  split; [apply (pend_sub0 V x P P' 0 Hsub H7)|].
  split.
  { intros y Hy He Hn.
    assert (Hne : y <> x) by (intro Heq; apply Hn; left; symmetry; exact Heq).
    destruct (frame_old d d' x y Hfr Hy He Hne) as (Hyd & Hexpd & Ho & Hsp).
    apply (canonical_same N d d' y Ho Hsp). apply (H8 y Hyd Hexpd). intro Hin. apply Hn. right. exact Hin. }
  split.
  - intros y [Hy|Hy].
    + subst y. apply (min_local_mono N d' x P'); [intros c Hc; apply in_or_app; right; exact Hc|exact Hmin].
    + destruct (HV y Hy) as (Hyd & _ & Ho).
      apply (min_local_frame N d d' y (V ++ x :: P)); try assumption; [|apply H9; exact Hy].
      intros c Hc. apply (pend_sub0 V x P P' c Hsub Hc).
  - intros Hm y [Hy|Hy].
    + subst y. apply (attr_local_mono N d' x P'); [intros c Hc; apply in_or_app; right; exact Hc|apply Hattr; exact Hm].
    + destruct (HV y Hy) as (Hyd & _ & Ho).
      apply (attr_local_frame N d d' y (V ++ x :: P)); try assumption; [|apply H10; assumption].
      intros c Hc. apply (pend_sub0 V x P P' c Hsub Hc).
Qed.

Lemma ff_VInv : forall N maa d V x cur next, VInv N maa d V (x :: cur ++ next) ->
  n_exp (get d x) = false -> sources_in_b N (n_space (get d x)) <> [] ->
  VInv N maa (ff_step N d x) (x :: V) (cur ++ union_nat next (ff_kids N d x)).
Proof.
  intros N maa d V x cur next Hinv Hex Hsrc. pose proof Hinv as (H1 & H2 & H3 & H4 & _).
  assert (Hx : x < size d) by (apply H4; left; reflexivity).
  destruct (ff_local N d x H1 H2 H3 Hx Hex Hsrc) as (La & Lm & _).
  apply (VInv_step N maa d (ff_step N d x) x V (cur ++ next)); try assumption.
  - apply frame_ff. exact Hx.
  - apply ff_step_SWF; assumption.
  - apply ff_step_TrapNodes; assumption.
  - apply ff_step_NoStubEdges; assumption.
  - apply (pending_ids d _ cur next _ x (ff_step_extends N d x) H4).
    intros y Hy. apply ff_kids_valid; assumption.
  - intros c Hc. apply pending_sub. exact Hc.
  - apply (min_local_mono N _ x (ff_kids N d x)); [intros c Hc; apply pending_new; exact Hc|exact Lm].
  - intros _. apply (attr_local_mono N _ x (ff_kids N d x)); [intros c Hc; apply pending_new; exact Hc|exact La].
Qed.

Lemma norm_VInv : forall N cfg maa att d V x cur next d1 ns b here, 1 <= max_motifs cfg ->
  (att = true -> maa = true) ->
  VInv N att d V (x :: cur ++ next) -> n_exp (get d x) = false ->
  expand_one N cfg d x = (d1, RUnit) -> norm_choice N maa d1 x (n_space (get d x)) ns b here ->
  (att = true -> clean_log_ok N here) ->
  VInv N att (if b then set_empty_seeds d1 x else d1) (x :: V) (cur ++ union_nat next ns).
Proof.
  intros N cfg maa att d V x cur next d1 ns b here Hmm Hatt Hinv Hex Ee Hch Hlog.
  pose proof Hinv as (H1 & H2 & H3 & H4 & _).
  assert (Hx : x < size d) by (apply H4; left; reflexivity).
  assert (Hs1 : SWF N d1) by (rewrite (expand_one_eq_fst _ _ _ _ _ _ Ee); apply expand_one_SWF; assumption).
  assert (Ht1 : TrapNodes N d1).
  { rewrite (expand_one_eq_fst _ _ _ _ _ _ Ee).
    apply (expand_one_transfer_trap N (TrapNodes N) (prim_closed_trap_TrapNodes N)); assumption. }
  assert (Hn1 : NoStubEdges d1) by (rewrite (expand_one_eq_fst _ _ _ _ _ _ Ee); apply expand_one_NSE; assumption).
  pose proof (frame_expand N cfg d x d1 Hmm H1 H3 Hx Hex Ee) as Hfr1.
  pose proof Hfr1 as (Hext1 & _ & _ & Hxexp1).
  pose proof (extends_lt d d1 x Hext1 Hx) as Hx1.
  pose proof (extends_space d d1 x Hext1 Hx) as Hsp.
  destruct (expand_one_canonical N cfg d x d1 H1 H3 Hx Hex Hmm Ee) as (_ & _ & Hcan & _).
  pose proof (norm_choice_succ N maa d1 x _ ns b here Hch) as Hns.
  assert (Hloc : min_local N d1 x ns /\ (att = true -> attr_local N d1 x ns)).
  { destruct Hch as [here|blk ns b here Hin Hb1 Hb0].
    - split.
      + apply (min_local_mono N d1 x (successors d1 x)); [intros c Hc; apply sort_nat_In_rev; exact Hc|].
        apply canon_min_local; assumption.
      + intros _. apply (attr_local_mono N d1 x (successors d1 x)); [intros c Hc; apply sort_nat_In_rev; exact Hc|].
        apply canon_attr_local; assumption.
    - split; [apply (block_min_local N d1 x Hs1 Ht1 Hx1 Hcan blk ns Hin)|].
      destruct b.
      + destruct (Hb1 eq_refl) as [Hmaa Hentry].
        intros Ha A HA Hs. right.
        assert (Hclean : block_clean N (n_space (get d1 x)) blk (map (first_motif d1 x) ns)).
        { rewrite Hsp. apply (Hlog Ha _ _ _ Hentry). }
        apply (block_attr_local N d1 x Hs1 Ht1 Hx1 Hcan blk ns Hin Hclean A HA Hs).
      + intro Ha. rewrite (Hb0 eq_refl) in Hatt. specialize (Hatt Ha). discriminate Hatt. }
  destruct Hloc as (Lm & La).
  assert (Hids1 : ids_ok d1 ns).
  { intros c Hc. apply (successors_valid N d1 x c Hs1). apply Hns. exact Hc. }
  destruct b.
  - destruct (seeds_local N d1 x ns) as (S1 & S2 & _).
    apply (VInv_step N att d (set_empty_seeds d1 x) x V (cur ++ next)); try assumption.
    + apply frame_seeds. exact Hfr1.
    + apply set_empty_seeds_SWF. exact Hs1.
    + apply (set_empty_seeds_flag (TrapNodes N)); [|exact Ht1].
      intros d0 f Hf H0. apply TrapNodes_upd; assumption.
    + apply (set_empty_seeds_flag NoStubEdges); [|exact Hn1].
      intros d0 f Hf H0. apply NoStubEdges_upd; assumption.
    + apply (pending_ids d _ cur next ns x); [eapply extends_trans; [exact Hext1|apply set_empty_seeds_extends]|exact H4|].
      intros c Hc. rewrite size_set_empty_seeds. apply Hids1. exact Hc.
    + intros c Hc. apply pending_sub. exact Hc.
    + apply (min_local_mono N _ x ns); [intros c Hc; apply pending_new; exact Hc|apply S1; exact Lm].
    + intro Hm. apply (attr_local_mono N _ x ns); [intros c Hc; apply pending_new; exact Hc|apply S2; apply La; exact Hm].
  - apply (VInv_step N att d d1 x V (cur ++ next)); try assumption.
    + apply (pending_ids d _ cur next ns x Hext1 H4 Hids1).
    + intros c Hc. apply pending_sub. exact Hc.
    + apply (min_local_mono N _ x ns); [intros c Hc; apply pending_new; exact Hc|exact Lm].
    + intro Hm. apply (attr_local_mono N _ x ns); [intros c Hc; apply pending_new; exact Hc|apply La; exact Hm].
Qed.

(* ====================================================================== *)
(* PART 2 -- levels and the loop                                           *)
(* ====================================================================== *)

Lemma level_vinv : forall N cfg maa att opt sz, 1 <= max_motifs cfg -> (att = true -> maa = true) ->
  forall cur d next tape vis d1 next1 tape1 vis1,
  VInv N att d vis (cur ++ next) ->
  block_level N cfg maa opt sz d cur next tape vis = (d1, RUnit, next1, tape1, vis1) ->
  (att = true -> clean_log_ok N (fst (block_level_log N cfg maa opt sz d cur next tape vis))) ->
  VInv N att d1 vis1 next1.
Proof.
  intros N cfg maa att opt sz Hmm Hatt. induction cur as [|x cur IH]; intros d next tape vis d1 next1 tape1 vis1 Hinv E Hlog.
  - cbn [block_level] in E. injection E as E1 E2 E3 E4. subst d1 next1 tape1 vis1. exact Hinv.
  - destruct (level_cons N cfg maa opt sz d x cur next tape vis)
      as [(Hexp & Hmem & E1 & L1)|[(Hexp & Hmem & E1 & L1)|[(d' & r & n' & t' & v' & Hr & E1)|[(Hex & Hopt & Hsrc & E1 & L1)|
          (Hex & d1' & ns & b & here & tape1' & Ee & Hch & E1 & L1)]]]].
    + rewrite E1 in E. rewrite L1 in Hlog.
      apply (IH d next tape vis d1 next1 tape1 vis1); [|exact E|exact Hlog].
      apply (VInv_skip N att d vis x (cur ++ next)); [apply BM_mem_nat_In; exact Hmem|exact Hinv].
    + rewrite E1 in E. rewrite L1 in Hlog.
      apply (IH d (union_nat next (successors d x)) tape (x :: vis) d1 next1 tape1 vis1); [|exact E|exact Hlog].
      apply (VInv_hand N att d vis x cur next Hexp); [apply BM_mem_nat_false; exact Hmem|exact Hinv].
    + rewrite E1 in E. injection E as _ E2 _ _ _. subst r. destruct Hr as [Hr|Hr]; discriminate Hr.
    + rewrite E1 in E. rewrite L1 in Hlog. unfold log_after in Hlog. simpl in Hlog.
      pose proof (ff_VInv N att d vis x cur next Hinv Hex Hsrc) as Hinv'.
      apply (IH _ _ _ _ _ _ _ _ Hinv' E Hlog).
    + rewrite E1 in E. rewrite L1 in Hlog. unfold log_after in Hlog. simpl in Hlog.
      assert (Hlog' : att = true -> clean_log_ok N here /\
                clean_log_ok N (fst (block_level_log N cfg maa opt sz (if b then set_empty_seeds d1' x else d1')
                                       cur (union_nat next ns) tape1' (x :: vis)))).
      { intro Hm. apply clean_log_ok_app. apply Hlog. exact Hm. }
      pose proof (norm_VInv N cfg maa att d vis x cur next d1' ns b here Hmm Hatt Hinv Hex Ee Hch
                    (fun Hm => proj1 (Hlog' Hm))) as Hinv'.
      apply (IH _ _ _ _ _ _ _ _ Hinv' E (fun Hm => proj2 (Hlog' Hm))).
Qed.

Lemma loop_vinv : forall N cfg maa att opt sz, 1 <= max_motifs cfg -> (att = true -> maa = true) ->
  forall fuel d cur tape vis d',
  VInv N att d vis cur -> block_loop fuel N cfg maa opt sz d cur tape vis = (d', RBool true) ->
  (att = true -> clean_log_ok N (fst (block_loop_log fuel N cfg maa opt sz d cur tape vis))) ->
  exists vis', VInv N att d' vis' [].
Proof.
  intros N cfg maa att opt sz Hmm Hatt. induction fuel as [|f IH]; intros d cur tape vis d' Hinv E Hlog.
  - cbn [block_loop] in E. discriminate E.
  - cbn [block_loop] in E. cbn [block_loop_log] in Hlog. destruct cur as [|c cur'].
    { injection E as E1. subst d'. exists vis. exact Hinv. }
    remember (c :: cur') as cur eqn:Ecur.
    clear Ecur c cur'.
    destruct (block_level N cfg maa opt sz d (sort_nat cur) [] tape vis) as [[[[d1 r] next1] tape1] vis1] eqn:EL.
    destruct (block_level_log N cfg maa opt sz d (sort_nat cur) [] tape vis) as [lg em] eqn:ELog.
    destruct (level_result _ _ _ _ _ _ _ _ _ _ _ _ _ _ _ EL) as [Hr|[Hr|Hr]]; subst r; try discriminate E.
    assert (Hinv0 : VInv N att d vis (sort_nat cur ++ [])).
    { apply (VInv_ext N att d vis cur); [|exact Hinv]. intro y. rewrite app_nil_r. symmetry. apply BM_sort_nat_In. }
    destruct (block_loop_log f N cfg maa opt sz d1 next1 tape1 vis1) as [lg2 em2] eqn:EL2.
    simpl in Hlog.
    assert (Hlog' : att = true -> clean_log_ok N lg /\ clean_log_ok N lg2)
      by (intro Hm; apply clean_log_ok_app; apply Hlog; exact Hm).
    assert (K1 : VInv N att d1 vis1 next1).
    { apply (level_vinv N cfg maa att opt sz Hmm Hatt (sort_nat cur) d [] tape vis d1 next1 tape1 vis1 Hinv0 EL).
      rewrite ELog. simpl. intro Hm. apply (Hlog' Hm). }
    apply (IH d1 next1 tape1 vis1 d' K1 E).
    rewrite EL2. simpl. intro Hm. apply (Hlog' Hm).
Qed.

(* ====================================================================== *)
(* PART 3 -- descending through the visited nodes                          *)
(* ====================================================================== *)

Lemma vmin_descend : forall N d V M, SWF N d -> EdgeStrict d -> ids_ok d V ->
  (forall v, In v V -> n_exp (get d v) = true) ->
  (forall y, In y V -> min_local N d y (V ++ [])) -> min_trap N M ->
  forall k x, In x V -> subspace M (n_space (get d x)) = true ->
    nvars N <= nfixed (n_space (get d x)) + k ->
    exists i, i < size d /\ n_space (get d i) = M /\ n_exp (get d i) = true.
Proof.
  intros N d V M Hswf Hes Hids Hvexp Hgood HM. induction k as [|k IH]; intros x Hx Hsub Hk.
  - destruct (Hgood x Hx M HM Hsub) as [Heq|(c & Hc & _ & _)].
    + exists x. split; [apply Hids; exact Hx|]. split; [exact Heq|apply Hvexp; exact Hx].
    + exfalso. pose proof (successor_lt N d x c Hswf Hc) as Hclt.
      pose proof (strict_subspace_nfixed _ _ (successor_strict d x c Hes Hc)) as Hlt.
      pose proof (nfixed_le_length (n_space (get d c))) as Hle.
      rewrite (swf_space_len N d c Hswf Hclt) in Hle. lia.
  - destruct (Hgood x Hx M HM Hsub) as [Heq|(c & Hc & Hsubc & Hcv)].
    + exists x. split; [apply Hids; exact Hx|]. split; [exact Heq|apply Hvexp; exact Hx].
    + rewrite app_nil_r in Hcv.
      pose proof (strict_subspace_nfixed _ _ (successor_strict d x c Hes Hc)) as Hlt.
      apply (IH c Hcv Hsubc). lia.
Qed.

Lemma vattr_descend : forall N d V A, SWF N d -> EdgeStrict d ->
  (forall v, In v V -> n_exp (get d v) = true) ->
  (forall y, In y V -> attr_local N d y (V ++ [])) -> attractor N A ->
  forall k x, In x V -> inside A (n_space (get d x)) ->
    nvars N <= nfixed (n_space (get d x)) + k -> exists i, owns_exp N d i A.
Proof.
  intros N d V A Hswf Hes Hvexp Hgood Hatt. induction k as [|k IH]; intros x Hx Hin Hk.
  - destruct (Hgood x Hx A Hatt Hin) as [Hown|(c & Hc & _ & _)].
    + exists x. split; [exact Hown|apply Hvexp; exact Hx].
    + exfalso. pose proof (successor_lt N d x c Hswf Hc) as Hclt.
      pose proof (strict_subspace_nfixed _ _ (successor_strict d x c Hes Hc)) as Hlt.
      pose proof (nfixed_le_length (n_space (get d c))) as Hle.
      rewrite (swf_space_len N d c Hswf Hclt) in Hle. lia.
  - destruct (Hgood x Hx A Hatt Hin) as [Hown|(c & Hc & Hinc & Hcv)].
    + exists x. split; [exact Hown|apply Hvexp; exact Hx].
    + rewrite app_nil_r in Hcv.
      pose proof (strict_subspace_nfixed _ _ (successor_strict d x c Hes Hc)) as Hlt.
      apply (IH c Hcv Hinc). lia.
Qed.

(* ====================================================================== *)
(* PART 4 -- the start and the theorems                                    *)
(* ====================================================================== *)

Lemma PlainInv_VInv : forall N maa d, PlainInv N d -> VInv N maa d [] [0].
Proof.
  intros N maa d (H1 & H2 & _ & H4 & _ & H6 & H7 & _).
  split; [exact H1|]. split; [exact H2|]. split; [exact H4|].
  split; [intros y [Hy|[]]; subst y; apply (swf_size N d H1)|].
  split; [intros y []|]. split; [intros y []|]. split; [left; reflexivity|].
  split; [intros y Hy He _; apply (H6 y Hy He (H7 y Hy))|].
  split; [intros y []|intros _ y []].
Qed.

Lemma expand_block_final_from : forall fuel N cfg d d' maa att opt sz tape, 1 <= max_motifs cfg ->
  (att = true -> maa = true) -> PlainInv N d ->
  expand_block fuel N cfg d maa opt sz tape = (d', RBool true) ->
  (att = true -> clean_log_ok N (fst (expand_block_log fuel N cfg d maa opt sz tape))) ->
  EdgeStrict d' /\ n_space (get d' 0) = percolate_b N (top_space (nvars N)) /\
  exists V, VInv N att d' V [].
Proof.
  intros fuel N cfg d d' maa att opt sz tape Hmm Hatt Hp E Hlog.
  pose proof Hp as (H1 & H2 & H3 & _ & _ & _ & _ & Hroot).
  pose proof (expand_block_EdgeStrict fuel N cfg d maa opt sz tape H1 H2 H3) as Hes.
  pose proof (expand_block_extends fuel N cfg d maa opt sz tape H1) as Hext.
  rewrite E in Hes, Hext. simpl in Hes, Hext.
  split; [exact Hes|].
  split; [rewrite (extends_space _ _ 0 Hext (swf_size N d H1)); exact Hroot|].
  unfold expand_block in E. unfold expand_block_log in Hlog.
  apply (loop_vinv N cfg maa att opt sz Hmm Hatt fuel d [0] tape [] d' (PlainInv_VInv N att d Hp) E Hlog).
Qed.

Theorem expand_block_MinFound_from : forall fuel N cfg d d' maa opt sz tape, 1 <= max_motifs cfg ->
  PlainInv N d ->
  expand_block fuel N cfg d maa opt sz tape = (d', RBool true) -> MinFound N d'.
Proof.
  intros fuel N cfg d d' maa opt sz tape Hmm Hp E.
  destruct (expand_block_final_from fuel N cfg d d' maa false opt sz tape Hmm ltac:(discriminate) Hp E ltac:(discriminate))
    as (Hes & Hroot & V & (H1 & H2 & _ & _ & H5 & H6 & H7 & _ & H9 & _)).
  rewrite app_nil_r in H7.
  apply (MinFound_of_nodes N d' H1 H2 Hes). intros M HM.
  assert (Hsub0 : subspace M (n_space (get d' 0)) = true)
    by (rewrite Hroot; apply (DiagramComplete.min_trap_in_root N M HM)).
  apply (vmin_descend N d' V M H1 Hes H5 H6 H9 HM (nvars N) 0 H7 Hsub0). lia.
Qed.

Theorem expand_block_LeafOK_from : forall fuel N cfg d maa opt sz tape, 1 <= max_motifs cfg ->
  PlainInv N d -> LeafOK N d -> LeafOK N (fst (expand_block fuel N cfg d maa opt sz tape)).
Proof.
  intros fuel N cfg d maa opt sz tape Hmm (H1 & H2 & _ & H4 & _) Hl.
  apply expand_block_LeafOK_strong; assumption.
Qed.

Theorem expand_block_AttrServed_from : forall fuel N cfg d d' opt sz tape, 1 <= max_motifs cfg ->
  PlainInv N d ->
  expand_block fuel N cfg d true opt sz tape = (d', RBool true) ->
  clean_log_ok N (fst (expand_block_log fuel N cfg d true opt sz tape)) ->
  AttrServed N d'.
Proof.
  intros fuel N cfg d d' opt sz tape Hmm Hp E Hlog.
  destruct (expand_block_final_from fuel N cfg d d' true true opt sz tape Hmm (fun _ => eq_refl) Hp E (fun _ => Hlog))
    as (Hes & Hroot & V & (H1 & H2 & _ & _ & H5 & H6 & H7 & _ & _ & H10)).
  rewrite app_nil_r in H7.
  intros A Hatt.
  apply (vattr_descend N d' V A H1 Hes H6 (H10 eq_refl) Hatt (nvars N) 0 H7); [|lia].
  apply (attractor_in_root_space N d' A Hroot Hatt).
Qed.

Theorem expand_block_one_to_one_from : forall fuel N cfg d d' opt sz tape seeds, 1 <= max_motifs cfg ->
  PlainInv N d ->
  expand_block fuel N cfg d true opt sz tape = (d', RBool true) ->
  clean_log_ok N (fst (expand_block_log fuel N cfg d true opt sz tape)) ->
  exp_seeds_ok N d' seeds ->
  (forall A, attractor N A -> exists i s, i < size d' /\ n_exp (get d' i) = true /\ In s (seeds i) /\ A s) /\
  (forall A i j s t, attractor N A -> i < size d' -> j < size d' ->
     n_exp (get d' i) = true -> n_exp (get d' j) = true ->
     In s (seeds i) -> In t (seeds j) -> A s -> A t -> i = j /\ s = t).
Proof.
  intros fuel N cfg d d' opt sz tape seeds Hmm Hp E Hlog Hseeds.
  pose proof (expand_block_AttrServed_from fuel N cfg d d' opt sz tape Hmm Hp E Hlog) as Hserved.
  pose proof Hp as (H1 & H2 & _ & H4 & _ & H6 & H7 & _).
  pose proof (expand_block_SWF fuel N cfg d true opt sz tape H1) as Hswf.
  pose proof (expand_block_TrapNodes fuel N cfg d true opt sz tape H1 H2) as Htn.
  pose proof (expand_block_NoSkips fuel N cfg d true opt sz tape H1 H7) as Hns.
  pose proof (expand_block_CanonOrFF fuel N cfg d true opt sz tape Hmm H1 H2 H4 (Faithful_CanonOrFF N d H6)) as Hcf.
  rewrite E in Hswf, Htn, Hns, Hcf. simpl in Hswf, Htn, Hns, Hcf.
  destruct (partial_one_to_one N d' seeds Hswf Htn Hns Hcf Hserved Hseeds) as (P1 & P2 & _).
  split; [exact P1|exact P2].
Qed.

Print Assumptions expand_block_MinFound_from.
Print Assumptions expand_block_LeafOK_from.
Print Assumptions expand_block_AttrServed_from.
Print Assumptions expand_block_one_to_one_from.
