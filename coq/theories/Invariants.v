(* Invariants.v -- the invariants of the succession-diagram model (definitions only). *)
From Coq Require Import List Bool Arith NArith Permutation.
Import ListNotations.
From BB Require Import BN Brute Diagram.

Definition spaces (d : sd) : list space := map n_space (sd_nodes d).
Definition out_edges (d : sd) (i : nat) : list edge :=
  filter (fun e => Nat.eqb (e_src e) i) (sd_edges d).
Definition out_motifs (d : sd) (i : nat) : list space := flat_map e_motifs (out_edges d i).
Definition node_srcs (N : net) (i : nat) : list nat := if Nat.eqb i 0 then sources_b N else [].

(* structural well-formedness: what every reachable diagram satisfies, whatever
   happened before (limits, raised errors, skip operations, cache queries) *)
Record SWF (N : net) (d : sd) : Prop := {
  swf_size : 0 < size d;
  swf_len : forall x, In x (sd_nodes d) -> length (n_space x) = nvars N;
  swf_nodup : NoDup (spaces d);
  swf_edges : forall e, In e (sd_edges d) ->
                e_src e < size d /\ e_dst e < size d /\ e_motifs e <> [];
  swf_edge_nodup : NoDup (map (fun e => (e_src e, e_dst e)) (sd_edges d));
  swf_closed : forall x, In x (sd_nodes d) -> percolate_b N (n_space x) = n_space x;
  swf_motif : forall e m, In e (sd_edges d) -> In m (e_motifs e) ->
                length m = nvars N /\ percolate_b N m = n_space (get d (e_dst e))
}.

(* d' extends d: node ids and spaces are stable, nothing is ever removed *)
Definition extends (d d' : sd) : Prop :=
  size d <= size d' /\
  (forall i, i < size d -> n_space (get d' i) = n_space (get d i)) /\
  (forall i, i < size d -> n_exp (get d i) = true -> n_exp (get d' i) = true) /\
  (forall i, i < size d -> n_depth (get d i) <= n_depth (get d' i)) /\
  (forall e, In e (sd_edges d) ->
     exists e', In e' (sd_edges d') /\ e_src e' = e_src e /\ e_dst e' = e_dst e /\
                exists l, e_motifs e' = e_motifs e ++ l).

(* semantic invariants *)
Definition TrapNodes (N : net) (d : sd) : Prop :=
  forall x, In x (sd_nodes d) -> trap_space N (n_space x).
Definition NoStubEdges (d : sd) : Prop :=
  forall e, In e (sd_edges d) -> n_exp (get d (e_src e)) = true.
Definition EdgeStrict (d : sd) : Prop :=
  forall e, In e (sd_edges d) ->
    strict_subspace (n_space (get d (e_dst e))) (n_space (get d (e_src e))).
Definition Rooted (d : sd) : Prop :=
  forall i, 0 < i -> i < size d -> exists e, In e (sd_edges d) /\ e_dst e = i.

(* an expanded ordinary node carries exactly the maximal trap spaces of its space
   (at the root: those fixing every source variable), each once, as the motifs of
   its out-edges; with swf_motif each edge leads to the percolation of its motifs *)
Definition canonical (N : net) (d : sd) (i : nat) : Prop :=
  Permutation (out_motifs d i) (max_traps_b N (n_space (get d i)) (node_srcs N i)).
Definition Faithful (N : net) (d : sd) : Prop :=
  forall i, i < size d -> n_exp (get d i) = true -> n_skip (get d i) = false -> canonical N d i.
Definition AllExpanded (d : sd) : Prop := forall i, i < size d -> n_exp (get d i) = true.
Definition NoSkips (d : sd) : Prop := forall i, i < size d -> n_skip (get d i) = false.

Definition plain (o : op) : Prop :=
  match o with
  | OExpandNode _ | OBfs _ _ _ | ODfs _ _ _ | OTarget _ _ | OReclaim | OPickle
  | OCands _ _ | OSeeds _ _ _ _ | OSets _ _ _ => True
  | OMin _ _ skip _ => skip = false
  | OSkipToMin _ _ | OSkipRemaining _ => False
  end.

(* cached attractor data is tagged with the successor list it was computed against *)
Definition tag_ok (d : sd) (i : nat) (t : option tag) : Prop :=
  match t with None => True | Some t => t = cur_tag d i end.
Definition CacheOK (d : sd) : Prop :=
  forall i, i < size d ->
    tag_ok d i (n_cands (get d i)) /\ tag_ok d i (n_seeds (get d i)) /\ tag_ok d i (n_sets (get d i)).

(* depth = length of the longest path from the root *)
Inductive path (d : sd) : nat -> nat -> nat -> Prop :=
| path_nil : forall i, path d i i 0
| path_cons : forall i j k len e, In e (sd_edges d) -> e_src e = i -> e_dst e = j ->
                                  path d j k len -> path d i k (S len).
Definition DepthOK (d : sd) : Prop :=
  forall i, i < size d ->
    (forall len, path d 0 i len -> len <= n_depth (get d i)) /\
    (n_depth (get d i) = 0 \/ path d 0 i (n_depth (get d i))).
