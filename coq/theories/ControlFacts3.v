(* ControlFacts3.v -- SPEC (definitions are fixed; prove the theorems).
   C06 end to end: every intervention that succession control reports as successful is a chain of nested trap
   spaces starting from the whole state space; every listed override of a step has the step's motif in its
   logical domain of influence and forces every attractor of the overridden network that is reachable from the
   previous trap space to have the motif's values; the final trap space is consistent with the target and every
   minimal trap space inside it lies inside the target. *)
From Coq Require Import List Bool Arith NArith Lia Permutation.
Import ListNotations.
From BB Require Import BN Brute SpaceFacts TrapFacts PercolateFacts AttractorFacts Diagram Invariants DiagramStruct
  DiagramSem1 DiagramComplete MinExpandFacts Control ControlFacts ControlFacts2 ASeedsFacts.

(* the trap spaces a_0 = whole space, a_(i+1) = a_i merged with the percolation of (step motif + a_i) *)
Fixpoint chain (N : net) (succ : list space) (a : space) : list space :=
  match succ with
  | [] => [a]
  | ts :: r => a :: chain N r (merge a (percolate_b N (merge ts a)))
  end.

(* what expand_to_target guarantees (ControlFacts2.target_expansion_post): every node that meets the target and
   is not strictly inside it is expanded *)
Definition TargetExpanded (target : space) (d : sd) : Prop :=
  forall i, i < size d -> tcond (n_space (get d i)) target = true -> n_exp (get d i) = true.

(* ---- to prove ---- *)

Local Arguments percolate_b : simpl never.
Local Arguments find_drivers : simpl never.
Local Arguments successions : simpl never.
Local Arguments max_traps_b : simpl never.

Theorem chain_length : forall N succ a, length (chain N succ a) = S (length succ).
Proof.
  intros N succ. induction succ as [|ts r IH]; intro a; simpl; [reflexivity|].
  rewrite IH. reflexivity.
Qed.

(* ================================================================== *)
(* 1. the target-directed expansion                                    *)
(* ================================================================== *)

Lemma PlainInv_init : forall N, PlainInv N (init N).
Proof.
  intro N. destruct (init_AllInv N) as (K1 & K2 & K3 & K4 & K5 & K6).
  split; [exact K1|]. split; [exact K2|]. split; [exact K3|]. split; [exact K4|].
  split; [exact K5|]. split; [exact K6|]. split; [apply init_NoSkips|apply init_root].
Qed.

Lemma PlainInv_step_plain : forall fuel N cfg d o, 1 <= max_motifs cfg -> plain o -> PlainInv N d ->
  PlainInv N (fst (step fuel N cfg d o)).
Proof.
  intros fuel N cfg d o Hmm Hpl (H1 & H2 & H3 & H4 & H5 & H6 & H7 & H8).
  destruct (step_AllInv fuel N cfg d o Hmm Hpl (conj H1 (conj H2 (conj H3 (conj H4 (conj H5 H6))))))
    as (K1 & K2 & K3 & K4 & K5 & K6).
  split; [exact K1|]. split; [exact K2|]. split; [exact K3|]. split; [exact K4|].
  split; [exact K5|]. split; [exact K6|].
  split; [apply noskips_plain; assumption|].
  rewrite root_stable by exact H1. exact H8.
Qed.

(* the diagram produced by the target-directed expansion of a fresh diagram *)
Theorem target_expansion_TargetExpanded : forall fuel N cfg target d', 1 <= max_motifs cfg ->
  length target = nvars N ->
  expand_to_target fuel N cfg (init N) target None = (d', RBool true) ->
  PlainInv N d' /\ TargetExpanded target d'.
Proof.
  intros fuel N cfg target d' Hmm Hlen Hrun. split.
  - assert (Hd' : d' = fst (step fuel N cfg (init N) (OTarget target None))).
    { unfold step. rewrite Hrun. reflexivity. }
    rewrite Hd'. apply PlainInv_step_plain; [exact Hmm|exact I|apply PlainInv_init].
  - intros i Hi Ht.
    apply (target_expansion_post fuel N cfg target d' Hmm Hlen Hrun i Hi).
    apply tcond_spec. exact Ht.
Qed.

(* ================================================================== *)
(* 2. spaces: reduce_motif, merge                                      *)
(* ================================================================== *)

Lemma nth_reduce_motif : forall (m X : space) i, length m = length X ->
  nth i (reduce_motif m X) None = match nth i X None with Some _ => None | None => nth i m None end.
Proof.
  unfold reduce_motif. induction m as [|a m IH]; intros [|b X] i Hl; simpl in *; try discriminate.
  - destruct i; reflexivity.
  - injection Hl as Hl. destruct i as [|i]; simpl.
    + destruct b; reflexivity.
    + apply IH. exact Hl.
Qed.

Lemma reduce_motif_length : forall (m X : space), length m = length X -> length (reduce_motif m X) = length X.
Proof.
  intros m X Hl. unfold reduce_motif. rewrite map_length, combine_length. lia.
Qed.

Lemma merge_sub_eq : forall (a C : space), subspace C a = true -> merge a C = C.
Proof.
  induction a as [|x a IH]; intros [|c C] H; simpl in *; try discriminate; [reflexivity|].
  apply andb_true_iff in H. destruct H as [H1 H2]. rewrite (IH C H2).
  destruct c as [w|]; [reflexivity|]. destruct x as [v|]; [discriminate|reflexivity].
Qed.

Lemma merge_below : forall (t a : space), length t = length a -> subspace (merge t a) a = true.
Proof.
  intros t a Hl. apply subspace_nth; [rewrite merge_length by exact Hl; exact Hl|].
  intros i v Hi. rewrite CF_nth_merge by exact Hl. rewrite Hi. reflexivity.
Qed.

(* m <= X <= a : the motif lies inside (its reduction by X) merged with a *)
Lemma motif_in_merge : forall (m X a : space), length m = length X -> length X = length a ->
  subspace m X = true -> subspace X a = true ->
  subspace m (merge (reduce_motif m X) a) = true.
Proof.
  intros m X a H1 H2 HmX HXa.
  assert (Hr : length (reduce_motif m X) = length a) by (rewrite reduce_motif_length; assumption).
  apply subspace_nth; [rewrite merge_length by exact Hr; lia|].
  intros i v Hi. rewrite CF_nth_merge in Hi by exact Hr.
  destruct (nth i a None) as [w|] eqn:Ea.
  - injection Hi as Hi. subst w.
    apply (proj1 (subspace_nth m X H1) HmX i v).
    apply (proj1 (subspace_nth X a H2) HXa i v). exact Ea.
  - rewrite nth_reduce_motif in Hi by exact H1.
    destruct (nth i X None); [discriminate|exact Hi].
Qed.

Lemma below_motif : forall (P m X a : space), length P = length a -> length m = length X -> length X = length a ->
  subspace m X = true -> subspace X a = true ->
  subspace P (merge (reduce_motif m X) a) = true -> subspace P X = true ->
  subspace P m = true.
Proof.
  intros P m X a H0 H1 H2 HmX HXa HPS HPX.
  assert (Hr : length (reduce_motif m X) = length a) by (rewrite reduce_motif_length; assumption).
  apply subspace_nth; [lia|]. intros i v Hi.
  destruct (nth i X None) as [u|] eqn:EX.
  - pose proof (proj1 (subspace_nth m X H1) HmX i u EX) as Hmu.
    assert (u = v) by congruence. subst u.
    apply (proj1 (subspace_nth P X ltac:(lia)) HPX i v EX).
  - apply (proj1 (subspace_nth P _ ltac:(rewrite merge_length by exact Hr; lia)) HPS i v).
    rewrite CF_nth_merge by exact Hr.
    destruct (nth i a None) as [w|] eqn:Ea.
    + pose proof (proj1 (subspace_nth X a H2) HXa i w Ea) as HXw. congruence.
    + rewrite nth_reduce_motif by exact H1. rewrite EX. exact Hi.
Qed.

(* a percolation-closed space that contains a trap space has the right value wherever a function is constant *)
Lemma closed_above_trap : forall N P C i v, length P = nvars N -> perc_closed N P ->
  trap_space N C -> subspace C P = true -> i < nvars N -> const_on N i P v -> nth i P None = Some v.
Proof.
  intros N P C i v HlP Hcl HtC HCP Hi Hc.
  pose proof (trap_space_length N C HtC) as HlC.
  destruct (nth i P None) as [w|] eqn:E.
  - pose proof (proj1 (subspace_nth C P ltac:(lia)) HCP i w E) as HCw.
    pose proof (proj1 (trap_space_char N C HlC) HtC i w HCw) as Hcw.
    pose proof (P_const_on_mono N i P C v HCP Hc) as Hcv.
    destruct (space_nonempty_wf N C HlC) as (s & Hwf & Hs).
    rewrite <- (Hcw s Hwf Hs), <- (Hcv s Hwf Hs). reflexivity.
  - exfalso. apply (Hcl i v Hi E Hc).
Qed.

(* one step of the chain: from an assumption a with percolation X, the reduced motif leads to the child *)
Lemma chain_step_space : forall N m X a,
  length m = nvars N -> length X = nvars N -> length a = nvars N ->
  trap_space N m -> subspace m X = true -> subspace X a = true -> percolate_b N a = X ->
  percolate_b N (merge (reduce_motif m X) a) = percolate_b N m.
Proof.
  intros N m X a Hlm HlX Hla Htm HmX HXa HpX.
  set (S := merge (reduce_motif m X) a).
  assert (Hr : length (reduce_motif m X) = length a) by (rewrite reduce_motif_length; lia).
  assert (HlS : length S = nvars N) by (unfold S; rewrite merge_length by exact Hr; lia).
  assert (HmS : subspace m S = true) by (apply motif_in_merge; try assumption; lia).
  assert (HSa : subspace S a = true) by (apply merge_below; exact Hr).
  set (P := percolate_b N S).
  assert (HlP : length P = nvars N) by (unfold P; rewrite percolate_b_length; exact HlS).
  assert (HPS : subspace P S = true) by (apply percolate_b_sub; exact HlS).
  destruct (percolate_b_trap N m Htm) as [HtC _].
  assert (HCP : subspace (percolate_b N m) P = true)
    by (apply percolate_mono_weak; assumption).
  assert (HPX : subspace P X = true).
  { rewrite <- HpX. apply percolate_b_least; [exact Hla|apply (subspace_trans _ _ _ HPS HSa)|].
    intros i v Hi _ Hc.
    apply (closed_above_trap N P (percolate_b N m) i v HlP); try assumption.
    apply percolate_b_closed. exact HlS. }
  assert (HPm : subspace P m = true).
  { apply (below_motif P m X a); try assumption; lia. }
  symmetry. apply percolate_between; assumption.
Qed.

(* ================================================================== *)
(* 3. the chain along a path                                           *)
(* ================================================================== *)

Lemma edge_motif_facts : forall N d e m, PlainInv N d -> In e (sd_edges d) -> In m (e_motifs e) ->
  e_src e < size d /\ e_dst e < size d /\ length m = nvars N /\ trap_space N m /\
  subspace m (n_space (get d (e_src e))) = true /\
  percolate_b N m = n_space (get d (e_dst e)) /\
  strict_subspace (n_space (get d (e_dst e))) (n_space (get d (e_src e))).
Proof.
  intros N d e m Hp He Hm. pose proof Hp as (Hswf & _ & Hes & Hnse & _).
  destruct (swf_edges N d Hswf e He) as (Hs & Hd & _).
  destruct (swf_motif N d Hswf e m He Hm) as [Hl Hperc].
  assert (Hout : In m (out_motifs d (e_src e))).
  { unfold out_motifs. apply in_flat_map. exists e. split; [|exact Hm].
    apply out_edges_In. split; [exact He|reflexivity]. }
  destruct (out_motif_child N d (e_src e) m Hp Hs (Hnse e He) Hout) as (Hmax & Htrap & _).
  destruct (max_traps_b_trap N _ _ m (PlainInv_space_len N d _ Hp Hs) Hmax) as [_ [Hsub _]].
  split; [exact Hs|]. split; [exact Hd|]. split; [exact Hl|]. split; [exact Htrap|].
  split; [exact Hsub|]. split; [exact Hperc|apply Hes; exact He].
Qed.

Lemma chain_hd : forall N r b, nth 0 (chain N r b) [] = b.
Proof. intros N r b. destruct r; reflexivity. Qed.

Lemma last_cons_chain : forall N r a b, last (a :: chain N r b) [] = last (chain N r b) [].
Proof. intros N r a b. destruct r; reflexivity. Qed.

Lemma chain_path_gen : forall N d, PlainInv N d -> forall es x s succ a,
  epath d x s es -> choice d es succ -> x < size d ->
  trap_space N a -> subspace (n_space (get d x)) a = true -> percolate_b N a = n_space (get d x) ->
  last (chain N succ a) [] = match es with [] => a | _ => n_space (get d s) end /\
  forall i, i < length succ ->
    trap_space N (nth i (chain N succ a) []) /\ trap_space N (nth (S i) (chain N succ a) []) /\
    subspace (nth (S i) (chain N succ a) []) (nth i (chain N succ a) []) = true /\
    length (nth i succ []) = nvars N.
Proof.
  intros N d Hp. pose proof Hp as (Hswf & Htn & _).
  induction es as [|e es IH]; intros x s succ a Hpath Hch Hx Hta HXa HpX.
  - inversion Hch; subst. simpl. split; [reflexivity|]. intros i Hi. inversion Hi.
  - inversion Hch as [|e0 ts es0 r Hts Hr]; subst.
    apply epath_cons_inv in Hpath. destruct Hpath as (He & Hsrc & Hpath).
    apply in_map_iff in Hts. destruct Hts as (m & Hts & Hm).
    destruct (edge_motif_facts N d e m Hp He Hm) as (Hs & Hd & Hlm & Htm & HmX & Hperc & Hstr).
    rewrite Hsrc in *.
    set (X := n_space (get d x)) in *. set (C := n_space (get d (e_dst e))) in *.
    assert (HlX : length X = nvars N) by (apply (PlainInv_space_len N d x Hp Hx)).
    assert (Hla : length a = nvars N) by (apply trap_space_length; exact Hta).
    assert (HtC : trap_space N C) by (apply (TrapNodes_get N d _ Htn Hd)).
    assert (HCa : subspace C a = true) by (apply (subspace_trans _ _ _ (proj1 Hstr) HXa)).
    assert (Hnext : merge a (percolate_b N (merge ts a)) = C).
    { subst ts. rewrite (chain_step_space N m X a Hlm HlX Hla Htm HmX HXa HpX).
      rewrite Hperc. apply merge_sub_eq. exact HCa. }
    cbn [chain]. rewrite Hnext.
    assert (HpC : percolate_b N C = C) by (apply (swf_closed N d Hswf); apply get_In; exact Hd).
    destruct (IH (e_dst e) s r C Hpath Hr Hd HtC (subspace_refl C) HpC) as [Hlast Hnth].
    split.
    + rewrite last_cons_chain. rewrite Hlast. destruct es as [|e' es']; [|reflexivity].
      apply epath_nil_inv in Hpath. subst s. reflexivity.
    + intros i Hi. destruct i as [|i].
      * cbn [nth]. rewrite chain_hd. split; [exact Hta|]. split; [exact HtC|]. split; [exact HCa|].
        subst ts. rewrite reduce_motif_length; lia.
      * simpl in Hi. apply Hnth. lia.
Qed.

(* along a root path the chain is the sequence of node spaces *)
Theorem chain_follows_path : forall N d s es succ, PlainInv N d -> epath d 0 s es -> choice d es succ -> es <> [] ->
  last (chain N succ (top_space (nvars N))) [] = n_space (get d s).
Proof.
  intros N d s es succ Hp Hpath Hch Hne.
  pose proof Hp as (Hswf & _ & _ & _ & _ & _ & _ & Hroot).
  assert (Hlt : length (top_space (nvars N)) = nvars N) by (unfold top_space; apply repeat_length).
  destruct (chain_path_gen N d Hp es 0 s succ (top_space (nvars N)) Hpath Hch (swf_size N d Hswf)
              (trap_space_top N)) as [Hlast _].
  - rewrite <- (PlainInv_space_len N d 0 Hp (swf_size N d Hswf)). apply subspace_top.
  - symmetry. exact Hroot.
  - rewrite Hlast. destruct es; [contradiction|reflexivity].
Qed.

(* ================================================================== *)
(* 4. the drivers of a succession                                      *)
(* ================================================================== *)

Lemma drivers_length : forall N all maxd forb succ a,
  length (drivers_of_succession N succ all a maxd forb) = length succ.
Proof.
  intros N all maxd forb succ. induction succ as [|ts r IH]; intro a; simpl; [reflexivity|].
  rewrite IH. reflexivity.
Qed.

Lemma drivers_nth : forall N all maxd forb succ a i, i < length succ ->
  nth i (drivers_of_succession N succ all a maxd forb) [] =
  find_drivers N (nth i succ []) all (nth i (chain N succ a) []) maxd forb.
Proof.
  intros N all maxd forb succ. induction succ as [|ts r IH]; intros a i Hi; simpl in Hi; [lia|].
  destruct i as [|i]; cbn [drivers_of_succession chain nth]; [reflexivity|].
  apply IH. lia.
Qed.

(* ================================================================== *)
(* 5. no lava below: minimal trap spaces lie inside the target         *)
(* ================================================================== *)

Lemma is_desc_refl : forall d x, is_desc d x x.
Proof. intros d x. exists []. apply ep_nil. Qed.

Lemma lava_below_edge : forall d target e, In e (sd_edges d) ->
  lava_below d target (e_dst e) -> lava_below d target (e_src e).
Proof.
  intros d target e He (y & (es & Hp) & Hl). exists y. split; [|exact Hl].
  exists (e :: es). apply ep_cons; [exact He|reflexivity|exact Hp].
Qed.

Lemma no_lava_min_in_target : forall N d target, PlainInv N d -> TargetExpanded target d ->
  forall k x M, x < size d -> nvars N - nfixed (n_space (get d x)) < k ->
    ~ lava_below d target x -> min_trap N M -> subspace M (n_space (get d x)) = true ->
    subspace M target = true.
Proof.
  intros N d target Hp Hte. pose proof Hp as (Hswf & Htn & Hes & _ & _ & Hf & Hns & _).
  induction k as [|k IH]; intros x M Hx Hk Hnl HM Hsub; [lia|].
  set (X := n_space (get d x)) in *.
  assert (Hhot : hot_lava d target x = false).
  { destruct (hot_lava d target x) eqn:E; [|reflexivity]. exfalso. apply Hnl.
    exists x. split; [apply is_desc_refl|exact E]. }
  unfold hot_lava in Hhot. fold X in Hhot.
  destruct (intersect X target) as [z|] eqn:Ei; [|discriminate Hhot].
  destruct (subspace X target) eqn:Est.
  { apply (subspace_trans _ _ _ Hsub Est). }
  simpl in Hhot.
  assert (Htc : tcond X target = true).
  { apply tcond_spec. split; [rewrite Ei; discriminate|]. intros [H _]. congruence. }
  pose proof (Hte x Hx Htc) as Hexp.
  unfold is_minimal in Hhot. rewrite Hexp, andb_true_r in Hhot.
  assert (HlX : length X = nvars N) by (apply (PlainInv_space_len N d x Hp Hx)).
  assert (Hchild : forall c, In c (successors d x) ->
            c < size d /\ strict_subspace (n_space (get d c)) X /\ ~ lava_below d target c).
  { intros c Hc. apply In_successors in Hc. destruct Hc as (e & He & Hsrc & Hdst).
    destruct (swf_edges N d Hswf e He) as (_ & Hd & _). pose proof (Hes e He) as Hstr.
    rewrite Hsrc, Hdst in *. split; [exact Hd|]. split; [exact Hstr|].
    intro Hl. apply Hnl. rewrite <- Hsrc. apply lava_below_edge; [exact He|]. rewrite Hdst. exact Hl. }
  destruct (eqb_space X M) eqn:Eq.
  - (* M = X would be a minimal trap space with a successor *)
    exfalso. apply eqb_space_spec in Eq.
    unfold out_degree in Hhot. destruct (successors d x) as [|c l] eqn:Es; [discriminate Hhot|].
    destruct (Hchild c (or_introl eq_refl)) as (Hc & [Hcs Hcne] & _).
    apply Hcne. rewrite Eq. apply (proj2 HM); [apply (TrapNodes_get N d c Htn Hc)|].
    rewrite <- Eq. exact Hcs.
  - assert (Hstrict : strict_subspace M X).
    { split; [exact Hsub|]. intro Heq. rewrite Heq in Eq.
      rewrite (proj2 (eqb_space_spec _ _) eq_refl) in Eq. discriminate Eq. }
    destruct (closed_trap_below_child N X M (node_srcs N x)
                (TrapNodes_get N d x Htn Hx) HlX (proj1 HM)
                (min_trap_closed N M HM) Hstrict (min_trap_fixes_node_srcs N M x HM))
      as (M' & HM' & HsubM).
    assert (Hout : In M' (out_motifs d x)).
    { pose proof (Hf x Hx Hexp (Hns x Hx)) as Hcan. unfold canonical in Hcan.
      eapply Permutation_in; [apply Permutation_sym; exact Hcan|exact HM']. }
    destruct (out_motif_child N d x M' Hp Hx Hexp Hout) as (_ & _ & c & Hc & Hperc).
    rewrite Hperc in HsubM.
    destruct (Hchild c Hc) as (Hclt & Hcstr & Hcnl).
    apply (IH c M Hclt); try assumption.
    pose proof (strict_subspace_nfixed _ _ Hcstr) as Hnf.
    pose proof (nfixed_le_length (n_space (get d c))) as Hle.
    rewrite (PlainInv_space_len N d c Hp Hclt) in Hle. lia.
Qed.

(* ================================================================== *)
(* 6. when the only succession is the empty one                        *)
(* ================================================================== *)

Lemma epath_snoc : forall d x y es e, epath d x y es -> In e (sd_edges d) -> e_src e = y ->
  epath d x (e_dst e) (es ++ [e]).
Proof.
  intros d x y es e Hp. induction Hp as [x|x e0 t es Hin Hs Hp IH]; intros He Hsrc; simpl.
  - apply ep_cons; [exact He|exact Hsrc|apply ep_nil].
  - apply ep_cons; [exact Hin|exact Hs|apply IH; assumption].
Qed.

Lemma root_reaches : forall N d, PlainInv N d -> forall s, s < size d -> exists es, epath d 0 s es.
Proof.
  intros N d Hp. pose proof Hp as (Hswf & _ & Hes & _ & Hr & _).
  assert (Hall : forall k y, y < size d -> nfixed (n_space (get d y)) < k -> exists es, epath d 0 y es).
  { induction k as [|k IH]; intros y Hy Hk; [lia|].
    destruct (Nat.eq_dec y 0) as [Heq|Hne]; [subst y; exists []; apply ep_nil|].
    destruct (Hr y) as (e & Hin & Hd); [lia|exact Hy|].
    pose proof (Hes e Hin) as Hss. rewrite Hd in Hss. apply strict_subspace_nfixed in Hss.
    destruct (swf_edges N d Hswf e Hin) as (Hsrc & _ & _).
    destruct (IH (e_src e) Hsrc) as (es & Hpath); [lia|].
    exists (es ++ [e]). rewrite <- Hd. apply (epath_snoc d 0 (e_src e) es e Hpath Hin eq_refl). }
  intros s Hs. apply (Hall (S (nfixed (n_space (get d s)))) s Hs). lia.
Qed.

Lemma choice_exists : forall N d es, SWF N d -> (forall e, In e es -> In e (sd_edges d)) ->
  exists succ, choice d es succ.
Proof.
  intros N d es Hswf. unfold choice. induction es as [|e es IH]; intro Hin.
  - exists []. constructor.
  - destruct IH as (r & Hr); [intros e0 He0; apply Hin; right; exact He0|].
    destruct (swf_edges N d Hswf e (Hin e (or_introl eq_refl))) as (_ & _ & Hne).
    destruct (e_motifs e) as [|m l] eqn:Em; [contradiction|].
    exists (reduce_motif m (n_space (get d (e_src e))) :: r). constructor; [|exact Hr].
    rewrite Em. left. reflexivity.
Qed.

(* walking from a node with lava below to one without passes an end node *)
Lemma first_end_node : forall N d target, SWF N d -> EdgeStrict d ->
  forall x s es, epath d x s es -> x < size d -> lava_below d target x -> ~ lava_below d target s ->
  exists t es1, end_node d target t /\ es1 <> [] /\ epath d x t es1.
Proof.
  intros N d target Hswf Hes x s es Hp.
  induction Hp as [x|x e t es Hin Hs Hp IH]; intros Hx Hl Hnl; [contradiction|].
  destruct (swf_edges N d Hswf e Hin) as (_ & Hd & _).
  destruct (reaches_lava d target (e_dst e)) eqn:Er.
  - apply (reaches_lava_spec N d target _ Hswf Hes Hd) in Er.
    destruct (IH Hd Er Hnl) as (t0 & es1 & Hend & _ & Hp1).
    exists t0, (e :: es1). split; [exact Hend|]. split; [discriminate|].
    apply ep_cons; assumption.
  - exists (e_dst e), [e]. split; [|split; [discriminate|]].
    + split; [exact Hd|]. split.
      * intro Hl'. apply (reaches_lava_spec N d target _ Hswf Hes Hd) in Hl'. congruence.
      * exists x. split; [|exact Hl]. unfold predecessors. apply in_map_iff. exists e.
        split; [exact Hs|]. apply filter_In. split; [exact Hin|apply Nat.eqb_refl].
    + apply ep_cons; [exact Hin|exact Hs|apply ep_nil].
Qed.

Lemma empty_succession_root : forall N d target, PlainInv N d ->
  (exists s, s < size d /\ ~ lava_below d target s) ->
  ~ (exists s es succ', end_node d target s /\ s <> 0 /\ epath d 0 s es /\ choice d es succ') ->
  ~ lava_below d target 0.
Proof.
  intros N d target Hp (s & Hs & Hnl) Hno Hl0. pose proof Hp as (Hswf & _ & Hes & _).
  destruct (root_reaches N d Hp s Hs) as (es & Hpath).
  destruct (first_end_node N d target Hswf Hes 0 s es Hpath (swf_size N d Hswf) Hl0 Hnl)
    as (t & es1 & Hend & Hne & Hp1).
  destruct (choice_exists N d es1 Hswf (epath_edges d 0 t es1 Hp1)) as (succ' & Hc).
  apply Hno. exists t, es1, succ'. split; [exact Hend|]. split; [|split; assumption].
  intro Heq. subst t. apply Hne. apply (epath_loop_nil d 0 es1 Hes Hp1).
Qed.

Lemma intersect_top_l : forall t : space, intersect (top_space (length t)) t = Some t.
Proof.
  induction t as [|b t IH]; simpl; [reflexivity|].
  unfold top_space in IH. rewrite IH. reflexivity.
Qed.

Lemma min_trap_in_root : forall N d M, PlainInv N d -> min_trap N M ->
  subspace M (n_space (get d 0)) = true.
Proof.
  intros N d M Hp HM. destruct Hp as (_ & _ & _ & _ & _ & _ & _ & Hroot). rewrite Hroot.
  pose proof (min_trap_length N M HM) as Hl.
  rewrite <- (min_trap_closed N M HM).
  apply percolate_mono_weak; [exact (proj1 HM)|exact Hl|unfold top_space; apply repeat_length|].
  rewrite <- Hl. apply subspace_top.
Qed.

(* ================================================================== *)
(* 7. C06                                                              *)
(* ================================================================== *)

Theorem succession_control_sound : forall N d target all_strategy maxd forbidden succ ctl,
  PlainInv N d -> length target = nvars N -> TargetExpanded target d ->
  In (succ, ctl, true) (succession_control N d target all_strategy maxd forbidden) ->
  let spaces := chain N succ (top_space (nvars N)) in
  length ctl = length succ /\
  (forall i, i < length succ ->
     trap_space N (nth i spaces []) /\ trap_space N (nth (S i) spaces []) /\
     subspace (nth (S i) spaces []) (nth i spaces []) = true /\
     nth i ctl [] <> [] /\
     forall drv, In drv (nth i ctl []) ->
       subspace (percolate_b N (merge drv (nth i spaces []))) (nth i succ []) = true /\
       forced (override N drv) (nth i spaces []) (nth i succ [])) /\
  intersect (last spaces []) target <> None /\
  (forall M, min_trap N M -> subspace M (last spaces []) = true -> subspace M target = true).
Proof.
  intros N d target all_strategy maxd forbidden succ ctl Hp Hlt Hte Hin spaces.
  pose proof Hp as (Hswf & Htn & Hes & _ & _ & _ & _ & Hroot).
  unfold succession_control in Hin. apply in_map_iff in Hin. destruct Hin as (succ0 & Heq & Hsucc).
  injection Heq as E1 E2 E3. subst succ0 ctl.
  assert (Hcommon : exists s es, s < size d /\ epath d 0 s es /\ choice d es succ /\
                      ~ lava_below d target s).
  { apply (successions_spec N d target succ Hswf Hes) in Hsucc.
    destruct Hsucc as [(s & es & (Hs & Hnl & _) & _ & Hpath & Hch)|(Hnil & Hex & Hno)].
    - exists s, es. auto.
    - subst succ. exists 0, []. split; [apply (swf_size N d Hswf)|]. split; [apply ep_nil|].
      split; [constructor|]. apply (empty_succession_root N d target Hp Hex Hno). }
  destruct Hcommon as (s & es & Hs & Hpath & Hch & Hnl).
  assert (Hltop : length (top_space (nvars N)) = nvars N) by (unfold top_space; apply repeat_length).
  assert (H0 : 0 < size d) by (apply (swf_size N d Hswf)).
  destruct (chain_path_gen N d Hp es 0 s succ (top_space (nvars N)) Hpath Hch H0 (trap_space_top N))
    as [Hlast Hnth].
  { rewrite <- (PlainInv_space_len N d 0 Hp H0). apply subspace_top. }
  { symmetry. exact Hroot. }
  fold spaces in Hlast, Hnth.
  split; [apply drivers_length|]. split; [|split].
  - intros i Hi. destruct (Hnth i Hi) as (Ht1 & Ht2 & Hsub & Hlts).
    split; [exact Ht1|]. split; [exact Ht2|]. split; [exact Hsub|].
    set (ctl := drivers_of_succession N succ all_strategy (top_space (nvars N)) maxd forbidden) in *.
    assert (Hic : i < length ctl) by (unfold ctl; rewrite drivers_length; exact Hi).
    split.
    + intro Hnil. rewrite forallb_forall in E3.
      pose proof (E3 (nth i ctl []) (nth_In ctl [] Hic)) as Hne. rewrite Hnil in Hne. discriminate Hne.
    + intros drv Hdrv. unfold ctl in Hdrv. rewrite drivers_nth in Hdrv by exact Hi.
      fold spaces in Hdrv. split.
      * destruct (find_drivers_sound N _ all_strategy _ maxd forbidden drv Hlts
                    (trap_space_length N _ Ht1) Hdrv) as (_ & Hf & _).
        exact Hf.
      * apply (find_drivers_force N _ all_strategy _ maxd forbidden drv Ht1 Hlts Hdrv).
  - destruct es as [|e es'].
    + rewrite Hlast, <- Hlt. rewrite intersect_top_l. discriminate.
    + rewrite Hlast. intro Hi. apply Hnl. exists s. split; [apply is_desc_refl|].
      unfold hot_lava. rewrite Hi. reflexivity.
  - intros M HM Hsub.
    assert (HsubS : subspace M (n_space (get d s)) = true).
    { destruct es as [|e es'].
      - apply epath_nil_inv in Hpath. subst s. apply (min_trap_in_root N d M Hp HM).
      - rewrite <- Hlast. exact Hsub. }
    apply (no_lava_min_in_target N d target Hp Hte (S (nvars N - nfixed (n_space (get d s)))) s M Hs);
      try assumption. lia.
Qed.

Print Assumptions chain_length.
Print Assumptions target_expansion_TargetExpanded.
Print Assumptions chain_follows_path.
Print Assumptions succession_control_sound.
