(* ASeeds.v -- model of expand_attractor_seeds (_sd_algorithms/expand_attractor_seeds.py).
   Tape: the NFVS (list of variables) the code obtained for each examined unexpanded successor.
   Whether that successor is expanded depends only on the EMPTINESS of the reduced fixed points
   of the heuristic retained set (outside the intersections with the already expanded siblings'
   motifs), which the model computes with the brute-force twin.  Definitions only. *)
From Coq Require Import List Bool Arith NArith.
Import ListNotations.
From BB Require Import BN Brute Diagram Candidates Blocks.

Definition expanded_motifs (d : sd) (node : nat) : list space :=
  flat_map (fun e => if Nat.eqb (e_src e) node && n_exp (get d (e_dst e)) then [hd [] (e_motifs e)] else [])
           (sd_edges d).

Definition has_new_candidate (N : net) (d : sd) (node s : nat) (nfvs : list nat) : bool :=
  let sp := n_space (get d s) in
  let avoid := flat_map (fun m => match intersect sp m with Some x => [x] | None => [] end) (expanded_motifs d node) in
  let avoid_r := map (fun x => reduce_by x sp) avoid in
  let R := ret_space (nvars N) (heuristic_retained N sp nfvs avoid) in
  match reduced_fixed_b N R sp avoid_r with [] => false | _ => true end.

(* inner "while len(successors) > 0": returns remaining successors (ascending) and the rest of the tape *)
Fixpoint aseeds_inner (N : net) (d : sd) (node : nat) (seen : list nat) (succ : list nat)
         (tape : list (list nat)) : list nat * list (list nat) :=
  match succ with
  | [] => ([], tape)
  | s :: r =>
      if mem_nat s seen then aseeds_inner N d node seen r tape
      else if n_exp (get d s) then (succ, tape)
      else if has_new_candidate N d node s (hd [] tape) then (succ, tl tape)
      else aseeds_inner N d node seen r (tl tape)
  end.

Fixpoint aseeds_loop (fuel : nat) (N : net) (cfg : config) (size_limit : option nat)
         (d : sd) (seen : list nat) (stack : list (nat * option (list nat))) (tape : list (list nat))
  : sd * result :=
  match fuel with
  | O => (d, RFuel)
  | S f =>
      match stack with
      | [] => (d, RBool true)
      | (x, osucc) :: stack' =>
          let step :=
            match osucc with
            | Some l => Some (d, RUnit, l)
            | None => if over_limit size_limit d && negb (n_exp (get d x)) then None
                      else let '(d1, r, succ) := node_successors N cfg d x in Some (d1, r, sort_nat succ)
            end in
          match step with
          | None => (d, RBool false)
          | Some (d1, r, succ) =>
              match r with
              | RUnit =>
                  let '(succ2, tape2) := aseeds_inner N d1 x seen succ tape in
                  match succ2 with
                  | [] => aseeds_loop f N cfg size_limit d1 seen stack' tape2
                  | s :: rest => aseeds_loop f N cfg size_limit d1 (s :: seen) ((s, None) :: (x, Some rest) :: stack') tape2
                  end
              | _ => (d1, r)
              end
          end
      end
  end.

(* the strategy first runs expand_minimal_spaces (its result is ignored), then the loop above *)
Definition expand_aseeds (fuel : nat) (N : net) (cfg : config) (d : sd) (size_limit : option nat)
           (min_tape : list space) (tape : list (list nat)) : sd * result :=
  let '(d0, r0) := expand_min fuel N cfg d None size_limit false min_tape in
  match r0 with
  | RRaised _ | RFuel => (d0, r0)
  | _ => aseeds_loop fuel N cfg size_limit d0 [0] [(0, None)] tape
  end.
