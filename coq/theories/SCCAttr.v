(* SCCAttr.v -- SPEC (prove the theorems; the model is theories/SCC.v, do not edit it).
   C01 for the source-SCC strategy, the half that holds: although two expanded nodes can own the same attractor
   (SCCFacts.D15_refuted), NO attractor is lost -- with motif-avoidance checks off, from a fresh diagram, when the
   strategy reports completion every attractor of the network has an expanded owner (a node whose space contains it
   while none of its out-motifs does).  Exact per-node seeds therefore represent every attractor at least once. *)
From Coq Require Import List Bool Arith NArith Lia Permutation Relations.
Import ListNotations.
From BB Require Import BN Brute SpaceFacts TrapFacts PercolateFacts AttractorFacts Filter FilterFacts Diagram Invariants
  DiagramStruct DiagramSem1 DiagramComplete MinExpandFacts Termination Blocks BlocksFacts BlockMath OwnerFacts PartialOwner
  BlockComplete SCC SCCStruct SCCTerm SCCComplete.

Local Arguments percolate_b : simpl never.
Local Arguments expand_one : simpl never.
Local Arguments node_successors : simpl never.
Local Arguments ensure_node : simpl never.
Local Arguments ensure_edge : simpl never.
Local Arguments source_sccs : simpl never.
Local Arguments sub_net : simpl never.
Local Arguments graft : simpl never.
Local Arguments only_on : simpl never.
Local Arguments regulates_b : simpl never.
Local Arguments sources_in_b : simpl never.
Local Arguments set_empty_seeds : simpl never.
Local Arguments clear_cands : simpl never.
Local Arguments ensure_children : simpl never.
Local Arguments ensure_all : simpl never.
Local Arguments attach_nodes : simpl never.
Local Arguments attach_edges : simpl never.
Local Arguments attach_scc : simpl never.
Local Arguments attach_all : simpl never.
Local Arguments scc_components : simpl never.
Local Arguments scc_level : simpl never.
Local Arguments scc_levels : simpl never.
Local Arguments scc_main : simpl never.
Local Arguments max_traps_b : simpl never.
Local Arguments min_traps_b : simpl never.
Local Arguments upd_node : simpl never.
Local Arguments ff_motifs : simpl never.
Local Arguments union_nat : simpl never.
Local Arguments sort_nat : simpl never.
Local Arguments Nat.pow : simpl never.
Local Arguments Nat.ltb : simpl never.
Local Arguments first_motif : simpl never.

(* ====================================================================== *)
(* 1. edges carry attractors                                               *)
(* ====================================================================== *)

(* the attractor matches the motif m on every variable that the source space S leaves free *)
Definition agrees_free (A : state -> Prop) (S m : space) : Prop :=
  forall s v b, A s -> v < length S -> nth v m None = Some b -> nth v S None = None -> nth v s false = b.

(* an edge S --m--> S' carries attractors: whatever lies in S and matches m lies in S' *)
Definition carries (N : net) (S m S' : space) : Prop :=
  forall A, attractor N A -> inside A S -> agrees_free A S m -> inside A S'.

Definition good_edge (N : net) (d : sd) (e : edge) : Prop :=
  e_motifs e <> [] /\
  forall m, In m (e_motifs e) -> carries N (n_space (get d (e_src e))) m (n_space (get d (e_dst e))).

Definition EC (N : net) (d : sd) : Prop := forall e, In e (sd_edges d) -> good_edge N d e.

Lemma inside_agrees : forall (A : state -> Prop) S m, inside A m -> agrees_free A S m.
Proof.
  intros A S m Hin s v b Hs _ Hm _.
  pose proof (Hin s Hs) as H. apply (proj1 (in_space_nth s m (in_space_length s m H)) H v b Hm).
Qed.

(* a trap space inside the source space, with its percolation as target (expand_one, fast-forward) *)
Lemma carries_trap : forall N S m, trap_space N m -> subspace m S = true -> carries N S m (percolate_b N m).
Proof.
  intros N S m Ht Hsub A Hatt Hin Hag.
  assert (HinM : forall s, A s -> in_space s m = true).
  { intros s Hs. pose proof (Hin s Hs) as HsS.
    apply in_space_nth; [rewrite (in_space_length s S HsS); symmetry; apply subspace_length; exact Hsub|].
    intros v b Hv. destruct (nth v S None) as [b'|] eqn:ES.
    - pose proof (proj1 (subspace_nth m S (subspace_length m S Hsub)) Hsub v b' ES) as H.
      rewrite H in Hv. injection Hv as Hv. subst b'.
      apply (proj1 (in_space_nth s S (in_space_length s S HsS)) HsS v b ES).
    - apply (Hag s v b Hs); [|exact Hv|exact ES].
      rewrite <- (subspace_length m S Hsub). apply (nth_some_lt m v b Hv). }
  unfold inside. apply (attractor_in_percolation N A m Hatt Ht HinM).
Qed.

(* ====================================================================== *)
(* 2. attractors project onto a source SCC                                 *)
(* ====================================================================== *)

Section AProj.
  Variables (N : net) (sp : space) (B : list nat).
  Hypothesis HtS : trap_space N sp.
  Hypothesis Hc : closed_in N sp B.

  Let M := sub_net N sp B.
  Let cv (v : nat) : bool := match nth v sp None with Some b => b | None => false end.

  Definition pj (s : state) : state :=
    map (fun v => if mem_nat v B then nth v s false else cv v) (seq 0 (nvars N)).

  Lemma AP_HS : length sp = nvars N.
  Proof. apply trap_space_length. exact HtS. Qed.

  Lemma pj_length : forall s, length (pj s) = nvars N.
  Proof. intro s. unfold pj. rewrite map_length, seq_length. reflexivity. Qed.

  Lemma nth_pj : forall s v, v < nvars N -> nth v (pj s) false = if mem_nat v B then nth v s false else cv v.
  Proof.
    intros s v Hv. unfold pj.
    apply (BM_nth_map_seq _ (fun v => if mem_nat v B then nth v s false else cv v) (nvars N) v false Hv).
  Qed.

  Lemma pj_B : forall s v, In v B -> nth v (pj s) false = nth v s false.
  Proof.
    intros s v Hv. rewrite nth_pj by (apply (BM_closed_lt N sp B v Hc Hv)).
    rewrite (proj2 (BM_mem_nat_In v B) Hv). reflexivity.
  Qed.

  Lemma pj_out : forall s v, v < nvars N -> ~ In v B -> nth v (pj s) false = cv v.
  Proof.
    intros s v Hv HvB. rewrite nth_pj by exact Hv. rewrite (proj2 (BM_mem_nat_false v B) HvB). reflexivity.
  Qed.

  Lemma pj_wfM : forall s, wf_state M s <-> length s = nvars N.
  Proof. intro s. unfold wf_state, M. rewrite sub_net_nvars. tauto. Qed.

  Variable A : state -> Prop.
  Hypothesis Hatt : attractor N A.
  Hypothesis Hins : inside A sp.

  Lemma AP_wf : forall s, A s -> wf_state N s.
  Proof. destruct Hatt as (_ & Hwf & _). exact Hwf. Qed.

  Lemma AP_upd_in : forall s i, A s -> In i B -> upd M i (pj s) = upd N i s.
  Proof.
    intros s i Hs Hi. pose proof (BM_closed_lt N sp B i Hc Hi) as Hil.
    unfold M. rewrite (sub_net_upd_in_gen N sp B i (pj s) Hil Hi).
    assert (Hl : length (pj s) = length sp) by (rewrite pj_length, AP_HS; reflexivity).
    apply (closed_in_reads_B N sp B i (impose sp (pj s)) s Hc Hi).
    - unfold wf_state. rewrite impose_length by exact Hl. apply AP_HS.
    - apply AP_wf. exact Hs.
    - apply impose_in_space. exact Hl.
    - apply Hins. exact Hs.
    - intros v Hv. rewrite (nth_impose sp (pj s) v Hl), (BM_closed_free N sp B v Hc Hv). apply pj_B. exact Hv.
  Qed.

  Lemma AP_step_in : forall s i, A s -> In i B -> step_i M i (pj s) = pj (step_i N i s).
  Proof.
    intros s i Hs Hi. pose proof (BM_closed_lt N sp B i Hc Hi) as Hil.
    pose proof (AP_wf s Hs) as Hwf.
    unfold step_i at 1. rewrite (AP_upd_in s i Hs Hi).
    apply (nth_ext _ _ false false).
    - rewrite set_nth_length, !pj_length. reflexivity.
    - intros v Hv. rewrite set_nth_length, pj_length in Hv.
      destruct (Nat.eq_dec i v) as [Heq|Hne].
      + subst v. rewrite nth_set_nth_eq by (rewrite pj_length; exact Hil).
        rewrite (pj_B _ i Hi). unfold step_i.
        rewrite nth_set_nth_eq by (unfold wf_state in Hwf; lia). reflexivity.
      + rewrite nth_set_nth_neq by exact Hne. rewrite !nth_pj by exact Hv.
        destruct (mem_nat v B); [|reflexivity].
        unfold step_i. rewrite nth_set_nth_neq by exact Hne. reflexivity.
  Qed.

  Lemma AP_step_out : forall s i, ~ In i B -> pj (step_i N i s) = pj s.
  Proof.
    intros s i Hi. apply (nth_ext _ _ false false).
    - rewrite !pj_length. reflexivity.
    - intros v Hv. rewrite pj_length in Hv. rewrite !nth_pj by exact Hv.
      destruct (mem_nat v B) eqn:E; [|reflexivity].
      apply BM_mem_nat_In in E. unfold step_i. apply nth_set_nth_neq.
      intro Heq. subst v. contradiction.
  Qed.

  Lemma AP_step_A : forall s i, A s -> i < nvars N -> A (step_i N i s).
  Proof.
    intros s i Hs Hi. destruct (A_state_eq_dec (step_i N i s) s) as [He|Hne].
    - rewrite He. exact Hs.
    - destruct Hatt as (_ & _ & Hcl & _). apply (Hcl s (step_i N i s) Hs).
      exists i. split; [exact Hi|]. split; [reflexivity|exact Hne].
  Qed.

  Lemma AP_reach : forall x y, reach N x y -> A x -> reach M (pj x) (pj y).
  Proof.
    intros x y Hr. unfold reach in Hr.
    induction Hr as [x y Ht | x | x y z H1 IH1 H2 IH2]; intros Hx.
    - destruct Ht as [i [Hi [Hy Hne]]]. subst y.
      destruct (mem_nat i B) eqn:E.
      + apply BM_mem_nat_In in E. rewrite <- (AP_step_in x i Hx E).
        destruct (A_state_eq_dec (step_i M i (pj x)) (pj x)) as [He|Hd].
        * rewrite He. apply rt_refl.
        * apply rt_step. exists i. split; [unfold M; rewrite sub_net_nvars; exact Hi|].
          split; [reflexivity|exact Hd].
      + apply BM_mem_nat_false in E. rewrite (AP_step_out x i E). apply rt_refl.
    - apply rt_refl.
    - apply (rt_trans _ _ _ (pj y)); [apply IH1; exact Hx|]. apply IH2.
      destruct Hatt as (_ & _ & Hcl & _). apply (A_closed_reach N A x y Hcl Hx H1).
  Qed.

  Definition PA : state -> Prop := fun t => exists s, A s /\ t = pj s.

  Lemma AP_attractor : attractor M PA.
  Proof.
    split; [|split; [|split]].
    - destruct Hatt as ((s0 & Hs0) & _). exists (pj s0). exists s0. split; [exact Hs0|reflexivity].
    - intros t [s [Hs Ht]]. subst t. apply pj_wfM. apply pj_length.
    - intros t t' [s [Hs Ht]] [i [Hi [Ht' Hne]]]. subst t.
      unfold M in Hi. rewrite sub_net_nvars in Hi.
      destruct (mem_nat i B) eqn:E.
      + apply BM_mem_nat_In in E. exists (step_i N i s). split; [apply AP_step_A; assumption|].
        rewrite Ht'. apply AP_step_in; assumption.
      + exfalso. apply Hne. rewrite Ht'. unfold step_i. apply BM_mem_nat_false in E.
        unfold M. rewrite (sub_net_upd_out N sp B i (pj s) Hi E).
        pose proof (pj_out s i Hi E) as Hp. unfold cv in Hp. rewrite <- Hp. apply set_nth_same. rewrite pj_length. exact Hi.
    - intros t1 t2 [s1 [Hs1 Ht1]] [s2 [Hs2 Ht2]]. subst t1 t2.
      apply AP_reach; [|exact Hs1]. destruct Hatt as (_ & _ & _ & Hmut). apply Hmut; assumption.
  Qed.

  (* the projection lies in a sub-diagram space T as soon as A matches T on the component *)
  Lemma AP_inside : forall T, subT N sp B T ->
    (forall s v b, A s -> In v B -> nth v T None = Some b -> nth v s false = b) -> inside PA T.
  Proof.
    intros T HT Hag t [s [Hs Ht]]. subst t.
    pose proof (G_len N sp B T HT) as HlT.
    apply in_space_nth; [rewrite pj_length, HlT; reflexivity|].
    intros v b Hv.
    assert (Hvl : v < nvars N) by (rewrite <- HlT; apply (nth_some_lt T v b Hv)).
    destruct (mem_nat v B) eqn:E.
    - apply BM_mem_nat_In in E. rewrite (pj_B s v E). apply (Hag s v b Hs E Hv).
    - apply BM_mem_nat_false in E. rewrite (pj_out s v Hvl E).
      rewrite (G_out N sp B T v HT Hvl E) in Hv. injection Hv as Hv. exact Hv.
  Qed.
End AProj.

(* ====================================================================== *)
(* 3. a copied edge carries attractors when the sub-diagram edge does      *)
(* ====================================================================== *)

Lemma nth_only_on : forall B m v, nth v (only_on B m) None = if mem_nat v B then nth v m None else None.
Proof.
  intros B m v. unfold only_on. destruct (lt_dec v (length m)) as [Hv|Hv].
  - apply (BM_nth_map_seq _ (fun v => if mem_nat v B then nth v m None else None) (length m) v None Hv).
  - rewrite nth_overflow by (rewrite map_length, seq_length; lia).
    rewrite (nth_overflow m) by lia. destruct (mem_nat v B); reflexivity.
Qed.

Lemma attach_carry : forall N sp B Asp Ta Tb m,
  trap_space N sp -> closed_in N sp B ->
  trap_space N Asp -> subspace Asp sp = true -> (forall v, In v B -> nth v Asp None = None) ->
  subT N sp B Ta -> subT N sp B Tb ->
  carries (sub_net N sp B) Ta m Tb ->
  carries N (Pf N B Asp Ta) (only_on B m) (Pf N B Asp Tb).
Proof.
  intros N sp B Asp Ta Tb m HtS Hc HtA HAsp HAfree HTa HTb Hcar A Hatt Hin Hag.
  pose proof (trap_space_length N Asp HtA) as HlA.
  pose proof (G_len N sp B Ta HTa) as HlTa.
  pose proof (G_len N sp B Tb HTb) as HlTb.
  assert (HlP : length (Pf N B Asp Ta) = nvars N).
  { unfold Pf. rewrite percolate_b_length, graft_length. exact HlA. }
  assert (HinA : inside A Asp) by (apply (inside_sub A _ Asp Hin); apply (G_sub_A N B Asp HtA HAfree)).
  assert (Hinsp : inside A sp) by (apply (inside_sub A Asp sp HinA HAsp)).
  pose proof (AP_attractor N sp B HtS Hc A Hatt Hinsp) as HattP.
  assert (HPTa : inside (PA N sp B A) Ta).
  { apply (AP_inside N sp B Hc A Ta HTa). intros s v b Hs Hv Hn.
    pose proof (Hin s Hs) as HsP.
    apply (proj1 (in_space_nth s _ (in_space_length s _ HsP)) HsP v b).
    rewrite (G_B N sp B HtS Hc Asp HtA HAsp HAfree Ta v HTa Hv). exact Hn. }
  assert (HagP : agrees_free (PA N sp B A) Ta m).
  { intros t v b [s [Hs Ht]] Hvl Hm Hfree. subst t. rewrite HlTa in Hvl.
    destruct (mem_nat v B) eqn:E.
    - apply BM_mem_nat_In in E. rewrite (pj_B N sp B Hc s v E).
      apply (Hag s v b Hs); [rewrite HlP; exact Hvl| |].
      + rewrite nth_only_on, (proj2 (BM_mem_nat_In v B) E). exact Hm.
      + rewrite (G_B N sp B HtS Hc Asp HtA HAsp HAfree Ta v HTa E). exact Hfree.
    - apply BM_mem_nat_false in E. rewrite (G_out N sp B Ta v HTa Hvl E) in Hfree. discriminate. }
  pose proof (Hcar _ HattP HPTa HagP) as HPTb.
  assert (Hg : forall s, A s -> in_space s (graft B Tb Asp) = true).
  { intros s Hs. pose proof (HinA s Hs) as HsA.
    apply in_space_nth; [rewrite graft_length; apply (in_space_length s Asp HsA)|].
    intros v b Hv.
    assert (Hvl : v < length Asp) by (rewrite <- (graft_length B Tb Asp); apply (nth_some_lt _ v b Hv)).
    rewrite (nth_graft B Tb Asp v Hvl) in Hv. destruct (mem_nat v B) eqn:E.
    - apply BM_mem_nat_In in E. rewrite <- (pj_B N sp B Hc s v E).
      assert (Hp : in_space (pj N sp B s) Tb = true) by (apply HPTb; exists s; split; [exact Hs|reflexivity]).
      apply (proj1 (in_space_nth _ Tb (in_space_length _ Tb Hp)) Hp v b Hv).
    - apply (proj1 (in_space_nth s Asp (in_space_length s Asp HsA)) HsA v b Hv). }
  unfold inside, Pf.
  apply (attractor_in_percolation N A (graft B Tb Asp) Hatt (G_trap N sp B HtS Hc Asp HtA HAsp HAfree Tb HTb) Hg).
Qed.

(* ====================================================================== *)
(* 4. EC is preserved by the elementary diagram operations                 *)
(* ====================================================================== *)

Lemma good_edge_spaces : forall N d d' e,
  n_space (get d' (e_src e)) = n_space (get d (e_src e)) ->
  n_space (get d' (e_dst e)) = n_space (get d (e_dst e)) ->
  good_edge N d e -> good_edge N d' e.
Proof.
  intros N d d' e H1 H2 [Hne Hc]. split; [exact Hne|]. rewrite H1, H2. exact Hc.
Qed.

Lemma EC_same : forall N d d', sd_edges d' = sd_edges d ->
  (forall i, n_space (get d' i) = n_space (get d i)) -> EC N d -> EC N d'.
Proof.
  intros N d d' He Hs H e Hin. rewrite He in Hin.
  apply (good_edge_spaces N d d' e (Hs _) (Hs _)). apply H. exact Hin.
Qed.

Lemma EC_upd_flag : forall N d i f, flag_setter f -> EC N d -> EC N (upd_node d i f).
Proof.
  intros N d i f Hf H. apply (EC_same N d); [apply sd_edges_upd_node| |exact H].
  intro j. apply n_space_upd_flag. exact Hf.
Qed.

Lemma EC_set_empty_seeds : forall N d i, EC N d -> EC N (set_empty_seeds d i).
Proof.
  intros N d i H. apply (set_empty_seeds_flag (EC N)); [|exact H].
  intros d0 f Hf H0. apply EC_upd_flag; assumption.
Qed.

Lemma EC_clear_cands : forall N d i, EC N d -> EC N (clear_cands d i).
Proof.
  intros N d i H. apply (clear_cands_flag (EC N)); [|exact H].
  intros d0 f Hf H0. apply EC_upd_flag; assumption.
Qed.

Lemma EC_discard_if_stub : forall N d i, EC N d -> EC N (discard_if_stub d i).
Proof.
  intros N d i H. unfold discard_if_stub. destruct (n_exp (get d i) && negb (n_skip (get d i))); [exact H|].
  apply EC_upd_flag; [constructor|exact H].
Qed.

(* the diagram grows, its edge list is unchanged *)
Lemma EC_extends_same : forall N d d', WI N d -> extends d d' -> sd_edges d' = sd_edges d -> EC N d -> EC N d'.
Proof.
  intros N d d' (_ & _ & Hb) Hext He H e Hin. rewrite He in Hin. destruct (Hb e Hin) as [H1 H2].
  apply (good_edge_spaces N d d' e (extends_space d d' _ Hext H1) (extends_space d d' _ Hext H2)).
  apply H. exact Hin.
Qed.

(* one motif is written on the edge p -> c *)
Lemma EC_edge_added : forall N d d' p c m, WI N d ->
  (forall i, i < size d -> n_space (get d' i) = n_space (get d i)) ->
  sd_edges d' = edge_added d p c m -> EC N d ->
  carries N (n_space (get d' p)) m (n_space (get d' c)) -> EC N d'.
Proof.
  intros N d d' p c m (_ & _ & Hb) Hsp He H Hcar e Hin. rewrite He in Hin.
  assert (Hold : forall e0, In e0 (sd_edges d) -> good_edge N d' e0).
  { intros e0 H0. destruct (Hb e0 H0) as [H1 H2].
    apply (good_edge_spaces N d d' e0 (Hsp _ H1) (Hsp _ H2)). apply H. exact H0. }
  unfold edge_added in Hin. destruct (has_edge d p c).
  - apply add_motif_In in Hin. destruct Hin as [Hin|(e0 & Hin & Hs & Hd & Heq)]; [apply Hold; exact Hin|].
    subst e. unfold with_motif. destruct (Hold e0 Hin) as [_ Hc0]. rewrite Hs, Hd in Hc0.
    split; simpl; [destruct (e_motifs e0); discriminate|].
    intros m0 Hm0. apply in_app_or in Hm0. destruct Hm0 as [Hm0|[Hm0|[]]]; [apply Hc0; exact Hm0|].
    subst m0. exact Hcar.
  - apply in_app_or in Hin. destruct Hin as [Hin|[Hin|[]]]; [apply Hold; exact Hin|].
    subst e. split; simpl; [discriminate|]. intros m0 [Hm0|[]]. subst m0. exact Hcar.
Qed.

Lemma EC_ensure_edge : forall N d p c m, WI N d -> EC N d ->
  carries N (n_space (get d p)) m (n_space (get d c)) -> EC N (ensure_edge d p c m).
Proof.
  intros N d p c m Hw H Hcar.
  apply (EC_edge_added N d _ p c m Hw); [intros i _; apply n_space_ensure_edge|apply sd_edges_ensure_edge|exact H|].
  rewrite !n_space_ensure_edge. exact Hcar.
Qed.

Lemma EC_ensure_root : forall N d m, WI N d -> EC N d -> EC N (fst (ensure_node N d None m)).
Proof.
  intros N d m Hw H. apply (EC_extends_same N d); [exact Hw|apply ensure_node_extends| |exact H].
  apply (sd_edges_ensure_node N d None m).
Qed.

Lemma EC_ensure_child : forall N d p m, WI N d -> EC N d -> p < size d -> trap_space N m ->
  subspace m (n_space (get d p)) = true -> EC N (fst (ensure_node N d (Some p) m)).
Proof.
  intros N d p m Hw H Hp Ht Hsub.
  pose proof (ensure_node_extends N d (Some p) m) as Hext.
  destruct (WI_ensure_node N d (Some p) m Hw Ht) as (_ & _ & Hsp).
  { intros p0 E. injection E as E. subst p0. exact Hp. }
  apply (EC_edge_added N d _ p (snd (ensure_node N d (Some p) m)) m Hw).
  - intros i Hi. apply (extends_space d _ i Hext Hi).
  - apply sd_edges_ensure_child.
  - exact H.
  - rewrite Hsp, (extends_space d _ p Hext Hp). apply carries_trap; assumption.
Qed.

Lemma EC_ensure_all : forall N subs d p, WI N d -> EC N d -> p < size d ->
  (forall m, In m subs -> trap_space N m /\ subspace m (n_space (get d p)) = true) ->
  EC N (ensure_all N d p subs).
Proof.
  intros N subs. induction subs as [|m r IH]; intros d p Hw H Hp Hm; [exact H|].
  rewrite ensure_all_cons.
  destruct (Hm m (or_introl eq_refl)) as [Ht Hsub].
  destruct (WI_ensure_node N d (Some p) m Hw Ht) as (Hw1 & _ & _).
  { intros p0 E. injection E as E. subst p0. exact Hp. }
  pose proof (ensure_node_extends N d (Some p) m) as Hext.
  apply IH; [exact Hw1|apply EC_ensure_child; assumption|apply (extends_lt d _ p Hext Hp)|].
  intros m0 Hm0. rewrite (extends_space d _ p Hext Hp). apply Hm. right. exact Hm0.
Qed.

Lemma EC_expand_one : forall N cfg d i, WI N d -> EC N d -> i < size d -> EC N (fst (expand_one N cfg d i)).
Proof.
  intros N cfg d i Hw H Hi. unfold expand_one. cbv zeta.
  destruct (n_exp (get d i)); [exact H|].
  assert (Hw0 : WI N (upd_node d i clear_attr)) by (apply WI_upd_flag; [constructor|exact Hw]).
  assert (H0 : EC N (upd_node d i clear_attr)) by (apply EC_upd_flag; [constructor|exact H]).
  destruct (is_full (n_space (get d i))); [simpl; apply EC_upd_flag; [constructor|exact H0]|].
  match goal with |- context [if ?c then _ else _] => destruct c end; [exact H0|].
  simpl. apply EC_upd_flag; [constructor|].
  apply EC_ensure_all; [exact Hw0|exact H0|rewrite size_upd_node; exact Hi|].
  intros m Hm. apply In_firstn_in in Hm. apply sort_by_key_In in Hm.
  destruct (WI_get N d i Hw Hi) as [Htr _].
  apply (max_traps_b_spec_srcs N _ _ m (trap_space_length N _ Htr)) in Hm.
  destruct Hm as (Ht & [Hsub _] & _). split; [exact Ht|].
  rewrite n_space_upd_flag by constructor. exact Hsub.
Qed.

Lemma EC_node_successors : forall N cfg d i, WI N d -> EC N d -> i < size d ->
  EC N (fst (fst (node_successors N cfg d i))).
Proof.
  intros N cfg d i Hw H Hi. rewrite node_successors_fst. apply EC_expand_one; assumption.
Qed.

(* ====================================================================== *)
(* 5. attaching a component sub-diagram                                    *)
(* ====================================================================== *)

Lemma first_motif_carries : forall N' sub a b, EC N' sub -> In b (successors sub a) ->
  carries N' (n_space (get sub a)) (first_motif sub a b) (n_space (get sub b)).
Proof.
  intros N' sub a b H Hb. unfold first_motif.
  destruct (find (fun e => Nat.eqb (e_src e) a && Nat.eqb (e_dst e) b) (sd_edges sub)) as [e|] eqn:Ef.
  - apply find_some in Ef. destruct Ef as [Hin Hp]. apply andb_true_iff in Hp. destruct Hp as [H1 H2].
    apply Nat.eqb_eq in H1. apply Nat.eqb_eq in H2.
    destruct (H e Hin) as [Hne Hc]. rewrite H1, H2 in Hc. apply Hc.
    destruct (e_motifs e) as [|m0 r]; [contradiction|]. left. reflexivity.
  - exfalso. destruct (SCCTerm.successors_edge sub a b Hb) as (e & Hin & H1 & H2).
    pose proof (find_none _ _ Ef e Hin) as Hf. simpl in Hf. rewrite H1, H2, !Nat.eqb_refl in Hf. discriminate.
Qed.

Lemma WI_subT : forall N sp B sub i, WI (sub_net N sp B) sub -> i < size sub -> subT N sp B (n_space (get sub i)).
Proof.
  intros N sp B sub i Hw Hi. destruct (WI_get _ sub i Hw Hi) as [Ht Hp].
  split; [exact Ht|]. apply (proj1 (percolate_b_fixed_iff_closed _ _ (trap_space_length _ _ Ht)) Hp).
Qed.

Lemma an_step_EC : forall N B sub A i d mins,
  trap_space N (graft B (n_space (get sub i)) A) -> WI N d -> EC N d ->
  WI N (fst (fst (an_step N B sub A i d mins))) /\ EC N (fst (fst (an_step N B sub A i d mins))) /\
  snd (fst (an_step N B sub A i d mins)) < size (fst (fst (an_step N B sub A i d mins))) /\
  n_space (get (fst (fst (an_step N B sub A i d mins))) (snd (fst (an_step N B sub A i d mins)))) =
    Pf N B A (n_space (get sub i)).
Proof.
  intros N B sub A i d mins HtG Hw H. unfold an_step, Pf.
  destruct (WI_ensure_node N d None (graft B (n_space (get sub i)) A) Hw HtG) as (H1 & H2 & H3);
    [intros p E; discriminate|].
  pose proof (EC_ensure_root N d (graft B (n_space (get sub i)) A) Hw H) as H4.
  destruct (ensure_node N d None (graft B (n_space (get sub i)) A)) as [d1 mid]. simpl in H1, H2, H3, H4.
  destruct (is_minimal sub i); simpl.
  - split; [exact H1|]. split; [exact H4|]. split; [exact H2|exact H3].
  - split; [apply WI_upd_flag; [constructor|apply WI_discard_if_stub; exact H1]|].
    split; [apply EC_upd_flag; [constructor|apply EC_discard_if_stub; exact H4]|].
    assert (He : extends d1 (upd_node (discard_if_stub d1 mid) mid (fun y => set_exp y true))).
    { eapply extends_trans; [apply discard_if_stub_extends|apply upd_flag_extends; constructor]. }
    split; [apply (extends_lt d1 _ mid He H2)|]. rewrite (extends_space d1 _ mid He H2). exact H3.
Qed.

Section Attach.
  Variables (N : net) (sp : space) (B : list nat) (sub : sd).
  Hypothesis HtS : trap_space N sp.
  Hypothesis Hc : closed_in N sp B.
  Hypothesis Hwsub : WI (sub_net N sp B) sub.
  Hypothesis Hecsub : EC (sub_net N sp B) sub.
  Variable A : space.
  Hypothesis HtA : trap_space N A.
  Hypothesis HAsp : subspace A sp = true.
  Hypothesis HAfree : forall v, In v B -> nth v A None = None.

  Let T := fun j => n_space (get sub j).

  Lemma attach_edges_EC : forall map_ pairs d d2, WI N d -> EC N d ->
    (forall a b, In (a, b) pairs -> a < size sub /\ In b (successors sub a)) ->
    (forall j, j < size sub -> nth j map_ 0 < size d /\ n_space (get d (nth j map_ 0)) = Pf N B A (T j)) ->
    attach_edges B sub map_ pairs d = Some d2 -> WI N d2 /\ EC N d2.
  Proof.
    intros map_ pairs. induction pairs as [|[a b] r IH]; intros d d2 Hw H Hp Hmap He.
    - rewrite attach_edges_nil in He. injection He as He. subst d2. split; assumption.
    - rewrite attach_edges_cons in He. destruct (Nat.eqb (nth a map_ 0) (nth b map_ 0)); [discriminate|].
      destruct (Hp a b (or_introl eq_refl)) as [Ha Hb].
      pose proof (WI_successors _ sub a b Hwsub Hb) as Hbl.
      destruct (Hmap a Ha) as [Ma1 Ma2]. destruct (Hmap b Hbl) as [Mb1 Mb2].
      apply (IH (ensure_edge d (nth a map_ 0) (nth b map_ 0) (only_on B (first_motif sub a b))) d2);
        [apply WI_ensure_edge; assumption| | | |exact He].
      + apply EC_ensure_edge; [exact Hw|exact H|]. rewrite Ma2, Mb2.
        apply (attach_carry N sp B A (T a) (T b) _ HtS Hc HtA HAsp HAfree
                 (WI_subT N sp B sub a Hwsub Ha) (WI_subT N sp B sub b Hwsub Hbl)).
        apply first_motif_carries; assumption.
      + intros a0 b0 Hin. apply Hp. right. exact Hin.
      + intros j Hj. rewrite size_ensure_edge, n_space_ensure_edge. apply Hmap. exact Hj.
  Qed.
End Attach.

Lemma attach_scc_EC : forall N cm sp B rest sub d a tape,
  attach_env N sp B rest sub -> WI (sub_net N sp B) sub -> EC (sub_net N sp B) sub ->
  n_space (get sub 0) = Rsub N sp B ->
  WI N d -> EC N d -> good_at sp (B :: rest) d a ->
  EC N (fst (fst (fst (attach_scc N cm B sub d a tape)))).
Proof.
  intros N cm sp B rest sub d a tape Henv Hwsub Hecsub Hroot0 Hw Hec Hga.
  rewrite attach_scc_unfold.
  destruct (Nat.eqb (size sub) 1) eqn:Esz; [exact Hec|].
  pose proof Hga as (Ha & HAsp & HAfree0).
  destruct (WI_get N d a Hw Ha) as [HtA HApc].
  set (A := n_space (get d a)) in *.
  assert (HAfree : forall v, In v B -> nth v A None = None).
  { intros v Hv. apply (HAfree0 B v); [left; reflexivity|exact Hv]. }
  pose proof (ae_trap _ _ _ _ _ Henv) as HtS.
  pose proof (ae_pc _ _ _ _ _ Henv) as Hpc.
  pose proof (ae_closed _ _ _ _ _ Henv) as Hc.
  assert (Hpos : 0 < size sub) by (destruct Hwsub as (Hp & _); exact Hp).
  pose proof (G_root N sp B HtS Hpc Hc A HAfree HApc) as Hroot.
  set (T := fun j => n_space (get sub j)).
  set (P := fun (d' : sd) (map_ mins : list nat) =>
    WI N d' /\ EC N d' /\ 1 <= length map_ /\
    (forall j, j < length map_ -> nth j map_ 0 < size d' /\ n_space (get d' (nth j map_ 0)) = Pf N B A (T j))).
  destruct (attach_nodes_inv_pos P N cm B sub A 1 (size sub)) with (n := size sub - 1) (k := 1) (d := d)
    (map_ := [a]) (mins := @nil nat) (tape := tape) as (m & mi & HP & Heq).
  - intros i d0 map_ mins Hi Hlen (Hw0 & Hec0 & Hl0 & Hmap0).
    assert (Hil : i < size sub) by lia.
    assert (HtG : trap_space N (graft B (n_space (get sub i)) A)).
    { apply (G_trap N sp B HtS Hc A HtA HAsp HAfree). apply WI_subT; assumption. }
    destruct (an_step_EC N B sub A i d0 mins HtG Hw0 Hec0) as (Hw2 & Hec2 & Hmid & Hspm).
    pose proof (an_step_extends N B sub A i d0 mins) as He2.
    set (d2 := fst (fst (an_step N B sub A i d0 mins))) in *.
    set (mid := snd (fst (an_step N B sub A i d0 mins))) in *.
    assert (Hlast : nth (length map_) (map_ ++ [mid]) 0 = mid).
    { rewrite app_nth2 by lia. rewrite Nat.sub_diag. reflexivity. }
    assert (K : forall d', WI N d' -> EC N d' -> extends d2 d' -> P d' (map_ ++ [mid]) (snd (an_step N B sub A i d0 mins))).
    { intros d' Hw' Hec' He'.
      assert (He0' : extends d0 d') by (eapply extends_trans; eassumption).
      split; [exact Hw'|]. split; [exact Hec'|]. split; [rewrite app_length; simpl; lia|].
      intros j Hj. rewrite app_length in Hj. simpl in Hj.
      destruct (Nat.eq_dec j (length map_)) as [Ej|Ej].
      - subst j. rewrite Hlast. split; [apply (extends_lt _ d' _ He' Hmid)|].
        rewrite (extends_space _ d' _ He' Hmid), Hspm, Hlen. reflexivity.
      - assert (Hj' : j < length map_) by lia. rewrite app_nth1 by exact Hj'.
        destruct (Hmap0 j Hj') as [M1 M2].
        split; [apply (extends_lt d0 d' _ He0' M1)|]. rewrite (extends_space d0 d' _ He0' M1). exact M2. }
    split.
    + apply K; [exact Hw2|exact Hec2|apply extends_refl].
    + apply K; [apply WI_set_empty_seeds; exact Hw2|apply EC_set_empty_seeds; exact Hec2|apply set_empty_seeds_extends].
  - lia.
  - apply Nat.eqb_neq in Esz. lia.
  - reflexivity.
  - split; [exact Hw|]. split; [exact Hec|]. split; [simpl; lia|].
    intros j Hj. simpl in Hj. assert (j = 0) by lia. subst j. simpl. split; [exact Ha|].
    unfold T. rewrite Hroot0, Hroot. reflexivity.
  - cbv zeta. fold A.
    set (r := attach_nodes N cm B sub A (seq 1 (size sub - 1)) d [a] [] tape) in *.
    destruct HP as (Hw1 & Hec1 & Hl1 & Hmap).
    destruct (snd (fst r)) as [[map_ mins]|] eqn:Er; [|simpl; exact Hec1].
    destruct (Heq map_ mins eq_refl) as (E1 & E2 & E3). subst m mi.
    assert (Hlm : length map_ = size sub) by (apply Nat.eqb_neq in Esz; lia).
    set (pairs := flat_map (fun a0 => map (fun b => (a0, b)) (successors sub a0)) (seq 0 (size sub))).
    assert (Hpairs : forall x y, In (x, y) pairs -> x < size sub /\ In y (successors sub x)).
    { intros x y. unfold pairs. rewrite in_flat_map.
      intros (x0 & Hx0 & Hin). apply in_map_iff in Hin. destruct Hin as (y0 & Eq & Hy0).
      injection Eq as Eq1 Eq2. subst x0 y0. apply in_seq in Hx0. split; [lia|exact Hy0]. }
    destruct (attach_edges B sub map_ pairs (fst (fst r))) as [d2|] eqn:Ee; [|simpl; exact Hec1].
    destruct (attach_edges_EC N sp B sub HtS Hc Hwsub Hecsub A HtA HAsp HAfree map_ pairs (fst (fst r)) d2
                Hw1 Hec1 Hpairs) as [Hw2 Hec2]; [|exact Ee|].
    { intros j Hj. apply Hmap. lia. }
    apply (as_close_cases (EC N)); [|exact Hec2].
    intros d0 f Hf H0. apply EC_upd_flag; assumption.
Qed.

(* ====================================================================== *)
(* 6. all attach points, all components, the level loop, the main function *)
(* ====================================================================== *)

Lemma attach_all_EC : forall N cm sp B rest sub, attach_env N sp B rest sub ->
  WI (sub_net N sp B) sub -> EC (sub_net N sp B) sub -> n_space (get sub 0) = Rsub N sp B ->
  forall ats d acc tape, WI N d -> EC N d ->
  (forall a, In a ats -> good_at sp (B :: rest) d a) ->
  EC N (fst (fst (fst (attach_all N cm B sub d ats acc tape)))).
Proof.
  intros N cm sp B rest sub Henv Hwsub Hecsub Hroot ats.
  induction ats as [|a r IH]; intros d acc tape Hw Hec Hats.
  - rewrite attach_all_nil. exact Hec.
  - rewrite attach_all_cons. cbv zeta.
    destruct (attach_scc_WI N cm sp B rest sub d a tape Henv Hw (Hats a (or_introl eq_refl))) as [Hw1 _].
    pose proof (attach_scc_EC N cm sp B rest sub d a tape Henv Hwsub Hecsub Hroot Hw Hec (Hats a (or_introl eq_refl))) as Hec1.
    pose proof (attach_scc_extends N cm B sub d a tape) as He1.
    destruct (snd (fst (fst (attach_scc N cm B sub d a tape)))); simpl; try exact Hec1.
    apply IH; [exact Hw1|exact Hec1|].
    intros x Hx. apply (good_at_extends sp (B :: rest) d _ x He1). apply Hats. right. exact Hx.
Qed.

Definition exp_ec (expander : expander_t) : Prop :=
  exp_ok expander /\
  forall N' t', extends (init N') (fst (fst (expander N' (init N') t'))) /\
                EC N' (fst (fst (expander N' (init N') t'))).

Lemma scc_components_EC : forall expander N cm sp, exp_ec expander -> trap_space N sp -> perc_closed N sp ->
  forall comps d ats tape, (forall B, In B comps -> closed_in N sp B) -> pw_disj comps -> WI N d -> EC N d ->
  (forall a, In a ats -> good_at sp comps d a) ->
  EC N (fst (fst (fst (scc_components expander N cm sp comps d ats tape)))).
Proof.
  intros expander N cm sp [Hexp Hexe] HtS Hpc comps.
  induction comps as [|B r IH]; intros d ats tape Hcl Hpw Hw Hec Hats.
  - rewrite scc_components_nil. exact Hec.
  - rewrite scc_components_cons. cbv zeta.
    set (Nsub := sub_net N sp B).
    pose proof (Hexp Nsub (init Nsub) tape (init_WI Nsub)) as Hwsub.
    destruct (Hexe Nsub tape) as [Hesub Hecsub].
    set (e := expander Nsub (init Nsub) tape) in *.
    destruct (snd (fst e)) as [|[|]| | | |]; try exact Hec.
    destruct Hpw as [Hdis Hpw'].
    assert (Henv : attach_env N sp B r (fst (fst e))).
    { constructor; [exact HtS|exact Hpc|apply Hcl; left; reflexivity| |].
      - intros B' HB'. split; [apply Hcl; right; exact HB'|apply Hdis; exact HB'].
      - intros i Hi. apply (WI_get Nsub _ i Hwsub Hi). }
    assert (Hroot : n_space (get (fst (fst e)) 0) = Rsub N sp B).
    { assert (Hp0 : 0 < size (init Nsub)) by (apply (swf_size _ _ (init_SWF Nsub))).
      rewrite (extends_space _ _ 0 Hesub Hp0), init_root_space. reflexivity. }
    destruct (attach_all_WI N cm sp B r (fst (fst e)) Henv ats d [] (snd e) Hw Hats) as [Hw1 Hm1];
      [intros a []|].
    pose proof (attach_all_EC N cm sp B r (fst (fst e)) Henv Hwsub Hecsub Hroot ats d [] (snd e) Hw Hec Hats) as Hec1.
    destruct (snd (fst (fst (attach_all N cm B (fst (fst e)) d ats [] (snd e))))); simpl; try exact Hec1.
    apply IH; [intros B' HB'; apply Hcl; right; exact HB'|exact Hpw'|exact Hw1|exact Hec1|exact Hm1].
Qed.

Lemma lvl_succ_EC : forall N cfg d x next tape, WI N d -> EC N d -> x < size d ->
  EC N (lvl_out_sd (lvl_succ N cfg d x next tape)).
Proof.
  intros N cfg d x next tape Hw Hec Hx. unfold lvl_succ. cbv zeta.
  pose proof (EC_node_successors N cfg d x Hw Hec Hx) as H.
  destruct (snd (fst (node_successors N cfg d x))); exact H.
Qed.

Lemma lvl_one_EC : forall expander N cfg cm d x next tape, exp_ec expander -> WI N d -> EC N d -> x < size d ->
  EC N (lvl_out_sd (lvl_one expander N cfg cm d x next tape)).
Proof.
  intros expander N cfg cm d x next tape Hexp Hw Hec Hx. unfold lvl_one. cbv zeta.
  destruct (WI_get N d x Hw Hx) as [HtS Hperc].
  pose proof (trap_space_length N _ HtS) as HS.
  pose proof (proj1 (percolate_b_fixed_iff_closed N _ HS) Hperc) as Hpc.
  destruct (source_sccs_items N (n_space (get d x))) as [Hitems Hpw].
  destruct (source_sccs N (n_space (get d x))) as [|c1 [|c2 cr]] eqn:Ecomps.
  - pose proof (EC_node_successors N cfg d x Hw Hec Hx) as H.
    destruct (snd (fst (node_successors N cfg d x))); try exact H.
    destruct (snd (node_successors N cfg d x)); exact H.
  - apply lvl_succ_EC; assumption.
  - set (comps := c1 :: c2 :: cr) in *.
    assert (Hcl : forall B, In B comps -> closed_in N (n_space (get d x)) B).
    { intros B HB. apply scc_item_closed. apply Hitems. exact HB. }
    assert (Hga : forall a, In a [x] -> good_at (n_space (get d x)) comps d a).
    { intros a [Ha|[]]. subst a. split; [exact Hx|]. split; [apply subspace_refl|].
      intros B v HB Hv. apply (BM_closed_free N _ B v (Hcl B HB) Hv). }
    destruct (scc_components_WI expander N cm (n_space (get d x)) (proj1 Hexp) HtS Hpc comps d [x] tape Hcl Hpw Hw Hga)
      as [Hw1 _].
    pose proof (scc_components_EC expander N cm (n_space (get d x)) Hexp HtS Hpc comps d [x] tape Hcl Hpw Hw Hec Hga) as Hec1.
    pose proof (scc_components_extends expander N cm (n_space (get d x)) comps d [x] tape) as He.
    set (c := scc_components expander N cm (n_space (get d x)) comps d [x] tape) in *.
    destruct (snd (fst (fst c))) as [|[|]| | | |]; try exact Hec1.
    destruct (snd (fst c)) as [|y [|y2 yr]]; try exact Hec1.
    destruct (Nat.eqb y x); [|exact Hec1].
    apply lvl_succ_EC; [exact Hw1|exact Hec1|apply (extends_lt d _ x He Hx)].
Qed.

Lemma scc_level_EC : forall expander N cfg cm, exp_ec expander -> forall cur d next tape, WI N d -> EC N d ->
  (forall x, In x cur -> x < size d) -> (forall y, In y next -> y < size d) ->
  EC N (fst (fst (fst (scc_level expander N cfg cm d cur next tape)))).
Proof.
  intros expander N cfg cm Hexp cur. induction cur as [|x cur IH]; intros d next tape Hw Hec Hcur Hnext.
  - rewrite scc_level_nil. exact Hec.
  - rewrite scc_level_cons.
    pose proof (lvl_one_WI expander N cfg cm d x next tape (proj1 Hexp) Hw (Hcur x (or_introl eq_refl)) Hnext) as H1.
    pose proof (lvl_one_EC expander N cfg cm d x next tape Hexp Hw Hec (Hcur x (or_introl eq_refl))) as H2.
    pose proof (lvl_one_extends expander N cfg cm d x next tape) as He.
    destruct (lvl_one expander N cfg cm d x next tape) as [d1 r n1 t1|d1 n1 t1]; simpl in H1, H2, He.
    + simpl. exact H2.
    + destruct H1 as [Hw1 Hn1]. apply IH; [exact Hw1|exact H2| |exact Hn1].
      intros y Hy. apply (extends_lt d d1 y He). apply Hcur. right. exact Hy.
Qed.

Lemma scc_levels_EC : forall fuel expander N cfg cm, exp_ec expander -> forall d cur tape, WI N d -> EC N d ->
  (forall x, In x cur -> x < size d) ->
  EC N (fst (fst (scc_levels fuel expander N cfg cm d cur tape))).
Proof.
  intros fuel expander N cfg cm Hexp. induction fuel as [|f IH]; intros d cur tape Hw Hec Hcur.
  - rewrite scc_levels_O. exact Hec.
  - rewrite scc_levels_S. destruct cur as [|c0 cr]; [exact Hec|]. cbv zeta.
    assert (Hc' : forall x, In x (sort_nat (c0 :: cr)) -> x < size d).
    { intros x Hx. apply Hcur. apply sort_nat_In. exact Hx. }
    destruct (scc_level_WI expander N cfg cm (proj1 Hexp) (sort_nat (c0 :: cr)) d [] tape Hw Hc') as [Hw1 Hn1];
      [intros y []|].
    pose proof (scc_level_EC expander N cfg cm Hexp (sort_nat (c0 :: cr)) d [] tape Hw Hec Hc') as Hec1.
    destruct (snd (fst (fst (scc_level expander N cfg cm d (sort_nat (c0 :: cr)) [] tape)))); simpl;
      try (apply Hec1; intros y []).
    apply IH; [exact Hw1|apply Hec1; intros y []|exact Hn1].
Qed.

Lemma init_edges : forall N, sd_edges (init N) = [].
Proof.
  intro N. unfold init.
  rewrite (sd_edges_ensure_node N {| sd_nodes := []; sd_edges := [] |} None (top_space (nvars N))). reflexivity.
Qed.

Lemma init_EC : forall N, EC N (init N).
Proof. intros N e He. rewrite init_edges in He. destruct He. Qed.

Lemma scc_main_EC : forall fuel cfg cm N d tape, WI N d -> EC N d -> EC N (fst (fst (scc_main fuel N cfg cm d tape))).
Proof.
  intros fuel cfg cm. induction fuel as [|f IH]; intros N d tape Hw Hec.
  - rewrite scc_main_O. exact Hec.
  - rewrite scc_main_S. cbv zeta.
    assert (Hexp : exp_ec (fun N' d' t' => scc_main f N' cfg cm d' t')).
    { split.
      - intros N' d' t' Hw'. apply scc_main_WI. exact Hw'.
      - intros N' t'. split; [apply scc_main_extends|]. apply IH; [apply init_WI|apply init_EC]. }
    pose proof Hw as (Hpos & _ & _).
    destruct (sources_in_b N (n_space (get d 0))) as [|s0 sr] eqn:Es.
    + apply scc_levels_EC; [exact Hexp|exact Hw|exact Hec|]. intros x [Hx|[]]. subst x. exact Hpos.
    + destruct (Nat.ltb (max_motifs cfg) (Nat.pow 2 (length (s0 :: sr)))); [exact Hec|].
      destruct (WI_get N d 0 Hw Hpos) as [HtS _].
      assert (Htm : forall m, In m (ff_motifs N (n_space (get d 0))) -> trap_space N m).
      { intros m Hm. apply (ff_motif_trap N _ m HtS Hm). }
      assert (Hwa : WI N (ensure_all N d 0 (ff_motifs N (n_space (get d 0))))).
      { apply WI_ensure_all; assumption. }
      assert (Heca : EC N (ensure_all N d 0 (ff_motifs N (n_space (get d 0))))).
      { apply EC_ensure_all; [exact Hw|exact Hec|exact Hpos|]. intros m Hm. split; [apply Htm; exact Hm|].
        apply (ff_motif_spec N _ m (trap_space_length N _ HtS) Hm). }
      apply scc_levels_EC; [exact Hexp| | |].
      * apply WI_set_empty_seeds. apply WI_clear_cands. apply WI_upd_flag; [constructor|].
        rewrite ensure_children_fst. exact Hwa.
      * apply EC_set_empty_seeds. apply EC_clear_cands. apply EC_upd_flag; [constructor|].
        rewrite ensure_children_fst. exact Heca.
      * intros x Hx. apply union_nat_In in Hx. destruct Hx as [[]|Hx].
        rewrite size_set_empty_seeds, size_clear_cands, size_upd_node, ensure_children_fst.
        apply (WI_ensure_children_valid N _ d 0 [] Hw Hpos Htm) with (c := x); [intros a []|exact Hx].
Qed.

(* ====================================================================== *)
(* 7. descent to an owner                                                  *)
(* ====================================================================== *)

Lemma EC_owner_step : forall N d A x, WI N d -> EdgeStrict d -> EC N d -> attractor N A -> x < size d ->
  inside A (n_space (get d x)) ->
  owns N d x A \/
  exists c, c < size d /\ inside A (n_space (get d c)) /\
            strict_subspace (n_space (get d c)) (n_space (get d x)).
Proof.
  intros N d A x Hw Hes Hec Hatt Hx Hin.
  pose proof Hatt as ((s0 & Hs0) & _).
  destruct (existsb (inside_b (reach_list N s0)) (out_motifs d x)) eqn:Ex.
  - right. apply existsb_exists in Ex. destruct Ex as (m & Hm & Hb).
    apply (inside_b_iff N A s0 m Hatt Hs0) in Hb.
    unfold out_motifs in Hm. apply in_flat_map in Hm. destruct Hm as (e & He & Hme).
    unfold out_edges in He. apply filter_In in He. destruct He as [He Hsrc].
    apply Nat.eqb_eq in Hsrc.
    destruct Hw as (_ & _ & Hb'). destruct (Hb' e He) as [_ Hdst].
    exists (e_dst e). split; [exact Hdst|]. split.
    + destruct (Hec e He) as [_ Hc]. rewrite Hsrc in Hc.
      apply (Hc m Hme A Hatt Hin). apply inside_agrees. exact Hb.
    + rewrite <- Hsrc. apply Hes. exact He.
  - left. split; [exact Hx|]. split; [exact Hatt|]. split; [exact Hin|].
    intros (M & HM & HinM). apply F_existsb_false in Ex. apply Ex.
    exists M. split; [exact HM|]. apply (inside_b_iff N A s0 M Hatt Hs0). exact HinM.
Qed.

Lemma EC_descend : forall N d A, WI N d -> EdgeStrict d -> AllExpanded d -> EC N d -> attractor N A ->
  forall k x, x < size d -> inside A (n_space (get d x)) ->
    nvars N <= nfixed (n_space (get d x)) + k -> exists i, owns_exp N d i A.
Proof.
  intros N d A Hw Hes Hall Hec Hatt. induction k as [|k IH]; intros x Hx Hin Hk.
  - destruct (EC_owner_step N d A x Hw Hes Hec Hatt Hx Hin) as [Hown|(c & Hc & _ & Hst)].
    + exists x. split; [exact Hown|apply Hall; exact Hx].
    + exfalso. pose proof (strict_subspace_nfixed _ _ Hst) as Hlt.
      pose proof (nfixed_le_length (n_space (get d c))) as Hle.
      destruct (WI_get N d c Hw Hc) as [Ht _]. rewrite (trap_space_length N _ Ht) in Hle. lia.
  - destruct (EC_owner_step N d A x Hw Hes Hec Hatt Hx Hin) as [Hown|(c & Hc & Hinc & Hst)].
    + exists x. split; [exact Hown|apply Hall; exact Hx].
    + pose proof (strict_subspace_nfixed _ _ Hst) as Hlt. apply (IH c Hc Hinc). lia.
Qed.

Lemma EC_served : forall N d, WI N d -> EdgeStrict d -> AllExpanded d -> EC N d ->
  n_space (get d 0) = percolate_b N (top_space (nvars N)) -> AttrServed N d.
Proof.
  intros N d Hw Hes Hall Hec Hroot A Hatt.
  pose proof Hw as (Hpos & _).
  apply (EC_descend N d A Hw Hes Hall Hec Hatt (nvars N) 0 Hpos); [|lia].
  apply (attractor_in_root_space N d A Hroot Hatt).
Qed.

(* ====================================================================== *)
(* 8. the theorems                                                         *)
(* ====================================================================== *)

Theorem expand_scc_AttrServed : forall fuel N cfg d' tape, 1 <= max_motifs cfg ->
  expand_scc fuel N cfg (init N) false tape = (d', RBool true) -> AttrServed N d'.
Proof.
  intros fuel N cfg d' tape Hmm H.
  pose proof (expand_scc_AllExpanded fuel N cfg d' false tape Hmm H) as Hall.
  pose proof (expand_scc_EdgeStrict fuel N cfg (init N) false tape Hmm (init_SWF N) (init_TrapNodes N)
                (init_EdgeStrict N)) as Hes.
  pose proof (scc_main_WI fuel cfg false N (init N) tape (init_WI N)) as Hw.
  pose proof (scc_main_EC fuel cfg false N (init N) tape (init_WI N) (init_EC N)) as Hec.
  pose proof (scc_main_extends fuel N cfg false (init N) tape) as Hext.
  rewrite <- expand_scc_fst in Hw, Hec, Hext. rewrite H in Hes, Hw, Hec, Hext. simpl in Hes, Hw, Hec, Hext.
  apply (EC_served N d' Hw Hes Hall Hec).
  assert (Hp0 : 0 < size (init N)) by (apply (swf_size _ _ (init_SWF N))).
  rewrite (extends_space _ _ 0 Hext Hp0). apply init_root_space.
Qed.

(* hence: seeds that are exact for every expanded node represent every attractor at least once *)
Theorem expand_scc_every_attractor_reported : forall fuel N cfg d' tape seeds, 1 <= max_motifs cfg ->
  expand_scc fuel N cfg (init N) false tape = (d', RBool true) -> exp_seeds_ok N d' seeds ->
  forall A, attractor N A -> exists i s, i < size d' /\ n_exp (get d' i) = true /\ In s (seeds i) /\ A s.
Proof.
  intros fuel N cfg d' tape seeds Hmm H Hok A Hatt.
  destruct (expand_scc_AttrServed fuel N cfg d' tape Hmm H A Hatt) as (i & (Hi & Hna) & Hexp).
  destruct (Hok i Hi Hexp) as (_ & _ & _ & Hcov).
  destruct (Hcov A Hna) as (s & Hs & HAs).
  exists i, s. split; [exact Hi|]. split; [exact Hexp|]. split; [exact Hs|exact HAs].
Qed.

Print Assumptions expand_scc_AttrServed.
Print Assumptions expand_scc_every_attractor_reported.
