(* PySrcInitFacts.v -- SuccessionDiagram.__init__ as generated from the source (PySrcCore2.py_init) builds the model's initial diagram
   Diagram.init N and establishes the class invariant CoreInv. *)
From Coq Require Import List Bool Arith NArith Lia.
Import ListNotations.
From BB Require Import BN Brute Diagram Invariants DiagramStruct PyLib PyLibCore PySrcCore PySrcCoreFacts PyLibCore2 PySrcCore2.

Theorem py_init_spec : forall fuel N cfg pnc, 0 < fuel ->
  exists w, py_init fuel N cfg pnc = CNext w Datatypes.tt /\ p_sd w = init N /\ CoreInv N w.
Proof.
  intros fuel N cfg pnc Hf.
  destruct (init_CoreInv N) as [idx Hinv].
  unfold py_init, py_ensure_node. cbn -[percolate_b top_space space_key].
  eexists. split; [reflexivity|]. split.
  - unfold init, ensure_node. cbn -[percolate_b top_space space_key]. reflexivity.
  - destruct Hinv as (H1 & H2 & H3 & H4).
    unfold CoreInv. split; [|split; [|split]].
    + intro k. cbn -[percolate_b top_space space_key]. unfold find_key. cbn -[percolate_b top_space space_key]. reflexivity.
    + exact H2.
    + exact H3.
    + exact H4.
Qed.

Print Assumptions py_init_spec.
