(* MetaFacts.v -- representation independence (C17) and compositionality (C18):
   extensionally equal networks, polarity flips, disjoint unions and input
   restriction all preserve trap spaces / percolations / attractors up to the
   corresponding transformation. *)
From Coq Require Import List Bool Arith Lia Relations Permutation.
Import ListNotations.
From BB Require Import BN Brute SpaceFacts TrapFacts PercolateFacts AttractorFacts Meta.

(* ================================================================== *)
(** * 0. Generic helpers                                               *)
(* ================================================================== *)

(* two networks that agree (and stay) on an invariant set have the same reachability there *)
Lemma M_reach_agree : forall (N N' : net) (P : state -> Prop),
  (forall s t, P s -> trans N s t -> trans N' s t /\ P t) ->
  forall s t, P s -> reach N s t -> reach N' s t /\ P t.
Proof.
  intros N N' P Hag s t Hs Hr.
  apply clos_rt_rtn1 in Hr.
  induction Hr as [| y z Hyz Hr IH].
  - split; [apply rt_refl | exact Hs].
  - destruct IH as [IH1 IH2].
    destruct (Hag y z IH2 Hyz) as [Ht Hz].
    split; [| exact Hz].
    eapply rt_trans; [exact IH1 | apply rt_step; exact Ht].
Qed.

Lemma M_bool_eq_iff : forall a b : bool, (a = true <-> b = true) -> a = b.
Proof.
  intros a b H. destruct a, b; try reflexivity.
  - symmetry. apply H. reflexivity.
  - apply H. reflexivity.
Qed.

Lemma M_filter_ext_all : forall (A : Type) (f g : A -> bool) l,
  (forall x, f x = g x) -> filter f l = filter g l.
Proof.
  intros A f g l H. induction l as [| a l IH]; simpl.
  - reflexivity.
  - rewrite H, IH. reflexivity.
Qed.

Lemma M_perc_steps_length : forall N S T, clos_refl_trans_n1 space (perc_step N) S T ->
  length T = length S.
Proof.
  intros N S T H. induction H as [| y z Hyz _ IH]; [reflexivity |].
  rewrite (perc_step_length N y z Hyz). exact IH.
Qed.

(* ================================================================== *)
(** * 1. Extensionality                                                *)
(* ================================================================== *)

Lemma net_equiv_refl : forall N, net_equiv N N.
Proof. intros N. split; [reflexivity | intros; reflexivity]. Qed.

Lemma net_equiv_sym : forall N M, net_equiv N M -> net_equiv M N.
Proof.
  intros N M [Hn Hu]. split; [symmetry; exact Hn |].
  intros i s Hs. symmetry. apply Hu. rewrite Hn. exact Hs.
Qed.

Lemma net_equiv_trans : forall N M K, net_equiv N M -> net_equiv M K -> net_equiv N K.
Proof.
  intros N M K [Hn Hu] [Hn' Hu']. split; [congruence |].
  intros i s Hs. rewrite Hu by exact Hs. apply Hu'. rewrite <- Hn. exact Hs.
Qed.

Lemma M_equiv_trans_fwd : forall N M s t, net_equiv N M -> length s = nvars N ->
  trans N s t -> trans M s t.
Proof.
  intros N M s t [Hn Hu] Hs [i [Hi [Ht Hne]]].
  exists i. split; [rewrite <- Hn; exact Hi |]. split; [| exact Hne].
  rewrite Ht. unfold step_i. rewrite Hu by exact Hs. reflexivity.
Qed.

Theorem equiv_trans : forall N M s t, net_equiv N M -> length s = nvars N ->
  (trans N s t <-> trans M s t).
Proof.
  intros N M s t He Hs. split; intro H.
  - eapply M_equiv_trans_fwd; eauto.
  - eapply M_equiv_trans_fwd; [apply net_equiv_sym; exact He | | exact H].
    destruct He as [Hn _]. rewrite <- Hn. exact Hs.
Qed.

Lemma M_equiv_reach_fwd : forall N M s t, net_equiv N M -> wf_state N s ->
  reach N s t -> reach M s t.
Proof.
  intros N M s t He Hs Hr.
  apply (M_reach_agree N M (wf_state N)) with (s := s); try assumption.
  intros x y Hx Hxy. split.
  - apply (equiv_trans N M x y He Hx). exact Hxy.
  - eapply trans_wf; eauto.
Qed.

Lemma equiv_reach : forall N M s t, net_equiv N M -> wf_state N s ->
  (reach N s t <-> reach M s t).
Proof.
  intros N M s t He Hs. split; intro H.
  - eapply M_equiv_reach_fwd; eauto.
  - eapply M_equiv_reach_fwd; [apply net_equiv_sym; exact He | | exact H].
    destruct He as [Hn _]. unfold wf_state in *. rewrite <- Hn. exact Hs.
Qed.

Lemma M_equiv_trap_space_fwd : forall N M S, net_equiv N M -> trap_space N S -> trap_space M S.
Proof.
  intros N M S He [Hw Hc]. pose proof He as [Hn Hu]. split.
  - unfold wf_space in *. rewrite <- Hn. exact Hw.
  - intros s t [Hs1 Hs2] Ht.
    assert (Hs1' : wf_state N s) by (unfold wf_state in *; rewrite Hn; exact Hs1).
    apply (equiv_trans N M s t He Hs1') in Ht.
    destruct (Hc s t (conj Hs1' Hs2) Ht) as [Ht1 Ht2].
    split; [unfold wf_state in *; rewrite <- Hn; exact Ht1 | exact Ht2].
Qed.

Theorem equiv_trap_space : forall N M S, net_equiv N M -> (trap_space N S <-> trap_space M S).
Proof.
  intros N M S He. split; apply M_equiv_trap_space_fwd; [exact He | apply net_equiv_sym; exact He].
Qed.

Lemma equiv_const_on : forall N M i S v, net_equiv N M -> (const_on N i S v <-> const_on M i S v).
Proof.
  intros N M i S v [Hn Hu]. unfold const_on, wf_state. split; intros H s Hs Hin.
  - rewrite <- Hu by (rewrite Hn; exact Hs). apply H; [rewrite Hn; exact Hs | exact Hin].
  - rewrite Hu by exact Hs. apply H; [rewrite <- Hn; exact Hs | exact Hin].
Qed.

Lemma M_equiv_perc_step : forall N M S T, net_equiv N M -> perc_step N S T -> perc_step M S T.
Proof.
  intros N M S T He Hst. destruct Hst as [S i v Hi Hfree Hc].
  constructor.
  - destruct He as [Hn _]. rewrite <- Hn. exact Hi.
  - exact Hfree.
  - apply (equiv_const_on N M i S v He). exact Hc.
Qed.

Lemma M_equiv_perc_steps : forall N M S P, net_equiv N M ->
  clos_refl_trans space (perc_step N) S P -> clos_refl_trans space (perc_step M) S P.
Proof.
  intros N M S P He Hst.
  induction Hst as [x y Hxy | x | x y z _ IH1 _ IH2].
  - apply rt_step. eapply M_equiv_perc_step; eauto.
  - apply rt_refl.
  - apply rt_trans with y; assumption.
Qed.

Lemma M_equiv_is_percolation : forall N M S P, net_equiv N M ->
  is_percolation N S P -> is_percolation M S P.
Proof.
  intros N M S P He [Hst Hcl]. split.
  - eapply M_equiv_perc_steps; eauto.
  - intros i v Hi Hfree Hc. destruct He as [Hn Hu].
    apply (Hcl i v); [rewrite Hn; exact Hi | exact Hfree |].
    apply (equiv_const_on N M i P v (conj Hn Hu)). exact Hc.
Qed.

Theorem equiv_percolate : forall N M S, net_equiv N M -> length S = nvars N ->
  percolate_b N S = percolate_b M S.
Proof.
  intros N M S He HS.
  apply percolate_b_unique.
  - destruct He as [Hn _]. rewrite <- Hn. exact HS.
  - apply (M_equiv_is_percolation N M S _ He).
    apply percolate_b_is_percolation. exact HS.
Qed.

Lemma equiv_is_trap_b : forall N M S, net_equiv N M -> is_trap_b N S = is_trap_b M S.
Proof.
  intros N M S He. apply M_bool_eq_iff.
  rewrite !is_trap_b_spec. apply equiv_trap_space. exact He.
Qed.

Lemma equiv_traps_in : forall N M S, net_equiv N M -> traps_in N S = traps_in M S.
Proof.
  intros N M S He. unfold traps_in. apply M_filter_ext_all.
  intros T. apply equiv_is_trap_b. exact He.
Qed.

Theorem equiv_max_traps : forall N M S srcs, net_equiv N M -> length S = nvars N ->
  max_traps_b N S srcs = max_traps_b M S srcs.
Proof.
  intros N M S srcs He _. unfold max_traps_b.
  rewrite (equiv_traps_in N M S He). reflexivity.
Qed.

Theorem equiv_min_traps : forall N M S, net_equiv N M -> length S = nvars N ->
  min_traps_b N S = min_traps_b M S.
Proof.
  intros N M S He _. unfold min_traps_b.
  rewrite (equiv_traps_in N M S He). reflexivity.
Qed.

Lemma M_equiv_attractor_fwd : forall N M (A : state -> Prop), net_equiv N M ->
  attractor N A -> attractor M A.
Proof.
  intros N M A He [Hne [Hwf [Hcl Hre]]]. pose proof He as [Hn Hu].
  split; [exact Hne |]. split; [| split].
  - intros s Hs. unfold wf_state. rewrite <- Hn. apply Hwf. exact Hs.
  - intros s t Hs Ht. apply (Hcl s t Hs).
    apply (equiv_trans N M s t He (Hwf s Hs)). exact Ht.
  - intros s t Hs Ht. apply (equiv_reach N M s t He (Hwf s Hs)). apply Hre; assumption.
Qed.

Theorem equiv_attractor : forall N M (A : state -> Prop), net_equiv N M ->
  (attractor N A <-> attractor M A).
Proof.
  intros N M A He. split; apply M_equiv_attractor_fwd; [exact He | apply net_equiv_sym; exact He].
Qed.

Lemma equiv_in_attractor : forall N M s, net_equiv N M -> (in_attractor N s <-> in_attractor M s).
Proof.
  assert (H : forall N M s, net_equiv N M -> in_attractor N s -> in_attractor M s).
  { intros N M s He [Hw Hr]. pose proof He as [Hn _].
    assert (Hw' : wf_state M s) by (unfold wf_state in *; rewrite <- Hn; exact Hw).
    split; [exact Hw' |].
    intros t Ht. apply (equiv_reach N M s t He Hw) in Ht.
    apply (equiv_reach N M t s He (reach_wf N s t Hw Ht)). apply Hr. exact Ht. }
  intros N M s He. split; apply H; [exact He | apply net_equiv_sym; exact He].
Qed.

(* ================================================================== *)
(** * 2. Polarity flips                                                *)
(* ================================================================== *)

Lemma flip_state_length : forall fl s, length fl = length s -> length (flip_state fl s) = length s.
Proof.
  intros fl s H. unfold flip_state. rewrite map_length, combine_length, H. apply Nat.min_id.
Qed.

Lemma flip_space_length : forall fl (S : space), length fl = length S ->
  length (flip_space fl S) = length S.
Proof.
  intros fl S H. unfold flip_space. rewrite map_length, combine_length, H. apply Nat.min_id.
Qed.

Lemma flip_net_nvars : forall fl N, length fl = nvars N -> nvars (flip_net fl N) = nvars N.
Proof.
  intros fl N H. unfold flip_net, nvars in *. rewrite map_length, combine_length, H. apply Nat.min_id.
Qed.

Lemma flip_state_nth : forall fl s i, length fl = length s ->
  nth i (flip_state fl s) false = xorb (nth i fl false) (nth i s false).
Proof.
  induction fl as [| f fl IH]; intros [| b s] i H; simpl in *; try discriminate.
  - destruct i; reflexivity.
  - destruct i as [| i]; [reflexivity |]. apply IH. lia.
Qed.

Lemma flip_space_nth : forall fl (S : space) i, length fl = length S ->
  nth i (flip_space fl S) None =
  match nth i S None with Some v => Some (xorb (nth i fl false) v) | None => None end.
Proof.
  induction fl as [| f fl IH]; intros [| o S] i H; simpl in *; try discriminate.
  - destruct i; reflexivity.
  - destruct i as [| i]; [reflexivity |]. apply IH. lia.
Qed.

Lemma M_flip_net_nth : forall (F : state -> state) fl (N : net) i s, length fl = length N ->
  nth i (map (fun p => fun s => xorb (fst p) (snd p (F s))) (combine fl N)) (fun _ => false) s =
  xorb (nth i fl false) (nth i N (fun _ => false) (F s)).
Proof.
  intros F. induction fl as [| f fl IH]; intros [| g N] i s H; simpl in *; try discriminate.
  - destruct i; reflexivity.
  - destruct i as [| i]; [reflexivity |]. apply IH. lia.
Qed.

Lemma flip_upd : forall fl N i s, length fl = nvars N ->
  upd (flip_net fl N) i s = xorb (nth i fl false) (upd N i (flip_state fl s)).
Proof.
  intros fl N i s H. unfold upd, flip_net. apply (M_flip_net_nth (flip_state fl)). exact H.
Qed.

Lemma flip_state_invol : forall fl s, length fl = length s -> flip_state fl (flip_state fl s) = s.
Proof.
  induction fl as [| f fl IH]; intros [| b s] H; simpl in *; try discriminate.
  - reflexivity.
  - unfold flip_state in *. simpl. rewrite IH by lia.
    rewrite <- xorb_assoc, xorb_nilpotent, xorb_false_l. reflexivity.
Qed.

Lemma flip_space_invol : forall fl (S : space), length fl = length S ->
  flip_space fl (flip_space fl S) = S.
Proof.
  induction fl as [| f fl IH]; intros [| o S] H; simpl in *; try discriminate.
  - reflexivity.
  - unfold flip_space in *. simpl. rewrite IH by lia.
    destruct o as [v |]; [| reflexivity].
    rewrite <- xorb_assoc, xorb_nilpotent, xorb_false_l. reflexivity.
Qed.

Lemma flip_in_space : forall fl s S, length fl = length s -> length s = length S ->
  in_space (flip_state fl s) (flip_space fl S) = in_space s S.
Proof.
  induction fl as [| f fl IH]; intros [| b s] [| o S] H1 H2; simpl in *; try discriminate.
  - reflexivity.
  - unfold flip_state, flip_space in *. simpl. rewrite IH by lia.
    f_equal. destruct o as [v |]; [| reflexivity].
    destruct f, b, v; reflexivity.
Qed.

Lemma flip_in_space' : forall fl s S, length fl = length s -> length s = length S ->
  in_space s (flip_space fl S) = in_space (flip_state fl s) S.
Proof.
  intros fl s S H1 H2.
  rewrite <- (flip_in_space fl (flip_state fl s) S).
  - rewrite flip_state_invol by exact H1. reflexivity.
  - rewrite flip_state_length by exact H1. exact H1.
  - rewrite flip_state_length by exact H1. exact H2.
Qed.

Lemma flip_subspace : forall fl (x y : space), length fl = length x -> length x = length y ->
  subspace (flip_space fl x) (flip_space fl y) = subspace x y.
Proof.
  induction fl as [| f fl IH]; intros [| a x] [| b y] H1 H2; simpl in *; try discriminate.
  - reflexivity.
  - unfold flip_space in *. simpl. rewrite IH by lia.
    f_equal. destruct b as [v |]; [| reflexivity].
    destruct a as [w |]; [| reflexivity].
    destruct f, v, w; reflexivity.
Qed.

Lemma flip_state_set_nth : forall fl s i b, length fl = length s ->
  flip_state fl (set_nth i b s) = set_nth i (xorb (nth i fl false) b) (flip_state fl s).
Proof.
  induction fl as [| f fl IH]; intros [| c s] i b H; simpl in *; try discriminate.
  - destruct i; reflexivity.
  - destruct i as [| i]; [reflexivity |].
    unfold flip_state in *. simpl. rewrite IH by lia. reflexivity.
Qed.

Lemma flip_space_set_nth : forall fl (S : space) i v, length fl = length S ->
  flip_space fl (set_nth i (Some v) S) = set_nth i (Some (xorb (nth i fl false) v)) (flip_space fl S).
Proof.
  induction fl as [| f fl IH]; intros [| o S] i v H; simpl in *; try discriminate.
  - destruct i; reflexivity.
  - destruct i as [| i]; [reflexivity |].
    unfold flip_space in *. simpl. rewrite IH by lia. reflexivity.
Qed.

Lemma flip_state_inj : forall fl s t, length fl = length s -> length fl = length t ->
  flip_state fl s = flip_state fl t -> s = t.
Proof.
  intros fl s t Hs Ht H.
  rewrite <- (flip_state_invol fl s Hs), <- (flip_state_invol fl t Ht), H. reflexivity.
Qed.

Lemma flip_space_inj : forall fl (x y : space), length fl = length x -> length fl = length y ->
  flip_space fl x = flip_space fl y -> x = y.
Proof.
  intros fl x y Hx Hy H.
  rewrite <- (flip_space_invol fl x Hx), <- (flip_space_invol fl y Hy), H. reflexivity.
Qed.

Lemma flip_net_invol : forall fl N, length fl = nvars N ->
  net_equiv (flip_net fl (flip_net fl N)) N.
Proof.
  intros fl N H.
  assert (H' : length fl = nvars (flip_net fl N)) by (rewrite flip_net_nvars; auto).
  split.
  - rewrite !flip_net_nvars; auto.
  - intros i s Hs. rewrite !flip_net_nvars in Hs by auto.
    rewrite flip_upd by exact H'. rewrite flip_upd by exact H.
    rewrite flip_state_invol by congruence.
    rewrite <- xorb_assoc, xorb_nilpotent, xorb_false_l. reflexivity.
Qed.

Lemma flip_step_i : forall fl N i s, length fl = nvars N -> length s = nvars N ->
  step_i (flip_net fl N) i (flip_state fl s) = flip_state fl (step_i N i s).
Proof.
  intros fl N i s H Hs. unfold step_i.
  rewrite flip_upd by exact H.
  rewrite flip_state_invol by congruence.
  rewrite flip_state_set_nth by congruence. reflexivity.
Qed.

(* forward direction: no hypothesis on the length of t is needed *)
Lemma flip_trans_fwd : forall fl N s t, length fl = nvars N -> length s = nvars N ->
  trans N s t -> trans (flip_net fl N) (flip_state fl s) (flip_state fl t).
Proof.
  intros fl N s t H Hs [i [Hi [Ht Hne]]].
  exists i. split; [rewrite flip_net_nvars by exact H; exact Hi |]. split.
  - rewrite Ht. symmetry. apply flip_step_i; assumption.
  - intro Heq. apply Hne. apply (flip_state_inj fl).
    + rewrite Ht, step_i_length. congruence.
    + congruence.
    + exact Heq.
Qed.

(* flip_trans as stated (no length hypothesis on t) is false: flip_state truncates an
   over-long t to the length of fl, so the left-hand side can hold for a t that is
   not even well-formed.  The closest true statement adds [length t = nvars N]. *)
Theorem flip_trans_weak : forall fl N s t, length fl = nvars N -> length s = nvars N ->
  length t = nvars N ->
  (trans (flip_net fl N) (flip_state fl s) (flip_state fl t) <-> trans N s t).
Proof.
  intros fl N s t H Hs Ht. split; intro Htr.
  - assert (H' : length fl = nvars (flip_net fl N)) by (rewrite flip_net_nvars; auto).
    apply (flip_trans_fwd fl (flip_net fl N)) in Htr.
    + rewrite !flip_state_invol in Htr by congruence.
      apply (equiv_trans _ N s t (flip_net_invol fl N H)); [| exact Htr].
      rewrite !flip_net_nvars; auto.
    + exact H'.
    + rewrite flip_state_length by congruence. rewrite flip_net_nvars; auto.
  - apply flip_trans_fwd; assumption.
Qed.

Lemma flip_reach_fwd : forall fl N s t, length fl = nvars N -> length s = nvars N ->
  reach N s t -> reach (flip_net fl N) (flip_state fl s) (flip_state fl t).
Proof.
  intros fl N s t H Hs Hr.
  apply clos_rt_rtn1 in Hr.
  induction Hr as [| y z Hyz Hr IH].
  - apply rt_refl.
  - apply rt_trans with (flip_state fl y); [exact IH |].
    apply rt_step. apply flip_trans_fwd; try assumption.
    apply (reach_wf N s y Hs). apply clos_rtn1_rt. exact Hr.
Qed.

Lemma flip_const_on : forall fl N i S v, length fl = nvars N -> length S = nvars N ->
  (const_on (flip_net fl N) i (flip_space fl S) (xorb (nth i fl false) v) <-> const_on N i S v).
Proof.
  intros fl N i S v H HS. unfold const_on, wf_state. split; intros Hc s Hs Hin.
  - specialize (Hc (flip_state fl s)).
    rewrite flip_upd in Hc by exact H.
    rewrite flip_state_invol in Hc by congruence.
    rewrite flip_net_nvars, flip_state_length, flip_in_space in Hc by congruence.
    specialize (Hc Hs Hin).
    destruct (nth i fl false), (upd N i s), v; simpl in Hc; congruence.
  - rewrite flip_net_nvars in Hs by exact H.
    rewrite flip_upd by exact H. f_equal.
    apply Hc.
    + rewrite flip_state_length; congruence.
    + rewrite <- flip_in_space'; congruence.
Qed.

Lemma flip_const_on' : forall fl N i S w, length fl = nvars N -> length S = nvars N ->
  (const_on (flip_net fl N) i (flip_space fl S) w <-> const_on N i S (xorb (nth i fl false) w)).
Proof.
  intros fl N i S w H HS.
  rewrite <- (flip_const_on fl N i S _ H HS).
  rewrite <- xorb_assoc, xorb_nilpotent, xorb_false_l. reflexivity.
Qed.

Lemma flip_trap_space_fwd : forall fl N S, length fl = nvars N -> length S = nvars N ->
  trap_space N S -> trap_space (flip_net fl N) (flip_space fl S).
Proof.
  intros fl N S H HS Htr.
  rewrite trap_space_char in Htr by exact HS.
  apply trap_space_char.
  - rewrite flip_space_length, flip_net_nvars; congruence.
  - intros i v Hnth. rewrite flip_space_nth in Hnth by congruence.
    destruct (nth i S None) as [u |] eqn:Hu; [| discriminate].
    injection Hnth as <-.
    apply flip_const_on; try assumption. apply Htr. exact Hu.
Qed.

Theorem flip_trap_space : forall fl N S, length fl = nvars N -> length S = nvars N ->
  (trap_space (flip_net fl N) (flip_space fl S) <-> trap_space N S).
Proof.
  intros fl N S H HS. split; intro Htr.
  - apply (flip_trap_space_fwd fl) in Htr.
    + rewrite flip_space_invol in Htr by congruence.
      apply (equiv_trap_space _ N S (flip_net_invol fl N H)). exact Htr.
    + rewrite flip_net_nvars; auto.
    + rewrite flip_space_length, flip_net_nvars; congruence.
  - apply flip_trap_space_fwd; assumption.
Qed.

Lemma flip_perc_step_fwd : forall fl N S T, length fl = nvars N -> length S = nvars N ->
  perc_step N S T -> perc_step (flip_net fl N) (flip_space fl S) (flip_space fl T).
Proof.
  intros fl N S T H HS Hst. destruct Hst as [S i v Hi Hfree Hc].
  rewrite flip_space_set_nth by congruence.
  constructor.
  - rewrite flip_net_nvars by exact H. exact Hi.
  - rewrite flip_space_nth by congruence. rewrite Hfree. reflexivity.
  - apply flip_const_on; assumption.
Qed.

Lemma flip_perc_steps_fwd : forall fl N S T, length fl = nvars N -> length S = nvars N ->
  clos_refl_trans space (perc_step N) S T ->
  clos_refl_trans space (perc_step (flip_net fl N)) (flip_space fl S) (flip_space fl T).
Proof.
  intros fl N S T H HS Hst.
  apply clos_rt_rtn1 in Hst.
  induction Hst as [| y z Hyz Hst IH].
  - apply rt_refl.
  - apply rt_trans with (flip_space fl y); [exact IH |].
    apply rt_step. apply flip_perc_step_fwd; try assumption.
    rewrite (M_perc_steps_length N S y Hst). exact HS.
Qed.

Lemma flip_perc_closed_fwd : forall fl N P, length fl = nvars N -> length P = nvars N ->
  perc_closed N P -> perc_closed (flip_net fl N) (flip_space fl P).
Proof.
  intros fl N P H HP Hcl i v Hi Hfree Hc.
  rewrite flip_net_nvars in Hi by exact H.
  rewrite flip_space_nth in Hfree by congruence.
  destruct (nth i P None) as [u |] eqn:Hu; [discriminate |].
  apply (Hcl i (xorb (nth i fl false) v) Hi Hu).
  apply flip_const_on'; assumption.
Qed.

Theorem flip_percolate : forall fl N S, length fl = nvars N -> length S = nvars N ->
  percolate_b (flip_net fl N) (flip_space fl S) = flip_space fl (percolate_b N S).
Proof.
  intros fl N S H HS. symmetry.
  apply percolate_b_unique.
  - rewrite flip_space_length, flip_net_nvars; congruence.
  - destruct (percolate_b_is_percolation N S HS) as [Hst Hcl]. split.
    + apply flip_perc_steps_fwd; assumption.
    + apply flip_perc_closed_fwd; try assumption.
      rewrite percolate_b_length. exact HS.
Qed.

Lemma equiv_min_trap : forall N M X, net_equiv N M -> (min_trap N X <-> min_trap M X).
Proof.
  assert (Hf : forall N M X, net_equiv N M -> min_trap N X -> min_trap M X).
  { intros N M X He [Htr Hmin]. split.
    - apply (equiv_trap_space N M X He). exact Htr.
    - intros X' Htr' Hsub. apply Hmin; [| exact Hsub].
      apply (equiv_trap_space N M X' He). exact Htr'. }
  intros N M X He. split; apply Hf; [exact He | apply net_equiv_sym; exact He].
Qed.

Lemma equiv_max_trap_in : forall N M S X, net_equiv N M -> (max_trap_in N S X <-> max_trap_in M S X).
Proof.
  assert (Hf : forall N M S X, net_equiv N M -> max_trap_in N S X -> max_trap_in M S X).
  { intros N M S X He [Htr [Hss Hmax]]. split; [| split].
    - apply (equiv_trap_space N M X He). exact Htr.
    - exact Hss.
    - intros X' Htr' Hss' Hsub. apply Hmax; [| exact Hss' | exact Hsub].
      apply (equiv_trap_space N M X' He). exact Htr'. }
  intros N M S X He. split; apply Hf; [exact He | apply net_equiv_sym; exact He].
Qed.

Lemma flip_strict_subspace : forall fl (x y : space), length fl = length x -> length x = length y ->
  (strict_subspace (flip_space fl x) (flip_space fl y) <-> strict_subspace x y).
Proof.
  intros fl x y Hx Hy. unfold strict_subspace. rewrite flip_subspace by assumption.
  split; intros [Hs Hne]; (split; [exact Hs |]); intro Heq; apply Hne.
  - rewrite Heq. reflexivity.
  - apply (flip_space_inj fl); congruence.
Qed.

Lemma flip_min_trap_fwd : forall fl N M, length fl = nvars N -> length M = nvars N ->
  min_trap N M -> min_trap (flip_net fl N) (flip_space fl M).
Proof.
  intros fl N M H HM [Htr Hmin]. split.
  - apply flip_trap_space_fwd; assumption.
  - intros M' Htr' Hsub.
    assert (HM' : length M' = nvars N).
    { rewrite (trap_space_length _ _ Htr'). apply flip_net_nvars. exact H. }
    assert (Heq : flip_space fl M' = M).
    { apply Hmin.
      - apply (flip_trap_space fl N (flip_space fl M') H).
        + rewrite flip_space_length; congruence.
        + rewrite flip_space_invol by congruence. exact Htr'.
      - rewrite <- (flip_space_invol fl M) by congruence.
        rewrite flip_subspace; try congruence.
        rewrite flip_space_length; congruence. }
    rewrite <- Heq. rewrite flip_space_invol by congruence. reflexivity.
Qed.

Theorem flip_min_trap : forall fl N M, length fl = nvars N -> length M = nvars N ->
  (min_trap (flip_net fl N) (flip_space fl M) <-> min_trap N M).
Proof.
  intros fl N M H HM. split; intro Hm.
  - apply (flip_min_trap_fwd fl) in Hm.
    + rewrite flip_space_invol in Hm by congruence.
      apply (equiv_min_trap _ N M (flip_net_invol fl N H)). exact Hm.
    + rewrite flip_net_nvars; auto.
    + rewrite flip_space_length, flip_net_nvars; congruence.
  - apply flip_min_trap_fwd; assumption.
Qed.

Lemma flip_max_trap_fwd : forall fl N S M, length fl = nvars N -> length S = nvars N ->
  length M = nvars N ->
  max_trap_in N S M -> max_trap_in (flip_net fl N) (flip_space fl S) (flip_space fl M).
Proof.
  intros fl N S M H HS HM [Htr [Hss Hmax]]. split; [| split].
  - apply flip_trap_space_fwd; assumption.
  - apply flip_strict_subspace; congruence.
  - intros M' Htr' Hss' Hsub.
    assert (HM' : length M' = nvars N).
    { rewrite (trap_space_length _ _ Htr'). apply flip_net_nvars. exact H. }
    assert (Heq : flip_space fl M' = M).
    { apply Hmax.
      - apply (flip_trap_space fl N (flip_space fl M') H).
        + rewrite flip_space_length; congruence.
        + rewrite flip_space_invol by congruence. exact Htr'.
      - apply (flip_strict_subspace fl).
        + rewrite flip_space_length; congruence.
        + rewrite flip_space_length; congruence.
        + rewrite flip_space_invol by congruence. exact Hss'.
      - rewrite <- (flip_subspace fl).
        + rewrite flip_space_invol by congruence. exact Hsub.
        + congruence.
        + rewrite flip_space_length; congruence. }
    rewrite <- Heq. rewrite flip_space_invol by congruence. reflexivity.
Qed.

Theorem flip_max_trap : forall fl N S M, length fl = nvars N -> length S = nvars N ->
  length M = nvars N ->
  (max_trap_in (flip_net fl N) (flip_space fl S) (flip_space fl M) <-> max_trap_in N S M).
Proof.
  intros fl N S M H HS HM. split; intro Hm.
  - apply (flip_max_trap_fwd fl) in Hm.
    + rewrite !flip_space_invol in Hm by congruence.
      apply (equiv_max_trap_in _ N S M (flip_net_invol fl N H)). exact Hm.
    + rewrite flip_net_nvars; auto.
    + rewrite flip_space_length, flip_net_nvars; congruence.
    + rewrite flip_space_length, flip_net_nvars; congruence.
  - apply flip_max_trap_fwd; assumption.
Qed.

(* The image of an attractor under the flip, restricted to well-formed states, is an
   attractor of the flipped network.  Since the flip is an involution (flip_net_invol,
   flip_state_invol) this one-directional statement covers both directions. *)
Lemma flip_attractor_fwd : forall fl N (A : state -> Prop), length fl = nvars N ->
  attractor N A ->
  attractor (flip_net fl N) (fun s => length s = nvars N /\ A (flip_state fl s)).
Proof.
  intros fl N A H [[s0 Hs0] [Hwf [Hcl Hre]]].
  split; [| split; [| split]].
  - exists (flip_state fl s0). pose proof (Hwf s0 Hs0) as Hl. unfold wf_state in Hl. split.
    + rewrite flip_state_length; congruence.
    + rewrite flip_state_invol by congruence. exact Hs0.
  - intros s [Hl _]. unfold wf_state. rewrite flip_net_nvars by exact H. exact Hl.
  - intros s t [Hl Hs] Ht.
    assert (Hlt : length t = nvars N).
    { rewrite <- (flip_net_nvars fl N H). apply (trans_wf _ s t); [| exact Ht].
      unfold wf_state. rewrite flip_net_nvars by exact H. exact Hl. }
    split; [exact Hlt |].
    apply (Hcl (flip_state fl s) (flip_state fl t) Hs).
    apply (flip_trans_weak fl N (flip_state fl s) (flip_state fl t) H).
    + rewrite flip_state_length; congruence.
    + rewrite flip_state_length; congruence.
    + rewrite !flip_state_invol by congruence. exact Ht.
  - intros s t [Hls Hs] [Hlt Ht].
    pose proof (Hre _ _ Hs Ht) as Hr.
    apply (flip_reach_fwd fl N) in Hr.
    + rewrite !flip_state_invol in Hr by congruence. exact Hr.
    + exact H.
    + rewrite flip_state_length; congruence.
Qed.

(* flip_attractor as stated is false: [fun s => A (flip_state fl s)] always contains
   over-long (ill-formed) states as soon as it is non-empty, because flip_state
   truncates its argument to the length of fl; so the left-hand side never holds,
   while the right-hand side does for every actual attractor.  The closest true
   statement restricts the flipped set to well-formed states and asks A to consist
   of well-formed states (which [attractor N A] implies, but
   [attractor (flip_net fl N) ...] alone does not). *)
Theorem flip_attractor_weak : forall fl N (A : state -> Prop), length fl = nvars N ->
  (forall s, A s -> length s = nvars N) ->
  (attractor (flip_net fl N) (fun s => length s = nvars N /\ A (flip_state fl s)) <->
   attractor N A).
Proof.
  intros fl N A H HA. split; intro Hat.
  - apply (flip_attractor_fwd fl) in Hat; [| rewrite flip_net_nvars; auto].
    apply (equiv_attractor _ N _ (flip_net_invol fl N H)) in Hat.
    apply (A_attractor_ext N _ A) in Hat; [exact Hat |].
    intros t. rewrite flip_net_nvars by exact H. split.
    + intros [Hl [_ Ht]]. rewrite flip_state_invol in Ht by congruence. exact Ht.
    + intros Ht. pose proof (HA t Ht) as Hl. split; [exact Hl |]. split.
      * rewrite flip_state_length; congruence.
      * rewrite flip_state_invol by congruence. exact Ht.
  - apply flip_attractor_fwd; assumption.
Qed.

(* the left-hand side of the original flip_attractor statement is never satisfiable *)
Lemma flip_attractor_lhs_false : forall fl N (A : state -> Prop), length fl = nvars N ->
  ~ attractor (flip_net fl N) (fun s => A (flip_state fl s)).
Proof.
  intros fl N A H [[s0 Hs0] [Hwf _]].
  pose proof (Hwf s0 Hs0) as Hl. unfold wf_state in Hl. rewrite flip_net_nvars in Hl by exact H.
  assert (Heq : flip_state fl (s0 ++ [true]) = flip_state fl s0).
  { unfold flip_state. f_equal.
    assert (Hc : forall (a : list bool) (b c : list bool), length a = length b ->
                 combine a (b ++ c) = combine a b).
    { induction a as [| x a IHa]; intros [| y b] c Hab; simpl in *; try discriminate.
      - reflexivity.
      - rewrite IHa by lia. reflexivity. }
    apply Hc. congruence. }
  assert (Hbad : A (flip_state fl (s0 ++ [true]))) by (rewrite Heq; exact Hs0).
  apply Hwf in Hbad. unfold wf_state in Hbad.
  rewrite flip_net_nvars in Hbad by exact H.
  rewrite app_length in Hbad. simpl in Hbad. lia.
Qed.

(* ================================================================== *)
(** * 3. Disjoint union: products                                      *)
(* ================================================================== *)

Lemma union_nvars : forall N M, nvars (union_net N M) = nvars N + nvars M.
Proof.
  intros N M. unfold union_net, nvars. rewrite app_length, !map_length. reflexivity.
Qed.

Lemma M_firstn_app_exact : forall (A : Type) (s t : list A), firstn (length s) (s ++ t) = s.
Proof.
  intros A s t. induction s as [| a s IH]; simpl.
  - reflexivity.
  - rewrite IH. reflexivity.
Qed.

Lemma M_skipn_app_exact : forall (A : Type) (s t : list A), skipn (length s) (s ++ t) = t.
Proof.
  intros A s t. induction s as [| a s IH]; simpl; [reflexivity | exact IH].
Qed.

Lemma M_app_inj_len : forall (A : Type) (a c b d : list A), length a = length c ->
  a ++ b = c ++ d -> a = c /\ b = d.
Proof.
  intros A. induction a as [| x a IH]; intros [| y c] b d Hl Heq; simpl in *; try discriminate.
  - split; [reflexivity | exact Heq].
  - injection Heq as Hxy Heq. destruct (IH c b d) as [H1 H2]; [lia | exact Heq |].
    subst. split; reflexivity.
Qed.

Lemma M_split_len : forall (A : Type) n m (x : list A), length x = n + m ->
  x = firstn n x ++ skipn n x /\ length (firstn n x) = n /\ length (skipn n x) = m.
Proof.
  intros A n m x H. split; [symmetry; apply firstn_skipn |]. split.
  - apply firstn_length_le. lia.
  - rewrite skipn_length. lia.
Qed.

Lemma M_nth_map_fn : forall (F : fn -> fn) (l : list fn) i d x, i < length l ->
  nth i (map F l) d x = F (nth i l d) x.
Proof.
  intros F l i d x Hi.
  rewrite (nth_indep (map F l) d (F d)) by (rewrite map_length; exact Hi).
  rewrite map_nth. reflexivity.
Qed.

Lemma union_upd_l : forall N M i s t, length s = nvars N -> i < nvars N ->
  upd (union_net N M) i (s ++ t) = upd N i s.
Proof.
  intros N M i s t Hs Hi. unfold upd, union_net.
  rewrite app_nth1 by (rewrite map_length; exact Hi).
  rewrite M_nth_map_fn by exact Hi.
  rewrite <- Hs, M_firstn_app_exact. reflexivity.
Qed.

Lemma union_upd_r : forall N M j s t, length s = nvars N -> j < nvars M ->
  upd (union_net N M) (nvars N + j) (s ++ t) = upd M j t.
Proof.
  intros N M j s t Hs Hj. unfold upd, union_net, nvars, fn, state in *.
  rewrite app_nth2 by (rewrite map_length; lia).
  rewrite map_length.
  match goal with |- context [?a + j - ?b] => replace (a + j - b) with j by lia end.
  rewrite M_nth_map_fn by exact Hj.
  rewrite <- Hs, M_skipn_app_exact. reflexivity.
Qed.

Lemma M_set_nth_app_l : forall (A : Type) i (b : A) s t, i < length s ->
  set_nth i b (s ++ t) = set_nth i b s ++ t.
Proof.
  intros A i b s. revert i. induction s as [| a s IH]; intros i t Hi; simpl in *; [lia |].
  destruct i as [| i]; [reflexivity |]. simpl. rewrite IH by lia. reflexivity.
Qed.

Lemma M_set_nth_app_r : forall (A : Type) j (b : A) s t,
  set_nth (length s + j) b (s ++ t) = s ++ set_nth j b t.
Proof.
  intros A j b s t. induction s as [| a s IH]; simpl; [reflexivity |].
  rewrite IH. reflexivity.
Qed.

Lemma union_step_l : forall N M i s t, length s = nvars N -> i < nvars N ->
  step_i (union_net N M) i (s ++ t) = step_i N i s ++ t.
Proof.
  intros N M i s t Hs Hi. unfold step_i.
  rewrite union_upd_l by assumption. apply M_set_nth_app_l. lia.
Qed.

Lemma union_step_r : forall N M j s t, length s = nvars N -> j < nvars M ->
  step_i (union_net N M) (nvars N + j) (s ++ t) = s ++ step_i M j t.
Proof.
  intros N M j s t Hs Hj. unfold step_i.
  rewrite union_upd_r by assumption. rewrite <- Hs. apply M_set_nth_app_r.
Qed.

Lemma M_in_space_app : forall s t (S T : space), length s = length S ->
  in_space (s ++ t) (S ++ T) = in_space s S && in_space t T.
Proof.
  induction s as [| b s IH]; intros t [| o S] T H; simpl in *; try discriminate.
  - reflexivity.
  - rewrite IH by lia. rewrite andb_assoc. reflexivity.
Qed.

Lemma M_subspace_app : forall (x x' y y' : space), length x = length y ->
  subspace (x ++ x') (y ++ y') = subspace x y && subspace x' y'.
Proof.
  induction x as [| a x IH]; intros x' [| b y] y' H; simpl in *; try discriminate.
  - reflexivity.
  - rewrite IH by lia. rewrite andb_assoc. reflexivity.
Qed.

Lemma union_const_on_l : forall N M (S T : space) i v, length S = nvars N -> length T = nvars M ->
  i < nvars N ->
  (const_on (union_net N M) i (S ++ T) v <-> const_on N i S v).
Proof.
  intros N M S T i v HS HT Hi. unfold const_on, wf_state. split; intros Hc.
  - intros s Hs Hin.
    destruct (space_nonempty_wf M T HT) as [t [Ht Htin]]. unfold wf_state in Ht.
    rewrite <- (union_upd_l N M i s t Hs Hi).
    apply Hc.
    + rewrite app_length, union_nvars. lia.
    + rewrite M_in_space_app by congruence. rewrite Hin, Htin. reflexivity.
  - intros x Hx Hin. rewrite union_nvars in Hx.
    destruct (M_split_len _ _ _ x Hx) as [Hxe [Hl1 Hl2]].
    rewrite Hxe in Hin |- *.
    rewrite M_in_space_app in Hin by congruence.
    apply andb_true_iff in Hin. destruct Hin as [Hin1 Hin2].
    rewrite union_upd_l by assumption. apply Hc; assumption.
Qed.

Lemma union_const_on_r : forall N M (S T : space) j v, length S = nvars N -> length T = nvars M ->
  j < nvars M ->
  (const_on (union_net N M) (nvars N + j) (S ++ T) v <-> const_on M j T v).
Proof.
  intros N M S T j v HS HT Hj. unfold const_on, wf_state. split; intros Hc.
  - intros t Ht Hin.
    destruct (space_nonempty_wf N S HS) as [s [Hs Hsin]]. unfold wf_state in Hs.
    rewrite <- (union_upd_r N M j s t Hs Hj).
    apply Hc.
    + rewrite app_length, union_nvars. lia.
    + rewrite M_in_space_app by congruence. rewrite Hin, Hsin. reflexivity.
  - intros x Hx Hin. rewrite union_nvars in Hx.
    destruct (M_split_len _ _ _ x Hx) as [Hxe [Hl1 Hl2]].
    rewrite Hxe in Hin |- *.
    rewrite M_in_space_app in Hin by congruence.
    apply andb_true_iff in Hin. destruct Hin as [Hin1 Hin2].
    rewrite union_upd_r by assumption. apply Hc; assumption.
Qed.

Theorem union_trap_space : forall N M S T, length S = nvars N -> length T = nvars M ->
  (trap_space (union_net N M) (S ++ T) <-> trap_space N S /\ trap_space M T).
Proof.
  intros N M S T HS HT.
  assert (HU : length (S ++ T) = nvars (union_net N M)).
  { rewrite app_length, union_nvars. lia. }
  rewrite (trap_space_char _ _ HU), (trap_space_char _ _ HS), (trap_space_char _ _ HT).
  split.
  - intros Hc. split.
    + intros i v Hnth. pose proof (nth_some_lt _ _ _ Hnth) as Hi.
      apply (union_const_on_l N M S T i v HS HT); [lia |].
      apply Hc. rewrite app_nth1 by exact Hi. exact Hnth.
    + intros j v Hnth. pose proof (nth_some_lt _ _ _ Hnth) as Hj.
      apply (union_const_on_r N M S T j v HS HT); [lia |].
      apply Hc. rewrite <- HS. rewrite app_nth2_plus. exact Hnth.
  - intros [HcN HcM] i v Hnth.
    destruct (Nat.lt_ge_cases i (nvars N)) as [Hi | Hi].
    + apply union_const_on_l; try assumption.
      apply HcN. rewrite app_nth1 in Hnth by lia. exact Hnth.
    + pose proof (nth_some_lt _ _ _ Hnth) as Hlt. rewrite app_length in Hlt.
      replace i with (nvars N + (i - nvars N)) in Hnth |- * by lia.
      apply union_const_on_r; try assumption; [lia |].
      apply HcM. rewrite <- HS in Hnth at 1. rewrite app_nth2_plus in Hnth. exact Hnth.
Qed.

Lemma union_trap_split : forall N M X, trap_space (union_net N M) X ->
  exists S T, X = S ++ T /\ length S = nvars N /\ length T = nvars M.
Proof.
  intros N M X Htr. pose proof (trap_space_length _ _ Htr) as HX.
  rewrite union_nvars in HX.
  destruct (M_split_len _ _ _ X HX) as [He [H1 H2]].
  exists (firstn (nvars N) X), (skipn (nvars N) X). auto.
Qed.

Theorem union_min_trap : forall N M S T, length S = nvars N -> length T = nvars M ->
  (min_trap (union_net N M) (S ++ T) <-> min_trap N S /\ min_trap M T).
Proof.
  intros N M S T HS HT. split.
  - intros [Htr Hmin]. apply union_trap_space in Htr; try assumption.
    destruct Htr as [HtN HtM]. split; split; try assumption.
    + intros S' HtS' Hsub.
      pose proof (trap_space_length _ _ HtS') as HS'.
      assert (Heq : S' ++ T = S ++ T).
      { apply Hmin.
        - apply union_trap_space; auto.
        - rewrite M_subspace_app by congruence. rewrite Hsub, subspace_refl. reflexivity. }
      apply M_app_inj_len in Heq; [tauto | congruence].
    + intros T' HtT' Hsub.
      pose proof (trap_space_length _ _ HtT') as HT'.
      assert (Heq : S ++ T' = S ++ T).
      { apply Hmin.
        - apply union_trap_space; auto.
        - rewrite M_subspace_app by congruence. rewrite Hsub, subspace_refl. reflexivity. }
      apply M_app_inj_len in Heq; [tauto | congruence].
  - intros [[HtN HminN] [HtM HminM]]. split.
    + apply union_trap_space; auto.
    + intros X HtX Hsub.
      destruct (union_trap_split N M X HtX) as [S' [T' [HX [HS' HT']]]]. subst X.
      apply union_trap_space in HtX; try assumption. destruct HtX as [HtS' HtT'].
      rewrite M_subspace_app in Hsub by congruence.
      apply andb_true_iff in Hsub. destruct Hsub as [Hsub1 Hsub2].
      rewrite (HminN S' HtS' Hsub1), (HminM T' HtT' Hsub2). reflexivity.
Qed.

Theorem union_min_trap_split : forall N M X, min_trap (union_net N M) X ->
  exists S T, X = S ++ T /\ length S = nvars N /\ length T = nvars M.
Proof.
  intros N M X [Htr _]. apply union_trap_split. exact Htr.
Qed.

Lemma union_trans_l : forall N M s s' t, length s = nvars N ->
  trans N s s' -> trans (union_net N M) (s ++ t) (s' ++ t).
Proof.
  intros N M s s' t Hs [i [Hi [He Hne]]].
  exists i. split; [rewrite union_nvars; lia |]. split.
  - rewrite union_step_l by assumption. rewrite He. reflexivity.
  - intro Heq. apply Hne. apply app_inv_tail in Heq. exact Heq.
Qed.

Lemma union_trans_r : forall N M s t t', length s = nvars N ->
  trans M t t' -> trans (union_net N M) (s ++ t) (s ++ t').
Proof.
  intros N M s t t' Hs [j [Hj [He Hne]]].
  exists (nvars N + j). split; [rewrite union_nvars; lia |]. split.
  - rewrite union_step_r by assumption. rewrite He. reflexivity.
  - intro Heq. apply Hne. apply app_inv_head in Heq. exact Heq.
Qed.

Lemma union_trans_inv : forall N M s t x, length s = nvars N -> length t = nvars M ->
  trans (union_net N M) (s ++ t) x ->
  exists s' t', x = s' ++ t' /\ ((trans N s s' /\ t' = t) \/ (s' = s /\ trans M t t')).
Proof.
  intros N M s t x Hs Ht [i [Hi [He Hne]]]. rewrite union_nvars in Hi.
  destruct (Nat.lt_ge_cases i (nvars N)) as [Hlt | Hge].
  - rewrite union_step_l in He by assumption.
    exists (step_i N i s), t. split; [exact He |]. left. split; [| reflexivity].
    exists i. split; [exact Hlt |]. split; [reflexivity |].
    intro Heq. apply Hne. rewrite He, Heq. reflexivity.
  - replace i with (nvars N + (i - nvars N)) in He by lia.
    rewrite union_step_r in He by (try assumption; lia).
    exists s, (step_i M (i - nvars N) t). split; [exact He |]. right. split; [reflexivity |].
    exists (i - nvars N). split; [lia |]. split; [reflexivity |].
    intro Heq. apply Hne. rewrite He, Heq. reflexivity.
Qed.

Lemma union_reach_l : forall N M s s' t, length s = nvars N ->
  reach N s s' -> reach (union_net N M) (s ++ t) (s' ++ t).
Proof.
  intros N M s s' t Hs Hr. apply clos_rt_rtn1 in Hr.
  induction Hr as [| y z Hyz Hr IH].
  - apply rt_refl.
  - apply rt_trans with (y ++ t); [exact IH |]. apply rt_step.
    apply union_trans_l; [| exact Hyz].
    apply (reach_wf N s y Hs). apply clos_rtn1_rt. exact Hr.
Qed.

Lemma union_reach_r : forall N M s t t', length s = nvars N ->
  reach M t t' -> reach (union_net N M) (s ++ t) (s ++ t').
Proof.
  intros N M s t t' Hs Hr. apply clos_rt_rtn1 in Hr.
  induction Hr as [| y z Hyz Hr IH].
  - apply rt_refl.
  - apply rt_trans with (s ++ y); [exact IH |]. apply rt_step.
    apply union_trans_r; assumption.
Qed.

(* decomposition: every state reachable from s ++ t is of the form s' ++ t' *)
Lemma union_reach_inv : forall N M s t x, length s = nvars N -> length t = nvars M ->
  reach (union_net N M) (s ++ t) x ->
  exists s' t', x = s' ++ t' /\ length s' = nvars N /\ length t' = nvars M /\
                reach N s s' /\ reach M t t'.
Proof.
  intros N M s t x Hs Ht Hr. apply clos_rt_rtn1 in Hr.
  induction Hr as [| y z Hyz Hr IH].
  - exists s, t. repeat split; try assumption; apply rt_refl.
  - destruct IH as [s1 [t1 [Hy [Hs1 [Ht1 [Hr1 Hr2]]]]]]. subst y.
    destruct (union_trans_inv N M s1 t1 z Hs1 Ht1 Hyz) as [s2 [t2 [Hz [[Htr Heq] | [Heq Htr]]]]].
    + subst t2. exists s2, t1. split; [exact Hz |]. split; [| split; [exact Ht1 | split]].
      * apply (trans_wf N s1 s2 Hs1 Htr).
      * apply rt_trans with s1; [exact Hr1 | apply rt_step; exact Htr].
      * exact Hr2.
    + subst s2. exists s1, t2. split; [exact Hz |]. split; [exact Hs1 | split; [| split]].
      * apply (trans_wf M t1 t2 Ht1 Htr).
      * exact Hr1.
      * apply rt_trans with t1; [exact Hr2 | apply rt_step; exact Htr].
Qed.

(* union_reach as stated is false in the "->" direction: s' ++ t' may split the
   reached state at the wrong position (e.g. s' = [] and t' the whole state), in
   which case [reach N s s'] fails for length reasons.  The closest true statement
   adds [length s' = nvars N]. *)
Theorem union_reach_weak : forall N M s t s' t', length s = nvars N -> length t = nvars M ->
  length s' = nvars N ->
  (reach (union_net N M) (s ++ t) (s' ++ t') <-> reach N s s' /\ reach M t t').
Proof.
  intros N M s t s' t' Hs Ht Hs'. split.
  - intros Hr.
    destruct (union_reach_inv N M s t _ Hs Ht Hr) as [s1 [t1 [He [Hs1 [Ht1 [Hr1 Hr2]]]]]].
    apply M_app_inj_len in He; [| congruence]. destruct He as [-> ->]. split; assumption.
  - intros [Hr1 Hr2].
    apply rt_trans with (s' ++ t).
    + apply union_reach_l; assumption.
    + apply union_reach_r; assumption.
Qed.

(* the "<-" direction holds exactly as stated *)
Lemma union_reach_product : forall N M s t s' t', length s = nvars N -> length t = nvars M ->
  reach N s s' -> reach M t t' -> reach (union_net N M) (s ++ t) (s' ++ t').
Proof.
  intros N M s t s' t' Hs Ht Hr1 Hr2.
  apply (union_reach_weak N M s t s' t' Hs Ht); [| split; assumption].
  apply (reach_wf N s s' Hs Hr1).
Qed.

Theorem union_in_attractor : forall N M s t, length s = nvars N -> length t = nvars M ->
  (in_attractor (union_net N M) (s ++ t) <-> in_attractor N s /\ in_attractor M t).
Proof.
  intros N M s t Hs Ht. split.
  - intros [Hw Hback]. split; (split; [assumption |]).
    + intros s' Hr.
      pose proof (reach_wf N s s' Hs Hr) as Hs'. unfold wf_state in Hs'.
      assert (HrU : reach (union_net N M) (s ++ t) (s' ++ t)).
      { apply union_reach_l; assumption. }
      apply Hback in HrU.
      apply (union_reach_weak N M s' t s t Hs' Ht Hs) in HrU. tauto.
    + intros t' Hr.
      pose proof (reach_wf M t t' Ht Hr) as Ht'. unfold wf_state in Ht'.
      assert (HrU : reach (union_net N M) (s ++ t) (s ++ t')).
      { apply union_reach_r; assumption. }
      apply Hback in HrU.
      apply (union_reach_weak N M s t' s t Hs Ht' Hs) in HrU. tauto.
  - intros [[_ HbN] [_ HbM]]. split.
    + unfold wf_state. rewrite app_length, union_nvars. lia.
    + intros x Hr.
      destruct (union_reach_inv N M s t x Hs Ht Hr) as [s1 [t1 [He [Hs1 [Ht1 [Hr1 Hr2]]]]]].
      subst x. apply union_reach_product; auto.
Qed.

Lemma union_perc_step_l : forall N M (S S' T : space), length S = nvars N -> length T = nvars M ->
  perc_step N S S' -> perc_step (union_net N M) (S ++ T) (S' ++ T).
Proof.
  intros N M S S' T HS HT Hst. destruct Hst as [S i v Hi Hfree Hc].
  rewrite <- M_set_nth_app_l by lia.
  constructor.
  - rewrite union_nvars. lia.
  - rewrite app_nth1 by lia. exact Hfree.
  - apply union_const_on_l; assumption.
Qed.

Lemma union_perc_step_r : forall N M (S T T' : space), length S = nvars N -> length T = nvars M ->
  perc_step M T T' -> perc_step (union_net N M) (S ++ T) (S ++ T').
Proof.
  intros N M S T T' HS HT Hst. destruct Hst as [T j v Hj Hfree Hc].
  rewrite <- M_set_nth_app_r. rewrite HS.
  constructor.
  - rewrite union_nvars. lia.
  - rewrite <- HS, app_nth2_plus. exact Hfree.
  - apply union_const_on_r; assumption.
Qed.

Lemma union_perc_steps_l : forall N M (S S' T : space), length S = nvars N -> length T = nvars M ->
  clos_refl_trans space (perc_step N) S S' ->
  clos_refl_trans space (perc_step (union_net N M)) (S ++ T) (S' ++ T).
Proof.
  intros N M S S' T HS HT Hst. apply clos_rt_rtn1 in Hst.
  induction Hst as [| y z Hyz Hst IH].
  - apply rt_refl.
  - apply rt_trans with (y ++ T); [exact IH |]. apply rt_step.
    apply union_perc_step_l; try assumption.
    rewrite (M_perc_steps_length N S y Hst). exact HS.
Qed.

Lemma union_perc_steps_r : forall N M (S T T' : space), length S = nvars N -> length T = nvars M ->
  clos_refl_trans space (perc_step M) T T' ->
  clos_refl_trans space (perc_step (union_net N M)) (S ++ T) (S ++ T').
Proof.
  intros N M S T T' HS HT Hst. apply clos_rt_rtn1 in Hst.
  induction Hst as [| y z Hyz Hst IH].
  - apply rt_refl.
  - apply rt_trans with (S ++ y); [exact IH |]. apply rt_step.
    apply union_perc_step_r; try assumption.
    rewrite (M_perc_steps_length M T y Hst). exact HT.
Qed.

Lemma union_perc_closed : forall N M (P Q : space), length P = nvars N -> length Q = nvars M ->
  perc_closed N P -> perc_closed M Q -> perc_closed (union_net N M) (P ++ Q).
Proof.
  intros N M P Q HP HQ HcN HcM i v Hi Hfree Hc. rewrite union_nvars in Hi.
  destruct (Nat.lt_ge_cases i (nvars N)) as [Hlt | Hge].
  - rewrite app_nth1 in Hfree by lia.
    apply (HcN i v Hlt Hfree).
    apply (union_const_on_l N M P Q i v HP HQ Hlt). exact Hc.
  - replace i with (nvars N + (i - nvars N)) in Hfree, Hc by lia.
    rewrite <- HP in Hfree at 1. rewrite app_nth2_plus in Hfree.
    assert (Hj : i - nvars N < nvars M) by lia.
    apply (HcM (i - nvars N) v Hj Hfree).
    apply (union_const_on_r N M P Q _ v HP HQ Hj). exact Hc.
Qed.

Theorem union_percolate : forall N M S T, length S = nvars N -> length T = nvars M ->
  percolate_b (union_net N M) (S ++ T) = percolate_b N S ++ percolate_b M T.
Proof.
  intros N M S T HS HT. symmetry.
  apply percolate_b_unique.
  - rewrite app_length, union_nvars. lia.
  - destruct (percolate_b_is_percolation N S HS) as [HstN HclN].
    destruct (percolate_b_is_percolation M T HT) as [HstM HclM].
    assert (HP : length (percolate_b N S) = nvars N) by (rewrite percolate_b_length; exact HS).
    assert (HQ : length (percolate_b M T) = nvars M) by (rewrite percolate_b_length; exact HT).
    split.
    + apply rt_trans with (percolate_b N S ++ T).
      * apply union_perc_steps_l; assumption.
      * apply union_perc_steps_r; assumption.
    + apply union_perc_closed; assumption.
Qed.

(* ================================================================== *)
(** * 4. Input restriction: fixing source variables                    *)
(* ================================================================== *)

Lemma fix_net_nvars : forall N v, nvars (fix_net N v) = nvars N.
Proof.
  unfold nvars. induction N as [| f N IH]; intros [| o v]; simpl; try reflexivity.
  rewrite IH. reflexivity.
Qed.

Lemma fix_upd : forall N v i s, length v = nvars N ->
  upd (fix_net N v) i s = match nth i v None with Some b => b | None => upd N i s end.
Proof.
  unfold upd, nvars. induction N as [| f N IH]; intros [| o v] i s H; simpl in *; try discriminate.
  - destruct i; reflexivity.
  - destruct i as [| i].
    + destruct o; reflexivity.
    + apply IH. lia.
Qed.

(* inside v the two networks have the same update functions *)
Lemma fix_upd_agree : forall N v i s, length v = nvars N ->
  (forall i b, nth i v None = Some b -> is_source_b N i = true) ->
  length s = nvars N -> in_space s v = true ->
  upd (fix_net N v) i s = upd N i s.
Proof.
  intros N v i s Hv Hsrc Hs Hin. rewrite fix_upd by exact Hv.
  destruct (nth i v None) as [b |] eqn:Hnth; [| reflexivity].
  pose proof (Hsrc i b Hnth) as Hsi. rewrite is_source_b_spec in Hsi.
  rewrite (Hsi s Hs). symmetry.
  apply (proj1 (in_space_nth s v (eq_trans Hs (eq_sym Hv))) Hin i b Hnth).
Qed.

Lemma fix_trans_iff : forall N v s t, length v = nvars N ->
  (forall i b, nth i v None = Some b -> is_source_b N i = true) ->
  length s = nvars N -> in_space s v = true ->
  (trans (fix_net N v) s t <-> trans N s t).
Proof.
  intros N v s t Hv Hsrc Hs Hin. unfold trans, step_i. rewrite fix_net_nvars.
  split; intros [i [Hi [He Hne]]]; exists i; (split; [exact Hi |]); (split; [| exact Hne]).
  - rewrite <- (fix_upd_agree N v i s Hv Hsrc Hs Hin). exact He.
  - rewrite (fix_upd_agree N v i s Hv Hsrc Hs Hin). exact He.
Qed.

(* the space v (sources fixed) is closed under the dynamics of N *)
Lemma fix_space_closed : forall N v s t, length v = nvars N ->
  (forall i b, nth i v None = Some b -> is_source_b N i = true) ->
  length s = nvars N -> in_space s v = true -> trans N s t ->
  length t = nvars N /\ in_space t v = true.
Proof.
  intros N v s t Hv Hsrc Hs Hin Htr. split; [apply (trans_wf N s t Hs Htr) |].
  destruct Htr as [i [Hi [He _]]]. subst t.
  apply (step_i_in_space N i s v Hin). left.
  intros b Hnth.
  pose proof (Hsrc i b Hnth) as Hsi. rewrite is_source_b_spec in Hsi.
  rewrite (Hsi s Hs).
  apply (proj1 (in_space_nth s v (eq_trans Hs (eq_sym Hv))) Hin i b Hnth).
Qed.

Lemma fix_const_on : forall N v (X : space) i w, length v = nvars N ->
  (forall i b, nth i v None = Some b -> is_source_b N i = true) ->
  subspace X v = true ->
  (const_on (fix_net N v) i X w <-> const_on N i X w).
Proof.
  intros N v X i w Hv Hsrc Hsub.
  pose proof (subspace_length _ _ Hsub) as HX.
  assert (Hinv : forall s, in_space s X = true -> in_space s v = true).
  { apply subspace_spec; assumption. }
  unfold const_on, wf_state. rewrite fix_net_nvars.
  split; intros Hc s Hs Hin.
  - rewrite <- (fix_upd_agree N v i s Hv Hsrc Hs (Hinv s Hin)). apply Hc; assumption.
  - rewrite (fix_upd_agree N v i s Hv Hsrc Hs (Hinv s Hin)). apply Hc; assumption.
Qed.

Theorem fix_net_trap_space : forall N v S, length v = nvars N -> length S = nvars N ->
  (forall i b, nth i v None = Some b -> is_source_b N i = true) -> subspace S v = true ->
  (trap_space (fix_net N v) S <-> trap_space N S).
Proof.
  intros N v S Hv HS Hsrc Hsub.
  rewrite (trap_space_char N S HS).
  rewrite (trap_space_char (fix_net N v) S) by (rewrite fix_net_nvars; exact HS).
  split; intros Hc i w Hnth.
  - apply (fix_const_on N v S i w Hv Hsrc Hsub). apply Hc. exact Hnth.
  - apply (fix_const_on N v S i w Hv Hsrc Hsub). apply Hc. exact Hnth.
Qed.

Lemma fix_perc_step : forall N v (X Y : space), length v = nvars N ->
  (forall i b, nth i v None = Some b -> is_source_b N i = true) ->
  subspace X v = true ->
  perc_step N X Y -> perc_step (fix_net N v) X Y.
Proof.
  intros N v X Y Hv Hsrc Hsub Hst. destruct Hst as [X i w Hi Hfree Hc].
  constructor.
  - rewrite fix_net_nvars. exact Hi.
  - exact Hfree.
  - apply (fix_const_on N v X i w Hv Hsrc Hsub). exact Hc.
Qed.

Lemma fix_perc_steps : forall N v (X Y : space), length v = nvars N ->
  (forall i b, nth i v None = Some b -> is_source_b N i = true) ->
  subspace X v = true ->
  clos_refl_trans space (perc_step N) X Y ->
  clos_refl_trans space (perc_step (fix_net N v)) X Y /\ subspace Y v = true.
Proof.
  intros N v X Y Hv Hsrc Hsub Hst. apply clos_rt_rtn1 in Hst.
  induction Hst as [| y z Hyz Hst IH].
  - split; [apply rt_refl | exact Hsub].
  - destruct IH as [IH1 IH2]. split.
    + apply rt_trans with y; [exact IH1 |]. apply rt_step.
      apply fix_perc_step; assumption.
    + apply subspace_trans with y; [| exact IH2].
      apply (perc_step_subspace N y z); [| exact Hyz].
      rewrite (subspace_length _ _ IH2). exact Hv.
Qed.

Theorem fix_net_percolate : forall N v S, length v = nvars N -> length S = nvars N ->
  (forall i b, nth i v None = Some b -> is_source_b N i = true) -> subspace S v = true ->
  percolate_b (fix_net N v) S = percolate_b N S.
Proof.
  intros N v S Hv HS Hsrc Hsub. symmetry.
  apply percolate_b_unique; [rewrite fix_net_nvars; exact HS |].
  destruct (percolate_b_is_percolation N S HS) as [Hst Hcl].
  destruct (fix_perc_steps N v S _ Hv Hsrc Hsub Hst) as [Hst' Hsub'].
  split; [exact Hst' |].
  intros i w Hi Hfree Hc. rewrite fix_net_nvars in Hi.
  apply (Hcl i w Hi Hfree).
  apply (fix_const_on N v _ i w Hv Hsrc Hsub'). exact Hc.
Qed.

(* two networks with the same dynamics on an invariant set P have the same attractors inside P *)
Lemma M_attractor_agree : forall (N N' : net) (A P : state -> Prop),
  nvars N = nvars N' ->
  (forall s, A s -> P s) ->
  (forall s t, P s -> trans N s t -> trans N' s t /\ P t) ->
  (forall s t, P s -> trans N' s t -> trans N s t) ->
  attractor N A -> attractor N' A.
Proof.
  intros N N' A P Hn HAP Hfw Hbw [Hne [Hwf [Hcl Hre]]].
  split; [exact Hne |]. split; [| split].
  - intros s Hs. unfold wf_state. rewrite <- Hn. apply Hwf. exact Hs.
  - intros s t Hs Ht. apply (Hcl s t Hs). apply Hbw; [apply HAP; exact Hs | exact Ht].
  - intros s t Hs Ht.
    apply (M_reach_agree N N' P Hfw s t (HAP s Hs)). apply Hre; assumption.
Qed.

Theorem fix_net_attractor : forall N v (A : state -> Prop), length v = nvars N ->
  (forall i b, nth i v None = Some b -> is_source_b N i = true) ->
  (forall s, A s -> in_space s v = true) ->
  (attractor (fix_net N v) A <-> attractor N A).
Proof.
  intros N v A Hv Hsrc HA.
  set (P := fun s : state => length s = nvars N /\ in_space s v = true).
  assert (HAP : forall s, A s -> P s).
  { intros s Hs. split; [| apply HA; exact Hs].
    rewrite (in_space_length s v (HA s Hs)). exact Hv. }
  assert (HN : forall s t, P s -> trans N s t -> trans (fix_net N v) s t /\ P t).
  { intros s t [Hs Hin] Htr. split.
    - apply (fix_trans_iff N v s t Hv Hsrc Hs Hin). exact Htr.
    - apply (fix_space_closed N v s t Hv Hsrc Hs Hin Htr). }
  assert (HF : forall s t, P s -> trans (fix_net N v) s t -> trans N s t /\ P t).
  { intros s t [Hs Hin] Htr.
    apply (fix_trans_iff N v s t Hv Hsrc Hs Hin) in Htr. split; [exact Htr |].
    apply (fix_space_closed N v s t Hv Hsrc Hs Hin Htr). }
  split; intro Hat.
  - apply (M_attractor_agree (fix_net N v) N A P); try assumption.
    + apply fix_net_nvars.
    + intros s t HPs Htr. apply (HN s t HPs Htr).
  - apply (M_attractor_agree N (fix_net N v) A P); try assumption.
    + symmetry. apply fix_net_nvars.
    + intros s t HPs Htr. apply (HF s t HPs Htr).
Qed.

(* ================================================================== *)
(** * 5. The three statements that only hold in weakened form          *)
(* ================================================================== *)

(* flip_trans without [length t = nvars N]: an over-long t is truncated by flip_state *)
Lemma flip_trans_as_stated_false :
  ~ (forall fl N s t, length fl = nvars N -> length s = nvars N ->
       (trans (flip_net fl N) (flip_state fl s) (flip_state fl t) <-> trans N s t)).
Proof.
  intros H.
  specialize (H [false] [fun _ => true] [false] [true; true] eq_refl eq_refl).
  destruct H as [H _].
  assert (Hl : trans (flip_net [false] [fun _ => true]) (flip_state [false] [false])
                     (flip_state [false] [true; true])).
  { exists 0. split; [simpl; lia |]. split; [reflexivity | discriminate]. }
  apply H in Hl. destruct Hl as [i [Hi [He _]]].
  apply (f_equal (@length bool)) in He. rewrite step_i_length in He. discriminate He.
Qed.

(* union_reach without [length s' = nvars N]: s' ++ t' may be split at the wrong place *)
Lemma union_reach_as_stated_false :
  ~ (forall N M s t s' t', length s = nvars N -> length t = nvars M ->
       (reach (union_net N M) (s ++ t) (s' ++ t') <-> reach N s s' /\ reach M t t')).
Proof.
  intros H.
  specialize (H [fun _ => false] [] [false] [] [] [false] eq_refl eq_refl).
  destruct H as [H _].
  destruct (H (rt_refl _ _ _)) as [Hr _].
  apply (reach_wf [fun _ => false] [false] [] eq_refl) in Hr. discriminate Hr.
Qed.

(* flip_attractor with the unrestricted set [fun s => A (flip_state fl s)] *)
Lemma flip_attractor_as_stated_false :
  ~ (forall fl N (A : state -> Prop), length fl = nvars N ->
       (attractor (flip_net fl N) (fun s => A (flip_state fl s)) <-> attractor N A)).
Proof.
  intros H.
  specialize (H [] [] (fun s => s = []) eq_refl). destruct H as [_ H].
  apply (flip_attractor_lhs_false [] [] (fun s => s = []) eq_refl). apply H.
  split; [exists []; reflexivity |]. split; [| split].
  - intros s Hs. subst s. reflexivity.
  - intros s t _ [i [Hi _]]. simpl in Hi. lia.
  - intros s t Hs Ht. subst s t. apply rt_refl.
Qed.

Print Assumptions flip_percolate.
Print Assumptions union_min_trap.
Print Assumptions union_in_attractor.
Print Assumptions fix_net_attractor.
