(* StrategyFacts.v -- SPEC (prove the theorems; definitions are in the model files, do not edit them).
   The three strategies that are not `op`s of Diagram.step -- block, attractor-seed and source-SCC expansion --
   satisfy the same metadata / transparency theorems as the ops:
   * C16: run on two observationally equal diagrams (e.g. one of them reclaimed), they produce the same result and
     observationally equal diagrams (so reclaim_node_data at any earlier point is invisible to them);
   * C20: after block and attractor-seed expansion every node's depth is still the length of the longest root path. *)
From Coq Require Import List Bool Arith NArith Lia Permutation.
Import ListNotations.
From BB Require Import BN Brute SpaceFacts TrapFacts PercolateFacts Diagram Invariants DiagramStruct DiagramSem1
  DiagramDepth DiagramCache Termination MinExpandFacts ObsFacts Blocks BlocksFacts ASeeds ASeedsFacts SCC SCCStruct.

Local Arguments percolate_b : simpl never.
Local Arguments expand_one : simpl never.
Local Arguments node_successors : simpl never.
Local Arguments ensure_node : simpl never.
Local Arguments ensure_edge : simpl never.
Local Arguments upd_node : simpl never.
Local Arguments set_empty_seeds : simpl never.
Local Arguments clear_cands : simpl never.
Local Arguments group_blocks : simpl never.
Local Arguments sort_blocks : simpl never.
Local Arguments minimal_blocks : simpl never.
Local Arguments first_clean : simpl never.
Local Arguments sources_in_b : simpl never.
Local Arguments source_valuations : simpl never.
Local Arguments source_sccs : simpl never.
Local Arguments has_new_candidate : simpl never.
Local Arguments sort_nat : simpl never.
Local Arguments union_nat : simpl never.
Local Arguments discard_if_stub : simpl never.
Local Arguments sub_net : simpl never.
Local Arguments init : simpl never.
Local Arguments graft : simpl never.
Local Arguments only_on : simpl never.
Local Arguments first_motif : simpl never.
Local Arguments expand_min : simpl never.
Local Arguments Nat.pow : simpl never.
Local Arguments Nat.ltb : simpl never.

(* ================================================================== *)
(* C16, part 1: block expansion                                        *)
(* ================================================================== *)

Lemma oe_set_empty_seeds : forall d d' i, obs_eq d d' ->
  obs_eq (set_empty_seeds d i) (set_empty_seeds d' i).
Proof.
  intros d d' i H. unfold set_empty_seeds. cbv zeta. rewrite <- (oe_cur_tag _ _ H i).
  apply oe_upd_node; [|apply oe_fun_set_sets]. apply oe_upd_node; [exact H|apply oe_fun_set_seeds].
Qed.

Lemma oe_clear_cands : forall d d' i, obs_eq d d' -> obs_eq (clear_cands d i) (clear_cands d' i).
Proof. intros d d' i H. unfold clear_cands. apply oe_upd_node; [exact H|apply oe_fun_set_cands]. Qed.

Lemma oe_ensure_children : forall N subs d d' p acc, obs_eq d d' ->
  rel2 (ensure_children N d p subs acc) (ensure_children N d' p subs acc).
Proof.
  intros N subs. induction subs as [|m r IH]; intros d d' p acc H; simpl; [rel_done H|].
  pose proof (oe_ensure_node N d d' (Some p) m H) as H1.
  destruct (ensure_node N d (Some p) m) as [d1 c], (ensure_node N d' (Some p) m) as [d1' c'].
  destruct H1 as [H1 Hc]. simpl in H1, Hc. subst c'. apply IH. exact H1.
Qed.

Lemma oe_first_motif : forall d d' p c, obs_eq d d' -> first_motif d p c = first_motif d' p c.
Proof. intros d d' p c H. unfold first_motif. rewrite (oe_edges _ _ H). reflexivity. Qed.

Lemma oe_group_blocks : forall N d d' node succ, obs_eq d d' ->
  group_blocks N d node succ = group_blocks N d' node succ.
Proof.
  intros N d d' node succ H. unfold group_blocks. rewrite <- (oe_space _ _ H node).
  generalize (@nil (list nat * list nat)).
  induction succ as [|s r IH]; intro acc; simpl; [reflexivity|].
  rewrite <- (oe_first_motif d d' node s H). apply IH.
Qed.

Lemma oe_ff_close : forall d d' x, obs_eq d d' ->
  obs_eq (set_empty_seeds (clear_cands (upd_node d x (fun y => set_exp y true)) x) x)
         (set_empty_seeds (clear_cands (upd_node d' x (fun y => set_exp y true)) x) x).
Proof.
  intros d d' x H. apply oe_set_empty_seeds. apply oe_clear_cands.
  apply oe_upd_node; [exact H|apply oe_fun_set_exp].
Qed.

Definition rel5 {B C D E : Type} (a b : sd * B * C * D * E) : Prop := rel4 (fst a) (fst b) /\ snd a = snd b.

Lemma oe_block_level : forall N cfg maa opt sz cur d d' next tape vis, obs_eq d d' ->
  rel5 (block_level N cfg maa opt sz d cur next tape vis) (block_level N cfg maa opt sz d' cur next tape vis).
Proof.
  intros N cfg maa opt sz cur. induction cur as [|x cur IH]; intros d d' next tape vis H.
  { simpl. unfold rel5. rel_done H. }
  cbn [block_level].
  rewrite <- (oe_exp _ _ H x), <- (oe_over_limit _ _ H), <- (oe_space _ _ H x), <- (oe_size _ _ H),
          <- (oe_successors _ _ H x).
  destruct (n_exp (get d x)); [destruct (mem_nat x vis); apply IH; exact H|].
  cbv zeta.
  destruct (over_limit sz d); [unfold rel5; rel_done H|].
  destruct (negb match sources_in_b N (n_space (get d x)) with [] => true | _ :: _ => false end && opt).
  - destruct (Nat.ltb (max_motifs cfg) _); [unfold rel5; rel_done H|].
    destruct (match sz with Some k => Nat.ltb k _ | None => false end); [unfold rel5; rel_done H|].
    pose proof (oe_ensure_children N
                  (map (merge (n_space (get d x)))
                       (source_valuations (nvars N) (sources_in_b N (n_space (get d x)))))
                  d d' x [] H) as H1.
    destruct (ensure_children N d x _ []) as [d1 kids], (ensure_children N d' x _ []) as [d1' kids'].
    destruct H1 as [H1 Hk]. simpl in H1, Hk. subst kids'.
    apply IH. apply oe_ff_close. exact H1.
  - pose proof (oe_node_successors N cfg d d' x H) as H1.
    destruct (node_successors N cfg d x) as [[d1 r] succ],
             (node_successors N cfg d' x) as [[d1' r'] succ'].
    destruct H1 as [[H1 Hr] Hs]. simpl in H1, Hr, Hs. subst r' succ'.
    destruct r; try (unfold rel5; rel_done H1).
    destruct (sort_nat succ) as [|s [|s2 rest]].
    + apply IH. exact H1.
    + destruct (negb maa); [apply IH; exact H1|].
      rewrite <- (oe_group_blocks N d1 d1' x [s] H1).
      destruct (first_clean _ tape) as [clean tape1].
      destruct clean as [ns|]; apply IH; [apply oe_set_empty_seeds|]; exact H1.
    + rewrite <- (oe_group_blocks N d1 d1' x (s :: s2 :: rest) H1).
      destruct (negb maa); [apply IH; exact H1|].
      destruct (first_clean _ tape) as [clean tape1].
      destruct clean as [ns|]; apply IH; [apply oe_set_empty_seeds|]; exact H1.
Qed.

Lemma oe_block_loop : forall N cfg maa opt sz fuel d d' cur tape vis, obs_eq d d' ->
  rel2 (block_loop fuel N cfg maa opt sz d cur tape vis) (block_loop fuel N cfg maa opt sz d' cur tape vis).
Proof.
  intros N cfg maa opt sz fuel. induction fuel as [|f IH]; intros d d' cur tape vis H.
  { simpl. rel_done H. }
  cbn [block_loop]. destruct cur as [|c cur']; [rel_done H|].
  pose proof (oe_block_level N cfg maa opt sz (sort_nat (c :: cur')) d d' [] tape vis H) as H1.
  destruct (block_level N cfg maa opt sz d (sort_nat (c :: cur')) [] tape vis) as [[[[d1 r] next] tape1] vis1],
           (block_level N cfg maa opt sz d' (sort_nat (c :: cur')) [] tape vis) as [[[[d1' r'] next'] tape1'] vis1'].
  destruct H1 as [[[[H1 Hr] Hn] Ht] Hv]. simpl in H1, Hr, Hn, Ht, Hv. subst r' next' tape1' vis1'.
  destruct r; try (rel_done H1). apply IH. exact H1.
Qed.

Theorem expand_block_obs_eq : forall fuel N cfg d d' maa opt sz tape, obs_eq d d' ->
  rel2 (expand_block fuel N cfg d maa opt sz tape) (expand_block fuel N cfg d' maa opt sz tape).
Proof.
  intros fuel N cfg d d' maa opt sz tape H. unfold expand_block. apply oe_block_loop. exact H.
Qed.

(* ================================================================== *)
(* C16, part 2: attractor-seed expansion                               *)
(* ================================================================== *)

Lemma oe_expanded_motifs : forall d d' node, obs_eq d d' ->
  expanded_motifs d node = expanded_motifs d' node.
Proof.
  intros d d' node H. unfold expanded_motifs. rewrite <- (oe_edges _ _ H).
  induction (sd_edges d) as [|e l IH]; simpl; [reflexivity|].
  rewrite <- (oe_exp _ _ H (e_dst e)), IH. reflexivity.
Qed.

Lemma oe_has_new_candidate : forall N d d' node s nfvs, obs_eq d d' ->
  has_new_candidate N d node s nfvs = has_new_candidate N d' node s nfvs.
Proof.
  intros N d d' node s nfvs H. unfold has_new_candidate. cbv zeta.
  rewrite <- (oe_space _ _ H s), <- (oe_expanded_motifs d d' node H). reflexivity.
Qed.

Lemma oe_aseeds_inner : forall N d d' node seen succ tape, obs_eq d d' ->
  aseeds_inner N d node seen succ tape = aseeds_inner N d' node seen succ tape.
Proof.
  intros N d d' node seen succ. induction succ as [|s r IH]; intros tape H; simpl; [reflexivity|].
  rewrite <- (oe_exp _ _ H s), <- (oe_has_new_candidate N d d' node s (hd [] tape) H).
  destruct (mem_nat s seen); [apply IH; exact H|].
  destruct (n_exp (get d s)); [reflexivity|].
  destruct (has_new_candidate N d node s (hd [] tape)); [reflexivity|apply IH; exact H].
Qed.

Lemma oe_aseeds_loop : forall N cfg sz fuel d d' seen stack tape, obs_eq d d' ->
  rel2 (aseeds_loop fuel N cfg sz d seen stack tape) (aseeds_loop fuel N cfg sz d' seen stack tape).
Proof.
  intros N cfg sz fuel. induction fuel as [|f IH]; intros d d' seen stack tape H.
  { simpl. rel_done H. }
  destruct stack as [|[x osucc] stack']; [simpl; rel_done H|].
  rewrite !aseeds_loop_S.
  assert (Htail : forall d1 d1' succ, obs_eq d1 d1' ->
            rel2 (loop_tail f N cfg sz d1 x seen stack' succ tape)
                 (loop_tail f N cfg sz d1' x seen stack' succ tape)).
  { intros d1 d1' succ H1. unfold loop_tail.
    rewrite <- (oe_aseeds_inner N d1 d1' x seen succ tape H1).
    destruct (aseeds_inner N d1 x seen succ tape) as [succ2 tape2].
    destruct succ2 as [|s rest]; apply IH; exact H1. }
  destruct osucc as [l|]; [apply Htail; exact H|].
  rewrite <- (oe_over_limit _ _ H), <- (oe_exp _ _ H x).
  destruct (over_limit sz d && negb (n_exp (get d x))); [rel_done H|].
  pose proof (oe_expand_one N cfg d d' x H) as H1.
  destruct (expand_one N cfg d x) as [d1 r], (expand_one N cfg d' x) as [d1' r'].
  destruct H1 as [H1 Hr]. simpl in H1, Hr. subst r'.
  destruct r; try (rel_done H1).
  rewrite <- (oe_successors _ _ H1 x). apply Htail. exact H1.
Qed.

Theorem expand_aseeds_obs_eq : forall fuel N cfg d d' sz min_tape tape, obs_eq d d' ->
  rel2 (expand_aseeds fuel N cfg d sz min_tape tape) (expand_aseeds fuel N cfg d' sz min_tape tape).
Proof.
  intros fuel N cfg d d' sz min_tape tape H. unfold expand_aseeds.
  pose proof (oe_expand_min fuel N cfg d d' None sz false min_tape H) as H1.
  destruct (expand_min fuel N cfg d None sz false min_tape) as [d0 r0],
           (expand_min fuel N cfg d' None sz false min_tape) as [d0' r0'].
  destruct H1 as [H1 Hr]. simpl in H1, Hr. subst r0'.
  destruct r0; try (rel_done H1); apply oe_aseeds_loop; exact H1.
Qed.

(* ================================================================== *)
(* C16, part 3: source-SCC expansion                                   *)
(* ================================================================== *)

Lemma oe_discard_if_stub : forall d d' i, obs_eq d d' ->
  obs_eq (discard_if_stub d i) (discard_if_stub d' i).
Proof.
  intros d d' i H. unfold discard_if_stub. rewrite <- (oe_exp _ _ H i), <- (oe_skip _ _ H i).
  destruct (n_exp (get d i) && negb (n_skip (get d i))); [exact H|].
  apply oe_upd_node; [exact H|apply oe_fun_clear_attr].
Qed.

Lemma oe_close_node : forall d d' i, obs_eq d d' ->
  obs_eq (upd_node (discard_if_stub d i) i (fun y => set_exp y true))
         (upd_node (discard_if_stub d' i) i (fun y => set_exp y true)).
Proof.
  intros d d' i H. apply oe_upd_node; [|apply oe_fun_set_exp]. apply oe_discard_if_stub. exact H.
Qed.

Lemma oe_attach_nodes : forall N maa B sub attach_space ids d d' map_ mins tape, obs_eq d d' ->
  rel3 (attach_nodes N maa B sub attach_space ids d map_ mins tape)
       (attach_nodes N maa B sub attach_space ids d' map_ mins tape).
Proof.
  intros N maa B sub attach_space ids.
  induction ids as [|i r IH]; intros d d' map_ mins tape H.
  { simpl. rel_done H. }
  cbn [attach_nodes].
  pose proof (oe_ensure_node N d d' None (graft B (n_space (get sub i)) attach_space) H) as H1.
  destruct (ensure_node N d None (graft B (n_space (get sub i)) attach_space)) as [d1 mid],
           (ensure_node N d' None (graft B (n_space (get sub i)) attach_space)) as [d1' mid'].
  destruct H1 as [H1 Hm]. simpl in H1, Hm. subst mid'.
  destruct (is_minimal sub i).
  - destruct maa.
    + destruct tape as [|[[|]|] t]; try (rel_done H1).
      * apply IH. apply oe_set_empty_seeds. exact H1.
      * apply IH. exact H1.
    + apply IH. exact H1.
  - pose proof (oe_close_node d1 d1' mid H1) as H2.
    destruct maa.
    + destruct tape as [|[[|]|] t]; try (rel_done H2).
      * apply IH. apply oe_set_empty_seeds. exact H2.
      * apply IH. exact H2.
    + apply IH. exact H2.
Qed.

Definition orel (a b : option sd) : Prop :=
  match a, b with
  | Some x, Some y => obs_eq x y
  | None, None => True
  | _, _ => False
  end.

Lemma oe_attach_edges : forall B sub map_ pairs d d', obs_eq d d' ->
  orel (attach_edges B sub map_ pairs d) (attach_edges B sub map_ pairs d').
Proof.
  intros B sub map_ pairs. induction pairs as [|[a b] r IH]; intros d d' H; simpl; [exact H|].
  destruct (Nat.eqb (nth a map_ 0) (nth b map_ 0)); [exact I|].
  apply IH. apply oe_ensure_edge. exact H.
Qed.

Lemma oe_attach_scc : forall N maa B sub d d' attach_at tape, obs_eq d d' ->
  rel4 (attach_scc N maa B sub d attach_at tape) (attach_scc N maa B sub d' attach_at tape).
Proof.
  intros N maa B sub d d' attach_at tape H. unfold attach_scc. cbv zeta.
  rewrite <- (oe_space _ _ H attach_at).
  destruct (Nat.eqb (size sub) 1); [rel_done H|].
  pose proof (oe_attach_nodes N maa B sub (n_space (get d attach_at)) (seq 1 (size sub - 1))
                d d' [attach_at] [] tape H) as H1.
  destruct (attach_nodes N maa B sub (n_space (get d attach_at)) (seq 1 (size sub - 1))
              d [attach_at] [] tape) as [[d1 res] tape1],
           (attach_nodes N maa B sub (n_space (get d attach_at)) (seq 1 (size sub - 1))
              d' [attach_at] [] tape) as [[d1' res'] tape1'].
  destruct H1 as [[H1 Hr] Ht]. simpl in H1, Hr, Ht. subst res' tape1'.
  destruct res as [[map_ mins]|]; [|rel_done H1].
  pose proof (oe_attach_edges B sub map_
                (flat_map (fun a => map (fun b => (a, b)) (successors sub a)) (seq 0 (size sub)))
                d1 d1' H1) as H2.
  destruct (attach_edges B sub map_ _ d1) as [d2|], (attach_edges B sub map_ _ d1') as [d2'|];
    simpl in H2; try contradiction; [|rel_done H1].
  pose proof (oe_close_node d2 d2' attach_at H2) as H3.
  destruct maa; [|rel_done H3].
  destruct tape1 as [|[[|]|] t]; try (rel_done H3).
  unfold rel4, rel3, rel2; simpl. repeat (split; [|reflexivity]).
  apply oe_set_empty_seeds. exact H3.
Qed.

Lemma oe_attach_all : forall N maa B sub ats d d' acc tape, obs_eq d d' ->
  rel4 (attach_all N maa B sub d ats acc tape) (attach_all N maa B sub d' ats acc tape).
Proof.
  intros N maa B sub ats. induction ats as [|a r IH]; intros d d' acc tape H.
  { simpl. rel_done H. }
  cbn [attach_all].
  pose proof (oe_attach_scc N maa B sub d d' a tape H) as H1.
  destruct (attach_scc N maa B sub d a tape) as [[[d1 res] mins] tape1],
           (attach_scc N maa B sub d' a tape) as [[[d1' res'] mins'] tape1'].
  destruct H1 as [[[H1 Hr] Hm] Ht]. simpl in H1, Hr, Hm, Ht. subst res' mins' tape1'.
  destruct res; try (rel_done H1). apply IH. exact H1.
Qed.

Lemma oe_scc_components : forall expander N maa sp comps d d' ats tape, obs_eq d d' ->
  rel4 (scc_components expander N maa sp comps d ats tape)
       (scc_components expander N maa sp comps d' ats tape).
Proof.
  intros expander N maa sp comps. induction comps as [|B r IH]; intros d d' ats tape H.
  { simpl. rel_done H. }
  cbn [scc_components]. cbv zeta.
  destruct (expander (sub_net N sp B) (init (sub_net N sp B)) tape) as [[sub rsub] tape1].
  destruct rsub; try (rel_done H).
  destruct b; [|rel_done H].
  pose proof (oe_attach_all N maa B sub ats d d' [] tape1 H) as H1.
  destruct (attach_all N maa B sub d ats [] tape1) as [[[d1 res] ats1] tape2],
           (attach_all N maa B sub d' ats [] tape1) as [[[d1' res'] ats1'] tape2'].
  destruct H1 as [[[H1 Hr] Ha] Ht]. simpl in H1, Hr, Ha, Ht. subst res' ats1' tape2'.
  destruct res; try (rel_done H1). apply IH. exact H1.
Qed.

Lemma oe_scc_level : forall expander N cfg maa cur d d' next tape, obs_eq d d' ->
  rel4 (scc_level expander N cfg maa d cur next tape) (scc_level expander N cfg maa d' cur next tape).
Proof.
  intros expander N cfg maa cur. induction cur as [|x cur IH]; intros d d' next tape H.
  { simpl. rel_done H. }
  cbn [scc_level]. cbv zeta. rewrite <- (oe_space _ _ H x).
  destruct (source_sccs N (n_space (get d x))) as [|c1 [|c2 cr]].
  - pose proof (oe_node_successors N cfg d d' x H) as H1.
    destruct (node_successors N cfg d x) as [[d1 r] succ],
             (node_successors N cfg d' x) as [[d1' r'] succ'].
    destruct H1 as [[H1 Hr] Hs]. simpl in H1, Hr, Hs. subst r' succ'.
    destruct r; try (rel_done H1).
    destruct succ; [apply IH; exact H1|rel_done H1].
  - pose proof (oe_node_successors N cfg d d' x H) as H1.
    destruct (node_successors N cfg d x) as [[d1 r] succ],
             (node_successors N cfg d' x) as [[d1' r'] succ'].
    destruct H1 as [[H1 Hr] Hs]. simpl in H1, Hr, Hs. subst r' succ'.
    destruct r; try (rel_done H1). apply IH. exact H1.
  - pose proof (oe_scc_components expander N maa (n_space (get d x)) (c1 :: c2 :: cr) d d' [x] tape H) as H1.
    destruct (scc_components expander N maa (n_space (get d x)) (c1 :: c2 :: cr) d [x] tape)
      as [[[d1 res] ats] tape1],
             (scc_components expander N maa (n_space (get d x)) (c1 :: c2 :: cr) d' [x] tape)
      as [[[d1' res'] ats'] tape1'].
    destruct H1 as [[[H1 Hr] Ha] Ht]. simpl in H1, Hr, Ha, Ht. subst res' ats' tape1'.
    destruct res; try (rel_done H1).
    + destruct ats as [|y [|y2 ar]]; try (apply IH; exact H1).
      destruct (Nat.eqb y x); [|apply IH; exact H1].
      pose proof (oe_node_successors N cfg d1 d1' x H1) as H2.
      destruct (node_successors N cfg d1 x) as [[d2 r] succ],
               (node_successors N cfg d1' x) as [[d2' r'] succ'].
      destruct H2 as [[H2 Hr] Hs]. simpl in H2, Hr, Hs. subst r' succ'.
      destruct r; try (rel_done H2). apply IH. exact H2.
    + destruct b; rel_done H1.
Qed.

Lemma oe_scc_levels : forall expander N cfg maa fuel d d' cur tape, obs_eq d d' ->
  rel3 (scc_levels fuel expander N cfg maa d cur tape) (scc_levels fuel expander N cfg maa d' cur tape).
Proof.
  intros expander N cfg maa fuel. induction fuel as [|f IH]; intros d d' cur tape H.
  { simpl. rel_done H. }
  cbn [scc_levels]. destruct cur as [|c cur']; [rel_done H|].
  pose proof (oe_scc_level expander N cfg maa (sort_nat (c :: cur')) d d' [] tape H) as H1.
  destruct (scc_level expander N cfg maa d (sort_nat (c :: cur')) [] tape) as [[[d1 r] next] tape1],
           (scc_level expander N cfg maa d' (sort_nat (c :: cur')) [] tape) as [[[d1' r'] next'] tape1'].
  destruct H1 as [[[H1 Hr] Hn] Ht]. simpl in H1, Hr, Hn, Ht. subst r' next' tape1'.
  destruct r; try (rel_done H1). apply IH. exact H1.
Qed.

Lemma oe_scc_main : forall cfg maa fuel N d d' tape, obs_eq d d' ->
  rel3 (scc_main fuel N cfg maa d tape) (scc_main fuel N cfg maa d' tape).
Proof.
  intros cfg maa fuel. destruct fuel as [|f]; intros N d d' tape H.
  { simpl. rel_done H. }
  cbn [scc_main]. cbv zeta. rewrite <- (oe_space _ _ H 0).
  destruct (sources_in_b N (n_space (get d 0))) as [|v vs] eqn:Es.
  { apply oe_scc_levels. exact H. }
  destruct (Nat.ltb (max_motifs cfg) _); [rel_done H|].
  pose proof (oe_ensure_children N
                (map (merge (n_space (get d 0))) (source_valuations (nvars N) (v :: vs)))
                d d' 0 [] H) as H1.
  destruct (ensure_children N d 0 _ []) as [d1 kids], (ensure_children N d' 0 _ []) as [d1' kids'].
  destruct H1 as [H1 Hk]. simpl in H1, Hk. subst kids'.
  apply oe_scc_levels. apply oe_ff_close. exact H1.
Qed.

Theorem expand_scc_obs_eq : forall fuel N cfg d d' maa tape, obs_eq d d' ->
  rel2 (expand_scc fuel N cfg d maa tape) (expand_scc fuel N cfg d' maa tape).
Proof.
  intros fuel N cfg d d' maa tape H. unfold expand_scc.
  pose proof (oe_scc_main cfg maa fuel N d d' tape H) as H1.
  destruct (scc_main fuel N cfg maa d tape) as [[d1 r] t1],
           (scc_main fuel N cfg maa d' tape) as [[d1' r'] t1'].
  destruct H1 as [[H1 Hr] Ht]. simpl in H1, Hr, Ht. subst r' t1'. rel_done H1.
Qed.

(* in particular reclaiming first changes nothing observable *)
Theorem expand_block_after_reclaim : forall fuel N cfg d maa opt sz tape,
  rel2 (expand_block fuel N cfg d maa opt sz tape) (expand_block fuel N cfg (reclaim d) maa opt sz tape).
Proof. intros. apply expand_block_obs_eq. apply reclaim_obs_eq. Qed.

Theorem expand_aseeds_after_reclaim : forall fuel N cfg d sz min_tape tape,
  rel2 (expand_aseeds fuel N cfg d sz min_tape tape) (expand_aseeds fuel N cfg (reclaim d) sz min_tape tape).
Proof. intros. apply expand_aseeds_obs_eq. apply reclaim_obs_eq. Qed.

Theorem expand_scc_after_reclaim : forall fuel N cfg d maa tape,
  rel2 (expand_scc fuel N cfg d maa tape) (expand_scc fuel N cfg (reclaim d) maa tape).
Proof. intros. apply expand_scc_obs_eq. apply reclaim_obs_eq. Qed.

(* ================================================================== *)
(* C20                                                                 *)
(* ================================================================== *)

Lemma expand_one_as_step : forall fuel N cfg d x, x < size d ->
  fst (expand_one N cfg d x) = fst (step fuel N cfg d (OExpandNode x)).
Proof.
  intros fuel N cfg d x Hx. unfold step. rewrite (proj2 (Nat.ltb_lt _ _) Hx).
  unfold node_successors. destruct (expand_one N cfg d x) as [d1 r]. destruct r; reflexivity.
Qed.

Lemma expand_one_DInv : forall N cfg d x, DInv N d -> x < size d -> DInv N (fst (expand_one N cfg d x)).
Proof.
  intros N cfg d x H Hx. rewrite (expand_one_as_step 0 N cfg d x Hx). apply step_DInv. exact H.
Qed.

Lemma DInv_upd : forall N d i f, flag_setter f -> DInv N d -> DInv N (upd_node d i f).
Proof.
  intros N d i f Hf (H1 & H2 & H3 & H4 & H5 & H6).
  assert (K1 : SWF N (upd_node d i f)) by (apply upd_flag_SWF; assumption).
  assert (K4 : Anch (upd_node d i f)) by (apply Anch_upd; assumption).
  assert (KL : LP (upd_node d i f)) by (apply LP_upd; [exact Hf|apply DepthOK_LP; assumption]).
  split; [exact K1|]. split; [apply TrapNodes_upd; assumption|].
  split; [apply EdgeStrict_upd; assumption|]. split; [exact K4|].
  split; [|exact (proj1 KL)].
  apply LP_Anch_DepthOK; [apply (SWF_EdgesIn N _ K1)|exact K4|exact KL].
Qed.

Lemma set_empty_seeds_DInv : forall N d i, DInv N d -> DInv N (set_empty_seeds d i).
Proof.
  intros N d i H. apply (set_empty_seeds_flag (DInv N)); [|exact H].
  intros d0 f Hf H0. apply DInv_upd; assumption.
Qed.

Lemma ff_step_Anch : forall N d x, SWF N d -> Anch d -> x < size d -> n_exp (get d x) = false ->
  Anch (ff_step N d x).
Proof.
  intros N d x Hswf Ha Hx Hex. unfold ff_step.
  apply (set_empty_seeds_flag Anch); [intros d0 f Hf H0; apply Anch_upd; assumption|].
  apply (clear_cands_flag Anch); [intros d0 f Hf H0; apply Anch_upd; assumption|].
  assert (H0 : AJ N x d).
  { split; [exact Hswf|]. split; [exact Hx|]. split; [exact Ha|].
    destruct (Nat.eq_dec x 0) as [E0|E0]; [left; exact E0|right].
    destruct (Ha x) as [L|[Hxp _]]; [lia|exact Hx|exact L|congruence]. }
  assert (H1 : AJ N x (ensure_all N d x (ff_motifs N (n_space (get d x))))).
  { apply (C_ensure_all N x (AJ N x) (fun m => length m = nvars N)).
    - intros d0 m K Hm. apply AJ_child; assumption.
    - exact H0.
    - intros m Hin. eapply ff_motifs_len; eauto. }
  exact (proj2 (AJ_close N x _ H1)).
Qed.

Lemma ff_step_LP : forall N d x, SWF N d -> TrapNodes N d -> EdgeStrict d -> LP d -> x < size d ->
  n_exp (get d x) = false -> sources_in_b N (n_space (get d x)) <> [] -> LP (ff_step N d x).
Proof.
  intros N d x Hswf Ht Hes HLP Hx Hex Hsrc.
  pose proof (ff_step_EdgeStrict N d x Hswf Hes Hx Hex Hsrc) as HF.
  destruct (LP_prim N (ff_step N d x) HF) as (A1 & _).
  set (E := ensure_all N d x (ff_motifs N (n_space (get d x)))).
  assert (HE : SWF N E /\ x < size E /\ (extends E (ff_step N d x) -> LP E)).
  { unfold E.
    apply (C_ensure_all N x (fun d0 => SWF N d0 /\ x < size d0 /\ (extends d0 (ff_step N d x) -> LP d0))
             (fun m => length m = nvars N /\ trap_space N m)).
    - intros d0 m (K1 & K2 & K3) [Hm Htm].
      destruct (ensure_child_spec N d0 x m K1 Hm K2) as (S1 & S2 & _).
      split; [exact S1|]. split; [eapply extends_lt; eauto|].
      apply (A1 d0 (Some x) m K1 K3 Hm Htm).
      intros p0 Heq. injection Heq as Heq. subst p0. exact K2.
    - split; [exact Hswf|]. split; [exact Hx|]. intros _. exact HLP.
    - intros m Hin. split; [eapply ff_motifs_len; eauto|].
      eapply ff_motif_trap; [|exact Hin]. apply TrapNodes_get; assumption. }
  destruct HE as (_ & _ & HE).
  assert (Hext : extends E (ff_step N d x)).
  { unfold ff_step. fold E.
    apply (ff_close_flag (fun d0 => extends E d0)); [|apply extends_refl].
    intros d0 f Hf H0. eapply extends_trans; [exact H0|apply upd_flag_extends; exact Hf]. }
  specialize (HE Hext).
  unfold ff_step. fold E.
  apply (ff_close_flag LP); [|exact HE].
  intros d0 f Hf H0. apply LP_upd; assumption.
Qed.

Lemma ff_step_DInv : forall N d x, DInv N d -> x < size d -> n_exp (get d x) = false ->
  sources_in_b N (n_space (get d x)) <> [] -> DInv N (ff_step N d x).
Proof.
  intros N d x (H1 & H2 & H3 & H4 & H5 & H6) Hx Hex Hsrc.
  assert (K1 : SWF N (ff_step N d x)) by (apply ff_step_SWF; assumption).
  assert (K4 : Anch (ff_step N d x)) by (apply ff_step_Anch; assumption).
  assert (KL : LP (ff_step N d x)).
  { apply ff_step_LP; try assumption. apply DepthOK_LP; assumption. }
  split; [exact K1|]. split; [apply ff_step_TrapNodes; assumption|].
  split; [apply ff_step_EdgeStrict; assumption|]. split; [exact K4|].
  split; [|exact (proj1 KL)].
  apply LP_Anch_DepthOK; [apply (SWF_EdgesIn N _ K1)|exact K4|exact KL].
Qed.

Theorem expand_block_DInv : forall fuel N cfg d maa opt sz tape,
  DInv N d -> DInv N (fst (expand_block fuel N cfg d maa opt sz tape)).
Proof.
  intros fuel N cfg d maa opt sz tape H.
  apply (block_transfer N cfg opt (DInv N)).
  - intros d0 x _ H0 Hx _. apply expand_one_DInv; assumption.
  - intros d0 i _ H0 _ _. apply set_empty_seeds_DInv. exact H0.
  - intros d0 x _ _ H0 Hx Hex Hsrc. apply ff_step_DInv; assumption.
  - apply H.
  - exact H.
Qed.

Theorem expand_block_DepthOK : forall fuel N cfg d maa opt sz tape, 1 <= max_motifs cfg ->
  DInv N d -> let d' := fst (expand_block fuel N cfg d maa opt sz tape) in DepthOK d' /\ EdgeDepth d'.
Proof.
  intros fuel N cfg d maa opt sz tape _ H. cbv zeta.
  destruct (expand_block_DInv fuel N cfg d maa opt sz tape H) as (_ & _ & _ & _ & A & B).
  split; assumption.
Qed.

Theorem expand_aseeds_DInv : forall fuel N cfg d sz min_tape tape,
  DInv N d -> DInv N (fst (expand_aseeds fuel N cfg d sz min_tape tape)).
Proof.
  intros fuel N cfg d sz min_tape tape H.
  apply (expand_aseeds_keeps N cfg (DInv N)).
  - intros fuel0 d0 sz0 tape0 H0. apply step_DInv. exact H0.
  - intros d0 x H0 Hx. apply expand_one_DInv; assumption.
  - exact H.
Qed.

Theorem expand_aseeds_DepthOK : forall fuel N cfg d sz min_tape tape, 1 <= max_motifs cfg ->
  DInv N d -> let d' := fst (expand_aseeds fuel N cfg d sz min_tape tape) in DepthOK d' /\ EdgeDepth d'.
Proof.
  intros fuel N cfg d sz min_tape tape _ H. cbv zeta.
  destruct (expand_aseeds_DInv fuel N cfg d sz min_tape tape H) as (_ & _ & _ & _ & A & B).
  split; assumption.
Qed.

Print Assumptions expand_block_obs_eq.
Print Assumptions expand_aseeds_obs_eq.
Print Assumptions expand_scc_obs_eq.
Print Assumptions expand_block_after_reclaim.
Print Assumptions expand_aseeds_after_reclaim.
Print Assumptions expand_scc_after_reclaim.
Print Assumptions expand_block_DepthOK.
Print Assumptions expand_aseeds_DepthOK.
