(* PySrcControlCorollaries.v -- C06 / C07 stated for the SOURCE TEXT of control.find_drivers: every override the generated function reports
   forces the motif (C06), respects the constraints, and the list is complete and minimal (C07).  Corollaries of py_find_drivers_spec and the
   theorems of ControlFacts.v about the model's find_drivers. *)
From Coq Require Import List Bool Arith Lia.
Import ListNotations.
From BB Require Import BN Brute SpaceFacts TrapFacts Diagram Control ControlFacts PyLib PyLibSd PyLibPerc PyLibCore PyLibControl PySrcControl PySrcFindDriversFacts.

Theorem py_find_drivers_force : forall N ts strat assume maxd forb l drv,
  trap_space N assume -> length ts = nvars N ->
  py_find_drivers N ts strat (Some assume) maxd forb = Some l -> In drv l ->
  forced (override N drv) assume ts.
Proof.
  intros N ts strat assume maxd forb l drv Htrap Hts Hrun Hin.
  pose proof (trap_space_length N assume Htrap) as Has.
  rewrite (py_find_drivers_spec N ts strat (Some assume) maxd forb Hts Has) in Hrun. injection Hrun as <-.
  eapply find_drivers_force; eassumption.
Qed.

Theorem py_find_drivers_sound : forall N ts strat assume maxd forb l drv,
  length ts = nvars N -> length assume = nvars N ->
  py_find_drivers N ts strat (Some assume) maxd forb = Some l -> In drv l ->
  length drv = nvars N /\ forces_ldoi N drv assume ts = true /\
  (forall v, In v (dom drv) -> ~ In v (opt_vars forb)) /\
  length (dom drv) <= match maxd with Some k => k | None => length (vars_fixed (free_of ts assume)) end /\
  (strat = false -> forall v b, nth v drv None = Some b -> nth v (free_of ts assume) None = Some b).
Proof.
  intros N ts strat assume maxd forb l drv Hts Has Hrun Hin.
  rewrite (py_find_drivers_spec N ts strat (Some assume) maxd forb Hts Has) in Hrun. injection Hrun as <-.
  apply (find_drivers_sound N ts strat assume maxd (opt_vars forb) drv Hts Has Hin).
Qed.

Theorem py_find_drivers_complete : forall N ts strat assume maxd forb drv,
  length ts = nvars N -> length assume = nvars N -> length drv = nvars N ->
  forces_ldoi N drv assume ts = true ->
  (forall v, In v (dom drv) -> ~ In v (opt_vars forb) /\ v < nvars N) ->
  length (dom drv) <= match maxd with Some k => k | None => length (vars_fixed (free_of ts assume)) end ->
  (strat = false -> forall v b, nth v drv None = Some b -> nth v (free_of ts assume) None = Some b) ->
  exists l drv', py_find_drivers N ts strat (Some assume) maxd forb = Some l /\ In drv' l /\ forall v, In v (dom drv') -> In v (dom drv).
Proof.
  intros N ts strat assume maxd forb drv Hts Has Hdrv Hf Hadm Hsize Hagree.
  destruct (find_drivers_complete N ts strat assume maxd (opt_vars forb) drv Hts Has Hdrv Hf Hadm Hsize Hagree) as (drv' & Hin & Hsub).
  exists (find_drivers N ts strat assume maxd (opt_vars forb)), drv'. split; [|split; [exact Hin|exact Hsub]].
  exact (py_find_drivers_spec N ts strat (Some assume) maxd forb Hts Has).
Qed.

Theorem py_find_drivers_minimal : forall N ts strat assume maxd forb l drv drv',
  length ts = nvars N -> length assume = nvars N ->
  py_find_drivers N ts strat (Some assume) maxd forb = Some l -> In drv l -> In drv' l ->
  (forall v, In v (dom drv') -> In v (dom drv)) -> (forall v, In v (dom drv) -> In v (dom drv')).
Proof.
  intros N ts strat assume maxd forb l drv drv' Hts Has Hrun Hin Hin' Hsub.
  rewrite (py_find_drivers_spec N ts strat (Some assume) maxd forb Hts Has) in Hrun. injection Hrun as <-.
  exact (find_drivers_minimal N ts strat assume maxd (opt_vars forb) drv drv' Hts Has Hin Hin' Hsub).
Qed.

Print Assumptions py_find_drivers_force.
Print Assumptions py_find_drivers_sound.
Print Assumptions py_find_drivers_complete.
Print Assumptions py_find_drivers_minimal.
