(* PetriNetFacts.v -- facts about the implicant Petri-net encoding of PetriNet.v:
   markings and firing, exactness of the executable faithfulness test, faithfulness of
   network_to_petrinet, restriction to a subspace, source variables, the reduced net. *)
From Coq Require Import List Bool Arith Lia.
Import ListNotations.
From BB Require Import BN Brute SpaceFacts TrapFacts PetriNet.

(* ------------------------------------------------------------------ *)
(* small boolean / list helpers                                        *)
(* ------------------------------------------------------------------ *)

Lemma bool_neq_negb : forall a b : bool, a <> b -> b = negb a.
Proof.
  intros a b Hne. destruct a, b; simpl; congruence.
Qed.

Lemma negb_neq : forall b : bool, b <> negb b.
Proof.
  intros b. destruct b; discriminate.
Qed.

Lemma free_b_iff : forall (S : space) v,
  (match nth v S None with None => true | Some _ => false end) = true <-> nth v S None = None.
Proof.
  intros S v. destruct (nth v S None) as [b|]; split; intros H; try discriminate; reflexivity.
Qed.

Lemma filter_map_comm : forall A B (f : A -> B) (p : B -> bool) (l : list A),
  filter p (map f l) = map f (filter (fun x => p (f x)) l).
Proof.
  intros A B f p l. induction l as [|a l IH]; simpl.
  - reflexivity.
  - destruct (p (f a)); simpl; rewrite IH; reflexivity.
Qed.

Lemma filter_filter : forall A (p q : A -> bool) (l : list A),
  filter p (filter q l) = filter (fun x => q x && p x) l.
Proof.
  intros A p q l. induction l as [|a l IH]; simpl.
  - reflexivity.
  - destruct (q a); simpl.
    + destruct (p a); rewrite IH; reflexivity.
    + exact IH.
Qed.

Lemma in_space_top : forall (s : state) n, length s = n -> in_space s (top_space n) = true.
Proof.
  intros s n Hlen. apply in_space_nth.
  - unfold top_space. rewrite repeat_length. exact Hlen.
  - intros i v Hi. rewrite nth_top_space in Hi. discriminate.
Qed.

Lemma subspace_free : forall (x y : space) i, subspace x y = true ->
  nth i x None = None -> nth i y None = None.
Proof.
  intros x y i Hsub Hx. destruct (nth i y None) as [v|] eqn:E; [|reflexivity].
  apply (proj1 (subspace_nth x y (subspace_length x y Hsub)) Hsub) in E. congruence.
Qed.

(* ------------------------------------------------------------------ *)
(* basic facts about markings                                          *)
(* ------------------------------------------------------------------ *)

Lemma cond_places_from_spec : forall c i v b,
  In (v, b) (cond_places_from i c) <-> exists j, v = i + j /\ nth j c None = Some b.
Proof.
  induction c as [|o c IH]; intros i v b; simpl.
  - split.
    + intros [].
    + intros [j [_ Hj]]. destruct j; discriminate.
  - destruct o as [x|].
    + simpl. rewrite IH. split.
      * intros [Heq | [j [Hv Hj]]].
        -- inversion Heq; subst. exists 0. split; [lia|reflexivity].
        -- exists (S j). split; [lia|exact Hj].
      * intros [j [Hv Hj]]. destruct j as [|j].
        -- left. inversion Hj; subst. f_equal. lia.
        -- right. exists j. split; [lia|exact Hj].
    + rewrite IH. split.
      * intros [j [Hv Hj]]. exists (S j). split; [lia|exact Hj].
      * intros [j [Hv Hj]]. destruct j as [|j]; [discriminate|].
        exists j. split; [lia|exact Hj].
Qed.

Lemma marked_spec : forall s v b, marked s (v, b) = true <-> nth v s false = b.
Proof.
  intros s v b. unfold marked. simpl. apply eqb_true_iff.
Qed.

(* enabledness without any length hypothesis *)
Lemma enabled_iff : forall s t,
  enabled s t = true <->
  nth (t_var t) s false = negb (t_up t) /\
  forall j b, nth j (t_cond t) None = Some b -> nth j s false = b.
Proof.
  intros s t. unfold enabled, pre_places. simpl forallb.
  rewrite andb_true_iff, forallb_forall, marked_spec. split.
  - intros [H1 H2]. split; [exact H1|]. intros j b Hj.
    apply marked_spec. apply H2. unfold cond_places.
    apply cond_places_from_spec. exists j. split; [reflexivity|exact Hj].
  - intros [H1 H2]. split; [exact H1|]. intros [v b] Hin.
    unfold cond_places in Hin. apply cond_places_from_spec in Hin.
    destruct Hin as [j [Hv Hj]]. simpl in Hv. subst v.
    apply marked_spec. apply H2. exact Hj.
Qed.

Lemma enabled_spec : forall s t, length (t_cond t) = length s ->
  nth (t_var t) (t_cond t) None = None ->
  (enabled s t = true <->
   nth (t_var t) s false = negb (t_up t) /\ in_space s (t_cond t) = true).
Proof.
  intros s t Hlen _. rewrite enabled_iff.
  rewrite (in_space_nth s (t_cond t) (eq_sym Hlen)). reflexivity.
Qed.

Lemma fire_is_step : forall N s t, t_var t < length s -> upd N (t_var t) s = t_up t ->
  fire s t = step_i N (t_var t) s.
Proof.
  intros N s t _ Hupd. unfold fire, step_i. rewrite Hupd. reflexivity.
Qed.

(* ------------------------------------------------------------------ *)
(* the executable faithfulness test is exact                           *)
(* ------------------------------------------------------------------ *)

Lemma faithful_cell_b : forall N pn s i up,
  Bool.eqb (existsb (fun t => Nat.eqb (t_var t) i && Bool.eqb (t_up t) up && enabled s t)
                    (p_trans pn))
           (Bool.eqb (upd N i s) up && Bool.eqb (nth i s false) (negb up)) = true <->
  ((exists t, In t (p_trans pn) /\ t_var t = i /\ t_up t = up /\ enabled s t = true) <->
   (upd N i s = up /\ nth i s false = negb up)).
Proof.
  intros N pn s i up.
  assert (HA : existsb (fun t => Nat.eqb (t_var t) i && Bool.eqb (t_up t) up && enabled s t)
                       (p_trans pn) = true <->
               exists t, In t (p_trans pn) /\ t_var t = i /\ t_up t = up /\ enabled s t = true).
  { rewrite existsb_exists. split.
    - intros [t [Hin Hb]]. apply andb_true_iff in Hb. destruct Hb as [Hb He].
      apply andb_true_iff in Hb. destruct Hb as [Hv Hu].
      exists t. split; [exact Hin|]. split; [apply Nat.eqb_eq; exact Hv|].
      split; [apply eqb_prop; exact Hu|exact He].
    - intros [t [Hin [Hv [Hu He]]]]. exists t. split; [exact Hin|].
      rewrite Hv, Hu, He, Nat.eqb_refl, eqb_reflx. reflexivity. }
  assert (HB : Bool.eqb (upd N i s) up && Bool.eqb (nth i s false) (negb up) = true <->
               upd N i s = up /\ nth i s false = negb up).
  { rewrite andb_true_iff, !eqb_true_iff. reflexivity. }
  rewrite eqb_true_iff, eq_iff_eq_true, HA, HB. reflexivity.
Qed.

Theorem pn_faithful_b_spec : forall N S pn, length S = nvars N ->
  (pn_faithful_b N S pn = true <-> pn_faithful_on N S pn).
Proof.
  intros N S pn HS. unfold pn_faithful_b, pn_faithful_on. split.
  - intros H s Hlen Hin i up Hi Hfree. apply faithful_cell_b.
    rewrite forallb_forall in H. apply states_of_spec in Hin.
    specialize (H s Hin). rewrite forallb_forall in H.
    assert (Hseq : In i (seq 0 (nvars N))) by (apply in_seq; lia).
    specialize (H i Hseq). rewrite Hfree in H. rewrite forallb_forall in H.
    apply H. destruct up; simpl; auto.
  - intros H. apply forallb_forall. intros s Hin. apply states_of_spec in Hin.
    assert (Hlen : length s = nvars N).
    { rewrite <- HS. apply in_space_length. exact Hin. }
    apply forallb_forall. intros i Hi. apply in_seq in Hi.
    destruct (nth i S None) as [b|] eqn:E; [reflexivity|].
    apply forallb_forall. intros up _. apply faithful_cell_b.
    apply H; [exact Hlen|exact Hin|lia|exact E].
Qed.

(* ------------------------------------------------------------------ *)
(* network_to_petrinet                                                 *)
(* ------------------------------------------------------------------ *)

Definition impl_wf (n : nat) (impl : nat -> bool -> list space) : Prop :=
  forall i up c, In c (impl i up) -> length c = n.

Lemma net_to_pn_trans : forall n impl t,
  In t (p_trans (net_to_pn n impl)) <->
  exists i up c, i < n /\ In c (impl i up) /\
                 t = {| t_var := i; t_up := up; t_cond := clear_pos i c |}.
Proof.
  intros n impl t. simpl. rewrite in_flat_map. split.
  - intros [i [Hi Hin]]. apply in_seq in Hi. apply in_app_iff in Hin.
    destruct Hin as [Hin|Hin]; apply in_map_iff in Hin; destruct Hin as [c [Heq Hc]].
    + exists i, true, c. split; [lia|]. split; [exact Hc|]. symmetry. exact Heq.
    + exists i, false, c. split; [lia|]. split; [exact Hc|]. symmetry. exact Heq.
  - intros [i [up [c [Hi [Hc Heq]]]]]. exists i. split; [apply in_seq; lia|].
    apply in_app_iff. destruct up; [left|right]; apply in_map_iff; exists c;
      (split; [symmetry; exact Heq|exact Hc]).
Qed.

Lemma nth_clear_pos_eq : forall i c, nth i (clear_pos i c) None = None.
Proof.
  intros i c. unfold clear_pos. destruct (Nat.lt_ge_cases i (length c)) as [Hlt|Hge].
  - apply nth_set_nth_eq. exact Hlt.
  - rewrite set_nth_beyond by exact Hge. apply nth_overflow. exact Hge.
Qed.

Lemma nth_clear_pos_neq : forall i j c, i <> j -> nth j (clear_pos i c) None = nth j c None.
Proof.
  intros i j c Hne. unfold clear_pos. apply nth_set_nth_neq. exact Hne.
Qed.

Theorem net_to_pn_faithful : forall N impl, impl_wf (nvars N) impl -> impl_cover N impl ->
  pn_faithful N (net_to_pn (nvars N) impl).
Proof.
  intros N impl Hwf Hcov. unfold pn_faithful, pn_faithful_on.
  intros s Hlen _ i up Hi _.
  transitivity (exists c, In c (impl i up) /\ in_space s c = true);
    [|apply Hcov; assumption].
  split.
  - intros [t [Ht [Hv [Hu He]]]]. apply net_to_pn_trans in Ht.
    destruct Ht as [i' [up' [c [Hi' [Hc Heq]]]]]. subst t. simpl in Hv, Hu. subst i' up'.
    apply enabled_iff in He. simpl in He. destruct He as [He1 He2].
    assert (Hclen : length c = nvars N) by (apply (Hwf i up c Hc)).
    exists c. split; [exact Hc|].
    apply in_space_nth; [congruence|]. intros j v Hj.
    destruct (Nat.eq_dec j i) as [Hji|Hne].
    + subst j. destruct (bool_dec up v) as [Huv|Huv].
      * exfalso. subst v.
        assert (Hin' : in_space (set_nth i up s) c = true).
        { apply in_space_nth; [rewrite set_nth_length; congruence|].
          intros k w Hk. destruct (Nat.eq_dec k i) as [Hki|Hki].
          - subst k. rewrite nth_set_nth_eq by lia. congruence.
          - rewrite nth_set_nth_neq by auto. apply He2.
            rewrite nth_clear_pos_neq by auto. exact Hk. }
        assert (Hlen' : length (set_nth i up s) = nvars N)
          by (rewrite set_nth_length; exact Hlen).
        destruct (proj1 (Hcov i up (set_nth i up s) Hi Hlen')
                        (ex_intro _ c (conj Hc Hin'))) as [_ Hbad].
        rewrite nth_set_nth_eq in Hbad by lia. exact (negb_neq up Hbad).
      * rewrite He1. symmetry. apply bool_neq_negb. exact Huv.
    + apply He2. rewrite nth_clear_pos_neq by auto. exact Hj.
  - intros [c [Hc Hin]].
    exists {| t_var := i; t_up := up; t_cond := clear_pos i c |}.
    split; [apply net_to_pn_trans; exists i, up, c; auto|].
    simpl. split; [reflexivity|]. split; [reflexivity|].
    apply enabled_iff. simpl. split.
    + destruct (proj1 (Hcov i up s Hi Hlen) (ex_intro _ c (conj Hc Hin))) as [_ Hn].
      exact Hn.
    + intros j b Hj. destruct (Nat.eq_dec j i) as [Hji|Hne].
      * subst j. rewrite nth_clear_pos_eq in Hj. discriminate.
      * rewrite nth_clear_pos_neq in Hj by auto.
        assert (Hclen : length c = nvars N) by (apply (Hwf i up c Hc)).
        apply (proj1 (in_space_nth s c (eq_trans Hlen (eq_sym Hclen))) Hin j b Hj).
Qed.

(* the asynchronous transitions of the network are exactly the firings of the net *)
Theorem pn_faithful_trans : forall N pn s t, pn_faithful N pn -> length s = nvars N ->
  (trans N s t <->
   exists tr, In tr (p_trans pn) /\ t_var tr < nvars N /\ enabled s tr = true /\ t = fire s tr).
Proof.
  intros N pn s t Hf Hlen. unfold pn_faithful, pn_faithful_on in Hf.
  assert (Htop : in_space s (top_space (nvars N)) = true) by (apply in_space_top; exact Hlen).
  split.
  - intros [i [Hi [Ht Hne]]].
    assert (Hupd : nth i s false = negb (upd N i s)).
    { apply bool_neq_negb. intros E. apply Hne. rewrite Ht. unfold step_i. rewrite E.
      apply set_nth_same. lia. }
    destruct (proj2 (Hf s Hlen Htop i (upd N i s) Hi (nth_top_space _ _))
                    (conj eq_refl Hupd)) as [tr [Hin [Hv [Hu He]]]].
    exists tr. split; [exact Hin|]. split; [lia|]. split; [exact He|].
    rewrite Ht. unfold fire, step_i. rewrite Hv, Hu. reflexivity.
  - intros [tr [Hin [Hv [He Ht]]]].
    destruct (proj1 (Hf s Hlen Htop (t_var tr) (t_up tr) Hv (nth_top_space _ _))
                    (ex_intro _ tr (conj Hin (conj eq_refl (conj eq_refl He))))) as [Hu Hn].
    exists (t_var tr). split; [exact Hv|]. split.
    + rewrite Ht. unfold fire, step_i. rewrite Hu. reflexivity.
    + intros Heq. rewrite Ht in Heq. unfold fire in Heq.
      assert (Hnth : nth (t_var tr) (set_nth (t_var tr) (t_up tr) s) false = t_up tr)
        by (apply nth_set_nth_eq; lia).
      rewrite Heq, Hn in Hnth. exact (negb_neq (t_up tr) (eq_sym Hnth)).
Qed.

(* ------------------------------------------------------------------ *)
(* restriction to a subspace                                           *)
(* ------------------------------------------------------------------ *)

Lemma clear_fixed_length : forall c S, length (clear_fixed c S) = length c.
Proof.
  induction c as [|x c IH]; intros S.
  - reflexivity.
  - destruct S as [|o S]; simpl; [reflexivity|]. rewrite IH. reflexivity.
Qed.

Lemma nth_clear_fixed : forall c S j,
  nth j (clear_fixed c S) None =
  match nth j S None with Some _ => None | None => nth j c None end.
Proof.
  induction c as [|x c IH]; intros S j.
  - simpl. destruct j; destruct (nth _ S None); reflexivity.
  - destruct S as [|o S]; simpl.
    + destruct j; reflexivity.
    + destruct j as [|j].
      * destruct o; reflexivity.
      * apply IH.
Qed.

Lemma cond_compatible_cons : forall a c o S,
  cond_compatible (a :: c) (o :: S) =
  (match a, o with Some b, Some v => Bool.eqb b v | _, _ => true end) && cond_compatible c S.
Proof.
  intros a c o S. reflexivity.
Qed.

Lemma cond_compatible_spec : forall c Sp,
  cond_compatible c Sp = true <->
  forall j b v, nth j c None = Some b -> nth j Sp None = Some v -> b = v.
Proof.
  induction c as [|a c IH]; intros Sp.
  - split; [|reflexivity]. intros _ j b v Hj. destruct j; discriminate.
  - destruct Sp as [|o Sp].
    + split; [|reflexivity]. intros _ j b v _ Hj. destruct j; discriminate.
    + rewrite cond_compatible_cons, andb_true_iff, IH. split.
      * intros [H1 H2] j b v Hc HS. destruct j as [|j].
        -- simpl in Hc, HS. subst a o. apply eqb_prop. exact H1.
        -- apply (H2 j b v Hc HS).
      * intros H. split.
        -- destruct a as [b|]; [|reflexivity]. destruct o as [v|]; [|reflexivity].
           rewrite (H 0 b v eq_refl eq_refl). apply eqb_reflx.
        -- intros j b v Hc HS. apply (H (S j) b v Hc HS).
Qed.

Lemma restrict_trans_spec : forall pn S t',
  In t' (p_trans (restrict_pn pn S)) <->
  exists t, In t (p_trans pn) /\ nth (t_var t) S None = None /\
            cond_compatible (t_cond t) S = true /\
            t' = {| t_var := t_var t; t_up := t_up t; t_cond := clear_fixed (t_cond t) S |}.
Proof.
  intros pn S t'. simpl. rewrite in_map_iff. split.
  - intros [t [Heq Hin]]. apply filter_In in Hin. destruct Hin as [Hin Hb].
    apply andb_true_iff in Hb. destruct Hb as [Hfr Hcc]. apply free_b_iff in Hfr.
    exists t. split; [exact Hin|]. split; [exact Hfr|]. split; [exact Hcc|].
    symmetry. exact Heq.
  - intros [t [Hin [Hfr [Hcc Heq]]]]. exists t. split; [symmetry; exact Heq|].
    apply filter_In. split; [exact Hin|]. apply andb_true_iff. split; [|exact Hcc].
    apply free_b_iff. exact Hfr.
Qed.

Theorem restrict_faithful : forall N S T pn, length S = nvars N -> length T = nvars N ->
  (forall t, In t (p_trans pn) -> length (t_cond t) = nvars N) ->
  subspace S T = true -> pn_faithful_on N T pn -> pn_faithful_on N S (restrict_pn pn S).
Proof.
  intros N S T pn HS HT _ Hsub Hf s Hs HinS i up Hi Hfree.
  assert (HinT : in_space s T = true).
  { apply (proj1 (subspace_spec S T (eq_trans HS (eq_sym HT))) Hsub). exact HinS. }
  assert (HfreeT : nth i T None = None) by (apply (subspace_free S T i Hsub Hfree)).
  assert (HSs : forall j v, nth j S None = Some v -> nth j s false = v).
  { apply in_space_nth; [congruence|exact HinS]. }
  transitivity (exists t, In t (p_trans pn) /\ t_var t = i /\ t_up t = up /\ enabled s t = true);
    [|apply Hf; assumption].
  split.
  - intros [t' [Hin [Hv [Hu He]]]]. apply restrict_trans_spec in Hin.
    destruct Hin as [t [Hin [Hfr [Hcc Heq]]]]. subst t'. simpl in Hv, Hu.
    exists t. split; [exact Hin|]. split; [exact Hv|]. split; [exact Hu|].
    apply enabled_iff in He. simpl in He. destruct He as [He1 He2].
    apply enabled_iff. split; [exact He1|]. intros j b Hj.
    destruct (nth j S None) as [v|] eqn:E.
    + rewrite (proj1 (cond_compatible_spec _ _) Hcc j b v Hj E). apply HSs. exact E.
    + apply He2. rewrite nth_clear_fixed, E. exact Hj.
  - intros [t [Hin [Hv [Hu He]]]]. apply enabled_iff in He. destruct He as [He1 He2].
    exists {| t_var := t_var t; t_up := t_up t; t_cond := clear_fixed (t_cond t) S |}.
    split.
    + apply restrict_trans_spec. exists t. split; [exact Hin|].
      split; [rewrite Hv; exact Hfree|]. split; [|reflexivity].
      apply cond_compatible_spec. intros j b v Hj HSj.
      rewrite <- (He2 j b Hj). apply HSs. exact HSj.
    + simpl. split; [exact Hv|]. split; [exact Hu|].
      apply enabled_iff. simpl. split; [exact He1|].
      intros j b Hj. rewrite nth_clear_fixed in Hj.
      destruct (nth j S None); [discriminate|]. apply He2. exact Hj.
Qed.

Theorem restrict_vars : forall pn S v,
  In v (p_vars (restrict_pn pn S)) <-> In v (p_vars pn) /\ nth v S None = None.
Proof.
  intros pn S v. simpl. rewrite filter_In, free_b_iff. reflexivity.
Qed.

(* the restricted net mentions only variables left free *)
Theorem restrict_no_fixed : forall pn S t, In t (p_trans (restrict_pn pn S)) ->
  nth (t_var t) S None = None /\ forall v b, In (v, b) (cond_places t) -> nth v S None = None.
Proof.
  intros pn S t' Hin. apply restrict_trans_spec in Hin.
  destruct Hin as [t [Hin [Hfr [Hcc Heq]]]]. subst t'. simpl. split; [exact Hfr|].
  intros v b Hp. unfold cond_places in Hp. simpl in Hp.
  apply cond_places_from_spec in Hp. destruct Hp as [j [Hv Hj]]. simpl in Hv. subst v.
  rewrite nth_clear_fixed in Hj. destruct (nth j S None); [discriminate|reflexivity].
Qed.

Lemma clear_fixed_compose : forall c S S', subspace S' S = true ->
  clear_fixed (clear_fixed c S) S' = clear_fixed c S'.
Proof.
  intros c S S' Hsub. apply nth_ext with (d := None) (d' := None).
  - rewrite !clear_fixed_length. reflexivity.
  - intros j _. rewrite !nth_clear_fixed.
    destruct (nth j S' None) as [v'|] eqn:E'; [reflexivity|].
    rewrite (subspace_free S' S j Hsub E'). reflexivity.
Qed.

(* restricting the parent's restricted net gives exactly the net restricted from the global one *)
Theorem restrict_compose : forall pn S S', subspace S' S = true ->
  (forall t, In t (p_trans pn) -> length (t_cond t) = length S) ->
  restrict_pn (restrict_pn pn S) S' = restrict_pn pn S'.
Proof.
  intros pn S S' Hsub _. unfold restrict_pn. simpl. f_equal.
  - rewrite filter_filter. apply filter_ext. intros v.
    destruct (nth v S' None) as [b'|] eqn:E'.
    + apply andb_false_r.
    + rewrite (subspace_free S' S v Hsub E'). reflexivity.
  - rewrite filter_map_comm, map_map, filter_filter. simpl.
    assert (Hfil :
      filter (fun t =>
                (match nth (t_var t) S None with None => true | Some _ => false end)
                && cond_compatible (t_cond t) S
                && ((match nth (t_var t) S' None with None => true | Some _ => false end)
                    && cond_compatible (clear_fixed (t_cond t) S) S')) (p_trans pn) =
      filter (fun t =>
                (match nth (t_var t) S' None with None => true | Some _ => false end)
                && cond_compatible (t_cond t) S') (p_trans pn)).
    { apply filter_ext. intros t. apply eq_iff_eq_true.
      rewrite !andb_true_iff, !free_b_iff, !cond_compatible_spec. split.
      - intros [[HfS HcS] [HfS' Hcc]]. split; [exact HfS'|].
        intros j b v Hj HS'. destruct (nth j S None) as [w|] eqn:E.
        + assert (HS'w : nth j S' None = Some w).
          { apply (proj1 (subspace_nth S' S (subspace_length S' S Hsub)) Hsub). exact E. }
          rewrite (HcS j b w Hj E). congruence.
        + apply (Hcc j b v); [|exact HS']. rewrite nth_clear_fixed, E. exact Hj.
      - intros [HfS' HcS']. split; [split|split].
        + apply (subspace_free S' S _ Hsub HfS').
        + intros j b v Hj HSj. apply (HcS' j b v Hj).
          apply (proj1 (subspace_nth S' S (subspace_length S' S Hsub)) Hsub). exact HSj.
        + exact HfS'.
        + intros j b v Hj HS'. rewrite nth_clear_fixed in Hj.
          destruct (nth j S None); [discriminate|]. apply (HcS' j b v Hj HS'). }
    rewrite Hfil. apply map_ext. intros t.
    rewrite (clear_fixed_compose (t_cond t) S S' Hsub). reflexivity.
Qed.

(* ------------------------------------------------------------------ *)
(* sources                                                             *)
(* ------------------------------------------------------------------ *)

Lemma pn_sources_In : forall pn v,
  In v (pn_sources pn) <->
  In v (p_vars pn) /\ forall t, In t (p_trans pn) -> t_var t <> v.
Proof.
  intros pn v. unfold pn_sources. rewrite filter_In, negb_true_iff. split.
  - intros [H1 H2]. split; [exact H1|]. intros t Hin Heq.
    assert (Hex : existsb (fun t => Nat.eqb (t_var t) v) (p_trans pn) = true).
    { apply existsb_exists. exists t. split; [exact Hin|]. apply Nat.eqb_eq. exact Heq. }
    congruence.
  - intros [H1 H2]. split; [exact H1|].
    destruct (existsb (fun t => Nat.eqb (t_var t) v) (p_trans pn)) eqn:E; [|reflexivity].
    apply existsb_exists in E. destruct E as [t [Hin Heq]]. apply Nat.eqb_eq in Heq.
    exfalso. exact (H2 t Hin Heq).
Qed.

(* a variable of a faithful net without any transition has the identity update function
   (needs no hypothesis on dead transitions) *)
Theorem pn_sources_sound : forall N pn v, pn_faithful N pn -> v < nvars N ->
  In v (pn_sources pn) -> is_source_b N v = true.
Proof.
  intros N pn v Hf Hv Hsrc. unfold pn_faithful, pn_faithful_on in Hf.
  apply pn_sources_In in Hsrc. destruct Hsrc as [_ Hno].
  apply is_source_b_spec. intros s Hlen.
  destruct (bool_dec (upd N v s) (nth v s false)) as [E|E]; [exact E|]. exfalso.
  destruct (proj2 (Hf s Hlen (in_space_top s _ Hlen) v (upd N v s) Hv (nth_top_space _ _))
                  (conj eq_refl (bool_neq_negb _ _ E))) as [t [Hin [Htv _]]].
  exact (Hno t Hin Htv).
Qed.

(* identity update function => every transition of v is never enabled *)
Theorem pn_sources_of_identity : forall N pn v, pn_faithful N pn -> v < nvars N ->
  is_source_b N v = true ->
  forall t s, In t (p_trans pn) -> t_var t = v -> length s = nvars N -> enabled s t = false.
Proof.
  intros N pn v Hf Hv Hid t s Hin Htv Hlen. unfold pn_faithful, pn_faithful_on in Hf.
  destruct (enabled s t) eqn:E; [|reflexivity]. exfalso.
  destruct (proj1 (Hf s Hlen (in_space_top s _ Hlen) v (t_up t) Hv (nth_top_space _ _))
                  (ex_intro _ t (conj Hin (conj Htv (conj eq_refl E))))) as [Hu Hn].
  rewrite (proj1 (is_source_b_spec N v) Hid s Hlen) in Hu.
  rewrite Hu in Hn. exact (negb_neq (t_up t) Hn).
Qed.

Theorem pn_sources_spec : forall N pn v, pn_faithful N pn -> p_vars pn = seq 0 (nvars N) ->
  v < nvars N ->
  (forall t, In t (p_trans pn) -> exists s, length s = nvars N /\ enabled s t = true) ->
  (In v (pn_sources pn) <-> is_source_b N v = true).
Proof.
  intros N pn v Hf Hvars Hv Hlive. split.
  - apply pn_sources_sound; assumption.
  - intros Hid. apply pn_sources_In. split.
    + rewrite Hvars. apply in_seq. lia.
    + intros t Hin Htv. destruct (Hlive t Hin) as [s [Hlen He]].
      rewrite (pn_sources_of_identity N pn v Hf Hv Hid t s Hin Htv Hlen) in He. discriminate.
Qed.

(* ------------------------------------------------------------------ *)
(* reduced net of the retained set                                     *)
(* ------------------------------------------------------------------ *)

Lemma reduce_trans_spec : forall pn R t,
  In t (p_trans (reduce_pn pn R)) <->
  In t (p_trans pn) /\ forall b, nth (t_var t) R None = Some b -> t_up t = b.
Proof.
  intros pn R t. simpl. rewrite filter_In.
  destruct (nth (t_var t) R None) as [b|].
  - split.
    + intros [Hin Hb]. split; [exact Hin|]. intros b' Hb'. inversion Hb'; subst b'.
      destruct (t_up t), b; simpl in Hb; try discriminate; reflexivity.
    + intros [Hin Hb]. split; [exact Hin|]. rewrite (Hb b eq_refl).
      destruct b; reflexivity.
  - split.
    + intros [Hin _]. split; [exact Hin|]. intros b Hb. discriminate.
    + intros [Hin _]. split; [exact Hin|reflexivity].
Qed.

Lemma red_fixed_at_spec : forall N s st R i, length st = length R ->
  (red_fixed_at N s i st R = true <->
   forall j, j < length st ->
     upd N (i + j) s = nth j st false \/ nth j R None = Some (nth j st false)).
Proof.
  intros N s st. induction st as [|a st IH]; intros R i Hlen; destruct R as [|o R];
    simpl in Hlen; try discriminate.
  - simpl. split; [|reflexivity]. intros _ j Hj. lia.
  - simpl red_fixed_at. simpl length.
    rewrite andb_true_iff, (IH R (S i)) by lia. split.
    + intros [H1 H2] j Hj. destruct j as [|j].
      * rewrite Nat.add_0_r. simpl. apply orb_true_iff in H1. destruct H1 as [H1|H1].
        -- left. apply eqb_prop. exact H1.
        -- right. destruct o as [v|]; [|discriminate]. apply eqb_prop in H1. congruence.
      * simpl. replace (i + S j) with (S i + j) by lia. apply H2. lia.
    + intros H. split.
      * assert (H0 : 0 < S (length st)) by lia. specialize (H 0 H0).
        rewrite Nat.add_0_r in H. simpl in H. apply orb_true_iff.
        destruct H as [H|H].
        -- left. rewrite H. apply eqb_reflx.
        -- right. rewrite H. apply eqb_reflx.
      * intros j Hj. assert (Hj' : S j < S (length st)) by lia. specialize (H (S j) Hj').
        replace (S i + j) with (i + S j) by lia. exact H.
Qed.

(* a state is a deadlock of the reduced net iff every variable is stable or sits at its
   retained value *)
Theorem reduce_pn_enabled : forall N pn R s, pn_faithful N pn -> length s = nvars N ->
  length R = nvars N ->
  ((forall t, In t (p_trans (reduce_pn pn R)) -> t_var t < nvars N -> enabled s t = false) <->
   red_fixed_at N s 0 s R = true).
Proof.
  intros N pn R s Hf Hlen HR. unfold pn_faithful, pn_faithful_on in Hf.
  assert (Htop : in_space s (top_space (nvars N)) = true) by (apply in_space_top; exact Hlen).
  rewrite (red_fixed_at_spec N s s R 0) by congruence. split.
  - intros Hdead j Hj. simpl. rewrite Hlen in Hj.
    destruct (bool_dec (upd N j s) (nth j s false)) as [E|E]; [left; exact E|]. right.
    destruct (proj2 (Hf s Hlen Htop j (upd N j s) Hj (nth_top_space _ _))
                    (conj eq_refl (bool_neq_negb _ _ E))) as [t [Hin [Htv [Htu He]]]].
    destruct (nth j R None) as [b|] eqn:ER.
    + destruct (bool_dec b (nth j s false)) as [Eb|Eb]; [congruence|]. exfalso.
      assert (Hred : In t (p_trans (reduce_pn pn R))).
      { apply reduce_trans_spec. split; [exact Hin|]. intros b' Hb'.
        rewrite Htv, ER in Hb'. inversion Hb'; subst b'. rewrite Htu.
        destruct (upd N j s), (nth j s false), b; congruence. }
      rewrite (Hdead t Hred) in He; [discriminate|lia].
    + exfalso.
      assert (Hred : In t (p_trans (reduce_pn pn R))).
      { apply reduce_trans_spec. split; [exact Hin|]. intros b' Hb'.
        rewrite Htv, ER in Hb'. discriminate. }
      rewrite (Hdead t Hred) in He; [discriminate|lia].
  - intros Hfix t Hred Htv. apply reduce_trans_spec in Hred. destruct Hred as [Hin Hkeep].
    destruct (enabled s t) eqn:E; [|reflexivity]. exfalso.
    destruct (proj1 (Hf s Hlen Htop (t_var t) (t_up t) Htv (nth_top_space _ _))
                    (ex_intro _ t (conj Hin (conj eq_refl (conj eq_refl E))))) as [Hu Hn].
    assert (Hj : t_var t < length s) by lia.
    destruct (Hfix (t_var t) Hj) as [Hst|Hret]; simpl in *.
    + rewrite Hu, Hn in Hst. exact (negb_neq (t_up t) Hst).
    + apply Hkeep in Hret. rewrite Hn in Hret. exact (negb_neq (t_up t) Hret).
Qed.

Print Assumptions net_to_pn_faithful.
Print Assumptions restrict_faithful.
Print Assumptions reduce_pn_enabled.
