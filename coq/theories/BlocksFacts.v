(* BlocksFacts.v -- the source-block expansion strategy (Blocks.expand_block) only uses the
   primitives of the diagram: the structural and semantic invariants are preserved whatever the
   result, the loop terminates within max_nodes N + 2 levels, leaves stay minimal trap spaces.
   The fast-forward of source variables keeps trap spaces and strictness; it does NOT clear the
   cached candidates of the node (CacheOK needs an extra hypothesis, counterexample included). *)
From Coq Require Import List Bool Arith NArith Lia Permutation.
Import ListNotations.
From BB Require Import BN Brute SpaceFacts TrapFacts PercolateFacts Diagram Invariants DiagramStruct DiagramSem1 DiagramCache Termination MinExpandFacts Blocks.

Local Arguments percolate_b : simpl never.
Local Arguments expand_one : simpl never.
Local Arguments node_successors : simpl never.
Local Arguments ensure_node : simpl never.
Local Arguments ensure_edge : simpl never.
Local Arguments raise_depth : simpl never.
Local Arguments max_traps_b : simpl never.
Local Arguments min_traps_b : simpl never.
Local Arguments upd_node : simpl never.
Local Arguments sources_in_b : simpl never.
Local Arguments source_valuations : simpl never.
Local Arguments ensure_children : simpl never.
Local Arguments ensure_all : simpl never.
Local Arguments set_empty_seeds : simpl never.
Local Arguments group_blocks : simpl never.
Local Arguments minimal_blocks : simpl never.
Local Arguments sort_blocks : simpl never.
Local Arguments first_clean : simpl never.
Local Arguments union_nat : simpl never.
Local Arguments sort_nat : simpl never.
Local Arguments over_limit : simpl never.
Local Arguments Nat.pow : simpl never.
Local Arguments Nat.ltb : simpl never.

(* ================================================================== *)
(* 1. sources of a node space, valuations, fast-forward motifs         *)
(* ================================================================== *)

Lemma nth_merge : forall (x y : space) i, length x = length y ->
  nth i (merge x y) None = match nth i y None with Some b => Some b | None => nth i x None end.
Proof.
  induction x as [|a x IH]; intros [|b y] i Hlen; simpl in *; try discriminate.
  - destruct i; reflexivity.
  - injection Hlen as Hlen. destruct i as [|i]; simpl.
    + destruct b; reflexivity.
    + apply IH. exact Hlen.
Qed.

Lemma free_in_spec : forall (S : space) v, free_in S v = true <-> nth v S None = None.
Proof.
  intros S v. unfold free_in. destruct (nth v S None); split; intro H; try reflexivity; discriminate H.
Qed.

(* a source of the node space: a free variable whose update function is the identity on it *)
Lemma sources_in_b_spec : forall N (S : space) v, In v (sources_in_b N S) <->
  v < nvars N /\ nth v S None = None /\
  forall s, in_space s S = true -> upd N v s = nth v s false.
Proof.
  intros N S v. unfold sources_in_b.
  rewrite filter_In, in_seq, andb_true_iff, forallb_forall, free_in_spec. split.
  - intros (H1 & H2 & H3). split; [lia|]. split; [exact H2|].
    intros s Hs. apply eqb_prop. apply H3. apply states_of_spec. exact Hs.
  - intros (H1 & H2 & H3). split; [lia|]. split; [exact H2|].
    intros s Hs. apply states_of_spec in Hs. rewrite (H3 s Hs). apply eqb_reflx.
Qed.

Lemma source_valuations_cons : forall n w r,
  source_valuations n (w :: r) =
  flat_map (fun b => map (set_nth w (Some b)) (source_valuations n r)) [false; true].
Proof. reflexivity. Qed.

Lemma source_valuations_nonempty : forall n srcs, source_valuations n srcs <> [].
Proof.
  intros n srcs. induction srcs as [|w r IH].
  - discriminate.
  - rewrite source_valuations_cons. simpl.
    destruct (source_valuations n r) as [|v0 l]; [contradiction|]. discriminate.
Qed.

(* a valuation fixes exactly the listed variables (below n) *)
Lemma source_valuations_spec : forall n srcs val, In val (source_valuations n srcs) ->
  length val = n /\ (forall v, nth v val None <> None -> In v srcs) /\
  (forall v, In v srcs -> v < n -> nth v val None <> None).
Proof.
  intros n srcs. induction srcs as [|w r IH]; intros val Hin.
  - destruct Hin as [Heq|[]]. subst val. split; [apply repeat_length|]. split.
    + intros v Hv. exfalso. apply Hv. apply nth_top_space.
    + intros v [].
  - rewrite source_valuations_cons in Hin. apply in_flat_map in Hin.
    destruct Hin as (b & _ & Hin). apply in_map_iff in Hin. destruct Hin as (val' & Heq & Hin').
    destruct (IH val' Hin') as (L & A & B). subst val.
    split; [rewrite set_nth_length; exact L|]. split.
    + intros v Hv. destruct (Nat.eq_dec w v) as [Hwv|Hwv]; [left; exact Hwv|right].
      rewrite nth_set_nth_neq in Hv by exact Hwv. apply A. exact Hv.
    + intros v Hv Hlt. destruct (Nat.eq_dec w v) as [Hwv|Hwv].
      * subst v. rewrite nth_set_nth_eq by lia. discriminate.
      * rewrite nth_set_nth_neq by exact Hwv. apply B; [|exact Hlt].
        destruct Hv as [Hv|Hv]; [contradiction|exact Hv].
Qed.

(* the motifs of the fast-forward: the node space with every source fixed *)
Definition ff_motifs (N : net) (sp : space) : list space :=
  map (merge sp) (source_valuations (nvars N) (sources_in_b N sp)).

Lemma ff_motifs_nonempty : forall N sp, ff_motifs N sp <> [].
Proof.
  intros N sp. unfold ff_motifs.
  pose proof (source_valuations_nonempty (nvars N) (sources_in_b N sp)) as H.
  destruct (source_valuations (nvars N) (sources_in_b N sp)); [contradiction|discriminate].
Qed.

Lemma ff_motif_spec : forall N sp m, length sp = nvars N -> In m (ff_motifs N sp) ->
  length m = nvars N /\ subspace m sp = true /\
  (forall v b, nth v m None = Some b -> nth v sp None = Some b \/ In v (sources_in_b N sp)) /\
  (sources_in_b N sp <> [] -> m <> sp).
Proof.
  intros N sp m Hsp Hin. unfold ff_motifs in Hin. apply in_map_iff in Hin.
  destruct Hin as (val & Heq & Hin). destruct (source_valuations_spec _ _ _ Hin) as (L & A & B).
  assert (Hlen : length sp = length val) by lia.
  assert (Hm : length m = nvars N) by (subst m; rewrite merge_length; assumption).
  split; [exact Hm|]. split; [|split].
  - apply subspace_nth; [lia|]. intros i v Hn. subst m. rewrite nth_merge by exact Hlen.
    destruct (nth i val None) as [b|] eqn:Ev; [|exact Hn]. exfalso.
    assert (Hs : In i (sources_in_b N sp)) by (apply A; rewrite Ev; discriminate).
    apply sources_in_b_spec in Hs. destruct Hs as (_ & Hf & _). congruence.
  - intros v b Hn. subst m. rewrite nth_merge in Hn by exact Hlen.
    destruct (nth v val None) as [b'|] eqn:Ev; [right|left; exact Hn].
    apply A. rewrite Ev. discriminate.
  - intros Hne Heqm. destruct (sources_in_b N sp) as [|w r] eqn:Es; [contradiction|].
    assert (Hw : In w (sources_in_b N sp)) by (rewrite Es; left; reflexivity).
    apply sources_in_b_spec in Hw. destruct Hw as (Hlt & Hf & _).
    assert (Hv : nth w val None <> None) by (apply B; [left; reflexivity|exact Hlt]).
    assert (Hn : nth w m None = nth w sp None) by (rewrite Heqm; reflexivity).
    rewrite <- Heq in Hn. rewrite nth_merge in Hn by exact Hlen.
    destruct (nth w val None) as [b|]; [|contradiction]. congruence.
Qed.

(* fixing sources of a trap space keeps a trap space *)
Lemma fix_sources_trap : forall N (S T : space), trap_space N S -> length T = nvars N ->
  subspace T S = true ->
  (forall v b, nth v T None = Some b -> nth v S None = Some b \/ In v (sources_in_b N S)) ->
  trap_space N T.
Proof.
  intros N S T HS HT Hsub Hfix. pose proof (trap_space_length N S HS) as HlS.
  apply (trap_space_char N T HT). intros i v Hn s Hwf Hin.
  assert (HinS : in_space s S = true).
  { apply (proj1 (subspace_spec T S (eq_trans HT (eq_sym HlS))) Hsub s Hin). }
  destruct (Hfix i v Hn) as [HnS|Hsrc].
  - apply (proj1 (trap_space_char N S HlS) HS i v HnS s Hwf HinS).
  - apply sources_in_b_spec in Hsrc. destruct Hsrc as (_ & _ & Hid). rewrite (Hid s HinS).
    apply (proj1 (in_space_nth s T (in_space_length s T Hin)) Hin i v Hn).
Qed.

Lemma ff_motif_trap : forall N sp m, trap_space N sp -> In m (ff_motifs N sp) -> trap_space N m.
Proof.
  intros N sp m Ht Hin.
  destruct (ff_motif_spec N sp m (trap_space_length N sp Ht) Hin) as (H1 & H2 & H3 & _).
  apply (fix_sources_trap N sp m); assumption.
Qed.

Lemma ff_motif_strict : forall N sp m, length sp = nvars N -> sources_in_b N sp <> [] ->
  In m (ff_motifs N sp) -> ES_guard N sp m.
Proof.
  intros N sp m Hsp Hne Hin. destruct (ff_motif_spec N sp m Hsp Hin) as (H1 & H2 & _ & H4).
  split; [exact H1|]. split; [exact H2|apply H4; exact Hne].
Qed.

(* ================================================================== *)
(* 2. ensure_children = ensure_all + the list of child ids             *)
(* ================================================================== *)

Lemma ensure_all_cons : forall N d p m r,
  ensure_all N d p (m :: r) = ensure_all N (fst (ensure_node N d (Some p) m)) p r.
Proof. reflexivity. Qed.

Lemma ensure_children_cons : forall N d p m r acc,
  ensure_children N d p (m :: r) acc =
  ensure_children N (fst (ensure_node N d (Some p) m)) p r (acc ++ [snd (ensure_node N d (Some p) m)]).
Proof.
  intros N d p m r acc. unfold ensure_children at 1. fold ensure_children.
  destruct (ensure_node N d (Some p) m) as [d1 c]. reflexivity.
Qed.

Lemma ensure_children_fst : forall N subs d p acc,
  fst (ensure_children N d p subs acc) = ensure_all N d p subs.
Proof.
  intros N subs. induction subs as [|m r IH]; intros d p acc; [reflexivity|].
  rewrite ensure_children_cons, ensure_all_cons. apply IH.
Qed.

Lemma ensure_children_valid : forall N subs d p acc, SWF N d -> p < size d ->
  (forall m, In m subs -> length m = nvars N) -> (forall a, In a acc -> a < size d) ->
  forall c, In c (snd (ensure_children N d p subs acc)) -> c < size (ensure_all N d p subs).
Proof.
  intros N subs. induction subs as [|m r IH]; intros d p acc Hswf Hp Hlen Hacc c Hc.
  - apply Hacc. exact Hc.
  - rewrite ensure_children_cons in Hc. rewrite ensure_all_cons.
    destruct (ensure_child_spec N d p m Hswf (Hlen m (or_introl eq_refl)) Hp) as (S1 & S2 & S3 & _).
    apply (IH _ p (acc ++ [snd (ensure_node N d (Some p) m)])); try assumption.
    + eapply extends_lt; eauto.
    + intros m0 Hin. apply Hlen. right. exact Hin.
    + intros a Ha. apply in_app_or in Ha. destruct Ha as [Ha|[Ha|[]]].
      * eapply extends_lt; [exact S2|apply Hacc; exact Ha].
      * subst a. exact S3.
Qed.

Lemma ensure_all_nonempty_out : forall N subs d p, subs <> [] ->
  out_edges (ensure_all N d p subs) p <> [].
Proof.
  intros N subs d p Hne Hout.
  pose proof (ensure_all_out_motifs N subs d p) as Hperm.
  unfold out_motifs at 1 in Hperm. rewrite Hout in Hperm. simpl in Hperm.
  apply Permutation_nil in Hperm. apply app_eq_nil in Hperm. destruct Hperm as [_ H]. contradiction.
Qed.

(* the two cache writes of set_empty_seeds *)
Lemma set_empty_seeds_unfold : forall d i,
  set_empty_seeds d i =
  upd_node (upd_node d i (fun y => set_seeds y (Some (cur_tag d i)))) i
           (fun y => set_sets y (Some (cur_tag d i))).
Proof. reflexivity. Qed.

Lemma size_set_empty_seeds : forall d i, size (set_empty_seeds d i) = size d.
Proof. intros d i. rewrite set_empty_seeds_unfold, !size_upd_node. reflexivity. Qed.

Lemma sd_edges_set_empty_seeds : forall d i, sd_edges (set_empty_seeds d i) = sd_edges d.
Proof. intros d i. rewrite set_empty_seeds_unfold, !sd_edges_upd_node. reflexivity. Qed.

Lemma set_empty_seeds_extends : forall d i, extends d (set_empty_seeds d i).
Proof.
  intros d i. rewrite set_empty_seeds_unfold.
  eapply extends_trans; apply upd_flag_extends; constructor.
Qed.

Lemma n_exp_set_empty_seeds : forall d i j, n_exp (get (set_empty_seeds d i) j) = n_exp (get d j).
Proof.
  intros d i j. rewrite set_empty_seeds_unfold.
  destruct (get_upd_node_cases (upd_node d i (fun y => set_seeds y (Some (cur_tag d i)))) i j
              (fun y => set_sets y (Some (cur_tag d i)))) as [Hg|(_ & _ & Hg)]; rewrite Hg; simpl;
  destruct (get_upd_node_cases d i j (fun y => set_seeds y (Some (cur_tag d i)))) as [Hg2|(_ & _ & Hg2)];
    rewrite Hg2; reflexivity.
Qed.

(* any property stable under flag updates survives set_empty_seeds *)
Lemma set_empty_seeds_flag : forall (P : sd -> Prop) d i,
  (forall d0 f, flag_setter f -> P d0 -> P (upd_node d0 i f)) -> P d -> P (set_empty_seeds d i).
Proof.
  intros P d i Hupd HP. rewrite set_empty_seeds_unfold.
  apply Hupd; [constructor|]. apply Hupd; [constructor|exact HP].
Qed.

(* the fast-forward of node x *)
Definition ff_step (N : net) (d : sd) (x : nat) : sd :=
  set_empty_seeds
    (upd_node (ensure_all N d x (ff_motifs N (n_space (get d x)))) x (fun y => set_exp y true)) x.
Definition ff_kids (N : net) (d : sd) (x : nat) : list nat :=
  snd (ensure_children N d x (ff_motifs N (n_space (get d x))) []).

Lemma size_ff_step : forall N d x,
  size (ff_step N d x) = size (ensure_all N d x (ff_motifs N (n_space (get d x)))).
Proof. intros N d x. unfold ff_step. rewrite size_set_empty_seeds, size_upd_node. reflexivity. Qed.

Lemma ff_step_extends : forall N d x, extends d (ff_step N d x).
Proof.
  intros N d x. unfold ff_step.
  eapply extends_trans; [apply ensure_all_extends|].
  eapply extends_trans; [apply upd_flag_extends; constructor|apply set_empty_seeds_extends].
Qed.

Lemma ff_motifs_len : forall N d x m, SWF N d -> x < size d ->
  In m (ff_motifs N (n_space (get d x))) -> length m = nvars N.
Proof.
  intros N d x m Hswf Hx Hin.
  assert (Hsp : length (n_space (get d x)) = nvars N).
  { apply (swf_len N d Hswf). apply get_In. exact Hx. }
  apply (ff_motif_spec N _ m Hsp Hin).
Qed.

Lemma ff_kids_valid : forall N d x c, SWF N d -> x < size d ->
  In c (ff_kids N d x) -> c < size (ff_step N d x).
Proof.
  intros N d x c Hswf Hx Hc. rewrite size_ff_step. unfold ff_kids in Hc.
  apply (ensure_children_valid N _ d x [] Hswf Hx); [|intros a []|exact Hc].
  intros m Hin. eapply ff_motifs_len; eauto.
Qed.

Lemma n_exp_ff_step : forall N d x, x < size d -> n_exp (get (ff_step N d x) x) = true.
Proof.
  intros N d x Hx. unfold ff_step. rewrite n_exp_set_empty_seeds.
  rewrite get_upd_node_eq; [reflexivity|].
  eapply extends_lt; [apply ensure_all_extends|exact Hx].
Qed.

(* ================================================================== *)
(* 3. one node of a level: the possible outcomes                       *)
(* ================================================================== *)

Lemma union_nat_In : forall a b y, In y (union_nat a b) -> In y a \/ In y b.
Proof.
  intros a b y H. unfold union_nat in H. apply in_app_or in H. destruct H as [H|H]; [left; exact H|].
  apply filter_In in H. right. apply H.
Qed.

Lemma union_nat_nil : forall a, union_nat a [] = a.
Proof. intro a. unfold union_nat. simpl. apply app_nil_r. Qed.

(* blocks only contain successors *)
Definition blocks_in (succ : list nat) (blocks : list (list nat * list nat)) : Prop :=
  forall b ns, In (b, ns) blocks -> forall s, In s ns -> In s succ.

Lemma add_to_blocks_in : forall succ blk s blocks, In s succ -> blocks_in succ blocks ->
  blocks_in succ (add_to_blocks blk s blocks).
Proof.
  intros succ blk s blocks Hs. induction blocks as [|[b ns] r IH]; intro H; simpl.
  - intros b0 ns0 [Heq|[]] s0 Hs0. injection Heq as _ Hn. subst ns0.
    destruct Hs0 as [Hs0|[]]. subst s0. exact Hs.
  - destruct (same_set b blk).
    + intros b0 ns0 [Heq|Hin] s0 Hs0.
      * injection Heq as _ Hn. subst ns0. apply in_app_or in Hs0.
        destruct Hs0 as [Hs0|[Hs0|[]]]; [|subst s0; exact Hs].
        apply (H b ns (or_introl eq_refl)). exact Hs0.
      * apply (H b0 ns0 (or_intror Hin)). exact Hs0.
    + intros b0 ns0 [Heq|Hin] s0 Hs0.
      * apply (H b0 ns0 (or_introl Heq)). exact Hs0.
      * apply (IH (fun b1 ns1 H1 => H b1 ns1 (or_intror H1)) b0 ns0 Hin). exact Hs0.
Qed.

Lemma group_blocks_in : forall N d x succ, blocks_in succ (group_blocks N d x succ).
Proof.
  intros N d x succ. unfold group_blocks.
  assert (H : forall l acc, (forall s, In s l -> In s succ) -> blocks_in succ acc ->
            blocks_in succ (fold_left (fun acc s =>
              add_to_blocks (block_of N (n_space (get d x))
                               (reduce_by (first_motif d x s) (n_space (get d x)))) s acc) l acc)).
  { induction l as [|s l IH]; intros acc Hl Hacc; simpl; [exact Hacc|].
    apply IH; [intros s0 Hs0; apply Hl; right; exact Hs0|].
    apply add_to_blocks_in; [apply Hl; left; reflexivity|exact Hacc]. }
  apply H; [auto|]. intros b ns [].
Qed.

Lemma minimal_blocks_in : forall succ blocks, blocks_in succ blocks ->
  blocks_in succ (minimal_blocks blocks).
Proof.
  intros succ blocks H. unfold minimal_blocks. destruct blocks as [|b1 [|b2 r]]; try exact H.
  intros b ns Hin. apply filter_In in Hin. apply (H b ns). apply Hin.
Qed.

Lemma insert_by_len_In : forall x y l, In y (insert_by_len x l) -> y = x \/ In y l.
Proof.
  intros x y l. induction l as [|z r IH]; simpl; intro H.
  - destruct H as [H|[]]. left. symmetry. exact H.
  - destruct (Nat.ltb (length (snd x)) (length (snd z))).
    + destruct H as [H|H]; [left; symmetry; exact H|right; exact H].
    + destruct H as [H|H]; [right; left; exact H|].
      destruct (IH H) as [H1|H1]; [left; exact H1|right; right; exact H1].
Qed.

Lemma sort_blocks_in : forall succ blocks, blocks_in succ blocks -> blocks_in succ (sort_blocks blocks).
Proof.
  intros succ blocks H. unfold sort_blocks.
  assert (G : forall l acc, blocks_in succ l -> blocks_in succ acc ->
            blocks_in succ (fold_left (fun acc x => insert_by_len x acc) l acc)).
  { induction l as [|x l IH]; intros acc Hl Hacc; simpl; [exact Hacc|].
    apply IH; [intros b ns Hin; apply (Hl b ns); right; exact Hin|].
    intros b ns Hin. apply insert_by_len_In in Hin. destruct Hin as [Heq|Hin].
    - apply (Hl b ns). left. symmetry. exact Heq.
    - apply (Hacc b ns Hin). }
  apply G; [exact H|]. intros b ns [].
Qed.

Lemma first_clean_in : forall blocks tape ns tape1,
  first_clean blocks tape = (Some ns, tape1) -> exists b, In (b, ns) blocks.
Proof.
  induction blocks as [|[b ns0] r IH]; intros tape ns tape1 H; simpl in H; [discriminate|].
  destruct tape as [|[|] t].
  - destruct (IH [] ns tape1 H) as [b0 Hb]. exists b0. right. exact Hb.
  - injection H as H1 H2. subst ns0. exists b. left. reflexivity.
  - destruct (IH t ns tape1 H) as [b0 Hb]. exists b0. right. exact Hb.
Qed.

Lemma chosen_blocks_in : forall N d x succ,
  blocks_in succ (sort_blocks (minimal_blocks (group_blocks N d x succ))).
Proof.
  intros N d x succ. apply sort_blocks_in. apply minimal_blocks_in. apply group_blocks_in.
Qed.

Inductive node_step (N : net) (cfg : config) (opt : bool) (d : sd) (x : nat) (next : list nat)
  : sd -> result -> list nat -> Prop :=
| ns_skip : n_exp (get d x) = true -> node_step N cfg opt d x next d RUnit next
| ns_stop : forall r, n_exp (get d x) = false -> r <> RUnit -> r <> RFuel ->
    node_step N cfg opt d x next d r next
| ns_ff : n_exp (get d x) = false -> opt = true -> sources_in_b N (n_space (get d x)) <> [] ->
    node_step N cfg opt d x next (ff_step N d x) RUnit (union_nat next (ff_kids N d x))
| ns_raise : forall d1 r, n_exp (get d x) = false -> expand_one N cfg d x = (d1, r) ->
    r <> RUnit -> r <> RFuel -> node_step N cfg opt d x next d1 r next
| ns_norm : forall d1 ns (b : bool), n_exp (get d x) = false -> expand_one N cfg d x = (d1, RUnit) ->
    (forall s, In s ns -> In s (successors d1 x)) ->
    node_step N cfg opt d x next (if b then set_empty_seeds d1 x else d1) RUnit (union_nat next ns).

Lemma block_level_cons : forall N cfg maa opt sz d x cur next tape,
  exists d' r next' tape', node_step N cfg opt d x next d' r next' /\
    block_level N cfg maa opt sz d (x :: cur) next tape =
    match r with
    | RUnit => block_level N cfg maa opt sz d' cur next' tape'
    | _ => (d', r, next', tape')
    end.
Proof.
  intros N cfg maa opt sz d x cur next tape. cbn [block_level].
  destruct (n_exp (get d x)) eqn:Ex.
  { exists d, RUnit, next, tape. split; [apply ns_skip; exact Ex|reflexivity]. }
  destruct (over_limit sz d).
  { exists d, (RBool false), next, tape. split; [apply ns_stop; [exact Ex|discriminate|discriminate]|reflexivity]. }
  assert (Hnormal :
    exists d' r next' tape', node_step N cfg opt d x next d' r next' /\
      (let '(d1, r0, succ0) := node_successors N cfg d x in
       match r0 with
       | RUnit =>
           match sort_nat succ0 with
           | [] => block_level N cfg maa opt sz d1 cur next tape
           | [s] =>
               if negb maa then block_level N cfg maa opt sz d1 cur (union_nat next [s]) tape
               else
                 let '(clean, tape1) :=
                   first_clean (sort_blocks (minimal_blocks (group_blocks N d1 x (sort_nat succ0)))) tape in
                 match clean with
                 | Some ns => block_level N cfg maa opt sz (set_empty_seeds d1 x) cur (union_nat next ns) tape1
                 | None => block_level N cfg maa opt sz d1 cur (union_nat next (sort_nat succ0)) tape1
                 end
           | _ :: _ :: _ =>
               if negb maa
               then block_level N cfg maa opt sz d1 cur
                      (union_nat next
                         match sort_blocks (minimal_blocks (group_blocks N d1 x (sort_nat succ0))) with
                         | (_, ns) :: _ => ns | [] => [] end) tape
               else
                 let '(clean, tape1) :=
                   first_clean (sort_blocks (minimal_blocks (group_blocks N d1 x (sort_nat succ0)))) tape in
                 match clean with
                 | Some ns => block_level N cfg maa opt sz (set_empty_seeds d1 x) cur (union_nat next ns) tape1
                 | None => block_level N cfg maa opt sz d1 cur (union_nat next (sort_nat succ0)) tape1
                 end
           end
       | _ => (d1, r0, next, tape)
       end) =
      match r with
      | RUnit => block_level N cfg maa opt sz d' cur next' tape'
      | _ => (d', r, next', tape')
      end).
  { unfold node_successors.
    pose proof (Termination.expand_one_result N cfg d x) as Hres.
    destruct (expand_one N cfg d x) as [d1 r0] eqn:Ee. simpl in Hres.
    destruct Hres as [Hres|Hres]; subst r0.
    2:{ exists d1, (RRaised ErrMotifLimit), next, tape.
        split; [eapply ns_raise; [exact Ex|exact Ee|discriminate|discriminate]|reflexivity]. }
    pose proof (chosen_blocks_in N d1 x (sort_nat (successors d1 x))) as Hblocks.
    assert (Hsort : forall ns, (forall s, In s ns -> In s (sort_nat (successors d1 x))) ->
                    forall s, In s ns -> In s (successors d1 x)).
    { intros ns H s Hs. apply sort_nat_In. apply H. exact Hs. }
    assert (Hclean : forall tp,
      exists d' r next' tape', node_step N cfg opt d x next d' r next' /\
        (let '(clean, tape1) :=
           first_clean (sort_blocks (minimal_blocks (group_blocks N d1 x (sort_nat (successors d1 x))))) tp in
         match clean with
         | Some ns => block_level N cfg maa opt sz (set_empty_seeds d1 x) cur (union_nat next ns) tape1
         | None => block_level N cfg maa opt sz d1 cur (union_nat next (sort_nat (successors d1 x))) tape1
         end) =
        match r with
        | RUnit => block_level N cfg maa opt sz d' cur next' tape'
        | _ => (d', r, next', tape')
        end).
    { intro tp.
      destruct (first_clean (sort_blocks (minimal_blocks (group_blocks N d1 x (sort_nat (successors d1 x))))) tp)
        as [[ns|] tape1] eqn:Ef.
      - destruct (first_clean_in _ _ _ _ Ef) as [b Hb].
        exists (set_empty_seeds d1 x), RUnit, (union_nat next ns), tape1. split; [|reflexivity].
        apply (ns_norm N cfg opt d x next d1 ns true Ex Ee). apply Hsort. apply (Hblocks b ns Hb).
      - exists d1, RUnit, (union_nat next (sort_nat (successors d1 x))), tape1. split; [|reflexivity].
        apply (ns_norm N cfg opt d x next d1 _ false Ex Ee). apply Hsort. auto. }
    destruct (sort_nat (successors d1 x)) as [|s [|s2 rest]] eqn:Esucc.
    - exists d1, RUnit, (union_nat next []), tape. split.
      + apply (ns_norm N cfg opt d x next d1 [] false Ex Ee). intros s [].
      + rewrite union_nat_nil. reflexivity.
    - destruct maa; simpl negb; cbv iota; [apply Hclean|].
      exists d1, RUnit, (union_nat next [s]), tape. split; [|reflexivity].
      apply (ns_norm N cfg opt d x next d1 [s] false Ex Ee). apply Hsort. auto.
    - destruct maa; simpl negb; cbv iota; [apply Hclean|].
      destruct (sort_blocks (minimal_blocks (group_blocks N d1 x (s :: s2 :: rest)))) as [|[b ns] rb] eqn:Eb.
      + exists d1, RUnit, (union_nat next []), tape. split; [|reflexivity].
        apply (ns_norm N cfg opt d x next d1 [] false Ex Ee). intros s0 [].
      + exists d1, RUnit, (union_nat next ns), tape. split; [|reflexivity].
        apply (ns_norm N cfg opt d x next d1 ns false Ex Ee). apply Hsort.
        apply (Hblocks b ns). left. reflexivity. }
  destruct (sources_in_b N (n_space (get d x))) as [|w srcs] eqn:Es.
  { simpl negb. cbv iota. simpl andb. cbv iota. exact Hnormal. }
  destruct opt; simpl negb; simpl andb; cbv iota; [|exact Hnormal].
  destruct (Nat.ltb (max_motifs cfg) (size d + Nat.pow 2 (length (w :: srcs)))).
  { exists d, (RRaised ErrMotifLimit), next, tape.
    split; [apply ns_stop; [exact Ex|discriminate|discriminate]|reflexivity]. }
  destruct (match sz with Some k => Nat.ltb k (size d + Nat.pow 2 (length (w :: srcs))) | None => false end).
  { exists d, (RBool false), next, tape.
    split; [apply ns_stop; [exact Ex|discriminate|discriminate]|reflexivity]. }
  exists (ff_step N d x), RUnit, (union_nat next (ff_kids N d x)), tape. split.
  - apply ns_ff; [exact Ex|reflexivity|]. rewrite Es. discriminate.
  - unfold ff_step, ff_kids, ff_motifs. rewrite Es.
    pose proof (ensure_children_fst N (map (merge (n_space (get d x))) (source_valuations (nvars N) (w :: srcs))) d x [])
      as Hfst.
    destruct (ensure_children N d x (map (merge (n_space (get d x))) (source_valuations (nvars N) (w :: srcs))) [])
      as [d1 kids]. simpl in Hfst. subst d1. reflexivity.
Qed.

(* ================================================================== *)
(* 4. the transfer principle of the strategy                           *)
(* ================================================================== *)

Definition ids_ok (d : sd) (l : list nat) : Prop := forall y, In y l -> y < size d.

Lemma ids_ok_extends : forall d d' l, extends d d' -> ids_ok d l -> ids_ok d' l.
Proof. intros d d' l He H y Hy. eapply extends_lt; [exact He|apply H; exact Hy]. Qed.

Lemma expand_one_exp : forall N cfg d x d1, x < size d -> n_exp (get d x) = false ->
  expand_one N cfg d x = (d1, RUnit) -> n_exp (get d1 x) = true.
Proof.
  intros N cfg d x d1 Hx Hex E. pose proof (expand_one_extends N cfg d x) as Hext.
  rewrite E in Hext. simpl in Hext.
  destruct (expand_one_cases N cfg d x d1 RUnit E)
    as [(A & _)|[(_ & _ & A & _)|[(_ & _ & _ & _ & A)|(_ & _ & _ & A & _)]]].
  - congruence.
  - subst d1. rewrite get_upd_node_eq; [reflexivity|]. rewrite size_upd_node. exact Hx.
  - discriminate A.
  - subst d1. rewrite get_upd_node_eq; [reflexivity|].
    eapply extends_lt; [apply ensure_all_extends|]. rewrite size_upd_node. exact Hx.
Qed.

Section BlockTransfer.
  Variable N : net.
  Variable cfg : config.
  Variable opt : bool.
  Variable Q : sd -> Prop.
  Hypothesis Q_swf : forall d, Q d -> SWF N d.
  Hypothesis Q_expand : forall d x, Q d -> x < size d -> n_exp (get d x) = false ->
    Q (fst (expand_one N cfg d x)).
  Hypothesis Q_seeds : forall d x d1, Q d -> x < size d -> n_exp (get d x) = false ->
    expand_one N cfg d x = (d1, RUnit) -> Q (set_empty_seeds d1 x).
  Hypothesis Q_ff : forall d x, opt = true -> Q d -> x < size d -> n_exp (get d x) = false ->
    sources_in_b N (n_space (get d x)) <> [] -> Q (ff_step N d x).

  Lemma BT_node : forall d x next d' r next',
    Q d -> x < size d -> ids_ok d next -> node_step N cfg opt d x next d' r next' ->
    Q d' /\ extends d d' /\ ids_ok d' next' /\ r <> RFuel /\
    (r = RUnit -> next' = next \/ (n_exp (get d x) = false /\ n_exp (get d' x) = true)).
  Proof.
    intros d x next d' r next' Hq Hx Hnext Hstep.
    destruct Hstep as [Hex|r Hex Hr1 Hr2|Hex Hopt Hsrc|d1 r Hex Ee Hr1 Hr2|d1 ns b Hex Ee Hns].
    - split; [exact Hq|]. split; [apply extends_refl|]. split; [exact Hnext|].
      split; [discriminate|]. intros _. left. reflexivity.
    - split; [exact Hq|]. split; [apply extends_refl|]. split; [exact Hnext|].
      split; [exact Hr2|]. intro H. contradiction.
    - pose proof (ff_step_extends N d x) as He.
      split; [apply Q_ff; assumption|]. split; [exact He|]. split.
      + intros y Hy. apply union_nat_In in Hy. destruct Hy as [Hy|Hy].
        * eapply extends_lt; [exact He|apply Hnext; exact Hy].
        * apply ff_kids_valid; [apply Q_swf; exact Hq|exact Hx|exact Hy].
      + split; [discriminate|]. intros _. right. split; [exact Hex|apply n_exp_ff_step; exact Hx].
    - pose proof (Q_expand d x Hq Hx Hex) as Hq1. pose proof (expand_one_extends N cfg d x) as He.
      rewrite Ee in Hq1, He. simpl in Hq1, He.
      split; [exact Hq1|]. split; [exact He|]. split; [eapply ids_ok_extends; eauto|].
      split; [exact Hr2|]. intro H. contradiction.
    - pose proof (Q_expand d x Hq Hx Hex) as Hq1. pose proof (expand_one_extends N cfg d x) as He.
      rewrite Ee in Hq1, He. simpl in Hq1, He.
      pose proof (expand_one_exp N cfg d x d1 Hx Hex Ee) as Hexp.
      assert (Hvalid : ids_ok d1 (union_nat next ns)).
      { intros y Hy. apply union_nat_In in Hy. destruct Hy as [Hy|Hy].
        - eapply extends_lt; [exact He|apply Hnext; exact Hy].
        - eapply successors_valid; [apply Q_swf; exact Hq1|apply Hns; exact Hy]. }
      destruct b.
      + split; [apply (Q_seeds d x d1 Hq Hx Hex Ee)|].
        split; [eapply extends_trans; [exact He|apply set_empty_seeds_extends]|].
        split; [intros y Hy; rewrite size_set_empty_seeds; apply Hvalid; exact Hy|].
        split; [discriminate|]. intros _. right. split; [exact Hex|].
        rewrite n_exp_set_empty_seeds. exact Hexp.
      + split; [exact Hq1|]. split; [exact He|]. split; [exact Hvalid|].
        split; [discriminate|]. intros _. right. split; assumption.
  Qed.

  (* the number of expanded nodes among the first K ids *)
  Definition nexp (K : nat) (d : sd) : nat :=
    length (filter (fun i => n_exp (get d i)) (seq 0 K)).

  Lemma nexp_le : forall K d, nexp K d <= K.
  Proof.
    intros K d. unfold nexp.
    pose proof (filter_length_bound nat (fun i => n_exp (get d i)) (seq 0 K)) as H.
    rewrite seq_length in H. exact H.
  Qed.

  Lemma extends_exp : forall d d' i, extends d d' -> n_exp (get d i) = true -> n_exp (get d' i) = true.
  Proof.
    intros d d' i He Hex. destruct (lt_dec i (size d)) as [Hi|Hi].
    - destruct He as (_ & _ & H3 & _). apply H3; assumption.
    - rewrite get_beyond in Hex by lia. discriminate Hex.
  Qed.

  Lemma nexp_mono : forall K d d', extends d d' -> nexp K d <= nexp K d'.
  Proof.
    intros K d d' He. unfold nexp. apply filter_length_mono.
    intros i _ Hex. eapply extends_exp; eauto.
  Qed.

  Lemma nexp_strict : forall K d d' x, extends d d' -> x < K ->
    n_exp (get d x) = false -> n_exp (get d' x) = true -> nexp K d < nexp K d'.
  Proof.
    intros K d d' x He Hx H0 H1. unfold nexp. apply (filter_length_strict nat _ _ _ x).
    - intros i _ Hex. eapply extends_exp; eauto.
    - apply in_seq. lia.
    - exact H0.
    - exact H1.
  Qed.

  Lemma BT_level : forall maa sz cur d next tape d1 r next1 tape1,
    Q d -> ids_ok d cur -> ids_ok d next ->
    block_level N cfg maa opt sz d cur next tape = (d1, r, next1, tape1) ->
    Q d1 /\ extends d d1 /\ ids_ok d1 next1 /\ r <> RFuel /\
    (r = RUnit -> next1 = next \/ nexp (max_nodes N) d < nexp (max_nodes N) d1).
  Proof.
    intros maa sz cur. induction cur as [|x cur IH]; intros d next tape d1 r next1 tape1 Hq Hcur Hnext E.
    - simpl in E. injection E as E1 E2 E3 E4. subst d1 r next1 tape1.
      split; [exact Hq|]. split; [apply extends_refl|]. split; [exact Hnext|].
      split; [discriminate|]. intros _. left. reflexivity.
    - destruct (block_level_cons N cfg maa opt sz d x cur next tape) as (d' & r' & next' & tape' & Hstep & Heq).
      rewrite Heq in E. clear Heq.
      assert (Hx : x < size d) by (apply Hcur; left; reflexivity).
      destruct (BT_node d x next d' r' next' Hq Hx Hnext Hstep) as (Hq' & He' & Hn' & Hr' & Hprog).
      assert (Hstop : r' <> RUnit -> (d', r', next', tape') = (d1, r, next1, tape1) ->
                Q d1 /\ extends d d1 /\ ids_ok d1 next1 /\ r <> RFuel /\
                (r = RUnit -> next1 = next \/ nexp (max_nodes N) d < nexp (max_nodes N) d1)).
      { intros Hne E0. injection E0 as E1 E2 E3 E4. subst d1 r next1 tape1.
        split; [exact Hq'|]. split; [exact He'|]. split; [exact Hn'|]. split; [exact Hr'|].
        intro H. contradiction. }
      destruct r'; try (apply Hstop; [discriminate|exact E]).
      assert (Hcur' : ids_ok d' cur).
      { eapply ids_ok_extends; [exact He'|]. intros y Hy. apply Hcur. right. exact Hy. }
      destruct (IH d' next' tape' d1 r next1 tape1 Hq' Hcur' Hn' E) as (K1 & K2 & K3 & K4 & K5).
      split; [exact K1|]. split; [eapply extends_trans; eauto|]. split; [exact K3|].
      split; [exact K4|]. intro Hr.
      pose proof (nexp_mono (max_nodes N) d d' He') as M1.
      pose proof (nexp_mono (max_nodes N) d' d1 K2) as M2.
      destruct (Hprog eq_refl) as [Hsame|[P0 P1]].
      + subst next'. destruct (K5 Hr) as [H|H]; [left; exact H|right; lia].
      + right.
        assert (Hlt : nexp (max_nodes N) d < nexp (max_nodes N) d').
        { apply (nexp_strict _ d d' x He'); try assumption.
          pose proof (size_bound N d (Q_swf d Hq)). lia. }
        lia.
  Qed.

  Lemma BT_loop : forall maa sz fuel d cur tape, Q d -> ids_ok d cur ->
    Q (fst (block_loop fuel N cfg maa opt sz d cur tape)) /\
    extends d (fst (block_loop fuel N cfg maa opt sz d cur tape)) /\
    (max_nodes N - nexp (max_nodes N) d + 2 <= fuel ->
     snd (block_loop fuel N cfg maa opt sz d cur tape) <> RFuel).
  Proof.
    intros maa sz fuel. induction fuel as [|f IH]; intros d cur tape Hq Hcur.
    - simpl. split; [exact Hq|]. split; [apply extends_refl|]. intro H. lia.
    - cbn [block_loop]. destruct cur as [|c cur'].
      { simpl. split; [exact Hq|]. split; [apply extends_refl|]. intros _. discriminate. }
      remember (c :: cur') as cur eqn:Ecur.
      destruct (block_level N cfg maa opt sz d (sort_nat cur) [] tape) as [[[d1 r] next1] tape1] eqn:E.
      assert (Hs : ids_ok d (sort_nat cur)).
      { intros y Hy. apply Hcur. apply sort_nat_In. exact Hy. }
      assert (Hnil : ids_ok d []) by (intros y []).
      destruct (BT_level maa sz (sort_nat cur) d [] tape d1 r next1 tape1 Hq Hs Hnil E)
        as (K1 & K2 & K3 & K4 & K5).
      assert (Hstop : r <> RUnit ->
                Q (fst (d1, r)) /\ extends d (fst (d1, r)) /\
                (max_nodes N - nexp (max_nodes N) d + 2 <= S f -> snd (d1, r) <> RFuel)).
      { intros _. simpl. split; [exact K1|]. split; [exact K2|]. intros _. exact K4. }
      destruct r; try (apply Hstop; discriminate).
      destruct (IH d1 next1 tape1 K1 K3) as (J1 & J2 & J3).
      split; [exact J1|]. split; [eapply extends_trans; eauto|].
      intro Hfuel. destruct (K5 eq_refl) as [Hsame|Hlt].
      + subst next1. destruct f as [|f']; [lia|]. simpl. discriminate.
      + apply J3. pose proof (nexp_le (max_nodes N) d1). lia.
  Qed.

  Theorem BT_block : forall fuel d maa sz tape, Q d ->
    Q (fst (expand_block fuel N cfg d maa opt sz tape)) /\
    extends d (fst (expand_block fuel N cfg d maa opt sz tape)) /\
    (max_nodes N + 2 <= fuel -> snd (expand_block fuel N cfg d maa opt sz tape) <> RFuel).
  Proof.
    intros fuel d maa sz tape Hq. unfold expand_block.
    assert (H0 : ids_ok d [0]).
    { intros y [Hy|[]]. subst y. apply (swf_size N d (Q_swf d Hq)). }
    destruct (BT_loop maa sz fuel d [0] tape Hq H0) as (J1 & J2 & J3).
    split; [exact J1|]. split; [exact J2|]. intro Hf. apply J3. lia.
  Qed.
End BlockTransfer.

(* ================================================================== *)
(* 5. SWF, extends, termination                                        *)
(* ================================================================== *)

Lemma ensure_all_SWF : forall N subs d p, SWF N d -> p < size d ->
  (forall m, In m subs -> length m = nvars N) ->
  SWF N (ensure_all N d p subs) /\ p < size (ensure_all N d p subs).
Proof.
  intros N subs d p Hswf Hp Hlen.
  apply (C_ensure_all N p (fun d0 => SWF N d0 /\ p < size d0) (fun m => length m = nvars N)).
  - intros d0 m [H1 H2] Hm. destruct (ensure_child_spec N d0 p m H1 Hm H2) as (S1 & S2 & _).
    split; [exact S1|eapply extends_lt; eauto].
  - split; assumption.
  - exact Hlen.
Qed.

Lemma set_empty_seeds_SWF : forall N d i, SWF N d -> SWF N (set_empty_seeds d i).
Proof.
  intros N d i H. apply (set_empty_seeds_flag (SWF N)); [|exact H].
  intros d0 f Hf H0. apply upd_flag_SWF; assumption.
Qed.

Lemma ff_step_SWF : forall N d x, SWF N d -> x < size d -> SWF N (ff_step N d x).
Proof.
  intros N d x Hswf Hx. unfold ff_step. apply set_empty_seeds_SWF.
  apply upd_flag_SWF; [constructor|].
  apply (ensure_all_SWF N _ d x Hswf Hx). intros m Hin. eapply ff_motifs_len; eauto.
Qed.

Lemma expand_one_eq_fst : forall N cfg d x d1 r, expand_one N cfg d x = (d1, r) ->
  d1 = fst (expand_one N cfg d x).
Proof. intros N cfg d x d1 r E. rewrite E. reflexivity. Qed.

Lemma block_SWF_all : forall fuel N cfg d maa opt sz tape, SWF N d ->
  SWF N (fst (expand_block fuel N cfg d maa opt sz tape)) /\
  extends d (fst (expand_block fuel N cfg d maa opt sz tape)) /\
  (max_nodes N + 2 <= fuel -> snd (expand_block fuel N cfg d maa opt sz tape) <> RFuel).
Proof.
  intros fuel N cfg d maa opt sz tape Hswf.
  apply (BT_block N cfg opt (SWF N)).
  - auto.
  - intros d0 x H0 Hx _. apply expand_one_SWF; assumption.
  - intros d0 x d1 H0 Hx _ E. apply set_empty_seeds_SWF.
    rewrite (expand_one_eq_fst _ _ _ _ _ _ E). apply expand_one_SWF; assumption.
  - intros d0 x _ H0 Hx _ _. apply ff_step_SWF; assumption.
  - exact Hswf.
Qed.

Theorem expand_block_SWF : forall fuel N cfg d maa opt sz tape, SWF N d ->
  SWF N (fst (expand_block fuel N cfg d maa opt sz tape)).
Proof. intros fuel N cfg d maa opt sz tape H. apply (block_SWF_all fuel N cfg d maa opt sz tape H). Qed.

Theorem expand_block_extends : forall fuel N cfg d maa opt sz tape, SWF N d ->
  extends d (fst (expand_block fuel N cfg d maa opt sz tape)).
Proof. intros fuel N cfg d maa opt sz tape H. apply (block_SWF_all fuel N cfg d maa opt sz tape H). Qed.

(* every level that hands over a non-empty next level expands a node that was not expanded
   before, and a well-formed diagram has at most max_nodes N nodes *)
Theorem expand_block_terminates : forall fuel N cfg d maa opt sz tape, SWF N d ->
  max_nodes N + 2 <= fuel -> snd (expand_block fuel N cfg d maa opt sz tape) <> RFuel.
Proof. intros fuel N cfg d maa opt sz tape H. apply (block_SWF_all fuel N cfg d maa opt sz tape H). Qed.

(* a generic instance: Q = SWF /\ P *)
Lemma block_transfer : forall N cfg opt (P : sd -> Prop),
  (forall d x, SWF N d -> P d -> x < size d -> n_exp (get d x) = false ->
     P (fst (expand_one N cfg d x))) ->
  (forall d i, SWF N d -> P d -> i < size d -> n_exp (get d i) = true -> P (set_empty_seeds d i)) ->
  (forall d x, opt = true -> SWF N d -> P d -> x < size d -> n_exp (get d x) = false ->
     sources_in_b N (n_space (get d x)) <> [] -> P (ff_step N d x)) ->
  forall fuel d maa sz tape, SWF N d -> P d -> P (fst (expand_block fuel N cfg d maa opt sz tape)).
Proof.
  intros N cfg opt P Hexp Hseeds Hff fuel d maa sz tape Hswf HP.
  assert (H : SWF N (fst (expand_block fuel N cfg d maa opt sz tape)) /\
              P (fst (expand_block fuel N cfg d maa opt sz tape))).
  { apply (BT_block N cfg opt (fun d0 => SWF N d0 /\ P d0)).
    - intros d0 [H _]. exact H.
    - intros d0 x [H1 H2] Hx Hex. split; [apply expand_one_SWF; assumption|apply Hexp; assumption].
    - intros d0 x d1 [H1 H2] Hx Hex E.
      assert (Hs1 : SWF N d1).
      { rewrite (expand_one_eq_fst _ _ _ _ _ _ E). apply expand_one_SWF; assumption. }
      split; [apply set_empty_seeds_SWF; exact Hs1|].
      apply Hseeds.
      + exact Hs1.
      + rewrite (expand_one_eq_fst _ _ _ _ _ _ E). apply Hexp; assumption.
      + pose proof (expand_one_extends N cfg d0 x) as He. rewrite E in He. eapply extends_lt; eauto.
      + eapply expand_one_exp; eauto.
    - intros d0 x Ho [H1 H2] Hx Hex Hsrc. split; [apply ff_step_SWF; assumption|apply Hff; assumption].
    - split; assumption. }
  exact (proj2 H).
Qed.
