(* BlocksFacts.v -- the source-block expansion strategy (Blocks.expand_block) only uses the
   primitives of the diagram: the structural and semantic invariants are preserved whatever the
   result, the loop terminates within max_nodes N + 2 levels, leaves stay minimal trap spaces.
   The fast-forward of source variables keeps trap spaces and strictness; it discards the
   candidates cached for the stub (fix 3581ec3), so CacheOK holds without extra hypothesis. *)
From Coq Require Import List Bool Arith NArith Lia Permutation.
Import ListNotations.
From BB Require Import BN Brute SpaceFacts TrapFacts PercolateFacts Diagram Invariants DiagramStruct DiagramSem1 DiagramCache Termination MinExpandFacts Blocks.

Local Arguments percolate_b : simpl never.
Local Arguments expand_one : simpl never.
Local Arguments node_successors : simpl never.
Local Arguments ensure_node : simpl never.
Local Arguments ensure_edge : simpl never.
Local Arguments raise_depth : simpl never.
Local Arguments max_traps_b : simpl never.
Local Arguments min_traps_b : simpl never.
Local Arguments upd_node : simpl never.
Local Arguments sources_in_b : simpl never.
Local Arguments source_valuations : simpl never.
Local Arguments ensure_children : simpl never.
Local Arguments ensure_all : simpl never.
Local Arguments set_empty_seeds : simpl never.
Local Arguments clear_cands : simpl never.
Local Arguments group_blocks : simpl never.
Local Arguments minimal_blocks : simpl never.
Local Arguments sort_blocks : simpl never.
Local Arguments first_clean : simpl never.
Local Arguments union_nat : simpl never.
Local Arguments sort_nat : simpl never.
Local Arguments over_limit : simpl never.
Local Arguments Nat.pow : simpl never.
Local Arguments Nat.ltb : simpl never.

(* ================================================================== *)
(* 1. sources of a node space, valuations, fast-forward motifs         *)
(* ================================================================== *)

Lemma nth_merge : forall (x y : space) i, length x = length y ->
  nth i (merge x y) None = match nth i y None with Some b => Some b | None => nth i x None end.
Proof.
  induction x as [|a x IH]; intros [|b y] i Hlen; simpl in *; try discriminate.
  - destruct i; reflexivity.
  - injection Hlen as Hlen. destruct i as [|i]; simpl.
    + destruct b; reflexivity.
    + apply IH. exact Hlen.
Qed.

Lemma free_in_spec : forall (S : space) v, free_in S v = true <-> nth v S None = None.
Proof.
  intros S v. unfold free_in. destruct (nth v S None); split; intro H; try reflexivity; discriminate H.
Qed.

(* a source of the node space: a free variable whose update function is the identity on it *)
Lemma sources_in_b_spec : forall N (S : space) v, In v (sources_in_b N S) <->
  v < nvars N /\ nth v S None = None /\
  forall s, in_space s S = true -> upd N v s = nth v s false.
Proof.
  intros N S v. unfold sources_in_b.
  rewrite filter_In, in_seq, andb_true_iff, forallb_forall, free_in_spec. split.
  - intros (H1 & H2 & H3). split; [lia|]. split; [exact H2|].
    intros s Hs. apply eqb_prop. apply H3. apply states_of_spec. exact Hs.
  - intros (H1 & H2 & H3). split; [lia|]. split; [exact H2|].
    intros s Hs. apply states_of_spec in Hs. rewrite (H3 s Hs). apply eqb_reflx.
Qed.

Lemma source_valuations_cons : forall n w r,
  source_valuations n (w :: r) =
  flat_map (fun b => map (set_nth w (Some b)) (source_valuations n r)) [false; true].
Proof. reflexivity. Qed.

Lemma source_valuations_nonempty : forall n srcs, source_valuations n srcs <> [].
Proof.
  intros n srcs. induction srcs as [|w r IH].
  - discriminate.
  - rewrite source_valuations_cons. simpl.
    destruct (source_valuations n r) as [|v0 l]; [contradiction|]. discriminate.
Qed.

(* a valuation fixes exactly the listed variables (below n) *)
Lemma source_valuations_spec : forall n srcs val, In val (source_valuations n srcs) ->
  length val = n /\ (forall v, nth v val None <> None -> In v srcs) /\
  (forall v, In v srcs -> v < n -> nth v val None <> None).
Proof.
  intros n srcs. induction srcs as [|w r IH]; intros val Hin.
  - destruct Hin as [Heq|[]]. subst val. split; [apply repeat_length|]. split.
    + intros v Hv. exfalso. apply Hv. apply nth_top_space.
    + intros v [].
  - rewrite source_valuations_cons in Hin. apply in_flat_map in Hin.
    destruct Hin as (b & _ & Hin). apply in_map_iff in Hin. destruct Hin as (val' & Heq & Hin').
    destruct (IH val' Hin') as (L & A & B). subst val.
    split; [rewrite set_nth_length; exact L|]. split.
    + intros v Hv. destruct (Nat.eq_dec w v) as [Hwv|Hwv]; [left; exact Hwv|right].
      rewrite nth_set_nth_neq in Hv by exact Hwv. apply A. exact Hv.
    + intros v Hv Hlt. destruct (Nat.eq_dec w v) as [Hwv|Hwv].
      * subst v. rewrite nth_set_nth_eq by lia. discriminate.
      * rewrite nth_set_nth_neq by exact Hwv. apply B; [|exact Hlt].
        destruct Hv as [Hv|Hv]; [contradiction|exact Hv].
Qed.

(* the motifs of the fast-forward: the node space with every source fixed *)
Definition ff_motifs (N : net) (sp : space) : list space :=
  map (merge sp) (source_valuations (nvars N) (sources_in_b N sp)).

Lemma ff_motifs_nonempty : forall N sp, ff_motifs N sp <> [].
Proof.
  intros N sp. unfold ff_motifs.
  pose proof (source_valuations_nonempty (nvars N) (sources_in_b N sp)) as H.
  destruct (source_valuations (nvars N) (sources_in_b N sp)); [contradiction|discriminate].
Qed.

Lemma ff_motif_spec : forall N sp m, length sp = nvars N -> In m (ff_motifs N sp) ->
  length m = nvars N /\ subspace m sp = true /\
  (forall v b, nth v m None = Some b -> nth v sp None = Some b \/ In v (sources_in_b N sp)) /\
  (sources_in_b N sp <> [] -> m <> sp).
Proof.
  intros N sp m Hsp Hin. unfold ff_motifs in Hin. apply in_map_iff in Hin.
  destruct Hin as (val & Heq & Hin). destruct (source_valuations_spec _ _ _ Hin) as (L & A & B).
  assert (Hlen : length sp = length val) by lia.
  assert (Hm : length m = nvars N) by (subst m; rewrite merge_length; assumption).
  split; [exact Hm|]. split; [|split].
  - apply subspace_nth; [lia|]. intros i v Hn. subst m. rewrite nth_merge by exact Hlen.
    destruct (nth i val None) as [b|] eqn:Ev; [|exact Hn]. exfalso.
    assert (Hs : In i (sources_in_b N sp)) by (apply A; rewrite Ev; discriminate).
    apply sources_in_b_spec in Hs. destruct Hs as (_ & Hf & _). congruence.
  - intros v b Hn. subst m. rewrite nth_merge in Hn by exact Hlen.
    destruct (nth v val None) as [b'|] eqn:Ev; [right|left; exact Hn].
    apply A. rewrite Ev. discriminate.
  - intros Hne Heqm. destruct (sources_in_b N sp) as [|w r] eqn:Es; [contradiction|].
    assert (Hw : In w (sources_in_b N sp)) by (rewrite Es; left; reflexivity).
    apply sources_in_b_spec in Hw. destruct Hw as (Hlt & Hf & _).
    assert (Hv : nth w val None <> None) by (apply B; [left; reflexivity|exact Hlt]).
    assert (Hn : nth w m None = nth w sp None) by (rewrite Heqm; reflexivity).
    rewrite <- Heq in Hn. rewrite nth_merge in Hn by exact Hlen.
    destruct (nth w val None) as [b|]; [|contradiction]. congruence.
Qed.

(* fixing sources of a trap space keeps a trap space *)
Lemma fix_sources_trap : forall N (S T : space), trap_space N S -> length T = nvars N ->
  subspace T S = true ->
  (forall v b, nth v T None = Some b -> nth v S None = Some b \/ In v (sources_in_b N S)) ->
  trap_space N T.
Proof.
  intros N S T HS HT Hsub Hfix. pose proof (trap_space_length N S HS) as HlS.
  apply (trap_space_char N T HT). intros i v Hn s Hwf Hin.
  assert (HinS : in_space s S = true).
  { apply (proj1 (subspace_spec T S (eq_trans HT (eq_sym HlS))) Hsub s Hin). }
  destruct (Hfix i v Hn) as [HnS|Hsrc].
  - apply (proj1 (trap_space_char N S HlS) HS i v HnS s Hwf HinS).
  - apply sources_in_b_spec in Hsrc. destruct Hsrc as (_ & _ & Hid). rewrite (Hid s HinS).
    apply (proj1 (in_space_nth s T (in_space_length s T Hin)) Hin i v Hn).
Qed.

Lemma ff_motif_trap : forall N sp m, trap_space N sp -> In m (ff_motifs N sp) -> trap_space N m.
Proof.
  intros N sp m Ht Hin.
  destruct (ff_motif_spec N sp m (trap_space_length N sp Ht) Hin) as (H1 & H2 & H3 & _).
  apply (fix_sources_trap N sp m); assumption.
Qed.

Lemma ff_motif_strict : forall N sp m, length sp = nvars N -> sources_in_b N sp <> [] ->
  In m (ff_motifs N sp) -> ES_guard N sp m.
Proof.
  intros N sp m Hsp Hne Hin. destruct (ff_motif_spec N sp m Hsp Hin) as (H1 & H2 & _ & H4).
  split; [exact H1|]. split; [exact H2|apply H4; exact Hne].
Qed.

(* ================================================================== *)
(* 2. ensure_children = ensure_all + the list of child ids             *)
(* ================================================================== *)

Lemma ensure_all_cons : forall N d p m r,
  ensure_all N d p (m :: r) = ensure_all N (fst (ensure_node N d (Some p) m)) p r.
Proof. reflexivity. Qed.

Lemma ensure_children_cons : forall N d p m r acc,
  ensure_children N d p (m :: r) acc =
  ensure_children N (fst (ensure_node N d (Some p) m)) p r (acc ++ [snd (ensure_node N d (Some p) m)]).
Proof.
  intros N d p m r acc. unfold ensure_children at 1. fold ensure_children.
  destruct (ensure_node N d (Some p) m) as [d1 c]. reflexivity.
Qed.

Lemma ensure_children_fst : forall N subs d p acc,
  fst (ensure_children N d p subs acc) = ensure_all N d p subs.
Proof.
  intros N subs. induction subs as [|m r IH]; intros d p acc; [reflexivity|].
  rewrite ensure_children_cons, ensure_all_cons. apply IH.
Qed.

Lemma ensure_children_valid : forall N subs d p acc, SWF N d -> p < size d ->
  (forall m, In m subs -> length m = nvars N) -> (forall a, In a acc -> a < size d) ->
  forall c, In c (snd (ensure_children N d p subs acc)) -> c < size (ensure_all N d p subs).
Proof.
  intros N subs. induction subs as [|m r IH]; intros d p acc Hswf Hp Hlen Hacc c Hc.
  - apply Hacc. exact Hc.
  - rewrite ensure_children_cons in Hc. rewrite ensure_all_cons.
    destruct (ensure_child_spec N d p m Hswf (Hlen m (or_introl eq_refl)) Hp) as (S1 & S2 & S3 & _).
    apply (IH _ p (acc ++ [snd (ensure_node N d (Some p) m)])); try assumption.
    + eapply extends_lt; eauto.
    + intros m0 Hin. apply Hlen. right. exact Hin.
    + intros a Ha. apply in_app_or in Ha. destruct Ha as [Ha|[Ha|[]]].
      * eapply extends_lt; [exact S2|apply Hacc; exact Ha].
      * subst a. exact S3.
Qed.

Lemma ensure_all_nonempty_out : forall N subs d p, subs <> [] ->
  out_edges (ensure_all N d p subs) p <> [].
Proof.
  intros N subs d p Hne Hout.
  pose proof (ensure_all_out_motifs N subs d p) as Hperm.
  unfold out_motifs at 1 in Hperm. rewrite Hout in Hperm. simpl in Hperm.
  apply Permutation_nil in Hperm. apply app_eq_nil in Hperm. destruct Hperm as [_ H]. contradiction.
Qed.

(* the two cache writes of set_empty_seeds *)
Lemma set_empty_seeds_unfold : forall d i,
  set_empty_seeds d i =
  upd_node (upd_node d i (fun y => set_seeds y (Some (cur_tag d i)))) i
           (fun y => set_sets y (Some (cur_tag d i))).
Proof. reflexivity. Qed.

Lemma size_set_empty_seeds : forall d i, size (set_empty_seeds d i) = size d.
Proof. intros d i. rewrite set_empty_seeds_unfold, !size_upd_node. reflexivity. Qed.

Lemma sd_edges_set_empty_seeds : forall d i, sd_edges (set_empty_seeds d i) = sd_edges d.
Proof. intros d i. rewrite set_empty_seeds_unfold, !sd_edges_upd_node. reflexivity. Qed.

Lemma set_empty_seeds_extends : forall d i, extends d (set_empty_seeds d i).
Proof.
  intros d i. rewrite set_empty_seeds_unfold.
  eapply extends_trans; apply upd_flag_extends; constructor.
Qed.

Lemma n_exp_set_empty_seeds : forall d i j, n_exp (get (set_empty_seeds d i) j) = n_exp (get d j).
Proof.
  intros d i j. rewrite set_empty_seeds_unfold.
  destruct (get_upd_node_cases (upd_node d i (fun y => set_seeds y (Some (cur_tag d i)))) i j
              (fun y => set_sets y (Some (cur_tag d i)))) as [Hg|(_ & _ & Hg)]; rewrite Hg; simpl;
  destruct (get_upd_node_cases d i j (fun y => set_seeds y (Some (cur_tag d i)))) as [Hg2|(_ & _ & Hg2)];
    rewrite Hg2; reflexivity.
Qed.

(* any property stable under flag updates survives set_empty_seeds *)
Lemma set_empty_seeds_flag : forall (P : sd -> Prop) d i,
  (forall d0 f, flag_setter f -> P d0 -> P (upd_node d0 i f)) -> P d -> P (set_empty_seeds d i).
Proof.
  intros P d i Hupd HP. rewrite set_empty_seeds_unfold.
  apply Hupd; [constructor|]. apply Hupd; [constructor|exact HP].
Qed.

(* the cache write of clear_cands *)
Lemma clear_cands_unfold : forall d i, clear_cands d i = upd_node d i (fun y => set_cands y None).
Proof. reflexivity. Qed.

Lemma size_clear_cands : forall d i, size (clear_cands d i) = size d.
Proof. intros d i. rewrite clear_cands_unfold. apply size_upd_node. Qed.

Lemma sd_edges_clear_cands : forall d i, sd_edges (clear_cands d i) = sd_edges d.
Proof. intros d i. rewrite clear_cands_unfold. apply sd_edges_upd_node. Qed.

Lemma clear_cands_extends : forall d i, extends d (clear_cands d i).
Proof. intros d i. rewrite clear_cands_unfold. apply upd_flag_extends. constructor. Qed.

Lemma n_exp_clear_cands : forall d i j, n_exp (get (clear_cands d i) j) = n_exp (get d j).
Proof.
  intros d i j. rewrite clear_cands_unfold.
  destruct (get_upd_node_cases d i j (fun y => set_cands y None)) as [Hg|(_ & _ & Hg)]; rewrite Hg;
    reflexivity.
Qed.

Lemma get_clear_cands_other : forall d i j, j <> i -> get (clear_cands d i) j = get d j.
Proof. intros d i j Hne. rewrite clear_cands_unfold, get_upd_node_neq by lia. reflexivity. Qed.

(* any property stable under flag updates survives clear_cands *)
Lemma clear_cands_flag : forall (P : sd -> Prop) d i,
  (forall d0 f, flag_setter f -> P d0 -> P (upd_node d0 i f)) -> P d -> P (clear_cands d i).
Proof.
  intros P d i Hupd HP. rewrite clear_cands_unfold. apply Hupd; [constructor|exact HP].
Qed.

(* the closing writes of the fast-forward: expanded flag, candidates dropped, empty seeds *)
Lemma ff_close_flag : forall (P : sd -> Prop) d i,
  (forall d0 f, flag_setter f -> P d0 -> P (upd_node d0 i f)) -> P d ->
  P (set_empty_seeds (clear_cands (upd_node d i (fun y => set_exp y true)) i) i).
Proof.
  intros P d i Hupd HP. apply set_empty_seeds_flag; [exact Hupd|].
  apply clear_cands_flag; [exact Hupd|]. apply Hupd; [constructor|exact HP].
Qed.

(* the fast-forward of node x *)
Definition ff_step (N : net) (d : sd) (x : nat) : sd :=
  set_empty_seeds
    (clear_cands
       (upd_node (ensure_all N d x (ff_motifs N (n_space (get d x)))) x (fun y => set_exp y true)) x) x.
Definition ff_kids (N : net) (d : sd) (x : nat) : list nat :=
  snd (ensure_children N d x (ff_motifs N (n_space (get d x))) []).

Lemma size_ff_step : forall N d x,
  size (ff_step N d x) = size (ensure_all N d x (ff_motifs N (n_space (get d x)))).
Proof.
  intros N d x. unfold ff_step. rewrite size_set_empty_seeds, size_clear_cands, size_upd_node. reflexivity.
Qed.

Lemma sd_edges_ff_step : forall N d x,
  sd_edges (ff_step N d x) = sd_edges (ensure_all N d x (ff_motifs N (n_space (get d x)))).
Proof.
  intros N d x. unfold ff_step.
  rewrite sd_edges_set_empty_seeds, sd_edges_clear_cands, sd_edges_upd_node. reflexivity.
Qed.

Lemma ff_step_extends : forall N d x, extends d (ff_step N d x).
Proof.
  intros N d x. unfold ff_step.
  eapply extends_trans; [apply ensure_all_extends|].
  eapply extends_trans; [apply upd_flag_extends; constructor|].
  eapply extends_trans; [apply clear_cands_extends|apply set_empty_seeds_extends].
Qed.

Lemma ff_motifs_len : forall N d x m, SWF N d -> x < size d ->
  In m (ff_motifs N (n_space (get d x))) -> length m = nvars N.
Proof.
  intros N d x m Hswf Hx Hin.
  assert (Hsp : length (n_space (get d x)) = nvars N).
  { apply (swf_len N d Hswf). apply get_In. exact Hx. }
  apply (ff_motif_spec N _ m Hsp Hin).
Qed.

Lemma ff_kids_valid : forall N d x c, SWF N d -> x < size d ->
  In c (ff_kids N d x) -> c < size (ff_step N d x).
Proof.
  intros N d x c Hswf Hx Hc. rewrite size_ff_step. unfold ff_kids in Hc.
  apply (ensure_children_valid N _ d x [] Hswf Hx); [|intros a []|exact Hc].
  intros m Hin. eapply ff_motifs_len; eauto.
Qed.

Lemma n_exp_ff_step : forall N d x, x < size d -> n_exp (get (ff_step N d x) x) = true.
Proof.
  intros N d x Hx. unfold ff_step. rewrite n_exp_set_empty_seeds, n_exp_clear_cands.
  rewrite get_upd_node_eq; [reflexivity|].
  eapply extends_lt; [apply ensure_all_extends|exact Hx].
Qed.

(* ================================================================== *)
(* 3. one node of a level: the possible outcomes                       *)
(* ================================================================== *)

Lemma union_nat_In : forall a b y, In y (union_nat a b) -> In y a \/ In y b.
Proof.
  intros a b y H. unfold union_nat in H. apply in_app_or in H. destruct H as [H|H]; [left; exact H|].
  apply filter_In in H. right. apply H.
Qed.

Lemma union_nat_nil : forall a, union_nat a [] = a.
Proof. intro a. unfold union_nat. simpl. apply app_nil_r. Qed.

(* blocks only contain successors *)
Definition blocks_in (succ : list nat) (blocks : list (list nat * list nat)) : Prop :=
  forall b ns, In (b, ns) blocks -> forall s, In s ns -> In s succ.

Lemma add_to_blocks_in : forall succ blk s blocks, In s succ -> blocks_in succ blocks ->
  blocks_in succ (add_to_blocks blk s blocks).
Proof.
  intros succ blk s blocks Hs. induction blocks as [|[b ns] r IH]; intro H; simpl.
  - intros b0 ns0 [Heq|[]] s0 Hs0. injection Heq as _ Hn. subst ns0.
    destruct Hs0 as [Hs0|[]]. subst s0. exact Hs.
  - destruct (same_set b blk).
    + intros b0 ns0 [Heq|Hin] s0 Hs0.
      * injection Heq as _ Hn. subst ns0. apply in_app_or in Hs0.
        destruct Hs0 as [Hs0|[Hs0|[]]]; [|subst s0; exact Hs].
        apply (H b ns (or_introl eq_refl)). exact Hs0.
      * apply (H b0 ns0 (or_intror Hin)). exact Hs0.
    + intros b0 ns0 [Heq|Hin] s0 Hs0.
      * apply (H b0 ns0 (or_introl Heq)). exact Hs0.
      * apply (IH (fun b1 ns1 H1 => H b1 ns1 (or_intror H1)) b0 ns0 Hin). exact Hs0.
Qed.

Lemma group_blocks_in : forall N d x succ, blocks_in succ (group_blocks N d x succ).
Proof.
  intros N d x succ. unfold group_blocks.
  assert (H : forall l acc, (forall s, In s l -> In s succ) -> blocks_in succ acc ->
            blocks_in succ (fold_left (fun acc s =>
              add_to_blocks (block_of N (n_space (get d x))
                               (reduce_by (first_motif d x s) (n_space (get d x)))) s acc) l acc)).
  { induction l as [|s l IH]; intros acc Hl Hacc; simpl; [exact Hacc|].
    apply IH; [intros s0 Hs0; apply Hl; right; exact Hs0|].
    apply add_to_blocks_in; [apply Hl; left; reflexivity|exact Hacc]. }
  apply H; [auto|]. intros b ns [].
Qed.

Lemma minimal_blocks_in : forall succ blocks, blocks_in succ blocks ->
  blocks_in succ (minimal_blocks blocks).
Proof.
  intros succ blocks H. unfold minimal_blocks. destruct blocks as [|b1 [|b2 r]]; try exact H.
  intros b ns Hin. apply filter_In in Hin. apply (H b ns). apply Hin.
Qed.

Lemma insert_by_len_In : forall x y l, In y (insert_by_len x l) -> y = x \/ In y l.
Proof.
  intros x y l. induction l as [|z r IH]; simpl; intro H.
  - destruct H as [H|[]]. left. symmetry. exact H.
  - destruct (Nat.ltb (length (snd x)) (length (snd z))).
    + destruct H as [H|H]; [left; symmetry; exact H|right; exact H].
    + destruct H as [H|H]; [right; left; exact H|].
      destruct (IH H) as [H1|H1]; [left; exact H1|right; right; exact H1].
Qed.

Lemma sort_blocks_in : forall succ blocks, blocks_in succ blocks -> blocks_in succ (sort_blocks blocks).
Proof.
  intros succ blocks H. unfold sort_blocks.
  assert (G : forall l acc, blocks_in succ l -> blocks_in succ acc ->
            blocks_in succ (fold_left (fun acc x => insert_by_len x acc) l acc)).
  { induction l as [|x l IH]; intros acc Hl Hacc; simpl; [exact Hacc|].
    apply IH; [intros b ns Hin; apply (Hl b ns); right; exact Hin|].
    intros b ns Hin. apply insert_by_len_In in Hin. destruct Hin as [Heq|Hin].
    - apply (Hl b ns). left. symmetry. exact Heq.
    - apply (Hacc b ns Hin). }
  apply G; [exact H|]. intros b ns [].
Qed.

Lemma first_clean_in : forall blocks tape ns tape1,
  first_clean blocks tape = (Some ns, tape1) -> exists b, In (b, ns) blocks.
Proof.
  induction blocks as [|[b ns0] r IH]; intros tape ns tape1 H; simpl in H; [discriminate|].
  destruct tape as [|[|] t].
  - destruct (IH [] ns tape1 H) as [b0 Hb]. exists b0. right. exact Hb.
  - injection H as H1 H2. subst ns0. exists b. left. reflexivity.
  - destruct (IH t ns tape1 H) as [b0 Hb]. exists b0. right. exact Hb.
Qed.

Lemma chosen_blocks_in : forall N d x succ,
  blocks_in succ (sort_blocks (minimal_blocks (group_blocks N d x succ))).
Proof.
  intros N d x succ. apply sort_blocks_in. apply minimal_blocks_in. apply group_blocks_in.
Qed.

(* `vis`: the nodes the call has dealt with; an expanded node met for the first time hands on its successors *)
Inductive node_step (N : net) (cfg : config) (opt : bool) (d : sd) (x : nat) (next vis : list nat)
  : sd -> result -> list nat -> list nat -> Prop :=
| ns_skip : n_exp (get d x) = true -> mem_nat x vis = true -> node_step N cfg opt d x next vis d RUnit next vis
| ns_hand : n_exp (get d x) = true -> mem_nat x vis = false ->
    node_step N cfg opt d x next vis d RUnit (union_nat next (successors d x)) (x :: vis)
| ns_stop : forall r, n_exp (get d x) = false -> r <> RUnit -> r <> RFuel ->
    node_step N cfg opt d x next vis d r next (x :: vis)
| ns_ff : n_exp (get d x) = false -> opt = true -> sources_in_b N (n_space (get d x)) <> [] ->
    node_step N cfg opt d x next vis (ff_step N d x) RUnit (union_nat next (ff_kids N d x)) (x :: vis)
| ns_raise : forall d1 r, n_exp (get d x) = false -> expand_one N cfg d x = (d1, r) ->
    r <> RUnit -> r <> RFuel -> node_step N cfg opt d x next vis d1 r next (x :: vis)
| ns_norm : forall d1 ns (b : bool), n_exp (get d x) = false -> expand_one N cfg d x = (d1, RUnit) ->
    (forall s, In s ns -> In s (successors d1 x)) ->
    node_step N cfg opt d x next vis (if b then set_empty_seeds d1 x else d1) RUnit (union_nat next ns) (x :: vis).

Lemma block_level_cons : forall N cfg maa opt sz d x cur next tape vis,
  exists d' r next' tape' vis', node_step N cfg opt d x next vis d' r next' vis' /\
    block_level N cfg maa opt sz d (x :: cur) next tape vis =
    match r with
    | RUnit => block_level N cfg maa opt sz d' cur next' tape' vis'
    | _ => (d', r, next', tape', vis')
    end.
Proof.
  intros N cfg maa opt sz d x cur next tape vis. cbn [block_level].
  destruct (n_exp (get d x)) eqn:Ex.
  { destruct (mem_nat x vis) eqn:Em.
    - exists d, RUnit, next, tape, vis. split; [apply ns_skip; assumption|reflexivity].
    - exists d, RUnit, (union_nat next (successors d x)), tape, (x :: vis).
      split; [apply ns_hand; assumption|reflexivity]. }
  destruct (over_limit sz d).
  { exists d, (RBool false), next, tape, (x :: vis). split; [apply ns_stop; [exact Ex|discriminate|discriminate]|reflexivity]. }
  assert (Hnormal :
    exists d' r next' tape' vis', node_step N cfg opt d x next vis d' r next' vis' /\
      (let '(d1, r0, succ0) := node_successors N cfg d x in
       match r0 with
       | RUnit =>
           match sort_nat succ0 with
           | [] => block_level N cfg maa opt sz d1 cur next tape (x :: vis)
           | [s] =>
               if negb maa then block_level N cfg maa opt sz d1 cur (union_nat next [s]) tape (x :: vis)
               else
                 let '(clean, tape1) :=
                   first_clean (sort_blocks (minimal_blocks (group_blocks N d1 x (sort_nat succ0)))) tape in
                 match clean with
                 | Some ns => block_level N cfg maa opt sz (set_empty_seeds d1 x) cur (union_nat next ns) tape1 (x :: vis)
                 | None => block_level N cfg maa opt sz d1 cur (union_nat next (sort_nat succ0)) tape1 (x :: vis)
                 end
           | _ :: _ :: _ =>
               if negb maa
               then block_level N cfg maa opt sz d1 cur
                      (union_nat next
                         match sort_blocks (minimal_blocks (group_blocks N d1 x (sort_nat succ0))) with
                         | (_, ns) :: _ => ns | [] => [] end) tape (x :: vis)
               else
                 let '(clean, tape1) :=
                   first_clean (sort_blocks (minimal_blocks (group_blocks N d1 x (sort_nat succ0)))) tape in
                 match clean with
                 | Some ns => block_level N cfg maa opt sz (set_empty_seeds d1 x) cur (union_nat next ns) tape1 (x :: vis)
                 | None => block_level N cfg maa opt sz d1 cur (union_nat next (sort_nat succ0)) tape1 (x :: vis)
                 end
           end
       | _ => (d1, r0, next, tape, x :: vis)
       end) =
      match r with
      | RUnit => block_level N cfg maa opt sz d' cur next' tape' vis'
      | _ => (d', r, next', tape', vis')
      end).
  { unfold node_successors.
    pose proof (Termination.expand_one_result N cfg d x) as Hres.
    destruct (expand_one N cfg d x) as [d1 r0] eqn:Ee. simpl in Hres.
    destruct Hres as [Hres|Hres]; subst r0.
    2:{ exists d1, (RRaised ErrMotifLimit), next, tape, (x :: vis).
        split; [eapply ns_raise; [exact Ex|exact Ee|discriminate|discriminate]|reflexivity]. }
    pose proof (chosen_blocks_in N d1 x (sort_nat (successors d1 x))) as Hblocks.
    assert (Hsort : forall ns, (forall s, In s ns -> In s (sort_nat (successors d1 x))) ->
                    forall s, In s ns -> In s (successors d1 x)).
    { intros ns H s Hs. apply sort_nat_In. apply H. exact Hs. }
    assert (Hclean : forall tp,
      exists d' r next' tape' vis', node_step N cfg opt d x next vis d' r next' vis' /\
        (let '(clean, tape1) :=
           first_clean (sort_blocks (minimal_blocks (group_blocks N d1 x (sort_nat (successors d1 x))))) tp in
         match clean with
         | Some ns => block_level N cfg maa opt sz (set_empty_seeds d1 x) cur (union_nat next ns) tape1 (x :: vis)
         | None => block_level N cfg maa opt sz d1 cur (union_nat next (sort_nat (successors d1 x))) tape1 (x :: vis)
         end) =
        match r with
        | RUnit => block_level N cfg maa opt sz d' cur next' tape' vis'
        | _ => (d', r, next', tape', vis')
        end).
    { intro tp.
      destruct (first_clean (sort_blocks (minimal_blocks (group_blocks N d1 x (sort_nat (successors d1 x))))) tp)
        as [[ns|] tape1] eqn:Ef.
      - destruct (first_clean_in _ _ _ _ Ef) as [b Hb].
        exists (set_empty_seeds d1 x), RUnit, (union_nat next ns), tape1, (x :: vis). split; [|reflexivity].
        apply (ns_norm N cfg opt d x next vis d1 ns true Ex Ee). apply Hsort. apply (Hblocks b ns Hb).
      - exists d1, RUnit, (union_nat next (sort_nat (successors d1 x))), tape1, (x :: vis). split; [|reflexivity].
        apply (ns_norm N cfg opt d x next vis d1 _ false Ex Ee). apply Hsort. auto. }
    destruct (sort_nat (successors d1 x)) as [|s [|s2 rest]] eqn:Esucc.
    - exists d1, RUnit, (union_nat next []), tape, (x :: vis). split.
      + apply (ns_norm N cfg opt d x next vis d1 [] false Ex Ee). intros s [].
      + rewrite union_nat_nil. reflexivity.
    - destruct maa; simpl negb; cbv iota; [apply Hclean|].
      exists d1, RUnit, (union_nat next [s]), tape, (x :: vis). split; [|reflexivity].
      apply (ns_norm N cfg opt d x next vis d1 [s] false Ex Ee). apply Hsort. auto.
    - destruct maa; simpl negb; cbv iota; [apply Hclean|].
      destruct (sort_blocks (minimal_blocks (group_blocks N d1 x (s :: s2 :: rest)))) as [|[b ns] rb] eqn:Eb.
      + exists d1, RUnit, (union_nat next []), tape, (x :: vis). split; [|reflexivity].
        apply (ns_norm N cfg opt d x next vis d1 [] false Ex Ee). intros s0 [].
      + exists d1, RUnit, (union_nat next ns), tape, (x :: vis). split; [|reflexivity].
        apply (ns_norm N cfg opt d x next vis d1 ns false Ex Ee). apply Hsort.
        apply (Hblocks b ns). left. reflexivity. }
  destruct (sources_in_b N (n_space (get d x))) as [|w srcs] eqn:Es.
  { simpl negb. cbv iota. simpl andb. cbv iota. exact Hnormal. }
  destruct opt; simpl negb; simpl andb; cbv iota; [|exact Hnormal].
  destruct (Nat.ltb (max_motifs cfg) (size d + Nat.pow 2 (length (w :: srcs)))).
  { exists d, (RRaised ErrMotifLimit), next, tape, (x :: vis).
    split; [apply ns_stop; [exact Ex|discriminate|discriminate]|reflexivity]. }
  destruct (match sz with Some k => Nat.ltb k (size d + Nat.pow 2 (length (w :: srcs))) | None => false end).
  { exists d, (RBool false), next, tape, (x :: vis).
    split; [apply ns_stop; [exact Ex|discriminate|discriminate]|reflexivity]. }
  exists (ff_step N d x), RUnit, (union_nat next (ff_kids N d x)), tape, (x :: vis). split.
  - apply ns_ff; [exact Ex|reflexivity|]. rewrite Es. discriminate.
  - unfold ff_step, ff_kids, ff_motifs. rewrite Es.
    pose proof (ensure_children_fst N (map (merge (n_space (get d x))) (source_valuations (nvars N) (w :: srcs))) d x [])
      as Hfst.
    destruct (ensure_children N d x (map (merge (n_space (get d x))) (source_valuations (nvars N) (w :: srcs))) [])
      as [d1 kids]. simpl in Hfst. subst d1. reflexivity.
Qed.

(* ================================================================== *)
(* 4. the transfer principle of the strategy                           *)
(* ================================================================== *)

Definition ids_ok (d : sd) (l : list nat) : Prop := forall y, In y l -> y < size d.

Lemma ids_ok_extends : forall d d' l, extends d d' -> ids_ok d l -> ids_ok d' l.
Proof. intros d d' l He H y Hy. eapply extends_lt; [exact He|apply H; exact Hy]. Qed.

Lemma expand_one_exp : forall N cfg d x d1, x < size d -> n_exp (get d x) = false ->
  expand_one N cfg d x = (d1, RUnit) -> n_exp (get d1 x) = true.
Proof.
  intros N cfg d x d1 Hx Hex E. pose proof (expand_one_extends N cfg d x) as Hext.
  rewrite E in Hext. simpl in Hext.
  destruct (expand_one_cases N cfg d x d1 RUnit E)
    as [(A & _)|[(_ & _ & A & _)|[(_ & _ & _ & _ & A)|(_ & _ & _ & A & _)]]].
  - congruence.
  - subst d1. rewrite get_upd_node_eq; [reflexivity|]. rewrite size_upd_node. exact Hx.
  - discriminate A.
  - subst d1. rewrite get_upd_node_eq; [reflexivity|].
    eapply extends_lt; [apply ensure_all_extends|]. rewrite size_upd_node. exact Hx.
Qed.

Section BlockTransfer.
  Variable N : net.
  Variable cfg : config.
  Variable opt : bool.
  Variable Q : sd -> Prop.
  Hypothesis Q_swf : forall d, Q d -> SWF N d.
  Hypothesis Q_expand : forall d x, Q d -> x < size d -> n_exp (get d x) = false ->
    Q (fst (expand_one N cfg d x)).
  Hypothesis Q_seeds : forall d x d1, Q d -> x < size d -> n_exp (get d x) = false ->
    expand_one N cfg d x = (d1, RUnit) -> Q (set_empty_seeds d1 x).
  Hypothesis Q_ff : forall d x, opt = true -> Q d -> x < size d -> n_exp (get d x) = false ->
    sources_in_b N (n_space (get d x)) <> [] -> Q (ff_step N d x).

  (* every node the call has dealt with is expanded (as long as the call goes on) *)
  Definition vis_ok (d : sd) (vis : list nat) : Prop := forall v, In v vis -> n_exp (get d v) = true.

  Lemma extends_exp : forall d d' i, extends d d' -> n_exp (get d i) = true -> n_exp (get d' i) = true.
  Proof.
    intros d d' i He Hex. destruct (lt_dec i (size d)) as [Hi|Hi].
    - destruct He as (_ & _ & H3 & _). apply H3; assumption.
    - rewrite get_beyond in Hex by lia. discriminate Hex.
  Qed.

  Lemma vis_ok_extends : forall d d' vis, extends d d' -> vis_ok d vis -> vis_ok d' vis.
  Proof. intros d d' vis He H v Hv. eapply extends_exp; [exact He|apply H; exact Hv]. Qed.

  Lemma vis_ok_cons : forall d x vis, n_exp (get d x) = true -> vis_ok d vis -> vis_ok d (x :: vis).
  Proof. intros d x vis Hx H v [Hv|Hv]; [subst v; exact Hx|apply H; exact Hv]. Qed.

  Lemma vis_ok_unexp : forall d x vis, vis_ok d vis -> n_exp (get d x) = false -> mem_nat x vis = false.
  Proof.
    intros d x vis H Hex. destruct (mem_nat x vis) eqn:Em; [|reflexivity].
    apply mem_nat_In in Em. rewrite (H x Em) in Hex. discriminate Hex.
  Qed.

  Lemma BT_node : forall d x next vis d' r next' vis',
    Q d -> x < size d -> ids_ok d next -> vis_ok d vis -> node_step N cfg opt d x next vis d' r next' vis' ->
    Q d' /\ extends d d' /\ ids_ok d' next' /\ r <> RFuel /\
    (r = RUnit -> vis_ok d' vis' /\
       ((next' = next /\ vis' = vis) \/ (mem_nat x vis = false /\ vis' = x :: vis))).
  Proof.
    intros d x next vis d' r next' vis' Hq Hx Hnext Hvis Hstep.
    destruct Hstep as [Hex Hm|Hex Hm|r Hex Hr1 Hr2|Hex Hopt Hsrc|d1 r Hex Ee Hr1 Hr2|d1 ns b Hex Ee Hns].
    - split; [exact Hq|]. split; [apply extends_refl|]. split; [exact Hnext|].
      split; [discriminate|]. intros _. split; [exact Hvis|]. left. split; reflexivity.
    - split; [exact Hq|]. split; [apply extends_refl|]. split.
      + intros y Hy. apply union_nat_In in Hy. destruct Hy as [Hy|Hy]; [apply Hnext; exact Hy|].
        eapply successors_valid; [apply Q_swf; exact Hq|exact Hy].
      + split; [discriminate|]. intros _. split; [apply vis_ok_cons; assumption|].
        right. split; [exact Hm|reflexivity].
    - split; [exact Hq|]. split; [apply extends_refl|]. split; [exact Hnext|].
      split; [exact Hr2|]. intro H. contradiction.
    - pose proof (ff_step_extends N d x) as He.
      split; [apply Q_ff; assumption|]. split; [exact He|]. split.
      + intros y Hy. apply union_nat_In in Hy. destruct Hy as [Hy|Hy].
        * eapply extends_lt; [exact He|apply Hnext; exact Hy].
        * apply ff_kids_valid; [apply Q_swf; exact Hq|exact Hx|exact Hy].
      + split; [discriminate|]. intros _. split.
        * apply vis_ok_cons; [apply n_exp_ff_step; exact Hx|eapply vis_ok_extends; eauto].
        * right. split; [eapply vis_ok_unexp; eauto|reflexivity].
    - pose proof (Q_expand d x Hq Hx Hex) as Hq1. pose proof (expand_one_extends N cfg d x) as He.
      rewrite Ee in Hq1, He. simpl in Hq1, He.
      split; [exact Hq1|]. split; [exact He|]. split; [eapply ids_ok_extends; eauto|].
      split; [exact Hr2|]. intro H. contradiction.
    - pose proof (Q_expand d x Hq Hx Hex) as Hq1. pose proof (expand_one_extends N cfg d x) as He.
      rewrite Ee in Hq1, He. simpl in Hq1, He.
      pose proof (expand_one_exp N cfg d x d1 Hx Hex Ee) as Hexp.
      assert (Hvalid : ids_ok d1 (union_nat next ns)).
      { intros y Hy. apply union_nat_In in Hy. destruct Hy as [Hy|Hy].
        - eapply extends_lt; [exact He|apply Hnext; exact Hy].
        - eapply successors_valid; [apply Q_swf; exact Hq1|apply Hns; exact Hy]. }
      assert (Hv1 : vis_ok d1 (x :: vis)).
      { apply vis_ok_cons; [exact Hexp|eapply vis_ok_extends; eauto]. }
      assert (Hm : mem_nat x vis = false) by (eapply vis_ok_unexp; eauto).
      destruct b.
      + split; [apply (Q_seeds d x d1 Hq Hx Hex Ee)|].
        split; [eapply extends_trans; [exact He|apply set_empty_seeds_extends]|].
        split; [intros y Hy; rewrite size_set_empty_seeds; apply Hvalid; exact Hy|].
        split; [discriminate|]. intros _. split.
        * eapply vis_ok_extends; [apply set_empty_seeds_extends|exact Hv1].
        * right. split; [exact Hm|reflexivity].
      + split; [exact Hq1|]. split; [exact He|]. split; [exact Hvalid|].
        split; [discriminate|]. intros _. split; [exact Hv1|]. right. split; [exact Hm|reflexivity].
  Qed.

  (* the number of visited nodes among the first K ids *)
  Definition nvis (K : nat) (vis : list nat) : nat :=
    length (filter (fun i => mem_nat i vis) (seq 0 K)).

  Lemma nvis_le : forall K vis, nvis K vis <= K.
  Proof.
    intros K vis. unfold nvis.
    pose proof (filter_length_bound nat (fun i => mem_nat i vis) (seq 0 K)) as H.
    rewrite seq_length in H. exact H.
  Qed.

  Lemma nvis_nil : forall K, nvis K [] = 0.
  Proof.
    intro K. unfold nvis. induction (seq 0 K) as [|a l IH]; [reflexivity|]. simpl. exact IH.
  Qed.

  Lemma nvis_strict : forall K vis x, x < K -> mem_nat x vis = false -> nvis K vis < nvis K (x :: vis).
  Proof.
    intros K vis x Hx Hm. unfold nvis. apply (filter_length_strict nat _ _ _ x).
    - intros i _ Hi. apply mem_nat_In. right. apply mem_nat_In. exact Hi.
    - apply in_seq. lia.
    - exact Hm.
    - apply mem_nat_In. left. reflexivity.
  Qed.

  (* a level either hands over the `next` it was given, or it has dealt with a node for the first time *)
  Lemma BT_level : forall maa sz cur d next tape vis d1 r next1 tape1 vis1,
    Q d -> ids_ok d cur -> ids_ok d next -> vis_ok d vis ->
    block_level N cfg maa opt sz d cur next tape vis = (d1, r, next1, tape1, vis1) ->
    Q d1 /\ extends d d1 /\ ids_ok d1 next1 /\ r <> RFuel /\
    (r = RUnit -> vis_ok d1 vis1 /\ nvis (max_nodes N) vis <= nvis (max_nodes N) vis1 /\
       (next1 = next \/ nvis (max_nodes N) vis < nvis (max_nodes N) vis1)).
  Proof.
    intros maa sz cur. induction cur as [|x cur IH]; intros d next tape vis d1 r next1 tape1 vis1 Hq Hcur Hnext Hvis E.
    - simpl in E. injection E as E1 E2 E3 E4 E5. subst d1 r next1 tape1 vis1.
      split; [exact Hq|]. split; [apply extends_refl|]. split; [exact Hnext|].
      split; [discriminate|]. intros _. split; [exact Hvis|]. split; [lia|]. left. reflexivity.
    - destruct (block_level_cons N cfg maa opt sz d x cur next tape vis)
        as (d' & r' & next' & tape' & vis' & Hstep & Heq).
      rewrite Heq in E. clear Heq.
      assert (Hx : x < size d) by (apply Hcur; left; reflexivity).
      destruct (BT_node d x next vis d' r' next' vis' Hq Hx Hnext Hvis Hstep) as (Hq' & He' & Hn' & Hr' & Hprog).
      assert (Hstop : r' <> RUnit -> (d', r', next', tape', vis') = (d1, r, next1, tape1, vis1) ->
                Q d1 /\ extends d d1 /\ ids_ok d1 next1 /\ r <> RFuel /\
                (r = RUnit -> vis_ok d1 vis1 /\ nvis (max_nodes N) vis <= nvis (max_nodes N) vis1 /\
                   (next1 = next \/ nvis (max_nodes N) vis < nvis (max_nodes N) vis1))).
      { intros Hne E0. injection E0 as E1 E2 E3 E4 E5. subst d1 r next1 tape1 vis1.
        split; [exact Hq'|]. split; [exact He'|]. split; [exact Hn'|]. split; [exact Hr'|].
        intro H. contradiction. }
      destruct r'; try (apply Hstop; [discriminate|exact E]).
      assert (Hcur' : ids_ok d' cur).
      { eapply ids_ok_extends; [exact He'|]. intros y Hy. apply Hcur. right. exact Hy. }
      destruct (Hprog eq_refl) as (Hv' & Hcase).
      destruct (IH d' next' tape' vis' d1 r next1 tape1 vis1 Hq' Hcur' Hn' Hv' E) as (K1 & K2 & K3 & K4 & K5).
      split; [exact K1|]. split; [eapply extends_trans; eauto|]. split; [exact K3|].
      split; [exact K4|]. intro Hr. destruct (K5 Hr) as (L1 & L2 & L3). split; [exact L1|].
      destruct Hcase as [[Hsame Hvs]|[Hm Hvs]].
      + subst next' vis'. split; [exact L2|exact L3].
      + subst vis'.
        assert (Hlt : nvis (max_nodes N) vis < nvis (max_nodes N) (x :: vis)).
        { apply nvis_strict; [|exact Hm]. pose proof (size_bound N d (Q_swf d Hq)). lia. }
        split; [lia|]. right. lia.
  Qed.

  Lemma BT_loop : forall maa sz fuel d cur tape vis, Q d -> ids_ok d cur -> vis_ok d vis ->
    Q (fst (block_loop fuel N cfg maa opt sz d cur tape vis)) /\
    extends d (fst (block_loop fuel N cfg maa opt sz d cur tape vis)) /\
    (max_nodes N - nvis (max_nodes N) vis + 2 <= fuel ->
     snd (block_loop fuel N cfg maa opt sz d cur tape vis) <> RFuel).
  Proof.
    intros maa sz fuel. induction fuel as [|f IH]; intros d cur tape vis Hq Hcur Hvis.
    - simpl. split; [exact Hq|]. split; [apply extends_refl|]. intro H. lia.
    - cbn [block_loop]. destruct cur as [|c cur'].
      { simpl. split; [exact Hq|]. split; [apply extends_refl|]. intros _. discriminate. }
      remember (c :: cur') as cur eqn:Ecur.
      destruct (block_level N cfg maa opt sz d (sort_nat cur) [] tape vis) as [[[[d1 r] next1] tape1] vis1] eqn:E.
      assert (Hs : ids_ok d (sort_nat cur)).
      { intros y Hy. apply Hcur. apply sort_nat_In. exact Hy. }
      assert (Hnil : ids_ok d []) by (intros y []).
      destruct (BT_level maa sz (sort_nat cur) d [] tape vis d1 r next1 tape1 vis1 Hq Hs Hnil Hvis E)
        as (K1 & K2 & K3 & K4 & K5).
      assert (Hstop : r <> RUnit ->
                Q (fst (d1, r)) /\ extends d (fst (d1, r)) /\
                (max_nodes N - nvis (max_nodes N) vis + 2 <= S f -> snd (d1, r) <> RFuel)).
      { intros _. simpl. split; [exact K1|]. split; [exact K2|]. intros _. exact K4. }
      destruct r; try (apply Hstop; discriminate).
      destruct (K5 eq_refl) as (L1 & L2 & L3).
      destruct (IH d1 next1 tape1 vis1 K1 K3 L1) as (J1 & J2 & J3).
      split; [exact J1|]. split; [eapply extends_trans; eauto|].
      intro Hfuel. destruct L3 as [Hsame|Hlt].
      + subst next1. destruct f as [|f']; [lia|]. simpl. discriminate.
      + apply J3. pose proof (nvis_le (max_nodes N) vis1). lia.
  Qed.

  Theorem BT_block : forall fuel d maa sz tape, Q d ->
    Q (fst (expand_block fuel N cfg d maa opt sz tape)) /\
    extends d (fst (expand_block fuel N cfg d maa opt sz tape)) /\
    (max_nodes N + 2 <= fuel -> snd (expand_block fuel N cfg d maa opt sz tape) <> RFuel).
  Proof.
    intros fuel d maa sz tape Hq. unfold expand_block.
    assert (H0 : ids_ok d [0]).
    { intros y [Hy|[]]. subst y. apply (swf_size N d (Q_swf d Hq)). }
    assert (Hv : vis_ok d []) by (intros v []).
    destruct (BT_loop maa sz fuel d [0] tape [] Hq H0 Hv) as (J1 & J2 & J3).
    split; [exact J1|]. split; [exact J2|]. intro Hf. apply J3. lia.
  Qed.
End BlockTransfer.

(* ================================================================== *)
(* 5. SWF, extends, termination                                        *)
(* ================================================================== *)

Lemma ensure_all_SWF : forall N subs d p, SWF N d -> p < size d ->
  (forall m, In m subs -> length m = nvars N) ->
  SWF N (ensure_all N d p subs) /\ p < size (ensure_all N d p subs).
Proof.
  intros N subs d p Hswf Hp Hlen.
  apply (C_ensure_all N p (fun d0 => SWF N d0 /\ p < size d0) (fun m => length m = nvars N)).
  - intros d0 m [H1 H2] Hm. destruct (ensure_child_spec N d0 p m H1 Hm H2) as (S1 & S2 & _).
    split; [exact S1|eapply extends_lt; eauto].
  - split; assumption.
  - exact Hlen.
Qed.

Lemma set_empty_seeds_SWF : forall N d i, SWF N d -> SWF N (set_empty_seeds d i).
Proof.
  intros N d i H. apply (set_empty_seeds_flag (SWF N)); [|exact H].
  intros d0 f Hf H0. apply upd_flag_SWF; assumption.
Qed.

Lemma ff_step_SWF : forall N d x, SWF N d -> x < size d -> SWF N (ff_step N d x).
Proof.
  intros N d x Hswf Hx. unfold ff_step.
  apply (ff_close_flag (SWF N)); [intros d0 f Hf H0; apply upd_flag_SWF; assumption|].
  apply (ensure_all_SWF N _ d x Hswf Hx). intros m Hin. eapply ff_motifs_len; eauto.
Qed.

Lemma expand_one_eq_fst : forall N cfg d x d1 r, expand_one N cfg d x = (d1, r) ->
  d1 = fst (expand_one N cfg d x).
Proof. intros N cfg d x d1 r E. rewrite E. reflexivity. Qed.

Lemma block_SWF_all : forall fuel N cfg d maa opt sz tape, SWF N d ->
  SWF N (fst (expand_block fuel N cfg d maa opt sz tape)) /\
  extends d (fst (expand_block fuel N cfg d maa opt sz tape)) /\
  (max_nodes N + 2 <= fuel -> snd (expand_block fuel N cfg d maa opt sz tape) <> RFuel).
Proof.
  intros fuel N cfg d maa opt sz tape Hswf.
  apply (BT_block N cfg opt (SWF N)).
  - auto.
  - intros d0 x H0 Hx _. apply expand_one_SWF; assumption.
  - intros d0 x d1 H0 Hx _ E. apply set_empty_seeds_SWF.
    rewrite (expand_one_eq_fst _ _ _ _ _ _ E). apply expand_one_SWF; assumption.
  - intros d0 x _ H0 Hx _ _. apply ff_step_SWF; assumption.
  - exact Hswf.
Qed.

Theorem expand_block_SWF : forall fuel N cfg d maa opt sz tape, SWF N d ->
  SWF N (fst (expand_block fuel N cfg d maa opt sz tape)).
Proof. intros fuel N cfg d maa opt sz tape H. apply (block_SWF_all fuel N cfg d maa opt sz tape H). Qed.

Theorem expand_block_extends : forall fuel N cfg d maa opt sz tape, SWF N d ->
  extends d (fst (expand_block fuel N cfg d maa opt sz tape)).
Proof. intros fuel N cfg d maa opt sz tape H. apply (block_SWF_all fuel N cfg d maa opt sz tape H). Qed.

(* every level that hands over a non-empty next level deals with a node (expands it, or hands on the
   successors of an already expanded one) that the call had not visited before; every visited node is
   expanded, and a well-formed diagram has at most max_nodes N nodes: the old bound still holds *)
Theorem expand_block_terminates : forall fuel N cfg d maa opt sz tape, SWF N d ->
  max_nodes N + 2 <= fuel -> snd (expand_block fuel N cfg d maa opt sz tape) <> RFuel.
Proof. intros fuel N cfg d maa opt sz tape H. apply (block_SWF_all fuel N cfg d maa opt sz tape H). Qed.

(* a generic instance: Q = SWF /\ P *)
Lemma block_transfer : forall N cfg opt (P : sd -> Prop),
  (forall d x, SWF N d -> P d -> x < size d -> n_exp (get d x) = false ->
     P (fst (expand_one N cfg d x))) ->
  (forall d i, SWF N d -> P d -> i < size d -> n_exp (get d i) = true -> P (set_empty_seeds d i)) ->
  (forall d x, opt = true -> SWF N d -> P d -> x < size d -> n_exp (get d x) = false ->
     sources_in_b N (n_space (get d x)) <> [] -> P (ff_step N d x)) ->
  forall fuel d maa sz tape, SWF N d -> P d -> P (fst (expand_block fuel N cfg d maa opt sz tape)).
Proof.
  intros N cfg opt P Hexp Hseeds Hff fuel d maa sz tape Hswf HP.
  assert (H : SWF N (fst (expand_block fuel N cfg d maa opt sz tape)) /\
              P (fst (expand_block fuel N cfg d maa opt sz tape))).
  { apply (BT_block N cfg opt (fun d0 => SWF N d0 /\ P d0)).
    - intros d0 [H _]. exact H.
    - intros d0 x [H1 H2] Hx Hex. split; [apply expand_one_SWF; assumption|apply Hexp; assumption].
    - intros d0 x d1 [H1 H2] Hx Hex E.
      assert (Hs1 : SWF N d1).
      { rewrite (expand_one_eq_fst _ _ _ _ _ _ E). apply expand_one_SWF; assumption. }
      split; [apply set_empty_seeds_SWF; exact Hs1|].
      apply Hseeds.
      + exact Hs1.
      + rewrite (expand_one_eq_fst _ _ _ _ _ _ E). apply Hexp; assumption.
      + pose proof (expand_one_extends N cfg d0 x) as He. rewrite E in He. eapply extends_lt; eauto.
      + eapply expand_one_exp; eauto.
    - intros d0 x Ho [H1 H2] Hx Hex Hsrc. split; [apply ff_step_SWF; assumption|apply Hff; assumption].
    - split; assumption. }
  exact (proj2 H).
Qed.

(* ================================================================== *)
(* 6. TrapNodes, EdgeStrict, NoStubEdges, Rooted                       *)
(* ================================================================== *)

Lemma TrapNodes_upd : forall N d i f, flag_setter f -> TrapNodes N d -> TrapNodes N (upd_node d i f).
Proof.
  intros N d i f Hf Ht. apply TrapNodes_spaces. rewrite spaces_upd_flag by exact Hf.
  apply TrapNodes_spaces. exact Ht.
Qed.

Lemma ff_step_TrapNodes : forall N d x, SWF N d -> TrapNodes N d -> x < size d ->
  TrapNodes N (ff_step N d x).
Proof.
  intros N d x Hswf Ht Hx. unfold ff_step.
  apply (ff_close_flag (TrapNodes N)); [intros d0 f Hf H0; apply TrapNodes_upd; assumption|].
  assert (H : SWF N (ensure_all N d x (ff_motifs N (n_space (get d x)))) /\
              x < size (ensure_all N d x (ff_motifs N (n_space (get d x)))) /\
              TrapNodes N (ensure_all N d x (ff_motifs N (n_space (get d x))))).
  { apply (C_ensure_all N x (fun d0 => SWF N d0 /\ x < size d0 /\ TrapNodes N d0)
             (fun m => length m = nvars N /\ trap_space N m)).
    - intros d0 m (H1 & H2 & H3) [Hm Htm].
      destruct (ensure_child_spec N d0 x m H1 Hm H2) as (S1 & S2 & _).
      split; [exact S1|]. split; [eapply extends_lt; eauto|].
      apply (proj1 (prim_closed_trap_TrapNodes N)); try assumption.
      intros p0 Heq. injection Heq as Heq. subst p0. exact H2.
    - split; [exact Hswf|]. split; assumption.
    - intros m Hin. split; [eapply ff_motifs_len; eauto|].
      eapply ff_motif_trap; [|exact Hin]. apply TrapNodes_get; assumption. }
  apply H.
Qed.

Theorem expand_block_TrapNodes : forall fuel N cfg d maa opt sz tape, SWF N d -> TrapNodes N d ->
  TrapNodes N (fst (expand_block fuel N cfg d maa opt sz tape)).
Proof.
  intros fuel N cfg d maa opt sz tape Hswf Ht.
  apply (block_transfer N cfg opt (TrapNodes N)); try assumption.
  - intros d0 x H1 H2 _ _.
    apply (expand_one_transfer_trap N (TrapNodes N) (prim_closed_trap_TrapNodes N)); assumption.
  - intros d0 i _ H2 _ _.
    apply (set_empty_seeds_flag (TrapNodes N)); [|exact H2].
    intros d1 f Hf H0. apply TrapNodes_upd; assumption.
  - intros d0 x _ H1 H2 Hx _ _. apply ff_step_TrapNodes; assumption.
Qed.

(* the source list is non-empty: every child space of the fast-forward is a strict subspace *)
Lemma ff_step_EdgeStrict : forall N d x, SWF N d -> EdgeStrict d -> x < size d ->
  n_exp (get d x) = false -> sources_in_b N (n_space (get d x)) <> [] ->
  EdgeStrict (ff_step N d x).
Proof.
  intros N d x Hswf He Hx Hex Hsrc. unfold ff_step.
  apply (ff_close_flag EdgeStrict); [intros d0 f Hf H0; apply EdgeStrict_upd; assumption|].
  assert (Hsp : length (n_space (get d x)) = nvars N).
  { apply (swf_len N d Hswf). apply get_In. exact Hx. }
  assert (H : ES_inv N x (n_space (get d x)) (ensure_all N d x (ff_motifs N (n_space (get d x))))).
  { apply (C_ensure_all N x (ES_inv N x (n_space (get d x))) (ES_guard N (n_space (get d x)))).
    - intros d0 m H0 Hg. apply ES_inv_child; assumption.
    - split; [exact Hswf|]. split; [exact Hx|]. split; [reflexivity|]. split; assumption.
    - intros m Hin. apply ff_motif_strict; assumption. }
  apply H.
Qed.

Theorem expand_block_EdgeStrict : forall fuel N cfg d maa opt sz tape, SWF N d -> TrapNodes N d ->
  EdgeStrict d -> EdgeStrict (fst (expand_block fuel N cfg d maa opt sz tape)).
Proof.
  intros fuel N cfg d maa opt sz tape Hswf _ He.
  apply (block_transfer N cfg opt EdgeStrict); try assumption.
  - intros d0 x H1 H2 _ _. apply expand_one_ES; assumption.
  - intros d0 i _ H2 _ _.
    apply (set_empty_seeds_flag EdgeStrict); [|exact H2].
    intros d1 f Hf H0. apply EdgeStrict_upd; assumption.
  - intros d0 x _ H1 H2 Hx Hex Hsrc. apply ff_step_EdgeStrict; assumption.
Qed.

Lemma ff_NSE_inv : forall N d x, SWF N d -> NoStubEdges d -> x < size d ->
  NSE_inv N x (ensure_all N d x (ff_motifs N (n_space (get d x)))).
Proof.
  intros N d x Hswf Hn Hx.
  apply (C_ensure_all N x (NSE_inv N x) (fun m => length m = nvars N)).
  - intros d0 m H0 Hm. apply NSE_inv_child; assumption.
  - split; [exact Hswf|]. split; [exact Hx|]. apply NSE_open. exact Hn.
  - intros m Hin. eapply ff_motifs_len; eauto.
Qed.

Lemma ff_step_NoStubEdges : forall N d x, SWF N d -> NoStubEdges d -> x < size d ->
  NoStubEdges (ff_step N d x).
Proof.
  intros N d x Hswf Hn Hx. unfold ff_step.
  apply (set_empty_seeds_flag NoStubEdges); [intros d0 f Hf H0; apply NoStubEdges_upd; assumption|].
  apply (clear_cands_flag NoStubEdges); [intros d0 f Hf H0; apply NoStubEdges_upd; assumption|].
  apply (NSE_inv_close N x _ (ff_NSE_inv N d x Hswf Hn Hx)).
Qed.

Theorem expand_block_NoStubEdges : forall fuel N cfg d maa opt sz tape, SWF N d -> NoStubEdges d ->
  NoStubEdges (fst (expand_block fuel N cfg d maa opt sz tape)).
Proof.
  intros fuel N cfg d maa opt sz tape Hswf Hn.
  apply (block_transfer N cfg opt NoStubEdges); try assumption.
  - intros d0 x H1 H2 _ _. apply expand_one_NSE; assumption.
  - intros d0 i _ H2 _ _.
    apply (set_empty_seeds_flag NoStubEdges); [|exact H2].
    intros d1 f Hf H0. apply NoStubEdges_upd; assumption.
  - intros d0 x _ H1 H2 Hx _ _. apply ff_step_NoStubEdges; assumption.
Qed.

Lemma ff_step_Rooted : forall N d x, SWF N d -> Rooted d -> x < size d -> Rooted (ff_step N d x).
Proof.
  intros N d x Hswf Hr Hx. unfold ff_step.
  apply (ff_close_flag Rooted); [intros d0 f _ H0; apply prim_Rooted_upd; exact H0|].
  apply (C_ensure_all N x Rooted (fun _ => True)).
  - intros d0 m H0 _. apply prim_Rooted_child. exact H0.
  - exact Hr.
  - auto.
Qed.

Theorem expand_block_Rooted : forall fuel N cfg d maa opt sz tape, SWF N d -> Rooted d ->
  Rooted (fst (expand_block fuel N cfg d maa opt sz tape)).
Proof.
  intros fuel N cfg d maa opt sz tape Hswf Hr.
  apply (block_transfer N cfg opt Rooted); try assumption.
  - intros d0 x H1 H2 _ _.
    assert (H : SWF N (fst (expand_one N cfg d0 x)) /\ Rooted (fst (expand_one N cfg d0 x))).
    { apply (TT_expand_one N (fun d1 => SWF N d1 /\ Rooted d1)).
      - intros d1 [K _]. exact K.
      - apply RI_child.
      - apply RI_upd.
      - split; assumption. }
    exact (proj2 H).
  - intros d0 i _ H2 _ _.
    apply (set_empty_seeds_flag Rooted); [|exact H2].
    intros d1 f _ H0. apply prim_Rooted_upd. exact H0.
  - intros d0 x _ H1 H2 Hx _ _. apply ff_step_Rooted; assumption.
Qed.

(* ================================================================== *)
(* 7. Faithful, without the source shortcut                            *)
(* ================================================================== *)

Lemma set_empty_seeds_Faithful : forall N d i, Faithful N d -> Faithful N (set_empty_seeds d i).
Proof.
  intros N d i H. rewrite set_empty_seeds_unfold. apply Faithful_On.
  apply FaithfulOn_upd_neutral; [constructor|reflexivity|reflexivity|].
  apply FaithfulOn_upd_neutral; [constructor|reflexivity|reflexivity|].
  apply Faithful_On. exact H.
Qed.

Theorem expand_block_Faithful : forall fuel N cfg d maa sz tape, 1 <= max_motifs cfg -> SWF N d ->
  NoStubEdges d -> Faithful N d -> Faithful N (fst (expand_block fuel N cfg d maa false sz tape)).
Proof.
  intros fuel N cfg d maa sz tape Hmm Hswf Hn Hf.
  assert (H : NoStubEdges (fst (expand_block fuel N cfg d maa false sz tape)) /\
              Faithful N (fst (expand_block fuel N cfg d maa false sz tape))).
  { apply (block_transfer N cfg false (fun d0 => NoStubEdges d0 /\ Faithful N d0)).
    - intros d0 x H1 [H2 H3] _ _.
      split; [apply expand_one_NSE; assumption|apply expand_one_Faithful; assumption].
    - intros d0 i _ [H2 H3] _ _. split; [|apply set_empty_seeds_Faithful; exact H3].
      apply (set_empty_seeds_flag NoStubEdges); [|exact H2].
      intros d1 f Hf0 H0. apply NoStubEdges_upd; assumption.
    - intros d0 x Hopt. discriminate Hopt.
    - exact Hswf.
    - split; assumption. }
  exact (proj2 H).
Qed.

(* ================================================================== *)
(* 8. CacheOK                                                          *)
(* ================================================================== *)

(* The fast-forward drops the candidates cached for the node while it was a stub (they carry
   the stub-time tag: no successors) and writes the seeds and sets caches against the new tag. *)

(* the tag of an unexpanded node does not depend on its out-edges *)
Lemma cur_tag_unexp : forall d d' j, n_exp (get d j) = false -> n_exp (get d' j) = false ->
  n_skip (get d' j) = n_skip (get d j) -> cur_tag d' j = cur_tag d j.
Proof. intros d d' j H1 H2 H3. unfold cur_tag. rewrite H1, H2, H3. reflexivity. Qed.

Lemma CacheOK_child_unexp : forall N d p m, n_exp (get d p) = false -> p < size d -> CacheOK d ->
  CacheOK (fst (ensure_node N d (Some p) m)).
Proof.
  intros N d p m Hex Hp Hc. apply (CacheOK_transfer d); [|exact Hc]. intros j Hj.
  destruct (lt_dec j (size d)) as [Hlt|Hge].
  - pose proof (ensure_node_old N d (Some p) m j Hlt) as Hold.
    right. split; [exact Hlt|]. split; [apply same_cache_mod_depth; exact Hold|].
    destruct Hold as (_ & He & Hs & _).
    destruct (Nat.eq_dec j p) as [Heq|Hne].
    + subst j. apply cur_tag_unexp; [exact Hex|rewrite He; exact Hex|exact Hs].
    + apply cur_tag_eq; [exact He|exact Hs|]. apply ensure_child_out_other. exact Hne.
  - left. apply ensure_node_new_cleared; [lia|exact Hj].
Qed.

(* while the stub p receives the fast-forward children *)
Definition FI (N : net) (p : nat) (d : sd) : Prop :=
  NSE_inv N p d /\ n_exp (get d p) = false /\ CacheOK d.

Lemma FI_child : forall N p d m, FI N p d -> length m = nvars N ->
  FI N p (fst (ensure_node N d (Some p) m)).
Proof.
  intros N p d m (H1 & H2 & H3) Hm. pose proof H1 as (_ & Hp & _).
  destruct (ensure_node_old N d (Some p) m p Hp) as (_ & He & _).
  split; [apply NSE_inv_child; assumption|]. split; [rewrite He; exact H2|].
  apply CacheOK_child_unexp; assumption.
Qed.

(* the node ends with no candidates and with seeds and sets tagged by the current tag *)
Lemma ff_close_CacheOK : forall d1 x, x < size d1 -> CacheOK d1 ->
  CacheOK (set_empty_seeds (clear_cands (upd_node d1 x (fun y => set_exp y true)) x) x).
Proof.
  intros d1 x Hx Hc. remember (upd_node d1 x (fun y => set_exp y true)) as d2 eqn:Ed2.
  assert (Hs2 : size d2 = size d1) by (subst d2; apply size_upd_node).
  rewrite set_empty_seeds_unfold, clear_cands_unfold. intros j Hj. rewrite !size_upd_node, Hs2 in Hj.
  unfold tag_ok. rewrite !cur_tag_upd_cache by constructor.
  destruct (Nat.eq_dec j x) as [Heq|Hne].
  - subst j. rewrite !get_upd_node_eq by (rewrite ?size_upd_node, Hs2; exact Hx). simpl. auto.
  - rewrite !get_upd_node_neq by lia. subst d2. rewrite get_upd_node_neq by lia.
    rewrite cur_tag_upd_other by exact Hne. apply Hc. exact Hj.
Qed.

Lemma ff_step_CacheOK : forall N d x, SWF N d -> NoStubEdges d -> CacheOK d -> x < size d ->
  n_exp (get d x) = false -> CacheOK (ff_step N d x).
Proof.
  intros N d x Hswf Hn Hc Hx Hex. unfold ff_step.
  assert (H : FI N x (ensure_all N d x (ff_motifs N (n_space (get d x))))).
  { apply (C_ensure_all N x (FI N x) (fun m => length m = nvars N)).
    - intros d0 m H0 Hm. apply FI_child; assumption.
    - split; [|split; [exact Hex|exact Hc]].
      split; [exact Hswf|]. split; [exact Hx|]. apply NSE_open. exact Hn.
    - intros m Hin. eapply ff_motifs_len; eauto. }
  destruct H as ((_ & Hx1 & _) & _ & Hc1). apply ff_close_CacheOK; assumption.
Qed.

Lemma set_empty_seeds_CacheOK : forall d i, i < size d -> CacheOK d -> CacheOK (set_empty_seeds d i).
Proof.
  intros d i Hi Hc. rewrite set_empty_seeds_unfold.
  apply CacheOK_set_sets; [rewrite size_upd_node; exact Hi|apply tag_ok_cur_upd; constructor|].
  apply CacheOK_set_seeds; [exact Hi|apply tag_ok_cur|exact Hc].
Qed.

(* D13: before fix 3581ec3 the source shortcut kept n_cands of the stub; see KNOWN_FINDINGS.jsonl *)
Theorem expand_block_CacheOK : forall fuel N cfg d maa opt sz tape, SWF N d -> NoStubEdges d ->
  CacheOK d -> CacheOK (fst (expand_block fuel N cfg d maa opt sz tape)).
Proof.
  intros fuel N cfg d maa opt sz tape Hswf Hn Hc.
  assert (H : NoStubEdges (fst (expand_block fuel N cfg d maa opt sz tape)) /\
              CacheOK (fst (expand_block fuel N cfg d maa opt sz tape))).
  { apply (block_transfer N cfg opt (fun d0 => NoStubEdges d0 /\ CacheOK d0)).
    - intros d0 x H1 (H2 & H3) _ _.
      destruct (expand_one_SNC N cfg d0 x (conj H1 (conj H2 H3))) as (_ & K2 & K3).
      split; assumption.
    - intros d0 i _ (H2 & H3) Hi _. split.
      + apply (set_empty_seeds_flag NoStubEdges); [|exact H2].
        intros d1 f Hf0 H0. apply NoStubEdges_upd; assumption.
      + apply set_empty_seeds_CacheOK; assumption.
    - intros d0 x _ H1 (H2 & H3) Hx Hex _. split.
      + apply ff_step_NoStubEdges; assumption.
      + apply ff_step_CacheOK; assumption.
    - exact Hswf.
    - split; assumption. }
  exact (proj2 H).
Qed.

Corollary expand_block_CacheOK_noopt : forall fuel N cfg d maa sz tape, SWF N d -> NoStubEdges d ->
  CacheOK d -> CacheOK (fst (expand_block fuel N cfg d maa false sz tape)).
Proof. intros fuel N cfg d maa sz tape. apply expand_block_CacheOK. Qed.

(* ================================================================== *)
(* 9. leaves stay minimal trap spaces                                  *)
(* ================================================================== *)

Lemma LE_inv_child : forall N p d m, LE_inv N p d -> length m = nvars N ->
  LE_inv N p (fst (ensure_node N d (Some p) m)).
Proof.
  intros N p d m [Hn Hl] Hm. split; [apply NSE_inv_child; assumption|].
  pose proof (ensure_child_out_other N d p m) as Hoo.
  pose proof (ensure_node_old N d (Some p) m) as Hold.
  pose proof (ensure_node_new N d (Some p) m) as Hnew.
  intros j Hne Hmin. apply is_minimal_iff in Hmin. destruct Hmin as [Ho He].
  rewrite (Hoo j Hne) in Ho.
  destruct (lt_dec j (size d)) as [Hjd|Hjd].
  - destruct (Hold j Hjd) as (E1 & E2 & _). rewrite E1. apply Hl; [exact Hne|].
    apply is_minimal_iff. split; [exact Ho|]. rewrite <- E2. exact He.
  - exfalso. destruct (lt_dec j (size (fst (ensure_node N d (Some p) m)))) as [Hj1|Hj1].
    + destruct (Hnew j) as [Hf _]; [lia|exact Hj1|]. congruence.
    + rewrite get_beyond in He by lia. discriminate He.
Qed.

Lemma set_empty_seeds_LeafOK : forall N d i, LeafOK N d -> LeafOK N (set_empty_seeds d i).
Proof.
  intros N d i H. rewrite set_empty_seeds_unfold.
  apply LeafOK_upd_neutral; [constructor|reflexivity|].
  apply LeafOK_upd_neutral; [constructor|reflexivity|exact H].
Qed.

(* a fast-forwarded node always has out-edges, every other node is left alone *)
Lemma ff_step_LeafOK : forall N d x, SWF N d -> NoStubEdges d -> LeafOK N d -> x < size d ->
  LeafOK N (ff_step N d x).
Proof.
  intros N d x Hswf Hn Hl Hx. unfold ff_step. apply set_empty_seeds_LeafOK.
  rewrite clear_cands_unfold. apply LeafOK_upd_neutral; [constructor|reflexivity|].
  assert (H : LE_inv N x (ensure_all N d x (ff_motifs N (n_space (get d x))))).
  { apply (C_ensure_all N x (LE_inv N x) (fun m => length m = nvars N)).
    - intros d0 m H0 Hm. apply LE_inv_child; assumption.
    - split; [split; [exact Hswf|split; [exact Hx|apply NSE_open; exact Hn]]|].
      intros j _ Hmin. apply Hl; [apply is_minimal_valid|]; exact Hmin.
    - intros m Hin. eapply ff_motifs_len; eauto. }
  pose proof (ensure_all_nonempty_out N _ d x (ff_motifs_nonempty N (n_space (get d x)))) as Hout.
  destruct H as [_ Hleaf].
  intros j _ Hmin. rewrite n_space_upd_flag by constructor.
  apply is_minimal_iff in Hmin. destruct Hmin as [Ho He].
  rewrite out_edges_upd_node in Ho.
  destruct (Nat.eq_dec j x) as [Heq|Hne]; [subst j; contradiction|].
  rewrite upd_flag_get_other in He by exact Hne.
  apply Hleaf; [exact Hne|]. apply is_minimal_iff. split; assumption.
Qed.

(* TrapNodes and NoStubEdges are all the strategy needs to keep LeafOK *)
Theorem expand_block_LeafOK_strong : forall fuel N cfg d maa opt sz tape, 1 <= max_motifs cfg ->
  SWF N d -> TrapNodes N d -> NoStubEdges d -> LeafOK N d ->
  LeafOK N (fst (expand_block fuel N cfg d maa opt sz tape)).
Proof.
  intros fuel N cfg d maa opt sz tape Hmm Hswf Ht Hn Hl.
  assert (H : TrapNodes N (fst (expand_block fuel N cfg d maa opt sz tape)) /\
              NoStubEdges (fst (expand_block fuel N cfg d maa opt sz tape)) /\
              LeafOK N (fst (expand_block fuel N cfg d maa opt sz tape))).
  { apply (block_transfer N cfg opt (fun d0 => TrapNodes N d0 /\ NoStubEdges d0 /\ LeafOK N d0)).
    - intros d0 x H1 (H2 & H3 & H4) _ _. split; [|split].
      + apply (expand_one_transfer_trap N (TrapNodes N) (prim_closed_trap_TrapNodes N)); assumption.
      + apply expand_one_NSE; assumption.
      + apply expand_one_LeafOK; assumption.
    - intros d0 i _ (H2 & H3 & H4) _ _. split; [|split].
      + apply (set_empty_seeds_flag (TrapNodes N)); [|exact H2].
        intros d1 f Hf H0. apply TrapNodes_upd; assumption.
      + apply (set_empty_seeds_flag NoStubEdges); [|exact H3].
        intros d1 f Hf H0. apply NoStubEdges_upd; assumption.
      + apply set_empty_seeds_LeafOK. exact H4.
    - intros d0 x _ H1 (H2 & H3 & H4) Hx _ _. split; [|split].
      + apply ff_step_TrapNodes; assumption.
      + apply ff_step_NoStubEdges; assumption.
      + apply ff_step_LeafOK; assumption.
    - exact Hswf.
    - split; [exact Ht|]. split; assumption. }
  apply H.
Qed.

Theorem expand_block_LeafOK : forall fuel N cfg d maa opt sz tape, 1 <= max_motifs cfg -> SWF N d ->
  TrapNodes N d -> NoStubEdges d -> EdgeStrict d -> Faithful N d ->
  n_space (get d 0) = percolate_b N (top_space (nvars N)) -> LeafOK N d ->
  (opt = true -> forall i, i < size d -> n_exp (get d i) = true -> n_skip (get d i) = false ->
     canonical N d i \/ out_edges d i <> []) ->
  LeafOK N (fst (expand_block fuel N cfg d maa opt sz tape)).
Proof.
  intros fuel N cfg d maa opt sz tape Hmm Hswf Ht Hn _ _ _ Hl _.
  apply expand_block_LeafOK_strong; assumption.
Qed.

(* ================================================================== *)
(* 10. what replaces Faithful under the source shortcut                *)
(* ================================================================== *)

(* fast-forwarded nodes are not canonical, but they always have out-edges *)
Definition CanonOrOut (N : net) (d : sd) : Prop :=
  forall i, i < size d -> n_exp (get d i) = true -> n_skip (get d i) = false ->
    canonical N d i \/ out_edges d i <> [].

Lemma Faithful_CanonOrOut : forall N d, Faithful N d -> CanonOrOut N d.
Proof. intros N d H i Hi He Hs. left. apply H; assumption. Qed.

Lemma CanonOrOut_grow : forall N d d' x, size d <= size d' ->
  (forall j, j < size d -> j <> x ->
     out_edges d' j = out_edges d j /\ n_space (get d' j) = n_space (get d j) /\
     n_exp (get d' j) = n_exp (get d j) /\ n_skip (get d' j) = n_skip (get d j)) ->
  (forall j, size d <= j -> j < size d' -> n_exp (get d' j) = false) ->
  (x < size d -> n_exp (get d' x) = true -> n_skip (get d' x) = false ->
     canonical N d' x \/ out_edges d' x <> []) ->
  CanonOrOut N d -> CanonOrOut N d'.
Proof.
  intros N d d' x Hsz Hold Hnew Hx H j Hj He Hs.
  destruct (lt_dec j (size d)) as [Hlt|Hge]; [|rewrite Hnew in He by lia; discriminate He].
  destruct (Nat.eq_dec j x) as [Heq|Hne]; [subst j; apply Hx; assumption|].
  destruct (Hold j Hlt Hne) as (A1 & A2 & A3 & A4). rewrite A3 in He. rewrite A4 in Hs.
  destruct (H j Hlt He Hs) as [Hc|Ho].
  - left. apply (canonical_same N d); assumption.
  - right. rewrite A1. exact Ho.
Qed.

Lemma get_set_empty_seeds_other : forall d i j, j <> i -> get (set_empty_seeds d i) j = get d j.
Proof. intros d i j Hne. rewrite set_empty_seeds_unfold, !get_upd_node_neq by lia. reflexivity. Qed.

Lemma CanonOrOut_neutral : forall N d d', size d' = size d -> sd_edges d' = sd_edges d ->
  (forall j, n_space (get d' j) = n_space (get d j) /\ n_exp (get d' j) = n_exp (get d j) /\
             n_skip (get d' j) = n_skip (get d j)) ->
  CanonOrOut N d -> CanonOrOut N d'.
Proof.
  intros N d d' Hsz Hed Hn H. apply (CanonOrOut_grow N d d' (size d)); [lia| | | |exact H].
  - intros j _ _. split; [apply out_edges_same_edges; exact Hed|apply Hn].
  - intros j H1 H2. lia.
  - intro H0. lia.
Qed.

Lemma set_empty_seeds_CanonOrOut : forall N d i, CanonOrOut N d -> CanonOrOut N (set_empty_seeds d i).
Proof.
  intros N d i H. apply (CanonOrOut_neutral N d); [apply size_set_empty_seeds|apply sd_edges_set_empty_seeds| |exact H].
  intro j. rewrite set_empty_seeds_unfold.
  destruct (get_upd_node_cases (upd_node d i (fun y => set_seeds y (Some (cur_tag d i)))) i j
              (fun y => set_sets y (Some (cur_tag d i)))) as [Hg|(_ & _ & Hg)]; rewrite Hg; simpl;
  destruct (get_upd_node_cases d i j (fun y => set_seeds y (Some (cur_tag d i)))) as [Hg2|(_ & _ & Hg2)];
    rewrite Hg2; simpl; auto.
Qed.

Lemma expand_one_CanonOrOut : forall N cfg d i, 1 <= max_motifs cfg -> SWF N d -> NoStubEdges d ->
  i < size d -> CanonOrOut N d -> CanonOrOut N (fst (expand_one N cfg d i)).
Proof.
  intros N cfg d i Hmm Hswf Hn Hi H.
  pose proof (expand_one_extends N cfg d i) as Hext.
  pose proof (expand_one_new_unexp N cfg d i) as Hnew.
  destruct (expand_one N cfg d i) as [d' r] eqn:E. simpl in Hext, Hnew |- *.
  pose proof (expand_one_canonical N cfg d i d' Hswf Hn Hi) as Hcan.
  destruct (expand_one_cases N cfg d i d' r E)
    as [(_ & A & _)|[(Hex & _ & _ & Hr)|[(_ & _ & _ & A & _)|(Hex & _ & _ & _ & Hr)]]].
  - subst d'. exact H.
  - subst r. destruct (Hcan Hex Hmm E) as (_ & _ & Hc & Hoth).
    apply (CanonOrOut_grow N d d' i); [apply extends_size; exact Hext| | | |exact H].
    + intros j Hj Hne. destruct (Hoth j Hj Hne) as (B1 & B2 & B3).
      split; [exact B1|]. split; [apply (extends_space d d' j Hext Hj)|]. split; assumption.
    + intros j Hj _. apply Hnew. exact Hj.
    + intros _ _ _. left. exact Hc.
  - subst d'. apply (CanonOrOut_neutral N d); [apply size_upd_node|apply sd_edges_upd_node| |exact H].
    intro j. destruct (get_upd_node_cases d i j clear_attr) as [Hg|(_ & _ & Hg)]; rewrite Hg; simpl; auto.
  - subst r. destruct (Hcan Hex Hmm E) as (_ & _ & Hc & Hoth).
    apply (CanonOrOut_grow N d d' i); [apply extends_size; exact Hext| | | |exact H].
    + intros j Hj Hne. destruct (Hoth j Hj Hne) as (B1 & B2 & B3).
      split; [exact B1|]. split; [apply (extends_space d d' j Hext Hj)|]. split; assumption.
    + intros j Hj _. apply Hnew. exact Hj.
    + intros _ _ _. left. exact Hc.
Qed.

Lemma ff_step_CanonOrOut : forall N d x, x < size d -> CanonOrOut N d -> CanonOrOut N (ff_step N d x).
Proof.
  intros N d x Hx H.
  pose proof (ensure_all_extends N (ff_motifs N (n_space (get d x))) d x) as Hext.
  apply (CanonOrOut_grow N d (ff_step N d x) x); [apply extends_size; apply ff_step_extends| | | |exact H].
  - intros j Hj Hne.
    rewrite (out_edges_same_edges (ensure_all N d x (ff_motifs N (n_space (get d x)))))
      by apply sd_edges_ff_step.
    unfold ff_step. rewrite get_set_empty_seeds_other, get_clear_cands_other by exact Hne.
    rewrite upd_flag_get_other by exact Hne.
    rewrite ensure_all_out_other by exact Hne.
    destruct (ensure_all_old N (ff_motifs N (n_space (get d x))) d x j Hj) as (A1 & A2 & A3 & _).
    auto.
  - intros j Hle Hlt. rewrite size_ff_step in Hlt. unfold ff_step.
    assert (Hne : j <> x) by lia.
    rewrite get_set_empty_seeds_other, get_clear_cands_other by exact Hne.
    rewrite upd_flag_get_other by exact Hne.
    apply (ensure_all_new N _ d x j Hle Hlt).
  - intros _ _ _. right.
    rewrite (out_edges_same_edges (ensure_all N d x (ff_motifs N (n_space (get d x)))))
      by apply sd_edges_ff_step.
    apply ensure_all_nonempty_out. apply ff_motifs_nonempty.
Qed.

Theorem expand_block_CanonOrOut : forall fuel N cfg d maa opt sz tape, 1 <= max_motifs cfg ->
  SWF N d -> NoStubEdges d -> CanonOrOut N d ->
  CanonOrOut N (fst (expand_block fuel N cfg d maa opt sz tape)).
Proof.
  intros fuel N cfg d maa opt sz tape Hmm Hswf Hn Hc.
  assert (H : NoStubEdges (fst (expand_block fuel N cfg d maa opt sz tape)) /\
              CanonOrOut N (fst (expand_block fuel N cfg d maa opt sz tape))).
  { apply (block_transfer N cfg opt (fun d0 => NoStubEdges d0 /\ CanonOrOut N d0)).
    - intros d0 x H1 [H2 H3] Hx _.
      split; [apply expand_one_NSE; assumption|apply expand_one_CanonOrOut; assumption].
    - intros d0 i _ [H2 H3] _ _. split; [|apply set_empty_seeds_CanonOrOut; exact H3].
      apply (set_empty_seeds_flag NoStubEdges); [|exact H2].
      intros d1 f Hf0 H0. apply NoStubEdges_upd; assumption.
    - intros d0 x _ H1 [H2 H3] Hx _ _.
      split; [apply ff_step_NoStubEdges; assumption|apply ff_step_CanonOrOut; assumption].
    - exact Hswf.
    - split; assumption. }
  exact (proj2 H).
Qed.

Print Assumptions expand_block_SWF.
Print Assumptions expand_block_CacheOK.
Print Assumptions expand_block_terminates.
Print Assumptions expand_block_Faithful.
Print Assumptions expand_block_LeafOK.
