(* NamesFacts.v -- facts about the model in theories/Names.v.
   sanitize_network_names is total, produces solver-safe pairwise distinct names, keeps valid names and the
   order of the variables (so the dynamics, which is indexed by position, is untouched); the clash loop needs at
   most one more round than there are variables; place names round-trip.  The test used before fix D16
   (`$` instead of fullmatch) let a name ending in a newline through. *)
From Coq Require Import List Bool Arith NArith Lia.
Import ListNotations.
From BB Require Import BN Names.
From Coq Require Import FinFun.
From BB Require Import SpaceFacts.

(* ------------------------------------------------------------------ *)
(* names: equality test, characters                                    *)
(* ------------------------------------------------------------------ *)

Theorem eqb_name_spec : forall a b, eqb_name a b = true <-> a = b.
Proof.
  induction a as [|x a IH]; intros [|y b]; simpl.
  - split; reflexivity.
  - split; discriminate.
  - split; discriminate.
  - rewrite andb_true_iff, N.eqb_eq, IH. split.
    + intros [H1 H2]. subst. reflexivity.
    + intros H. inversion H. split; reflexivity.
Qed.

Lemma NF_existsb_In : forall nm cur, existsb (eqb_name nm) cur = true <-> In nm cur.
Proof.
  intros nm cur. rewrite existsb_exists. split.
  - intros [x [Hin He]]. apply eqb_name_spec in He. subst. exact Hin.
  - intros Hin. exists nm. split; [exact Hin|]. apply eqb_name_spec. reflexivity.
Qed.

Lemma NF_existsb_notIn : forall nm cur, existsb (eqb_name nm) cur = false <-> ~ In nm cur.
Proof.
  intros nm cur. rewrite <- NF_existsb_In. destruct (existsb (eqb_name nm) cur); split; intro H.
  - discriminate.
  - exfalso. apply H. reflexivity.
  - discriminate.
  - reflexivity.
Qed.

Lemma NF_In_dec : forall (nm : name) cur, In nm cur \/ ~ In nm cur.
Proof.
  intros nm cur. destruct (existsb (eqb_name nm) cur) eqn:E.
  - left. apply NF_existsb_In. exact E.
  - right. apply NF_existsb_notIn. exact E.
Qed.

Lemma NF_valid_char_95 : valid_char 95%N = true.
Proof. reflexivity. Qed.

Lemma NF_valid_name_iff : forall s, valid_name s = true <-> s <> [] /\ forallb valid_char s = true.
Proof.
  intros [|c s].
  - simpl. split; [discriminate|]. intros [H _]. exfalso. apply H. reflexivity.
  - unfold valid_name. split.
    + intros H. split; [discriminate|exact H].
    + intros [_ H]. exact H.
Qed.

Lemma NF_subst_char_valid : forall c, valid_char (if valid_char c then c else 95%N) = true.
Proof. intros c. destruct (valid_char c) eqn:E; [exact E|reflexivity]. Qed.

Lemma NF_subst_forallb : forall s, forallb valid_char (subst_name s) = true.
Proof.
  induction s as [|c s IH]; simpl; [reflexivity|].
  rewrite NF_subst_char_valid, IH. reflexivity.
Qed.

Theorem subst_name_valid : forall s, s <> [] -> valid_name (subst_name s) = true.
Proof.
  intros s Hs. apply NF_valid_name_iff. split.
  - destruct s; [exfalso; apply Hs; reflexivity|]. simpl. discriminate.
  - apply NF_subst_forallb.
Qed.

Lemma NF_subst_id_forallb : forall s, forallb valid_char s = true -> subst_name s = s.
Proof.
  induction s as [|c s IH]; simpl; [reflexivity|].
  intros H. apply andb_true_iff in H. destruct H as [Hc Hs].
  rewrite Hc, (IH Hs). reflexivity.
Qed.

Theorem subst_name_id : forall s, valid_name s = true -> subst_name s = s.
Proof.
  intros s H. apply NF_valid_name_iff in H. destruct H as [_ H].
  apply NF_subst_id_forallb. exact H.
Qed.

(* ------------------------------------------------------------------ *)
(* the clash loop                                                      *)
(* ------------------------------------------------------------------ *)

Definition us (k : nat) (nm : name) : name := repeat 95%N k ++ nm.

Lemma NF_us_shift : forall k nm, us k (95%N :: nm) = us (S k) nm.
Proof.
  unfold us. induction k as [|k IH]; intros nm; simpl; [reflexivity|].
  rewrite IH. reflexivity.
Qed.

Lemma NF_us_length : forall k nm, length (us k nm) = k + length nm.
Proof. intros. unfold us. rewrite app_length, repeat_length. reflexivity. Qed.

Lemma NF_us_inj : forall nm, Injective (fun k => us k nm).
Proof.
  intros nm j k H. apply (f_equal (@length N)) in H. rewrite !NF_us_length in H. lia.
Qed.

Lemma NF_fresh_first : forall k cur nm fuel,
  ~ In (us k nm) cur -> (forall j, j < k -> In (us j nm) cur) -> k < fuel ->
  fresh fuel cur nm = Some (us k nm).
Proof.
  induction k as [|k IH]; intros cur nm fuel Hn Hall Hlt.
  - destruct fuel as [|f]; [lia|]. simpl.
    apply NF_existsb_notIn in Hn. unfold us in Hn. simpl in Hn. rewrite Hn. reflexivity.
  - destruct fuel as [|f]; [lia|]. simpl.
    assert (H0 : In nm cur) by (apply (Hall 0); lia).
    apply NF_existsb_In in H0. rewrite H0.
    rewrite <- NF_us_shift. apply IH.
    + rewrite NF_us_shift. exact Hn.
    + intros j Hj. rewrite NF_us_shift. apply Hall. lia.
    + lia.
Qed.

Lemma NF_least : forall (P : nat -> Prop), (forall k, P k \/ ~ P k) ->
  forall n, (forall j, j < n -> P j) \/ (exists k, k < n /\ ~ P k /\ forall j, j < k -> P j).
Proof.
  intros P Hdec. induction n as [|n IH].
  - left. intros j Hj. lia.
  - destruct IH as [Hall|[k [Hk [Hnk Hlow]]]].
    + destruct (Hdec n) as [Hp|Hnp].
      * left. intros j Hj. destruct (Nat.eq_dec j n) as [->|Hne]; [exact Hp|]. apply Hall. lia.
      * right. exists n. split; [lia|]. split; [exact Hnp|exact Hall].
    + right. exists k. split; [lia|]. split; assumption.
Qed.

Lemma NF_pigeon : forall (cur : list name) nm,
  ~ (forall j, j < S (length cur) -> In (us j nm) cur).
Proof.
  intros cur nm Hall.
  assert (Hnd : NoDup (map (fun k => us k nm) (seq 0 (S (length cur))))).
  { apply Injective_map_NoDup; [apply NF_us_inj|apply seq_NoDup]. }
  assert (Hincl : incl (map (fun k => us k nm) (seq 0 (S (length cur)))) cur).
  { intros x Hx. apply in_map_iff in Hx. destruct Hx as [k [<- Hk]].
    apply in_seq in Hk. apply Hall. lia. }
  pose proof (NoDup_incl_length Hnd Hincl) as Hlen.
  rewrite map_length, seq_length in Hlen. lia.
Qed.

Lemma NF_fresh_us : forall cur nm, exists k,
  fresh (S (length cur)) cur nm = Some (us k nm) /\ k <= length cur /\
  ~ In (us k nm) cur /\ (forall j, j < k -> In (us j nm) cur).
Proof.
  intros cur nm.
  destruct (NF_least (fun k => In (us k nm) cur) (fun k => NF_In_dec (us k nm) cur) (S (length cur)))
    as [Hall|[k [Hk [Hnk Hlow]]]].
  - exfalso. exact (NF_pigeon cur nm Hall).
  - exists k. split; [|split; [lia|split; assumption]].
    apply NF_fresh_first; assumption.
Qed.

(* the clash loop: S (length cur) rounds always suffice, the result is new, and it is the candidate with the
   fewest underscores in front *)
Theorem fresh_total : forall cur nm, exists k,
  fresh (S (length cur)) cur nm = Some (repeat 95%N k ++ nm) /\ k <= length cur /\
  ~ In (repeat 95%N k ++ nm) cur /\ (forall j, j < k -> In (repeat 95%N j ++ nm) cur).
Proof. exact NF_fresh_us. Qed.

(* ------------------------------------------------------------------ *)
(* one step of the renaming loop                                       *)
(* ------------------------------------------------------------------ *)

Lemma NF_us_forallb : forall k s, forallb valid_char s = true -> forallb valid_char (us k s) = true.
Proof.
  intros k s Hs. unfold us. rewrite forallb_app, Hs, andb_true_r.
  induction k as [|k IH]; simpl; [reflexivity|exact IH].
Qed.

Lemma NF_In_set_nth : forall (A : Type) i (x y : A) l, In y (set_nth i x l) -> y = x \/ In y l.
Proof.
  intros A i x y l. revert i. induction l as [|h t IH]; intros [|i] H; simpl in *; try tauto.
  - destruct H as [H|H]; [left; symmetry; exact H|right; right; exact H].
  - destruct H as [H|H]; [right; left; exact H|].
    destruct (IH i H) as [E|E]; [left; exact E|right; right; exact E].
Qed.

Lemma NF_NoDup_set_nth : forall (A : Type) i (x : A) l, NoDup l -> ~ In x l -> NoDup (set_nth i x l).
Proof.
  intros A i x l. revert i. induction l as [|h t IH]; intros [|i] Hnd Hn; simpl.
  - constructor.
  - constructor.
  - inversion Hnd; subst. constructor; [|assumption]. intro H. apply Hn. right. exact H.
  - inversion Hnd as [|h' t' Hh Ht]; subst. constructor.
    + intro H. apply NF_In_set_nth in H. destruct H as [H|H].
      * apply Hn. left. exact H.
      * exact (Hh H).
    + apply IH; [exact Ht|]. intro H. apply Hn. right. exact H.
Qed.

Lemma NF_one_total : forall cur i, exists cur', sanitize_one valid_name cur i = Some cur'.
Proof.
  intros cur i. unfold sanitize_one.
  destruct (valid_name (nth i cur [])); [eexists; reflexivity|].
  destruct (NF_fresh_us cur (subst_name (nth i cur []))) as [k [Hk _]].
  rewrite Hk. eexists. reflexivity.
Qed.

Lemma NF_one_length : forall valid cur i cur', sanitize_one valid cur i = Some cur' -> length cur' = length cur.
Proof.
  intros valid cur i cur'. unfold sanitize_one.
  destruct (valid (nth i cur [])); [intros H; inversion H; reflexivity|].
  destruct (fresh (S (length cur)) cur (subst_name (nth i cur []))); [|discriminate].
  intros H. inversion H. apply set_nth_length.
Qed.

Lemma NF_one_valid_case : forall cur i cur', sanitize_one valid_name cur i = Some cur' ->
  valid_name (nth i cur []) = true -> cur' = cur.
Proof.
  intros cur i cur'. unfold sanitize_one. intros H Hv. rewrite Hv in H. inversion H. reflexivity.
Qed.

Lemma NF_one_invalid_case : forall cur i cur', sanitize_one valid_name cur i = Some cur' ->
  i < length cur -> valid_name (nth i cur []) = false ->
  exists k, cur' = set_nth i (us k (subst_name (nth i cur []))) cur /\
            ~ In (us k (subst_name (nth i cur []))) cur /\
            valid_name (us k (subst_name (nth i cur []))) = true.
Proof.
  intros cur i cur'. unfold sanitize_one. intros H Hi Hv. rewrite Hv in H.
  destruct (NF_fresh_us cur (subst_name (nth i cur []))) as [k [Hk [_ [Hn _]]]].
  rewrite Hk in H. inversion H. exists k. split; [reflexivity|]. split; [exact Hn|].
  apply NF_valid_name_iff. split.
  - destruct (nth i cur []) as [|c s] eqn:E.
    + destruct k as [|k].
      * exfalso. apply Hn. unfold us. simpl. rewrite <- E. apply nth_In. exact Hi.
      * unfold us. simpl. discriminate.
    + unfold us. simpl. destruct (repeat 95%N k); simpl; discriminate.
  - apply NF_us_forallb. apply NF_subst_forallb.
Qed.

(* ------------------------------------------------------------------ *)
(* the loop                                                            *)
(* ------------------------------------------------------------------ *)

Lemma NF_from_total : forall k i cur, exists out, sanitize_from valid_name k i cur = Some out.
Proof.
  induction k as [|k IH]; intros i cur; simpl.
  - eexists. reflexivity.
  - destruct (NF_one_total cur i) as [cur' H]. rewrite H. apply IH.
Qed.

Theorem sanitize_total : forall names, exists out, sanitize names = Some out.
Proof. intros names. unfold sanitize, sanitize_with. apply NF_from_total. Qed.

Lemma NF_from_length : forall valid k i cur out, sanitize_from valid k i cur = Some out -> length out = length cur.
Proof.
  intros valid. induction k as [|k IH]; intros i cur out; simpl.
  - intros H. inversion H. reflexivity.
  - destruct (sanitize_one valid cur i) as [cur'|] eqn:E; [|discriminate].
    intros H. rewrite (IH _ _ _ H). apply (NF_one_length _ _ _ _ E).
Qed.

Theorem sanitize_length : forall names out, sanitize names = Some out -> length out = length names.
Proof. intros names out. unfold sanitize, sanitize_with. apply NF_from_length. Qed.

(* the combined invariant of the loop *)
Lemma NF_from_inv : forall k i cur out, sanitize_from valid_name k i cur = Some out -> i + k = length cur ->
  (forall j, j < i -> nth j out [] = nth j cur []) /\
  (forall j, i <= j -> j < length cur ->
     valid_name (nth j out []) = true /\
     (valid_name (nth j cur []) = true -> nth j out [] = nth j cur []) /\
     (valid_name (nth j cur []) = false -> exists m, nth j out [] = us m (subst_name (nth j cur [])))) /\
  (NoDup cur -> NoDup out).
Proof.
  induction k as [|k IH]; intros i cur out; simpl.
  - intros H Hlen. inversion H; subst out. split; [reflexivity|]. split; [|tauto].
    intros j H1 H2. lia.
  - destruct (sanitize_one valid_name cur i) as [cur'|] eqn:E; [|discriminate].
    intros H Hlen.
    pose proof (NF_one_length _ _ _ _ E) as Hl'.
    assert (Hlen' : S i + k = length cur') by lia.
    destruct (IH _ _ _ H Hlen') as [Hlow [Hhigh Hnd]].
    assert (Hi : i < length cur) by lia.
    destruct (valid_name (nth i cur [])) eqn:Hv.
    + (* nothing renamed *)
      pose proof (NF_one_valid_case _ _ _ E Hv) as ->.
      split; [intros j Hj; apply Hlow; lia|]. split; [|exact Hnd].
      intros j H1 H2. destruct (Nat.eq_dec j i) as [->|Hne].
      * rewrite (Hlow i) by lia. split; [exact Hv|]. split; [reflexivity|].
        intros F. rewrite Hv in F. discriminate.
      * apply Hhigh; lia.
    + destruct (NF_one_invalid_case _ _ _ E Hi Hv) as [m [Hc [Hnin Hval]]].
      assert (Hnth_i : nth i cur' [] = us m (subst_name (nth i cur []))).
      { rewrite Hc. apply nth_set_nth_eq. exact Hi. }
      assert (Hnth_o : forall j, j <> i -> nth j cur' [] = nth j cur []).
      { intros j Hj. rewrite Hc. apply nth_set_nth_neq. intro F. apply Hj. symmetry. exact F. }
      split; [intros j Hj; rewrite (Hlow j) by lia; apply Hnth_o; lia|]. split.
      * intros j H1 H2. destruct (Nat.eq_dec j i) as [->|Hne].
        -- rewrite (Hlow i) by lia. rewrite Hnth_i. split; [exact Hval|]. split.
           ++ intros F. rewrite Hv in F. discriminate.
           ++ intros _. exists m. reflexivity.
        -- rewrite <- (Hnth_o j Hne). apply Hhigh; lia.
      * intros Hndc. apply Hnd. rewrite Hc. apply NF_NoDup_set_nth; assumption.
Qed.

Lemma NF_sanitize_inv : forall names out, sanitize names = Some out ->
  (forall j, j < length names ->
     valid_name (nth j out []) = true /\
     (valid_name (nth j names []) = true -> nth j out [] = nth j names []) /\
     (valid_name (nth j names []) = false -> exists m, nth j out [] = us m (subst_name (nth j names [])))) /\
  (NoDup names -> NoDup out).
Proof.
  intros names out H. unfold sanitize, sanitize_with in H.
  destruct (NF_from_inv _ _ _ _ H (eq_refl _)) as [_ [Hhigh Hnd]].
  split; [|exact Hnd]. intros j Hj. apply Hhigh; lia.
Qed.

Theorem sanitize_valid : forall names out, sanitize names = Some out ->
  forall s, In s out -> valid_name s = true.
Proof.
  intros names out H s Hin.
  destruct (In_nth _ _ [] Hin) as [j [Hj <-]].
  assert (Hj' : j < length names) by (rewrite <- (sanitize_length _ _ H); exact Hj).
  destruct (NF_sanitize_inv _ _ H) as [Hall _]. apply (Hall j Hj').
Qed.

Theorem sanitize_distinct : forall names out, NoDup names -> sanitize names = Some out -> NoDup out.
Proof. intros names out Hnd H. destruct (NF_sanitize_inv _ _ H) as [_ Hn]. exact (Hn Hnd). Qed.

Theorem sanitize_keeps_valid : forall names out i, sanitize names = Some out -> i < length names ->
  valid_name (nth i names []) = true -> nth i out [] = nth i names [].
Proof.
  intros names out i H Hi Hv. destruct (NF_sanitize_inv _ _ H) as [Hall _].
  destruct (Hall i Hi) as [_ [Hk _]]. exact (Hk Hv).
Qed.

Theorem sanitize_renamed_shape : forall names out i, sanitize names = Some out -> i < length names ->
  valid_name (nth i names []) = false ->
  exists k, nth i out [] = repeat 95%N k ++ subst_name (nth i names []).
Proof.
  intros names out i H Hi Hv. destruct (NF_sanitize_inv _ _ H) as [Hall _].
  destruct (Hall i Hi) as [_ [_ Hk]]. exact (Hk Hv).
Qed.

Lemma NF_from_all_valid : forall k i cur, (forall s, In s cur -> valid_name s = true) ->
  i + k = length cur -> sanitize_from valid_name k i cur = Some cur.
Proof.
  induction k as [|k IH]; intros i cur Hall Hlen; simpl; [reflexivity|].
  unfold sanitize_one. rewrite (Hall (nth i cur [])) by (apply nth_In; lia).
  apply IH; [exact Hall|lia].
Qed.

Lemma NF_sanitize_all_valid : forall names, (forall s, In s names -> valid_name s = true) ->
  sanitize names = Some names.
Proof.
  intros names Hall. unfold sanitize, sanitize_with. apply NF_from_all_valid; [exact Hall|reflexivity].
Qed.

Theorem sanitize_idempotent : forall names out, sanitize names = Some out -> sanitize out = Some out.
Proof.
  intros names out H. apply NF_sanitize_all_valid. exact (sanitize_valid _ _ H).
Qed.

Theorem check_only_spec : forall names, check_only_ok names = true <-> sanitize names = Some names /\ (forall s, In s names -> valid_name s = true).
Proof.
  intros names. unfold check_only_ok. rewrite forallb_forall. split.
  - intros H. split; [apply NF_sanitize_all_valid; exact H|exact H].
  - intros [_ H]. exact H.
Qed.

(* ------------------------------------------------------------------ *)
(* place names                                                         *)
(* ------------------------------------------------------------------ *)

Theorem place_round_trip : forall v b, place_to_variable (place_name v b) = Some (v, b).
Proof. intros v [|]; reflexivity. Qed.

Theorem place_name_inj : forall v b w c, place_name v b = place_name w c -> v = w /\ b = c.
Proof.
  intros v b w c H. apply (f_equal place_to_variable) in H.
  rewrite !place_round_trip in H. inversion H. split; reflexivity.
Qed.

Theorem place_name_valid : forall v b, valid_name v = true -> valid_name (place_name v b) = true.
Proof.
  intros v b H. apply NF_valid_name_iff in H. destruct H as [_ H].
  apply NF_valid_name_iff. split.
  - destruct b; simpl; discriminate.
  - unfold place_name. rewrite forallb_app, H. destruct b; reflexivity.
Qed.

(* D16: with the `$` test a name ending in a newline is accepted unchanged although it is not solver-safe *)
Theorem dollar_test_unsafe : exists names out s,
  NoDup names /\ sanitize_with valid_name_dollar names = Some out /\ In s out /\ valid_name s = false.
Proof.
  exists [[97%N; 10%N]], [[97%N; 10%N]], [97%N; 10%N].
  split; [constructor; [intros []|constructor]|].
  split; [reflexivity|]. split; [left; reflexivity|reflexivity].
Qed.

Print Assumptions eqb_name_spec.
Print Assumptions subst_name_valid.
Print Assumptions subst_name_id.
Print Assumptions fresh_total.
Print Assumptions sanitize_total.
Print Assumptions sanitize_length.
Print Assumptions sanitize_valid.
Print Assumptions sanitize_distinct.
Print Assumptions sanitize_keeps_valid.
Print Assumptions sanitize_renamed_shape.
Print Assumptions sanitize_idempotent.
Print Assumptions check_only_spec.
Print Assumptions place_round_trip.
Print Assumptions place_name_inj.
Print Assumptions place_name_valid.
Print Assumptions dollar_test_unsafe.
