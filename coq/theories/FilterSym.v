(* FilterSym.v
   compute_attractors_symbolic with the REAL reachability procedure: the candidate filter of Filter.v where the
   contract-level attractor_test is replaced by the model of symbolic_attractor_test (SymbolicTest.symbolic_test,
   interleaved forward / backward saturation, with its heuristic tapes).  For every tape and enough fuel it returns
   the same seeds, in the same order, and the same sets (as sets of states) as Filter.compute_attractors_filter,
   so filter_exact applies to it: the composition C01 / C12 rely on. *)
From Coq Require Import List Bool Arith NArith Lia.
Import ListNotations.
From BB Require Import BN Brute SpaceFacts TrapFacts AttractorFacts Filter FilterFacts SymbolicTest SymbolicTestFacts.

(* the explicit avoid set handed to symbolic_attractor_test: states of the child motifs and the explicit states *)
Definition avoid_states (a : avoid_set) : list state :=
  dedup (flat_map states_of (av_spaces a) ++ av_states a).

(* one tape entry per tested candidate: (outcomes of the "avoid is larger" comparison, variable orders) *)
Definition sym_tape : Type := list (list bool * list (list nat)).

Fixpoint filter_loop_sym (fuel : nat) (N : net) (S : space) (seeds_only minimal : bool) (a : avoid_set)
         (cands : list state) (seeds : list state) (sets : list (list state)) (tapes : sym_tape)
  : option (list state * option (list (list state))) :=
  match cands with
  | [] => Some (rev seeds, Some (rev sets))
  | c :: rest =>
      if seeds_only && minimal && (match rest with [] => true | _ => false end)
         && (match seeds with [] => true | _ => false end)
      then Some ([c], None)
      else
        let a1 := {| av_spaces := av_spaces a; av_states := remove_state c (av_states a) |} in
        let tp := hd ([], []) tapes in
        match symbolic_test fuel N S c (avoid_states a1) (fst tp) (snd tp) with
        | TNone => filter_loop_sym fuel N S seeds_only minimal a1 rest seeds sets (tl tapes)
        | TSome cl =>
            filter_loop_sym fuel N S seeds_only minimal
                            {| av_spaces := av_spaces a1; av_states := cl ++ av_states a1 |}
                            rest (c :: seeds) (cl :: sets) (tl tapes)
        | TFuel => None
        end
  end.

Definition compute_attractors_sym (fuel : nat) (N : net) (S : space) (seeds_only : bool) (motifs : list space)
           (cands : list state) (tapes : sym_tape) : option (list state * option (list (list state))) :=
  filter_loop_sym fuel N S seeds_only (match motifs with [] => true | _ => false end)
                  {| av_spaces := motifs; av_states := cands |} cands [] [] tapes.

Definition same_members (X Y : list state) : Prop := forall t, In t X <-> In t Y.
Definition same_sets (a b : option (list (list state))) : Prop :=
  match a, b with
  | None, None => True
  | Some l, Some l' => Forall2 same_members l l'
  | _, _ => False
  end.

(* ------------------------------------------------------------------ *)
(* auxiliary lemmas                                                     *)
(* ------------------------------------------------------------------ *)

Local Arguments symbolic_test : simpl never.
Local Arguments attractor_test : simpl never.
Local Arguments avoid_states : simpl never.
Local Arguments remove_state : simpl never.
Local Arguments in_avoid : simpl never.
Local Arguments symbolic_test_fuel : simpl never.

Lemma FS_avoid_states_spec : forall a t, In t (avoid_states a) <-> in_avoid a t = true.
Proof.
  intros a t. unfold avoid_states. rewrite ST_dedup_In, in_app_iff, in_flat_map. split.
  - intros [[M [HM Ht]]|Ht].
    + apply (in_avoid_space a t M HM). apply states_of_spec. exact Ht.
    + apply in_avoid_state. exact Ht.
  - intros H. destruct (in_avoid_inv a t H) as [[M [HM Ht]]|Ht].
    + left. exists M. split; [exact HM|]. apply states_of_spec. exact Ht.
    + right. exact Ht.
Qed.

Lemma FS_avoid_states_NoDup : forall a, NoDup (avoid_states a).
Proof. intros a. unfold avoid_states. apply ST_dedup_NoDup. Qed.

Lemma FS_mem_state_same : forall X Y t, same_members X Y -> mem_state t X = mem_state t Y.
Proof.
  intros X Y t H. destruct (mem_state t X) eqn:E1; destruct (mem_state t Y) eqn:E2; try reflexivity.
  - apply A_mem_state_In in E1. apply H in E1. apply A_mem_state_In in E1. congruence.
  - apply A_mem_state_In in E2. apply H in E2. apply A_mem_state_In in E2. congruence.
Qed.

Lemma FS_in_avoid_same : forall a b t,
  av_spaces a = av_spaces b -> same_members (av_states a) (av_states b) -> in_avoid a t = in_avoid b t.
Proof.
  intros a b t Hsp Hst. unfold in_avoid. rewrite Hsp. f_equal. apply FS_mem_state_same. exact Hst.
Qed.

Lemma FS_remove_same : forall c X Y, same_members X Y -> same_members (remove_state c X) (remove_state c Y).
Proof.
  intros c X Y H t. rewrite !remove_state_spec. rewrite (H t). tauto.
Qed.

Lemma FS_app_same : forall X X' Y Y', same_members X X' -> same_members Y Y' -> same_members (X ++ Y) (X' ++ Y').
Proof.
  intros X X' Y Y' H1 H2 t. rewrite !in_app_iff. rewrite (H1 t), (H2 t). tauto.
Qed.

Section FS.

Variable N : net.
Variable S : space.
Hypothesis Htrap : trap_space N S.

(* the symbolic avoid set stays inside the node space *)
Definition av_ok (a : avoid_set) : Prop :=
  (forall M, In M (av_spaces a) -> subspace M S = true) /\
  (forall t, In t (av_states a) -> in_space t S = true).

Lemma FS_avoid_in_S : forall a, av_ok a -> forall t, In t (avoid_states a) -> in_space t S = true.
Proof.
  intros a [Hsp Hst] t Ht. apply FS_avoid_states_spec in Ht.
  destruct (in_avoid_inv a t Ht) as [[M [HM HtM]]|Hs].
  - pose proof (Hsp M HM) as Hsub.
    apply (proj1 (subspace_spec M S (subspace_length M S Hsub)) Hsub t HtM).
  - apply Hst. exact Hs.
Qed.

Lemma FS_av_ok_remove : forall a c, av_ok a ->
  av_ok {| av_spaces := av_spaces a; av_states := remove_state c (av_states a) |}.
Proof.
  intros a c [Hsp Hst]. split; simpl.
  - exact Hsp.
  - intros t Ht. apply remove_state_spec in Ht. apply Hst. exact (proj1 Ht).
Qed.

Lemma FS_av_ok_add : forall a c R, av_ok a -> in_space c S = true ->
  (forall t, In t R -> reach N c t) ->
  av_ok {| av_spaces := av_spaces a; av_states := R ++ av_states a |}.
Proof.
  intros a c R [Hsp Hst] Hc HR. split; simpl.
  - exact Hsp.
  - intros t Ht. apply in_app_iff in Ht. destruct Ht as [Ht|Ht].
    + apply (Sym_reach_in N S Htrap c t Hc). apply HR. exact Ht.
    + apply Hst. exact Ht.
Qed.

(* the two tests take the same branch *)
Lemma FS_sym_vs_test : forall fuel c a avoid bools orders,
  in_space c S = true ->
  (forall t, In t avoid -> in_space t S = true) ->
  (forall t, In t avoid <-> in_avoid a t = true) ->
  match symbolic_test fuel N S c avoid bools orders with
  | TNone => attractor_test N c a = None
  | TSome R => attractor_test N c a = Some (reach_list N c) /\ same_members R (reach_list N c) /\
               (forall t, In t R -> reach N c t)
  | TFuel => True
  end.
Proof.
  intros fuel c a avoid bools orders Hc HinS Hav.
  assert (Hwf : wf_state N c).
  { apply (in_space_wf N c S (trap_space_length N S Htrap) Hc). }
  destruct (symbolic_test fuel N S c avoid bools orders) as [|R|] eqn:E; [| |exact I].
  - destruct (symbolic_test_none _ _ _ _ _ _ _ Htrap Hc HinS E) as [t [Hr Ht]].
    unfold attractor_test.
    assert (Hb : existsb (in_avoid a) (reach_list N c) = true).
    { apply existsb_exists. exists t. split; [apply reach_list_complete; assumption|].
      apply Hav. exact Ht. }
    rewrite Hb. reflexivity.
  - destruct (symbolic_test_some _ _ _ _ _ _ _ _ Htrap Hc HinS E) as [HR Hno].
    unfold attractor_test.
    assert (Hb : existsb (in_avoid a) (reach_list N c) = false).
    { destruct (existsb (in_avoid a) (reach_list N c)) eqn:Eb; [|reflexivity]. exfalso.
      apply existsb_exists in Eb. destruct Eb as [x [Hx Hax]].
      apply reach_list_sound in Hx.
      apply (Hno x); [apply HR; exact Hx|]. apply Hav. exact Hax. }
    rewrite Hb. split; [reflexivity|]. split.
    + intros t. rewrite HR. symmetry. apply A_reach_list_spec. exact Hwf.
    + intros t Ht. apply HR. exact Ht.
Qed.

Lemma FS_loop_agrees : forall so mi cands fuel a a' seeds sets sets' tapes sds osets,
  av_spaces a = av_spaces a' -> same_members (av_states a) (av_states a') -> av_ok a' ->
  (forall c, In c cands -> in_space c S = true) ->
  Forall2 same_members sets' sets ->
  filter_loop_sym fuel N S so mi a' cands seeds sets' tapes = Some (sds, osets) ->
  sds = fst (filter_loop N so mi a cands seeds sets) /\
  same_sets osets (snd (filter_loop N so mi a cands seeds sets)).
Proof.
  intros so mi cands. induction cands as [|c rest IH];
    intros fuel a a' seeds sets sets' tapes sds osets Hsp Hst Hok HinS Hsets H.
  - simpl in H. injection H as H1 H2. subst sds osets. simpl. split; [reflexivity|].
    apply F_Forall2_rev. exact Hsets.
  - simpl in H. simpl.
    destruct (so && mi && match rest with [] => true | _ :: _ => false end
              && match seeds with [] => true | _ :: _ => false end) eqn:Esc.
    + injection H as H1 H2. subst sds osets. simpl. split; [reflexivity|exact I].
    + assert (Hc : in_space c S = true) by (apply HinS; left; reflexivity).
      assert (Hrest : forall c0, In c0 rest -> in_space c0 S = true)
        by (intros c0 Hc0; apply HinS; right; exact Hc0).
      set (a1 := {| av_spaces := av_spaces a; av_states := remove_state c (av_states a) |}) in *.
      set (a1' := {| av_spaces := av_spaces a'; av_states := remove_state c (av_states a') |}) in *.
      assert (Hok1 : av_ok a1') by (apply FS_av_ok_remove; exact Hok).
      assert (Hst1 : same_members (av_states a1) (av_states a1'))
        by (simpl; apply FS_remove_same; exact Hst).
      assert (Hsp1 : av_spaces a1 = av_spaces a1') by exact Hsp.
      pose proof (FS_sym_vs_test fuel c a1 (avoid_states a1') (fst (hd ([], []) tapes)) (snd (hd ([], []) tapes))
                    Hc (FS_avoid_in_S a1' Hok1)) as Ht.
      assert (Hav : forall t, In t (avoid_states a1') <-> in_avoid a1 t = true).
      { intros t. rewrite FS_avoid_states_spec. rewrite (FS_in_avoid_same a1 a1' t Hsp1 Hst1). tauto. }
      specialize (Ht Hav).
      destruct (symbolic_test fuel N S c (avoid_states a1') (fst (hd ([], []) tapes)) (snd (hd ([], []) tapes)))
        as [|R|] eqn:Est.
      * rewrite Ht. apply (IH fuel a1 a1' seeds sets sets' (tl tapes) sds osets Hsp1 Hst1 Hok1 Hrest Hsets H).
      * destruct Ht as [Ht [HR Hreach]]. rewrite Ht.
        apply (IH fuel {| av_spaces := av_spaces a1; av_states := reach_list N c ++ av_states a1 |}
                  {| av_spaces := av_spaces a1'; av_states := R ++ av_states a1' |}
                  (c :: seeds) (reach_list N c :: sets) (R :: sets') (tl tapes) sds osets).
        -- exact Hsp1.
        -- simpl av_states. apply FS_app_same.
           ++ intros t. symmetry. apply HR.
           ++ exact Hst1.
        -- apply (FS_av_ok_add a1' c R Hok1 Hc Hreach).
        -- exact Hrest.
        -- constructor; [exact HR|exact Hsets].
        -- exact H.
      * discriminate H.
Qed.

Lemma FS_loop_total : forall so mi cands fuel a' seeds sets' tapes,
  av_ok a' -> (forall c, In c cands -> in_space c S = true) ->
  symbolic_test_fuel S <= fuel ->
  filter_loop_sym fuel N S so mi a' cands seeds sets' tapes <> None.
Proof.
  intros so mi cands. induction cands as [|c rest IH];
    intros fuel a' seeds sets' tapes Hok HinS Hfuel.
  - simpl. discriminate.
  - simpl.
    destruct (so && mi && match rest with [] => true | _ :: _ => false end
              && match seeds with [] => true | _ :: _ => false end) eqn:Esc.
    + discriminate.
    + assert (Hc : in_space c S = true) by (apply HinS; left; reflexivity).
      assert (Hrest : forall c0, In c0 rest -> in_space c0 S = true)
        by (intros c0 Hc0; apply HinS; right; exact Hc0).
      set (a1' := {| av_spaces := av_spaces a'; av_states := remove_state c (av_states a') |}) in *.
      assert (Hok1 : av_ok a1') by (apply FS_av_ok_remove; exact Hok).
      pose proof (symbolic_test_terminates fuel N S c (avoid_states a1') (fst (hd ([], []) tapes))
                    (snd (hd ([], []) tapes)) Htrap Hc (FS_avoid_in_S a1' Hok1)
                    (FS_avoid_states_NoDup a1') Hfuel) as Hterm.
      destruct (symbolic_test fuel N S c (avoid_states a1') (fst (hd ([], []) tapes)) (snd (hd ([], []) tapes)))
        as [|R|] eqn:Est.
      * apply IH; assumption.
      * destruct (symbolic_test_some _ _ _ _ _ _ _ _ Htrap Hc (FS_avoid_in_S a1' Hok1) Est) as [HR _].
        apply IH; [|exact Hrest|exact Hfuel].
        apply (FS_av_ok_add a1' c R Hok1 Hc). intros t Ht. apply HR. exact Ht.
      * exfalso. apply Hterm. reflexivity.
Qed.

End FS.

(* ------------------------------------------------------------------ *)
(* the theorems                                                        *)
(* ------------------------------------------------------------------ *)

Theorem compute_attractors_sym_total : forall fuel N S seeds_only motifs cands tapes,
  trap_space N S -> (forall M, In M motifs -> length M = nvars N /\ subspace M S = true) ->
  (forall c, In c cands -> in_space c S = true) -> NoDup cands ->
  symbolic_test_fuel S <= fuel ->
  compute_attractors_sym fuel N S seeds_only motifs cands tapes <> None.
Proof.
  intros fuel N S seeds_only motifs cands tapes Htrap Hmot HinS _ Hfuel.
  unfold compute_attractors_sym. apply (FS_loop_total N S Htrap).
  - split; simpl.
    + intros M HM. exact (proj2 (Hmot M HM)).
    + exact HinS.
  - exact HinS.
  - exact Hfuel.
Qed.

Theorem compute_attractors_sym_agrees : forall fuel N S seeds_only motifs cands tapes seeds sets,
  trap_space N S -> (forall M, In M motifs -> length M = nvars N /\ subspace M S = true) ->
  (forall c, In c cands -> in_space c S = true) ->
  compute_attractors_sym fuel N S seeds_only motifs cands tapes = Some (seeds, sets) ->
  seeds = fst (compute_attractors_filter N seeds_only motifs cands) /\
  same_sets sets (snd (compute_attractors_filter N seeds_only motifs cands)).
Proof.
  intros fuel N S seeds_only motifs cands tapes seeds sets Htrap Hmot HinS H.
  unfold compute_attractors_sym in H. unfold compute_attractors_filter.
  apply (FS_loop_agrees N S Htrap seeds_only _ cands fuel
           {| av_spaces := motifs; av_states := cands |} {| av_spaces := motifs; av_states := cands |}
           [] [] [] tapes seeds sets).
  - reflexivity.
  - intros t. tauto.
  - split; simpl.
    + intros M HM. exact (proj2 (Hmot M HM)).
    + exact HinS.
  - exact HinS.
  - constructor.
  - exact H.
Qed.

Theorem compute_attractors_sym_exact : forall fuel N S motifs cands tapes seeds sets,
  trap_space N S -> (forall M, In M motifs -> trap_space N M /\ subspace M S = true) ->
  NoDup cands -> (forall c, In c cands -> in_space c S = true) -> covers N S motifs cands ->
  compute_attractors_sym fuel N S false motifs cands tapes = Some (seeds, Some sets) ->
  one_to_one N S motifs seeds /\ length sets = length seeds /\
  (forall i s X, nth_error seeds i = Some s -> nth_error sets i = Some X -> forall t, In t X <-> reach N s t).
Proof.
  intros fuel N S motifs cands tapes seeds sets Htrap Hmot Hnd HinS Hcov H.
  assert (Hmot' : forall M, In M motifs -> length M = nvars N /\ subspace M S = true).
  { intros M HM. destruct (Hmot M HM) as [HtM Hsub]. split; [apply trap_space_length; exact HtM|exact Hsub]. }
  destruct (compute_attractors_sym_agrees fuel N S false motifs cands tapes seeds (Some sets)
              Htrap Hmot' HinS H) as [Hseeds Hsets].
  destruct (compute_attractors_filter N false motifs cands) as [seedsf osetsf] eqn:Ef.
  simpl in Hseeds, Hsets. subst seedsf.
  destruct osetsf as [setsf|]; [|destruct Hsets].
  simpl in Hsets.
  destruct (filter_exact N S motifs cands seeds setsf Htrap Hmot Hnd HinS Hcov Ef) as [H1 [Hlen Hnth]].
  split; [exact H1|]. split.
  - rewrite (F_Forall2_length _ _ _ _ _ Hsets). exact Hlen.
  - intros i s X Hs HX t.
    assert (Hi : i < length setsf).
    { rewrite <- (F_Forall2_length _ _ _ _ _ Hsets). apply nth_error_Some. rewrite HX. discriminate. }
    destruct (nth_error setsf i) as [Y|] eqn:EY.
    + pose proof (F_Forall2_nth_error _ _ _ _ _ Hsets i X Y HX EY) as HXY.
      rewrite (HXY t). apply (Hnth i s Y Hs EY t).
    + exfalso. apply nth_error_None in EY. lia.
Qed.

Print Assumptions compute_attractors_sym_total.
Print Assumptions compute_attractors_sym_agrees.
Print Assumptions compute_attractors_sym_exact.
