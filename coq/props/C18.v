(* C18 -- Results compose across independent and input-conditioned sub-networks

   PARTIAL: the third clause (agreement with an independent symbolic computation on the published models)
   is empirical by nature and decided by the thorough run against biodivine_aeon.Attractors.

   This file contains only restatements closed by `exact` (statements produced by Coq's own
   `Check` of the library lemma) plus non-vacuity Examples, each followed by Print Assumptions. *)
From Coq Require Import List Bool Arith NArith Lia Relations Permutation.
Import ListNotations.
From BB Require Import BN Brute SpaceFacts TrapFacts PercolateFacts AttractorFacts Diagram Invariants Checks Filter
  Strict PetriNet Control Meta FilterFacts PetriNetFacts TrappistFacts DiagramStruct DiagramSem1 DiagramCache
  DiagramDepth DiagramComplete Termination ControlFacts MetaFacts Candidates StrictFacts MinExpandFacts CandidatesFacts SymbolicTest SymbolicTestFacts Signed ReductionFacts ControlFacts2 Main Blocks BlocksFacts ObsFacts OwnerFacts CandidatesTerm
  PartialOwner BlockMath BlockComplete ASeeds ASeedsFacts LogChecks SkipRule SkipRuleFacts Names NamesFacts Perm PermFacts SCC SCCFacts SCCStruct ControlFacts3 SCCTerm FilterSym Main2 StrategyFacts ControlFacts4 SkipRuleFacts2 SCCComplete SCCAttr BlockComplete2 ControlFacts5 Iso SkipSem ControlFacts6.

Theorem C18_union_trap_space : forall (N M : net) (S T : list (option bool)), length S = nvars N -> length T = nvars M -> trap_space (union_net N M) (S ++ T) <-> trap_space N S /\ trap_space M T.
Proof. exact union_trap_space. Qed.

Theorem C18_union_min_trap : forall (N M : net) (S T : list (option bool)), length S = nvars N -> length T = nvars M -> min_trap (union_net N M) (S ++ T) <-> min_trap N S /\ min_trap M T.
Proof. exact union_min_trap. Qed.

Theorem C18_union_min_trap_split : forall (N M : net) (X : space), min_trap (union_net N M) X -> exists S T : list (option bool), X = S ++ T /\ length S = nvars N /\ length T = nvars M.
Proof. exact union_min_trap_split. Qed.

(* attractors of the union are products *)
Theorem C18_union_in_attractor : forall (N M : net) (s t : list bool), length s = nvars N -> length t = nvars M -> in_attractor (union_net N M) (s ++ t) <-> in_attractor N s /\ in_attractor M t.
Proof. exact union_in_attractor. Qed.

Theorem C18_union_reach : forall (N M : net) (s t s' t' : list bool), length s = nvars N -> length t = nvars M -> length s' = nvars N -> reach (union_net N M) (s ++ t) (s' ++ t') <-> reach N s s' /\ reach M t t'.
Proof. exact union_reach_weak. Qed.

Theorem C18_union_percolate : forall (N M : net) (S T : list (option bool)), length S = nvars N -> length T = nvars M -> percolate_b (union_net N M) (S ++ T) = percolate_b N S ++ percolate_b M T.
Proof. exact union_percolate. Qed.

Theorem C18_fix_net_trap_space : forall (N : net) (v S : list (option bool)), length v = nvars N -> length S = nvars N -> (forall (i : nat) (b : bool), nth i v None = Some b -> is_source_b N i = true) -> subspace S v = true -> trap_space (fix_net N v) S <-> trap_space N S.
Proof. exact fix_net_trap_space. Qed.

Theorem C18_fix_net_percolate : forall (N : net) (v S : list (option bool)), length v = nvars N -> length S = nvars N -> (forall (i : nat) (b : bool), nth i v None = Some b -> is_source_b N i = true) -> subspace S v = true -> percolate_b (fix_net N v) S = percolate_b N S.
Proof. exact fix_net_percolate. Qed.

Theorem C18_fix_net_attractor : forall (N : net) (v : list (option bool)) (A : state -> Prop), length v = nvars N -> (forall (i : nat) (b : bool), nth i v None = Some b -> is_source_b N i = true) -> (forall s : state, A s -> in_space s v = true) -> attractor (fix_net N v) A <-> attractor N A.
Proof. exact fix_net_attractor. Qed.

Print Assumptions C18_union_trap_space.
Print Assumptions C18_union_min_trap.
Print Assumptions C18_union_min_trap_split.
Print Assumptions C18_union_in_attractor.
Print Assumptions C18_union_reach.
Print Assumptions C18_union_percolate.
Print Assumptions C18_fix_net_trap_space.
Print Assumptions C18_fix_net_percolate.
Print Assumptions C18_fix_net_attractor.
