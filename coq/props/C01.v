(* C01 -- Reported attractor seeds correspond one-to-one to the network's attractors

   Model: Filter.compute_attractors_filter is the model of compute_attractors_symbolic (the exact
   reachability filter); the candidate list it receives is required to cover the node's attractors
   (property C08).  Checks.check_seeds is the predicate evaluated on the implementation's seeds.
   OwnerFacts: in a fully expanded diagram every attractor has exactly one owner node, so per-node one-to-one
   seeds give a global one-to-one correspondence (global_one_to_one).  Block expansion and attractor-seed expansion
   leave stubs: PartialOwner generalises the owner theory to expanded owners; BlockComplete / ASeedsFacts prove that a
   run reporting completion leaves no attractor unserved (expand_block_one_to_one, expand_aseeds_one_to_one), under
   the contract of the recorded tape -- every block reported clean has no motif-avoidant attractor
   (BlockMath.block_clean), every NFVS hits every negative cycle -- which the extracted LogChecks predicates
   decide on every replayed run.  The source-SCC strategy is modelled (SCC.v) and replayed id by id against expand_scc, but the
   'exactly one' clause fails for it: KNOWN FINDING D15, formally D15_refuted (two different expanded nodes own one attractor);
   the 'at least one' clause holds: expand_scc_AttrServed / expand_scc_every_attractor_reported (no attractor is lost).

   This file contains only restatements closed by `exact` (statements produced by Coq's own
   `Check` of the library lemma) plus non-vacuity Examples, each followed by Print Assumptions. *)
From Coq Require Import List Bool Arith NArith Lia Relations Permutation.
Import ListNotations.
From BB Require Import BN Brute SpaceFacts TrapFacts PercolateFacts AttractorFacts Diagram Invariants Checks Filter
  Strict PetriNet Control Meta FilterFacts PetriNetFacts TrappistFacts DiagramStruct DiagramSem1 DiagramCache
  DiagramDepth DiagramComplete Termination ControlFacts MetaFacts Candidates StrictFacts MinExpandFacts CandidatesFacts SymbolicTest SymbolicTestFacts Signed ReductionFacts ControlFacts2 Main Blocks BlocksFacts ObsFacts OwnerFacts CandidatesTerm
  PartialOwner BlockMath BlockComplete ASeeds ASeedsFacts LogChecks SkipRule SkipRuleFacts Names NamesFacts Perm PermFacts SCC SCCFacts SCCStruct ControlFacts3 SCCTerm FilterSym Main2 StrategyFacts ControlFacts4 SkipRuleFacts2 SCCComplete SCCAttr BlockComplete2 ControlFacts5 Iso SkipSem ControlFacts6.
From BB Require Import PyLib PyLibSd PyLibCore PyLibSd2 PyLibScc PySrcSdBase PySrcSdScc PySrcSdSccFacts Control PyLibControl PySrcSdSccMain PySrcSdSccMainFacts PyLibBlocks PySrcSdBlocks PySrcSdBlocksFacts PySrcApi PySrcEndToEndScc PySrcEndToEndBlocks Filter PySrcFilter PySrcFilterFacts.

(* translator tie: the function GENERATED from the current text of expand_source_SCCs.expand_source_SCCs (PySrcSdSccMain.v: root sources, BFS over the levels, recursion through the default expander into the sub-diagrams of the source SCCs, attachment by the generated attach_scc_subdiagram) does what the model's SCC.scc_main does on every diagram satisfying SCCTerm.SI, for every fuel, tape and nesting depth *)
Theorem C01_source_expand_source_SCCs : forall (fuel : nat) (N : net) (cfg : config) (check_maa : bool) (d : sd) (tape : tape_t) (rec : nat), 1 <= max_motifs cfg -> SI N d -> let '(d', r, tape') := scc_main fuel N cfg check_maa d tape in scc_outcome (py_expand_source_SCCs fuel N cfg d tape check_maa rec) d' r tape'.
Proof. exact py_expand_source_SCCs_spec. Qed.

Theorem C01_source_expand_source_SCCs_fresh : forall (fuel : nat) (N : net) (cfg : config) (check_maa : bool) (tape : tape_t), 1 <= max_motifs cfg -> let '(d', r, tape') := scc_main fuel N cfg check_maa (init N) tape in scc_outcome (py_expand_source_SCCs fuel N cfg (init N) tape check_maa 0) d' r tape'.
Proof. exact py_expand_source_SCCs_fresh. Qed.

(* translator tie for the DEFAULT strategy: the function GENERATED from the current text of expand_source_blocks.expand_source_blocks (PySrcSdBlocks.v: level loop with the visited set, size limits, source fast-forward, grouping of successors into blocks, minimal blocks, stable sort, clean-block search reading the is_clean tape) returns the diagram and result of the model's Blocks.expand_block on every well-formed diagram, for every fuel, option combination and tape *)
Theorem C01_source_expand_source_blocks : forall (fuel : nat) (N : net) (cfg : config) (d : sd) (tape : list bool) (check_maa : bool) (size_limit : option nat) (opt_src exact : bool), SWF N d -> let '(d', r) := expand_block fuel N cfg d check_maa opt_src size_limit tape in blk_outcome (py_expand_source_blocks fuel N cfg d tape check_maa size_limit opt_src exact) d' r.
Proof. exact py_expand_source_blocks_spec. Qed.

Theorem C01_source_expand_source_blocks_fresh : forall (fuel : nat) (N : net) (cfg : config) (tape : list bool) (check_maa : bool) (size_limit : option nat) (opt_src exact : bool), let '(d', r) := expand_block fuel N cfg (init N) check_maa opt_src size_limit tape in blk_outcome (py_expand_source_blocks fuel N cfg (init N) tape check_maa size_limit opt_src exact) d' r.
Proof. exact py_expand_source_blocks_fresh. Qed.

Theorem C01_source_public_expand_block : forall (fuel : nat) (N : net) (cfg : config) (d : sd) (tape : list bool) (find_maa : bool) (size_limit : option nat) (opt_src exact : bool), SWF N d -> let '(d', r) := expand_block fuel N cfg d find_maa opt_src size_limit tape in blk_outcome (py_api_expand_block fuel N cfg d tape find_maa size_limit opt_src exact) d' r.
Proof. exact py_api_expand_block_spec. Qed.

(* C01 for the SOURCE TEXT of build(): when the generated expand_block with build()'s defaults returns True on a fresh diagram, the clean-block verdicts of the run are right (decided per run) and the seeds of every expanded node are one-to-one with that node's own attractors, then the seeds of the whole diagram are one-to-one with the attractors of the network *)
Theorem C01_source_text_build_one_to_one : forall (fuel : nat) (N : net) (cfg : config) (tape : list bool) (d' : sd) (t : list bool) (seeds : nat -> list state), 1 <= max_motifs cfg -> py_api_build fuel N cfg (init N) tape = SRet d' (true, t) -> clean_log_ok N (fst (expand_block_log fuel N cfg (init N) true true None tape)) -> exp_seeds_ok N d' seeds -> (forall A : state -> Prop, attractor N A -> exists (i : nat) (s : state), i < size d' /\ n_exp (get d' i) = true /\ In s (seeds i) /\ A s) /\ (forall (A : state -> Prop) (i j : nat) (s t0 : state), attractor N A -> i < size d' -> j < size d' -> n_exp (get d' i) = true -> n_exp (get d' j) = true -> In s (seeds i) -> In t0 (seeds j) -> A s -> A t0 -> i = j /\ s = t0).
Proof. exact py_api_build_one_to_one. Qed.

(* C01 ('no attractor is lost') for the SOURCE TEXT of the source-SCC strategy: when the generated public method expand_scc (PySrcApi.v, a call of the generated expand_source_SCCs) returns True on a fresh diagram without the motif-avoidance shortcut, every attractor is reported by an expanded node whose seeds are one-to-one with its own attractors *)
Theorem C01_source_text_expand_scc_every_attractor_reported : forall (fuel : nat) (N : net) (cfg : config) (tape : list (option bool)) (d' : sd) (t : list (option bool)) (seeds : nat -> list state), 1 <= max_motifs cfg -> py_api_expand_scc fuel N cfg (init N) tape false = SRet d' (true, t) -> exp_seeds_ok N d' seeds -> forall A : state -> Prop, attractor N A -> exists (i : nat) (s : state), i < size d' /\ n_exp (get d' i) = true /\ In s (seeds i) /\ A s.
Proof. exact py_api_expand_scc_every_attractor_reported. Qed.

(* translator tie for the candidate filter: the function GENERATED from the current text of attractor_symbolic.compute_attractors_symbolic (PySrcFilter.v: preamble / postamble compared with reference texts, the loop -- candidate order, the unchecked-last-candidate shortcut, avoid.minus before the test, avoid.union after a success, the appends -- translated statement by statement) is the model's compute_attractors_filter, to which filter_exact applies *)
Theorem C01_source_compute_attractors_symbolic : forall (N : net) (seeds_only : bool) (motifs : list space) (cands : list state), py_compute_attractors_symbolic N seeds_only motifs cands = Some (compute_attractors_filter N seeds_only motifs cands).
Proof. exact py_compute_attractors_symbolic_spec. Qed.

(* given covering candidates, the filter returns exactly one seed per attractor of the node, and the sets are the attractors *)
Theorem C01_filter_exact : forall (N : net) (S : space) (motifs : list space) (cands seeds : list state) (sets : list (list state)), trap_space N S -> (forall M : space, In M motifs -> trap_space N M /\ subspace M S = true) -> NoDup cands -> (forall c : state, In c cands -> in_space c S = true) -> covers N S motifs cands -> compute_attractors_filter N false motifs cands = (seeds, Some sets) -> one_to_one N S motifs seeds /\ length sets = length seeds /\ (forall (i : nat) (s : state) (X : list state), nth_error seeds i = Some s -> nth_error sets i = Some X -> forall t : state, In t X <-> reach N s t).
Proof. exact filter_exact. Qed.

(* the seeds_only shortcut (last candidate of a pseudo-minimal node) is sound *)
Theorem C01_filter_exact_seeds_only : forall (N : net) (S : space) (motifs : list space) (cands seeds : list state) (osets : option (list (list state))), trap_space N S -> (forall M : space, In M motifs -> trap_space N M /\ subspace M S = true) -> NoDup cands -> (forall c : state, In c cands -> in_space c S = true) -> covers N S motifs cands -> compute_attractors_filter N true motifs cands = (seeds, osets) -> one_to_one N S motifs seeds.
Proof. exact filter_exact_seeds_only. Qed.

(* the verdict predicate run on the implementation's output is exact *)
Theorem C01_check_seeds_ok : forall (N : net) (S : space) (motifs : list space) (seeds : list state), check_seeds S (node_attractors_b N S motifs) seeds = VOk <-> (forall c : state, In c seeds -> in_space c S = true) /\ one_to_one N S motifs seeds.
Proof. exact check_seeds_ok. Qed.

(* the brute-force attractor list used as oracle: every element is an attractor *)
Theorem C01_attractors_sound : forall (N : net) (A : list state), In A (attractors_b N) -> A <> [] /\ attractor N (fun s : state => In s A).
Proof. exact attractors_b_sound. Qed.

(* ... and every attractor state is in one of them *)
Theorem C01_attractors_complete : forall (N : net) (s : state), in_attractor N s -> exists A : list state, In A (attractors_b N) /\ In s A.
Proof. exact attractors_b_complete. Qed.

Theorem C01_attractors_disjoint : forall (N : net) (A B : list state) (s : state), In A (attractors_b N) -> In B (attractors_b N) -> In s A -> In s B -> A = B.
Proof. exact attractors_b_disjoint. Qed.

Theorem C01_node_attractors_sound : forall (N : net) (S : space) (motifs : list space) (A : list state), In A (node_attractors_b N S motifs) -> node_attr N S motifs (fun s : state => In s A).
Proof. exact node_attractors_b_sound. Qed.

Theorem C01_node_attractors_complete : forall (N : net) (S : space) (motifs : list space) (A : state -> Prop), node_attr N S motifs A -> exists L : list state, In L (node_attractors_b N S motifs) /\ (forall s : state, A s <-> In s L).
Proof. exact node_attractors_b_complete. Qed.

(* every state reaches an attractor (terminal SCCs exist) *)
Theorem C01_reaches_attractor : forall (N : net) (s : state), wf_state N s -> exists t : state, reach N s t /\ in_attractor N t.
Proof. exact reaches_attractor. Qed.

(* attractors of a trap space stay inside its percolation (seeds lie in the node space) *)
Theorem C01_attractor_in_percolation : forall (N : net) (A : state -> Prop) (S : space), attractor N A -> trap_space N S -> (forall s : state, A s -> in_space s S = true) -> forall s : state, A s -> in_space s (percolate_b N S) = true.
Proof. exact attractor_in_percolation. Qed.

(* candidate pipeline + filter = one seed per attractor of the node, given an NFVS *)
Theorem C01_pipeline_then_filter_exact : forall (fuel : nat) (N : net) (S : space) (avoid : list space) (nfvs : list nat) (Rinit : retained) (cfg : ccfg) (greedy simulation : bool) (tape : list (list state)) (stp : simtape) (res : list state) (log : list call) (seeds : list state) (sets : list (list state)), trap_space N S -> (forall a : space, In a avoid -> trap_space N a /\ subspace a S = true) -> NoDup nfvs -> (forall v : nat, In v nfvs -> v < nvars N) -> retained_total nfvs Rinit -> no_neg_walk N S nfvs -> (is_full S = false -> nfvs = [] -> avoid <> [] -> fixed_points_avoided N S avoid) -> compute_candidates fuel N S avoid nfvs Rinit cfg greedy simulation tape stp = (COk res, log) -> tape_ok N S avoid log tape -> walks_ok fuel N S avoid nfvs Rinit cfg greedy tape stp -> NoDup res -> compute_attractors_filter N false avoid res = (seeds, Some sets) -> one_to_one N S avoid seeds.
Proof. exact pipeline_then_filter_exact. Qed.

Theorem C01_nfvs_reduction : forall (N : net) (S : space) (avoid : list space) (nfvs : list nat), trap_space N S -> (forall a : space, In a avoid -> trap_space N a) -> NoDup nfvs -> (forall v : nat, In v nfvs -> v < nvars N) -> no_neg_walk N S nfvs -> reduction_hyp N S avoid nfvs.
Proof. exact nfvs_reduction. Qed.

(* every attractor has an owner node in the fully expanded diagram *)
Theorem C01_owner_exists : forall (N : net) (d : sd) (A : state -> Prop), Hierarchy N d -> attractor N A -> exists i : nat, owns N d i A.
Proof. exact owner_exists. Qed.

(* ... and only one *)
Theorem C01_owner_unique : forall (N : net) (d : sd) (A : state -> Prop) (i j : nat), Hierarchy N d -> attractor N A -> owns N d i A -> owns N d j A -> i = j.
Proof. exact owner_unique. Qed.

(* per-node exactness gives the global bijection *)
Theorem C01_global_one_to_one : forall (N : net) (d : sd) (seeds : nat -> list state), Hierarchy N d -> all_seeds_ok N d seeds -> (forall A : state -> Prop, attractor N A -> exists (i : nat) (s : state), i < size d /\ In s (seeds i) /\ A s) /\ (forall (A : state -> Prop) (i j : nat) (s t : state), attractor N A -> i < size d -> j < size d -> In s (seeds i) -> In t (seeds j) -> A s -> A t -> i = j /\ s = t) /\ (forall (i : nat) (s : state), i < size d -> In s (seeds i) -> exists A : state -> Prop, attractor N A /\ A s /\ inside A (n_space (get d i))).
Proof. exact global_one_to_one. Qed.

(* diagrams with stubs: seeds of the EXPANDED nodes are one-to-one with the attractors once every attractor has an expanded owner *)
Theorem C01_partial_one_to_one : forall (N : net) (d : sd) (seeds : nat -> list state), SWF N d -> TrapNodes N d -> NoSkips d -> CanonOrFF N d -> AttrServed N d -> exp_seeds_ok N d seeds -> (forall A : state -> Prop, attractor N A -> exists (i : nat) (s : state), i < size d /\ n_exp (get d i) = true /\ In s (seeds i) /\ A s) /\ (forall (A : state -> Prop) (i j : nat) (s t : state), attractor N A -> i < size d -> j < size d -> n_exp (get d i) = true -> n_exp (get d j) = true -> In s (seeds i) -> In t (seeds j) -> A s -> A t -> i = j /\ s = t) /\ (forall (i : nat) (s : state), i < size d -> n_exp (get d i) = true -> In s (seeds i) -> exists A : state -> Prop, attractor N A /\ A s /\ inside A (n_space (get d i))).
Proof. exact partial_one_to_one. Qed.

Theorem C01_owner_unique_partial : forall (N : net) (d : sd) (A : state -> Prop) (i j : nat), SWF N d -> TrapNodes N d -> NoSkips d -> CanonOrFF N d -> attractor N A -> owns_exp N d i A -> owns_exp N d j A -> i = j.
Proof. exact owner_unique_partial. Qed.

(* source shortcut: the node whose successors are the source valuations owns no attractor (its seeds are set to []) *)
Theorem C01_ff_form_owns_nothing : forall (N : net) (d : sd) (i : nat) (A : state -> Prop), SWF N d -> TrapNodes N d -> i < size d -> ff_form N d i -> attractor N A -> ~ owns N d i A.
Proof. exact ff_form_owns_nothing. Qed.

(* the clean-block argument: if the block sub-network has no motif-avoidant attractor, every attractor of the node lies in a motif of that block *)
Theorem C01_clean_block_covers : forall (N : net) (S : space) (B : list nat) (motifs : list (list (option bool))), trap_space N S -> closed_in N S B -> (forall m : list (option bool), In m motifs -> length m = nvars N /\ subspace m S = true /\ fixes_within m S B) -> block_clean N S B motifs -> forall A : state -> Prop, attractor N A -> inside A S -> exists m : list (option bool), In m motifs /\ inside A m.
Proof. exact clean_block_covers. Qed.

(* attractors project onto a regulator-closed block *)
Theorem C01_proj_attractor : forall (N : net) (S : space) (B : list nat) (A : state -> Prop) (s0 : state), trap_space N S -> closed_in N S B -> attractor N A -> inside A S -> A s0 -> attractor (freeze N B) (fun t : state => wf_state N t /\ (exists s : state, A s /\ (forall v : nat, In v B -> nth v t false = nth v s false) /\ (forall v : nat, v < nvars N -> ~ In v B -> nth v t false = nth v s0 false))).
Proof. exact proj_attractor. Qed.

Theorem C01_block_expansion_attractors_served : forall (fuel : nat) (N : net) (cfg : config) (d' : sd) (opt : bool) (sz : option nat) (tape : list bool), 1 <= max_motifs cfg -> expand_block fuel N cfg (init N) true opt sz tape = (d', RBool true) -> clean_log_ok N (fst (expand_block_log fuel N cfg (init N) true opt sz tape)) -> AttrServed N d'.
Proof. exact expand_block_AttrServed. Qed.

(* nodes whose seeds block expansion sets to [] own nothing *)
Theorem C01_block_expansion_emptied_sound : forall (fuel : nat) (N : net) (cfg : config) (d' : sd) (opt : bool) (sz : option nat) (tape : list bool) (x : nat) (A : state -> Prop), 1 <= max_motifs cfg -> expand_block fuel N cfg (init N) true opt sz tape = (d', RBool true) -> clean_log_ok N (fst (expand_block_log fuel N cfg (init N) true opt sz tape)) -> In x (snd (expand_block_log fuel N cfg (init N) true opt sz tape)) -> ~ owns N d' x A.
Proof. exact expand_block_emptied_sound. Qed.

(* block expansion with motif-avoidance checks, reporting completion, honest is_clean tape *)
Theorem C01_block_expansion_one_to_one : forall (fuel : nat) (N : net) (cfg : config) (d' : sd) (opt : bool) (sz : option nat) (tape : list bool) (seeds : nat -> list state), 1 <= max_motifs cfg -> expand_block fuel N cfg (init N) true opt sz tape = (d', RBool true) -> clean_log_ok N (fst (expand_block_log fuel N cfg (init N) true opt sz tape)) -> exp_seeds_ok N d' seeds -> (forall A : state -> Prop, attractor N A -> exists (i : nat) (s : state), i < size d' /\ n_exp (get d' i) = true /\ In s (seeds i) /\ A s) /\ (forall (A : state -> Prop) (i j : nat) (s t : state), attractor N A -> i < size d' -> j < size d' -> n_exp (get d' i) = true -> n_exp (get d' j) = true -> In s (seeds i) -> In t (seeds j) -> A s -> A t -> i = j /\ s = t).
Proof. exact expand_block_one_to_one. Qed.

(* the run-time check of the is_clean tape is exact *)
Theorem C01_clean_log_check_exact : forall (N : net) (lg : list (list (option bool) * list nat * list (list (option bool)) * bool)), (forall (sp : list (option bool)) (B : list nat) (motifs : list (list (option bool))) (b : bool), In (sp, B, motifs, b) lg -> length sp = nvars N /\ (forall m : list (option bool), In m motifs -> length m = nvars N)) -> clean_log_ok_b N lg = true <-> clean_log_ok N lg.
Proof. exact clean_log_ok_b_spec. Qed.

(* attractor-seed expansion: a successor without new candidates contains no attractor outside the expanded siblings *)
Theorem C01_pruned_successor_hides_nothing : forall (N : net) (d : sd) (node s : nat) (nfvs : list nat) (A : state -> Prop), SWF N d -> TrapNodes N d -> node < size d -> s < size d -> (forall m : space, In m (expanded_motifs d node) -> trap_space N m) -> NoDup nfvs -> (forall v : nat, In v nfvs -> v < nvars N) -> no_neg_walk N (n_space (get d s)) nfvs -> has_new_candidate N d node s nfvs = false -> attractor N A -> inside A (n_space (get d s)) -> exists m : space, In m (expanded_motifs d node) /\ inside A m.
Proof. exact no_new_candidate_sound. Qed.

Theorem C01_aseeds_expansion_attractors_served : forall (fuel : nat) (N : net) (cfg : config) (d d' : sd) (sz : option nat) (min_tape : list space) (tape : list (list nat)), 1 <= max_motifs cfg -> PlainInv N d -> expand_aseeds fuel N cfg d sz min_tape tape = (d', RBool true) -> nfvs_log_ok N (expand_aseeds_log fuel N cfg d sz min_tape tape) -> AttrServed N d'.
Proof. exact expand_aseeds_AttrServed. Qed.

(* attractor-seed expansion from any diagram reached by plain operations *)
Theorem C01_aseeds_expansion_one_to_one : forall (fuel : nat) (N : net) (cfg : config) (d d' : sd) (sz : option nat) (min_tape : list space) (tape : list (list nat)) (seeds : nat -> list state), 1 <= max_motifs cfg -> PlainInv N d -> expand_aseeds fuel N cfg d sz min_tape tape = (d', RBool true) -> nfvs_log_ok N (expand_aseeds_log fuel N cfg d sz min_tape tape) -> exp_seeds_ok N d' seeds -> (forall A : state -> Prop, attractor N A -> exists (i : nat) (s : state), i < size d' /\ n_exp (get d' i) = true /\ In s (seeds i) /\ A s) /\ (forall (A : state -> Prop) (i j : nat) (s t : state), attractor N A -> i < size d' -> j < size d' -> n_exp (get d' i) = true -> n_exp (get d' j) = true -> In s (seeds i) -> In t (seeds j) -> A s -> A t -> i = j /\ s = t).
Proof. exact expand_aseeds_one_to_one. Qed.

(* the run-time check of the NFVS tape is exact *)
Theorem C01_nfvs_log_check_exact : forall (N : net) (lg : list (list (option bool) * list nat)), (forall (sp : list (option bool)) (nfvs : list nat), In (sp, nfvs) lg -> length sp = nvars N) -> nfvs_log_ok_b N lg = true <-> nfvs_log_ok N lg.
Proof. exact nfvs_log_ok_b_spec. Qed.

(* KNOWN FINDING D15: in the diagram the source-SCC strategy builds for a 6-variable network two expanded nodes own the same attractor *)
Theorem C01_scc_strategy_refuted : exists (A : state -> Prop) (i j : nat), i <> j /\ attractor d15_net A /\ owns_exp d15_net d15_diagram i A /\ owns_exp d15_net d15_diagram j A.
Proof. exact D15_refuted. Qed.

Theorem C01_scc_witness_facts : snd d15_run = RBool true /\ size d15_diagram = 7 /\ map n_space (sd_nodes d15_diagram) = [[None; None; None; None; None; None]; [Some false; Some true; None; None; Some true; None]; [None; None; None; None; None; Some true]; [Some false; Some true; Some false; Some true; Some true; None]; [Some false; Some true; Some false; Some true; Some true; Some false]; [Some false; Some true; Some false; Some true; Some true; Some true]; [Some false; Some true; None; None; Some true; Some true]] /\ existsb (fun L : list state => owns_b d15_net d15_diagram 1 L && owns_b d15_net d15_diagram 6 L) (attractors_b d15_net) = true.
Proof. exact d15_facts. Qed.

(* the exactness of the filter holds with the real reachability procedure, for every heuristic tape *)
Theorem C01_filter_with_symbolic_test_exact : forall (fuel : nat) (N : net) (S : space) (motifs : list space) (cands : list state) (tapes : sym_tape) (seeds : list state) (sets : list (list state)), trap_space N S -> (forall M : space, In M motifs -> trap_space N M /\ subspace M S = true) -> NoDup cands -> (forall c : state, In c cands -> in_space c S = true) -> covers N S motifs cands -> compute_attractors_sym fuel N S false motifs cands tapes = Some (seeds, Some sets) -> one_to_one N S motifs seeds /\ length sets = length seeds /\ (forall (i : nat) (s : state) (X : list state), nth_error seeds i = Some s -> nth_error sets i = Some X -> forall t : state, In t X <-> reach N s t).
Proof. exact compute_attractors_sym_exact. Qed.

(* one node, end to end: NFVS -> candidate pipeline (every option, limit, tape) -> filter with the real reachability procedure = exactly one seed per attractor of the node *)
Theorem C01_node_seeds_exact : forall (fuel : nat) (N : net) (S : space) (avoid : list space) (nfvs : list nat) (Rinit : retained) (cfg : ccfg) (greedy simulation : bool) (tape : list (list state)) (stp : simtape) (res : list state) (log : list call) (sfuel : nat) (stapes : sym_tape) (seeds : list state) (sets : list (list state)), trap_space N S -> (forall a : space, In a avoid -> trap_space N a /\ subspace a S = true) -> NoDup nfvs -> (forall v : nat, In v nfvs -> v < nvars N) -> retained_total nfvs Rinit -> no_neg_walk N S nfvs -> (is_full S = false -> nfvs = [] -> avoid <> [] -> fixed_points_avoided N S avoid) -> compute_candidates fuel N S avoid nfvs Rinit cfg greedy simulation tape stp = (COk res, log) -> tape_ok N S avoid log tape -> walks_ok fuel N S avoid nfvs Rinit cfg greedy tape stp -> NoDup res -> compute_attractors_sym sfuel N S false avoid res stapes = Some (seeds, Some sets) -> one_to_one N S avoid seeds /\ length sets = length seeds /\ (forall (i : nat) (s : state) (X : list state), nth_error seeds i = Some s -> nth_error sets i = Some X -> forall t : state, In t X <-> reach N s t).
Proof. exact node_seeds_exact. Qed.

(* source-SCC strategy from a fresh diagram: every attractor has an expanded owner *)
Theorem C01_scc_strategy_loses_nothing : forall (fuel : nat) (N : net) (cfg : config) (d' : sd) (tape : tape_t), 1 <= max_motifs cfg -> expand_scc fuel N cfg (init N) false tape = (d', RBool true) -> AttrServed N d'.
Proof. exact expand_scc_AttrServed. Qed.

(* ... so exact per-node seeds represent every attractor at least once (D15 is only about duplicates) *)
Theorem C01_scc_strategy_every_attractor_reported : forall (fuel : nat) (N : net) (cfg : config) (d' : sd) (tape : tape_t) (seeds : nat -> list state), 1 <= max_motifs cfg -> expand_scc fuel N cfg (init N) false tape = (d', RBool true) -> exp_seeds_ok N d' seeds -> forall A : state -> Prop, attractor N A -> exists (i : nat) (s : state), i < size d' /\ n_exp (get d' i) = true /\ In s (seeds i) /\ A s.
Proof. exact expand_scc_every_attractor_reported. Qed.

(* after the D18 fix: block expansion started on any diagram reached by plain operations *)
Theorem C01_block_expansion_one_to_one_from_any_plain_diagram : forall (fuel : nat) (N : net) (cfg : config) (d d' : sd) (opt : bool) (sz : option nat) (tape : list bool) (seeds : nat -> list state), 1 <= max_motifs cfg -> PlainInv N d -> expand_block fuel N cfg d true opt sz tape = (d', RBool true) -> clean_log_ok N (fst (expand_block_log fuel N cfg d true opt sz tape)) -> exp_seeds_ok N d' seeds -> (forall A : state -> Prop, attractor N A -> exists (i : nat) (s : state), i < size d' /\ n_exp (get d' i) = true /\ In s (seeds i) /\ A s) /\ (forall (A : state -> Prop) (i j : nat) (s t : state), attractor N A -> i < size d' -> j < size d' -> n_exp (get d' i) = true -> n_exp (get d' j) = true -> In s (seeds i) -> In t (seeds j) -> A s -> A t -> i = j /\ s = t).
Proof. exact expand_block_one_to_one_from. Qed.

(* non-vacuity: two bistable switches; x0'=x1, x1'=x0, x2'=x3, x3'=x2 *)
Definition ex_sw : net := [fun s => nth 1 s false; fun s => nth 0 s false; fun s => nth 3 s false; fun s => nth 2 s false].
Definition ex_cfg : config := {| max_motifs := 1000 |}.

Example C01_example_attractors : length (attractors_b ex_sw) = 4.
Proof. vm_compute. reflexivity. Qed.
Example C01_example_filter : fst (compute_attractors_filter ex_sw false [] (all_states 4)) <> [].
Proof. vm_compute. discriminate. Qed.
(* the hypotheses of expand_block_one_to_one / expand_aseeds_one_to_one are met by concrete runs *)
Example C01_example_block : snd (expand_block 100 ex_sw ex_cfg (init ex_sw) true true None (repeat true 20)) = RBool true /\
  clean_log_ok_b ex_sw (fst (expand_block_log 100 ex_sw ex_cfg (init ex_sw) true true None (repeat true 20))) = true /\
  length (fst (expand_block_log 100 ex_sw ex_cfg (init ex_sw) true true None (repeat true 20))) = 3.
Proof. vm_compute. repeat split; reflexivity. Qed.
Example C01_example_aseeds :
  snd (expand_aseeds 100 ex_sw ex_cfg (init ex_sw) None (min_traps_b ex_sw (top_space 4)) (repeat [] 9)) = RBool true /\
  nfvs_log_ok_b ex_sw (expand_aseeds_log 100 ex_sw ex_cfg (init ex_sw) None (min_traps_b ex_sw (top_space 4)) (repeat [] 9)) = true /\
  length (expand_aseeds_log 100 ex_sw ex_cfg (init ex_sw) None (min_traps_b ex_sw (top_space 4)) (repeat [] 9)) = 2.
Proof. vm_compute. repeat split; reflexivity. Qed.

Print Assumptions C01_source_expand_source_SCCs.
Print Assumptions C01_source_expand_source_SCCs_fresh.
Print Assumptions C01_source_expand_source_blocks.
Print Assumptions C01_source_expand_source_blocks_fresh.
Print Assumptions C01_source_public_expand_block.
Print Assumptions C01_source_text_build_one_to_one.
Print Assumptions C01_source_text_expand_scc_every_attractor_reported.
Print Assumptions C01_source_compute_attractors_symbolic.
Print Assumptions C01_filter_exact.
Print Assumptions C01_filter_exact_seeds_only.
Print Assumptions C01_check_seeds_ok.
Print Assumptions C01_attractors_sound.
Print Assumptions C01_attractors_complete.
Print Assumptions C01_attractors_disjoint.
Print Assumptions C01_node_attractors_sound.
Print Assumptions C01_node_attractors_complete.
Print Assumptions C01_reaches_attractor.
Print Assumptions C01_attractor_in_percolation.
Print Assumptions C01_pipeline_then_filter_exact.
Print Assumptions C01_nfvs_reduction.
Print Assumptions C01_owner_exists.
Print Assumptions C01_owner_unique.
Print Assumptions C01_global_one_to_one.
Print Assumptions C01_partial_one_to_one.
Print Assumptions C01_owner_unique_partial.
Print Assumptions C01_ff_form_owns_nothing.
Print Assumptions C01_clean_block_covers.
Print Assumptions C01_proj_attractor.
Print Assumptions C01_block_expansion_attractors_served.
Print Assumptions C01_block_expansion_emptied_sound.
Print Assumptions C01_block_expansion_one_to_one.
Print Assumptions C01_clean_log_check_exact.
Print Assumptions C01_pruned_successor_hides_nothing.
Print Assumptions C01_aseeds_expansion_attractors_served.
Print Assumptions C01_aseeds_expansion_one_to_one.
Print Assumptions C01_nfvs_log_check_exact.
Print Assumptions C01_scc_strategy_refuted.
Print Assumptions C01_scc_witness_facts.
Print Assumptions C01_filter_with_symbolic_test_exact.
Print Assumptions C01_node_seeds_exact.
Print Assumptions C01_scc_strategy_loses_nothing.
Print Assumptions C01_scc_strategy_every_attractor_reported.
Print Assumptions C01_block_expansion_one_to_one_from_any_plain_diagram.
