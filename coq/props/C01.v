(* C01 -- Reported attractor seeds correspond one-to-one to the network's attractors

   Model: Filter.compute_attractors_filter is the model of compute_attractors_symbolic (the exact
   reachability filter); the candidate list it receives is required to cover the node's attractors
   (property C08).  Checks.check_seeds is the predicate evaluated on the implementation's seeds.
   OwnerFacts: in a fully expanded diagram every attractor has exactly one owner node, so per-node one-to-one
   seeds give a global one-to-one correspondence (global_one_to_one).  PARTIAL: for block and attractor-seed
   expansion the models (Blocks.v, ASeeds.v) are replayed against the code but the global bijection is decided by
   the verdicts; the source-SCC strategy is not modelled and has the known finding D15.

   This file contains only restatements closed by `exact` (statements produced by Coq's own
   `Check` of the library lemma) plus non-vacuity Examples, each followed by Print Assumptions. *)
From Coq Require Import List Bool Arith NArith Lia Relations Permutation.
Import ListNotations.
From BB Require Import BN Brute SpaceFacts TrapFacts PercolateFacts AttractorFacts Diagram Invariants Checks Filter
  Strict PetriNet Control Meta FilterFacts PetriNetFacts TrappistFacts DiagramStruct DiagramSem1 DiagramCache
  DiagramDepth DiagramComplete Termination ControlFacts MetaFacts Candidates StrictFacts MinExpandFacts CandidatesFacts SymbolicTest SymbolicTestFacts Signed ReductionFacts ControlFacts2 Main Blocks BlocksFacts ObsFacts OwnerFacts CandidatesTerm.

(* given covering candidates, the filter returns exactly one seed per attractor of the node, and the sets are the attractors *)
Theorem C01_filter_exact : forall (N : net) (S : space) (motifs : list space) (cands seeds : list state) (sets : list (list state)), trap_space N S -> (forall M : space, In M motifs -> trap_space N M /\ subspace M S = true) -> NoDup cands -> (forall c : state, In c cands -> in_space c S = true) -> covers N S motifs cands -> compute_attractors_filter N false motifs cands = (seeds, Some sets) -> one_to_one N S motifs seeds /\ length sets = length seeds /\ (forall (i : nat) (s : state) (X : list state), nth_error seeds i = Some s -> nth_error sets i = Some X -> forall t : state, In t X <-> reach N s t).
Proof. exact filter_exact. Qed.

(* the seeds_only shortcut (last candidate of a pseudo-minimal node) is sound *)
Theorem C01_filter_exact_seeds_only : forall (N : net) (S : space) (motifs : list space) (cands seeds : list state) (osets : option (list (list state))), trap_space N S -> (forall M : space, In M motifs -> trap_space N M /\ subspace M S = true) -> NoDup cands -> (forall c : state, In c cands -> in_space c S = true) -> covers N S motifs cands -> compute_attractors_filter N true motifs cands = (seeds, osets) -> one_to_one N S motifs seeds.
Proof. exact filter_exact_seeds_only. Qed.

(* the verdict predicate run on the implementation's output is exact *)
Theorem C01_check_seeds_ok : forall (N : net) (S : space) (motifs : list space) (seeds : list state), check_seeds S (node_attractors_b N S motifs) seeds = VOk <-> (forall c : state, In c seeds -> in_space c S = true) /\ one_to_one N S motifs seeds.
Proof. exact check_seeds_ok. Qed.

(* the brute-force attractor list used as oracle: every element is an attractor *)
Theorem C01_attractors_sound : forall (N : net) (A : list state), In A (attractors_b N) -> A <> [] /\ attractor N (fun s : state => In s A).
Proof. exact attractors_b_sound. Qed.

(* ... and every attractor state is in one of them *)
Theorem C01_attractors_complete : forall (N : net) (s : state), in_attractor N s -> exists A : list state, In A (attractors_b N) /\ In s A.
Proof. exact attractors_b_complete. Qed.

Theorem C01_attractors_disjoint : forall (N : net) (A B : list state) (s : state), In A (attractors_b N) -> In B (attractors_b N) -> In s A -> In s B -> A = B.
Proof. exact attractors_b_disjoint. Qed.

Theorem C01_node_attractors_sound : forall (N : net) (S : space) (motifs : list space) (A : list state), In A (node_attractors_b N S motifs) -> node_attr N S motifs (fun s : state => In s A).
Proof. exact node_attractors_b_sound. Qed.

Theorem C01_node_attractors_complete : forall (N : net) (S : space) (motifs : list space) (A : state -> Prop), node_attr N S motifs A -> exists L : list state, In L (node_attractors_b N S motifs) /\ (forall s : state, A s <-> In s L).
Proof. exact node_attractors_b_complete. Qed.

(* every state reaches an attractor (terminal SCCs exist) *)
Theorem C01_reaches_attractor : forall (N : net) (s : state), wf_state N s -> exists t : state, reach N s t /\ in_attractor N t.
Proof. exact reaches_attractor. Qed.

(* attractors of a trap space stay inside its percolation (seeds lie in the node space) *)
Theorem C01_attractor_in_percolation : forall (N : net) (A : state -> Prop) (S : space), attractor N A -> trap_space N S -> (forall s : state, A s -> in_space s S = true) -> forall s : state, A s -> in_space s (percolate_b N S) = true.
Proof. exact attractor_in_percolation. Qed.

(* candidate pipeline + filter = one seed per attractor of the node, given an NFVS *)
Theorem C01_pipeline_then_filter_exact : forall (fuel : nat) (N : net) (S : space) (avoid : list space) (nfvs : list nat) (Rinit : retained) (cfg : ccfg) (greedy simulation : bool) (tape : list (list state)) (stp : simtape) (res : list state) (log : list call) (seeds : list state) (sets : list (list state)), trap_space N S -> (forall a : space, In a avoid -> trap_space N a /\ subspace a S = true) -> NoDup nfvs -> (forall v : nat, In v nfvs -> v < nvars N) -> retained_total nfvs Rinit -> no_neg_walk N S nfvs -> (is_full S = false -> nfvs = [] -> avoid <> [] -> fixed_points_avoided N S avoid) -> compute_candidates fuel N S avoid nfvs Rinit cfg greedy simulation tape stp = (COk res, log) -> tape_ok N S avoid log tape -> walks_ok fuel N S avoid nfvs Rinit cfg greedy tape stp -> NoDup res -> compute_attractors_filter N false avoid res = (seeds, Some sets) -> one_to_one N S avoid seeds.
Proof. exact pipeline_then_filter_exact. Qed.

Theorem C01_nfvs_reduction : forall (N : net) (S : space) (avoid : list space) (nfvs : list nat), trap_space N S -> (forall a : space, In a avoid -> trap_space N a) -> NoDup nfvs -> (forall v : nat, In v nfvs -> v < nvars N) -> no_neg_walk N S nfvs -> reduction_hyp N S avoid nfvs.
Proof. exact nfvs_reduction. Qed.

(* every attractor has an owner node in the fully expanded diagram *)
Theorem C01_owner_exists : forall (N : net) (d : sd) (A : state -> Prop), Hierarchy N d -> attractor N A -> exists i : nat, owns N d i A.
Proof. exact owner_exists. Qed.

(* ... and only one *)
Theorem C01_owner_unique : forall (N : net) (d : sd) (A : state -> Prop) (i j : nat), Hierarchy N d -> attractor N A -> owns N d i A -> owns N d j A -> i = j.
Proof. exact owner_unique. Qed.

(* per-node exactness gives the global bijection *)
Theorem C01_global_one_to_one : forall (N : net) (d : sd) (seeds : nat -> list state), Hierarchy N d -> all_seeds_ok N d seeds -> (forall A : state -> Prop, attractor N A -> exists (i : nat) (s : state), i < size d /\ In s (seeds i) /\ A s) /\ (forall (A : state -> Prop) (i j : nat) (s t : state), attractor N A -> i < size d -> j < size d -> In s (seeds i) -> In t (seeds j) -> A s -> A t -> i = j /\ s = t) /\ (forall (i : nat) (s : state), i < size d -> In s (seeds i) -> exists A : state -> Prop, attractor N A /\ A s /\ inside A (n_space (get d i))).
Proof. exact global_one_to_one. Qed.

(* non-vacuity: two bistable switches; x0'=x1, x1'=x0, x2'=x3, x3'=x2 *)
Definition ex_sw : net := [fun s => nth 1 s false; fun s => nth 0 s false; fun s => nth 3 s false; fun s => nth 2 s false].
Definition ex_cfg : config := {| max_motifs := 1000 |}.

Example C01_example_attractors : length (attractors_b ex_sw) = 4.
Proof. vm_compute. reflexivity. Qed.
Example C01_example_filter : fst (compute_attractors_filter ex_sw false [] (all_states 4)) <> [].
Proof. vm_compute. discriminate. Qed.

Print Assumptions C01_filter_exact.
Print Assumptions C01_filter_exact_seeds_only.
Print Assumptions C01_check_seeds_ok.
Print Assumptions C01_attractors_sound.
Print Assumptions C01_attractors_complete.
Print Assumptions C01_attractors_disjoint.
Print Assumptions C01_node_attractors_sound.
Print Assumptions C01_node_attractors_complete.
Print Assumptions C01_reaches_attractor.
Print Assumptions C01_attractor_in_percolation.
Print Assumptions C01_pipeline_then_filter_exact.
Print Assumptions C01_nfvs_reduction.
Print Assumptions C01_owner_exists.
Print Assumptions C01_owner_unique.
Print Assumptions C01_global_one_to_one.
