(* C15 -- Early stops and limit errors leave a valid, resumable diagram

   Model: Diagram.step returns the diagram together with its result, whatever the result is (RBool false,
   RRaised ..., RBool true): all invariants below are stated for fst (step ...) WITHOUT any hypothesis on the
   result, so they hold at every early stop and every raised limit error.  Resumption: from any such state an
   unrestricted BFS/DFS completes to a Hierarchy (bfs_complete / dfs_complete).

   This file contains only restatements closed by `exact` (statements produced by Coq's own
   `Check` of the library lemma) plus non-vacuity Examples, each followed by Print Assumptions. *)
From Coq Require Import List Bool Arith NArith Lia Relations Permutation.
Import ListNotations.
From BB Require Import BN Brute SpaceFacts TrapFacts PercolateFacts AttractorFacts Diagram Invariants Checks Filter
  Strict PetriNet Control Meta FilterFacts PetriNetFacts TrappistFacts DiagramStruct DiagramSem1 DiagramCache
  DiagramDepth DiagramComplete Termination ControlFacts MetaFacts Candidates StrictFacts MinExpandFacts CandidatesFacts SymbolicTest SymbolicTestFacts Signed ReductionFacts ControlFacts2 Main Blocks BlocksFacts ObsFacts OwnerFacts CandidatesTerm
  PartialOwner BlockMath BlockComplete ASeeds ASeedsFacts LogChecks SkipRule SkipRuleFacts Names NamesFacts Perm PermFacts SCC SCCFacts SCCStruct ControlFacts3 SCCTerm FilterSym Main2 StrategyFacts ControlFacts4 SkipRuleFacts2 SCCComplete SCCAttr BlockComplete2 ControlFacts5 Iso SkipSem ControlFacts6.
From BB Require Import PyLib PyLibSd PySrcSdBase PySrcSd PySrcSdFacts PyLibSd PySrcSdBase PySrcSdTarget PySrcSdTargetFacts PyLib PyLibSd PyLibCore PyLibSd2 PySrcSdBase PySrcSdMin PySrcSdMinFacts Candidates Blocks ASeeds PySrcSdASeeds PySrcSdASeedsFacts PyLib PyLibSd PyLibCore PyLibSd2 PyLibScc PySrcSdBase PySrcSdScc PySrcSdSccFacts Control PyLibControl PySrcSdSccMain PySrcSdSccMainFacts PyLibBlocks PySrcSdBlocks PySrcSdBlocksFacts PySrcApi PySrcEndToEndScc PySrcEndToEndBlocks.

(* C15 for the SOURCE TEXT of the default strategy: whatever the generated expand_block returns -- True, False at a size limit, the motif-limit error, out of fuel -- the diagram it leaves is well-formed and extends the one it started from *)
Theorem C15_source_text_expand_block_any_result : forall (fuel : nat) (N : net) (cfg : config) (d : sd) (tape : list bool) (maa : bool) (sz : option nat) (opt exact : bool), SWF N d -> SWF N (flow_sd (py_api_expand_block fuel N cfg d tape maa sz opt exact)) /\ extends d (flow_sd (py_api_expand_block fuel N cfg d tape maa sz opt exact)).
Proof. exact py_api_expand_block_any_result. Qed.

(* translator tie: the limit handling of the strategy drivers as written in the source (expand_to_target, expand_bfs, expand_dfs, expand_minimal_spaces) is the model's *)
Theorem C15_source_expand_to_target : forall (fuel : nat) (N : net) (cfg : config) (d : sd) (target : space) (size_limit : option nat), py_expand_to_target fuel N cfg d target size_limit = expand_to_target fuel N cfg d target size_limit.
Proof. exact py_expand_to_target_spec_all. Qed.

Theorem C15_source_expand_bfs : forall (fuel : nat) (N : net) (cfg : config) (d : sd) (start level_limit size_limit : option nat), py_expand_bfs fuel N cfg d start level_limit size_limit = expand_bfs fuel N cfg d start level_limit size_limit.
Proof. exact py_expand_bfs_spec_all. Qed.

Theorem C15_source_expand_dfs : forall (fuel : nat) (N : net) (cfg : config) (d : sd) (start stack_limit size_limit : option nat), py_expand_dfs fuel N cfg d start stack_limit size_limit = expand_dfs fuel N cfg d start stack_limit size_limit.
Proof. exact py_expand_dfs_spec_all. Qed.

Theorem C15_source_expand_minimal_spaces : forall (fuel : nat) (N : net) (cfg : config) (d : sd) (start size_limit : option nat) (skip : bool) (tape : list space), SWF N d -> TrapNodes N d -> EdgeStrict d -> start_of start < size d -> perm_of tape (min_traps_b N (n_space (get d (start_of start)))) = true -> py_expand_minimal_spaces fuel N cfg d tape start size_limit skip = expand_min fuel N cfg d start size_limit skip tape.
Proof. exact py_expand_minimal_spaces_spec. Qed.

Theorem C15_source_expand_attractor_seeds : forall (fuel : nat) (N : net) (cfg : config) (d : sd) (size_limit : option nat) (min_tape : list space) (tape : list (list nat)), SWF N d -> TrapNodes N d -> EdgeStrict d -> perm_of min_tape (min_traps_b N (n_space (get d 0))) = true -> py_expand_attractor_seeds fuel N cfg d min_tape tape size_limit = expand_aseeds fuel N cfg d size_limit min_tape tape.
Proof. exact py_expand_attractor_seeds_spec. Qed.

Theorem C15_step_SWF : forall (fuel : nat) (N : net) (cfg : config) (d : sd) (o : op), SWF N d -> SWF N (fst (step fuel N cfg d o)).
Proof. exact step_SWF. Qed.

Theorem C15_step_Faithful_all : forall (fuel : nat) (N : net) (cfg : config) (d : sd) (o : op), 1 <= max_motifs cfg -> SWF N d -> NoStubEdges d -> Faithful N d -> Faithful N (fst (step fuel N cfg d o)).
Proof. exact step_Faithful_all. Qed.

Theorem C15_step_NoStubEdges : forall (fuel : nat) (N : net) (cfg : config) (d : sd) (o : op), SWF N d -> NoStubEdges d -> NoStubEdges (fst (step fuel N cfg d o)).
Proof. exact step_NoStubEdges. Qed.

Theorem C15_step_CacheOK : forall (fuel : nat) (N : net) (cfg : config) (d : sd) (o : op), SWF N d -> NoStubEdges d -> EdgeStrict d -> CacheOK d -> CacheOK (fst (step fuel N cfg d o)).
Proof. exact step_CacheOK. Qed.

(* nothing is ever removed or renumbered *)
Theorem C15_step_extends : forall (fuel : nat) (N : net) (cfg : config) (d : sd) (o : op), SWF N d -> extends d (fst (step fuel N cfg d o)).
Proof. exact step_extends. Qed.

Theorem C15_expand_one_raise_unchanged : forall (N : net) (cfg : config) (d : sd) (i : nat) (d' : sd) (e : err), expand_one N cfg d i = (d', RRaised e) -> sd_edges d' = sd_edges d /\ size d' = size d /\ (forall j : nat, n_exp (get d' j) = n_exp (get d j) /\ n_space (get d' j) = n_space (get d j)).
Proof. exact expand_one_raise_unchanged. Qed.

(* True from an unrestricted BFS means everything is expanded *)
Theorem C15_bfs_complete : forall (fuel : nat) (N : net) (cfg : config) (d d' : sd), 1 <= max_motifs cfg -> SWF N d -> NoStubEdges d -> EdgeStrict d -> Rooted d -> expand_bfs fuel N cfg d None None None = (d', RBool true) -> AllExpanded d'.
Proof. exact bfs_complete. Qed.

Theorem C15_dfs_complete : forall (fuel : nat) (N : net) (cfg : config) (d d' : sd), 1 <= max_motifs cfg -> SWF N d -> NoStubEdges d -> EdgeStrict d -> Rooted d -> expand_dfs fuel N cfg d None None None = (d', RBool true) -> AllExpanded d'.
Proof. exact dfs_complete. Qed.

(* also for block expansion, whatever it returns *)
Theorem C15_block_expansion_any_result : forall (fuel : nat) (N : net) (cfg : config) (d : sd) (maa opt : bool) (sz : option nat) (tape : list bool), SWF N d -> SWF N (fst (expand_block fuel N cfg d maa opt sz tape)).
Proof. exact expand_block_SWF. Qed.

Theorem C15_block_expansion_extends : forall (fuel : nat) (N : net) (cfg : config) (d : sd) (maa opt : bool) (sz : option nat) (tape : list bool), SWF N d -> extends d (fst (expand_block fuel N cfg d maa opt sz tape)).
Proof. exact expand_block_extends. Qed.

(* a block expansion that reports completion on a partially expanded diagram (e.g. after a size-limited run) has found every minimal trap space *)
Theorem C15_block_expansion_resumes : forall (fuel : nat) (N : net) (cfg : config) (d d' : sd) (maa opt : bool) (sz : option nat) (tape : list bool), 1 <= max_motifs cfg -> PlainInv N d -> expand_block fuel N cfg d maa opt sz tape = (d', RBool true) -> MinFound N d'.
Proof. exact expand_block_MinFound_from. Qed.

Theorem C15_block_expansion_resumes_attractors : forall (fuel : nat) (N : net) (cfg : config) (d d' : sd) (opt : bool) (sz : option nat) (tape : list bool), 1 <= max_motifs cfg -> PlainInv N d -> expand_block fuel N cfg d true opt sz tape = (d', RBool true) -> clean_log_ok N (fst (expand_block_log fuel N cfg d true opt sz tape)) -> AttrServed N d'.
Proof. exact expand_block_AttrServed_from. Qed.

Print Assumptions C15_source_text_expand_block_any_result.
Print Assumptions C15_source_expand_to_target.
Print Assumptions C15_source_expand_bfs.
Print Assumptions C15_source_expand_dfs.
Print Assumptions C15_source_expand_minimal_spaces.
Print Assumptions C15_source_expand_attractor_seeds.
Print Assumptions C15_step_SWF.
Print Assumptions C15_step_Faithful_all.
Print Assumptions C15_step_NoStubEdges.
Print Assumptions C15_step_CacheOK.
Print Assumptions C15_step_extends.
Print Assumptions C15_expand_one_raise_unchanged.
Print Assumptions C15_bfs_complete.
Print Assumptions C15_dfs_complete.
Print Assumptions C15_block_expansion_any_result.
Print Assumptions C15_block_expansion_extends.
Print Assumptions C15_block_expansion_resumes.
Print Assumptions C15_block_expansion_resumes_attractors.
