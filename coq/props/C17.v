(* C17 -- Results do not depend on how the network is written down

   In the model a network IS its list of update functions on states, so logically equivalent formulas are
   extensionally equal networks (net_equiv).  Polarity flips act on nets, states and spaces.
   Reordering the declarations is a permutation acting on nets, states and spaces (Perm.v): dynamics, trap spaces,
   percolation, maximal / minimal trap spaces, attractors and the whole fully expanded diagram are equivariant
   (perm_hierarchy).  Names.v models sanitize_network_names on code-point lists: total, solver-safe, distinct,
   position-preserving (so the dynamics is untouched), idempotent; place names round-trip.  dollar_test_unsafe is the
   formal record of the repaired defect D16 (a name ending in a newline passed the `$` test).  The model's output is
   compared with the code's on every run.  PARTIAL: the text formats (bnet / aeon / sbml) are AEON's parsers and are
   covered by the metamorphic run only.

   This file contains only restatements closed by `exact` (statements produced by Coq's own
   `Check` of the library lemma) plus non-vacuity Examples, each followed by Print Assumptions. *)
From Coq Require Import List Bool Arith NArith Lia Relations Permutation.
Import ListNotations.
From BB Require Import BN Brute SpaceFacts TrapFacts PercolateFacts AttractorFacts Diagram Invariants Checks Filter
  Strict PetriNet Control Meta FilterFacts PetriNetFacts TrappistFacts DiagramStruct DiagramSem1 DiagramCache
  DiagramDepth DiagramComplete Termination ControlFacts MetaFacts Candidates StrictFacts MinExpandFacts CandidatesFacts SymbolicTest SymbolicTestFacts Signed ReductionFacts ControlFacts2 Main Blocks BlocksFacts ObsFacts OwnerFacts CandidatesTerm
  PartialOwner BlockMath BlockComplete ASeeds ASeedsFacts LogChecks SkipRule SkipRuleFacts Names NamesFacts Perm PermFacts SCC SCCFacts SCCStruct ControlFacts3 SCCTerm FilterSym Main2 StrategyFacts ControlFacts4 SkipRuleFacts2 SCCComplete SCCAttr BlockComplete2 ControlFacts5 Iso SkipSem ControlFacts6.
From BB Require Import Names NamesFacts PySrcNames PySrcNamesFacts.

(* translator tie: the function GENERATED from the current text of petri_net_translation.sanitize_network_names (PySrcNames.v: skeleton checked statement by statement, validity test and substitution read from the regular expressions) returns what the model's Names.sanitize returns (to which sanitize_total / _valid / _nodup / _fixes_valid below apply) *)
Theorem C17_source_sanitize_network_names : forall (fuel : nat) (names : list name), S (length names) <= fuel -> exists out : list name, sanitize names = Some out /\ py_sanitize_network_names fuel names false = NRet out.
Proof. exact py_sanitize_spec. Qed.

(* with check_only=True it raises exactly when some name is invalid and otherwise returns the names unchanged *)
Theorem C17_source_sanitize_check_only : forall (fuel : nat) (names : list name), py_sanitize_network_names fuel names true = (if check_only_ok names then NRet names else NRaise).
Proof. exact py_sanitize_check_only_spec. Qed.

Theorem C17_equiv_trap_space : forall (N M : net) (S : space), net_equiv N M -> trap_space N S <-> trap_space M S.
Proof. exact equiv_trap_space. Qed.

Theorem C17_equiv_percolate : forall (N M : net) (S : list (option bool)), net_equiv N M -> length S = nvars N -> percolate_b N S = percolate_b M S.
Proof. exact equiv_percolate. Qed.

Theorem C17_equiv_max_traps : forall (N M : net) (S : list (option bool)) (srcs : list nat), net_equiv N M -> length S = nvars N -> max_traps_b N S srcs = max_traps_b M S srcs.
Proof. exact equiv_max_traps. Qed.

Theorem C17_equiv_min_traps : forall (N M : net) (S : list (option bool)), net_equiv N M -> length S = nvars N -> min_traps_b N S = min_traps_b M S.
Proof. exact equiv_min_traps. Qed.

Theorem C17_equiv_attractor : forall (N M : net) (A : state -> Prop), net_equiv N M -> attractor N A <-> attractor M A.
Proof. exact equiv_attractor. Qed.

Theorem C17_flip_trap_space : forall (fl : list bool) (N : net) (S : list (option bool)), length fl = nvars N -> length S = nvars N -> trap_space (flip_net fl N) (flip_space fl S) <-> trap_space N S.
Proof. exact flip_trap_space. Qed.

Theorem C17_flip_percolate : forall (fl : list bool) (N : net) (S : list (option bool)), length fl = nvars N -> length S = nvars N -> percolate_b (flip_net fl N) (flip_space fl S) = flip_space fl (percolate_b N S).
Proof. exact flip_percolate. Qed.

Theorem C17_flip_min_trap : forall (fl : list bool) (N : net) (M : list (option bool)), length fl = nvars N -> length M = nvars N -> min_trap (flip_net fl N) (flip_space fl M) <-> min_trap N M.
Proof. exact flip_min_trap. Qed.

Theorem C17_flip_max_trap : forall (fl : list bool) (N : net) (S M : list (option bool)), length fl = nvars N -> length S = nvars N -> length M = nvars N -> max_trap_in (flip_net fl N) (flip_space fl S) (flip_space fl M) <-> max_trap_in N S M.
Proof. exact flip_max_trap. Qed.

(* attractors, restricted to well-formed states *)
Theorem C17_flip_attractor : forall (fl : list bool) (N : net) (A : state -> Prop), length fl = nvars N -> (forall s : state, A s -> length s = nvars N) -> attractor (flip_net fl N) (fun s : state => length s = nvars N /\ A (flip_state fl s)) <-> attractor N A.
Proof. exact flip_attractor_weak. Qed.

Theorem C17_flip_trans : forall (fl : list bool) (N : net) (s t : list bool), length fl = nvars N -> length s = nvars N -> length t = nvars N -> trans (flip_net fl N) (flip_state fl s) (flip_state fl t) <-> trans N s t.
Proof. exact flip_trans_weak. Qed.

(* reordering: the asynchronous dynamics *)
Theorem C17_perm_trans : forall (n : nat) (p : list nat) (N : net) (s t : list bool), is_perm n p -> nvars N = n -> length s = n -> length t = n -> trans N s t <-> trans (perm_net p N) (perm_state p s) (perm_state p t).
Proof. exact perm_trans. Qed.

Theorem C17_perm_reach : forall (n : nat) (p : list nat) (N : net) (s t : list bool), is_perm n p -> nvars N = n -> length s = n -> length t = n -> reach N s t <-> reach (perm_net p N) (perm_state p s) (perm_state p t).
Proof. exact perm_reach. Qed.

(* attractors (sets of well-formed states) *)
Theorem C17_perm_attractor : forall (n : nat) (p : list nat) (N : net) (A : state -> Prop), is_perm n p -> nvars N = n -> (forall s : state, A s -> length s = n) -> attractor N A <-> attractor (perm_net p N) (perm_set p A).
Proof. exact perm_attractor_weak. Qed.

Theorem C17_perm_trap_space : forall (n : nat) (p : list nat) (N : net) (S : list (option bool)), is_perm n p -> nvars N = n -> length S = n -> trap_space N S <-> trap_space (perm_net p N) (perm_space p S).
Proof. exact perm_trap_space. Qed.

Theorem C17_perm_percolate : forall (n : nat) (p : list nat) (N : net) (S : list (option bool)), is_perm n p -> nvars N = n -> length S = n -> percolate_b (perm_net p N) (perm_space p S) = perm_space p (percolate_b N S).
Proof. exact perm_percolate. Qed.

Theorem C17_perm_min_trap : forall (n : nat) (p : list nat) (N : net) (M : list (option bool)), is_perm n p -> nvars N = n -> length M = n -> min_trap N M <-> min_trap (perm_net p N) (perm_space p M).
Proof. exact perm_min_trap. Qed.

Theorem C17_perm_max_trap_in : forall (n : nat) (p : list nat) (N : net) (S M : list (option bool)), is_perm n p -> nvars N = n -> length S = n -> length M = n -> max_trap_in N S M <-> max_trap_in (perm_net p N) (perm_space p S) (perm_space p M).
Proof. exact perm_max_trap_in. Qed.

(* the solver model returns the permuted maximal trap spaces *)
Theorem C17_perm_max_traps : forall (n : nat) (p : list nat) (N : net) (S : list (option bool)) (srcs : list nat), is_perm n p -> nvars N = n -> length S = n -> (forall v : nat, In v srcs -> v < n) -> Permutation (max_traps_b (perm_net p N) (perm_space p S) (map (fun j : nat => index_of j p) srcs)) (map (perm_space p) (max_traps_b N S srcs)).
Proof. exact perm_max_traps_b. Qed.

Theorem C17_perm_min_traps : forall (n : nat) (p : list nat) (N : net) (S : list (option bool)), is_perm n p -> nvars N = n -> length S = n -> Permutation (min_traps_b (perm_net p N) (perm_space p S)) (map (perm_space p) (min_traps_b N S)).
Proof. exact perm_min_traps_b. Qed.

Theorem C17_perm_sources : forall (n : nat) (p : list nat) (N : net) (i : nat), is_perm n p -> nvars N = n -> i < n -> In i (sources_b (perm_net p N)) <-> In (nth i p 0) (sources_b N).
Proof. exact perm_sources. Qed.

(* the fully expanded diagrams of a network and of its reordering have the same node spaces and edges up to the permutation *)
Theorem C17_perm_hierarchy : forall (n : nat) (p : list nat) (N : net) (d d' : sd), is_perm n p -> nvars N = n -> Hierarchy N d -> Rooted d -> Hierarchy (perm_net p N) d' -> Rooted d' -> (forall X : list (option bool), length X = n -> In X (spaces d) <-> In (perm_space p X) (spaces d')) /\ (forall (X Y : space) (ms : list space), edge_view d X Y ms -> edge_view d' (perm_space p X) (perm_space p Y) (map (perm_space p) ms)).
Proof. exact perm_hierarchy. Qed.

(* name sanitisation *)
Theorem C17_sanitize_total : forall names : list name, exists out : list name, sanitize names = Some out.
Proof. exact sanitize_total. Qed.

Theorem C17_sanitize_valid : forall names out : list name, sanitize names = Some out -> forall s : name, In s out -> valid_name s = true.
Proof. exact sanitize_valid. Qed.

Theorem C17_sanitize_distinct : forall names out : list name, NoDup names -> sanitize names = Some out -> NoDup out.
Proof. exact sanitize_distinct. Qed.

Theorem C17_sanitize_length : forall names out : list name, sanitize names = Some out -> length out = length names.
Proof. exact sanitize_length. Qed.

Theorem C17_sanitize_keeps_valid : forall (names out : list name) (i : nat), sanitize names = Some out -> i < length names -> valid_name (nth i names []) = true -> nth i out [] = nth i names [].
Proof. exact sanitize_keeps_valid. Qed.

Theorem C17_sanitize_renamed_shape : forall (names out : list name) (i : nat), sanitize names = Some out -> i < length names -> valid_name (nth i names []) = false -> exists k : nat, nth i out [] = repeat 95%N k ++ subst_name (nth i names []).
Proof. exact sanitize_renamed_shape. Qed.

Theorem C17_sanitize_idempotent : forall names out : list name, sanitize names = Some out -> sanitize out = Some out.
Proof. exact sanitize_idempotent. Qed.

Theorem C17_check_only_spec : forall names : list name, check_only_ok names = true <-> sanitize names = Some names /\ (forall s : name, In s names -> valid_name s = true).
Proof. exact check_only_spec. Qed.

Theorem C17_place_round_trip : forall (v : name) (b : bool), place_to_variable (place_name v b) = Some (v, b).
Proof. exact place_round_trip. Qed.

Theorem C17_place_name_inj : forall (v : name) (b : bool) (w : name) (c : bool), place_name v b = place_name w c -> v = w /\ b = c.
Proof. exact place_name_inj. Qed.

(* defect D16, formally *)
Theorem C17_dollar_test_unsafe : exists (names out : list name) (s : name), NoDup names /\ sanitize_with valid_name_dollar names = Some out /\ In s out /\ valid_name s = false.
Proof. exact dollar_test_unsafe. Qed.

Example C17_example_perm : is_perm 3 [2; 0; 1] /\ perm_state [2; 0; 1] [true; false; false] = [false; true; false] /\
  perm_state (inv_perm [2; 0; 1]) [false; true; false] = [true; false; false].
Proof. split; [|split; reflexivity]. unfold is_perm. simpl. apply (Permutation_cons_app [0; 1] [] 2). simpl. apply Permutation_refl. Qed.
(* "a<newline>", "a{", "a_"  ->  "_a_", "__a_", "a_" *)
Example C17_example_sanitize : sanitize [[97; 10]; [97; 123]; [97; 95]]%N = Some [[95; 97; 95]; [95; 95; 97; 95]; [97; 95]]%N.
Proof. vm_compute. reflexivity. Qed.

Print Assumptions C17_source_sanitize_network_names.
Print Assumptions C17_source_sanitize_check_only.
Print Assumptions C17_equiv_trap_space.
Print Assumptions C17_equiv_percolate.
Print Assumptions C17_equiv_max_traps.
Print Assumptions C17_equiv_min_traps.
Print Assumptions C17_equiv_attractor.
Print Assumptions C17_flip_trap_space.
Print Assumptions C17_flip_percolate.
Print Assumptions C17_flip_min_trap.
Print Assumptions C17_flip_max_trap.
Print Assumptions C17_flip_attractor.
Print Assumptions C17_flip_trans.
Print Assumptions C17_perm_trans.
Print Assumptions C17_perm_reach.
Print Assumptions C17_perm_attractor.
Print Assumptions C17_perm_trap_space.
Print Assumptions C17_perm_percolate.
Print Assumptions C17_perm_min_trap.
Print Assumptions C17_perm_max_trap_in.
Print Assumptions C17_perm_max_traps.
Print Assumptions C17_perm_min_traps.
Print Assumptions C17_perm_sources.
Print Assumptions C17_perm_hierarchy.
Print Assumptions C17_sanitize_total.
Print Assumptions C17_sanitize_valid.
Print Assumptions C17_sanitize_distinct.
Print Assumptions C17_sanitize_length.
Print Assumptions C17_sanitize_keeps_valid.
Print Assumptions C17_sanitize_renamed_shape.
Print Assumptions C17_sanitize_idempotent.
Print Assumptions C17_check_only_spec.
Print Assumptions C17_place_round_trip.
Print Assumptions C17_place_name_inj.
Print Assumptions C17_dollar_test_unsafe.
