(* C17 -- Results do not depend on how the network is written down

   In the model a network IS its list of update functions on states, so logically equivalent formulas are
   extensionally equal networks (net_equiv).  Polarity flips act on nets, states and spaces.
   PARTIAL: variable reordering and name sanitisation are decided by the metamorphic run on the real code.

   This file contains only restatements closed by `exact` (statements produced by Coq's own
   `Check` of the library lemma) plus non-vacuity Examples, each followed by Print Assumptions. *)
From Coq Require Import List Bool Arith NArith Lia Relations Permutation.
Import ListNotations.
From BB Require Import BN Brute SpaceFacts TrapFacts PercolateFacts AttractorFacts Diagram Invariants Checks Filter
  Strict PetriNet Control Meta FilterFacts PetriNetFacts TrappistFacts DiagramStruct DiagramSem1 DiagramCache
  DiagramDepth DiagramComplete Termination ControlFacts MetaFacts Candidates StrictFacts MinExpandFacts CandidatesFacts SymbolicTest SymbolicTestFacts Signed ReductionFacts ControlFacts2 Main Blocks BlocksFacts ObsFacts OwnerFacts CandidatesTerm.

Theorem C17_equiv_trap_space : forall (N M : net) (S : space), net_equiv N M -> trap_space N S <-> trap_space M S.
Proof. exact equiv_trap_space. Qed.

Theorem C17_equiv_percolate : forall (N M : net) (S : list (option bool)), net_equiv N M -> length S = nvars N -> percolate_b N S = percolate_b M S.
Proof. exact equiv_percolate. Qed.

Theorem C17_equiv_max_traps : forall (N M : net) (S : list (option bool)) (srcs : list nat), net_equiv N M -> length S = nvars N -> max_traps_b N S srcs = max_traps_b M S srcs.
Proof. exact equiv_max_traps. Qed.

Theorem C17_equiv_min_traps : forall (N M : net) (S : list (option bool)), net_equiv N M -> length S = nvars N -> min_traps_b N S = min_traps_b M S.
Proof. exact equiv_min_traps. Qed.

Theorem C17_equiv_attractor : forall (N M : net) (A : state -> Prop), net_equiv N M -> attractor N A <-> attractor M A.
Proof. exact equiv_attractor. Qed.

Theorem C17_flip_trap_space : forall (fl : list bool) (N : net) (S : list (option bool)), length fl = nvars N -> length S = nvars N -> trap_space (flip_net fl N) (flip_space fl S) <-> trap_space N S.
Proof. exact flip_trap_space. Qed.

Theorem C17_flip_percolate : forall (fl : list bool) (N : net) (S : list (option bool)), length fl = nvars N -> length S = nvars N -> percolate_b (flip_net fl N) (flip_space fl S) = flip_space fl (percolate_b N S).
Proof. exact flip_percolate. Qed.

Theorem C17_flip_min_trap : forall (fl : list bool) (N : net) (M : list (option bool)), length fl = nvars N -> length M = nvars N -> min_trap (flip_net fl N) (flip_space fl M) <-> min_trap N M.
Proof. exact flip_min_trap. Qed.

Theorem C17_flip_max_trap : forall (fl : list bool) (N : net) (S M : list (option bool)), length fl = nvars N -> length S = nvars N -> length M = nvars N -> max_trap_in (flip_net fl N) (flip_space fl S) (flip_space fl M) <-> max_trap_in N S M.
Proof. exact flip_max_trap. Qed.

(* attractors, restricted to well-formed states *)
Theorem C17_flip_attractor : forall (fl : list bool) (N : net) (A : state -> Prop), length fl = nvars N -> (forall s : state, A s -> length s = nvars N) -> attractor (flip_net fl N) (fun s : state => length s = nvars N /\ A (flip_state fl s)) <-> attractor N A.
Proof. exact flip_attractor_weak. Qed.

Theorem C17_flip_trans : forall (fl : list bool) (N : net) (s t : list bool), length fl = nvars N -> length s = nvars N -> length t = nvars N -> trans (flip_net fl N) (flip_state fl s) (flip_state fl t) <-> trans N s t.
Proof. exact flip_trans_weak. Qed.

Print Assumptions C17_equiv_trap_space.
Print Assumptions C17_equiv_percolate.
Print Assumptions C17_equiv_max_traps.
Print Assumptions C17_equiv_min_traps.
Print Assumptions C17_equiv_attractor.
Print Assumptions C17_flip_trap_space.
Print Assumptions C17_flip_percolate.
Print Assumptions C17_flip_min_trap.
Print Assumptions C17_flip_max_trap.
Print Assumptions C17_flip_attractor.
Print Assumptions C17_flip_trans.
